(* rtpmpeg1audio: packet well-formedness (C06), round trip (C03), resynchronisation (C07),
   totality / boundedness on arbitrary histories (C08).
   Everything is proved for an arbitrary header parser [mpa] satisfying the contract below
   (Section variables, not axioms); the contract is then proved for the re-modelled mediacommon
   parser [mpa_parse] and the theorems are instantiated (suffix _mpa). *)
From GVL Require Import NList Wire Chunks Rtp.
From GV_mpeg1audio Require Import WireF Model.
From Coq Require Import ZifyBool ZifyNat ZifyN.
Open Scope N_scope.
Ltac splits := repeat match goal with |- _ /\ _ => split end.

(* ---------- generic helpers ---------- *)
Lemma seq_add_next s k : seq_add (seq_next s) k = seq_add s (k + 1).
Proof. unfold seq_add, seq_next. rewrite N.add_mod_idemp_l by lia. f_equal. lia. Qed.
Lemma seq_add_0 s : s < 65536 -> seq_add s 0 = s.
Proof. intros H. unfold seq_add. rewrite N.add_0_r. now apply N.mod_small. Qed.
Lemma seq_add_add s a b : seq_add (seq_add s a) b = seq_add s (a + b).
Proof. unfold seq_add. rewrite N.add_mod_idemp_l by lia. f_equal. lia. Qed.
Lemma seq_add_lt s k : seq_add s k < 65536.
Proof. unfold seq_add. apply N.mod_lt. lia. Qed.
Lemma seq_next_lt s : seq_next s < 65536.
Proof. unfold seq_next. apply N.mod_lt. lia. Qed.

Lemma nnth_app_l {A} (l1 l2 : list A) i : i < nlen l1 -> nnth i (l1 ++ l2) = nnth i l1.
Proof.
  revert i; induction l1 as [|x t IH]; intros i H; cbn [nlen app nnth] in *; [lia|].
  destruct (N.eqb_spec i 0); [reflexivity|]. apply IH. lia.
Qed.
Lemma nnth_app_r {A} (l1 l2 : list A) i : nlen l1 <= i -> nnth i (l1 ++ l2) = nnth (i - nlen l1) l2.
Proof.
  revert i; induction l1 as [|x t IH]; intros i H; cbn [nlen app nnth] in *; [f_equal; lia|].
  destruct (N.eqb_spec i 0); [lia|]. rewrite IH by lia. f_equal. lia.
Qed.
Lemma nnth_In {A} (l : list A) : forall i x, nnth i l = Some x -> In x l.
Proof.
  induction l as [|y t IH]; intros i x H; cbn [nnth] in H; [discriminate|].
  destruct (i =? 0); [injection H as ->; now left|right; eapply IH; eassumption].
Qed.
Lemma concat_snoc {A} (l : list (list A)) x : concat (l ++ [x]) = concat l ++ x.
Proof. rewrite concat_app. cbn. now rewrite app_nil_r. Qed.
Lemma nlen_concat_ge {A} (l : list (list A)) : Forall (fun f => 0 < nlen f) l -> nlen l <= nlen (concat l).
Proof. induction 1 as [|x t Hx Ht IH]; cbn [nlen concat]; [lia|]. rewrite nlen_app. lia. Qed.
Lemma in_concat_len {A} (l : list (list A)) x : In x l -> nlen x <= nlen (concat l).
Proof.
  induction l as [|y t IH]; intros H; [contradiction|]. cbn [concat]. rewrite nlen_app.
  destruct H as [->|H]; [lia|]. apply IH in H. lia.
Qed.
Lemma be16_val v : v < 65536 -> ((v / 256) mod 256) * 256 + v mod 256 = v.
Proof.
  intros H. assert (v / 256 < 256) by (apply N.div_lt_upper_bound; lia).
  rewrite (N.mod_small (v / 256)) by assumption. pose proof (N.div_mod v 256). lia.
Qed.

Definition psize (p : packet) : N := nlen (ppayload p).
Definition seqs_ok (seq : N) (ps : list packet) : Prop :=
  forall i p, nnth i ps = Some p -> pseq p = seq_add seq i.
Lemma seqs_ok_app seq ps qs : seqs_ok seq ps -> seqs_ok (seq_add seq (nlen ps)) qs -> seqs_ok seq (ps ++ qs).
Proof.
  intros H1 H2 i p H. destruct (N.ltb_spec i (nlen ps)).
  - rewrite nnth_app_l in H by assumption. now apply H1.
  - rewrite nnth_app_r in H by assumption. apply H2 in H. rewrite H, seq_add_add. f_equal. lia.
Qed.

(* ---------- join ---------- *)
Lemma join_aux_exact frags : forall size n acc,
  n = nlen acc -> size = n + nlen (concat frags) -> join_aux frags size n acc = Some (acc ++ concat frags).
Proof.
  induction frags as [|p t IH]; intros size n acc Hn Hs; cbn [join_aux concat] in *.
  - cbn [nlen] in Hs. replace (size - n) with 0 by lia. cbn [nrep]. reflexivity.
  - rewrite nlen_app in Hs. destruct (N.ltb_spec size n); [lia|].
    rewrite ntake_all by lia. rewrite IH; [now rewrite <- app_assoc| rewrite nlen_app; lia | lia].
Qed.
Lemma join_exact frags : join frags (nlen (concat frags)) = Some (concat frags).
Proof. unfold join. now rewrite join_aux_exact with (acc := []). Qed.

(* ====================================================================================== *)
(* ---------- encoder (C06): no property of the header parser is needed ---------- *)
Section E.
Variable mpa : bytes -> pres.
Variable max : N.
Hypothesis Hmax : 5 <= max.
Notation len_agg := Model.len_agg.

Lemma len_agg_snoc b a : len_agg (b ++ [a]) None = len_agg b (Some a).
Proof. unfold Model.len_agg. rewrite concat_snoc, nlen_app. lia. Qed.

Definition batch_ok (b : list bytes) : Prop := 2 <= nlen b -> len_agg b None <= max.

Lemma batch_loop_ok fs : forall b, batch_ok b -> Forall batch_ok (batch_loop max fs b).
Proof.
  induction fs as [|a t IH]; intros b Hb; cbn [batch_loop]; [now constructor|].
  destruct (N.leb_spec (len_agg b (Some a)) max) as [Hle|Hgt].
  - apply IH. intros _. now rewrite len_agg_snoc.
  - assert (H1 : batch_ok [a]) by (intros H; cbn [nlen] in H; lia).
    destruct b; [now apply IH|]. constructor; [assumption|now apply IH].
Qed.
Lemma batch_loop_concat fs : forall b, concat (batch_loop max fs b) = b ++ fs.
Proof.
  induction fs as [|a t IH]; intros b; cbn [batch_loop].
  - cbn. now rewrite !app_nil_r.
  - destruct (len_agg b (Some a) <=? max).
    + rewrite IH, <- app_assoc. reflexivity.
    + destruct b as [|b0 bt]; [now rewrite IH|]. cbn [concat]. rewrite IH. reflexivity.
Qed.
Lemma batch_loop_ne fs : forall b, batch_loop max fs b <> [].
Proof.
  induction fs as [|a t IH]; intros b; cbn [batch_loop]; [discriminate|].
  destruct (len_agg b (Some a) <=? max); [apply IH|]. destruct b; [apply IH|discriminate].
Qed.
Lemma batch_loop_nonempty fs : forall b, (b <> [] \/ fs <> []) -> Forall (fun x => x <> []) (batch_loop max fs b).
Proof.
  induction fs as [|a t IH]; intros b H; cbn [batch_loop].
  - constructor; [|constructor]. destruct H as [H|H]; [assumption|contradiction].
  - destruct (len_agg b (Some a) <=? max).
    + apply IH. left. destruct b; discriminate.
    + destruct b as [|b0 bt]; [apply IH; left; discriminate|].
      constructor; [discriminate|]. apply IH. left; discriminate.
Qed.

Lemma frag_pkts_len seq ts cs : forall pos, nlen (frag_pkts seq ts pos cs) = nlen cs.
Proof. revert seq; induction cs as [|x t IH]; intros seq pos; cbn [frag_pkts nlen]; [reflexivity|]. now rewrite IH. Qed.

Lemma frag_pkts_wf ts cs : forall seq pos, seq < 65536 ->
  seqs_ok seq (frag_pkts seq ts pos cs) /\
  Forall (fun p => pmarker p = true /\ pts p = ts /\ exists x, In x cs /\ psize p = 4 + nlen x) (frag_pkts seq ts pos cs).
Proof.
  induction cs as [|x t IH]; intros seq pos Hs; cbn [frag_pkts].
  - split; [|constructor]. intros i p H. cbn in H. discriminate.
  - destruct (IH (seq_next seq) (pos + nlen x) (seq_next_lt _)) as [H1 H2]. split.
    + intros i p H. cbn [nnth] in H. destruct (N.eqb_spec i 0) as [->|Hi].
      * injection H as <-. cbn [pseq]. now rewrite seq_add_0.
      * apply H1 in H. rewrite H, seq_add_next. f_equal. lia.
    + constructor.
      * splits; try reflexivity. exists x. split; [now left|]. unfold psize; cbn [ppayload be16 app nlen]. lia.
      * eapply Forall_impl; [|exact H2]. intros p (Ha & Hb & y & Hy & Hz). splits; try assumption. exists y. split; [now right|assumption].
Qed.

(* one batch: the group of packets is non-empty, within the limit, sequence numbers run on,
   the marker is set on every packet *)
Lemma write_batch_wf b ts seq : batch_ok b -> seq < 65536 -> Forall (fun a => a <> []) b ->
  exists g, write_batch max b ts seq = Some g /\ g <> [] /\
    Forall (fun p => psize p <= max /\ pts p = ts /\ pmarker p = true) g /\ seqs_ok seq g.
Proof.
  intros Hb Hs Hne.
  assert (Hagg : len_agg b None <= max ->
     exists g, Some (write_agg b ts seq) = Some g /\ g <> [] /\
       Forall (fun p => psize p <= max /\ pts p = ts /\ pmarker p = true) g /\ seqs_ok seq g).
  { intros Hle. eexists. split; [reflexivity|]. split; [discriminate|]. split.
    - constructor; [|constructor]. splits; try reflexivity. unfold psize, Model.len_agg in *; cbn [ppayload app nlen] in *. lia.
    - intros i p H. unfold write_agg in H. cbn [nnth] in H. destruct (N.eqb_spec i 0) as [->|]; [|discriminate].
      injection H as <-. cbn [pseq]. now rewrite seq_add_0. }
  destruct b as [|a [|a2 t]].
  - apply Hagg. unfold Model.len_agg. cbn. lia.
  - cbn [write_batch]. destruct (N.ltb_spec (len_agg [a] None) max) as [Hlt|Hge].
    + apply Hagg. lia.
    + unfold write_frag. destruct (N.ltb_spec max 5); [lia|].
      inversion Hne as [|? ? Ha _]; subst.
      assert (Hav : 0 < max - 4) by lia.
      destruct (frag_pkts_wf ts (chunks (max - 4) a) seq 0 Hs) as [H1 H2].
      eexists. split; [reflexivity|]. splits.
      * rewrite chunks_cons by assumption. discriminate.
      * eapply Forall_impl; [|exact H2]. intros p (Ha1 & Ha2 & x & Hx & Hsz). splits; try assumption.
        pose proof (chunks_bounds (max - 4) a Hav) as Hcb. rewrite Forall_forall in Hcb. specialize (Hcb x Hx). lia.
      * exact H1.
  - apply Hagg. apply Hb. cbn [nlen]. lia.
Qed.

(* the whole Encode call, batch by batch; EErr: a frame of a flushed batch has no parseable header *)
Fixpoint enc_groups (bs : list (list bytes)) (ts seq : N) : eres (list (list packet)) :=
  match bs with
  | [] => EOk []
  | b :: t =>
      match write_batch max b ts seq with
      | None => EPanic
      | Some g =>
          match t with
          | [] => EOk [g]
          | _ =>
              match batch_samples mpa b ts with
              | EOk ts' =>
                  match enc_groups t ts' (seq_add seq (nlen g)) with
                  | EOk gs => EOk (g :: gs)
                  | e => e
                  end
              | EErr => EErr
              | EPanic => EPanic
              end
          end
      end
  end.

Lemma enc_batches_groups bs : forall ts seq, seq < 65536 ->
  enc_batches mpa max bs ts seq =
  match enc_groups bs ts seq with
  | EOk gs => EOk (concat gs, seq_add seq (nlen (concat gs)))
  | EErr => EErr
  | EPanic => EPanic
  end.
Proof.
  induction bs as [|b t IH]; intros ts seq Hs; cbn [enc_batches enc_groups].
  - cbn. now rewrite seq_add_0.
  - destruct (write_batch max b ts seq) as [g|]; [|reflexivity].
    destruct t as [|b2 t2]; [cbn [concat]; now rewrite app_nil_r|].
    destruct (batch_samples mpa b ts) as [ts'| |]; try reflexivity.
    rewrite IH by apply seq_add_lt. destruct (enc_groups (b2 :: t2) ts' _) as [gs| |]; try reflexivity.
    cbn [concat]. rewrite nlen_app, seq_add_add. reflexivity.
Qed.

Definition group_ok (g : list packet) : Prop :=
  g <> [] /\ Forall (fun p => psize p <= max /\ pmarker p = true) g.

Lemma enc_groups_wf bs : forall ts seq gs, seq < 65536 -> Forall batch_ok bs ->
  Forall (Forall (fun a => a <> [])) bs -> enc_groups bs ts seq = EOk gs ->
  nlen gs = nlen bs /\ Forall group_ok gs /\ seqs_ok seq (concat gs).
Proof.
  induction bs as [|b t IH]; intros ts seq gs Hs Hok Hne He; cbn [enc_groups] in He.
  - injection He as <-. splits; [reflexivity|constructor|]. intros i p H. cbn in H. discriminate.
  - inversion Hok as [|? ? Hb Ht]; subst. inversion Hne as [|? ? Hn Hnt]; subst.
    destruct (write_batch_wf b ts seq Hb Hs Hn) as (g & Hg & Hgne & Hgsz & Hgseq). rewrite Hg in He.
    assert (Hgok : group_ok g).
    { split; [assumption|]. eapply Forall_impl; [|exact Hgsz]. cbn. tauto. }
    destruct t as [|b2 t2].
    + injection He as <-. splits; [reflexivity|constructor; [assumption|constructor]|]. cbn [concat]. now rewrite app_nil_r.
    + destruct (batch_samples mpa b ts) as [ts'| |]; try discriminate.
      destruct (enc_groups (b2 :: t2) ts' (seq_add seq (nlen g))) as [gs'| |] eqn:E; try discriminate.
      injection He as <-. destruct (IH ts' _ gs' (seq_add_lt _ _) Ht Hnt E) as (Hl & Hall & Hseq).
      splits; [cbn [nlen] in *; now rewrite Hl|constructor; assumption|]. cbn [concat]. now apply seqs_ok_app.
Qed.

Lemma enc_groups_nopanic bs : (forall b, mpa b <> PPanic) -> forall ts seq, seq < 65536 -> Forall batch_ok bs ->
  Forall (Forall (fun a => a <> [])) bs -> enc_groups bs ts seq <> EPanic.
Proof.
  intros Hnp. induction bs as [|b t IH]; intros ts seq Hs Hok Hne; cbn [enc_groups]; [discriminate|].
  inversion Hok as [|? ? Hb Ht]; subst. inversion Hne as [|? ? Hn Hnt]; subst.
  destruct (write_batch_wf b ts seq Hb Hs Hn) as (g & Hg & _). rewrite Hg.
  destruct t as [|b2 t2]; [discriminate|].
  assert (Hbs : forall l ts0, batch_samples mpa l ts0 <> EPanic).
  { induction l as [|f l IHl]; intros ts0; cbn [batch_samples]; [discriminate|].
    specialize (Hnp f). destruct (mpa f); [apply IHl|discriminate|congruence]. }
  specialize (Hbs b ts). destruct (batch_samples mpa b ts) as [ts'| |]; [|discriminate|congruence].
  specialize (IH ts' (seq_add seq (nlen g)) (seq_add_lt _ _) Ht Hnt).
  destruct (enc_groups (b2 :: t2) ts' _); [discriminate|discriminate|congruence].
Qed.

Lemma nonempty_batches fs : Forall (fun a : bytes => a <> []) fs ->
  Forall (Forall (fun a : bytes => a <> [])) (batch_loop max fs []).
Proof.
  intros Hne.
  assert (G : forall bs, Forall (fun a : bytes => a <> []) (concat bs) -> Forall (Forall (fun a : bytes => a <> [])) bs).
  { induction bs as [|x t IHb]; intros H; constructor; cbn [concat] in H; apply Forall_app in H; [tauto|apply IHb; tauto]. }
  apply G. rewrite batch_loop_concat. exact Hne.
Qed.

(* C06: whenever Encode succeeds, every payload is within the limit, every packet carries the
   marker, sequence numbers run on from the encoder's counter *)
Theorem enc_wellformed seq fs ps seq' : seq < 65536 -> Forall (fun a => a <> []) fs ->
  enc mpa max seq fs = EOk (ps, seq') ->
  exists gs, enc_groups (batch_loop max fs []) 0 seq = EOk gs /\ ps = concat gs /\
    seq' = seq_add seq (nlen ps) /\ nlen gs = nlen (batch_loop max fs []) /\
    Forall group_ok gs /\ seqs_ok seq ps.
Proof.
  intros Hs Hne He. unfold enc in He. rewrite enc_batches_groups in He by assumption.
  destruct (enc_groups (batch_loop max fs []) 0 seq) as [gs| |] eqn:E; try discriminate.
  injection He as <- <-.
  destruct (enc_groups_wf (batch_loop max fs []) 0 seq gs Hs) as (Hl & Hall & Hseq); try assumption.
  - apply batch_loop_ok. intros H. cbn in H. lia.
  - now apply nonempty_batches.
  - exists gs. splits; try assumption; reflexivity.
Qed.

Theorem enc_nopanic seq fs : (forall b, mpa b <> PPanic) -> seq < 65536 -> Forall (fun a => a <> []) fs ->
  enc mpa max seq fs <> EPanic.
Proof.
  intros Hnp Hs Hne. unfold enc. rewrite enc_batches_groups by assumption.
  pose proof (enc_groups_nopanic (batch_loop max fs []) Hnp 0 seq Hs) as H.
  destruct (enc_groups (batch_loop max fs []) 0 seq); [discriminate|discriminate|].
  exfalso. apply H; [apply batch_loop_ok; intros H0; cbn in H0; lia|now apply nonempty_batches|reflexivity].
Qed.

End E.

(* ====================================================================================== *)
(* ---------- decoder, under the contract of the header parser ---------- *)
Section D.
Variable mpa : bytes -> pres.
Variable FL : N.      (* the largest frame length the parser can announce *)
Hypothesis K_np  : forall b, mpa b <> PPanic.
Hypothesis K_pos : forall b fl sc, mpa b = POk fl sc -> 0 < fl.
Hypothesis K_len : forall b fl sc, mpa b = POk fl sc -> 5 <= nlen b.
Hypothesis K_pre : forall a b, 5 <= nlen a -> mpa (a ++ b) = mpa a.
Hypothesis K_max : forall b fl sc, mpa b = POk fl sc -> fl <= FL.
Hypothesis K_FL  : FL < 65536.

Notation dec := (dec mpa).
Notation dec_run := (dec_run mpa).
Notation agg_loop := (agg_loop mpa).

Definition fsize (f : list bytes) : N := nlen (concat f).
Definition psz (p : packet) : N := nlen (ppayload p).

(* ---- the loop over an offset-0 packet: terminates, takes its frames out of the buffer ---- *)
Lemma agg_loop_spec fuel : forall buf frames, nlen buf < nlen fuel ->
  match agg_loop fuel buf frames with
  | APanic => False
  | ADone fs => fsize fs <= fsize frames + nlen buf
  | AFrag fl => frames = [] /\ nlen buf < fl /\ fl <= FL /\ 5 <= nlen buf
  | AErr => True
  end.
Proof.
  induction fuel as [|f0 fuel IH]; intros buf frames Hf; [cbn [nlen] in Hf; lia|].
  cbn [Model.agg_loop]. pose proof (K_np buf) as Hnp.
  destruct (mpa buf) as [fl sc| |] eqn:E; [|exact I|congruence].
  pose proof (K_pos _ _ _ E) as Hpos. pose proof (K_max _ _ _ E) as Hmx. pose proof (K_len _ _ _ E) as Hl5.
  destruct (N.leb_spec fl (nlen buf)) as [Hle|Hgt].
  - assert (Htk : nlen (ntake fl buf) = fl) by (rewrite nlen_ntake; lia).
    assert (Hdr : nlen (ndrop fl buf) = nlen buf - fl) by apply nlen_ndrop.
    destruct (ndrop fl buf) as [|y yt] eqn:Ed.
    + unfold fsize. rewrite concat_snoc, nlen_app, Htk. lia.
    + specialize (IH (y :: yt) (frames ++ [ntake fl buf])). cbn [nlen] in Hf.
      destruct (agg_loop fuel (y :: yt) (frames ++ [ntake fl buf])).
      * unfold fsize in *. rewrite concat_snoc, nlen_app, Htk in IH. lia.
      * destruct IH as (H1 & _); [lia|]. destruct frames; discriminate.
      * exact I.
      * apply IH. lia.
  - destruct frames; [|exact I]. splits; [reflexivity|lia|assumption|assumption].
Qed.

(* ---- invariant of the reassembly state ---- *)
Definition Inv (d : dstate) : Prop :=
  dsize d = nlen (concat (dfrags d)) /\ (dsize d = 0 -> dfrags d = []) /\
  Forall (fun f => 0 < nlen f) (dfrags d) /\ (0 < dsize d -> 0 < dexp d /\ dsize d + dexp d <= FL).
Definition clean (d : dstate) : Prop := dsize d = 0 /\ dfrags d = [].

Lemma inv_init : Inv dinit.
Proof. unfold Inv, dinit; cbn. splits; auto; lia. Qed.
Lemma inv_clean fi ex : Inv (mkD fi [] 0 ex).
Proof. unfold Inv; cbn. splits; auto; lia. Qed.
Lemma inv_reset d : Inv (dreset d).
Proof. apply inv_clean. Qed.

(* one Decode call: invariant, no panic (no endless loop), retained and returned sizes bounded *)
Lemma dec_step P d p : Inv d -> psz p <= P ->
  let '(d', r) := dec d p in
  Inv d' /\ r <> DPanic /\ (forall f, r = DFrame f -> fsize f <= N.max FL P).
Proof.
  intros HI HP.
  assert (Hreset : Inv (dreset d) /\ @DErr (list bytes) <> DPanic /\
                   (forall f, @DErr (list bytes) = DFrame f -> fsize f <= N.max FL P)).
  { splits; [apply inv_reset|discriminate|discriminate]. }
  unfold Model.dec. unfold psz in HP.
  destruct (ppayload p) as [|b0 [|b1 [|b2 [|b3 [|b4 rest']]]]]; try exact Hreset.
  remember (b4 :: rest') as rest eqn:Er.
  assert (Hrl : 0 < nlen rest /\ nlen rest <= P) by (subst rest; cbn [nlen] in *; lia).
  destruct (b0 * 256 + b1 =? 0); cbn [negb]; [|exact Hreset].
  destruct (N.eqb_spec (b2 * 256 + b3) 0) as [Hoff|Hoff].
  - pose proof (agg_loop_spec (0 :: rest) rest []) as Ha.
    destruct (agg_loop (0 :: rest) rest []) as [fs|fl| |].
    + splits; [apply inv_clean|discriminate|]. intros f E; injection E as <-.
      unfold fsize in *. cbn [concat nlen] in Ha. specialize (Ha ltac:(cbn [nlen]; lia)). lia.
    + destruct Ha as (_ & H2 & H3 & H4); [cbn [nlen]; lia|].
      splits; [|discriminate|discriminate]. unfold Inv; cbn [dsize dfrags dexp concat]. rewrite app_nil_r.
      splits; [reflexivity|lia|constructor; [lia|constructor]|lia].
    + splits; [apply inv_clean|discriminate|discriminate].
    + exfalso. apply Ha. cbn [nlen]. lia.
  - destruct (N.eqb_spec (b2 * 256 + b3) (dsize d)) as [Heq|Hneq]; cbn [negb].
    2:{ destruct (dfirst d); [exact Hreset|]. splits; [exact HI|discriminate|discriminate]. }
    destruct (N.ltb_spec (dexp d) (nlen rest)) as [|Hex]; [exact Hreset|].
    destruct HI as (Hs & Hz & Hfr & Hexp). destruct Hexp as [He1 He2]; [lia|].
    destruct (N.ltb_spec 0 (dexp d - nlen rest)) as [Hmore|Hdone].
    + splits; [|discriminate|discriminate]. unfold Inv; cbn [dsize dfrags dexp].
      rewrite concat_snoc, nlen_app. splits; [lia|lia| |lia].
      apply Forall_app. split; [assumption|]. constructor; [lia|constructor].
    + cbn [dfrags dsize].
      replace (dsize d + nlen rest) with (nlen (concat (dfrags d ++ [rest])))
        by (rewrite concat_snoc, nlen_app; lia).
      rewrite join_exact. splits; [apply inv_reset|discriminate|].
      intros f E; injection E as <-. unfold fsize; cbn [concat]. rewrite app_nil_r, concat_snoc, nlen_app. lia.
Qed.

Lemma dec_run_spec P hist : forall d, Inv d -> Forall (fun p => psz p <= P) hist ->
  let '(d', rs) := dec_run d hist in
  Inv d' /\ ~ In DPanic rs /\ forall f, In (DFrame f) rs -> fsize f <= N.max FL P.
Proof.
  induction hist as [|p t IH]; intros d HI HF; cbn [Model.dec_run].
  - splits; [assumption|intros []|intros f []].
  - inversion HF as [|? ? Hp Ht]; subst.
    pose proof (dec_step P d p HI Hp) as Hstep. destruct (dec d p) as [d' r].
    destruct Hstep as (HI' & Hnp & Hfr).
    specialize (IH d' HI' Ht). destruct (dec_run d' t) as [d'' rs].
    destruct IH as (HI'' & Hnp' & Hfr').
    assert (G : Inv d'' /\ ~ In DPanic (r :: rs) /\ forall f, In (DFrame f) (r :: rs) -> fsize f <= N.max FL P).
    { splits; [assumption| |].
      - intros [H|H]; [congruence|contradiction].
      - intros f [H|H]; [now apply Hfr|now apply Hfr']. }
    destruct r; try exact G. congruence.
Qed.

Lemma hist_bound (hist : list packet) : exists P, Forall (fun p => psz p <= P) hist.
Proof.
  induction hist as [|p t [P HF]]; [exists 0; constructor|].
  exists (N.max P (psz p)). constructor; [lia|]. eapply Forall_impl; [|exact HF]. cbn. intros; lia.
Qed.

Theorem total hist : ~ In DPanic (snd (dec_run dinit hist)).
Proof.
  destruct (hist_bound hist) as [P HF]. pose proof (dec_run_spec P hist dinit inv_init HF) as H.
  destruct (dec_run dinit hist) as [d rs]. cbn [snd]. tauto.
Qed.

(* retained bytes and slice headers never exceed the largest frame length (whatever the packet sizes);
   a returned frame list is at most max(FL, packet) bytes *)
Theorem bounded P hist :
  Forall (fun p => psz p <= P) hist ->
  let '(d, rs) := dec_run dinit hist in
  fst (retained d) <= FL /\ snd (retained d) <= FL /\
  forall f, In (DFrame f) rs -> fsize f <= N.max FL P.
Proof.
  intros HF. pose proof (dec_run_spec P hist dinit inv_init HF) as H. destruct (dec_run dinit hist) as [d rs].
  destruct H as ((Hs & Hz & Hne & Hexp) & _ & Hfr).
  assert (Hb : nlen (concat (dfrags d)) <= FL).
  { destruct (N.eq_dec (dsize d) 0) as [E|E]; [lia|]. destruct Hexp; lia. }
  unfold retained; cbn [fst snd]. splits; [assumption| |assumption].
  pose proof (nlen_concat_ge (dfrags d) Hne). lia.
Qed.

End D.

(* ====================================================================================== *)
(* ---------- round trip (C03) and resynchronisation (C07) ---------- *)
Section R.
Variable mpa : bytes -> pres.
Variable FL : N.
Variable max : N.
Hypothesis K_np  : forall b, mpa b <> PPanic.
Hypothesis K_pos : forall b fl sc, mpa b = POk fl sc -> 0 < fl.
Hypothesis K_len : forall b fl sc, mpa b = POk fl sc -> 5 <= nlen b.
Hypothesis K_pre : forall a b, 5 <= nlen a -> mpa (a ++ b) = mpa a.
Hypothesis K_max : forall b fl sc, mpa b = POk fl sc -> fl <= FL.
Hypothesis K_FL  : FL < 65536.
Hypothesis Hmax : 9 <= max.      (* the first fragment must hold the 5 header bytes the parser insists on *)

Notation dec := (dec mpa).
Notation dec_run := (dec_run mpa).
Notation agg_loop := (agg_loop mpa).

(* a frame whose length is the one its own header announces *)
Definition valid_au (f : bytes) : Prop := exists sc, mpa f = POk (nlen f) sc.
Definition valid_frame (fs : list bytes) : Prop := fs <> [] /\ Forall valid_au fs.
Definition ready (d : dstate) : Prop := dsize d = 0 /\ dfrags d = [] /\ dfirst d = true.

Lemma valid_au_len f : valid_au f -> 5 <= nlen f /\ nlen f <= FL.
Proof. intros [sc H]. split; [eapply K_len; eassumption|eapply K_max; eassumption]. Qed.

Lemma agg_loop_ok B : forall frames fuel, B <> [] -> Forall valid_au B -> nlen (concat B) < nlen fuel ->
  agg_loop fuel (concat B) frames = ADone (frames ++ B).
Proof.
  induction B as [|f t IH]; intros frames fuel Hne Hv Hf; [contradiction|].
  inversion Hv as [|? ? Hvf Hvt]; subst. destruct (valid_au_len f Hvf) as [Hl5 _]. destruct Hvf as [sc Hsc].
  destruct fuel as [|f0 fuel]; [cbn [nlen] in Hf; lia|]. cbn [Model.agg_loop concat].
  rewrite K_pre by assumption. rewrite Hsc. rewrite nlen_app.
  destruct (N.leb_spec (nlen f) (nlen f + nlen (concat t))); [|lia].
  rewrite ndrop_app_exact, ntake_app_exact.
  destruct t as [|f2 t2].
  - cbn [concat]. reflexivity.
  - specialize (IH (frames ++ [f]) fuel ltac:(discriminate) Hvt).
    assert (Hfl : nlen (concat (f2 :: t2)) < nlen fuel).
    { change (concat (f :: f2 :: t2)) with (f ++ concat (f2 :: t2)) in Hf. rewrite nlen_app in Hf. cbn [nlen] in Hf. lia. }
    assert (Hc2 : 5 <= nlen (concat (f2 :: t2))).
    { inversion Hvt as [|? ? Hv2 _]; subst. destruct (valid_au_len f2 Hv2) as [H5 _]. cbn [concat]. rewrite nlen_app. lia. }
    destruct (concat (f2 :: t2)) as [|y yt].
    + cbn [nlen] in Hc2. lia.
    + rewrite IH by assumption. now rewrite <- app_assoc.
Qed.

Lemma dec_off0 d seq ts m rest : rest <> [] ->
  dec d (mkPkt seq ts m ([0; 0; 0; 0] ++ rest)) =
  match agg_loop (0 :: rest) rest [] with
  | ADone frames => (mkD true [] 0 (dexp d), DFrame frames)
  | AErr => (mkD true [] 0 (dexp d), DErr)
  | APanic => (mkD true [] 0 (dexp d), DPanic)
  | AFrag fl => (mkD true [rest] (nlen rest) (fl - nlen rest), DMore)
  end.
Proof. intros Hne. destruct rest as [|b4 rest']; [contradiction|]. reflexivity. Qed.

(* an aggregated packet: from ANY decoder state (an offset-0 packet drops whatever was pending) *)
Lemma dec_agg B d seq ts : B <> [] -> Forall valid_au B ->
  exists d', dec d (mkPkt seq ts true ([0; 0; 0; 0] ++ concat B)) = (d', DFrame B) /\ ready d'.
Proof.
  intros Hne Hv. assert (Hc : concat B <> []).
  { destruct B as [|f t]; [contradiction|]. inversion Hv as [|? ? Hvf _]; subst. destruct (valid_au_len f Hvf) as [H5 _].
    cbn [concat]. intros E. apply (f_equal (@nlen N)) in E. rewrite nlen_app in E. cbn [nlen] in E. lia. }
  rewrite dec_off0 by assumption. rewrite agg_loop_ok; [|assumption|assumption|cbn [nlen]; lia].
  eexists. split; [reflexivity|]. unfold ready; cbn. tauto.
Qed.

Lemma dec_cont d seq ts pos x : x <> [] -> pos < 65536 -> pos <> 0 -> pos = dsize d -> nlen x <= dexp d ->
  dec d (mkPkt seq ts true ([0; 0] ++ be16 pos ++ x)) =
  (let d' := mkD (dfirst d) (dfrags d ++ [x]) (dsize d + nlen x) (dexp d - nlen x) in
   if 0 <? dexp d - nlen x then (d', DMore)
   else match join (dfrags d') (dsize d') with
        | Some f => (dreset d', DFrame [f])
        | None => (d', DPanic)
        end).
Proof.
  intros Hne Hp Hp0 Hps Hex. destruct x as [|b4 rest']; [contradiction|].
  unfold Model.dec. cbn [ppayload be16 app]. cbn [N.mul N.add N.eqb negb].
  rewrite be16_val by assumption.
  destruct (N.eqb_spec pos 0); [contradiction|]. destruct (N.eqb_spec pos (dsize d)); [|contradiction]. cbn [negb].
  destruct (N.ltb_spec (dexp d) (nlen (b4 :: rest'))); [lia|]. reflexivity.
Qed.

Definition settled_as (d0 d' : dstate) : Prop := dsize d' = 0 /\ dfrags d' = [] /\ dfirst d' = dfirst d0.

(* the remaining pieces of a fragmented frame *)
Lemma dec_rest ts cs : forall d seq pos,
  cs <> [] -> Forall (fun x => x <> []) cs -> pos = dsize d -> 0 < pos ->
  dexp d = nlen (concat cs) -> dsize d = nlen (concat (dfrags d)) -> pos + nlen (concat cs) < 65536 ->
  exists d', dec_run d (frag_pkts seq ts pos cs) =
    (d', repeat DMore (length cs - 1) ++ [DFrame [concat (dfrags d) ++ concat cs]]) /\ settled_as d d'.
Proof.
  induction cs as [|x t IH]; intros d seq pos Hne Hnn Hpos Hp0 Hexp Hsz Hlt; [contradiction|].
  inversion Hnn as [|? ? Hx Hnt]; subst pos. cbn [concat] in Hexp, Hlt. rewrite nlen_app in Hexp, Hlt.
  cbn [frag_pkts Model.dec_run]. rewrite dec_cont; [|assumption|lia|lia|reflexivity|lia].
  assert (Hxl : 0 < nlen x) by (destruct x; [contradiction|cbn [nlen]; lia]).
  destruct t as [|x2 t2].
  - cbn [concat nlen] in Hexp. replace (dexp d - nlen x) with 0 by lia. cbn [N.ltb N.compare].
    cbn [dfrags dsize]. replace (dsize d + nlen x) with (nlen (concat (dfrags d ++ [x]))) by (rewrite concat_snoc, nlen_app; lia).
    rewrite join_exact. cbn [frag_pkts Model.dec_run length Nat.sub repeat app concat]. rewrite concat_snoc, app_nil_r.
    eexists. split; [reflexivity|]. unfold settled_as; cbn. tauto.
  - assert (Hx2 : 0 < nlen (concat (x2 :: t2))).
    { inversion Hnt as [|? ? Hx2 _]; subst. cbn [concat]. rewrite nlen_app. destruct x2; [contradiction|cbn [nlen]; lia]. }
    destruct (N.ltb_spec 0 (dexp d - nlen x)); [|lia].
    set (d1 := mkD (dfirst d) (dfrags d ++ [x]) (dsize d + nlen x) (dexp d - nlen x)).
    destruct (IH d1 (seq_next seq) (dsize d + nlen x)) as (d' & Hrun & Hst).
    + discriminate.
    + assumption.
    + reflexivity.
    + lia.
    + unfold d1; cbn [dexp]. lia.
    + unfold d1; cbn [dsize dfrags]. rewrite concat_snoc, nlen_app. lia.
    + lia.
    + cbv zeta. cbv iota beta. rewrite Hrun. exists d'. split; [|exact Hst].
      unfold d1; cbn [dfrags]. rewrite concat_snoc, <- app_assoc.
      cbn [length Nat.sub]. rewrite Nat.sub_0_r. cbn [concat]. reflexivity.
Qed.

(* all the packets of one fragmented frame, from ANY decoder state *)
Lemma dec_group ts f : forall d seq, valid_au f ->
  let cs := chunks (max - 4) f in
  exists d', dec_run d (frag_pkts seq ts 0 cs) = (d', repeat DMore (length cs - 1) ++ [DFrame [f]]) /\ ready d'.
Proof.
  intros d seq Hv cs. destruct (valid_au_len f Hv) as [Hl5 HlF]. destruct Hv as [sc Hsc].
  assert (Hav : 0 < max - 4) by lia.
  assert (Hfne : f <> []) by (intros ->; cbn in Hl5; lia).
  assert (Hcc : concat cs = f) by (apply chunks_concat; assumption).
  assert (Hcb : Forall (fun x => x <> []) cs).
  { pose proof (chunks_bounds (max - 4) f Hav) as Hb. eapply Forall_impl; [|exact Hb]. intros x [Hx _] ->. cbn in Hx. lia. }
  unfold cs in *. rewrite chunks_cons in * by assumption.
  set (c1 := ntake (max - 4) f) in *. set (t := chunks (max - 4) (ndrop (max - 4) f)) in *.
  assert (Hc1 : 5 <= nlen c1) by (unfold c1; rewrite nlen_ntake; lia).
  assert (Hf : f = c1 ++ concat t) by (cbn [concat] in Hcc; congruence).
  assert (Hm1 : mpa c1 = POk (nlen f) sc).
  { pose proof (K_pre c1 (concat t) Hc1) as Hk. rewrite <- Hf in Hk. rewrite Hsc in Hk. now symmetry. }
  assert (Hc1ne : c1 <> []) by (intros E; rewrite E in Hc1; cbn in Hc1; lia).
  cbn [frag_pkts Model.dec_run]. change (be16 0) with [0; 0]. change ([0; 0] ++ [0; 0] ++ c1) with ([0; 0; 0; 0] ++ c1).
  rewrite dec_off0 by assumption. cbn [Model.agg_loop]. rewrite Hm1.
  destruct t as [|x2 t2] eqn:Et.
  - cbn [concat] in Hf. rewrite app_nil_r in Hf. rewrite <- Hf.
    rewrite N.leb_refl. rewrite ndrop_all, ntake_all by lia. cbn [app frag_pkts Model.dec_run length Nat.sub repeat].
    eexists. split; [reflexivity|]. unfold ready; cbn. tauto.
  - pose proof (Forall_inv_tail Hcb) as Hcbt.
    assert (Hx2 : 0 < nlen (concat (x2 :: t2))).
    { pose proof (Forall_inv Hcbt) as Hx2. cbn [concat]. rewrite nlen_app. destruct x2; [contradiction|cbn [nlen]; lia]. }
    assert (Hfl : nlen f = nlen c1 + nlen (concat (x2 :: t2))) by (rewrite Hf at 1; apply nlen_app).
    destruct (N.leb_spec (nlen f) (nlen c1)); [lia|].
    set (d1 := mkD true [c1] (nlen c1) (nlen f - nlen c1)).
    destruct (dec_rest ts (x2 :: t2) d1 (seq_next seq) (0 + nlen c1)) as (d' & Hrun & Hst).
    + discriminate.
    + assumption.
    + unfold d1; cbn [dsize]. lia.
    + lia.
    + unfold d1; cbn [dexp]. lia.
    + unfold d1; cbn [dsize dfrags concat]. now rewrite app_nil_r.
    + lia.
    + rewrite Hrun. exists d'. split.
      * unfold d1; cbn [dfrags]. change (concat [c1]) with (c1 ++ []). rewrite app_nil_r, <- Hf.
        cbn [length Nat.sub]. rewrite Nat.sub_0_r. reflexivity.
      * destruct Hst as (H1 & H2 & H3). unfold ready. now rewrite H1, H2, H3.
Qed.

Definition batch_valid (B : list bytes) : Prop := B <> [] /\ Forall valid_au B.

Lemma dec_batch B d ts seq g : batch_valid B -> write_batch max B ts seq = Some g ->
  exists d', dec_run d g = (d', repeat DMore (length g - 1) ++ [DFrame B]) /\ ready d'.
Proof.
  intros (Hne & Hv) Hw.
  assert (Hagg : g = write_agg B ts seq ->
     exists d', dec_run d g = (d', repeat DMore (length g - 1) ++ [DFrame B]) /\ ready d').
  { intros ->. unfold write_agg. destruct (dec_agg B d seq ts Hne Hv) as (d' & Hd & Hrd).
    cbn [Model.dec_run]. rewrite Hd. cbn [length Nat.sub repeat app]. exists d'. split; [reflexivity|assumption]. }
  destruct B as [|a [|a2 t]]; [contradiction| |].
  - cbn [write_batch] in Hw. destruct (len_agg [a] None <? max).
    + injection Hw as <-. now apply Hagg.
    + unfold write_frag in Hw. destruct (N.ltb_spec max 5); [lia|]. injection Hw as <-.
      inversion Hv as [|? ? Hva _]; subst.
      destruct (dec_group ts a d seq Hva) as (d' & Hrun & Hrd). exists d'. split; [|assumption]. rewrite Hrun.
      replace (length (frag_pkts seq ts 0 (chunks (max - 4) a))) with (length (chunks (max - 4) a)); [reflexivity|].
      pose proof (frag_pkts_len seq ts (chunks (max - 4) a) 0) as HL. rewrite !nlen_length in HL. lia.
  - cbn [write_batch] in Hw. injection Hw as <-. now apply Hagg.
Qed.

Fixpoint expect (gs : list (list packet)) (bs : list (list bytes)) : list (dres (list bytes)) :=
  match gs, bs with
  | g :: gt, b :: bt => repeat DMore (length g - 1) ++ [DFrame b] ++ expect gt bt
  | _, _ => []
  end.

Lemma dec_run_app ps1 : forall ps2 d d1 r1, dec_run d ps1 = (d1, r1) -> ~ In DPanic r1 ->
  dec_run d (ps1 ++ ps2) = (let '(d2, r2) := dec_run d1 ps2 in (d2, r1 ++ r2)).
Proof.
  induction ps1 as [|p t IH]; intros ps2 d d1 r1 H Hnp; cbn [Model.dec_run app] in *.
  - injection H as <- <-. destruct (dec_run d ps2); reflexivity.
  - destruct (dec d p) as [d' r].
    destruct r; try (destruct (dec_run d' t) as [d'' rs] eqn:E; injection H as <- <-;
      rewrite (IH ps2 d' d'' rs E) by (intros Hin; apply Hnp; now right);
      destruct (dec_run d'' ps2); reflexivity).
    injection H as <- <-. exfalso. apply Hnp. now left.
Qed.

Lemma no_panic_expected n (B : list bytes) : ~ In DPanic (repeat (@DMore (list bytes)) n ++ [DFrame B]).
Proof.
  intros H. apply in_app_or in H. destruct H as [H|[H|[]]]; [|discriminate].
  apply repeat_spec in H. discriminate.
Qed.

Lemma batch_samples_ok b : Forall valid_au b -> forall ts, exists ts', batch_samples mpa b ts = EOk ts'.
Proof.
  induction 1 as [|f t [sc Hf] Ht IH]; intros ts; cbn [batch_samples]; [eexists; reflexivity|].
  rewrite Hf. apply IH.
Qed.

Lemma dec_groups bs : forall gs ts seq d, enc_groups mpa max bs ts seq = EOk gs -> Forall batch_valid bs ->
  exists d', dec_run d (concat gs) = (d', expect gs bs) /\ (bs <> [] -> ready d') /\ (bs = [] -> d' = d).
Proof.
  induction bs as [|b t IH]; intros gs ts seq d Hg Hv; cbn [enc_groups] in Hg.
  - injection Hg as <-. exists d. cbn. splits; auto. intros H; contradiction.
  - inversion Hv as [|? ? Hb Ht]; subst.
    destruct (write_batch max b ts seq) as [g|] eqn:Ew; [|discriminate].
    destruct (dec_batch b d ts seq g Hb Ew) as (d1 & Hr1 & Hrd1).
    destruct t as [|b2 t2].
    + injection Hg as <-. cbn [concat expect]. rewrite !app_nil_r. exists d1. splits; [assumption|auto|discriminate].
    + destruct (batch_samples mpa b ts) as [ts'| |]; try discriminate.
      destruct (enc_groups mpa max (b2 :: t2) ts' _) as [gt| |] eqn:Eg; try discriminate. injection Hg as <-.
      destruct (IH gt _ _ d1 Eg Ht) as (d2 & Hr2 & Hrd2 & _).
      cbn [concat expect]. rewrite (dec_run_app g (concat gt) d d1 _ Hr1 (no_panic_expected _ _)), Hr2.
      exists d2. splits; [now rewrite <- app_assoc|intros _; apply Hrd2; discriminate|discriminate].
Qed.

Lemma enc_groups_ok bs : Forall batch_valid bs -> (forall b, In b bs -> batch_ok max b) ->
  forall ts seq, seq < 65536 -> exists gs, enc_groups mpa max bs ts seq = EOk gs /\ length gs = length bs.
Proof.
  induction bs as [|b t IH]; intros Hv Hok ts seq Hs; cbn [enc_groups]; [exists []; split; reflexivity|].
  inversion Hv as [|? ? (Hbne & Hbv) Ht]; subst.
  destruct (write_batch_wf mpa max ltac:(lia) b ts seq (Hok b (or_introl eq_refl)) Hs) as (g & Hg & _).
  { eapply Forall_impl; [|exact Hbv]. intros a Ha ->. destruct (valid_au_len [] Ha) as [H5 _]. cbn in H5. lia. }
  rewrite Hg. destruct t as [|b2 t2]; [exists [g]; split; reflexivity|].
  destruct (batch_samples_ok b Hbv ts) as [ts' Hts]. rewrite Hts.
  destruct (IH Ht (fun x Hx => Hok x (or_intror Hx)) ts' (seq_add seq (nlen g)) (seq_add_lt _ _)) as (gs & Hgs & Hl).
  rewrite Hgs. exists (g :: gs). split; [reflexivity|cbn [length]; now rewrite Hl].
Qed.

Lemma batches_valid f : valid_frame f -> Forall batch_valid (batch_loop max f []).
Proof.
  intros (Hne & Hv). rewrite Forall_forall. intros B HB.
  pose proof (batch_loop_concat max f []) as Hcat. cbn [app] in Hcat.
  pose proof (batch_loop_nonempty max f [] (or_intror Hne)) as Hnn. rewrite Forall_forall in Hnn.
  split; [now apply Hnn|]. rewrite Forall_forall in *. intros a Ha. apply Hv. rewrite <- Hcat. apply in_concat. exists B. split; assumption.
Qed.

Definition frames_of (rs : list (dres (list bytes))) : list bytes :=
  flat_map (fun r => match r with DFrame x => x | _ => [] end) rs.
Definition progress (r : dres (list bytes)) : Prop := r = DMore \/ exists x, r = DFrame x.
Lemma frames_of_app a b : frames_of (a ++ b) = frames_of a ++ frames_of b.
Proof. unfold frames_of. apply flat_map_app. Qed.
Lemma frames_of_more n : frames_of (repeat DMore n) = [].
Proof. induction n as [|k IH]; [reflexivity|]. cbn [repeat]. exact IH. Qed.
Lemma expect_frames gs : forall bs, length gs = length bs ->
  frames_of (expect gs bs) = concat bs /\ Forall progress (expect gs bs).
Proof.
  induction gs as [|g gt IH]; intros [|b bt] H; cbn [length] in H; try discriminate.
  - split; [reflexivity|constructor].
  - cbn [expect concat]. destruct (IH bt) as [H1 H2]; [lia|].
    rewrite !frames_of_app, frames_of_more, H1. cbn [app]. split; [unfold frames_of; cbn; now rewrite app_nil_r|].
    apply Forall_app. split; [|constructor; [right; eexists; reflexivity|assumption]].
    apply Forall_forall. intros r Hr. apply repeat_spec in Hr. now left.
Qed.

(* C03 and C07 at once: the packets Encode produces for a valid frame, fed in order to a decoder in
   ANY state [d] (clean or left in the middle of a damaged frame), give "more" inside a fragmented
   frame and, at the packet completing each batch, exactly the frames of that batch *)
Theorem roundtrip seq f d : valid_frame f -> seq < 65536 ->
  exists gs d', enc mpa max seq f = EOk (concat gs, seq_add seq (nlen (concat gs))) /\
    dec_run d (concat gs) = (d', expect gs (batch_loop max f [])) /\ ready d' /\
    concat (batch_loop max f []) = f /\ length gs = length (batch_loop max f []).
Proof.
  intros Hv Hs. pose proof (batches_valid f Hv) as Hbv.
  destruct (enc_groups_ok (batch_loop max f []) Hbv) with (ts := 0) (seq := seq) as (gs & Hg & Hl); [|assumption|].
  { pose proof (batch_loop_ok mpa max ltac:(lia) f [] ltac:(intros H; cbn in H; lia)) as Hok. rewrite Forall_forall in Hok. exact Hok. }
  destruct (dec_groups _ gs 0 seq d Hg Hbv) as (d' & Hr & Hrd & _).
  pose proof (batch_loop_concat max f []) as Hcat. cbn [app] in Hcat.
  exists gs, d'. splits; try assumption.
  - unfold enc. rewrite enc_batches_groups by assumption. now rewrite Hg.
  - apply Hrd. apply batch_loop_ne.
Qed.

Theorem roundtrip_frames seq f d : valid_frame f -> seq < 65536 ->
  exists ps seq' d' rs, enc mpa max seq f = EOk (ps, seq') /\ dec_run d ps = (d', rs) /\
    frames_of rs = f /\ Forall progress rs /\ ready d'.
Proof.
  intros Hv Hs. destruct (roundtrip seq f d Hv Hs) as (gs & d' & He & Hr & Hrd & Hcat & Hlen).
  destruct (expect_frames gs _ Hlen) as [H1 H2].
  exists (concat gs), (seq_add seq (nlen (concat gs))), d', (expect gs (batch_loop max f [])).
  splits; try assumption. now rewrite H1.
Qed.

Theorem roundtrip_seq fs : Forall valid_frame fs -> forall seq d, seq < 65536 ->
  exists pss d' rs, enc_many mpa max seq fs = EOk pss /\ dec_run d (concat pss) = (d', rs) /\
    frames_of rs = concat fs /\ Forall progress rs.
Proof.
  induction 1 as [|f t Hf Ht IH]; intros seq d Hs.
  - exists [], d, []. cbn. splits; auto; constructor.
  - destruct (roundtrip_frames seq f d Hf Hs) as (ps & seq' & d1 & r1 & He & Hr1 & Hf1 & Hp1 & _).
    assert (Hs' : seq' < 65536).
    { destruct (roundtrip seq f d Hf Hs) as (gs & ? & He' & _). rewrite He in He'. injection He' as _ ->. apply seq_add_lt. }
    destruct (IH seq' d1 Hs') as (pss & d2 & r2 & Hem & Hr2 & Hf2 & Hp2).
    exists (ps :: pss), d2, (r1 ++ r2). cbn [enc_many]. rewrite He, Hem. cbn [concat]. splits.
    + reflexivity.
    + rewrite (dec_run_app ps (concat pss) d d1 r1 Hr1), Hr2; [reflexivity|].
      intros Hin. rewrite Forall_forall in Hp1. destruct (Hp1 _ Hin) as [E|[x E]]; discriminate.
    + now rewrite frames_of_app, Hf1, Hf2.
    + apply Forall_app. split; assumption.
Qed.

(* C07: after ANY packet history an intact frame is returned exactly as in the loss-free case -
   not even an intact predecessor is needed, because every packet group starts with an offset-0
   packet, which drops whatever was pending *)
Theorem resync hist f s : valid_frame f -> s < 65536 ->
  exists ps q d' rs, enc mpa max s f = EOk (ps, q) /\
    dec_run (fst (dec_run dinit hist)) ps = (d', rs) /\ frames_of rs = f /\ Forall progress rs /\ ready d'.
Proof. intros Hv Hs. apply roundtrip_frames; assumption. Qed.

End R.

(* ====================================================================================== *)
(* ---------- the contract holds for the re-modelled mediacommon parser ---------- *)
Definition FLmax : N := 1729.   (* 144 * 384000 / 32000 + 1 *)

Lemma nnth_lt_some {A} (l : list A) i : i < nlen l -> exists x, nnth i l = Some x.
Proof. apply nnth_lt. Qed.

Lemma mpa_parse_spec buf :
  match mpa_parse buf with
  | PPanic => False
  | PErr => True
  | POk fl sc => 0 < fl /\ fl <= FLmax /\ 5 <= nlen buf
  end.
Proof.
  unfold mpa_parse. destruct buf as [|b0 [|b1 [|b2 [|b3 [|b4 rest]]]]]; try exact I.
  destruct (negb _); [exact I|].
  destruct (_ || _); [exact I|].
  destruct (N.eqb_spec (b2 / 16) 0) as [|Hb0]; cbn [orb]; [exact I|].
  destruct (N.leb_spec 15 (b2 / 16)) as [|Hb15]; [exact I|].
  set (m2 := (b1 / 8) mod 2 =? 0). set (l3 := (b1 / 2) mod 4 =? 1).
  set (tbl := if m2 then bitrates_m2 else if l3 then bitrates_m1_l3 else bitrates_m1_l2).
  assert (Htl : nlen tbl = 14) by (unfold tbl; destruct m2, l3; reflexivity).
  destruct (nnth_lt_some tbl (b2 / 16 - 1)) as [br Hbr]; [lia|]. rewrite Hbr.
  destruct (N.leb_spec 3 ((b2 / 4) mod 4)) as [|Hs3]; [exact I|].
  set (stbl := if m2 then srates_m2 else srates_m1).
  assert (Hsl : nlen stbl = 3) by (unfold stbl; destruct m2; reflexivity).
  destruct (nnth_lt_some stbl ((b2 / 4) mod 4)) as [sr Hsr]; [lia|]. rewrite Hsr.
  apply nnth_In in Hbr. apply nnth_In in Hsr.
  assert (Hq : 24 <= 144 * br / sr /\ 144 * br / sr <= 1728).
  { unfold tbl, stbl in *. destruct m2.
    - assert (8000 <= br <= 160000) by (cbn in Hbr; repeat (destruct Hbr as [<-|Hbr]; [lia|]); contradiction).
      assert (16000 <= sr <= 24000) by (cbn in Hsr; repeat (destruct Hsr as [<-|Hsr]; [lia|]); contradiction).
      split; [apply N.div_le_lower_bound; lia|apply N.div_le_upper_bound; lia].
    - assert (32000 <= br <= 384000) by (destruct l3; cbn in Hbr; repeat (destruct Hbr as [<-|Hbr]; [lia|]); contradiction).
      assert (32000 <= sr <= 48000) by (cbn in Hsr; repeat (destruct Hsr as [<-|Hsr]; [lia|]); contradiction).
      split; [apply N.div_le_lower_bound; lia|apply N.div_le_upper_bound; lia]. }
  unfold FLmax. cbn [nlen]. destruct ((b2 / 2) mod 2 =? 0); lia.
Qed.

Lemma mpa_np b : mpa_parse b <> PPanic.
Proof. pose proof (mpa_parse_spec b) as H. destruct (mpa_parse b); [discriminate|discriminate|contradiction]. Qed.
Lemma mpa_pos b fl sc : mpa_parse b = POk fl sc -> 0 < fl.
Proof. intros E. pose proof (mpa_parse_spec b) as H. rewrite E in H. tauto. Qed.
Lemma mpa_len b fl sc : mpa_parse b = POk fl sc -> 5 <= nlen b.
Proof. intros E. pose proof (mpa_parse_spec b) as H. rewrite E in H. tauto. Qed.
Lemma mpa_max b fl sc : mpa_parse b = POk fl sc -> fl <= FLmax.
Proof. intros E. pose proof (mpa_parse_spec b) as H. rewrite E in H. tauto. Qed.
Lemma mpa_pre a b : 5 <= nlen a -> mpa_parse (a ++ b) = mpa_parse a.
Proof.
  intros H. destruct a as [|b0 [|b1 [|b2 [|b3 [|b4 rest]]]]]; cbn [nlen] in H; try lia. reflexivity.
Qed.
Lemma FLmax_lt : FLmax < 65536.
Proof. unfold FLmax. lia. Qed.

(* ---------- the theorems for the concrete parser ---------- *)
Ltac contract := first [exact mpa_np|exact mpa_pos|exact mpa_len|exact mpa_max|exact mpa_pre|exact FLmax_lt|assumption].

Theorem total_mpa hist : ~ In DPanic (snd (dec_run mpa_parse dinit hist)).
Proof. apply (total mpa_parse FLmax); contract. Qed.

Theorem bounded_mpa P hist :
  Forall (fun p => psz p <= P) hist ->
  let '(d, rs) := dec_run mpa_parse dinit hist in
  fst (retained d) <= FLmax /\ snd (retained d) <= FLmax /\
  forall f, In (DFrame f) rs -> fsize f <= N.max FLmax P.
Proof. apply (bounded mpa_parse FLmax); contract. Qed.

Theorem roundtrip_mpa max : 9 <= max -> forall seq f d, valid_frame mpa_parse f -> seq < 65536 ->
  exists gs d', enc mpa_parse max seq f = EOk (concat gs, seq_add seq (nlen (concat gs))) /\
    dec_run mpa_parse d (concat gs) = (d', expect gs (batch_loop max f [])) /\ ready d' /\
    concat (batch_loop max f []) = f /\ length gs = length (batch_loop max f []).
Proof. intros Hm. apply (roundtrip mpa_parse FLmax max); contract. Qed.

Theorem roundtrip_frames_mpa max : 9 <= max -> forall seq f d, valid_frame mpa_parse f -> seq < 65536 ->
  exists ps seq' d' rs, enc mpa_parse max seq f = EOk (ps, seq') /\ dec_run mpa_parse d ps = (d', rs) /\
    frames_of rs = f /\ Forall progress rs /\ ready d'.
Proof. intros Hm. apply (roundtrip_frames mpa_parse FLmax max); contract. Qed.

Theorem roundtrip_seq_mpa max : 9 <= max -> forall fs, Forall (valid_frame mpa_parse) fs -> forall seq d, seq < 65536 ->
  exists pss d' rs, enc_many mpa_parse max seq fs = EOk pss /\ dec_run mpa_parse d (concat pss) = (d', rs) /\
    frames_of rs = concat fs /\ Forall progress rs.
Proof. intros Hm. apply (roundtrip_seq mpa_parse FLmax max); contract. Qed.

Theorem resync_mpa max : 9 <= max -> forall hist f s, valid_frame mpa_parse f -> s < 65536 ->
  exists ps q d' rs, enc mpa_parse max s f = EOk (ps, q) /\
    dec_run mpa_parse (fst (dec_run mpa_parse dinit hist)) ps = (d', rs) /\ frames_of rs = f /\ Forall progress rs /\ ready d'.
Proof. intros Hm. apply (resync mpa_parse FLmax max); contract. Qed.

Theorem enc_nopanic_mpa max : 5 <= max -> forall seq fs, seq < 65536 ->
  Forall (fun a => a <> []) fs -> enc mpa_parse max seq fs <> EPanic.
Proof. intros Hm seq fs. exact (enc_nopanic mpa_parse max Hm seq fs mpa_np). Qed.

Theorem enc_valid_succeeds_mpa max : 9 <= max -> forall seq f, valid_frame mpa_parse f -> seq < 65536 ->
  exists gs, enc mpa_parse max seq f = EOk (concat gs, seq_add seq (nlen (concat gs))).
Proof.
  intros Hm seq f Hv Hs. destruct (roundtrip_mpa max Hm seq f dinit Hv Hs) as (gs & _ & He & _). now exists gs.
Qed.

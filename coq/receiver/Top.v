(* Receiver (C14), part 5: the theorems as stated from Initialize (any buffer size 2^k <= 32768 or the
   default, either transport). *)
From GVL Require Import NList Wire Wrap.
From GV_receiver Require Import Model Proofs Steps Hist Fate.
From Coq Require Import ZifyBool ZifyNat ZifyN.
Open Scope Z_scope.

(* the buffer size Initialize ends up with *)
Definition eff_size (bs : Z) : Z := if bs =? 0 then default_bufsize else bs.
Definition okB (bs : Z) : Prop := pow2B (eff_size bs).

Lemma default_ok : okB 0.
Proof. exists 6. split; [lia|reflexivity]. Qed.

Lemma init_inv u bs : (u = true -> okB bs) -> Inv (init u bs).
Proof. intros H. apply inv_init. exact H. Qed.

Lemma init_fields u bs : first (init u bs) = false /\ unrel (init u bs) = u /\ neg (init u bs) = 0 /\
  lost (init u bs) = 0 /\ recv (init u bs) = 0 /\ last (init u bs) = 0 /\ cycles (init u bs) = 0 /\
  (u = true -> okB bs -> bsize (buf (init u bs)) = eff_size bs).
Proof.
  unfold init. cbn. splits; auto. intros -> H. apply pow2B_range in H.
  unfold bsize, eff_size in *. rewrite nlen_nrep. lia.
Qed.

Theorem top_inv_reachable u bs ops s' evs : (u = true -> okB bs) -> ops_wf ops ->
  run_ops (init u bs) ops = (s', evs) -> Inv s' /\ clean evs /\ length evs = length ops.
Proof. intros H Hw E. eapply run_ops_ok; eauto. now apply init_inv. Qed.

Theorem top_delivery_increasing bs ops s' evs : okB bs -> ops_wf ops ->
  run_ops (init true bs) ops = (s', evs) -> fchain 0 (deliv evs).
Proof.
  intros H Hw E.
  apply (delivery_increasing ops (init true bs) s' evs (init_inv true bs (fun _ => H)) Hw E eq_refl).
  intros Hf. destruct (init_fields true bs) as (Hf' & _). congruence.
Qed.

Theorem top_restart_detection bs ops s' evs : okB bs -> ops_wf ops ->
  run_ops (init true bs) ops = (s', evs) -> neg_ok (eff_size bs) 0 (kinds evs).
Proof.
  intros H Hw E. destruct (init_fields true bs) as (_ & Hu & Hn & _ & _ & _ & _ & Hb).
  rewrite <- (Hb eq_refl H), <- Hn.
  exact (restart_detection ops (init true bs) s' evs (init_inv true bs (fun _ => H)) Hw E eq_refl).
Qed.

Theorem top_loss_exact u bs ops s' evs : (u = true -> okB bs) -> ops_wf ops ->
  run_ops (init u bs) ops = (s', evs) ->
  lost s' = total_lost evs /\ total_lost evs = fskipped 0 (deliv evs) /\
  recv s' = Z.of_nat (length (deliv evs)) /\
  (first s' = true ->
     stats s' = Some (Z.of_nat (length (deliv evs)), fskipped 0 (deliv evs), flast 0 (deliv evs))).
Proof.
  intros H Hw E. destruct (init_fields u bs) as (Hf & _ & _ & Hl & Hr & Hla & _).
  destruct (loss_exact ops (init u bs) s' evs (init_inv u bs H) Hw E 0) as (A & B & C & D).
  { intros Hf'. congruence. }
  rewrite Hl in A. rewrite Hr in C. rewrite Hla in D.
  splits; try lia. intros Hf'. unfold stats. rewrite Hf'. cbn [negb]. rewrite (D Hf'). do 3 f_equal; lia.
Qed.

Theorem top_ext_tracks u bs p0 ops s' evs : (u = true -> okB bs) -> wf p0 -> ops_wf ops ->
  run_ops (init u bs) (OPkt p0 :: ops) = (s', evs) -> no_reset evs -> rel_gaps_ok evs ->
  w32 (ext s') = w32 (pseq p0 + (recv s' - 1) + lost s').
Proof.
  intros H Hp Hw E Hnr Hrg. pose proof (init_inv u bs H) as HI.
  destruct (init_fields u bs) as (Hf & _ & _ & Hl & Hr & Hla & Hc & _).
  cbn [run_ops] in E. unfold process in E. rewrite Hf in E. cbn [negb] in E.
  destruct (run_ops _ ops) as [s2 es] eqn:Er. injection E as <- <-.
  unfold no_reset in Hnr. cbn [kinds] in Hnr. inversion Hnr; subst. inversion Hrg; subst.
  match type of Er with run_ops ?x _ = _ => set (s1 := x) in * end.
  assert (HI1 : Inv s1) by (apply (inv_first _ _ HI Hp Hf)).
  rewrite (ext_tracks ops s1 s2 es HI1 Hw Er); auto.
  unfold ext, s1. cbn [cycles last recv lost]. rewrite Hc, Hl. f_equal. lia.
Qed.

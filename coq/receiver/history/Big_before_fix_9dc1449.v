(* HISTORY, not built: refutation witness for the code BEFORE fix 9dc1449 (relPos >= int16(len(rr.buffer))).
   It was proved against the old Model.v; the repaired model no longer satisfies it. *)
(* Receiver (C14): BufferSize 32768.  int16(len(rr.buffer)) is -32768, so the test
   "relPos >= int16(len(rr.buffer))" succeeds for every packet ahead of the head: nothing is ever
   buffered and a packet that is late by a single position is dropped (finding bufsize-int16-overflow). *)
From GVL Require Import NList Wire Wrap.
From GV_receiver Require Import Model Proofs Steps Hist Fate.
From Coq Require Import ZifyBool ZifyNat ZifyN.
Open Scope Z_scope.

Lemma slot_big a i : (slot 32768 a i < 32768)%N.
Proof.
  unfold slot, slotz. assert (E : mask 32768 = Z.ones 15) by reflexivity. rewrite E, Z.land_ones by lia.
  pose proof (Z.mod_pos_bound (w16 (a + i)) (2 ^ 15) ltac:(lia)). change (2 ^ 15) with 32768 in *. lia.
Qed.

Lemma count_loop_big fuel : forall a i b n, empty_buf b -> nlen b = 32768%N ->
  count_loop fuel 32768 a i b n = Some n.
Proof.
  induction fuel as [|x f IH]; intros a i b n He Hl; cbn [count_loop]; [reflexivity|].
  rewrite (He (slot 32768 a i)) by (rewrite Hl; apply slot_big). now apply IH.
Qed.

Lemma collect_loop_big fuel : forall a i b acc, empty_buf b -> nlen b = 32768%N ->
  collect_loop fuel 32768 a i b acc = Some (b, acc).
Proof.
  induction fuel as [|x f IH]; intros a i b acc He Hl; cbn [collect_loop]; [reflexivity|].
  rewrite (He (slot 32768 a i)) by (rewrite Hl; apply slot_big). now apply IH.
Qed.

Lemma reorder_big_fwd b a ng L p : empty_buf b -> nlen b = 32768%N -> 0 <= relpos L p ->
  reorder b a ng L p = RO b a 0 [p] (relpos L p) KFlush.
Proof.
  intros He Hl Hr. pose proof (relpos_range L p) as Hrr. unfold reorder. fold (relpos L p).
  assert (Hb : bsize b = 32768) by (unfold bsize; rewrite Hl; reflexivity). rewrite Hb.
  destruct (Z.ltb_spec (relpos L p) 0); [lia|].
  change (s16 (w16 32768)) with (-32768).
  destruct (Z.leb_spec (-32768) (relpos L p)); [|lia].
  rewrite count_loop_big, collect_loop_big by assumption. cbn [nlen app].
  change (1 =? Z.of_N 0 + 1) with true. cbv iota.
  replace (relpos L p - 1 + 1) with (relpos L p) by lia.
  unfold w64. rewrite Z.mod_small by lia. reflexivity.
Qed.

Lemma reorder_behind b a ng L p : relpos L p < 0 -> ng + 1 <= bsize b ->
  reorder b a ng L p = RO b a (ng + 1) [] 0 KBehind.
Proof.
  intros Hr Hn. unfold reorder. fold (relpos L p).
  destruct (Z.ltb_spec (relpos L p) 0); [|lia]. destruct (Z.ltb_spec (bsize b) (ng + 1)); [lia|reflexivity].
Qed.

Lemma run_ops_pkt s p s1 out l k t : process s p = Ok s1 out l k ->
  run_ops s (OPkt p :: t) = (fst (run_ops s1 t), EPkt p out l k :: snd (run_ops s1 t)).
Proof. intros E. cbn [run_ops]. rewrite E. destruct (run_ops s1 t); reflexivity. Qed.

(* arrivals 101, 103, 102 with BufferSize 32768: 102 is late by one position, it is dropped, nothing is buffered *)
Theorem bufsize_32768_refuted : exists s' evs,
  run_ops (init true 32768) (arrivals [101; 103; 102]) = (s', evs) /\
  late_ok 32768 [101; 103; 102] = true /\
  delivered_seqs evs = [101; 103] /\ empty_buf (buf s') /\ lost s' = 1.
Proof.
  assert (Ei : init true 32768 = mkSt true false (nrep None 32768%N) 0 0 0 0 0 0 0 0) by reflexivity.
  rewrite Ei. remember (nrep (@None pkt) 32768%N) as b0 eqn:Eb.
  assert (He : empty_buf b0) by (subst b0; apply nrep_empty).
  assert (Hl : nlen b0 = 32768%N) by (subst b0; apply nlen_nrep).
  assert (Hb : bsize b0 = 32768) by (unfold bsize; rewrite Hl; reflexivity).
  clear Eb Ei.
  change (arrivals [101; 103; 102]) with [OPkt (mkPkt 101 1); OPkt (mkPkt 103 2); OPkt (mkPkt 102 3)].
  set (s0 := mkSt true false b0 0 0 0 0 0 0 0 0).
  set (p1 := mkPkt 101 1). set (p2 := mkPkt 103 2). set (p3 := mkPkt 102 3).
  assert (E1 : process s0 p1 = Ok (first_st s0 p1) [p1] 0 KFirst) by reflexivity.
  set (s1 := first_st s0 p1) in *.
  assert (E2 : process s1 p2 = Ok (acc_st s1 b0 0 0 [p2] 1) [p2] 1 KFlush).
  { unfold process. change (first s1) with true. change (unrel s1) with true. cbn [negb].
    change (buf s1) with b0. change (absPos s1) with 0. change (neg s1) with 0. change (last s1) with 101.
    rewrite (reorder_big_fwd b0 0 0 101 p2) by (assumption || (vm_compute; discriminate)).
    change (relpos 101 p2) with 1. apply account_eq. }
  set (s2 := acc_st s1 b0 0 0 [p2] 1) in *.
  assert (E3 : process s2 p3 = Ok (acc_st s2 b0 0 1 [] 0) [] 0 KBehind).
  { unfold process. change (first s2) with true. change (unrel s2) with true. cbn [negb].
    change (buf s2) with b0. change (absPos s2) with 0. change (neg s2) with 0. change (last s2) with 103.
    rewrite (reorder_behind b0 0 0 103 p3); [apply account_eq|vm_compute; reflexivity|rewrite Hb; lia]. }
  set (s3 := acc_st s2 b0 0 1 [] 0) in *.
  exists s3, [EPkt p1 [p1] 0 KFirst; EPkt p2 [p2] 1 KFlush; EPkt p3 [] 0 KBehind].
  split.
  { rewrite (run_ops_pkt _ _ _ _ _ _ _ E1), (run_ops_pkt _ _ _ _ _ _ _ E2), (run_ops_pkt _ _ _ _ _ _ _ E3).
    reflexivity. }
  splits; try reflexivity. exact He.
Qed.

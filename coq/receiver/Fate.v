(* Receiver (C14), part 4: what happens to an individual packet (delivered / buffered / dropped),
   the refutation witness for "displaced by fewer than B positions => delivered" (finding F12),
   and following a restarted sender within B+1 packets. *)
From GVL Require Import NList Wire Wrap.
From GV_receiver Require Import Model Proofs Steps Hist.
From Coq Require Import ZifyBool ZifyNat ZifyN.
Open Scope Z_scope.

Definition buffered (s : st) (x : pkt) : Prop :=
  exists j, 0 < j < bsize (buf s) /\ vw (bsize (buf s)) (absPos s) (buf s) j = Some (Some x).

Lemma pick_In k : forall B a b i j x, i <= j < i + Z.of_nat k -> vw B a b j = Some (Some x) -> In x (pick k B a b i).
Proof.
  induction k as [|k IH]; intros B a b i j x Hj E; [lia|]. cbn [pick].
  destruct (Z.eq_dec j i) as [->|Hne].
  - rewrite E. now left.
  - assert (In x (pick k B a b (i + 1))) by (eapply IH; eauto; lia).
    destruct (vw B a b i) as [[q|]|]; [now right|assumption|assumption].
Qed.

Lemma lastseq_app prev l p : lastseq prev (l ++ [p]) = pseq p.
Proof. revert prev; induction l as [|q t IH]; intros prev; cbn [app lastseq]; [reflexivity|apply IH]. Qed.

(* ---------- the shape of one unreliable step, by relative position ---------- *)
Lemma step_shape s p : Inv s -> wf p -> first s = true -> unrel s = true ->
  exists s1 out l k, process s p = Ok s1 out l k /\ Inv s1 /\ first s1 = true /\ unrel s1 = true /\
    bsize (buf s1) = bsize (buf s) /\
    let r := relpos (last s) p in let B := bsize (buf s) in
    ((r < 0 /\ neg s + 1 <= B /\ k = KBehind /\ out = [] /\ l = 0 /\ last s1 = last s /\ neg s1 = neg s + 1 /\
        buf s1 = buf s /\ absPos s1 = absPos s) \/
     (r < 0 /\ B < neg s + 1 /\ k = KReset /\ out = [p] /\ l = 0 /\ last s1 = pseq p /\ empty_buf (buf s1)) \/
     (B <= r /\ k = KFlush /\ last s1 = pseq p /\ In p out /\ empty_buf (buf s1) /\
        (forall x, buffered s x -> In x out)) \/
     (0 < r < B /\ k = KDup /\ out = [] /\ l = 0 /\ last s1 = last s /\ buf s1 = buf s /\ absPos s1 = absPos s /\
        exists x, buffered s x /\ pseq x = pseq p) \/
     (0 < r < B /\ k = KStore /\ out = [] /\ l = 0 /\ last s1 = last s /\ absPos s1 = absPos s /\
        buffered s1 p /\ (forall x, buffered s x -> buffered s1 x)) \/
     (r = 0 /\ k = KRun /\ l = 0 /\ exists n rest, 1 <= n <= B /\ out = p :: rest /\ last s1 = w16 (last s + n) /\
        (forall x, buffered s x -> In x out \/ buffered s1 x))).
Proof.
  intros HI Hp Hf Hu. pose proof (process_cases s p HI Hp) as C.
  inversion C as [Hf'|Hf' Hu' E|b a ng out l k Hf' Hu' R E]; try congruence.
  pose proof (inv_unrel s p b a ng out l k HI Hp Hf Hu R) as HI1.
  destruct (iv_buf s HI Hu) as (HB & Hn).
  pose proof (bi_pow _ _ _ HB) as HP. pose proof (pow2B_range _ HP) as HR.
  pose proof (bi_a _ _ _ HB) as Ha. pose proof (bi_L _ _ _ HB) as HL.
  pose proof (relpos_range (last s) p) as Hrr.
  exists (acc_st s b a ng out l), out, l, k. split; [reflexivity|]. split; [exact HI1|].
  split; [reflexivity|]. split; [exact Hu|].
  cbn [acc_st buf last neg absPos].
  destruct k; try (exfalso; destruct (rp_kind _ _ _ _ _ _ _ _ _ _ _ R); congruence).
  - (* behind *)
    destruct (rp_behind _ _ _ _ _ _ _ _ _ _ R) as (-> & -> & -> & -> & -> & Hr & Hle).
    split; [reflexivity|]. left. cbn [lastseq]. splits; auto; try lia.
  - (* reset *)
    destruct (rp_reset _ _ _ _ _ _ _ _ _ _ R) as (-> & -> & -> & -> & Hr & Hlt & Hl' & He).
    split; [now apply bsize_eq|]. right; left. cbn [lastseq]. splits; auto; try lia.
  - (* flush *)
    destruct (rp_flush _ _ _ _ _ _ _ _ _ _ R) as (-> & -> & -> & -> & Hge & Hl' & He).
    split; [now apply bsize_eq|]. right; right; left. rewrite lastseq_app. splits; auto; try lia.
    + apply in_or_app. right. now left.
    + intros x (j & Hj & Ex). apply in_or_app. left.
      apply pick_In with (j := j); [|exact Ex]. unfold bsize in Hj. rewrite nlen_length in Hj. lia.
  - (* store *)
    destruct (rp_store _ _ _ _ _ _ _ _ _ _ R) as (-> & -> & -> & -> & -> & Hr & Hv).
    split; [apply bsize_nset|]. right; right; right; right; left. cbn [lastseq]. splits; auto; try lia.
    + unfold buffered. cbn [acc_st buf absPos]. exists (relpos (last s) p). rewrite bsize_nset. split; [lia|].
      apply vw_nset_same; [lia|apply bsize_len].
    + intros x (j & Hj & Ex). unfold buffered. cbn [acc_st buf absPos]. exists j. rewrite bsize_nset. split; [exact Hj|].
      rewrite vw_nset_other; try lia; [exact Ex|]. intros Eq. rewrite Eq in Hv. congruence.
  - (* dup *)
    destruct (rp_dup _ _ _ _ _ _ _ _ _ _ R) as (-> & -> & -> & -> & -> & Hr & x & Hv).
    split; [reflexivity|]. right; right; right; left. cbn [lastseq]. splits; auto; try lia.
    exists x. split; [unfold buffered; exists (relpos (last s) p); split; [lia|exact Hv]|].
    rewrite (bi_seq _ _ _ HB _ _ Hr Hv). symmetry. apply relpos_nonneg_seq; [assumption|lia].
  - (* run *)
    destruct (reorder_out_chain _ _ _ _ _ _ _ _ _ _ _ HB Hp R) as (_ & _ & Hsp & _ & e & He & Hls & HA);
      [discriminate|].
    destruct (rp_run _ _ _ _ _ _ _ _ _ _ R) as (n & -> & -> & Eo & -> & H0 & Hn' & Hl' & Hall & Hend & Hcl & Hoth).
    set (B := bsize (buf s)) in *.
    destruct (pick_full_asc (Z.to_nat (n - 1)) (buf s) (absPos s) (last s) 1 HB) as (_ & HLn); try (fold B; lia).
    { intros j Hj. apply Hall. lia. }
    fold B in HLn.
    assert (En : e = n).
    { destruct (asc_chain _ _ _ _ HA) as (_ & _ & Hsp' & _ & _); try lia.
      rewrite Z.add_0_r, (w16_small (last s)) in Hsp' by lia. rewrite Hsp' in Hsp.
      rewrite Eo in Hsp. cbn [length] in Hsp. rewrite HLn in Hsp. lia. }
    subst e. split; [now apply bsize_eq|]. right; right; right; right; right.
    splits; auto. exists n, (pick (Z.to_nat (n - 1)) B (absPos s) (buf s) 1). splits; auto; try lia.
    intros x (j & Hj & Ex). fold B in Hj, Ex.
    destruct (Z.ltb_spec j n) as [Hlt|Hge].
    + left. rewrite Eo. right. apply pick_In with (j := j); [lia|exact Ex].
    + right. assert (j <> n) by (intros ->; congruence).
      unfold buffered. cbn [acc_st buf absPos]. exists (j - n). rewrite (bsize_eq _ _ Hl'). fold B. split; [lia|].
      unfold vw. rewrite ix_shift by lia. replace (n + (j - n)) with j by lia.
      fold (vw B (absPos s) b j). rewrite Hoth by lia. exact Ex.
Qed.

(* ---------- P1: a packet ahead of the head is never thrown away ---------- *)
Theorem in_window_not_dropped s p s1 out l k : Inv s -> wf p -> first s = true -> unrel s = true ->
  process s p = Ok s1 out l k -> 0 <= relpos (last s) p ->
  In p out \/ buffered s1 p \/ (exists x, buffered s x /\ pseq x = pseq p).
Proof.
  intros HI Hp Hf Hu E Hr.
  destruct (step_shape s p HI Hp Hf Hu) as (s1' & out' & l' & k' & E' & _ & _ & _ & _ & H).
  rewrite E in E'. injection E' as <- <- <- <-. cbn zeta in H.
  destruct H as [H|[H|[H|[H|[H|H]]]]].
  - lia.
  - lia.
  - left. tauto.
  - right; right. tauto.
  - right; left. tauto.
  - left. destruct H as (_ & _ & _ & n & rest & _ & -> & _). now left.
Qed.

(* the only packets dropped on arrival: behind the head, or a second copy of a buffered number *)
Theorem dropped_only_if s p s1 out l k : Inv s -> wf p -> first s = true -> unrel s = true ->
  process s p = Ok s1 out l k -> ~ In p out -> ~ buffered s1 p ->
  (k = KBehind /\ relpos (last s) p < 0) \/
  (k = KDup /\ 0 < relpos (last s) p < bsize (buf s) /\ exists x, buffered s x /\ pseq x = pseq p).
Proof.
  intros HI Hp Hf Hu E Hno Hnb.
  destruct (step_shape s p HI Hp Hf Hu) as (s1' & out' & l' & k' & E' & _ & _ & _ & _ & H).
  rewrite E in E'. injection E' as <- <- <- <-. cbn zeta in H.
  destruct H as [H|[H|[H|[H|[H|H]]]]].
  - left. tauto.
  - exfalso. apply Hno. destruct H as (_ & _ & _ & -> & _). now left.
  - exfalso. tauto.
  - right. tauto.
  - exfalso. tauto.
  - exfalso. apply Hno. destruct H as (_ & _ & _ & n & rest & _ & -> & _). now left.
Qed.

(* ---------- P2: a buffered packet is delivered unless a restart is detected ---------- *)
Theorem buffered_fate s p s1 out l k x : Inv s -> wf p -> first s = true -> unrel s = true ->
  process s p = Ok s1 out l k -> buffered s x -> In x out \/ buffered s1 x \/ k = KReset.
Proof.
  intros HI Hp Hf Hu E Hx.
  destruct (step_shape s p HI Hp Hf Hu) as (s1' & out' & l' & k' & E' & _ & _ & _ & Hb & H).
  rewrite E in E'. injection E' as <- <- <- <-. cbn zeta in H.
  destruct H as [H|[H|[H|[H|[H|H]]]]].
  - right; left. destruct H as (_ & _ & _ & _ & _ & _ & _ & Eb & Ea). unfold buffered. now rewrite Eb, Ea.
  - right; right. tauto.
  - left. destruct H as (_ & _ & _ & _ & _ & Hall). auto.
  - right; left. destruct H as (_ & _ & _ & _ & _ & Eb & Ea & _). unfold buffered. now rewrite Eb, Ea.
  - right; left. destruct H as (_ & _ & _ & _ & _ & _ & _ & Hall). auto.
  - destruct H as (_ & _ & _ & n & rest & _ & _ & _ & Hall). destruct (Hall x Hx); auto.
Qed.

Theorem stored_eventually ops s s' evs : Inv s -> ops_wf ops -> run_ops s ops = (s', evs) ->
  unrel s = true -> first s = true -> forall x, buffered s x ->
  In x (map fst (deliv evs)) \/ buffered s' x \/ In KReset (kinds evs).
Proof.
  revert ops s s' evs. apply (hist_ind (fun s evs s' =>
    unrel s = true -> first s = true -> forall x, buffered s x ->
    In x (map fst (deliv evs)) \/ buffered s' x \/ In KReset (kinds evs))).
  - intros s HI _ _ x Hx. right; left. exact Hx.
  - intros s p s1 out l k evs s' HI Hp Ep HI1 F IH Hu Hf x Hx.
    unfold deliv. cbn [flat_map ev_deliv kinds]. fold (deliv evs).
    rewrite map_app, map_map. cbn [fst]. rewrite map_id.
    destruct (buffered_fate s p s1 out l k x HI Hp Hf Hu Ep Hx) as [H|[H|H]].
    + left. apply in_or_app. now left.
    + destruct (IH (eq_trans (sf_unrel _ _ _ _ _ _ F) Hu) (sf_first _ _ _ _ _ _ F) x H) as [H'|[H'|H']].
      * left. apply in_or_app. now right.
      * right; left. exact H'.
      * right; right. now right.
    + right; right. left. auto.
  - intros s s1 bl evs s' HI Hf Er HI1 IH Hu _ x Hx. cbn [kinds]. unfold deliv; cbn [flat_map ev_deliv app]; fold (deliv evs).
    destruct (report_spec s HI) as (_ & R1).
    destruct (R1 Hf) as (s1' & bl' & Er' & _ & _ & _ & _ & _ & Hu' & Hf' & Hb' & Ha' & _).
    rewrite Er in Er'. injection Er' as <- <-.
    apply IH; [congruence|exact Hf'|]. unfold buffered. now rewrite Hb', Ha'.
  - intros s evs s' HI Hf IH Hu Hf'. congruence.
  - intros s evs s' HI IH Hu Hf x Hx. cbn [kinds]. unfold deliv; cbn [flat_map ev_deliv app]; fold (deliv evs). auto.
Qed.

(* the head only skips undelivered sequence numbers in an overflow flush (or on a reliable transport);
   a flush needs a packet at least B positions ahead of the next expected one *)
Theorem loss_only_by_flush s p s1 out l k : Inv s -> wf p -> first s = true -> unrel s = true ->
  process s p = Ok s1 out l k -> 0 < l -> k = KFlush /\ bsize (buf s) <= relpos (last s) p.
Proof.
  intros HI Hp Hf Hu E Hl.
  destruct (step_shape s p HI Hp Hf Hu) as (s1' & out' & l' & k' & E' & _ & _ & _ & _ & H).
  rewrite E in E'. injection E' as <- <- <- <-. cbn zeta in H.
  destruct H as [H|[H|[H|[H|[H|H]]]]]; try (exfalso; lia); tauto.
Qed.

(* ---------- the refutation witness (finding F12) ---------- *)
(* each packet arrives late by fewer than B sequence positions: (highest number seen so far) - own < B *)
Fixpoint late_ok_from (B mx : Z) (seqs : list Z) : bool :=
  match seqs with
  | [] => true
  | x :: t => (mx - x <? B) && late_ok_from B (Z.max mx x) t
  end.
Definition late_ok (B : Z) (seqs : list Z) : bool :=
  match seqs with [] => true | x :: _ => late_ok_from B x seqs end.

Fixpoint number_from (i : Z) (seqs : list Z) : list op :=
  match seqs with [] => [] | x :: t => OPkt (mkPkt x i) :: number_from (i + 1) t end.
Definition arrivals (seqs : list Z) : list op := number_from 1 seqs.

Definition delivered_seqs (evs : list ev) : list Z := map (fun d => pseq (fst d)) (deliv evs).

(* the literal claim "a packet displaced by fewer than B positions is delivered" *)
Definition displaced_claim : Prop :=
  forall B seqs s' evs, pow2B B -> NoDup seqs -> Forall (fun x => 0 <= x < 65536) seqs -> late_ok B seqs = true ->
    run_ops (init true B) (arrivals seqs) = (s', evs) ->
    Forall (fun o => o = None) (buf s') ->            (* nothing is left waiting in the buffer *)
    forall x, In x seqs -> In x (delivered_seqs evs).

Definition f12_seqs : list Z := [1; 3; 4; 6; 5; 7; 8; 9; 10; 11; 12].

Lemma f12_run : exists s' evs, run_ops (init true 4) (arrivals f12_seqs) = (s', evs) /\
  Forall (fun o => o = None) (buf s') /\ delivered_seqs evs = [1; 3; 4; 6; 7; 8; 9; 10; 11; 12] /\
  lost s' = 2 /\ recv s' = 10.
Proof.
  do 2 eexists. split; [vm_compute; reflexivity|]. cbn [buf lost recv]. splits; try reflexivity.
  repeat constructor.
Qed.

Theorem displaced_claim_refuted : ~ displaced_claim.
Proof.
  intros C. destruct f12_run as (s' & evs & Er & Hb & Hd & _).
  assert (H : In 5 (delivered_seqs evs)).
  { apply (C 4 f12_seqs s' evs); auto.
    - exists 2. split; [lia|reflexivity].
    - unfold f12_seqs. repeat constructor; cbn [In]; intuition discriminate.
    - unfold f12_seqs. repeat constructor; lia.
    - unfold f12_seqs. cbn [In]. tauto. }
  rewrite Hd in H. cbn [In] in H. intuition discriminate.
Qed.

(* ---------- following a restarted sender ---------- *)
Inductive Feeds : st -> list pkt -> st -> Prop :=
| F_nil s : Feeds s [] s
| F_cons s p s1 out l k t s' : process s p = Ok s1 out l k -> Feeds s1 t s' -> Feeds s (p :: t) s'.

Fixpoint consec (x : Z) (ps : list pkt) : Prop :=
  match ps with [] => True | p :: t => pseq p = w16 x /\ consec (x + 1) t end.

(* the head is at the stream's latest packet x, or ahead of it by fewer than B numbers
   (numbers already delivered from stale buffered packets) *)
Definition tracking (s : st) (x : Z) : Prop := 0 <= s16 (w16 (last s - x)) < bsize (buf s).

(* packets still needed, as a function of the next packet's relative position r and negativeCount *)
Definition needZ (B ng r : Z) : Z :=
  if (r <=? 0) && (- B <? r) then 0
  else if B <=? r then 1
  else if 0 <? r then B - r + 1
  else Z.min (B + 1 - ng) (- B - r + 1).

Lemma needZ_bound B ng r : 1 <= B -> 0 <= ng <= B -> 0 <= needZ B ng r <= B + 1.
Proof.
  intros HB Hn. unfold needZ.
  destruct (Z.leb_spec r 0); destruct (Z.ltb_spec (- B) r); cbn [andb];
    destruct (Z.leb_spec B r); destruct (Z.ltb_spec 0 r); lia.
Qed.

Lemma needZ_zero B ng r : 1 <= B -> 0 <= ng <= B -> needZ B ng r <= 0 -> - B < r <= 0.
Proof.
  intros HB Hn. unfold needZ.
  destruct (Z.leb_spec r 0); destruct (Z.ltb_spec (- B) r); cbn [andb];
    destruct (Z.leb_spec B r); destruct (Z.ltb_spec 0 r); lia.
Qed.

Lemma needZ_spec B ng r : 1 <= B ->
  (- B < r <= 0 -> needZ B ng r = 0) /\ (B <= r -> needZ B ng r = 1) /\
  (0 < r < B -> needZ B ng r = B - r + 1) /\
  (r <= - B -> needZ B ng r = Z.min (B + 1 - ng) (- B - r + 1)).
Proof.
  intros HB. unfold needZ.
  destruct (Z.leb_spec r 0); destruct (Z.ltb_spec (- B) r); cbn [andb];
    destruct (Z.leb_spec B r); destruct (Z.ltb_spec 0 r); lia.
Qed.

(* relative position of the packet that follows p, seen from a head at L' *)
Definition rho (L' : Z) (p : pkt) : Z := s16 (w16 (pseq p - L')).

Lemma rho_next L' p p' : wf p -> pseq p' = w16 (pseq p + 1) -> relpos L' p' = rho L' p.
Proof. intros Hp E. unfold relpos, rho. rewrite E. f_equal. unfold w16. lia. Qed.

Lemma rho_tracking s p : wf p -> 0 <= last s < 65536 -> 1 <= bsize (buf s) <= 16384 ->
  - bsize (buf s) < rho (last s) p <= 0 -> tracking s (pseq p).
Proof.
  unfold rho, tracking, s16, w16, wf. intros Hp HL HB H.
  destruct (Z.ltb_spec ((pseq p - last s) mod 65536) 32768);
    destruct (Z.ltb_spec ((last s - pseq p) mod 65536) 32768); lia.
Qed.

(* one packet of the consecutive stream: the number of packets still needed drops by one *)
Lemma need_step s p : Inv s -> wf p -> first s = true -> unrel s = true -> bsize (buf s) <= 16384 ->
  exists s1 out l k, process s p = Ok s1 out l k /\ Inv s1 /\ first s1 = true /\ unrel s1 = true /\
    bsize (buf s1) = bsize (buf s) /\
    needZ (bsize (buf s)) (neg s1) (rho (last s1) p)
      <= Z.max 0 (needZ (bsize (buf s)) (neg s) (relpos (last s) p) - 1) /\
    (needZ (bsize (buf s)) (neg s) (relpos (last s) p) <= 0 -> l = 0 /\ (out = [] \/ exists rest, out = p :: rest)).
Proof.
  intros HI Hp Hf Hu Hsz.
  destruct (step_shape s p HI Hp Hf Hu) as (s1 & out & l & k & E & HI1 & Hf1 & Hu1 & Hb & H).
  exists s1, out, l, k. splits; auto.
  - cbn zeta in H. destruct (iv_buf s HI Hu) as (HB & Hn).
    pose proof (pow2B_range _ (bi_pow _ _ _ HB)) as HR. pose proof (bi_L _ _ _ HB) as HL.
    pose proof (relpos_range (last s) p) as Hrr.
    destruct (iv_buf s1 HI1 Hu1) as (_ & Hn1). rewrite Hb in Hn1.
    set (B := bsize (buf s)) in *. set (r := relpos (last s) p) in *.
    assert (Hrho_same : last s1 = last s -> r < 32767 -> rho (last s1) p = r + 1).
    { intros -> Hlt. unfold rho, r, relpos, s16, w16 in *. unfold wf in Hp.
      destruct (Z.ltb_spec ((pseq p - last s - 1) mod 65536) 32768);
        destruct (Z.ltb_spec ((pseq p - last s) mod 65536) 32768); lia. }
    assert (Hrho_here : last s1 = pseq p -> rho (last s1) p = 0).
    { intros ->. unfold rho. replace (pseq p - pseq p) with 0 by lia. reflexivity. }
    destruct H as [H|[H|[H|[H|[H|H]]]]].
    + destruct H as (Hr & Hle & _ & _ & _ & El & En & _). rewrite (Hrho_same El) by lia. rewrite En.
      pose proof (needZ_spec B (neg s + 1) (r + 1) (proj1 HR)). pose proof (needZ_spec B (neg s) r (proj1 HR)). lia.
    + destruct H as (Hr & Hlt & _ & _ & _ & El & _). rewrite (Hrho_here El).
      pose proof (needZ_spec B (neg s1) 0 (proj1 HR)). pose proof (needZ_spec B (neg s) r (proj1 HR)). lia.
    + destruct H as (Hr & _ & El & _). rewrite (Hrho_here El).
      pose proof (needZ_spec B (neg s1) 0 (proj1 HR)). pose proof (needZ_spec B (neg s) r (proj1 HR)). lia.
    + destruct H as (Hr & _ & _ & _ & El & _). rewrite (Hrho_same El) by lia.
      pose proof (needZ_spec B (neg s1) (r + 1) (proj1 HR)). pose proof (needZ_spec B (neg s) r (proj1 HR)). lia.
    + destruct H as (Hr & _ & _ & _ & El & _). rewrite (Hrho_same El) by lia.
      pose proof (needZ_spec B (neg s1) (r + 1) (proj1 HR)). pose proof (needZ_spec B (neg s) r (proj1 HR)). lia.
    + destruct H as (Hr & _ & _ & n & rest & Hn' & _ & El & _).
      assert (Erho : rho (last s1) p = 1 - n).
      { rewrite El. unfold rho, r, relpos, s16, w16 in *. unfold wf in Hp.
        destruct (Z.ltb_spec ((pseq p - last s - 1) mod 65536) 32768); try lia.
        destruct (Z.ltb_spec ((pseq p - (last s + n) mod 65536) mod 65536) 32768); lia. }
      rewrite Erho.
      pose proof (needZ_spec B (neg s1) (1 - n) (proj1 HR)). pose proof (needZ_spec B (neg s) r (proj1 HR)). lia.
  - intros Hz. cbn zeta in H. destruct (iv_buf s HI Hu) as (HB & Hn).
    pose proof (pow2B_range _ (bi_pow _ _ _ HB)) as HR.
    pose proof (needZ_zero _ _ _ (proj1 HR) Hn Hz) as Hr0.
    destruct H as [H|[H|[H|[H|[H|H]]]]].
    + destruct H as (_ & _ & _ & -> & -> & _). auto.
    + destruct H as (_ & _ & _ & -> & -> & _). split; [reflexivity|]. right. now exists [].
    + lia.
    + lia.
    + lia.
    + destruct H as (_ & _ & -> & n & rest & _ & -> & _). split; [reflexivity|]. right. now exists rest.
Qed.

Lemma last_default {A} (a : A) l : forall d d', List.last (a :: l) d = List.last (a :: l) d'.
Proof. revert a; induction l as [|b t IH]; intros a d d'; [reflexivity|]. cbn [List.last] in *. apply IH. Qed.

Lemma feeds_need ps : forall s s' x, Inv s -> first s = true -> unrel s = true -> bsize (buf s) <= 16384 ->
  Feeds s ps s' -> consec x ps -> Forall wf ps ->
  forall p0 rest, ps = p0 :: rest ->
  needZ (bsize (buf s)) (neg s) (relpos (last s) p0) <= Z.of_nat (length ps) ->
  Inv s' /\ bsize (buf s') = bsize (buf s) /\ tracking s' (pseq (List.last ps p0)).
Proof.
  induction ps as [|p t IH]; intros s s' x HI Hf Hu Hsz HF Hc Hw p0 rest Eps Hneed; [discriminate|].
  injection Eps as <- <-. inversion HF as [|? ? s1 out l k ? ? Ep HF']; subst.
  inversion Hw as [|? ? Hp Hw']; subst. cbn [consec] in Hc. destruct Hc as (Hx & Hc).
  destruct (need_step s p HI Hp Hf Hu Hsz) as (s1' & out' & l' & k' & Ep' & HI1 & Hf1 & Hu1 & Hb & Hstep & _).
  rewrite Ep in Ep'. injection Ep' as <- <- <- <-.
  destruct (iv_buf s HI Hu) as (HB & Hn). pose proof (pow2B_range _ (bi_pow _ _ _ HB)) as HR.
  destruct (iv_buf s1 HI1 Hu1) as (_ & Hn1). rewrite Hb in Hn1.
  destruct t as [|p' t'].
  - (* last packet of the list *)
    inversion HF'; subst. cbn [List.last length] in *.
    split; [exact HI1|]. split; [exact Hb|].
    apply rho_tracking; auto; [exact (iv_last s' HI1)|rewrite Hb; lia|].
    rewrite Hb. apply (needZ_zero _ (neg s')); try lia.
  - pose proof Hc as Hc2. cbn [consec] in Hc2. destruct Hc2 as (Hx' & _).
    assert (Enext : relpos (last s1) p' = rho (last s1) p).
    { apply rho_next; [exact Hp|]. rewrite Hx', Hx. unfold w16. lia. }
    destruct (IH s1 s' (x + 1) HI1 Hf1 Hu1 ltac:(rewrite Hb; exact Hsz) HF' Hc Hw' p' t' eq_refl) as (A & B & C).
    { rewrite Hb, Enext. cbn [length] in *. lia. }
    split; [exact A|]. split; [congruence|].
    replace (List.last (p :: p' :: t') p) with (List.last (p' :: t') p') by (cbn [List.last]; apply last_default).
    exact C.
Qed.

(* R1: after B+1 (or more) consecutive packets of a new stream, wherever it starts, the receiver tracks it *)
Theorem restart_followed s ps s' x p0 rest : Inv s -> first s = true -> unrel s = true ->
  bsize (buf s) <= 16384 ->
  Feeds s ps s' -> consec x ps -> Forall wf ps -> ps = p0 :: rest ->
  bsize (buf s) + 1 <= Z.of_nat (length ps) ->
  tracking s' (pseq (List.last ps p0)) /\ bsize (buf s') = bsize (buf s).
Proof.
  intros HI Hf Hu Hsz HF Hc Hw Eps Hlen.
  destruct (iv_buf s HI Hu) as (HB & Hn). pose proof (pow2B_range _ (bi_pow _ _ _ HB)) as HR.
  pose proof (needZ_bound (bsize (buf s)) (neg s) (relpos (last s) p0) (proj1 HR) Hn).
  destruct (feeds_need ps s s' x HI Hf Hu Hsz HF Hc Hw p0 rest Eps) as (_ & B & C); [lia|]. auto.
Qed.

(* R2: while tracking, every further packet of the stream is handled without loss: it is delivered at
   the front of the output, or its number was already delivered (stale copy) and it is dropped;
   tracking is kept *)
Theorem tracking_kept s p x : Inv s -> wf p -> first s = true -> unrel s = true -> bsize (buf s) <= 16384 ->
  tracking s x -> pseq p = w16 (x + 1) ->
  exists s1 out l k, process s p = Ok s1 out l k /\ tracking s1 (pseq p) /\ l = 0 /\
    (out = [] \/ exists rest, out = p :: rest).
Proof.
  intros HI Hp Hf Hu Hsz Ht Ex.
  destruct (iv_buf s HI Hu) as (HB & Hn). pose proof (pow2B_range _ (bi_pow _ _ _ HB)) as HR.
  pose proof (bi_L _ _ _ HB) as HL.
  assert (Hr : - bsize (buf s) < relpos (last s) p <= 0).
  { unfold tracking, relpos, s16, w16 in *. rewrite Ex. unfold w16.
    destruct (Z.ltb_spec ((last s - x) mod 65536) 32768);
      destruct (Z.ltb_spec (((x + 1) mod 65536 - last s - 1) mod 65536) 32768); lia. }
  assert (Hz : needZ (bsize (buf s)) (neg s) (relpos (last s) p) <= 0).
  { unfold needZ. destruct (Z.leb_spec (relpos (last s) p) 0); destruct (Z.ltb_spec (- bsize (buf s)) (relpos (last s) p)); cbn [andb]; lia. }
  destruct (need_step s p HI Hp Hf Hu Hsz) as (s1 & out & l & k & Ep & HI1 & Hf1 & Hu1 & Hb & Hstep & Hout).
  exists s1, out, l, k. destruct (Hout Hz) as (-> & Ho). splits; auto.
  destruct (iv_buf s1 HI1 Hu1) as (_ & Hn1). rewrite Hb in Hn1.
  apply rho_tracking; auto; [exact (iv_last s1 HI1)|rewrite Hb; lia|].
  rewrite Hb. apply (needZ_zero _ (neg s1)); lia.
Qed.

(* Receiver (C14), part 1: arithmetic of the ring indices, specifications of the five loops of
   reorder, the buffer invariant and the per-branch specification of reorder. *)
From GVL Require Import NList Wire Wrap.
From GV_receiver Require Import Model.
From Coq Require Import ZifyBool ZifyNat ZifyN.
Open Scope Z_scope.

Ltac splits := repeat match goal with |- _ /\ _ => split end.

Lemma length_nlen {A} (l : list A) : Z.of_N (nlen l) = Z.of_nat (length l).
Proof. rewrite nlen_length. lia. Qed.

(* ---------- powers of two, the mask is a modulus ---------- *)
Definition pow2B (B : Z) : Prop := exists k, 0 <= k <= 15 /\ B = 2 ^ k.

Lemma pow2B_range B : pow2B B -> 1 <= B <= 32768.
Proof.
  intros (k & Hk & ->). split.
  - pose proof (Z.pow_pos_nonneg 2 k). lia.
  - change 32768 with (2 ^ 15). apply Z.pow_le_mono_r; lia.
Qed.

Lemma land_pow2 B x : pow2B B -> Z.land x (B - 1) = x mod B.
Proof.
  intros (k & Hk & ->). replace (2 ^ k - 1) with (Z.ones k) by (rewrite Z.ones_equiv; lia).
  apply Z.land_ones; lia.
Qed.

Lemma mask_pow2 B : pow2B B -> mask B = B - 1.
Proof.
  intros H. apply pow2B_range in H. unfold mask. rewrite (w16_small B) by lia. apply w16_small. lia.
Qed.

Lemma slotz_mod B a i : pow2B B -> 0 <= a < B -> 0 <= i <= 32768 -> slotz B a i = (a + i) mod B.
Proof.
  intros HB Ha Hi. pose proof (pow2B_range B HB). unfold slotz.
  rewrite mask_pow2, w16_small by (assumption || lia). now apply land_pow2.
Qed.

Lemma mod_lt2 x B : 0 < B -> 0 <= x < 2 * B -> x mod B = if x <? B then x else x - B.
Proof.
  intros HB Hx. destruct (Z.ltb_spec x B).
  - apply Z.mod_small; lia.
  - symmetry. apply (Z.mod_unique_pos x B 1 (x - B)); lia.
Qed.

(* ---------- the ring seen from absPos: offset j lives at index ix B a j ---------- *)
Definition ix (B a j : Z) : N := Z.to_N ((a + j) mod B).
Definition vw (B a : Z) (b : list (option pkt)) (j : Z) : option (option pkt) := nnth (ix B a j) b.

Lemma ix_lt B a j : 0 < B -> (ix B a j < Z.to_N B)%N.
Proof. intros HB. unfold ix. pose proof (Z.mod_pos_bound (a + j) B HB). lia. Qed.

Lemma ix_0 B a : 0 <= a < B -> ix B a 0 = Z.to_N a.
Proof. intros Ha. unfold ix. rewrite Z.add_0_r, Z.mod_small by lia. reflexivity. Qed.

Lemma ix_inj B a j j' : 0 <= a < B -> 0 <= j < B -> 0 <= j' < B -> ix B a j = ix B a j' -> j = j'.
Proof.
  intros Ha Hj Hj' H. unfold ix in H.
  assert (E : (a + j) mod B = (a + j') mod B).
  { pose proof (Z.mod_pos_bound (a + j) B). pose proof (Z.mod_pos_bound (a + j') B). lia. }
  rewrite !mod_lt2 in E by lia.
  destruct (Z.ltb_spec (a + j) B); destruct (Z.ltb_spec (a + j') B); lia.
Qed.

Lemma ix_shift B a n j : 0 < B -> ix B ((a + n) mod B) j = ix B a (n + j).
Proof.
  intros HB. unfold ix. rewrite Z.add_mod_idemp_l by lia. f_equal. f_equal. lia.
Qed.

Lemma ix_wrap B a j : 0 < B -> ix B a (j + B) = ix B a j.
Proof.
  intros HB. unfold ix. replace (a + (j + B)) with (a + j + 1 * B) by lia.
  rewrite Z.mod_add by lia. reflexivity.
Qed.

Lemma slot_ix B a i : pow2B B -> 0 <= a < B -> 0 <= i <= 32768 -> slot B a i = ix B a i.
Proof. intros. unfold slot, ix. now rewrite slotz_mod. Qed.

(* every index is the image of an offset *)
Lemma ix_surj B a (q : N) : 0 <= a < B -> (q < Z.to_N B)%N -> exists j, 0 <= j < B /\ ix B a j = q.
Proof.
  intros Ha Hq. destruct (Z.ltb_spec (Z.of_N q) a).
  - exists (Z.of_N q - a + B). split; [lia|]. unfold ix.
    replace (a + (Z.of_N q - a + B)) with (Z.of_N q + 1 * B) by lia.
    rewrite Z.mod_add, Z.mod_small by lia. lia.
  - exists (Z.of_N q - a). split; [lia|]. unfold ix.
    replace (a + (Z.of_N q - a)) with (Z.of_N q) by lia. rewrite Z.mod_small by lia. lia.
Qed.

Lemma vw_some B a b j : 0 < B -> nlen b = Z.to_N B -> exists v, vw B a b j = Some v.
Proof. intros HB Hl. apply nnth_lt. rewrite Hl. now apply ix_lt. Qed.

Lemma vw_nset_same B a b j v : 0 < B -> nlen b = Z.to_N B -> vw B a (nset (ix B a j) v b) j = Some v.
Proof. intros HB Hl. unfold vw. apply nnth_nset_same. rewrite Hl. now apply ix_lt. Qed.

Lemma vw_nset_other B a b j j' v : 0 <= a < B -> 0 <= j < B -> 0 <= j' < B -> j <> j' ->
  vw B a (nset (ix B a j) v b) j' = vw B a b j'.
Proof.
  intros Ha Hj Hj' Hne. unfold vw. apply nnth_nset_other. intros E. apply Hne. exact (ix_inj B a j j' Ha Hj Hj' E).
Qed.

(* ---------- the packets found at offsets j, j+1, ... (k of them inspected) ---------- *)
Fixpoint pick (k : nat) (B a : Z) (b : list (option pkt)) (j : Z) : list pkt :=
  match k with
  | O => []
  | S k' =>
      match vw B a b j with
      | Some (Some p) => p :: pick k' B a b (j + 1)
      | _ => pick k' B a b (j + 1)
      end
  end.

Lemma pick_ext k B a b b' j :
  (forall i, j <= i < j + Z.of_nat k -> vw B a b' i = vw B a b i) -> pick k B a b' j = pick k B a b j.
Proof.
  revert j; induction k as [|k IH]; intros j H; cbn [pick]; [reflexivity|].
  rewrite (H j) by lia. rewrite (IH (j + 1)) by (intros; apply H; lia). reflexivity.
Qed.

Lemma pick_length_le k B a b j : (length (pick k B a b j) <= k)%nat.
Proof.
  revert j; induction k as [|k IH]; intros j; cbn [pick length]; [lia|].
  destruct (vw B a b j) as [[p|]|]; cbn [length]; specialize (IH (j + 1)); lia.
Qed.

(* ---------- clear_loop ---------- *)
Lemma clear_loop_spec fuel : forall B a i b,
  pow2B B -> 0 <= a < B -> nlen b = Z.to_N B -> 0 <= i -> i + Z.of_N (nlen fuel) <= B ->
  exists b', clear_loop fuel B a i b = Some b' /\ nlen b' = nlen b /\
    (forall q, nnth q b = Some None -> nnth q b' = Some None) /\
    (forall j, i <= j < i + Z.of_N (nlen fuel) -> vw B a b' j = Some None).
Proof.
  induction fuel as [|x f IH]; intros B a i b HB Ha Hl Hi Hf; cbn [clear_loop nlen] in *.
  - exists b. splits; auto. intros; lia.
  - pose proof (pow2B_range B HB) as HR.
    rewrite slot_ix by (assumption || lia).
    assert (Hq : (ix B a i < nlen b)%N) by (rewrite Hl; apply ix_lt; lia).
    apply N.ltb_lt in Hq as Hq'. rewrite Hq'.
    destruct (IH B a (i + 1) (nset (ix B a i) None b)) as (b' & E & Hl' & Hmono & Hrange);
      try assumption; try lia.
    { now rewrite nlen_nset. }
    exists b'. splits; auto.
    + now rewrite Hl', nlen_nset.
    + intros q Hn. apply Hmono. destruct (N.eq_dec (ix B a i) q) as [<-|Hne].
      * now apply nnth_nset_same.
      * now rewrite nnth_nset_other.
    + intros j Hj. destruct (Z.eq_dec j i) as [->|Hne].
      * apply Hmono. now apply nnth_nset_same.
      * apply Hrange. lia.
Qed.

(* ---------- count_loop ---------- *)
Lemma count_loop_spec fuel : forall B a i b n,
  pow2B B -> 0 <= a < B -> nlen b = Z.to_N B -> 0 <= i -> i + Z.of_N (nlen fuel) <= B ->
  count_loop fuel B a i b n = Some (n + Z.of_nat (length (pick (length fuel) B a b i))).
Proof.
  induction fuel as [|x f IH]; intros B a i b n HB Ha Hl Hi Hf; cbn [count_loop nlen length pick] in *.
  - f_equal. lia.
  - pose proof (pow2B_range B HB) as HR.
    rewrite slot_ix by (assumption || lia). fold (vw B a b i).
    destruct (vw_some B a b i) as (v & E); [lia|assumption|]. rewrite E.
    destruct v as [p|]; rewrite IH by (assumption || lia); f_equal; cbn [length]; lia.
Qed.

(* ---------- collect_loop ---------- *)
Lemma collect_loop_spec fuel : forall B a i b acc,
  pow2B B -> 0 <= a < B -> nlen b = Z.to_N B -> 0 <= i -> i + Z.of_N (nlen fuel) <= B ->
  exists b', collect_loop fuel B a i b acc = Some (b', acc ++ pick (length fuel) B a b i) /\
    nlen b' = nlen b /\
    (forall j, i <= j < i + Z.of_N (nlen fuel) -> vw B a b' j = Some None) /\
    (forall j, 0 <= j < B -> ~ (i <= j < i + Z.of_N (nlen fuel)) -> vw B a b' j = vw B a b j).
Proof.
  induction fuel as [|x f IH]; intros B a i b acc HB Ha Hl Hi Hf; cbn [collect_loop nlen length pick] in *.
  - exists b. rewrite app_nil_r. splits; auto. intros; lia.
  - pose proof (pow2B_range B HB) as HR.
    rewrite slot_ix by (assumption || lia). fold (vw B a b i).
    destruct (vw_some B a b i) as (v & E); [lia|assumption|]. rewrite E.
    destruct v as [p|].
    + destruct (IH B a (i + 1) (nset (ix B a i) None b) (acc ++ [p])) as (b' & E' & Hl' & Hr & Ho);
        try assumption; try lia.
      { now rewrite nlen_nset. }
      exists b'. splits.
      * rewrite E', <- app_assoc. cbn [app]. do 4 f_equal. apply pick_ext.
        pose proof (length_nlen f). intros k Hk. apply vw_nset_other; lia.
      * now rewrite Hl', nlen_nset.
      * intros j Hj. destruct (Z.eq_dec j i) as [->|Hne]; [|apply Hr; lia].
        rewrite Ho by lia. apply vw_nset_same; [lia|assumption].
      * intros j Hj Hn. rewrite Ho by lia. apply vw_nset_other; lia.
    + destruct (IH B a (i + 1) b acc) as (b' & E' & Hl' & Hr & Ho); try assumption; try lia.
      exists b'. splits; auto.
      * intros j Hj. destruct (Z.eq_dec j i) as [->|Hne]; [|apply Hr; lia].
        rewrite Ho by lia. exact E.
      * intros j Hj Hn. apply Ho; lia.
Qed.

(* ---------- run_len: terminates because offset 0 (= offset B) is empty ---------- *)
Lemma run_len_spec fuel : forall B a n b,
  pow2B B -> 0 <= a < B -> nlen b = Z.to_N B -> vw B a b 0 = Some None ->
  1 <= n <= B -> Z.of_N (nlen fuel) = B + 1 - n ->
  exists n', run_len fuel B a n b = RunN n' /\ n <= n' <= B /\
    (forall j, n <= j < n' -> exists x, vw B a b j = Some (Some x)) /\
    vw B a b n' = Some None.
Proof.
  induction fuel as [|x f IH]; intros B a n b HB Ha Hl Hh Hn Hf; cbn [run_len nlen] in *; [lia|].
  pose proof (pow2B_range B HB) as HR.
  rewrite slot_ix by (assumption || lia). fold (vw B a b n).
  destruct (vw_some B a b n) as (v & E); [lia|assumption|]. rewrite E.
  destruct v as [p|].
  - assert (n < B).
    { destruct (Z.eq_dec n B) as [->|]; [|lia]. exfalso.
      unfold vw in E, Hh. replace B with (0 + B) in E at 2 by lia. rewrite ix_wrap in E by lia. congruence. }
    rewrite w16_small by lia.
    destruct (IH B a (n + 1) b) as (n' & E' & Hn' & Hall & Hend); try assumption; try lia.
    exists n'. splits; try lia; auto.
    intros j Hj. destruct (Z.eq_dec j n) as [->|]; [eauto|apply Hall; lia].
  - exists n. splits; try lia; auto.
Qed.

(* ---------- take_loop ---------- *)
Lemma take_loop_spec fuel : forall B i n a b acc,
  pow2B B -> 0 <= a < B -> nlen b = Z.to_N B -> 1 <= i <= n -> n <= B ->
  n - i <= Z.of_N (nlen fuel) ->
  (forall j, i <= j < n -> exists x, vw B a b j = Some (Some x)) ->
  exists b', take_loop fuel B i n ((a + i) mod B) b acc
             = Some ((a + n) mod B, b', acc ++ pick (Z.to_nat (n - i)) B a b i) /\
    nlen b' = nlen b /\
    (forall j, i <= j < n -> vw B a b' j = Some None) /\
    (forall j, 0 <= j < B -> ~ (i <= j < n) -> vw B a b' j = vw B a b j).
Proof.
  induction fuel as [|x f IH]; intros B i n a b acc HB Ha Hl Hi Hn Hf Hall.
  - cbn [nlen] in Hf. assert (n = i) by lia. subst n. cbn [take_loop].
    destruct (Z.leb_spec i i); [|lia]. replace (Z.to_nat (i - i)) with O by lia. cbn [pick].
    exists b. rewrite app_nil_r. splits; auto. intros; lia.
  - cbn [take_loop nlen] in *. destruct (Z.leb_spec n i).
    + assert (n = i) by lia. subst n. replace (Z.to_nat (i - i)) with O by lia. cbn [pick].
      exists b. rewrite app_nil_r. splits; auto. intros; lia.
    + pose proof (pow2B_range B HB) as HR.
      destruct (Hall i) as (p & E); [lia|].
      assert (Ei : Z.to_N ((a + i) mod B) = ix B a i) by reflexivity.
      rewrite Ei. fold (vw B a b i). rewrite E.
      assert (Es : slotz B ((a + i) mod B) 1 = (a + (i + 1)) mod B).
      { rewrite slotz_mod; try assumption; try lia; try (apply Z.mod_pos_bound; lia).
        rewrite Z.add_mod_idemp_l by lia. f_equal. lia. }
      rewrite Es.
      destruct (IH B (i + 1) n a (nset (ix B a i) None b) (acc ++ [p])) as (b' & E' & Hl' & Hr & Ho);
        try assumption; try lia.
      { now rewrite nlen_nset. }
      { intros j Hj. destruct (Hall j) as (y & Ey); [lia|]. exists y.
        rewrite vw_nset_other; try assumption; lia. }
      exists b'. splits.
      * rewrite E'. replace (Z.to_nat (n - i)) with (S (Z.to_nat (n - (i + 1)))) by lia.
        cbn [pick]. rewrite E, <- app_assoc. cbn [app]. do 4 f_equal. apply pick_ext.
        intros k Hk. apply vw_nset_other; lia.
      * now rewrite Hl', nlen_nset.
      * intros j Hj. destruct (Z.eq_dec j i) as [->|Hne]; [|apply Hr; lia].
        rewrite Ho by lia. apply vw_nset_same; [lia|assumption].
      * intros j Hj Hnj. rewrite Ho by lia. apply vw_nset_other; lia.
Qed.

(* ---------- ascending offsets, chains of delivered packets ---------- *)
(* exact: the elements sit at strictly increasing offsets >= lo; e = last offset + 1 (lo if empty) *)
Fixpoint asc (L lo : Z) (l : list pkt) (e : Z) : Prop :=
  match l with
  | [] => e = lo
  | p :: t => exists j, lo <= j /\ pseq p = w16 (L + 1 + j) /\ asc L (j + 1) t e
  end.
(* relaxed: all offsets in [lo, e) *)
Fixpoint ascr (L lo : Z) (l : list pkt) (e : Z) : Prop :=
  match l with
  | [] => lo <= e
  | p :: t => exists j, lo <= j /\ pseq p = w16 (L + 1 + j) /\ ascr L (j + 1) t e
  end.

Lemma ascr_lo L l : forall lo lo' e, ascr L lo l e -> lo' <= lo -> ascr L lo' l e.
Proof.
  destruct l as [|p t]; intros lo lo' e H Hl; cbn [ascr] in *; [lia|].
  destruct H as (j & Hj & Hs & Ht). exists j. splits; auto. lia.
Qed.

Lemma ascr_app_exact L l : forall lo e p j, ascr L lo l e -> e <= j -> pseq p = w16 (L + 1 + j) ->
  asc L lo (l ++ [p]) (j + 1).
Proof.
  induction l as [|q t IH]; intros lo e p j H He Hp; cbn [ascr asc app] in *.
  - exists j. splits; auto. lia.
  - destruct H as (i & Hi & Hs & Ht). exists i. splits; auto. eapply IH; eauto.
Qed.

(* consecutive deliveries: forward gap in [1, 2^15] modulo 2^16 *)
Fixpoint chain (prev : Z) (l : list pkt) : Prop :=
  match l with
  | [] => True
  | p :: t => 1 <= w16 (pseq p - prev) <= 32768 /\ chain (pseq p) t
  end.
(* sequence numbers skipped between consecutive deliveries *)
Fixpoint skipped (prev : Z) (l : list pkt) : Z :=
  match l with
  | [] => 0
  | p :: t => w16 (pseq p - prev - 1) + skipped (pseq p) t
  end.
Fixpoint lastseq (prev : Z) (l : list pkt) : Z :=
  match l with
  | [] => prev
  | p :: t => lastseq (pseq p) t
  end.
(* sum of the forward gaps *)
Fixpoint span (prev : Z) (l : list pkt) : Z :=
  match l with
  | [] => 0
  | p :: t => w16 (pseq p - prev) + span (pseq p) t
  end.

Lemma asc_chain L l : forall lo e, asc L lo l e -> 0 <= lo -> e <= 32768 ->
  chain (w16 (L + lo)) l /\
  skipped (w16 (L + lo)) l = e - lo - Z.of_nat (length l) /\
  span (w16 (L + lo)) l = e - lo /\
  lastseq (w16 (L + lo)) l = w16 (L + e) /\ lo <= e.
Proof.
  induction l as [|p t IH]; intros lo e H Hlo He; cbn [asc chain skipped lastseq span length] in *.
  - subst e. splits; auto; lia.
  - destruct H as (j & Hj & Hs & Ht).
    destruct (IH (j + 1) e Ht) as (Hc & Hk & Hsp & Hls & Hle); try lia.
    replace (L + (j + 1)) with (L + 1 + j) in * by lia. rewrite <- Hs in *.
    assert (G : w16 (pseq p - w16 (L + lo)) = j + 1 - lo) by (rewrite Hs; unfold w16; lia).
    assert (G1 : w16 (pseq p - w16 (L + lo) - 1) = j - lo) by (rewrite Hs; unfold w16; lia).
    splits; auto; try lia.
Qed.

(* ---------- the buffer invariant ---------- *)
Record BufInv (b : list (option pkt)) (a L : Z) : Prop := {
  bi_pow : pow2B (bsize b);
  bi_a : 0 <= a < bsize b;
  bi_L : 0 <= L < 65536;
  bi_head : vw (bsize b) a b 0 = Some None;
  bi_seq : forall j p, 0 < j < bsize b -> vw (bsize b) a b j = Some (Some p) -> pseq p = w16 (L + 1 + j) }.

Lemma bsize_len b : nlen b = Z.to_N (bsize b).
Proof. unfold bsize. lia. Qed.

Lemma pick_ascr k : forall b a L i, BufInv b a L -> 0 <= i -> i + Z.of_nat k <= bsize b ->
  ascr L i (pick k (bsize b) a b i) (i + Z.of_nat k).
Proof.
  induction k as [|k IH]; intros b a L i HI Hi Hk; cbn [pick ascr]; [lia|].
  specialize (IH b a L (i + 1) HI).
  destruct (vw (bsize b) a b i) as [[p|]|] eqn:E.
  - cbn [ascr]. exists i. splits; [lia| |].
    + apply (bi_seq _ _ _ HI); [|assumption]. destruct (Z.eq_dec i 0) as [->|]; [|lia].
      rewrite (bi_head _ _ _ HI) in E. discriminate.
    + replace (i + Z.of_nat (S k)) with (i + 1 + Z.of_nat k) by lia. apply IH; lia.
  - eapply ascr_lo; [|apply Z.le_succ_diag_r]. unfold Z.succ.
    replace (i + Z.of_nat (S k)) with (i + 1 + Z.of_nat k) by lia. apply IH; lia.
  - eapply ascr_lo; [|apply Z.le_succ_diag_r]. unfold Z.succ.
    replace (i + Z.of_nat (S k)) with (i + 1 + Z.of_nat k) by lia. apply IH; lia.
Qed.

Lemma pick_full_asc k : forall b a L i, BufInv b a L -> 0 < i -> i + Z.of_nat k <= bsize b ->
  (forall j, i <= j < i + Z.of_nat k -> exists x, vw (bsize b) a b j = Some (Some x)) ->
  asc L i (pick k (bsize b) a b i) (i + Z.of_nat k) /\ length (pick k (bsize b) a b i) = k.
Proof.
  induction k as [|k IH]; intros b a L i HI Hi Hk Hall; cbn [pick asc length].
  - split; [lia|reflexivity].
  - destruct (Hall i) as (p & E); [lia|]. rewrite E. cbn [asc length].
    destruct (IH b a L (i + 1) HI) as (IA & IL); try lia.
    { intros j Hj. apply Hall. lia. }
    split; [|now rewrite IL]. exists i. splits; [lia| |].
    + apply (bi_seq _ _ _ HI); [lia|assumption].
    + replace (i + Z.of_nat (S k)) with (i + 1 + Z.of_nat k) by lia. exact IA.
Qed.

(* all slots empty *)
Definition empty_buf (b : list (option pkt)) : Prop := forall q, (q < nlen b)%N -> nnth q b = Some None.

Lemma empty_inv b a L : pow2B (bsize b) -> 0 <= a < bsize b -> 0 <= L < 65536 -> empty_buf b -> BufInv b a L.
Proof.
  intros HB Ha HL He. pose proof (pow2B_range _ HB).
  assert (Hv : forall j, vw (bsize b) a b j = Some None).
  { intros j. apply He. rewrite bsize_len. apply ix_lt. lia. }
  constructor; auto. intros j p _ E. rewrite Hv in E. discriminate.
Qed.

Lemma all_none_empty b a : pow2B (bsize b) -> 0 <= a < bsize b ->
  (forall j, 0 <= j < bsize b -> vw (bsize b) a b j = Some None) -> empty_buf b.
Proof.
  intros HB Ha H q Hq. rewrite bsize_len in Hq.
  destruct (ix_surj (bsize b) a q Ha Hq) as (j & Hj & <-). now apply H.
Qed.

Lemma nrep_empty (n : N) : empty_buf (nrep (@None pkt) n).
Proof. intros q Hq. rewrite nlen_nrep in Hq. now apply nnth_nrep. Qed.

(* relPos facts *)
Definition relpos (L : Z) (p : pkt) : Z := s16 (w16 (pseq p - L - 1)).
Definition wf (p : pkt) : Prop := 0 <= pseq p < 65536.

Lemma relpos_range L p : -32768 <= relpos L p < 32768.
Proof. unfold relpos, s16, w16. destruct (Z.ltb_spec ((pseq p - L - 1) mod 65536) 32768); lia. Qed.

Lemma relpos_nonneg_seq L p : wf p -> 0 <= relpos L p -> pseq p = w16 (L + 1 + relpos L p).
Proof.
  unfold wf, relpos, s16, w16. intros Hp H.
  destruct (Z.ltb_spec ((pseq p - L - 1) mod 65536) 32768); lia.
Qed.

(* ---------- reorder, branch by branch ---------- *)
Inductive reorder_post (b : list (option pkt)) (a ng L : Z) (p : pkt) : ro -> Prop :=
| RP_behind : relpos L p < 0 -> ng + 1 <= bsize b ->
    reorder_post b a ng L p (RO b a (ng + 1) [] 0 KBehind)
| RP_reset b' : relpos L p < 0 -> bsize b < ng + 1 -> nlen b' = nlen b -> empty_buf b' ->
    reorder_post b a ng L p (RO b' a 0 [p] 0 KReset)
| RP_flush b' acc : bsize b <= relpos L p -> nlen b' = nlen b -> empty_buf b' ->
    acc = pick (length b) (bsize b) a b 0 ->
    reorder_post b a ng L p (RO b' a 0 (acc ++ [p]) (relpos L p - Z.of_nat (length acc)) KFlush)
| RP_dup x : 0 < relpos L p < bsize b -> vw (bsize b) a b (relpos L p) = Some (Some x) ->
    reorder_post b a ng L p (RO b a 0 [] 0 KDup)
| RP_store : 0 < relpos L p < bsize b -> vw (bsize b) a b (relpos L p) = Some None ->
    reorder_post b a ng L p (RO (nset (ix (bsize b) a (relpos L p)) (Some p) b) a 0 [] 0 KStore)
| RP_run b' n : relpos L p = 0 -> 1 <= n <= bsize b -> nlen b' = nlen b ->
    (forall j, 1 <= j < n -> exists x, vw (bsize b) a b j = Some (Some x)) ->
    vw (bsize b) a b n = Some None ->
    (forall j, 1 <= j < n -> vw (bsize b) a b' j = Some None) ->
    (forall j, 0 <= j < bsize b -> ~ (1 <= j < n) -> vw (bsize b) a b' j = vw (bsize b) a b j) ->
    reorder_post b a ng L p
      (RO b' ((a + n) mod bsize b) 0 (p :: pick (Z.to_nat (n - 1)) (bsize b) a b 1) 0 KRun).

Lemma reorder_spec b a ng L p :
  BufInv b a L -> wf p -> 0 <= ng -> reorder_post b a ng L p (reorder b a ng L p).
Proof.
  intros HI Hp Hng. pose proof (bi_pow _ _ _ HI) as HB. pose proof (pow2B_range _ HB) as HR.
  pose proof (bi_a _ _ _ HI) as Ha. pose proof (bsize_len b) as Hl.
  pose proof (relpos_range L p) as Hrr.
  unfold reorder. fold (relpos L p).
  destruct (Z.ltb_spec (relpos L p) 0) as [Hneg|Hnn].
  - destruct (Z.ltb_spec (bsize b) (ng + 1)) as [Hov|Hno].
    + destruct (clear_loop_spec b (bsize b) a 0 b) as (b' & E & Hl' & _ & Hr); try assumption; try lia.
      rewrite E. apply RP_reset; auto.
      apply (all_none_empty b' a).
      * unfold bsize. rewrite Hl'. exact HB.
      * unfold bsize. rewrite Hl'. exact Ha.
      * intros j Hj. unfold bsize in *. rewrite Hl' in *. apply Hr. lia.
    + now apply RP_behind.
  - destruct (Z.leb_spec (bsize b) (relpos L p)) as [Hfl|Hin].
    + rewrite count_loop_spec by (assumption || unfold bsize; lia).
      destruct (collect_loop_spec b (bsize b) a 0 b []) as (b' & E & Hl' & Hr & _); try assumption; try lia.
      rewrite E. cbn [app].
      set (acc := pick (length b) (bsize b) a b 0).
      rewrite length_nlen.
      destruct (Z.eqb_spec (1 + Z.of_nat (length acc)) (Z.of_nat (length acc) + 1)); [|lia].
      assert (Hle : Z.of_nat (length acc) <= bsize b - 1).
      { (* offset 0 is empty, so at most B-1 packets are picked *)
        unfold acc. destruct b as [|x t]; [unfold bsize in HR; cbn in HR; lia|].
        cbn [length pick]. rewrite (bi_head _ _ _ HI).
        pose proof (pick_length_le (length t) (bsize (x :: t)) a (x :: t) (0 + 1)).
        assert (Hb : bsize (x :: t) = Z.of_nat (length t) + 1)
          by (unfold bsize; rewrite nlen_length; cbn [length]; lia).
        lia. }
      replace (w64 (relpos L p - (1 + Z.of_nat (length acc)) + 1))
        with (relpos L p - Z.of_nat (length acc)) by (unfold w64; rewrite Z.mod_small; lia).
      apply RP_flush; auto.
      apply (all_none_empty b' a).
      * unfold bsize. rewrite Hl'. exact HB.
      * unfold bsize. rewrite Hl'. exact Ha.
      * intros j Hj. unfold bsize in *. rewrite Hl' in *. apply Hr. lia.
    + destruct (Z.eqb_spec (relpos L p) 0) as [H0|Hne]; cbn [negb].
      * destruct (run_len_spec b (bsize b) a 1 b) as (n & E & Hn & Hall & Hend); try assumption; try lia.
        { exact (bi_head _ _ _ HI). }
        rewrite E.
        assert (Es : slotz (bsize b) a 1 = (a + 1) mod bsize b) by (apply slotz_mod; assumption || lia).
        rewrite Es.
        destruct (take_loop_spec b (bsize b) 1 n a b []) as (b' & E' & Hl' & Hr & Ho); try assumption; try lia.
        rewrite E'. cbn [app]. eapply RP_run; eauto.
      * rewrite slot_ix by (assumption || lia). fold (vw (bsize b) a b (relpos L p)).
        destruct (vw_some (bsize b) a b (relpos L p)) as (v & E); [lia|assumption|]. rewrite E.
        destruct v as [x|].
        -- eapply RP_dup; eauto. lia.
        -- apply RP_store; auto. lia.
Qed.

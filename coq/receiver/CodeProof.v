(* The translated reorder (coq/gen/Prog.v, regenerated from receiver.go on every run), executed by the interpreter of
   GVL.Imp, computes what the hand-written model's [reorder] computes: loop by loop, then branch by branch. *)
From Coq Require Import ZArith List Lia Bool.
From Coq Require Import ZifyBool ZifyNat ZifyN.
From GVL Require Import NList Wire Wrap Imp.
From GVG Require Import Prog.
From GV_receiver Require Import Model Proofs Bridge Code.
Import ListNotations.
Open Scope Z_scope.

Notation vPkt := p_recv_reorder_v_pkt.
Notation vSeq := p_recv_reorder_v_pkt_SequenceNumber.
Notation vLast := p_recv_reorder_v_rr_lastSequenceNumber.
Notation vNeg := p_recv_reorder_v_rr_negativeCount.
Notation vAbs := p_recv_reorder_v_rr_absPos.
Notation BUF := p_recv_reorder_a_rr_buffer.

Lemma ki64_small x : -9223372036854775808 <= x < 9223372036854775808 -> ki64 x = x.
Proof. unfold ki64, s64, w64. intros H. destruct (Z.ltb_spec (x mod 18446744073709551616) 9223372036854775808); lia. Qed.

Lemma LEN_buf st (b : list (option pkt)) : A st BUF = map encs b -> LEN st BUF = bsize b.
Proof. intros H. unfold LEN, bsize. rewrite H, nlen_map. reflexivity. Qed.

Lemma nlen_bsize (b : list (option pkt)) : nlen b = Z.to_N (bsize b).
Proof. unfold bsize. lia. Qed.

Lemma slot_eq B a i : Z.to_N (w16 (Z.land (w16 (a + i)) (w16 (w16 B - 1)))) = slot B a i.
Proof.
  unfold slot, slotz, mask. f_equal. apply w16_small.
  apply Bridge.land_u16; [apply w16_range|]. pose proof (w16_range (w16 B - 1)). lia.
Qed.
Lemma slot_nonneg B a i : 0 <= w16 (Z.land (w16 (a + i)) (w16 (w16 B - 1))).
Proof. apply w16_range. Qed.

Ltac eqb_closed :=
  repeat match goal with
  | |- context[N.eqb ?a ?b] =>
      let r := eval vm_compute in (N.eqb a b) in
      lazymatch r with
      | true => change (N.eqb a b) with true
      | false => change (N.eqb a b) with false
      end
  end.
Ltac vs := repeat (rewrite ?V_setV, ?V_setA, ?A_setV, ?A_setA, ?LEN_setV, ?LEN_setA; eqb_closed; cbv iota).

(* loop 1: for i := 0; i < uint16(len(buffer)); i++ { buffer[(absPos+i)&mask] = nil } *)
Lemma loop1_ok : forall fuel B a i b b' st,
  clear_loop fuel B a i b = Some b' ->
  A st BUF = map encs b -> B = bsize b -> B <= 32768 ->
  V st p_recv_reorder_v_i = i -> V st vAbs = a -> 0 <= i -> i + Z.of_nat (length fuel) = B ->
  exists st', bs p_recv_reorder_loop1 st (ONormal st') /\ A st' BUF = map encs b' /\
     (forall x, x <> p_recv_reorder_v_i -> x <> p_recv_reorder_v_p -> V st' x = V st x) /\
     (forall y, y <> BUF -> A st' y = A st y).
Proof.
  induction fuel as [|u fuel IH]; intros B a i b b' st Hc Hb HB HB' Hi Ha Hi0 Hlen.
  - cbn in Hc. injection Hc as <-. exists st. split; [|auto].
    apply bs_for_done. cbv beta zeta. rewrite (LEN_buf _ _ Hb), Hi. cbn [length] in Hlen.
    rewrite w16_small by lia. f_equal. lia.
  - cbn [clear_loop] in Hc. destruct (N.ltb_spec (slot B a i) (nlen b)) as [Hq|Hq]; [|discriminate].
    cbn [length] in Hlen.
    eapply bs_for_step_ex with (Q := fun st' => _).
    + cbv beta zeta. rewrite (LEN_buf _ _ Hb), Hi. rewrite w16_small by lia. f_equal. lia.
    + eapply bs_seq_set; [reflexivity|]. eapply bs_store1; [reflexivity|reflexivity| |].
      * vs. apply slot_nonneg.
      * vs. rewrite (LEN_buf _ _ Hb), Hi, Ha, <- HB, slot_eq, Hb, nlen_map. exact Hq.
    + apply bs_set1. reflexivity.
    + eapply (IH B a (i + 1) (nset (slot B a i) None b) b'); try eassumption.
      * vs. rewrite (LEN_buf _ _ Hb), Hi, Ha, <- HB, slot_eq, Hb. apply (nset_map encs _ None).
      * unfold bsize. rewrite nlen_nset. exact HB.
      * vs. rewrite Hi. apply w16_small. lia.
      * vs. exact Ha.
      * lia.
      * lia.
    + cbv beta. intros st' (HA & HV & HO). split; [exact HA|split].
      * intros x Hx1 Hx2. rewrite HV by assumption. vs.
        destruct (N.eqb_spec x p_recv_reorder_v_i); [contradiction|].
        destruct (N.eqb_spec x p_recv_reorder_v_p); [contradiction|]. reflexivity.
      * intros y Hy. rewrite HO by assumption. vs. destruct (N.eqb_spec y BUF); [contradiction|]. reflexivity.
Qed.

(* ---- frames ---- *)
Definition frame (l : list N) (st st' : state) : Prop := forall x, ~ In x l -> V st' x = V st x.
Lemma frame_setV l st y z x : In y l -> ~ In x l -> V (setV st y z) x = V st x.
Proof. intros Hy Hx. rewrite V_setV. destruct (N.eqb_spec x y); [subst; contradiction|reflexivity]. Qed.
Ltac inl := cbn [In]; tauto.
Ltac fr l := repeat (first [rewrite V_setA | rewrite (frame_setV l) by (first [assumption | unfold l; inl])]).

(* ---- packets as handles ---- *)
Definition wfp (p : pkt) : Prop := 0 <= pseq p < 65536.
Definition wfb (b : list (option pkt)) : Prop := forall q x, nnth q b = Some (Some x) -> wfp x.
Lemma zz_nonneg i : 0 <= zz i.
Proof. unfold zz. destruct (Z.ltb_spec i 0); lia. Qed.
Lemma enc_pos p : wfp p -> 1 <= enc p.
Proof. unfold wfp, enc. pose proof (zz_nonneg (pid p)). lia. Qed.
Lemma unzz_zz i : unzz (zz i) = i.
Proof.
  unfold unzz, zz. destruct (Z.ltb_spec i 0).
  - replace (- 2 * i - 1) with (1 + 2 * (- i - 1)) by lia. rewrite Z.even_add_mul_2. cbn [Z.even].
    replace (1 + 2 * (- i - 1) + 1) with ((- i) * 2) by lia. rewrite Z.div_mul by lia. lia.
  - rewrite Z.even_mul. cbn [Z.even orb]. replace (2 * i) with (i * 2) by lia. apply Z.div_mul. lia.
Qed.
Lemma dec_enc p : wfp p -> dec (enc p) = p.
Proof.
  unfold wfp, dec, enc. intros H1. destruct p as [s i]; cbn [pseq pid] in *. pose proof (zz_nonneg i) as Hz. f_equal.
  - replace (1 + s + 65536 * zz i - 1) with (s + zz i * 65536) by lia. rewrite Z.mod_add by lia. apply Z.mod_small. lia.
  - replace (1 + s + 65536 * zz i - 1) with (s + zz i * 65536) by lia. rewrite Z.div_add by lia.
    rewrite Z.div_small by lia. cbn [Z.add]. apply unzz_zz.
Qed.
Lemma nth_encs b q : nnth q (map encs b) = option_map encs (nnth q b).
Proof. apply nnth_map. Qed.
Lemma wfb_nset b q v : wfb b -> (forall x, v = Some x -> wfp x) -> wfb (nset q v b).
Proof.
  intros Hb Hv r x H. destruct (N.eq_dec q r) as [->|Hn].
  - destruct (N.ltb_spec r (nlen b)).
    + rewrite nnth_nset_same in H by assumption. injection H as H. auto.
    + rewrite nnth_ge in H by (rewrite nlen_nset; assumption). discriminate.
  - rewrite nnth_nset_other in H by assumption. eauto.
Qed.

(* loop 2: n := 1; for i ... { if buffer[p] != nil { n++ } } *)
Definition fr2 := [p_recv_reorder_v_i_2; p_recv_reorder_v_p_2; p_recv_reorder_v_tmp_1; p_recv_reorder_v_n].
Lemma loop2_ok : forall fuel B a i b n n' st,
  count_loop fuel B a i b n = Some n' ->
  A st BUF = map encs b -> B = bsize b -> B <= 32768 -> wfb b ->
  V st p_recv_reorder_v_i_2 = i -> V st vAbs = a -> V st p_recv_reorder_v_n = n ->
  0 <= i -> i + Z.of_nat (length fuel) = B -> 0 <= n <= i + 1 ->
  exists st', bs p_recv_reorder_loop2 st (ONormal st') /\
    (V st' p_recv_reorder_v_n = n' /\ n' <= B + 1 /\ frame fr2 st st' /\ forall y, A st' y = A st y).
Proof.
  induction fuel as [|u fuel IH]; intros B a i b n n' st Hc Hb HB HB' Hw Hi Ha Hn Hi0 Hlen Hn0.
  - cbn in Hc. injection Hc as <-. cbn [length] in Hlen. exists st. split.
    + apply bs_for_done. cbv beta zeta. rewrite (LEN_buf _ _ Hb), Hi. rewrite w16_small by lia. f_equal. lia.
    + split; [exact Hn|]. split; [lia|]. split; [intros x _; reflexivity|reflexivity].
  - cbn [count_loop] in Hc. cbn [length] in Hlen.
    destruct (nnth (slot B a i) b) as [[x|]|] eqn:Hq; [| |discriminate].
    + eapply bs_for_step_ex with (Q := fun st' => _).
      * cbv beta zeta. rewrite (LEN_buf _ _ Hb), Hi. rewrite w16_small by lia. f_equal. lia.
      * eapply bs_seq_set; [reflexivity|]. eapply bs_seq_load with (z := enc x); [reflexivity| | |].
        -- vs. apply slot_nonneg.
        -- vs. rewrite (LEN_buf _ _ Hb), Hi, Ha, <- HB, slot_eq, Hb, nth_encs, Hq. reflexivity.
        -- eapply bs_if_true.
           ++ cbv beta zeta. vs. pose proof (enc_pos x (Hw _ _ Hq)). f_equal. lia.
           ++ apply bs_set1. reflexivity.
      * apply bs_set1. reflexivity.
      * eapply (IH B a (i + 1) b (n + 1) n');
          [eassumption | vs; exact Hb | exact HB | exact HB' | exact Hw | vs; rewrite Hi; apply w16_small; lia
          | vs; exact Ha | vs; rewrite Hn; apply ki64_small; lia | lia | lia | lia].
      * cbv beta. intros st' (HN & HN' & HF & HA). split; [exact HN|]. split; [exact HN'|]. split.
        -- intros y Hy. rewrite HF by exact Hy. fr fr2. reflexivity.
        -- intros y. rewrite HA. vs. reflexivity.
    + eapply bs_for_step_ex with (Q := fun st' => _).
      * cbv beta zeta. rewrite (LEN_buf _ _ Hb), Hi. rewrite w16_small by lia. f_equal. lia.
      * eapply bs_seq_set; [reflexivity|]. eapply bs_seq_load with (z := 0); [reflexivity| | |].
        -- vs. apply slot_nonneg.
        -- vs. rewrite (LEN_buf _ _ Hb), Hi, Ha, <- HB, slot_eq, Hb, nth_encs, Hq. reflexivity.
        -- eapply bs_if_false.
           ++ cbv beta zeta. vs. reflexivity.
           ++ apply bs_skip.
      * apply bs_set1. reflexivity.
      * eapply (IH B a (i + 1) b n n');
          [eassumption | vs; exact Hb | exact HB | exact HB' | exact Hw | vs; rewrite Hi; apply w16_small; lia
          | vs; exact Ha | vs; exact Hn | lia | lia | lia].
      * cbv beta. intros st' (HN & HN' & HF & HA). split; [exact HN|]. split; [exact HN'|]. split.
        -- intros y Hy. rewrite HF by exact Hy. fr fr2. reflexivity.
        -- intros y. rewrite HA. vs. reflexivity.
Qed.

Lemma nset_app_exact {X} (l1 : list X) r0 rest v : nset (nlen l1) v (l1 ++ r0 :: rest) = l1 ++ v :: rest.
Proof.
  induction l1 as [|x t IH]; cbn [nlen app nset]; [reflexivity|].
  destruct (N.eqb_spec (N.succ (nlen t)) 0); [lia|]. rewrite N.pred_succ, IH. reflexivity.
Qed.

Lemma collect_prefix fuel : forall B a i b acc b' acc',
  collect_loop fuel B a i b acc = Some (b', acc') -> exists suf, acc' = acc ++ suf.
Proof.
  induction fuel as [|u fuel IH]; intros B a i b acc b' acc' H; cbn [collect_loop] in H.
  - injection H as <- <-. exists []. rewrite app_nil_r. reflexivity.
  - destruct (nnth (slot B a i) b) as [[x|]|]; [| |discriminate].
    + apply IH in H. destruct H as [suf ->]. exists (x :: suf). rewrite <- app_assoc. reflexivity.
    + eapply IH; eauto.
Qed.

(* loop 3: for i ... { if buffer[p] != nil { ret[pos], buffer[p] = buffer[p], nil; pos++ } } *)
Notation RET := p_recv_reorder_a_ret.
Definition fr3 := [p_recv_reorder_v_i_3; p_recv_reorder_v_p_3; p_recv_reorder_v_tmp_2; p_recv_reorder_v_tmp_3;
  p_recv_reorder_v_tmp_4; p_recv_reorder_v_tmp_5; p_recv_reorder_v_tmp_6; p_recv_reorder_v_tmp_7; p_recv_reorder_v_pos].
Lemma loop3_ok : forall fuel B a i b acc b' acc' rest st,
  collect_loop fuel B a i b acc = Some (b', acc') ->
  A st BUF = map encs b -> B = bsize b -> B <= 32768 -> wfb b ->
  A st RET = map enc acc ++ rest -> (nlen acc' < nlen acc + nlen rest)%N ->
  V st p_recv_reorder_v_i_3 = i -> V st vAbs = a -> V st p_recv_reorder_v_pos = Z.of_N (nlen acc) ->
  0 <= i -> i + Z.of_nat (length fuel) = B -> Z.of_N (nlen acc) <= i ->
  exists st', bs p_recv_reorder_loop3 st (ONormal st') /\
    (A st' BUF = map encs b' /\ (exists rest', A st' RET = map enc acc' ++ rest' /\ nlen acc' + nlen rest' = nlen acc + nlen rest)%N /\
     V st' p_recv_reorder_v_pos = Z.of_N (nlen acc') /\ frame fr3 st st' /\
     forall y, y <> BUF -> y <> RET -> A st' y = A st y).
Proof.
  induction fuel as [|u fuel IH]; intros B a i b acc b' acc' rest st Hc Hb HB HB' Hw Hr Hcap Hi Ha Hp Hi0 Hlen Hacc.
  - cbn in Hc. injection Hc as <- <-. cbn [length] in Hlen. exists st. split.
    + apply bs_for_done. cbv beta zeta. rewrite (LEN_buf _ _ Hb), Hi. rewrite w16_small by lia. f_equal. lia.
    + split; [exact Hb|]. split; [exists rest; split; [exact Hr|reflexivity]|]. split; [exact Hp|].
      split; [intros x _; reflexivity|reflexivity].
  - cbn [collect_loop] in Hc. cbn [length] in Hlen.
    destruct (nnth (slot B a i) b) as [[x|]|] eqn:Hq; [| |discriminate].
    + destruct (collect_prefix _ _ _ _ _ _ _ _ Hc) as [suf Hsuf].
      assert (Hrest : exists r0 rest0, rest = r0 :: rest0).
      { destruct rest as [|r0 rest0]; [|eauto]. exfalso. subst acc'. rewrite !nlen_app in Hcap. cbn [nlen] in Hcap. lia. }
      destruct Hrest as (r0 & rest0 & ->).
      assert (Hqlt : (slot B a i < nlen b)%N).
      { destruct (N.ltb_spec (slot B a i) (nlen b)); [assumption|]. rewrite nnth_ge in Hq by assumption. discriminate. }
      eapply bs_for_step_ex with (Q := fun st' => _).
      * cbv beta zeta. rewrite (LEN_buf _ _ Hb), Hi. rewrite w16_small by lia. f_equal. lia.
      * eapply bs_seq_set; [reflexivity|]. eapply bs_seq_load with (z := enc x); [reflexivity| | |].
        -- vs. apply slot_nonneg.
        -- vs. rewrite (LEN_buf _ _ Hb), Hi, Ha, <- HB, slot_eq, Hb, nth_encs, Hq. reflexivity.
        -- eapply bs_if_true.
           ++ cbv beta zeta. vs. pose proof (enc_pos x (Hw _ _ Hq)). f_equal. lia.
           ++ eapply bs_seq; [|apply bs_set1; reflexivity].
              eapply bs_seq_set; [reflexivity|]. eapply bs_seq_set; [reflexivity|].
              eapply bs_seq_load with (z := enc x); [reflexivity| | |].
              ** vs. apply slot_nonneg.
              ** vs. rewrite (LEN_buf _ _ Hb), Hi, Ha, <- HB, slot_eq, Hb, nth_encs, Hq. reflexivity.
              ** eapply bs_seq_set; [reflexivity|]. eapply bs_seq_set; [reflexivity|].
                 eapply bs_seq_store; [reflexivity|reflexivity| | |].
                 --- vs. rewrite Hp. lia.
                 --- vs. rewrite Hp, Hr, nlen_app, nlen_map. cbn [nlen]. lia.
                 --- eapply bs_store1; [reflexivity|reflexivity| |].
                     +++ vs. apply slot_nonneg.
                     +++ vs. rewrite (LEN_buf _ _ Hb), Hi, Ha, <- HB, slot_eq, Hb, nlen_map. exact Hqlt.
      * apply bs_set1. reflexivity.
      * eapply (IH B a (i + 1) (nset (slot B a i) None b) (acc ++ [x]) b' acc' rest0);
          [eassumption | | | exact HB' | | | | | | | lia | lia | ].
        -- vs. rewrite (LEN_buf _ _ Hb), Hi, Ha, <- HB, slot_eq, Hb. apply (nset_map encs _ None).
        -- unfold bsize. rewrite nlen_nset. exact HB.
        -- apply wfb_nset; [exact Hw|discriminate].
        -- vs. rewrite Hp, Hr. rewrite N2Z.id. rewrite <- (nlen_map enc acc), nset_app_exact.
           rewrite map_app, <- app_assoc. reflexivity.
        -- rewrite nlen_app. cbn [nlen] in *. lia.
        -- vs. rewrite Hi. apply w16_small. lia.
        -- vs. exact Ha.
        -- vs. rewrite Hp, nlen_app. cbn [nlen]. rewrite ki64_small by lia. lia.
        -- rewrite nlen_app. cbn [nlen]. lia.
      * cbv beta. intros st' (HA & (rest' & HR & HL) & HP & HF & HO). split; [exact HA|]. split.
        -- exists rest'. split; [exact HR|]. rewrite nlen_app in HL. cbn [nlen] in *. lia.
        -- split; [exact HP|]. split.
           ++ intros y Hy. rewrite HF by exact Hy. fr fr3. reflexivity.
           ++ intros y Hy1 Hy2. rewrite HO by assumption. vs.
              destruct (N.eqb_spec y BUF); [contradiction|]. destruct (N.eqb_spec y RET); [contradiction|]. reflexivity.
    + eapply bs_for_step_ex with (Q := fun st' => _).
      * cbv beta zeta. rewrite (LEN_buf _ _ Hb), Hi. rewrite w16_small by lia. f_equal. lia.
      * eapply bs_seq_set; [reflexivity|]. eapply bs_seq_load with (z := 0); [reflexivity| | |].
        -- vs. apply slot_nonneg.
        -- vs. rewrite (LEN_buf _ _ Hb), Hi, Ha, <- HB, slot_eq, Hb, nth_encs, Hq. reflexivity.
        -- eapply bs_if_false; [cbv beta zeta; vs; reflexivity|apply bs_skip].
      * apply bs_set1. reflexivity.
      * eapply (IH B a (i + 1) b acc b' acc' rest);
          [eassumption | vs; exact Hb | exact HB | exact HB' | exact Hw | vs; exact Hr | exact Hcap
          | vs; rewrite Hi; apply w16_small; lia | vs; exact Ha | vs; exact Hp | lia | lia | lia].
      * cbv beta. intros st' (HA & HR & HP & HF & HO). split; [exact HA|]. split; [exact HR|]. split; [exact HP|]. split.
        -- intros y Hy. rewrite HF by exact Hy. fr fr3. reflexivity.
        -- intros y Hy1 Hy2. rewrite HO by assumption. vs. reflexivity.
Qed.

(* loop 4: n := uint16(1); for { if buffer[(absPos+n)&mask] == nil { break }; n++ } *)
Definition fr4 := [p_recv_reorder_v_p_5; p_recv_reorder_v_tmp_9; p_recv_reorder_v_n_2].
Lemma loop4_ok : forall fuel B a n b n' st,
  run_len fuel B a n b = RunN n' ->
  A st BUF = map encs b -> B = bsize b -> wfb b ->
  V st p_recv_reorder_v_n_2 = n -> V st vAbs = a ->
  exists st', bs p_recv_reorder_loop4 st (ONormal st') /\
    (V st' p_recv_reorder_v_n_2 = n' /\ frame fr4 st st' /\ forall y, A st' y = A st y).
Proof.
  induction fuel as [|u fuel IH]; intros B a n b n' st Hc Hb HB Hw Hn Ha; cbn [run_len] in Hc; [discriminate|].
  destruct (nnth (slot B a n) b) as [[x|]|] eqn:Hq; [| |discriminate].
  - eapply bs_for_step_ex with (Q := fun st' => _).
    + reflexivity.
    + eapply bs_seq_set; [reflexivity|]. eapply bs_seq; [|apply bs_set1; reflexivity].
      eapply bs_seq_load with (z := enc x); [reflexivity| | |].
      * vs. apply slot_nonneg.
      * vs. rewrite (LEN_buf _ _ Hb), Hn, Ha, <- HB, slot_eq, Hb, nth_encs, Hq. reflexivity.
      * eapply bs_if_false; [|apply bs_skip].
        cbv beta zeta. vs. pose proof (enc_pos x (Hw _ _ Hq)). f_equal. lia.
    + apply bs_skip.
    + eapply (IH B a (w16 (n + 1)) b n'); [exact Hc | vs; exact Hb | exact HB | exact Hw | vs; rewrite Hn; reflexivity | vs; exact Ha].
    + cbv beta. intros st' (HN & HF & HA). split; [exact HN|]. split.
      * intros y Hy. rewrite HF by exact Hy. fr fr4. reflexivity.
      * intros y. rewrite HA. vs. reflexivity.
  - injection Hc as <-. eexists. split.
    + eapply bs_for_break; [reflexivity|].
      eapply bs_seq_set; [reflexivity|]. eapply bs_seq_stop; [|discriminate].
      eapply bs_seq_load with (z := 0); [reflexivity| | |].
      * vs. apply slot_nonneg.
      * vs. rewrite (LEN_buf _ _ Hb), Hn, Ha, <- HB, slot_eq, Hb, nth_encs, Hq. reflexivity.
      * eapply bs_if_true; [cbv beta zeta; vs; reflexivity|apply bs_break].
    + split; [vs; exact Hn|]. split.
      * intros y Hy. fr fr4. reflexivity.
      * intros y. vs. reflexivity.
Qed.

(* loop 5: for i := uint16(1); i < n; i++ { ret[i], buffer[absPos] = buffer[absPos], nil; absPos++; absPos &= mask } *)
Notation RET2 := p_recv_reorder_a_ret_2.
Definition fr5 := [p_recv_reorder_v_i_4; p_recv_reorder_v_tmp_10; p_recv_reorder_v_tmp_11; p_recv_reorder_v_tmp_12;
  p_recv_reorder_v_tmp_13; p_recv_reorder_v_tmp_14; vAbs].
Lemma absadv B a : 0 <= a < 65536 ->
  w16 (Z.land (w16 (a + 1)) (w16 (w16 B - 1))) = slotz B a 1.
Proof.
  intros Ha. unfold slotz, mask. apply w16_small. apply Bridge.land_u16; [apply w16_range|].
  pose proof (w16_range (w16 B - 1)). lia.
Qed.
Lemma loop5_ok : forall fuel B i n a b acc a' b' acc' pre rest st,
  take_loop fuel B i n a b acc = Some (a', b', acc') ->
  A st BUF = map encs b -> B = bsize b -> wfb b ->
  A st RET2 = pre :: map enc acc ++ rest -> Z.of_N (nlen (pre :: map enc acc ++ rest)) = n ->
  V st p_recv_reorder_v_i_4 = i -> V st p_recv_reorder_v_n_2 = n -> V st vAbs = a ->
  i = 1 + Z.of_N (nlen acc) -> n < 65536 -> 0 <= a < 65536 ->
  exists st', bs p_recv_reorder_loop5 st (ONormal st') /\
    (A st' BUF = map encs b' /\ (exists rest', A st' RET2 = pre :: map enc acc' ++ rest' /\
        Z.of_N (nlen (pre :: map enc acc' ++ rest')) = n) /\
     V st' vAbs = a' /\ frame fr5 st st' /\ forall y, y <> BUF -> y <> RET2 -> A st' y = A st y).
Proof.
  induction fuel as [|u fuel IH]; intros B i n a b acc a' b' acc' pre rest st Hc Hb HB Hw Hr Hrl Hi Hn Ha Hia Hn16 Ha16;
    cbn [take_loop] in Hc.
  - destruct (Z.leb_spec n i); [|discriminate]. injection Hc as <- <- <-. exists st. split.
    + apply bs_for_done. cbv beta zeta. rewrite Hi, Hn. f_equal. lia.
    + split; [exact Hb|]. split; [exists rest; auto|]. split; [exact Ha|]. split; [intros y _; reflexivity|reflexivity].
  - destruct (Z.leb_spec n i).
    + injection Hc as <- <- <-. exists st. split.
      * apply bs_for_done. cbv beta zeta. rewrite Hi, Hn. f_equal. lia.
      * split; [exact Hb|]. split; [exists rest; auto|]. split; [exact Ha|]. split; [intros y _; reflexivity|reflexivity].
    + destruct (nnth (Z.to_N a) b) as [[x|]|] eqn:Hq; try discriminate.
      assert (Hqlt : (Z.to_N a < nlen b)%N).
      { destruct (N.ltb_spec (Z.to_N a) (nlen b)); [assumption|]. rewrite nnth_ge in Hq by assumption. discriminate. }
      assert (Hrest : exists r0 rest0, rest = r0 :: rest0).
      { destruct rest as [|r0 rest0]; [|eauto]. exfalso. cbn [nlen] in Hrl. rewrite nlen_app, nlen_map in Hrl. cbn [nlen] in Hrl. lia. }
      destruct Hrest as (r0 & rest0 & ->).
      eapply bs_for_step_ex with (Q := fun st' => _).
      * cbv beta zeta. rewrite Hi, Hn. f_equal. lia.
      * eapply bs_seq.
        -- eapply bs_seq_set; [reflexivity|]. eapply bs_seq_set; [reflexivity|].
           eapply bs_seq_load with (z := enc x); [reflexivity| | |].
           ++ vs. lia.
           ++ vs. rewrite Ha, Hb, nth_encs, Hq. reflexivity.
           ++ eapply bs_seq_set; [reflexivity|]. eapply bs_seq_set; [reflexivity|].
              eapply bs_seq_store; [reflexivity|reflexivity| | |].
              ** vs. rewrite Hi. lia.
              ** vs. rewrite Hi, Hr. lia.
              ** eapply bs_store1; [reflexivity|reflexivity| |].
                 --- vs. lia.
                 --- vs. rewrite Ha, Hb, nlen_map. exact Hqlt.
        -- eapply bs_seq_set; [reflexivity|]. apply bs_set1. reflexivity.
      * apply bs_set1. reflexivity.
      * eapply (IH B (i + 1) n (slotz B a 1) (nset (Z.to_N a) None b) (acc ++ [x]) a' b' acc' pre rest0);
          [exact Hc | | | | | | | | | | exact Hn16 | ].
        -- vs. rewrite Ha, Hb. apply (nset_map encs _ None).
        -- unfold bsize. rewrite nlen_nset. exact HB.
        -- apply wfb_nset; [exact Hw|discriminate].
        -- vs. rewrite Hi, Hr, Hia.
           replace (Z.to_N (1 + Z.of_N (nlen acc))) with (nlen (pre :: map enc acc)) by (cbn [nlen]; rewrite nlen_map; lia).
           change (pre :: map enc acc ++ r0 :: rest0) with ((pre :: map enc acc) ++ r0 :: rest0).
           rewrite nset_app_exact. cbn [app]. rewrite map_app, <- app_assoc. reflexivity.
        -- rewrite <- Hrl. repeat (rewrite ?nlen_app, ?nlen_map; cbn [nlen]). lia.
        -- vs. rewrite Hi. apply w16_small. lia.
        -- vs. exact Hn.
        -- vs. rewrite nlen_nset, Hb, nlen_map, Ha. fold (bsize b). rewrite <- HB. apply absadv. exact Ha16.
        -- rewrite nlen_app. cbn [nlen]. lia.
        -- unfold slotz. pose proof (w16_range (a + 1)). pose proof (w16_range (w16 B - 1)).
           unfold mask. apply Bridge.land_u16; lia.
      * cbv beta. intros st' (HA & (rest' & HR & HL) & HAb & HF & HO). split; [exact HA|]. split; [exists rest'; auto|].
        split; [exact HAb|]. split.
        -- intros y Hy. rewrite HF by exact Hy. fr fr5. reflexivity.
        -- intros y Hy1 Hy2. rewrite HO by assumption. vs.
           destruct (N.eqb_spec y BUF); [contradiction|]. destruct (N.eqb_spec y RET2); [contradiction|]. reflexivity.
Qed.

(* ---- the whole function ---- *)
Lemma relpos_eq s l : ki16 (w16 (w16 (s - l) - 1)) = s16 (w16 (s - l - 1)).
Proof. unfold ki16. rewrite w16_idem. f_equal. unfold w16. lia. Qed.
Lemma s16_range' x : -32768 <= s16 (w16 x) < 32768.
Proof. unfold s16, w16. destruct (Z.ltb_spec (x mod 65536) 32768); lia. Qed.

Lemma run_len_bound fuel : forall B a n b n', run_len fuel B a n b = RunN n' ->
  0 <= n -> n + Z.of_nat (length fuel) < 65536 -> n <= n' < n + Z.of_nat (length fuel).
Proof.
  induction fuel as [|u fuel IH]; intros B a n b n' H Hn Hl; cbn [run_len] in H; [discriminate|].
  cbn [length] in *. destruct (nnth (slot B a n) b) as [[x|]|]; try discriminate.
  - rewrite (w16_small (n + 1)) in H by lia. apply IH in H; lia.
  - injection H as <-. lia.
Qed.
Lemma take_loop_len fuel : forall B i n a b acc a' b' acc', take_loop fuel B i n a b acc = Some (a', b', acc') ->
  i <= n -> Z.of_N (nlen acc') = Z.of_N (nlen acc) + (n - i).
Proof.
  induction fuel as [|u fuel IH]; intros B i n a b acc a' b' acc' H Hi; cbn [take_loop] in H.
  - destruct (Z.leb_spec n i); [|discriminate]. injection H as <- <- <-. lia.
  - destruct (Z.leb_spec n i).
    + injection H as <- <- <-. lia.
    + destruct (nnth (Z.to_N a) b) as [[x|]|]; try discriminate.
      apply IH in H; [|lia]. rewrite nlen_app in H. cbn [nlen] in H. lia.
Qed.
Lemma nrep_cons (x : Z) n : 1 <= n -> exists rest, nrep x (Z.to_N n) = x :: rest /\ Z.of_N (nlen rest) = n - 1.
Proof.
  intros H. rewrite nrep_repeat. destruct (N.to_nat (Z.to_N n)) as [|k] eqn:E; [lia|].
  exists (repeat x k). split; [reflexivity|]. rewrite nlen_repeat. lia.
Qed.
Ltac notin := let H := fresh in intro H; vm_compute in H; intuition discriminate.

Notation vRel := p_recv_reorder_v_relPos.

Definition fin (outv : list Z) (l : Z) (b' : list (option pkt)) (a' ng' : Z) (o : outcome) : Prop :=
  exists st', o = ORet [VA outv; VZ l] st' /\ A st' BUF = map encs b' /\ V st' vAbs = a' /\ V st' vNeg = ng'.
Ltac nf := let E := fresh in intro E; vm_compute in E; discriminate.

Lemma reorder_prog_fin b a ng lst p b' a' ng' out l k :
  reorder b a ng lst p = RO b' a' ng' out l k ->
  bsize b <= 32768 -> wfb b -> wfp p -> 0 <= a < 65536 -> 0 <= ng < 4611686018427387904 -> 0 <= lst < 65536 ->
  exists o, bs p_recv_reorder (st0 b a ng lst p) o /\ fin (map enc out) l b' a' ng' o.
Proof.
  intros HR HB Hw Hp Ha Hng Hl.
  pose proof (s16_range' (pseq p - lst - 1)) as Hrel.
  unfold reorder in HR. unfold p_recv_reorder.
  eapply bs_seq_set_ex; [reflexivity|].
  set (st1 := setV _ _ _).
  assert (Hrv : V st1 vRel = s16 (w16 (pseq p - lst - 1))) by (unfold st1; vs; apply relpos_eq).
  assert (HA1 : A st1 BUF = map encs b) by reflexivity.
  assert (Hab1 : V st1 vAbs = a) by reflexivity.
  assert (Hng1 : V st1 vNeg = ng) by reflexivity.
  assert (Hpk1 : V st1 vPkt = enc p) by reflexivity.
  clearbody st1.
  destruct (Z.ltb_spec (s16 (w16 (pseq p - lst - 1))) 0) as [Hneg|Hnn].
  - (* behind *)
    eapply bs_seq_if_true_ex; [cbv beta zeta; rewrite Hrv; f_equal; lia|].
    eapply bs_seq_assoc_ex. eapply bs_seq_set_ex; [reflexivity|].
    destruct (Z.ltb_spec (bsize b) (ng + 1)) as [Hrs|Hnr].
    + (* reset *)
      destruct (clear_loop b (bsize b) a 0 b) as [bc|] eqn:Hcl; [|discriminate]. injection HR as <- <- <- <- <- <-.
      eapply bs_seq_assoc_ex. eapply bs_seq_if_true_ex.
      { cbv beta zeta. vs. rewrite (LEN_buf _ _ HA1), Hng1, ki64_small by lia. f_equal. lia. }
      eapply bs_seq_assoc_ex. eapply bs_seq_set_ex; [reflexivity|].
      eapply bs_seq_assoc_ex. eapply bs_seq_assoc_ex. eapply bs_seq_set_ex; [reflexivity|].
      match goal with |- exists o, bs (SSeq _ _) ?s _ /\ _ =>
        destruct (loop1_ok b (bsize b) a 0 b bc s Hcl) as (st' & Hbs & HA' & HV' & HO');
          [vs; exact HA1 | reflexivity | exact HB | vs; reflexivity | vs; exact Hab1 | lia
          | rewrite <- length_nlen; unfold bsize; lia | ]
      end.
      eexists. split.
      * eapply bs_seq; [exact Hbs|]. eapply bs_seq_ret.
        cbn [eval_rs eval_r eval_list]. cbv beta zeta. rewrite HV' by nf. vs. rewrite Hpk1. reflexivity.
      * exists st'. split; [reflexivity|]. split; [exact HA'|]. split; rewrite HV' by nf; vs; [exact Hab1|reflexivity].
    + injection HR as <- <- <- <- <- <-.
      eapply bs_seq_assoc_ex. eapply bs_seq_if_false_ex.
      { cbv beta zeta. vs. rewrite (LEN_buf _ _ HA1), Hng1, ki64_small by lia. f_equal. lia. }
      eexists. split.
      * eapply bs_seq_skip. eapply bs_seq_ret. reflexivity.
      * eexists. split; [reflexivity|]. split; [vs; exact HA1|]. split; vs; [exact Hab1|rewrite Hng1; apply ki64_small; lia].
  - (* at or ahead of the expected position *)
    eapply bs_seq_if_false_ex; [cbv beta zeta; rewrite Hrv; f_equal; lia|].
    eapply bs_seq_skip_ex. eapply bs_seq_set_ex; [reflexivity|].
    destruct (Z.leb_spec (bsize b) (s16 (w16 (pseq p - lst - 1)))) as [Hfl|Hnf].
    + (* flush *)
      destruct (count_loop b (bsize b) a 0 b 1) as [n|] eqn:Hcn; [|discriminate].
      destruct (collect_loop b (bsize b) a 0 b []) as [[bc acc]|] eqn:Hco; [|discriminate].
      destruct (Z.eqb_spec n (Z.of_N (nlen acc) + 1)) as [Hn|Hn]; [|discriminate].
      injection HR as <- <- <- <- <- <-.
      eapply bs_seq_if_true_ex.
      { cbv beta zeta. vs. rewrite (LEN_buf _ _ HA1), Hrv, ki64_small by lia. rewrite Z.geb_leb. f_equal. lia. }
      eapply bs_seq_assoc_ex. eapply bs_seq_set_ex; [reflexivity|].
      eapply bs_seq_assoc_ex. eapply bs_seq_assoc_ex. eapply bs_seq_set_ex; [reflexivity|].
      match goal with |- exists o, bs (SSeq _ _) ?s _ /\ _ =>
        destruct (loop2_ok b (bsize b) a 0 b 1 n s Hcn) as (st2 & Hbs2 & HN2 & HNb & HF2 & HO2);
          [vs; exact HA1 | reflexivity | exact HB | exact Hw | vs; reflexivity | vs; exact Hab1 | vs; reflexivity | lia
          | rewrite <- length_nlen; unfold bsize; lia | lia | ]
      end.
      eapply bs_seq_loop_ex; [exact Hbs2|].
      eapply bs_seq_assoc_ex. eapply bs_seq_make_ex; [cbv beta zeta; rewrite HN2; reflexivity|lia|].
      eapply bs_seq_assoc_ex. eapply bs_seq_set_ex; [reflexivity|].
      eapply bs_seq_assoc_ex. eapply bs_seq_assoc_ex. eapply bs_seq_set_ex; [reflexivity|].
      match goal with |- exists o, bs (SSeq _ _) ?s _ /\ _ =>
        destruct (loop3_ok b (bsize b) a 0 b [] bc acc (nrep 0 (Z.to_N n)) s Hco) as (st3 & Hbs3 & HA3 & (rest3 & HR3 & HL3) & HP3 & HF3 & HO3);
          [vs; rewrite HO2; vs; exact HA1 | reflexivity | exact HB | exact Hw | vs; reflexivity
          | rewrite nlen_nrep; cbn [nlen]; lia | vs; reflexivity | vs; rewrite HF2 by notin; vs; exact Hab1 | vs; reflexivity | lia
          | rewrite <- length_nlen; unfold bsize; lia | cbn [nlen]; lia | ]
      end.
      rewrite nlen_nrep in HL3. cbn [nlen] in HL3.
      assert (Hrest3 : exists r0, rest3 = [r0]).
      { destruct rest3 as [|r0 [|r1 t]]; cbn [nlen] in HL3; [lia|eauto|lia]. }
      destruct Hrest3 as [r0 ->].
      eapply bs_seq_loop_ex; [exact Hbs3|].
      eexists. split.
      * apply bs_seq_assoc. eapply bs_seq_store; [reflexivity|reflexivity| | |].
        -- rewrite HP3. lia.
        -- rewrite HP3, HR3, nlen_app, nlen_map. cbn [nlen]. lia.
        -- eapply bs_seq_ret. cbn [eval_rs eval_r eval_list]. cbv beta zeta. reflexivity.
      * eexists. split.
        -- f_equal. f_equal.
           ++ f_equal. vs. rewrite HP3, HR3, N2Z.id, <- (nlen_map enc acc), nset_app_exact.
              rewrite HF3 by notin. vs. rewrite HF2 by notin. vs. rewrite Hpk1, map_app. reflexivity.
           ++ f_equal. f_equal. vs. rewrite !(HF3 _) by notin. vs. rewrite HN2. rewrite !(HF2 _) by notin. vs.
              rewrite Hrv. rewrite (ki64_small (s16 _)) by lia. rewrite (ki64_small (_ - n)) by lia.
              rewrite ki64_small by lia. reflexivity.
        -- split; [vs; exact HA3|]. split; vs; rewrite HF3 by notin; vs; rewrite HF2 by notin; vs; [exact Hab1|reflexivity].
    + eapply bs_seq_if_false_ex.
      { cbv beta zeta. vs. rewrite (LEN_buf _ _ HA1), Hrv, ki64_small by lia. rewrite Z.geb_leb. f_equal. lia. }
      eapply bs_seq_skip_ex.
      destruct (Z.eqb_spec (s16 (w16 (pseq p - lst - 1))) 0) as [Hz|Hnz]; cbn [negb] in HR.
      * (* in order: the run *)
        destruct (run_len b (bsize b) a 1 b) as [n| |] eqn:Hrl; try discriminate.
        destruct (take_loop b (bsize b) 1 n (slotz (bsize b) a 1) b []) as [[[at_ bt] acc]|] eqn:Htk; [|discriminate].
        injection HR as <- <- <- <- <- <-.
        pose proof (run_len_bound _ _ _ _ _ _ Hrl ltac:(lia) ltac:(rewrite <- length_nlen; unfold bsize in HB; lia)) as Hnb.
        rewrite <- length_nlen in Hnb. fold (bsize b) in Hnb.
        eapply bs_seq_if_false_ex; [cbv beta zeta; vs; rewrite Hrv, Hz; reflexivity|].
        eapply bs_seq_skip_ex. eapply bs_seq_set_ex; [reflexivity|].
        match goal with |- exists o, bs (SSeq _ _) ?s _ /\ _ =>
          destruct (loop4_ok b (bsize b) a 1 b n s Hrl) as (st4 & Hbs4 & HN4 & HF4 & HO4);
            [vs; exact HA1 | reflexivity | exact Hw | vs; reflexivity | vs; exact Hab1 | ]
        end.
        assert (HA4 : A st4 BUF = map encs b) by (rewrite HO4; vs; exact HA1).
        assert (Hab4 : V st4 vAbs = a) by (rewrite HF4 by notin; vs; exact Hab1).
        assert (Hpk4 : V st4 vPkt = enc p) by (rewrite HF4 by notin; vs; exact Hpk1).
        assert (Hng4 : V st4 vNeg = 0) by (rewrite HF4 by notin; vs; reflexivity).
        clear HF4 HO4.
        eapply bs_seq_loop_ex; [exact Hbs4|].
        eapply bs_seq_make_ex; [cbv beta zeta; rewrite HN4; reflexivity|lia|].
        destruct (nrep_cons 0 n ltac:(lia)) as (rest0 & Hrep & Hrl0).
        eapply bs_seq_store_ex; [reflexivity|reflexivity|lia|vs; rewrite nlen_nrep; lia|].
        eapply bs_seq_set_ex; [reflexivity|]. eapply bs_seq_set_ex; [reflexivity|].
        eapply bs_seq_assoc_ex. eapply bs_seq_set_ex; [reflexivity|].
        match goal with |- exists o, bs (SSeq _ _) ?s _ /\ _ =>
          destruct (loop5_ok b (bsize b) 1 n (slotz (bsize b) a 1) b [] at_ bt acc (enc p) rest0 s Htk)
            as (st5 & Hbs5 & HA5 & (rest5 & HR5 & HL5) & HAb5 & HF5 & HO5);
            [vs; exact HA4 | reflexivity | exact Hw
            | vs; rewrite Hrep; cbn [nset N.eqb Z.to_N]; rewrite Hpk4; reflexivity
            | cbn [map app nlen]; lia | vs; reflexivity | vs; exact HN4
            | vs; rewrite (LEN_buf _ _ HA4), Hab4; apply absadv; exact Ha
            | reflexivity | lia
            | unfold slotz, mask; apply Bridge.land_u16; [apply w16_range|pose proof (w16_range (w16 (bsize b) - 1)); lia] | ]
        end.
        pose proof (take_loop_len _ _ _ _ _ _ _ _ _ _ Htk ltac:(lia)) as Hlen5. cbn [nlen] in Hlen5.
        assert (rest5 = []).
        { destruct rest5 as [|r t]; [reflexivity|]. exfalso. cbn [nlen] in HL5. rewrite nlen_app, nlen_map in HL5. cbn [nlen] in HL5. lia. }
        subst rest5. rewrite app_nil_r in HR5.
        eexists. split.
        -- eapply bs_seq; [exact Hbs5|]. apply bs_ret1. cbn [eval_rs eval_r eval_list]. reflexivity.
        -- exists st5. split; [rewrite HR5; reflexivity|]. split; [exact HA5|]. split; [exact HAb5|].
           rewrite HF5 by notin. vs. exact Hng4.
      * (* ahead: store or duplicate *)
        eapply bs_seq_if_true_ex; [cbv beta zeta; vs; rewrite Hrv; f_equal; lia|].
        eapply bs_seq_assoc_ex. eapply bs_seq_set_ex; [reflexivity|].
        assert (Hsl : forall st, V st vAbs = a -> V st vRel = s16 (w16 (pseq p - lst - 1)) -> LEN st BUF = bsize b ->
          Z.to_N (w16 (Z.land (w16 (V st vAbs + w16 (V st vRel))) (w16 (w16 (LEN st BUF) - 1)))) =
          slot (bsize b) a (s16 (w16 (pseq p - lst - 1)))).
        { intros st E1 E2 E3. rewrite E1, E2, E3. rewrite (w16_small (s16 _)) by lia. apply slot_eq. }
        destruct (nnth (slot (bsize b) a (s16 (w16 (pseq p - lst - 1)))) b) as [[x|]|] eqn:Hq; [| |discriminate].
        -- injection HR as <- <- <- <- <- <-.
           eapply bs_seq_assoc_ex. eapply bs_seq_assoc_ex.
           eapply bs_seq_load_ex with (z := enc x); [reflexivity|vs; apply w16_range| |].
           { vs. rewrite Hsl by (vs; auto using LEN_buf). rewrite HA1, nth_encs, Hq. reflexivity. }
           eapply bs_seq_if_true_ex; [cbv beta zeta; vs; pose proof (enc_pos x (Hw _ _ Hq)); f_equal; lia|].
           eexists. split; [eapply bs_seq_ret; reflexivity|].
           eexists. split; [reflexivity|]. split; [vs; exact HA1|]. split; vs; [exact Hab1|reflexivity].
        -- injection HR as <- <- <- <- <- <-.
           assert (Hqlt : (slot (bsize b) a (s16 (w16 (pseq p - lst - 1))) < nlen b)%N).
           { destruct (N.ltb_spec (slot (bsize b) a (s16 (w16 (pseq p - lst - 1)))) (nlen b)); [assumption|].
             rewrite nnth_ge in Hq by assumption. discriminate. }
           eapply bs_seq_assoc_ex. eapply bs_seq_assoc_ex.
           eapply bs_seq_load_ex with (z := 0); [reflexivity|vs; apply w16_range| |].
           { vs. rewrite Hsl by (vs; auto using LEN_buf). rewrite HA1, nth_encs, Hq. reflexivity. }
           eapply bs_seq_if_false_ex; [cbv beta zeta; vs; reflexivity|].
           eapply bs_seq_skip_ex. eapply bs_seq_assoc_ex.
           eapply bs_seq_store_ex; [reflexivity|reflexivity|vs; apply w16_range| |].
           { vs. rewrite Hsl by (vs; auto using LEN_buf). rewrite HA1, nlen_map. exact Hqlt. }
           eexists. split; [eapply bs_seq_ret; reflexivity|].
           eexists. split; [reflexivity|]. split.
           ++ vs. rewrite Hsl by (vs; auto using LEN_buf). rewrite HA1, Hpk1. apply (nset_map encs _ (Some p)).
           ++ split; vs; [exact Hab1|reflexivity].
Qed.

(* ---- what the interpreter returns, compared with the model's result (the kind is a ghost label of the model) ---- *)
Definition obs := (list Z * Z * Z * list Z * Z)%type.   (* buffer (handles), absPos, negativeCount, returned packets, lost *)
Definition ro_enc (r : ro) : option obs :=
  match r with RO b a ng out l _ => Some (map encs b, a, ng, map enc out, l) | _ => None end.
Definition out_enc (o : outcome) : option obs :=
  match o with
  | ORet [VA out; VZ l] st' => Some (A st' BUF, V st' vAbs, V st' vNeg, out, l)
  | _ => None
  end.

Theorem reorder_program_is_the_model b a ng lst p b' a' ng' out l k :
  reorder b a ng lst p = RO b' a' ng' out l k ->
  bsize b <= 32768 -> wfb b -> wfp p -> 0 <= a < 65536 -> 0 <= ng < 4611686018427387904 -> 0 <= lst < 65536 ->
  (exists f0, forall f, (f0 <= f)%nat ->
     out_enc (exec f p_recv_reorder (st0 b a ng lst p)) = ro_enc (RO b' a' ng' out l k)) /\
  (forall f, exec f p_recv_reorder (st0 b a ng lst p) = OFuel \/
     out_enc (exec f p_recv_reorder (st0 b a ng lst p)) = ro_enc (RO b' a' ng' out l k)).
Proof.
  intros HR HB Hw Hp Ha Hng Hl.
  destruct (reorder_prog_fin _ _ _ _ _ _ _ _ _ _ _ HR HB Hw Hp Ha Hng Hl) as (o & Hbs & st' & -> & HA & HV & HN).
  destruct (bs_runs_to _ _ _ Hbs) as (_ & (f0 & Hf0) & Hall).
  assert (E : out_enc (ORet [VA (map enc out); VZ l] st') = ro_enc (RO b' a' ng' out l k)).
  { cbn [out_enc ro_enc]. rewrite HA, HV, HN. reflexivity. }
  split.
  - exists f0. intros f Hf. rewrite (Hf0 f Hf). exact E.
  - intros f. destruct (Hall f _ eq_refl) as [H|H]; [right; rewrite H; exact E|left; exact H].
Qed.

(* non-vacuity: B = 4, the history 1,3,4 then 2: the packet in order drains the parked ones (loops 4 and 5) *)
Example reorder_program_example :
  let b := [None; Some (mkPkt 3 30); Some (mkPkt 4 40); None] in
  reorder b 0 0 1 (mkPkt 2 20) = RO [None; None; None; None] 3 0 [mkPkt 2 20; mkPkt 3 30; mkPkt 4 40] 0 KRun /\
  out_enc (exec 100 p_recv_reorder (st0 b 0 0 1 (mkPkt 2 20))) =
    ro_enc (RO [None; None; None; None] 3 0 [mkPkt 2 20; mkPkt 3 30; mkPkt 4 40] 0 KRun).
Proof. split; vm_compute; reflexivity. Qed.

(* ---- on every reachable state: the invariant of the receiver implies the hypotheses above ---- *)
Lemma bufinv_wfb b a L : BufInv b a L -> wfb b.
Proof.
  intros HI q x Hq. destruct HI as [Hpow Ha HL Hhead Hseq]. pose proof (pow2B_range _ Hpow) as HB.
  assert (Hlt : (q < Z.to_N (bsize b))%N).
  { destruct (N.ltb_spec q (nlen b)) as [H|H]; [unfold bsize; lia|]. rewrite nnth_ge in Hq by assumption. discriminate. }
  destruct (ix_surj (bsize b) a q Ha Hlt) as (j & Hj & Hix).
  destruct (Z.eq_dec j 0) as [->|Hj0].
  - unfold vw in Hhead. rewrite Hix, Hq in Hhead. discriminate.
  - unfold wfp. rewrite (Hseq j x ltac:(lia)); [apply w16_range|]. unfold vw. rewrite Hix. exact Hq.
Qed.

Theorem reorder_program_on_reachable_states b a ng L p :
  BufInv b a L -> 0 <= ng <= bsize b -> wf p ->
  exists b' a' ng' out l k, reorder b a ng L p = RO b' a' ng' out l k /\
    (exists f0, forall f, (f0 <= f)%nat ->
       out_enc (exec f p_recv_reorder (st0 b a ng L p)) = ro_enc (RO b' a' ng' out l k)) /\
    (forall f, exec f p_recv_reorder (st0 b a ng L p) = OFuel \/
       out_enc (exec f p_recv_reorder (st0 b a ng L p)) = ro_enc (RO b' a' ng' out l k)).
Proof.
  intros HI Hng Hp. pose proof (reorder_spec b a ng L p HI Hp ltac:(lia)) as Hpost.
  pose proof (pow2B_range _ (bi_pow _ _ _ HI)) as HB. pose proof (bi_a _ _ _ HI) as Ha. pose proof (bi_L _ _ _ HI) as HL.
  assert (E : exists b' a' ng' out l k, reorder b a ng L p = RO b' a' ng' out l k).
  { destruct (reorder b a ng L p) as [b' a' ng' out l k| |]; [do 6 eexists; reflexivity| |]; inversion Hpost. }
  destruct E as (b' & a' & ng' & out & l & k & E). exists b', a', ng', out, l, k. split; [exact E|].
  apply (reorder_program_is_the_model b a ng L p b' a' ng' out l k E); try lia.
  - exact (bufinv_wfb _ _ _ HI).
  - exact Hp.
Qed.

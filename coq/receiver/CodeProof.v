(* The translated reorder (coq/gen/Prog.v, regenerated from receiver.go on every run), executed by the interpreter of
   GVL.Imp, computes what the hand-written model's [reorder] computes: loop by loop, then branch by branch. *)
From Coq Require Import ZArith List Lia Bool.
From Coq Require Import ZifyBool ZifyNat ZifyN.
From GVL Require Import NList Wire Wrap Imp.
From GVG Require Import Prog.
From GV_receiver Require Import Model Proofs Bridge Code.
Import ListNotations.
Open Scope Z_scope.

Notation vPkt := p_recv_reorder_v_pkt.
Notation vSeq := p_recv_reorder_v_pkt_SequenceNumber.
Notation vLast := p_recv_reorder_v_rr_lastSequenceNumber.
Notation vNeg := p_recv_reorder_v_rr_negativeCount.
Notation vAbs := p_recv_reorder_v_rr_absPos.
Notation BUF := p_recv_reorder_a_rr_buffer.

Lemma ki64_small x : -9223372036854775808 <= x < 9223372036854775808 -> ki64 x = x.
Proof. unfold ki64, s64, w64. intros H. destruct (Z.ltb_spec (x mod 18446744073709551616) 9223372036854775808); lia. Qed.

Lemma LEN_buf st (b : list (option pkt)) : A st BUF = map encs b -> LEN st BUF = bsize b.
Proof. intros H. unfold LEN, bsize. rewrite H, nlen_map. reflexivity. Qed.

Lemma nlen_bsize (b : list (option pkt)) : nlen b = Z.to_N (bsize b).
Proof. unfold bsize. lia. Qed.

Lemma slot_eq B a i : Z.to_N (w16 (Z.land (w16 (a + i)) (w16 (w16 B - 1)))) = slot B a i.
Proof.
  unfold slot, slotz, mask. f_equal. apply w16_small.
  apply Bridge.land_u16; [apply w16_range|]. pose proof (w16_range (w16 B - 1)). lia.
Qed.
Lemma slot_nonneg B a i : 0 <= w16 (Z.land (w16 (a + i)) (w16 (w16 B - 1))).
Proof. apply w16_range. Qed.

Ltac eqb_closed :=
  repeat match goal with
  | |- context[N.eqb ?a ?b] =>
      let r := eval vm_compute in (N.eqb a b) in
      lazymatch r with
      | true => change (N.eqb a b) with true
      | false => change (N.eqb a b) with false
      end
  end.
Ltac vs := repeat (rewrite ?V_setV, ?V_setA, ?A_setV, ?A_setA, ?LEN_setV, ?LEN_setA; eqb_closed; cbv iota).

(* loop 1: for i := 0; i < uint16(len(buffer)); i++ { buffer[(absPos+i)&mask] = nil } *)
Lemma loop1_ok : forall fuel B a i b b' st,
  clear_loop fuel B a i b = Some b' ->
  A st BUF = map encs b -> B = bsize b -> B <= 32768 ->
  V st p_recv_reorder_v_i = i -> V st vAbs = a -> 0 <= i -> i + Z.of_nat (length fuel) = B ->
  exists st', bs p_recv_reorder_loop1 st (ONormal st') /\ A st' BUF = map encs b' /\
     (forall x, x <> p_recv_reorder_v_i -> x <> p_recv_reorder_v_p -> V st' x = V st x) /\
     (forall y, y <> BUF -> A st' y = A st y).
Proof.
  induction fuel as [|u fuel IH]; intros B a i b b' st Hc Hb HB HB' Hi Ha Hi0 Hlen.
  - cbn in Hc. injection Hc as <-. exists st. split; [|auto].
    apply bs_for_done. cbv beta zeta. rewrite (LEN_buf _ _ Hb), Hi. cbn [length] in Hlen.
    rewrite w16_small by lia. f_equal. lia.
  - cbn [clear_loop] in Hc. destruct (N.ltb_spec (slot B a i) (nlen b)) as [Hq|Hq]; [|discriminate].
    cbn [length] in Hlen.
    eapply bs_for_step_ex with (Q := fun st' => _).
    + cbv beta zeta. rewrite (LEN_buf _ _ Hb), Hi. rewrite w16_small by lia. f_equal. lia.
    + eapply bs_seq_set; [reflexivity|]. eapply bs_store1; [reflexivity|reflexivity| |].
      * vs. apply slot_nonneg.
      * vs. rewrite (LEN_buf _ _ Hb), Hi, Ha, <- HB, slot_eq, Hb, nlen_map. exact Hq.
    + apply bs_set1. reflexivity.
    + eapply (IH B a (i + 1) (nset (slot B a i) None b) b'); try eassumption.
      * vs. rewrite (LEN_buf _ _ Hb), Hi, Ha, <- HB, slot_eq, Hb. apply (nset_map encs _ None).
      * unfold bsize. rewrite nlen_nset. exact HB.
      * vs. rewrite Hi. apply w16_small. lia.
      * vs. exact Ha.
      * lia.
      * lia.
    + cbv beta. intros st' (HA & HV & HO). split; [exact HA|split].
      * intros x Hx1 Hx2. rewrite HV by assumption. vs.
        destruct (N.eqb_spec x p_recv_reorder_v_i); [contradiction|].
        destruct (N.eqb_spec x p_recv_reorder_v_p); [contradiction|]. reflexivity.
      * intros y Hy. rewrite HO by assumption. vs. destruct (N.eqb_spec y BUF); [contradiction|]. reflexivity.
Qed.

(* Executable model of pkg/rtpreceiver/receiver.go: ProcessPacket2, reorder, report, Stats
   (sequence-number side only: jitter, NTP mapping and the timer goroutine are not part of C14).
   Proof-free.  Integers are Z; every fixed-width Go conversion is written out with GVL.Wrap
   (uint16 = w16, int16 = s16 of a wrapped value, uint8 = w8, uint32 = w32, uint64 = w64).
   Every buffer index expression is a checked access: out of range => Panic.
   Scope: len(buffer) is a power of two <= 32768 (the code masks with len-1; for other sizes the
   mask is not a modulus and the model declines the case, see [supported]).
   Describes /repo after fix 9dc1449 (the flush test compares int(relPos) with len(buffer)). *)
From GVL Require Import NList Wire Wrap.
Open Scope Z_scope.

Record pkt := mkPkt { pseq : Z; pid : Z }.   (* pid distinguishes duplicates; the code never reads it *)
Notation buffer := (list (option pkt)) (only parsing).

Definition bsize (b : buffer) : Z := Z.of_N (nlen b).
(* uint16(len(rr.buffer)) - 1 *)
Definition mask (B : Z) : Z := w16 (w16 B - 1).
(* (rr.absPos + i) & (uint16(len(rr.buffer)) - 1), uint16 arithmetic *)
Definition slotz (B a i : Z) : Z := Z.land (w16 (a + i)) (mask B).
Definition slot (B a i : Z) : N := Z.to_N (slotz B a i).

(* which branch of ProcessPacket2/reorder handled the packet: a ghost label, not read by anything *)
Inductive kind := KFirst | KReliable | KBehind | KReset | KFlush | KStore | KDup | KRun.

(* for i := uint16(0); i < uint16(len(buffer)); i++ { buffer[(absPos+i)&mask] = nil }
   fuel = the buffer itself: exactly len(buffer) iterations (len <= 32768 so uint16(len) = len) *)
Fixpoint clear_loop (fuel : buffer) (B a i : Z) (b : buffer) : option buffer :=
  match fuel with
  | [] => Some b
  | _ :: f =>
      let q := slot B a i in
      if (q <? nlen b)%N then clear_loop f B a (i + 1) (nset q None b) else None
  end.

(* n := 1; for i ... { if buffer[p] != nil { n++ } } *)
Fixpoint count_loop (fuel : buffer) (B a i : Z) (b : buffer) (n : Z) : option Z :=
  match fuel with
  | [] => Some n
  | _ :: f =>
      match nnth (slot B a i) b with
      | None => None
      | Some None => count_loop f B a (i + 1) b n
      | Some (Some _) => count_loop f B a (i + 1) b (n + 1)
      end
  end.

(* for i ... { if buffer[p] != nil { ret[pos], buffer[p] = buffer[p], nil; pos++ } } *)
Fixpoint collect_loop (fuel : buffer) (B a i : Z) (b : buffer) (acc : list pkt) : option (buffer * list pkt) :=
  match fuel with
  | [] => Some (b, acc)
  | _ :: f =>
      let q := slot B a i in
      match nnth q b with
      | None => None
      | Some None => collect_loop f B a (i + 1) b acc
      | Some (Some x) => collect_loop f B a (i + 1) (nset q None b) (acc ++ [x])
      end
  end.

(* n := uint16(1); for { if buffer[(absPos+n)&mask] == nil { break }; n++ }
   The Go loop has no bound of its own.  With a power-of-two length the slots visited for
   n = 1..len are all the slots, so if none of them is nil the Go loop never ends: RunHang. *)
Inductive runres := RunN (n : Z) | RunPanic | RunHang.
Fixpoint run_len (fuel : buffer) (B a n : Z) (b : buffer) : runres :=
  match fuel with
  | [] => RunHang
  | _ :: f =>
      match nnth (slot B a n) b with
      | None => RunPanic
      | Some None => RunN n
      | Some (Some _) => run_len f B a (w16 (n + 1)) b
      end
  end.

(* for i := uint16(1); i < n; i++ { ret[i], buffer[absPos] = buffer[absPos], nil; absPos++; absPos &= mask }
   a nil taken here would be dereferenced by ProcessPacket2's range loop: Panic *)
Fixpoint take_loop (fuel : buffer) (B i n a : Z) (b : buffer) (acc : list pkt) : option (Z * buffer * list pkt) :=
  if n <=? i then Some (a, b, acc) else
  match fuel with
  | [] => None
  | _ :: f =>
      match nnth (Z.to_N a) b with
      | Some (Some x) => take_loop f B (i + 1) n (slotz B a 1) (nset (Z.to_N a) None b) (acc ++ [x])
      | _ => None
      end
  end.

Inductive ro := RO (b : buffer) (a neg : Z) (out : list pkt) (lost : Z) (k : kind) | RPanic | RHang.

Definition reorder (b : buffer) (a neg last : Z) (p : pkt) : ro :=
  let B := bsize b in
  let relPos := s16 (w16 (pseq p - last - 1)) in
  if relPos <? 0 then
    let neg' := neg + 1 in
    if B <? neg' then
      match clear_loop b B a 0 b with
      | Some b' => RO b' a 0 [p] 0 KReset
      | None => RPanic
      end
    else RO b a neg' [] 0 KBehind
  else if B <=? relPos then                 (* int(relPos) >= len(rr.buffer)  (fix 9dc1449) *)
    match count_loop b B a 0 b 1, collect_loop b B a 0 b [] with
    | Some n, Some (b', acc) =>
        (* ret := make([]*rtp.Packet, n); ret[pos] = pkt with pos = len(acc) *)
        if n =? Z.of_N (nlen acc) + 1
        then RO b' a 0 (acc ++ [p]) (w64 (relPos - n + 1)) KFlush
        else RPanic
    | _, _ => RPanic
    end
  else if negb (relPos =? 0) then
    let q := slot B a relPos in
    match nnth q b with
    | None => RPanic
    | Some (Some _) => RO b a 0 [] 0 KDup
    | Some None => RO (nset q (Some p) b) a 0 [] 0 KStore
    end
  else
    match run_len b B a 1 b with
    | RunPanic => RPanic
    | RunHang => RHang
    | RunN n =>
        match take_loop b B 1 n (slotz B a 1) b [] with
        | Some (a', b', acc) => RO b' a' 0 (p :: acc) 0 KRun
        | None => RPanic
        end
    end.

Record st := mkSt {
  unrel : bool;             (* UnrealiableTransport *)
  first : bool;             (* firstRTPPacketReceived *)
  buf : buffer;
  absPos : Z; neg : Z;      (* negativeCount *)
  cycles : Z; last : Z;     (* sequenceNumberCycles, lastSequenceNumber *)
  lost : Z; lostS : Z;      (* lost, lostSinceReport *)
  recv : Z; ralS : Z }.     (* received, receivedAndLostSinceReport *)

(* Initialize: BufferSize 0 => 64; buffer only allocated for the unreliable transport *)
Definition default_bufsize : Z := 64.
Definition init (u : bool) (bs : Z) : st :=
  let B := if bs =? 0 then default_bufsize else bs in
  mkSt u false (if u then nrep None (Z.to_N B) else []) 0 0 0 0 0 0 0 0.

(* for _, pkt := range pkts { diff := int32(seq) - int32(last); if diff < -0x0FFF { cycles++ }; last = seq } *)
Fixpoint upd_seq (out : list pkt) (cyc lst : Z) : Z * Z :=
  match out with
  | [] => (cyc, lst)
  | p :: t => upd_seq t (if pseq p - lst <? -4095 then w16 (cyc + 1) else cyc) (pseq p)
  end.

Inductive res := Ok (s : st) (out : list pkt) (l : Z) (k : kind) | Panic | Hang.

Definition account (s : st) (b : buffer) (a ng : Z) (out : list pkt) (l : Z) (k : kind) : res :=
  let n := Z.of_N (nlen out) in
  let '(c', l') := upd_seq out (cycles s) (last s) in
  Ok (mkSt (unrel s) true b a ng c' l' (lost s + l) (lostS s + l) (recv s + n) (ralS s + n + l)) out l k.

Definition process (s : st) (p : pkt) : res :=
  if negb (first s) then
    Ok (mkSt (unrel s) true (buf s) (absPos s) (neg s) (cycles s) (pseq p) (lost s) (lostS s) 1 1) [p] 0 KFirst
  else if unrel s then
    match reorder (buf s) (absPos s) (neg s) (last s) p with
    | RO b a ng out l k => account s b a ng out l k
    | RPanic => Panic
    | RHang => Hang
    end
  else account s (buf s) (absPos s) (neg s) [p] (w16 (pseq p - last s - 1)) KReliable.

(* report(): the reception report block fields that C14 names; nil before the first packet
   (ClockRate != 0 is a fixed parameter of the harness) *)
Record block := mkBlock { b_ext : Z; b_fraction : Z; b_total : Z }.
Definition report (s : st) : option (st * block) :=
  if negb (first s) then None else
  let fl := if ralS s =? 0 then 0 else w8 ((Z.min (lostS s) 16777215 * 256) / ralS s) in
  let ext := Z.lor (w32 (Z.shiftl (cycles s) 16)) (last s) in
  Some (mkSt (unrel s) (first s) (buf s) (absPos s) (neg s) (cycles s) (last s) (lost s) 0 (recv s) 0,
        mkBlock ext fl (w32 (Z.min (lost s) 16777215))).

(* Stats(): Received, Lost, LastSequenceNumber *)
Definition stats (s : st) : option (Z * Z * Z) :=
  if negb (first s) then None else Some (recv s, lost s, last s).

(* ---- histories ---- *)
Inductive op := OPkt (p : pkt) | OReport | OStats.
Inductive ev :=
  | EPkt (p : pkt) (out : list pkt) (l : Z) (k : kind)
  | EReport (r : option block)
  | EStats (x : option (Z * Z * Z))
  | EPanic | EHang.

Fixpoint run_ops (s : st) (ops : list op) : st * list ev :=
  match ops with
  | [] => (s, [])
  | OPkt p :: t =>
      match process s p with
      | Ok s' out l k => let '(s'', es) := run_ops s' t in (s'', EPkt p out l k :: es)
      | Panic => (s, [EPanic])
      | Hang => (s, [EHang])
      end
  | OReport :: t =>
      match report s with
      | Some (s', bl) => let '(s'', es) := run_ops s' t in (s'', EReport (Some bl) :: es)
      | None => let '(s'', es) := run_ops s t in (s'', EReport None :: es)
      end
  | OStats :: t => let '(s'', es) := run_ops s t in (s'', EStats (stats s) :: es)
  end.

(* ---- wire ---- *)
Definition zN (z : Z) : N := Z.to_N z.
Definition enc_ev (e : ev) : list N :=
  match e with
  | EPkt _ out l _ => nlen out :: map (fun q => zN (pid q)) out ++ [zN l]
  | EReport None => [0%N]
  | EReport (Some bl) => [1%N; zN (b_ext bl); zN (b_fraction bl); zN (b_total bl)]
  | EStats None => [0%N]
  | EStats (Some (r, l, s)) => [1%N; zN r; zN l; zN s]
  | EPanic => [77%N]
  | EHang => [78%N]
  end.

Fixpoint dec_ops (fuel : list N) (l : list N) : option (list op) :=
  match l with
  | [] => Some []
  | _ =>
    match fuel with
    | [] => None
    | _ :: fuel' =>
      match l with
      | 1%N :: s :: i :: t => option_map (cons (OPkt (mkPkt (Z.of_N s) (Z.of_N i)))) (dec_ops fuel' t)
      | 2%N :: t => option_map (cons OReport) (dec_ops fuel' t)
      | 3%N :: t => option_map (cons OStats) (dec_ops fuel' t)
      | _ => None
      end
    end
  end.

(* the sizes the model covers *)
Definition supported (u : bool) (bs : N) : bool :=
  negb u || ((bs =? 0)%N || ((N.land bs (bs - 1) =? 0)%N && (bs <=? 32768)%N)).
Definition ops_ok (ops : list op) : bool :=
  forallb (fun o => match o with OPkt p => pseq p <? 65536 | _ => true end) ops.

(* case: 1 unreliable bufsize ops...   op = 1 seq id | 2 (report) | 3 (stats)
   observable: per packet  k id1..idk lost ; per report 0 | 1 ext fraction total ; per stats 0 | 1 recv lost last ;
   77 = panic, 78 = endless loop (both end the line) *)
Definition run (c : list N) : list N :=
  match c with
  | 1%N :: u :: bs :: t =>
      match dec_ops t t with
      | Some ops =>
          if supported (getb u) bs && ops_ok ops
          then concat (map enc_ev (snd (run_ops (init (getb u) (Z.of_N bs)) ops)))
          else [88%N]
      | None => bad_case
      end
  | _ => bad_case
  end.

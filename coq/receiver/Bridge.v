(* BRIDGE: the arithmetic kernels of pkg/rtpreceiver/receiver.go as TRANSLATED from the Go source on this run
   (GVG.Kern, tools/go2coq) are the formulas the hand-written model (Model.reorder / process / upd_seq) uses.
   Re-checked on every run against the regenerated Kern.v: an off-by-one, a changed cast, threshold, mask or
   comparison in the Go code changes Kern.v and breaks one of these lemmas. *)
From Coq Require Import ZArith Lia Bool.
From Coq Require Import ZifyBool.
From GVL Require Import Wrap.
From GVG Require Import Kern.
From GV_receiver Require Import Model.
Open Scope Z_scope.
Ltac Zify.zify_post_hook ::= Z.div_mod_to_equations.

Definition u16 (x : Z) : Prop := 0 <= x < 65536.
Definition i16 (x : Z) : Prop := -32768 <= x < 32768.

Lemma s16_range x : 0 <= x < 65536 -> i16 (s16 x).
Proof. unfold s16, i16. intros H. destruct (x <? 32768) eqn:E; lia. Qed.

(* relPos := int16(pkt.SequenceNumber - rr.lastSequenceNumber - 1) *)
Lemma bridge_relpos seq last : u16 seq -> u16 last ->
  k_recv_relpos seq last = s16 (w16 (seq - last - 1)).
Proof.
  unfold u16, k_recv_relpos, ki16. intros Hs Hl. f_equal. unfold w16. lia.
Qed.

(* reliable transport: lost = uint64(pkt.SequenceNumber - rr.lastSequenceNumber - 1) *)
Lemma bridge_lost_reliable seq last : u16 seq -> u16 last ->
  k_recv_lost_tcp seq last = w16 (seq - last - 1).
Proof.
  unfold u16, k_recv_lost_tcp. intros Hs Hl. unfold w64, w16. lia.
Qed.

(* diff := int32(seq) - int32(last); if diff < -0x0FFF  — what upd_seq tests *)
Lemma bridge_cycle seq last : u16 seq -> u16 last ->
  k_recv_cycle_cond (k_recv_cycle_diff seq last) = (seq - last <? -4095).
Proof.
  unfold u16, k_recv_cycle_cond, k_recv_cycle_diff, ki32. intros Hs Hl.
  assert (E : forall x, -2147483648 <= x < 2147483648 -> s32 (w32 x) = x) by (intros; apply s32_w32_small; lia).
  rewrite (E seq), (E last), (E (seq - last)) by lia. reflexivity.
Qed.

(* the four branch conditions of reorder, on a relPos that is an int16 and a buffer of B slots *)
Lemma bridge_behind r : k_recv_behind r = (r <? 0).
Proof. reflexivity. Qed.
Lemma bridge_reset neg B : k_recv_reset (neg + 1) B = (B <? neg + 1).
Proof. unfold k_recv_reset. lia. Qed.
Lemma bridge_full r B : i16 r -> k_recv_full r B = (B <=? r).
Proof.
  unfold i16, k_recv_full, ki64. intros Hr.
  assert (E : s64 (w64 r) = r). { unfold s64, w64. destruct (r mod 18446744073709551616 <? 9223372036854775808) eqn:E; lia. }
  rewrite E. lia.
Qed.
Lemma bridge_gap r : k_recv_gap r = negb (r =? 0).
Proof. reflexivity. Qed.

(* flush: lost = uint64(int(relPos) - n + 1) *)
Lemma bridge_lost_flush r n : i16 r -> 0 <= n <= 65537 ->
  k_recv_lost_flush r n = w64 (r - n + 1).
Proof.
  unfold i16, k_recv_lost_flush, ki64. intros Hr Hn.
  assert (E : forall x, -9223372036854775808 <= x < 9223372036854775808 -> s64 (w64 x) = x).
  { intros x Hx. unfold s64, w64. destruct (x mod 18446744073709551616 <? 9223372036854775808) eqn:E; lia. }
  rewrite (E r), (E (r - n)), (E (r - n + 1)) by lia. reflexivity.
Qed.

(* the slot of a displaced packet: p := (rr.absPos + uint16(relPos)) & (uint16(len(rr.buffer)) - 1) *)
Lemma land_u16 x y : 0 <= x < 65536 -> 0 <= y -> 0 <= Z.land x y < 65536.
Proof.
  intros Hx Hy. assert (Hn : 0 <= Z.land x y) by (apply Z.land_nonneg; lia). split; [exact Hn|].
  destruct (Z.eq_dec (Z.land x y) 0) as [E|E]; [lia|].
  destruct (Z.eq_dec x 0) as [->|Hx0]; [rewrite Z.land_0_l in E; lia|].
  change 65536 with (2 ^ 16). apply Z.log2_lt_pow2; [lia|].
  pose proof (Z.log2_land x y ltac:(lia) Hy) as Hl.
  assert (Z.log2 x < 16) by (apply Z.log2_lt_pow2; [lia|change (2 ^ 16) with 65536; lia]).
  lia.
Qed.

Lemma bridge_slot a r B : u16 a -> 0 <= r < 32768 ->
  k_recv_slot a r B = slotz B a r.
Proof.
  unfold u16, k_recv_slot, slotz, mask. intros Ha Hr.
  rewrite w16_add_r.
  assert (Hm : 0 <= w16 (w16 B - 1)) by (unfold w16; lia).
  assert (Hx : 0 <= w16 (a + r) < 65536) by (unfold w16; lia).
  pose proof (land_u16 _ _ Hx Hm) as Hl. unfold w16 at 1. rewrite Z.mod_small by lia. reflexivity.
Qed.

(* the drain loop: rr.absPos++ ; rr.absPos &= uint16(len(rr.buffer)) - 1 *)
Lemma bridge_abs_advance a B : u16 a ->
  k_recv_abs_mask (w16 (a + 1)) B = slotz B a 1.
Proof.
  unfold u16, k_recv_abs_mask, slotz, mask. intros Ha.
  assert (Hm : 0 <= w16 (w16 B - 1)) by (unfold w16; lia).
  assert (Hx : 0 <= w16 (a + 1) < 65536) by (unfold w16; lia).
  pose proof (land_u16 _ _ Hx Hm) as Hl. unfold w16 at 1. rewrite Z.mod_small by lia. reflexivity.
Qed.

(* THE BRIDGE, assembled: the decision structure of Model.reorder written with the translated kernels.
   For every buffer, position, counter and packet (sequence numbers are uint16 values) the model's
   relPos and its four guards are the Go expressions. *)
Theorem reorder_kernels_are_the_code (B a neg last seq : Z) :
  u16 seq -> u16 last -> u16 a ->
  let r := k_recv_relpos seq last in
  r = s16 (w16 (seq - last - 1)) /\ i16 r /\
  k_recv_behind r = (r <? 0) /\
  k_recv_reset (neg + 1) B = (B <? neg + 1) /\
  k_recv_full r B = (B <=? r) /\
  k_recv_gap r = negb (r =? 0) /\
  (0 <= r -> k_recv_slot a r B = slotz B a r) /\
  k_recv_abs_mask (w16 (a + 1)) B = slotz B a 1 /\
  (forall n, 0 <= n <= 65537 -> k_recv_lost_flush r n = w64 (r - n + 1)).
Proof.
  intros Hs Hl Ha r. assert (Er : r = s16 (w16 (seq - last - 1))) by (apply bridge_relpos; assumption).
  assert (Hr : i16 r) by (rewrite Er; apply s16_range; unfold w16; lia).
  repeat split; try exact Er; try apply Hr.
  - apply bridge_reset.
  - apply bridge_full; exact Hr.
  - intros H0. apply bridge_slot; [assumption|unfold i16 in Hr; lia].
  - apply bridge_abs_advance; assumption.
  - intros n Hn. apply bridge_lost_flush; assumption.
Qed.

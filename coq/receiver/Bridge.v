(* BRIDGE: the arithmetic kernels of pkg/rtpreceiver/receiver.go as TRANSLATED from the Go source on this run
   (GVG.Kern, tools/go2coq) are the formulas the hand-written model (Model.reorder / process / upd_seq) uses.
   Re-checked on every run against the regenerated Kern.v: an off-by-one, a changed cast, threshold, mask or
   comparison in the Go code changes Kern.v and breaks one of these lemmas. *)
From Coq Require Import ZArith Lia Bool.
From Coq Require Import ZifyBool.
From GVL Require Import Wrap.
From GVG Require Import Kern.
From GV_receiver Require Import Model.
Open Scope Z_scope.
Ltac Zify.zify_post_hook ::= Z.div_mod_to_equations.

Definition u16 (x : Z) : Prop := 0 <= x < 65536.
Definition i16 (x : Z) : Prop := -32768 <= x < 32768.

Lemma s16_range x : 0 <= x < 65536 -> i16 (s16 x).
Proof. unfold s16, i16. intros H. destruct (x <? 32768) eqn:E; lia. Qed.

(* relPos := int16(pkt.SequenceNumber - rr.lastSequenceNumber - 1) *)
Lemma bridge_relpos seq last : u16 seq -> u16 last ->
  k_recv_relpos seq last = s16 (w16 (seq - last - 1)).
Proof.
  unfold u16, k_recv_relpos, ki16. intros Hs Hl. f_equal. unfold w16. lia.
Qed.

(* reliable transport: lost = uint64(pkt.SequenceNumber - rr.lastSequenceNumber - 1) *)
Lemma bridge_lost_reliable seq last : u16 seq -> u16 last ->
  k_recv_lost_tcp seq last = w16 (seq - last - 1).
Proof.
  unfold u16, k_recv_lost_tcp. intros Hs Hl. unfold w64, w16. lia.
Qed.

(* diff := int32(seq) - int32(last); if diff < -0x0FFF  — what upd_seq tests *)
Lemma bridge_cycle seq last : u16 seq -> u16 last ->
  k_recv_cycle_cond (k_recv_cycle_diff seq last) = (seq - last <? -4095).
Proof.
  unfold u16, k_recv_cycle_cond, k_recv_cycle_diff, ki32. intros Hs Hl.
  assert (E : forall x, -2147483648 <= x < 2147483648 -> s32 (w32 x) = x) by (intros; apply s32_w32_small; lia).
  rewrite (E seq), (E last), (E (seq - last)) by lia. reflexivity.
Qed.

(* the four branch conditions of reorder, on a relPos that is an int16 and a buffer of B slots *)
Lemma bridge_behind r : k_recv_behind r = (r <? 0).
Proof. reflexivity. Qed.
Lemma bridge_reset neg B : k_recv_reset (neg + 1) B = (B <? neg + 1).
Proof. unfold k_recv_reset. lia. Qed.
Lemma bridge_full r B : i16 r -> k_recv_full r B = (B <=? r).
Proof.
  unfold i16, k_recv_full, ki64. intros Hr.
  assert (E : s64 (w64 r) = r). { unfold s64, w64. destruct (r mod 18446744073709551616 <? 9223372036854775808) eqn:E; lia. }
  rewrite E. lia.
Qed.
Lemma bridge_gap r : k_recv_gap r = negb (r =? 0).
Proof. reflexivity. Qed.

(* flush: lost = uint64(int(relPos) - n + 1) *)
Lemma bridge_lost_flush r n : i16 r -> 0 <= n <= 65537 ->
  k_recv_lost_flush r n = w64 (r - n + 1).
Proof.
  unfold i16, k_recv_lost_flush, ki64. intros Hr Hn.
  assert (E : forall x, -9223372036854775808 <= x < 9223372036854775808 -> s64 (w64 x) = x).
  { intros x Hx. unfold s64, w64. destruct (x mod 18446744073709551616 <? 9223372036854775808) eqn:E; lia. }
  rewrite (E r), (E (r - n)), (E (r - n + 1)) by lia. reflexivity.
Qed.

(* the slot of a displaced packet: p := (rr.absPos + uint16(relPos)) & (uint16(len(rr.buffer)) - 1) *)
Lemma land_u16 x y : 0 <= x < 65536 -> 0 <= y -> 0 <= Z.land x y < 65536.
Proof.
  intros Hx Hy. assert (Hn : 0 <= Z.land x y) by (apply Z.land_nonneg; lia). split; [exact Hn|].
  destruct (Z.eq_dec (Z.land x y) 0) as [E|E]; [lia|].
  destruct (Z.eq_dec x 0) as [->|Hx0]; [rewrite Z.land_0_l in E; lia|].
  change 65536 with (2 ^ 16). apply Z.log2_lt_pow2; [lia|].
  pose proof (Z.log2_land x y ltac:(lia) Hy) as Hl.
  assert (Z.log2 x < 16) by (apply Z.log2_lt_pow2; [lia|change (2 ^ 16) with 65536; lia]).
  lia.
Qed.

Lemma bridge_slot a r B : u16 a -> 0 <= r < 32768 ->
  k_recv_slot a r B = slotz B a r.
Proof.
  unfold u16, k_recv_slot, slotz, mask. intros Ha Hr.
  rewrite w16_add_r.
  assert (Hm : 0 <= w16 (w16 B - 1)) by (unfold w16; lia).
  assert (Hx : 0 <= w16 (a + r) < 65536) by (unfold w16; lia).
  pose proof (land_u16 _ _ Hx Hm) as Hl. unfold w16 at 1. rewrite Z.mod_small by lia. reflexivity.
Qed.

(* the drain loop: rr.absPos++ ; rr.absPos &= uint16(len(rr.buffer)) - 1 *)
Lemma bridge_abs_advance a B : u16 a ->
  k_recv_abs_mask (w16 (a + 1)) B = slotz B a 1.
Proof.
  unfold u16, k_recv_abs_mask, slotz, mask. intros Ha.
  assert (Hm : 0 <= w16 (w16 B - 1)) by (unfold w16; lia).
  assert (Hx : 0 <= w16 (a + 1) < 65536) by (unfold w16; lia).
  pose proof (land_u16 _ _ Hx Hm) as Hl. unfold w16 at 1. rewrite Z.mod_small by lia. reflexivity.
Qed.

(* THE BRIDGE, assembled: the decision structure of Model.reorder written with the translated kernels.
   For every buffer, position, counter and packet (sequence numbers are uint16 values) the model's
   relPos and its four guards are the Go expressions. *)
Theorem reorder_kernels_are_the_code (B a neg last seq : Z) :
  u16 seq -> u16 last -> u16 a ->
  let r := k_recv_relpos seq last in
  r = s16 (w16 (seq - last - 1)) /\ i16 r /\
  k_recv_behind r = (r <? 0) /\
  k_recv_reset (neg + 1) B = (B <? neg + 1) /\
  k_recv_full r B = (B <=? r) /\
  k_recv_gap r = negb (r =? 0) /\
  (0 <= r -> k_recv_slot a r B = slotz B a r) /\
  k_recv_abs_mask (w16 (a + 1)) B = slotz B a 1 /\
  (forall n, 0 <= n <= 65537 -> k_recv_lost_flush r n = w64 (r - n + 1)).
Proof.
  intros Hs Hl Ha r. assert (Er : r = s16 (w16 (seq - last - 1))) by (apply bridge_relpos; assumption).
  assert (Hr : i16 r) by (rewrite Er; apply s16_range; unfold w16; lia).
  repeat split; try exact Er; try apply Hr.
  - apply bridge_reset.
  - apply bridge_full; exact Hr.
  - intros H0. apply bridge_slot; [assumption|unfold i16 in Hr; lia].
  - apply bridge_abs_advance; assumption.
  - intros n Hn. apply bridge_lost_flush; assumption.
Qed.

(* ================= report(): fraction lost, 24-bit clamp, extended highest sequence number =================
   (spec lines in tools/go2coq/spec.d/receiver.txt; the builtin min is an opaque call of the kernels, its two arguments
   are bridged separately: the clamped counter and the literal 0xFFFFFF) *)
Definition u64 (x : Z) : Prop := 0 <= x < 18446744073709551616.

(* fractionLost = uint8((min(rr.lostSinceReport, 0xFFFFFF) * 256) / rr.receivedAndLostSinceReport) *)
Lemma bridge_rep_fraction m ral : 0 <= m <= 16777215 -> u64 ral -> ral <> 0 ->
  k_recv_rep_fraction m ral = Some (w8 ((m * 256) / ral)).
Proof.
  unfold u64, k_recv_rep_fraction. intros Hm Hr Hnz. destruct (Z.eqb_spec ral 0) as [E|_]; [contradiction|]. f_equal.
  assert (E1 : w64 (m * 256) = m * 256) by (unfold w64; lia). rewrite E1.
  rewrite Z.quot_div_nonneg by lia.
  assert (E2 : w64 (m * 256 / ral) = m * 256 / ral).
  { unfold w64. apply Z.mod_small. split; [apply Z.div_pos; lia|].
    apply Z.le_lt_trans with (m * 256); [apply Z.div_le_upper_bound; nia|lia]. }
  rewrite E2. reflexivity.
Qed.
Lemma bridge_rep_fraction_zero m : k_recv_rep_fraction m 0 = None.
Proof. reflexivity. Qed.

(* LastSequenceNumber: uint32(rr.sequenceNumberCycles)<<16 | uint32(rr.lastSequenceNumber) *)
Lemma bridge_rep_ext cyc lst : u16 cyc -> u16 lst ->
  k_recv_rep_ext cyc lst = Z.lor (w32 (Z.shiftl cyc 16)) lst /\ k_recv_rep_ext cyc lst = cyc * 65536 + lst.
Proof.
  unfold u16, k_recv_rep_ext. intros Hc Hl.
  assert (Ec : w32 cyc = cyc) by (apply w32_small; lia). assert (El : w32 lst = lst) by (apply w32_small; lia).
  rewrite Ec, El. rewrite Z.shiftl_mul_pow2 by lia. change (2 ^ 16) with 65536.
  assert (Es : w32 (cyc * 65536) = cyc * 65536) by (apply w32_small; lia). rewrite Es.
  assert (Eo : Z.lor (cyc * 65536) lst = cyc * 65536 + lst).
  { assert (El0 : Z.land (cyc * 2 ^ 16) lst = 0).
    { apply Z.bits_inj'. intros n Hn. rewrite Z.land_spec, Z.bits_0.
      destruct (Z.lt_ge_cases n 16) as [L|G]; [rewrite Z.mul_pow2_bits_low by lia; reflexivity|].
      destruct (Z.eq_dec lst 0) as [->|Hnz]; [rewrite Z.bits_0; apply andb_false_r|].
      rewrite (Z.bits_above_log2 lst n); [apply andb_false_r|lia|].
      assert (Z.log2 lst < 16) by (apply Z.log2_lt_pow2; [lia|change (2 ^ 16) with 65536; lia]). lia. }
    change 65536 with (2 ^ 16). rewrite (Z.add_nocarry_lxor _ _ El0). symmetry. apply Z.lxor_lor. exact El0. }
  rewrite Eo. rewrite w32_small by lia. split; reflexivity.
Qed.

(* Model.report written with the translated kernels (ClockRate != 0 is a fixed parameter of the model) *)
Definition report_k (s : st) : option (st * block) :=
  if k_recv_rep_skip (first s) 1 then None else
  let fl := if k_recv_rep_haveloss (ralS s)
            then match k_recv_rep_fraction (Z.min (k_recv_rep_clamped_f (lostS s)) k_recv_rep_clamp_f) (ralS s) with
                 | Some f => f | None => 0 end
            else 0 in
  Some (mkSt (unrel s) (first s) (buf s) (absPos s) (neg s) (cycles s) (last s) (lost s) 0 (recv s) 0,
        mkBlock (k_recv_rep_ext (cycles s) (last s)) fl
                (k_recv_rep_total (Z.min (k_recv_rep_clamped_t (lost s)) k_recv_rep_clamp_t))).

Theorem report_kernels_are_the_code s :
  u16 (cycles s) -> u16 (last s) -> 0 <= lostS s -> u64 (ralS s) ->
  report s = report_k s.
Proof.
  intros Hc Hl Hls Hr. unfold report, report_k, k_recv_rep_skip, k_recv_rep_haveloss, k_recv_rep_clamped_f,
    k_recv_rep_clamped_t, k_recv_rep_clamp_f, k_recv_rep_clamp_t, k_recv_rep_total.
  change (1 =? 0) with false. rewrite orb_false_r. destruct (first s); cbn [negb]; [|reflexivity].
  destruct (bridge_rep_ext _ _ Hc Hl) as [Ee _]. rewrite Ee.
  destruct (Z.eqb_spec (ralS s) 0) as [E0|Hnz]; cbn [negb]; [reflexivity|].
  rewrite bridge_rep_fraction by (try assumption; lia). reflexivity.
Qed.

(* Receiver (C14), part 2: the state invariant, one ProcessPacket2 step in every branch. *)
From GVL Require Import NList Wire Wrap.
From GV_receiver Require Import Model Proofs.
From Coq Require Import ZifyBool ZifyNat ZifyN.
Open Scope Z_scope.

(* ---------- upd_seq: lastSequenceNumber and the cycle counter ---------- *)
Fixpoint gchain (m prev : Z) (l : list pkt) : Prop :=
  match l with
  | [] => True
  | p :: t => 1 <= w16 (pseq p - prev) <= m /\ gchain m (pseq p) t
  end.

Lemma chain_gchain l : forall prev, chain prev l -> gchain 32768 prev l.
Proof. induction l as [|p t IH]; intros prev H; cbn [chain gchain] in *; [exact I|]. destruct H; split; auto. Qed.

Lemma gchain_mono m m' l : m <= m' -> forall prev, gchain m prev l -> gchain m' prev l.
Proof.
  intros Hm. induction l as [|p t IH]; intros prev H; cbn [gchain] in *; [exact I|].
  destruct H; split; auto. lia.
Qed.

Lemma upd_seq_last out : forall c l0, snd (upd_seq out c l0) = lastseq l0 out.
Proof. induction out as [|p t IH]; intros c l0; cbn [upd_seq lastseq]; [reflexivity|apply IH]. Qed.

Lemma upd_seq_cyc out : forall c l0, 0 <= c < 65536 -> 0 <= fst (upd_seq out c l0) < 65536.
Proof.
  induction out as [|p t IH]; intros c l0 Hc; cbn [upd_seq]; [exact Hc|]. apply IH.
  destruct (pseq p - l0 <? -4095); [apply w16_range|exact Hc].
Qed.

Lemma lastseq_range out : forall prev, 0 <= prev < 65536 -> Forall wf out -> 0 <= lastseq prev out < 65536.
Proof.
  induction out as [|p t IH]; intros prev Hp Hw; cbn [lastseq]; [exact Hp|].
  inversion Hw; subst. apply IH; auto.
Qed.

(* the cycle heuristic (diff < -0x0FFF) is exact for forward gaps 1..61440 *)
Lemma upd_seq_ext out : forall c l0, 0 <= l0 < 65536 -> Forall wf out -> gchain 61440 l0 out ->
  w32 (fst (upd_seq out c l0) * 65536 + lastseq l0 out) = w32 (c * 65536 + l0 + span l0 out).
Proof.
  induction out as [|p t IH]; intros c l0 Hl Hw Hg; cbn [upd_seq lastseq span gchain] in *.
  - now rewrite Z.add_0_r.
  - inversion Hw as [|? ? Hp Hw']; subst. destruct Hg as (Hg & Hg'). unfold wf in Hp.
    rewrite IH by auto. unfold w32, w16 in *.
    destruct (Z.ltb_spec (pseq p - l0) (-4095)); lia.
Qed.

Lemma span_skipped out : forall prev, gchain 65536 prev out ->
  span prev out = skipped prev out + Z.of_nat (length out).
Proof.
  induction out as [|p t IH]; intros prev H; cbn [span skipped length gchain] in *; [lia|].
  destruct H as (Hg & Ht). rewrite (IH _ Ht). unfold w16 in *. lia.
Qed.

(* ---------- the state invariant ---------- *)
Record Inv (s : st) : Prop := {
  iv_last : 0 <= last s < 65536;
  iv_cyc : 0 <= cycles s < 65536;
  iv_buf : unrel s = true -> BufInv (buf s) (absPos s) (last s) /\ 0 <= neg s <= bsize (buf s);
  iv_fresh : first s = false -> empty_buf (buf s) /\ lost s = 0 /\ lostS s = 0 /\ recv s = 0 /\ ralS s = 0;
  iv_cnt : 0 <= lost s /\ 0 <= lostS s /\ 0 <= recv s /\ (lostS s < ralS s \/ (lostS s = 0 /\ ralS s = 0)) }.

Definition ext (s : st) : Z := cycles s * 65536 + last s.

(* the state built by [account] *)
Definition acc_st (s : st) (b : list (option pkt)) (a ng : Z) (out : list pkt) (l : Z) : st :=
  mkSt (unrel s) true b a ng (fst (upd_seq out (cycles s) (last s))) (lastseq (last s) out)
       (lost s + l) (lostS s + l) (recv s + Z.of_nat (length out)) (ralS s + Z.of_nat (length out) + l).

Lemma account_eq s b a ng out l k : account s b a ng out l k = Ok (acc_st s b a ng out l) out l k.
Proof.
  unfold account, acc_st. rewrite <- (upd_seq_last out (cycles s) (last s)), length_nlen.
  destruct (upd_seq out (cycles s) (last s)); reflexivity.
Qed.

Definition first_st (s : st) (p : pkt) : st :=
  mkSt (unrel s) true (buf s) (absPos s) (neg s) (cycles s) (pseq p) (lost s) (lostS s) 1 1.

Inductive proc_post (s : st) (p : pkt) : res -> Prop :=
| PP_first : first s = false -> proc_post s p (Ok (first_st s p) [p] 0 KFirst)
| PP_rel : first s = true -> unrel s = false ->
    proc_post s p (Ok (acc_st s (buf s) (absPos s) (neg s) [p] (w16 (pseq p - last s - 1))) [p]
                      (w16 (pseq p - last s - 1)) KReliable)
| PP_unrel b a ng out l k : first s = true -> unrel s = true ->
    reorder_post (buf s) (absPos s) (neg s) (last s) p (RO b a ng out l k) ->
    proc_post s p (Ok (acc_st s b a ng out l) out l k).

Lemma process_cases s p : Inv s -> wf p -> proc_post s p (process s p).
Proof.
  intros HI Hp. unfold process. destruct (first s) eqn:Hf; cbn [negb].
  - destruct (unrel s) eqn:Hu.
    + destruct (iv_buf s HI Hu) as (HB & Hn).
      pose proof (reorder_spec (buf s) (absPos s) (neg s) (last s) p HB Hp (proj1 Hn)) as R.
      destruct (reorder (buf s) (absPos s) (neg s) (last s) p) as [b a ng out l k| |];
        try (inversion R; fail).
      rewrite account_eq. now apply PP_unrel.
    + rewrite account_eq. now apply PP_rel.
  - now apply PP_first.
Qed.

(* ---------- reorder_post, kind by kind (named inversion) ---------- *)
Lemma kind_eq_dec (k k' : kind) : {k = k'} + {k <> k'}.
Proof. decide equality. Qed.

Section RP.
Variables (b : list (option pkt)) (a ng L : Z) (p : pkt) (b' : list (option pkt)) (a' ng' : Z) (out : list pkt) (l : Z).
Let B := bsize b.
Let r := relpos L p.

Lemma rp_kind k : reorder_post b a ng L p (RO b' a' ng' out l k) -> k <> KFirst /\ k <> KReliable.
Proof. inversion 1; split; discriminate. Qed.
Lemma rp_behind : reorder_post b a ng L p (RO b' a' ng' out l KBehind) ->
  b' = b /\ a' = a /\ ng' = ng + 1 /\ out = [] /\ l = 0 /\ r < 0 /\ ng + 1 <= B.
Proof. inversion 1; subst; splits; auto. Qed.
Lemma rp_reset : reorder_post b a ng L p (RO b' a' ng' out l KReset) ->
  a' = a /\ ng' = 0 /\ out = [p] /\ l = 0 /\ r < 0 /\ B < ng + 1 /\ nlen b' = nlen b /\ empty_buf b'.
Proof. inversion 1; subst; splits; auto. Qed.
Lemma rp_flush : reorder_post b a ng L p (RO b' a' ng' out l KFlush) ->
  a' = a /\ ng' = 0 /\ out = pick (length b) B a b 0 ++ [p] /\
  l = r - Z.of_nat (length (pick (length b) B a b 0)) /\ B <= r /\ nlen b' = nlen b /\ empty_buf b'.
Proof. inversion 1; subst; splits; auto. Qed.
Lemma rp_dup : reorder_post b a ng L p (RO b' a' ng' out l KDup) ->
  b' = b /\ a' = a /\ ng' = 0 /\ out = [] /\ l = 0 /\ 0 < r < B /\ exists x, vw B a b r = Some (Some x).
Proof. inversion 1; subst; splits; eauto; lia. Qed.
Lemma rp_store : reorder_post b a ng L p (RO b' a' ng' out l KStore) ->
  b' = nset (ix B a r) (Some p) b /\ a' = a /\ ng' = 0 /\ out = [] /\ l = 0 /\ 0 < r < B /\
  vw B a b r = Some None.
Proof. inversion 1; subst; splits; auto; lia. Qed.
Lemma rp_run : reorder_post b a ng L p (RO b' a' ng' out l KRun) ->
  exists n, a' = (a + n) mod B /\ ng' = 0 /\ out = p :: pick (Z.to_nat (n - 1)) B a b 1 /\ l = 0 /\ r = 0 /\
    1 <= n <= B /\ nlen b' = nlen b /\
    (forall j, 1 <= j < n -> exists x, vw B a b j = Some (Some x)) /\
    vw B a b n = Some None /\
    (forall j, 1 <= j < n -> vw B a b' j = Some None) /\
    (forall j, 0 <= j < B -> ~ (1 <= j < n) -> vw B a b' j = vw B a b j).
Proof. inversion 1; subst. exists n. splits; auto; lia. Qed.
End RP.

(* ---------- facts about the delivered list in each unreliable branch ---------- *)
Lemma bsize_nset b q v : bsize (nset q v b) = bsize b.
Proof. unfold bsize. now rewrite nlen_nset. Qed.
Lemma bsize_eq b b' : nlen b' = nlen b -> bsize b' = bsize b.
Proof. unfold bsize. now intros ->. Qed.

(* what a non-restart unreliable step delivers: ascending offsets from the head *)
Lemma reorder_out_asc b a ng L p b' a' ng' out l k :
  BufInv b a L -> wf p -> reorder_post b a ng L p (RO b' a' ng' out l k) ->
  k <> KReset ->
  exists e, asc L 0 out e /\ e <= 32768 /\ l = e - Z.of_nat (length out) /\ (out = [] -> l = 0 /\ e = 0).
Proof.
  intros HI Hp R Hk. pose proof (relpos_range L p) as Hrr.
  pose proof (pow2B_range _ (bi_pow _ _ _ HI)) as HR.
  destruct k; try congruence; try (exfalso; destruct (rp_kind _ _ _ _ _ _ _ _ _ _ _ R); congruence).
  - destruct (rp_behind _ _ _ _ _ _ _ _ _ _ R) as (-> & -> & -> & -> & -> & _).
    exists 0. cbn [asc length]. splits; auto; lia.
  - (* flush *)
    destruct (rp_flush _ _ _ _ _ _ _ _ _ _ R) as (-> & -> & -> & -> & Hge & _).
    assert (Hbl : bsize b = Z.of_nat (length b)) by (unfold bsize; rewrite nlen_length; lia).
    exists (relpos L p + 1). splits; try lia.
    + eapply ascr_app_exact.
      * apply (pick_ascr (length b) b a L 0 HI); lia.
      * lia.
      * apply relpos_nonneg_seq; [assumption|lia].
    + rewrite app_length. cbn [length]. lia.
    + intros E. destruct (pick (length b) (bsize b) a b 0); discriminate.
  - destruct (rp_store _ _ _ _ _ _ _ _ _ _ R) as (_ & _ & _ & -> & -> & _).
    exists 0. cbn [asc length]. splits; auto; lia.
  - destruct (rp_dup _ _ _ _ _ _ _ _ _ _ R) as (_ & _ & _ & -> & -> & _).
    exists 0. cbn [asc length]. splits; auto; lia.
  - (* run *)
    destruct (rp_run _ _ _ _ _ _ _ _ _ _ R) as (n & _ & _ & -> & -> & H0 & Hn & _ & Hall & _).
    destruct (pick_full_asc (Z.to_nat (n - 1)) b a L 1 HI) as (HA & HLn); try lia.
    { intros j Hj. apply Hall. lia. }
    exists n. splits; try lia.
    + cbn [asc]. exists 0. splits; [lia| |].
      * rewrite <- H0. apply relpos_nonneg_seq; [assumption|lia].
      * replace (1 + Z.of_nat (Z.to_nat (n - 1))) with n in HA by lia. exact HA.
    + cbn [length]. rewrite HLn. lia.
    + discriminate.
Qed.

Lemma skipped_nonneg out : forall x, 0 <= skipped x out.
Proof.
  induction out as [|q t IH]; intros x; cbn [skipped]; [lia|].
  pose proof (w16_range (pseq q - x - 1)). specialize (IH (pseq q)). lia.
Qed.

Lemma reorder_out_chain b a ng L p b' a' ng' out l k :
  BufInv b a L -> wf p -> reorder_post b a ng L p (RO b' a' ng' out l k) -> k <> KReset ->
  chain L out /\ l = skipped L out /\ span L out = l + Z.of_nat (length out) /\ 0 <= l /\
  exists e, 0 <= e <= 32768 /\ lastseq L out = w16 (L + e) /\ asc L 0 out e.
Proof.
  intros HI Hp R Hk. destruct (reorder_out_asc _ _ _ _ _ _ _ _ _ _ _ HI Hp R Hk) as (e & HA & He & Hl & _).
  destruct (asc_chain L out 0 e HA) as (Hc & Hs & Hsp & Hls & Hle); try lia.
  pose proof (bi_L _ _ _ HI). rewrite Z.add_0_r, (w16_small L) in * by lia.
  pose proof (skipped_nonneg out L).
  splits; auto; try lia. exists e. splits; auto; lia.
Qed.

(* ---------- the invariant is preserved; no Panic, no endless loop ---------- *)
Lemma inv_first s p : Inv s -> wf p -> first s = false -> Inv (first_st s p).
Proof.
  intros HI Hp Hf. destruct (iv_fresh s HI Hf) as (He & Hl & HlS & Hr & Hra).
  constructor; cbn [first_st last cycles unrel buf absPos neg first lost lostS recv ralS].
  - exact Hp.
  - exact (iv_cyc s HI).
  - intros Hu. destruct (iv_buf s HI Hu) as (HB & Hn). split; [|exact Hn].
    apply empty_inv; auto. exact (bi_pow _ _ _ HB). exact (bi_a _ _ _ HB).
  - discriminate.
  - lia.
Qed.

Lemma inv_counts s b a ng out l :
  Inv s -> first s = true -> 0 <= l -> (out = [] -> l = 0) ->
  let s' := acc_st s b a ng out l in
  0 <= lost s' /\ 0 <= lostS s' /\ 0 <= recv s' /\ (lostS s' < ralS s' \/ (lostS s' = 0 /\ ralS s' = 0)).
Proof.
  intros HI Hf Hl Ho. destruct (iv_cnt s HI) as (H1 & H2 & H3 & H4).
  cbn [acc_st lost lostS recv ralS].
  destruct out as [|q t]; [rewrite (Ho eq_refl); cbn [length]; lia|]. cbn [length]. lia.
Qed.

Lemma inv_rel s p : Inv s -> wf p -> first s = true -> unrel s = false ->
  Inv (acc_st s (buf s) (absPos s) (neg s) [p] (w16 (pseq p - last s - 1))).
Proof.
  intros HI Hp Hf Hu. pose proof (w16_range (pseq p - last s - 1)).
  constructor.
  - cbn [acc_st last lastseq]. exact Hp.
  - cbn [acc_st cycles]. apply upd_seq_cyc. exact (iv_cyc s HI).
  - cbn [acc_st unrel]. congruence.
  - cbn [acc_st first]. discriminate.
  - apply inv_counts; auto; try lia. discriminate.
Qed.

Lemma inv_unrel s p b a ng out l k : Inv s -> wf p -> first s = true -> unrel s = true ->
  reorder_post (buf s) (absPos s) (neg s) (last s) p (RO b a ng out l k) ->
  Inv (acc_st s b a ng out l).
Proof.
  intros HI Hp Hf Hu R. destruct (iv_buf s HI Hu) as (HB & Hn).
  pose proof (bi_pow _ _ _ HB) as HP. pose proof (pow2B_range _ HP) as HR.
  pose proof (bi_a _ _ _ HB) as Ha. pose proof (bi_L _ _ _ HB) as HL.
  pose proof (relpos_range (last s) p) as Hrr.
  assert (Hcnt : 0 <= l /\ (out = [] -> l = 0)).
  { destruct (kind_eq_dec k KReset) as [->|Hk].
    - destruct (rp_reset _ _ _ _ _ _ _ _ _ _ R) as (_ & _ & -> & -> & _). split; [lia|discriminate].
    - destruct (reorder_out_chain _ _ _ _ _ _ _ _ _ _ _ HB Hp R Hk) as (_ & Hs & _ & Hl0 & _).
      destruct (reorder_out_asc _ _ _ _ _ _ _ _ _ _ _ HB Hp R Hk) as (e & _ & _ & _ & H0).
      split; [exact Hl0|intros E; exact (proj1 (H0 E))]. }
  constructor.
  - (* last *)
    cbn [acc_st last]. destruct (kind_eq_dec k KReset) as [->|Hk].
    + destruct (rp_reset _ _ _ _ _ _ _ _ _ _ R) as (_ & _ & -> & _). cbn [lastseq]. exact Hp.
    + destruct (reorder_out_chain _ _ _ _ _ _ _ _ _ _ _ HB Hp R Hk) as (_ & _ & _ & _ & e & _ & -> & _).
      apply w16_range.
  - cbn [acc_st cycles]. apply upd_seq_cyc. exact (iv_cyc s HI).
  - (* buffer *)
    intros _. cbn [acc_st buf absPos last neg].
    destruct k; try (exfalso; destruct (rp_kind _ _ _ _ _ _ _ _ _ _ _ R); congruence).
    + (* behind *)
      destruct (rp_behind _ _ _ _ _ _ _ _ _ _ R) as (-> & -> & -> & -> & -> & _ & Hle).
      cbn [lastseq]. split; [exact HB|lia].
    + (* reset *)
      destruct (rp_reset _ _ _ _ _ _ _ _ _ _ R) as (-> & -> & -> & -> & _ & _ & Hl' & He).
      cbn [lastseq]. rewrite (bsize_eq _ _ Hl'). split; [|lia].
      apply empty_inv; auto; rewrite (bsize_eq _ _ Hl'); auto.
    + (* flush *)
      destruct (reorder_out_chain _ _ _ _ _ _ _ _ _ _ _ HB Hp R) as (_ & _ & _ & _ & e & _ & Hls & _);
        [discriminate|].
      destruct (rp_flush _ _ _ _ _ _ _ _ _ _ R) as (-> & -> & _ & _ & _ & Hl' & He).
      rewrite (bsize_eq _ _ Hl'). split; [|lia].
      apply empty_inv; auto; try (rewrite (bsize_eq _ _ Hl'); auto).
      rewrite Hls. apply w16_range.
    + (* store *)
      destruct (rp_store _ _ _ _ _ _ _ _ _ _ R) as (-> & -> & -> & -> & -> & Hr & Hv).
      cbn [lastseq]. rewrite bsize_nset. split; [|lia].
      set (B := bsize (buf s)) in *. set (r := relpos (last s) p) in *.
      constructor; rewrite ?bsize_nset; fold B; auto.
      * rewrite vw_nset_other; try lia. exact (bi_head _ _ _ HB).
      * intros j q Hj E. destruct (Z.eq_dec j r) as [->|Hne].
        -- rewrite vw_nset_same in E; [|lia|apply bsize_len]. injection E as <-.
           apply relpos_nonneg_seq; [assumption|fold r; lia].
        -- rewrite vw_nset_other in E; try lia. exact (bi_seq _ _ _ HB j q Hj E).
    + (* dup *)
      destruct (rp_dup _ _ _ _ _ _ _ _ _ _ R) as (-> & -> & -> & -> & -> & _).
      cbn [lastseq]. split; [exact HB|lia].
    + (* run *)
      destruct (reorder_out_chain _ _ _ _ _ _ _ _ _ _ _ HB Hp R) as (_ & _ & Hsp & _ & e & He & Hls & HA);
        [discriminate|].
      destruct (rp_run _ _ _ _ _ _ _ _ _ _ R) as (n & -> & -> & Eo & -> & H0 & Hn' & Hl' & Hall & Hend & Hcl & Hoth).
      set (B := bsize (buf s)) in *.
      destruct (pick_full_asc (Z.to_nat (n - 1)) (buf s) (absPos s) (last s) 1 HB) as (_ & HLn); try (fold B; lia).
      { intros j Hj. apply Hall. lia. }
      fold B in HLn.
      assert (En : e = n).
      { destruct (asc_chain _ _ _ _ HA) as (_ & _ & Hsp' & _ & _); try lia.
        rewrite Z.add_0_r, (w16_small (last s)) in Hsp' by lia. rewrite Hsp' in Hsp.
        rewrite Eo in Hsp. cbn [length] in Hsp. rewrite HLn in Hsp. lia. }
      subst e. rewrite Hls, (bsize_eq _ _ Hl'). fold B. split; [|lia].
      assert (Hmb : 0 <= (absPos s + n) mod B < B) by (apply Z.mod_pos_bound; lia).
      pose proof (bi_head _ _ _ HB) as Hh. fold B in Hh.
      constructor; rewrite ?(bsize_eq _ _ Hl'); fold B; auto.
      * apply w16_range.
      * (* the new head is the slot on which run_len stopped *)
        unfold vw. rewrite ix_shift, Z.add_0_r by lia.
        destruct (Z.eq_dec n B) as [En|Hne].
        -- replace n with (0 + B) by lia. rewrite ix_wrap by lia.
           fold (vw B (absPos s) b 0). rewrite Hoth by lia. exact (bi_head _ _ _ HB).
        -- fold (vw B (absPos s) b n). rewrite Hoth by lia. exact Hend.
      * intros j q Hj E. unfold vw in E. rewrite ix_shift in E by lia.
        destruct (Z.ltb_spec (n + j) B) as [Hlt|Hge].
        -- fold (vw B (absPos s) b (n + j)) in E. rewrite Hoth in E by lia.
           rewrite (bi_seq _ _ _ HB (n + j) q) by (assumption || lia). unfold w16. lia.
        -- exfalso. replace (n + j) with (n + j - B + B) in E by lia. rewrite ix_wrap in E by lia.
           fold (vw B (absPos s) b (n + j - B)) in E.
           destruct (Z.eq_dec (n + j - B) 0) as [E0|Hne].
           ++ rewrite E0, Hoth in E by lia. rewrite Hh in E. discriminate.
           ++ rewrite Hcl in E by lia. discriminate.
  - cbn [acc_st first]. discriminate.
  - apply inv_counts; tauto.
Qed.

Theorem process_ok s p : Inv s -> wf p ->
  exists s' out l k, process s p = Ok s' out l k /\ Inv s'.
Proof.
  intros HI Hp. pose proof (process_cases s p HI Hp) as C. inversion C; subst.
  - do 4 eexists. split; [reflexivity|]. now apply inv_first.
  - do 4 eexists. split; [reflexivity|]. now apply inv_rel.
  - do 4 eexists. split; [reflexivity|]. eapply inv_unrel; eauto.
Qed.

(* the initial state *)
Lemma inv_init u bs : (u = true -> pow2B (if bs =? 0 then default_bufsize else bs)) -> Inv (init u bs).
Proof.
  intros HP. unfold init. set (B := if bs =? 0 then default_bufsize else bs) in *.
  constructor; cbn [last cycles unrel buf absPos neg first lost lostS recv ralS]; try lia.
  - intros ->. specialize (HP eq_refl). pose proof (pow2B_range _ HP) as HR.
    assert (Hb : bsize (nrep None (Z.to_N B)) = B) by (unfold bsize; rewrite nlen_nrep; lia).
    split; [|lia]. apply empty_inv; rewrite ?Hb; auto; try lia. apply nrep_empty.
  - intros _. split; [|lia]. destruct u; [apply nrep_empty|]. intros q Hq. cbn in Hq. lia.
Qed.

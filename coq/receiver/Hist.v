(* Receiver (C14), part 3: whole histories (any number of packets, reports and Stats calls). *)
From GVL Require Import NList Wire Wrap.
From GV_receiver Require Import Model Proofs Steps.
From Coq Require Import ZifyBool ZifyNat ZifyN.
Open Scope Z_scope.

Definition is_restart (k : kind) : bool := match k with KReset | KFirst => true | _ => false end.

Lemma asc_wf L l : forall lo e, asc L lo l e -> Forall wf l.
Proof.
  induction l as [|p t IH]; intros lo e H; [constructor|]. cbn [asc] in H.
  destruct H as (j & _ & Hs & Ht). constructor; [|eapply IH; eauto].
  unfold wf. rewrite Hs. apply w16_range.
Qed.

(* ---------- everything later proofs need to know about one packet step ---------- *)
Record StepFacts (s : st) (p : pkt) (s1 : st) (out : list pkt) (l : Z) (k : kind) : Prop := {
  sf_unrel : unrel s1 = unrel s;
  sf_first : first s1 = true;
  sf_bsize : bsize (buf s1) = bsize (buf s);
  sf_last : last s1 = lastseq (last s) out;
  sf_lost : lost s1 = lost s + l;
  sf_lostS : lostS s1 = lostS s + l;
  sf_recv : recv s1 = recv s + Z.of_nat (length out);
  sf_ralS : ralS s1 = ralS s + Z.of_nat (length out) + l;
  sf_l : 0 <= l;
  sf_kfirst : k = KFirst <-> first s = false;
  sf_krel : first s = true -> (k = KReliable <-> unrel s = false);
  sf_restart : is_restart k = true -> out = [p] /\ l = 0;
  sf_skip : is_restart k = false -> l = skipped (last s) out;
  sf_chain : is_restart k = false -> unrel s = true -> chain (last s) out;
  sf_rel : k = KReliable -> out = [p];
  sf_ext : is_restart k = false -> (k = KReliable -> l <= 61439) ->
           w32 (ext s1) = w32 (ext s + l + Z.of_nat (length out));
  sf_neg : unrel s = true ->
           match k with
           | KBehind => neg s1 = neg s + 1 /\ neg s + 1 <= bsize (buf s)
           | KReset => bsize (buf s) < neg s + 1 /\ neg s1 = 0
           | KFirst => neg s1 = neg s
           | _ => neg s1 = 0
           end;
  sf_wfout : Forall wf out }.

Lemma step_facts s p s1 out l k : Inv s -> wf p -> process s p = Ok s1 out l k -> StepFacts s p s1 out l k.
Proof.
  intros HI Hp E. pose proof (process_cases s p HI Hp) as C. rewrite E in C.
  inversion C as [Hf|Hf Hu|b a ng out' l' k' Hf Hu R]; subst.
  - (* first packet *)
    destruct (iv_fresh s HI Hf) as (_ & Hl & HlS & Hr & Hra).
    constructor; cbn [first_st unrel first buf last lost lostS recv ralS neg lastseq length is_restart];
      try reflexivity; try lia; try tauto; try discriminate.
    constructor; auto.
  - (* reliable *)
    pose proof (w16_range (pseq p - last s - 1)) as Hw.
    constructor; cbn [acc_st unrel first buf last lost lostS recv ralS neg lastseq length is_restart skipped];
      try reflexivity; try lia; try tauto; try discriminate; try congruence.
    + split; [discriminate|congruence].
    + intros _ Hl. specialize (Hl eq_refl). unfold ext. cbn [acc_st cycles last].
      pose proof (iv_last s HI) as HL. unfold wf in Hp.
      rewrite (upd_seq_ext [p] (cycles s) (last s)); auto.
      * cbn [span]. f_equal. unfold w16 in *. lia.
      * cbn [gchain]. split; [|exact I]. unfold w16 in *. lia.
    + constructor; auto.
  - (* unreliable *)
    destruct (iv_buf s HI Hu) as (HB & Hn).
    destruct (rp_kind _ _ _ _ _ _ _ _ _ _ _ R) as (Hk1 & Hk2).
    assert (Hrest : forall X : Prop, (k = KReset -> X) -> (k <> KReset -> is_restart k = false -> X) -> X).
    { intros X H1 H2. destruct (kind_eq_dec k KReset) as [->|Hne]; [auto|]. apply H2; auto.
      destruct k; try reflexivity; congruence. }
    constructor; cbn [acc_st unrel first buf last lost lostS recv ralS neg]; try reflexivity; try lia.
    + (* bsize *)
      destruct k; try congruence.
      * destruct (rp_behind _ _ _ _ _ _ _ _ _ _ R) as (-> & _); reflexivity.
      * destruct (rp_reset _ _ _ _ _ _ _ _ _ _ R) as (_ & _ & _ & _ & _ & _ & Hl' & _). now apply bsize_eq.
      * destruct (rp_flush _ _ _ _ _ _ _ _ _ _ R) as (_ & _ & _ & _ & _ & Hl' & _). now apply bsize_eq.
      * destruct (rp_store _ _ _ _ _ _ _ _ _ _ R) as (-> & _). apply bsize_nset.
      * destruct (rp_dup _ _ _ _ _ _ _ _ _ _ R) as (-> & _); reflexivity.
      * destruct (rp_run _ _ _ _ _ _ _ _ _ _ R) as (n & _ & _ & _ & _ & _ & _ & Hl' & _). now apply bsize_eq.
    + (* 0 <= l *)
      apply Hrest.
      * intros ->. destruct (rp_reset _ _ _ _ _ _ _ _ _ _ R) as (_ & _ & _ & -> & _). lia.
      * intros Hne _. destruct (reorder_out_chain _ _ _ _ _ _ _ _ _ _ _ HB Hp R Hne) as (_ & _ & _ & H0 & _). exact H0.
    + split; congruence.
    + intros _. split; congruence.
    + intros Hr. destruct k; try discriminate; try congruence.
      destruct (rp_reset _ _ _ _ _ _ _ _ _ _ R) as (_ & _ & -> & -> & _). auto.
    + intros Hr. assert (Hne : k <> KReset) by (intros ->; discriminate).
      destruct (reorder_out_chain _ _ _ _ _ _ _ _ _ _ _ HB Hp R Hne) as (_ & H0 & _). exact H0.
    + intros Hr _. assert (Hne : k <> KReset) by (intros ->; discriminate).
      destruct (reorder_out_chain _ _ _ _ _ _ _ _ _ _ _ HB Hp R Hne) as (H0 & _). exact H0.
    + congruence.
    + intros Hr _. assert (Hne : k <> KReset) by (intros ->; discriminate).
      destruct (reorder_out_chain _ _ _ _ _ _ _ _ _ _ _ HB Hp R Hne) as (Hc & _ & Hsp & _ & e & _ & _ & HA).
      unfold ext. cbn [acc_st cycles last].
      rewrite (upd_seq_ext out (cycles s) (last s)).
      * f_equal. lia.
      * exact (iv_last s HI).
      * eapply asc_wf; eauto.
      * eapply gchain_mono; [|apply chain_gchain; exact Hc]. lia.
    + intros _. destruct k; try congruence.
      * destruct (rp_behind _ _ _ _ _ _ _ _ _ _ R) as (_ & _ & -> & _ & _ & _ & Hle). auto.
      * destruct (rp_reset _ _ _ _ _ _ _ _ _ _ R) as (_ & -> & _ & _ & _ & Hlt & _). auto.
      * destruct (rp_flush _ _ _ _ _ _ _ _ _ _ R) as (_ & -> & _). reflexivity.
      * destruct (rp_store _ _ _ _ _ _ _ _ _ _ R) as (_ & _ & -> & _). reflexivity.
      * destruct (rp_dup _ _ _ _ _ _ _ _ _ _ R) as (_ & _ & -> & _). reflexivity.
      * destruct (rp_run _ _ _ _ _ _ _ _ _ _ R) as (n & _ & -> & _). reflexivity.
    + apply Hrest.
      * intros ->. destruct (rp_reset _ _ _ _ _ _ _ _ _ _ R) as (_ & _ & -> & _). constructor; auto.
      * intros Hne _. destruct (reorder_out_chain _ _ _ _ _ _ _ _ _ _ _ HB Hp R Hne) as (_ & _ & _ & _ & e & _ & _ & HA).
        eapply asc_wf; eauto.
Qed.

(* ---------- reports ---------- *)
Lemma lor_shift c l : 0 <= c < 65536 -> 0 <= l < 65536 -> Z.lor (w32 (Z.shiftl c 16)) l = c * 65536 + l.
Proof.
  intros Hc Hl. rewrite Z.shiftl_mul_pow2 by lia. change (2 ^ 16) with 65536.
  rewrite w32_small by lia.
  assert (Hz : Z.land (c * 65536) l = 0).
  { destruct (Z.eq_dec l 0) as [->|Hne]; [apply Z.land_0_r|].
    apply Z.bits_inj'. intros m Hm. rewrite Z.land_spec, Z.bits_0.
    destruct (Z.ltb_spec m 16).
    - change 65536 with (2 ^ 16). rewrite <- Z.shiftl_mul_pow2 by lia.
      rewrite Z.shiftl_spec_low by lia. reflexivity.
    - rewrite (Z.bits_above_log2 l m); [apply andb_false_r|lia|].
      assert (Z.log2 l < 16) by (apply Z.log2_lt_pow2; lia). lia. }
  rewrite <- Z.lxor_lor by exact Hz. symmetry. now apply Z.add_nocarry_lxor.
Qed.

Definition fraction_of (lS rS : Z) : Z := if rS =? 0 then 0 else (Z.min lS 16777215 * 256) / rS.

Lemma report_spec s : Inv s ->
  (first s = false -> report s = None) /\
  (first s = true -> exists s' bl, report s = Some (s', bl) /\ Inv s' /\
     b_ext bl = ext s /\
     b_total bl = Z.min (lost s) 16777215 /\
     b_fraction bl = fraction_of (lostS s) (ralS s) /\ 0 <= b_fraction bl < 256 /\
     unrel s' = unrel s /\ first s' = true /\ buf s' = buf s /\ absPos s' = absPos s /\ neg s' = neg s /\
     cycles s' = cycles s /\ last s' = last s /\ lost s' = lost s /\ recv s' = recv s /\
     lostS s' = 0 /\ ralS s' = 0).
Proof.
  intros HI. unfold report. split; intros Hf; rewrite Hf; cbn [negb]; [reflexivity|].
  destruct (iv_cnt s HI) as (H1 & H2 & H3 & H4).
  assert (Hfr : 0 <= fraction_of (lostS s) (ralS s) < 256).
  { unfold fraction_of. destruct (Z.eqb_spec (ralS s) 0); [lia|].
    assert (0 < ralS s) by lia.
    split; [apply Z.div_pos; lia|]. apply Z.div_lt_upper_bound; lia. }
  do 2 eexists. split; [reflexivity|].
  cbn [b_ext b_total b_fraction unrel first buf absPos neg cycles last lost recv lostS ralS].
  assert (Hw8 : (if ralS s =? 0 then 0 else w8 (Z.min (lostS s) 16777215 * 256 / ralS s))
                = fraction_of (lostS s) (ralS s)).
  { unfold fraction_of in *. destruct (ralS s =? 0); [reflexivity|]. unfold w8. apply Z.mod_small. lia. }
  rewrite Hw8.
  splits; try reflexivity; try lia.
  - constructor; cbn [last cycles unrel buf absPos neg first lost lostS recv ralS];
      try apply HI; try lia; try (intros Hf'; congruence).
  - unfold ext. apply lor_shift; [exact (iv_cyc s HI)|exact (iv_last s HI)].
  - apply w32_small. lia.
Qed.

(* ---------- induction over histories ---------- *)
Definition ops_wf (ops : list op) : Prop :=
  Forall (fun o => match o with OPkt p => wf p | _ => True end) ops.

Section HistInd.
Variable P : st -> list ev -> st -> Prop.
Hypothesis Pnil : forall s, Inv s -> P s [] s.
Hypothesis Ppkt : forall s p s1 out l k evs s', Inv s -> wf p -> process s p = Ok s1 out l k -> Inv s1 ->
  StepFacts s p s1 out l k -> P s1 evs s' -> P s (EPkt p out l k :: evs) s'.
Hypothesis Prep : forall s s1 bl evs s', Inv s -> first s = true -> report s = Some (s1, bl) -> Inv s1 ->
  P s1 evs s' -> P s (EReport (Some bl) :: evs) s'.
Hypothesis Prep0 : forall s evs s', Inv s -> first s = false -> P s evs s' -> P s (EReport None :: evs) s'.
Hypothesis Pstats : forall s evs s', Inv s -> P s evs s' -> P s (EStats (stats s) :: evs) s'.

Lemma hist_ind ops : forall s s' evs, Inv s -> ops_wf ops -> run_ops s ops = (s', evs) -> P s evs s'.
Proof.
  induction ops as [|o t IH]; intros s s' evs HI Hw E; cbn [run_ops] in E.
  - injection E as <- <-. now apply Pnil.
  - inversion Hw as [|? ? Ho Ht]; subst. destruct o as [p| |].
    + destruct (process_ok s p HI Ho) as (s1 & out & l & k & Ep & HI1). rewrite Ep in E.
      destruct (run_ops s1 t) as [s2 es] eqn:Er. injection E as <- <-.
      eapply Ppkt; eauto. now apply step_facts.
    + destruct (report_spec s HI) as (R0 & R1). destruct (first s) eqn:Hf.
      * destruct (R1 eq_refl) as (s1 & bl & Er & HI1 & _). rewrite Er in E.
        destruct (run_ops s1 t) as [s2 es] eqn:Er2. injection E as <- <-. eapply Prep; eauto.
      * rewrite (R0 eq_refl) in E. destruct (run_ops s t) as [s2 es] eqn:Er2. injection E as <- <-.
        eapply Prep0; eauto.
    + destruct (run_ops s t) as [s2 es] eqn:Er2. injection E as <- <-. eapply Pstats; eauto.
Qed.
End HistInd.

(* ---------- projections of a trace ---------- *)
Definition ev_deliv (e : ev) : list (pkt * bool) :=
  match e with EPkt _ out _ k => map (fun q => (q, is_restart k)) out | _ => [] end.
Definition deliv (evs : list ev) : list (pkt * bool) := flat_map ev_deliv evs.
Definition ev_lost (e : ev) : Z := match e with EPkt _ _ l _ => l | _ => 0 end.
Fixpoint total_lost (evs : list ev) : Z :=
  match evs with [] => 0 | e :: t => ev_lost e + total_lost t end.
Definition clean (evs : list ev) : Prop := Forall (fun e => e <> EPanic /\ e <> EHang) evs.
Fixpoint kinds (evs : list ev) : list kind :=
  match evs with [] => [] | EPkt _ _ _ k :: t => k :: kinds t | _ :: t => kinds t end.

(* consecutive deliveries, a packet delivered as a (re)start is exempt *)
Fixpoint fchain (prev : Z) (d : list (pkt * bool)) : Prop :=
  match d with
  | [] => True
  | (p, r) :: t => (r = false -> 1 <= w16 (pseq p - prev) <= 32768) /\ fchain (pseq p) t
  end.
Fixpoint fskipped (prev : Z) (d : list (pkt * bool)) : Z :=
  match d with
  | [] => 0
  | (p, r) :: t => (if r then 0 else w16 (pseq p - prev - 1)) + fskipped (pseq p) t
  end.
Fixpoint flast (prev : Z) (d : list (pkt * bool)) : Z :=
  match d with [] => prev | (p, _) :: t => flast (pseq p) t end.

Lemma fchain_app_plain out : forall prev rest, chain prev out -> fchain (lastseq prev out) rest ->
  fchain prev (map (fun q => (q, false)) out ++ rest).
Proof.
  induction out as [|p t IH]; intros prev rest Hc Hr; cbn [map app chain lastseq fchain] in *; [exact Hr|].
  destruct Hc as (Hg & Hc). split; [intros _; exact Hg|]. now apply IH.
Qed.
Lemma fskipped_app_plain out : forall prev rest,
  fskipped prev (map (fun q => (q, false)) out ++ rest) = skipped prev out + fskipped (lastseq prev out) rest.
Proof.
  induction out as [|p t IH]; intros prev rest; cbn [map app skipped lastseq fskipped]; [lia|].
  rewrite IH. lia.
Qed.
Lemma flast_app_plain out b : forall prev rest,
  flast prev (map (fun q => (q, b)) out ++ rest) = flast (lastseq prev out) rest.
Proof. induction out as [|p t IH]; intros prev rest; cbn [map app lastseq flast]; [reflexivity|apply IH]. Qed.

(* ---------- T0: no panic, no endless loop, invariant at the end ---------- *)
Theorem run_ops_ok ops s s' evs : Inv s -> ops_wf ops -> run_ops s ops = (s', evs) ->
  Inv s' /\ clean evs /\ length evs = length ops.
Proof.
  intros HI Hw E. revert s s' evs HI E. induction ops as [|o t IH]; intros s s' evs HI E; cbn [run_ops] in E.
  - injection E as <- <-. splits; auto. constructor.
  - inversion Hw as [|? ? Ho Ht]; subst. specialize (IH Ht). destruct o as [p| |].
    + destruct (process_ok s p HI Ho) as (s1 & out & l & k & Ep & HI1). rewrite Ep in E.
      destruct (run_ops s1 t) as [s2 es] eqn:Er. injection E as <- <-.
      destruct (IH _ _ _ HI1 Er) as (A & B & C). splits; auto; [|cbn [length]; lia].
      constructor; auto. split; discriminate.
    + destruct (report_spec s HI) as (R0 & R1). destruct (first s) eqn:Hf.
      * destruct (R1 eq_refl) as (s1 & bl & Er & HI1 & _). rewrite Er in E.
        destruct (run_ops s1 t) as [s2 es] eqn:Er2. injection E as <- <-.
        destruct (IH _ _ _ HI1 Er2) as (A & B & C). splits; auto; [|cbn [length]; lia].
        constructor; auto. split; discriminate.
      * rewrite (R0 eq_refl) in E. destruct (run_ops s t) as [s2 es] eqn:Er2. injection E as <- <-.
        destruct (IH _ _ _ HI Er2) as (A & B & C). splits; auto; [|cbn [length]; lia].
        constructor; auto. split; discriminate.
    + destruct (run_ops s t) as [s2 es] eqn:Er2. injection E as <- <-.
      destruct (IH _ _ _ HI Er2) as (A & B & C). splits; auto; [|cbn [length]; lia].
      constructor; auto. split; discriminate.
Qed.

(* ---------- T1: deliveries are strictly increasing modulo 2^16 except at detected restarts ---------- *)
Theorem delivery_increasing ops s s' evs : Inv s -> ops_wf ops -> run_ops s ops = (s', evs) ->
  unrel s = true -> forall prev, (first s = true -> prev = last s) -> fchain prev (deliv evs).
Proof.
  revert ops s s' evs. apply (hist_ind (fun s evs s' =>
    unrel s = true -> forall prev, (first s = true -> prev = last s) -> fchain prev (deliv evs))).
  - intros; exact I.
  - intros s p s1 out l k evs s' HI Hp Ep HI1 F IH Hu prev Hprev.
    unfold deliv. cbn [flat_map ev_deliv]. fold (deliv evs).
    assert (IH' : fchain (last s1) (deliv evs)).
    { apply IH; [rewrite (sf_unrel _ _ _ _ _ _ F); exact Hu|reflexivity]. }
    rewrite (sf_last _ _ _ _ _ _ F) in IH'.
    destruct (is_restart k) eqn:Hr.
    + destruct (sf_restart _ _ _ _ _ _ F Hr) as (-> & _). cbn [map app fchain lastseq] in *.
      split; [discriminate|exact IH'].
    + assert (Hf : first s = true).
      { destruct (first s) eqn:Hf; [reflexivity|]. apply (sf_kfirst _ _ _ _ _ _ F) in Hf. subst k. discriminate. }
      rewrite (Hprev Hf). apply fchain_app_plain; [|exact IH']. exact (sf_chain _ _ _ _ _ _ F Hr Hu).
  - intros s s1 bl evs s' HI Hf Er HI1 IH Hu prev Hprev. cbn.
    destruct (report_spec s HI) as (_ & R1). destruct (R1 Hf) as (s1' & bl' & Er' & _ & _ & _ & _ & _ & Hu' & Hf' & _ & _ & _ & _ & Hl' & _).
    rewrite Er in Er'. injection Er' as <- <-.
    apply IH; [congruence|]. intros _. rewrite Hl'. auto.
  - intros s evs s' HI Hf IH Hu prev Hprev. cbn. apply IH; auto.
  - intros s evs s' HI IH Hu prev Hprev. cbn. apply IH; auto.
Qed.

(* ---------- T2: a restart is only detected after more than B consecutive packets behind the head ---------- *)
Fixpoint neg_ok (B n : Z) (ks : list kind) : Prop :=
  match ks with
  | [] => True
  | KBehind :: t => n + 1 <= B /\ neg_ok B (n + 1) t
  | KReset :: t => B < n + 1 /\ neg_ok B 0 t
  | KFirst :: t => neg_ok B n t
  | _ :: t => neg_ok B 0 t
  end.

Theorem restart_detection ops s s' evs : Inv s -> ops_wf ops -> run_ops s ops = (s', evs) ->
  unrel s = true -> neg_ok (bsize (buf s)) (neg s) (kinds evs).
Proof.
  revert ops s s' evs. apply (hist_ind (fun s evs s' => unrel s = true -> neg_ok (bsize (buf s)) (neg s) (kinds evs))).
  - intros; exact I.
  - intros s p s1 out l k evs s' HI Hp Ep HI1 F IH Hu. cbn [kinds].
    assert (IH' := IH (eq_trans (sf_unrel _ _ _ _ _ _ F) Hu)).
    rewrite (sf_bsize _ _ _ _ _ _ F) in IH'. pose proof (sf_neg _ _ _ _ _ _ F Hu) as Hn.
    destruct k; cbn [neg_ok]; try (rewrite Hn in IH'; exact IH').
    + destruct Hn as (Hn & Hle). rewrite Hn in IH'. auto.
    + destruct Hn as (Hlt & Hn). rewrite Hn in IH'. auto.
  - intros s s1 bl evs s' HI Hf Er HI1 IH Hu. cbn [kinds].
    destruct (report_spec s HI) as (_ & R1). destruct (R1 Hf) as (s1' & bl' & Er' & _ & _ & _ & _ & _ & Hu' & _ & Hb' & _ & Hn' & _).
    rewrite Er in Er'. injection Er' as <- <-. rewrite <- Hb', <- Hn'. apply IH. congruence.
  - intros s evs s' HI Hf IH Hu. cbn [kinds]. auto.
  - intros s evs s' HI IH Hu. cbn [kinds]. auto.
Qed.

(* ---------- T3: loss accounting and statistics ---------- *)
Theorem loss_exact ops s s' evs : Inv s -> ops_wf ops -> run_ops s ops = (s', evs) ->
  forall prev, (first s = true -> prev = last s) ->
  lost s' = lost s + total_lost evs /\
  total_lost evs = fskipped prev (deliv evs) /\
  recv s' = recv s + Z.of_nat (length (deliv evs)) /\
  (first s' = true -> last s' = flast (last s) (deliv evs)).
Proof.
  revert ops s s' evs. apply (hist_ind (fun s evs s' =>
    forall prev, (first s = true -> prev = last s) ->
    lost s' = lost s + total_lost evs /\ total_lost evs = fskipped prev (deliv evs) /\
    recv s' = recv s + Z.of_nat (length (deliv evs)) /\
    (first s' = true -> last s' = flast (last s) (deliv evs)))).
  - intros s HI prev _. cbn. splits; auto; lia.
  - intros s p s1 out l k evs s' HI Hp Ep HI1 F IH prev Hprev.
    unfold deliv. cbn [flat_map ev_deliv total_lost ev_lost]. fold (deliv evs).
    destruct (IH (last s1) (fun _ => eq_refl)) as (A & B & C & D).
    rewrite (sf_lost _ _ _ _ _ _ F) in A. rewrite (sf_recv _ _ _ _ _ _ F) in C.
    rewrite (sf_last _ _ _ _ _ _ F) in B, D.
    rewrite app_length, map_length, flast_app_plain.
    splits; try lia; auto.
    destruct (is_restart k) eqn:Hr.
    + destruct (sf_restart _ _ _ _ _ _ F Hr) as (-> & ->). cbn [map app fskipped lastseq] in *. lia.
    + assert (Hf : first s = true).
      { destruct (first s) eqn:Hf; [reflexivity|]. apply (sf_kfirst _ _ _ _ _ _ F) in Hf. subst k. discriminate. }
      rewrite (Hprev Hf), fskipped_app_plain, <- B, <- (sf_skip _ _ _ _ _ _ F Hr). reflexivity.
  - intros s s1 bl evs s' HI Hf Er HI1 IH prev Hprev. cbn [total_lost ev_lost]. unfold deliv; cbn [flat_map ev_deliv app]; fold (deliv evs).
    destruct (report_spec s HI) as (_ & R1).
    destruct (R1 Hf) as (s1' & bl' & Er' & _ & _ & _ & _ & _ & _ & Hf' & _ & _ & _ & _ & Hl' & Hlo' & Hre' & _).
    rewrite Er in Er'. injection Er' as <- <-.
    destruct (IH prev) as (A & B & C & D); [intros _; rewrite Hl'; auto|].
    rewrite Hlo' in A. rewrite Hre' in C. rewrite Hl' in D. splits; auto; lia.
  - intros s evs s' HI Hf IH prev Hprev. cbn [total_lost ev_lost]. unfold deliv; cbn [flat_map ev_deliv app]; fold (deliv evs).
    destruct (IH prev Hprev) as (A & B & C & D). splits; auto; lia.
  - intros s evs s' HI IH prev Hprev. cbn [total_lost ev_lost]. unfold deliv; cbn [flat_map ev_deliv app]; fold (deliv evs).
    destruct (IH prev Hprev) as (A & B & C & D). splits; auto; lia.
Qed.

(* reliable transport: every packet is handed over at once and alone, lost = uint16(seq - last - 1) *)
Theorem reliable_step s p : Inv s -> wf p -> unrel s = false -> first s = true ->
  exists s1, process s p = Ok s1 [p] (w16 (pseq p - last s - 1)) KReliable /\ last s1 = pseq p.
Proof.
  intros HI Hp Hu Hf. pose proof (process_cases s p HI Hp) as C.
  inversion C as [Hf'|Hf' Hu' E|b a ng out' l' k' Hf' Hu' R]; try congruence.
  eexists. split; [reflexivity|]. reflexivity.
Qed.

(* ---------- T4: what the reports contain ---------- *)
Fixpoint since_lost (a : Z) (evs : list ev) : Z :=
  match evs with
  | [] => a
  | EReport (Some _) :: t => since_lost 0 t
  | e :: t => since_lost (a + ev_lost e) t
  end.
Definition ev_count (e : ev) : Z := match e with EPkt _ out l _ => Z.of_nat (length out) + l | _ => 0 end.
Fixpoint since_ral (a : Z) (evs : list ev) : Z :=
  match evs with
  | [] => a
  | EReport (Some _) :: t => since_ral 0 t
  | e :: t => since_ral (a + ev_count e) t
  end.

Theorem since_report_counters ops s s' evs : Inv s -> ops_wf ops -> run_ops s ops = (s', evs) ->
  lostS s' = since_lost (lostS s) evs /\ ralS s' = since_ral (ralS s) evs.
Proof.
  revert ops s s' evs. apply (hist_ind (fun s evs s' =>
    lostS s' = since_lost (lostS s) evs /\ ralS s' = since_ral (ralS s) evs)).
  - intros; cbn; auto.
  - intros s p s1 out l k evs s' HI Hp Ep HI1 F (A & B). cbn [since_lost since_ral ev_lost ev_count].
    rewrite (sf_lostS _ _ _ _ _ _ F) in A. rewrite (sf_ralS _ _ _ _ _ _ F) in B.
    split; [exact A|]. rewrite B. f_equal. lia.
  - intros s s1 bl evs s' HI Hf Er HI1 (A & B). cbn [since_lost since_ral].
    destruct (report_spec s HI) as (_ & R1).
    destruct (R1 Hf) as (s1' & bl' & Er' & _ & _ & _ & _ & _ & _ & _ & _ & _ & _ & _ & _ & _ & _ & HlS & HrS).
    rewrite Er in Er'. injection Er' as <- <-. rewrite HlS in A. rewrite HrS in B. auto.
  - intros s evs s' HI Hf (A & B). cbn [since_lost since_ral ev_lost ev_count].
    rewrite !Z.add_0_r. auto.
  - intros s evs s' HI (A & B). cbn [since_lost since_ral ev_lost ev_count]. rewrite !Z.add_0_r. auto.
Qed.

(* the extended highest sequence number advances by exactly the sequence numbers spanned
   (deliveries + losses), as long as no restart is detected and, on a reliable transport,
   forward gaps stay within 1..61440 (the domain of the code's cycle heuristic) *)
Definition no_reset (evs : list ev) : Prop := Forall (fun k => k <> KReset) (kinds evs).
Definition rel_gaps_ok (evs : list ev) : Prop :=
  Forall (fun e => match e with EPkt _ _ l KReliable => l <= 61439 | _ => True end) evs.

Theorem ext_tracks ops s s' evs : Inv s -> ops_wf ops -> run_ops s ops = (s', evs) ->
  first s = true -> no_reset evs -> rel_gaps_ok evs ->
  w32 (ext s') = w32 (ext s + (recv s' - recv s) + (lost s' - lost s)).
Proof.
  revert ops s s' evs. apply (hist_ind (fun s evs s' =>
    first s = true -> no_reset evs -> rel_gaps_ok evs ->
    w32 (ext s') = w32 (ext s + (recv s' - recv s) + (lost s' - lost s)))).
  - intros s HI _ _ _. f_equal. lia.
  - intros s p s1 out l k evs s' HI Hp Ep HI1 F IH Hf Hnr Hrg.
    unfold no_reset in Hnr. cbn [kinds] in Hnr. inversion Hnr as [|? ? Hk Hnr']; subst.
    inversion Hrg as [|? ? Hg Hrg']; subst.
    rewrite (IH (sf_first _ _ _ _ _ _ F) Hnr' Hrg').
    assert (Hr : is_restart k = false).
    { destruct k; try reflexivity; try congruence. exfalso.
      assert (first s = false) by (apply (sf_kfirst _ _ _ _ _ _ F); reflexivity). congruence. }
    assert (Hg' : k = KReliable -> l <= 61439) by (intros ->; exact Hg).
    pose proof (sf_ext _ _ _ _ _ _ F Hr Hg') as He.
    set (X := (recv s' - recv s1) + (lost s' - lost s1)).
    replace (ext s1 + (recv s' - recv s1) + (lost s' - lost s1)) with (ext s1 + X) by (unfold X; lia).
    rewrite <- w32_add_l, He, w32_add_l. f_equal. unfold X.
    rewrite (sf_recv _ _ _ _ _ _ F), (sf_lost _ _ _ _ _ _ F). lia.
  - intros s s1 bl evs s' HI Hf Er HI1 IH _ Hnr Hrg.
    destruct (report_spec s HI) as (_ & R1).
    destruct (R1 Hf) as (s1' & bl' & Er' & _ & _ & _ & _ & _ & _ & Hf' & _ & _ & _ & Hc' & Hl' & Hlo' & Hre' & _).
    rewrite Er in Er'. injection Er' as <- <-.
    inversion Hrg; subst. rewrite IH; auto. unfold ext. rewrite Hc', Hl', Hlo', Hre'. reflexivity.
  - intros s evs s' HI Hf IH Hf'. congruence.
  - intros s evs s' HI IH Hf Hnr Hrg. inversion Hrg; subst. apply IH; auto.
Qed.

(* C14 — statements only.  Each theorem is closed by [exact] of a lemma proved in
   Proofs.v / Steps.v / Hist.v / Fate.v / Top.v and followed by Print Assumptions.
   Vocabulary (all defined in Model.v / Hist.v / Fate.v):
     run_ops s ops = (s', evs)   the receiver fed with packets / report() / Stats() calls
     deliv evs                    the packets handed to the application, in order, each flagged "delivered as a
                                  (re)start" (first packet ever, or the reset branch of reorder)
     fchain / fskipped            consecutive deliveries have forward gap 1..2^15 mod 2^16 / skipped numbers
     okB bs                       the configured BufferSize (0 = default 64) is 2^k, k <= 15 (1 .. 32768; after fix
                                  9dc1449 the flush test is int(relPos) >= len(buffer), so 32768 is covered too) *)
From GVL Require Import NList Wire Wrap.
From GVG Require Import Kern.
From GV_receiver Require Import Model Proofs Steps Hist Fate Top Bridge.
Open Scope Z_scope.

(* inv_reachable: for every transport, every power-of-two buffer size, every history of well-formed
   packets, reports and Stats calls: no panic (every index is in range), the scan loop of reorder
   terminates (it has no bound of its own in the code), the invariant holds at the end. *)
Theorem C14_receiver_inv_reachable : forall u bs ops s' evs,
  (u = true -> okB bs) -> ops_wf ops -> run_ops (init u bs) ops = (s', evs) ->
  Inv s' /\ clean evs /\ length evs = length ops.
Proof. exact top_inv_reachable. Qed.
Print Assumptions C14_receiver_inv_reachable.

(* delivery_strictly_increasing: on the unreliable transport consecutive delivered packets b after a
   satisfy 1 <= (seq b - seq a) mod 2^16 <= 2^15 — no duplicate, no reordering, across any number of
   wraps — except for a packet delivered by the restart branch. *)
Theorem C14_receiver_delivery_strictly_increasing : forall bs ops s' evs,
  okB bs -> ops_wf ops -> run_ops (init true bs) ops = (s', evs) -> fchain 0 (deliv evs).
Proof. exact top_delivery_increasing. Qed.
Print Assumptions C14_receiver_delivery_strictly_increasing.

(* restart_detected_only_if: the restart branch is taken only by the (B+1)-th consecutive packet that is
   behind the head (the sequence of branch kinds is accepted by the counter automaton neg_ok). *)
Theorem C14_receiver_restart_detected_only_if : forall bs ops s' evs,
  okB bs -> ops_wf ops -> run_ops (init true bs) ops = (s', evs) -> neg_ok (eff_size bs) 0 (kinds evs).
Proof. exact top_restart_detection. Qed.
Print Assumptions C14_receiver_restart_detected_only_if.

(* loss_exact: on every transport the per-packet lost values add up to the sequence numbers skipped between
   consecutive deliveries (restart deliveries start a new segment); Stats() reports exactly these. *)
Theorem C14_receiver_loss_exact : forall u bs ops s' evs,
  (u = true -> okB bs) -> ops_wf ops -> run_ops (init u bs) ops = (s', evs) ->
  lost s' = total_lost evs /\ total_lost evs = fskipped 0 (deliv evs) /\
  recv s' = Z.of_nat (length (deliv evs)) /\
  (first s' = true ->
     stats s' = Some (Z.of_nat (length (deliv evs)), fskipped 0 (deliv evs), flast 0 (deliv evs))).
Proof. exact top_loss_exact. Qed.
Print Assumptions C14_receiver_loss_exact.

(* reliable transport, one packet: handed over at once and alone, lost = uint16(seq - last - 1) *)
Theorem C14_receiver_loss_exact_reliable_step : forall s p, Inv s -> wf p -> unrel s = false -> first s = true ->
  exists s1, process s p = Ok s1 [p] (w16 (pseq p - last s - 1)) KReliable /\ last s1 = pseq p.
Proof. exact reliable_step. Qed.
Print Assumptions C14_receiver_loss_exact_reliable_step.

(* loss is only ever reported by an overflow flush, which needs a packet >= B ahead of the next expected one *)
Theorem C14_receiver_loss_only_by_flush : forall s p s1 out l k,
  Inv s -> wf p -> first s = true -> unrel s = true -> process s p = Ok s1 out l k -> 0 < l ->
  k = KFlush /\ bsize (buf s) <= relpos (last s) p.
Proof. exact loss_only_by_flush. Qed.
Print Assumptions C14_receiver_loss_only_by_flush.

(* report_agrees (block): extended highest = cycles*2^16 + last, cumulative loss clamped to 24 bits,
   fraction = floor(min(lostSince,2^24-1)*256 / (received+lost since last report)), which is < 256 so the
   uint8 conversion loses nothing; the since-report counters are cleared. *)
Theorem C14_receiver_report_block : forall s, Inv s ->
  (first s = false -> report s = None) /\
  (first s = true -> exists s' bl, report s = Some (s', bl) /\ Inv s' /\
     b_ext bl = ext s /\
     b_total bl = Z.min (lost s) 16777215 /\
     b_fraction bl = fraction_of (lostS s) (ralS s) /\ 0 <= b_fraction bl < 256 /\
     unrel s' = unrel s /\ first s' = true /\ buf s' = buf s /\ absPos s' = absPos s /\ neg s' = neg s /\
     cycles s' = cycles s /\ last s' = last s /\ lost s' = lost s /\ recv s' = recv s /\
     lostS s' = 0 /\ ralS s' = 0).
Proof. exact report_spec. Qed.
Print Assumptions C14_receiver_report_block.

(* report_agrees (since-report counters): they are the sums over the events after the last report *)
Theorem C14_receiver_report_since_counters : forall ops s s' evs,
  Inv s -> ops_wf ops -> run_ops s ops = (s', evs) ->
  lostS s' = since_lost (lostS s) evs /\ ralS s' = since_ral (ralS s) evs.
Proof. exact since_report_counters. Qed.
Print Assumptions C14_receiver_report_since_counters.

(* report_agrees (extended sequence number): first sequence number + (deliveries - 1) + losses, modulo 2^32,
   as long as no restart is detected and (reliable transport only) every forward gap is within 1..61440,
   the exact domain of the code's "diff < -0x0FFF" cycle heuristic. *)
Theorem C14_receiver_report_extended_seq : forall u bs p0 ops s' evs,
  (u = true -> okB bs) -> wf p0 -> ops_wf ops ->
  run_ops (init u bs) (OPkt p0 :: ops) = (s', evs) -> no_reset evs -> rel_gaps_ok evs ->
  w32 (ext s') = w32 (pseq p0 + (recv s' - 1) + lost s').
Proof. exact top_ext_tracks. Qed.
Print Assumptions C14_receiver_report_extended_seq.

(* displaced_delivered_refuted (finding F12): the literal claim "every packet that arrives late by fewer
   than B sequence positions is delivered" is FALSE of the faithful model.  Witness inside the proof:
   B = 4, arrivals 1 3 4 6 5 7 8 9 10 11 12: packet 5 is never delivered (and is counted lost). *)
Theorem C14_receiver_displaced_delivered_refuted : ~ displaced_claim.
Proof. exact displaced_claim_refuted. Qed.
Print Assumptions C14_receiver_displaced_delivered_refuted.

(* displaced_delivered_partial, 1: a packet that arrives at or ahead of the head is delivered now or stored,
   unless a packet with the same sequence number is already buffered.  2: the only packets dropped on
   arrival are those behind the head and second copies.  3: a stored packet is delivered (or still buffered
   at the end) unless a restart is detected afterwards.  MISSING for the literal statement: the head can
   move past an undelivered number in an overflow flush (C14_receiver_loss_only_by_flush); a packet carrying
   such a number is then behind the head and dropped although it may be displaced by fewer than B. *)
Theorem C14_receiver_displaced_delivered_partial_1 : forall s p s1 out l k,
  Inv s -> wf p -> first s = true -> unrel s = true -> process s p = Ok s1 out l k -> 0 <= relpos (last s) p ->
  In p out \/ buffered s1 p \/ (exists x, buffered s x /\ pseq x = pseq p).
Proof. exact in_window_not_dropped. Qed.
Print Assumptions C14_receiver_displaced_delivered_partial_1.

Theorem C14_receiver_displaced_delivered_partial_2 : forall s p s1 out l k,
  Inv s -> wf p -> first s = true -> unrel s = true -> process s p = Ok s1 out l k ->
  ~ In p out -> ~ buffered s1 p ->
  (k = KBehind /\ relpos (last s) p < 0) \/
  (k = KDup /\ 0 < relpos (last s) p < bsize (buf s) /\ exists x, buffered s x /\ pseq x = pseq p).
Proof. exact dropped_only_if. Qed.
Print Assumptions C14_receiver_displaced_delivered_partial_2.

Theorem C14_receiver_displaced_delivered_partial_3 : forall ops s s' evs,
  Inv s -> ops_wf ops -> run_ops s ops = (s', evs) -> unrel s = true -> first s = true ->
  forall x, buffered s x -> In x (map fst (deliv evs)) \/ buffered s' x \/ In KReset (kinds evs).
Proof. exact stored_eventually. Qed.
Print Assumptions C14_receiver_displaced_delivered_partial_3.

(* restart_followed (buffer sizes up to 2^14 = 16384; see the note below for 32768): from any reachable state,
   after B+1 (or more) consecutive packets of a stream that starts anywhere, the head is at the stream's latest
   packet or fewer than B numbers ahead of it ...
   Size 32768 is excluded here for a reason: relPos is an int16, so relPos >= 32768 never holds, the overflow
   flush is unreachable, and a stream restarting r < 32768 numbers ahead of the head is buffered for 32768 - r
   packets and then seen as 'behind' for another 32769 before the restart branch fires. *)
Theorem C14_receiver_restart_followed : forall s ps s' x p0 rest,
  Inv s -> first s = true -> unrel s = true -> bsize (buf s) <= 16384 ->
  Feeds s ps s' -> consec x ps -> Forall wf ps -> ps = p0 :: rest ->
  bsize (buf s) + 1 <= Z.of_nat (length ps) ->
  tracking s' (pseq (List.last ps p0)) /\ bsize (buf s') = bsize (buf s).
Proof. exact restart_followed. Qed.
Print Assumptions C14_receiver_restart_followed.

(* ... and from then on every packet of the stream is delivered at the front of the output, or dropped
   because its number was already delivered from a stale buffered packet; no loss is reported. *)
Theorem C14_receiver_restart_tracking_kept : forall s p x,
  Inv s -> wf p -> first s = true -> unrel s = true -> bsize (buf s) <= 16384 ->
  tracking s x -> pseq p = w16 (x + 1) ->
  exists s1 out l k, process s p = Ok s1 out l k /\ tracking s1 (pseq p) /\ l = 0 /\
    (out = [] \/ exists rest, out = p :: rest).
Proof. exact tracking_kept. Qed.
Print Assumptions C14_receiver_restart_tracking_kept.

(* ---- non-vacuity ---- *)
(* the default buffer size satisfies okB; so does 4 *)
Example C14_example_okB : okB 0 /\ okB 4 /\ okB 32768.
Proof. split; [exact default_ok|]. split; [exists 2|exists 15]; (split; [lia|reflexivity]). Qed.

(* regression for fix 9dc1449 (was finding bufsize-int16-overflow): with BufferSize 32768 the packet 102, late by
   one position, is buffered-for and delivered in order; before the fix it was dropped and counted lost
   (coq/receiver/history/Big_before_fix_9dc1449.v holds the old refutation) *)
Example C14_example_bufsize_32768_regression :
  let '(s', evs) := run_ops (init true 32768) (arrivals [101; 103; 102]) in
  delivered_seqs evs = [101; 102; 103] /\ lost s' = 0.
Proof. vm_compute. split; reflexivity. Qed.

(* THE TRANSLATED TIE.  GVG.Kern is regenerated from pkg/rtpreceiver/receiver.go on every run by tools/go2coq; the
   k_recv_* definitions are the Go expressions themselves (casts and wrap-around made explicit).  For all uint16
   sequence numbers and positions, every buffer length B and counter value, the formulas and guards that
   Model.reorder / Model.process / Model.upd_seq are written with ARE those expressions: relPos, the four branch
   conditions of reorder, the slot of a displaced packet, the advance of absPos in the drain loop, the loss count of a
   flush; on the reliable transport the loss count; the cycle test diff < -0x0FFF. *)
Theorem C14_receiver_reorder_kernels_are_the_code : forall B a neg last seq,
  u16 seq -> u16 last -> u16 a ->
  let r := k_recv_relpos seq last in
  r = s16 (w16 (seq - last - 1)) /\ i16 r /\
  k_recv_behind r = (r <? 0) /\
  k_recv_reset (neg + 1) B = (B <? neg + 1) /\
  k_recv_full r B = (B <=? r) /\
  k_recv_gap r = negb (r =? 0) /\
  (0 <= r -> k_recv_slot a r B = slotz B a r) /\
  k_recv_abs_mask (w16 (a + 1)) B = slotz B a 1 /\
  (forall n, 0 <= n <= 65537 -> k_recv_lost_flush r n = w64 (r - n + 1)).
Proof. exact reorder_kernels_are_the_code. Qed.
Print Assumptions C14_receiver_reorder_kernels_are_the_code.

Theorem C14_receiver_accounting_kernels_are_the_code : forall seq last,
  u16 seq -> u16 last ->
  k_recv_lost_tcp seq last = w16 (seq - last - 1) /\
  k_recv_cycle_cond (k_recv_cycle_diff seq last) = (seq - last <? -4095).
Proof. intros seq last Hs Hl. split; [apply bridge_lost_reliable|apply bridge_cycle]; assumption. Qed.
Print Assumptions C14_receiver_accounting_kernels_are_the_code.

(* the translated kernels compute: 65535 -> 2 is a forward step of 3 (relPos 2), a displaced packet goes to slot
   (absPos + relPos) mod B, 0 after 65535 is a cycle *)
Example C14_example_kernels :
  k_recv_relpos 2 65535 = 2 /\ k_recv_relpos 65535 2 = -4 /\ k_recv_slot 62 5 64 = 3 /\
  k_recv_cycle_cond (k_recv_cycle_diff 0 65535) = true /\ k_recv_cycle_cond (k_recv_cycle_diff 4096 8191) = false.
Proof. vm_compute. repeat split. Qed.

(* report(): Model.report IS the report written with the kernels translated from the Go source on this run: the
   "nothing to report" test, the "received or lost since the last report" test, fraction lost
   uint8((min(lostSinceReport, 0xFFFFFF) * 256) / receivedAndLostSinceReport), the extended highest sequence number
   uint32(cycles)<<16 | uint32(last) (= cycles * 65536 + last), total lost uint32(min(lost, 0xFFFFFF)); the builtin
   min is not translated - its arguments (which counter, which literal) are. *)
Theorem C14_receiver_report_kernels_are_the_code : forall s,
  u16 (cycles s) -> u16 (last s) -> 0 <= lostS s -> u64 (ralS s) ->
  report s = report_k s /\
  k_recv_rep_ext (cycles s) (last s) = cycles s * 65536 + last s.
Proof.
  intros s Hc Hl Hls Hr. split; [apply report_kernels_are_the_code; assumption|].
  apply (bridge_rep_ext _ _ Hc Hl).
Qed.
Print Assumptions C14_receiver_report_kernels_are_the_code.

(* 3 lost of 4 -> 192/256; lost = received-and-lost (2^24-1 of 2^24-1) -> 256, which the uint8 conversion wraps to 0;
   2^24-1 of 2^24 -> 255; no packet since the last report: the division is guarded; cycles 1, last 2 -> 65538 *)
Example C14_example_report_kernels :
  k_recv_rep_fraction 3 4 = Some 192 /\ k_recv_rep_fraction k_recv_rep_clamp_f 16777215 = Some 0 /\
  k_recv_rep_fraction k_recv_rep_clamp_f 16777216 = Some 255 /\ k_recv_rep_fraction 1 0 = None /\
  k_recv_rep_ext 1 2 = 65538 /\ k_recv_rep_ext 65535 65535 = 4294967295 /\ k_recv_rep_total k_recv_rep_clamp_t = 16777215 /\
  k_recv_rep_skip true 90000 = false /\ k_recv_rep_skip true 0 = true /\ k_recv_rep_skip false 90000 = true.
Proof. vm_compute. repeat split. Qed.

(* F12 on the model: B = 4, arrivals 1 3 4 6 5 7..12: 5 is missing from the deliveries, lost = 2 (numbers 2 and 5) *)
Example C14_example_f12 : exists s' evs, run_ops (init true 4) (arrivals f12_seqs) = (s', evs) /\
  Forall (fun o => o = None) (buf s') /\ delivered_seqs evs = [1; 3; 4; 6; 7; 8; 9; 10; 11; 12] /\
  lost s' = 2 /\ recv s' = 10.
Proof. exact f12_run. Qed.

(* a wrap with reordering, a report, and a detected restart: B = 2, arrivals 65534 0 65535 1 | report |
   1 0 65535 (three packets behind the head: the third one is delivered as a restart) *)
Example C14_example_wrap_restart :
  snd (run_ops (init true 2)
         [OPkt (mkPkt 65534 1); OPkt (mkPkt 0 2); OPkt (mkPkt 65535 3); OPkt (mkPkt 1 4); OReport;
          OPkt (mkPkt 1 5); OPkt (mkPkt 0 6); OPkt (mkPkt 65535 7)]) =
  [EPkt (mkPkt 65534 1) [mkPkt 65534 1] 0 KFirst;
   EPkt (mkPkt 0 2) [] 0 KStore;
   EPkt (mkPkt 65535 3) [mkPkt 65535 3; mkPkt 0 2] 0 KRun;
   EPkt (mkPkt 1 4) [mkPkt 1 4] 0 KRun;
   EReport (Some (mkBlock 65537 0 0));
   EPkt (mkPkt 1 5) [] 0 KBehind; EPkt (mkPkt 0 6) [] 0 KBehind;
   EPkt (mkPkt 65535 7) [mkPkt 65535 7] 0 KReset].
Proof. vm_compute. reflexivity. Qed.

(* a consecutive stream that satisfies the hypotheses of restart_followed *)
Example C14_example_consec : consec 65535 [mkPkt 65535 1; mkPkt 0 2; mkPkt 1 3] /\
  Forall wf [mkPkt 65535 1; mkPkt 0 2; mkPkt 1 3].
Proof. split; [cbn; auto|repeat constructor; cbn; lia]. Qed.

(* ---- the translated code: reorder() as regenerated from receiver.go on every run (coq/gen/Prog.v, tools/go2coq -prog),
   executed by the interpreter of GVL.Imp, returns what the model's [reorder] returns: the same buffer (packets as
   handles), absPos, negativeCount, returned packets and lost count, for every buffer of at most 32768 slots, every
   position and every packet, whenever the model's result is not a panic / endless loop (by C14_receiver_inv_reachable
   it never is from Initialize).  First part: for every sufficiently large fuel; second part: no fuel gives another answer. *)
From GVL Require Import Imp.
From GVG Require Import Prog.
From GV_receiver Require Import Code CodeProof.
Theorem C14_receiver_reorder_program_is_the_model : forall b a ng lst p b' a' ng' out l k,
  reorder b a ng lst p = RO b' a' ng' out l k ->
  bsize b <= 32768 -> wfb b -> wfp p -> 0 <= a < 65536 -> 0 <= ng < 4611686018427387904 -> 0 <= lst < 65536 ->
  (exists f0, forall f, (f0 <= f)%nat ->
     out_enc (exec f p_recv_reorder (st0 b a ng lst p)) = ro_enc (RO b' a' ng' out l k)) /\
  (forall f, exec f p_recv_reorder (st0 b a ng lst p) = OFuel \/
     out_enc (exec f p_recv_reorder (st0 b a ng lst p)) = ro_enc (RO b' a' ng' out l k)).
Proof. exact reorder_program_is_the_model. Qed.
Print Assumptions C14_receiver_reorder_program_is_the_model.

(* the interpreter's relational semantics is what [exec] computes (GVL.Imp) *)
Theorem C14_receiver_interpreter_sound : forall s st o, bs s st o -> runs_to s st o.
Proof. exact bs_runs_to. Qed.
Print Assumptions C14_receiver_interpreter_sound.

Example C14_example_reorder_program :
  let b := [None; Some (mkPkt 3 30); Some (mkPkt 4 40); None] in
  reorder b 0 0 1 (mkPkt 2 20) = RO [None; None; None; None] 3 0 [mkPkt 2 20; mkPkt 3 30; mkPkt 4 40] 0 KRun /\
  out_enc (exec 100 p_recv_reorder (st0 b 0 0 1 (mkPkt 2 20))) =
    ro_enc (RO [None; None; None; None] 3 0 [mkPkt 2 20; mkPkt 3 30; mkPkt 4 40] 0 KRun).
Proof. exact reorder_program_example. Qed.

(* ... and the hypotheses hold on every state the receiver can reach: with the buffer invariant of
   C14_receiver_inv_reachable (BufInv: power-of-two size, slot absPos empty, slot absPos+j holds sequence last+1+j), a
   counter 0 <= negativeCount <= len(buffer) and any packet with a uint16 sequence number, the model's reorder returns a
   result (never a panic or an endless loop) and the translated program returns exactly that result. *)
Theorem C14_receiver_reorder_program_on_reachable_states : forall b a ng L p,
  BufInv b a L -> 0 <= ng <= bsize b -> wf p ->
  exists b' a' ng' out l k, reorder b a ng L p = RO b' a' ng' out l k /\
    (exists f0, forall f, (f0 <= f)%nat ->
       out_enc (exec f p_recv_reorder (st0 b a ng L p)) = ro_enc (RO b' a' ng' out l k)) /\
    (forall f, exec f p_recv_reorder (st0 b a ng L p) = OFuel \/
       out_enc (exec f p_recv_reorder (st0 b a ng L p)) = ro_enc (RO b' a' ng' out l k)).
Proof. exact reorder_program_on_reachable_states. Qed.
Print Assumptions C14_receiver_reorder_program_on_reachable_states.

From Coq Require Extraction ExtrOcamlBasic.
From GV_receiver Require Import Model Code.
Extraction Language OCaml.
(* the driver calls [run]; tools/build_domain.sh appends  let run = run2  when the extracted file defines run2:
   case kind 2 goes through the translated program (Code.v), everything else is Model.run *)
Extraction "model.ml" run2.

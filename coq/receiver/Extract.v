From Coq Require Extraction ExtrOcamlBasic.
From GV_receiver Require Import Model.
Extraction Language OCaml.
Extraction "model.ml" run.

(* The synchronisation skeleton of the Go code (regenerated from /repo by tools/syncskel on every
   run) is the one the interleaving model ConcModel.v was written from.  Token codes: see
   tools/syncskel/main.go.  Each equation is proved by reflexivity, so any change to the
   lock / wait / broadcast / join structure of ringbuffer.go or async_processor.go breaks this file. *)
From Coq Require Import NArith List. Import ListNotations.
From GVG Require Import Skel.
Open Scope N_scope.

(* Push: Lock; read slot; if full {Unlock; return}; store; advance writeIndex; Unlock; Broadcast; return
   = ConcModel pcs PIdle -lock-> PHold -cs-> PDid ok -unlock-> (PBc -broadcast-> | ) PIdle *)
Definition expected_ring_push : list N := [1; 65; 12; 2; 15; 14; 64; 67; 2; 4; 15].
(* Pull: for { Lock; read slot; if data {clear; advance; Unlock; return}; if closed {Unlock; return};
   cond.Wait (register+unlock atomically, re-lock on wake); Unlock }
   = CIdle -lock-> CHold -cs-> CTook/CSawClosed/CParked ; CParked -broadcast-> CWoken -relock-> CRelocked -unlock-> CIdle *)
Definition expected_ring_pull : list N := [10; 1; 65; 12; 64; 66; 2; 15; 14; 63; 12; 2; 15; 14; 3; 2; 11].
(* Close: Lock; closed = true; clear every slot; writeIndex = readIndex; Unlock; Broadcast
   = KIdle -> KHold -> KDid -> KBc -> KWait *)
Definition expected_ring_close : list N := [1; 60; 10; 64; 11; 67; 2; 4].
(* Processor.Close: cancel; buffer.Close(); if running { <-done }   = closer's KWait -> KDone guard *)
Definition expected_ap_close : list N := [50; 40; 62; 12; 21; 14].
(* Processor.Start (+ run, runInner inlined): running = true; go { defer close(done);
   for { Pull; if !ok return; callback; if err { OnError; return } } }   = the consumer loop CRun / CStopped *)
Definition expected_ap_start : list N := [61; 17; 16; 20; 10; 41; 12; 15; 14; 52; 12; 51; 15; 14; 11].
Definition expected_ap_push : list N := [42; 15].

Lemma sync_skeleton_matches_model :
  skel_ring_push = expected_ring_push /\ skel_ring_pull = expected_ring_pull /\
  skel_ring_close = expected_ring_close /\ skel_ap_close = expected_ap_close /\
  skel_ap_start = expected_ap_start /\ skel_ap_push = expected_ap_push.
Proof. repeat split; reflexivity. Qed.

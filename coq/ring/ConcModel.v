(* Interleaving semantics of n producers, the single consumer of internal/asyncprocessor and a
   closer, over the sequential ring model.  One step = one statement group of the Go code:
     Push : Lock | critical section | Unlock | Broadcast
     Pull : Lock | critical section (take / see closed / cond.Wait = register+unlock atomically) |
            Unlock | woken -> re-Lock | Unlock ; then the callback runs outside the lock
     Close: Lock | critical section | Unlock | Broadcast | <-done (join the consumer)
   The mutex is the [owner] field; the condition variable's notify list can only ever contain the
   consumer, so it is the consumer's pc [CParked]; Broadcast moves CParked to CWoken. *)
From GVL Require Import NList.
From GV_ring Require Import Model.
Open Scope N_scope.

Inductive ppc :=
| PIdle (todo : list item)                 (* not in Push; [] = finished *)
| PHold (x : item) (todo : list item)      (* mutex held, before the test *)
| PDid (ok : bool) (todo : list item)      (* test/insert done, mutex still held *)
| PBc (todo : list item).                  (* unlocked after a successful insert, Broadcast pending *)

Inductive cpc :=
| CIdle | CHold | CTook (x : item) | CSawClosed | CParked | CWoken | CRelocked
| CRun (x : item)                          (* callback about to run, outside the lock *)
| CStopped
| CNotStarted.                             (* Processor.Start() has not been called yet *)

Inductive kpc := KIdle | KHold | KDid | KBc | KWait | KDone.

Inductive tid := TCons | TClose | TProd (i : nat) | TStart.

Record cfg := mkCfg {
  cring : ring;
  owner : option tid;
  prods : list ppc;
  cons : cpc;
  closer : kpc;
  (* ghost history *)
  accepted : list item;     (* successful pushes, in critical-section order *)
  executed : list item;     (* callbacks run, in order *)
  discarded : list item;    (* items dropped by Close *)
  onerror : N }.            (* OnError invocations *)

Definition ring_items (r : ring) : list item :=
  flat_map (fun s => match s with Some x => [x] | None => [] end) (rbuf r).

Fixpoint set_nth {A} (i : nat) (v : A) (l : list A) : list A :=
  match l, i with
  | [], _ => []
  | _ :: t, O => v :: t
  | x :: t, S j => x :: set_nth j v t
  end.

Definition free (c : cfg) : bool := match owner c with None => true | Some _ => false end.
Definition wake (k : cpc) : cpc := match k with CParked => CWoken | _ => k end.

Section Step.
Variable cb_err : item -> bool.   (* which callbacks return an error *)

Definition step_prod (c : cfg) (i : nat) : option cfg :=
  match nth_error (prods c) i with
  | None => None
  | Some p =>
    let upd p' c' := Some (mkCfg (cring c') (owner c') (set_nth i p' (prods c)) (cons c') (closer c')
                                 (accepted c') (executed c') (discarded c') (onerror c')) in
    match p with
    | PIdle [] => None
    | PIdle (x :: todo) =>
        if free c then upd (PHold x todo)
          (mkCfg (cring c) (Some (TProd i)) (prods c) (cons c) (closer c) (accepted c) (executed c) (discarded c) (onerror c))
        else None
    | PHold x todo =>
        match rpush (cring c) x with
        | PushOk r' => upd (PDid true todo)
            (mkCfg r' (owner c) (prods c) (cons c) (closer c) (accepted c ++ [x]) (executed c) (discarded c) (onerror c))
        | PushFull => upd (PDid false todo) c
        | PushPanic => None
        end
    | PDid true todo => upd (PBc todo)
          (mkCfg (cring c) None (prods c) (cons c) (closer c) (accepted c) (executed c) (discarded c) (onerror c))
    | PDid false todo => upd (PIdle todo)
          (mkCfg (cring c) None (prods c) (cons c) (closer c) (accepted c) (executed c) (discarded c) (onerror c))
    | PBc todo => upd (PIdle todo)
          (mkCfg (cring c) (owner c) (prods c) (wake (cons c)) (closer c) (accepted c) (executed c) (discarded c) (onerror c))
    end
  end.

Definition with_cons (c : cfg) (k : cpc) : cfg :=
  mkCfg (cring c) (owner c) (prods c) k (closer c) (accepted c) (executed c) (discarded c) (onerror c).
Definition with_owner (c : cfg) (o : option tid) : cfg :=
  mkCfg (cring c) o (prods c) (cons c) (closer c) (accepted c) (executed c) (discarded c) (onerror c).
Definition with_ring (c : cfg) (r : ring) : cfg :=
  mkCfg r (owner c) (prods c) (cons c) (closer c) (accepted c) (executed c) (discarded c) (onerror c).

Definition step_cons (c : cfg) : option cfg :=
  match cons c with
  | CIdle => if free c then Some (with_cons (with_owner c (Some TCons)) CHold) else None
  | CHold =>
      match rpull (cring c) with
      | PullGot x r' => Some (with_cons (with_ring c r') (CTook x))
      | PullClosed => Some (with_cons c CSawClosed)
      | PullWouldBlock => Some (with_cons (with_owner c None) CParked)   (* cond.Wait: register + unlock *)
      | PullPanic => None
      end
  | CTook x => Some (with_cons (with_owner c None) (CRun x))
  | CSawClosed => Some (with_cons (with_owner c None) CStopped)
  | CParked => None                                                   (* only a Broadcast moves it *)
  | CWoken => if free c then Some (with_cons (with_owner c (Some TCons)) CRelocked) else None
  | CRelocked => Some (with_cons (with_owner c None) CIdle)
  | CRun x =>
      let c' := mkCfg (cring c) (owner c) (prods c) (if cb_err x then CStopped else CIdle) (closer c)
                      (accepted c) (executed c ++ [x]) (discarded c)
                      (if cb_err x then onerror c + 1 else onerror c) in
      Some c'
  | CStopped => None
  | CNotStarted => None                                               (* no consumer goroutine yet *)
  end.

(* Processor.Start(): running = true; go run().  Caller contract (all three users create, start and destroy the
   writer from one goroutine): Start is not called once Close has been. *)
Definition step_start (c : cfg) : option cfg :=
  match cons c, closer c with
  | CNotStarted, KIdle => Some (with_cons c CIdle)
  | _, _ => None
  end.

Definition with_closer (c : cfg) (k : kpc) : cfg :=
  mkCfg (cring c) (owner c) (prods c) (cons c) k (accepted c) (executed c) (discarded c) (onerror c).

Definition step_close (c : cfg) : option cfg :=
  match closer c with
  | KIdle => if free c then Some (with_closer (with_owner c (Some TClose)) KHold) else None
  | KHold =>
      Some (mkCfg (rclose (cring c)) (owner c) (prods c) (cons c) KDid
                  (accepted c) (executed c) (discarded c ++ ring_items (cring c)) (onerror c))
  | KDid => Some (with_closer (with_owner c None) KBc)
  | KBc => Some (with_closer (with_cons c (wake (cons c))) KWait)
  | KWait =>                                   (* if w.running { <-w.done } *)
      match cons c with
      | CStopped | CNotStarted => Some (with_closer c KDone)
      | _ => None
      end
  | KDone => None
  end.

Definition step (c : cfg) (t : tid) : option cfg :=
  match t with
  | TCons => step_cons c
  | TClose => step_close c
  | TProd i => step_prod c i
  | TStart => step_start c
  end.

(* a schedule is any list of thread choices; disabled choices are skipped *)
Fixpoint exec (c : cfg) (sched : list tid) : cfg :=
  match sched with
  | [] => c
  | t :: rest => match step c t with Some c' => exec c' rest | None => exec c rest end
  end.

End Step.

Definition init_cfg (r : ring) (work : list (list item)) : cfg :=
  mkCfg r None (map PIdle work) CNotStarted KIdle [] [] [] 0.

(* Invariants of the interleaving semantics: for any number of producers and any schedule. *)
From GVL Require Import NList.
From GV_ring Require Import Model Proofs ConcModel.
From Coq Require Import ZifyBool ZifyNat ZifyN Permutation.
Open Scope N_scope.
Ltac splits := repeat match goal with |- _ /\ _ => split end.

(* ---------- list update lemmas ---------- *)
Lemma nth_error_set_nth_same {A} (l : list A) i v p : nth_error l i = Some p -> nth_error (set_nth i v l) i = Some v.
Proof. revert i; induction l as [|x t IH]; intros [|i] H; cbn in *; try discriminate; [reflexivity|eauto]. Qed.
Lemma nth_error_set_nth_other {A} (l : list A) i j v : i <> j -> nth_error (set_nth i v l) j = nth_error l j.
Proof. revert i j; induction l as [|x t IH]; intros [|i] [|j] H; cbn; try reflexivity; try congruence. apply IH. congruence. Qed.
Lemma existsb_set_nth {A} (f : A -> bool) l i p v : nth_error l i = Some p ->
  existsb f (set_nth i v l) = true <-> (f v = true \/ exists j q, j <> i /\ nth_error l j = Some q /\ f q = true).
Proof.
  intros H. rewrite existsb_exists. split.
  - intros (q & Hin & Hq). apply In_nth_error in Hin. destruct Hin as [j Hj].
    destruct (Nat.eq_dec j i) as [->|Hne].
    + rewrite (nth_error_set_nth_same _ _ _ _ H) in Hj. injection Hj as <-. now left.
    + rewrite nth_error_set_nth_other in Hj by (now apply not_eq_sym). right. eauto.
  - intros [Hv|(j & q & Hne & Hj & Hq)].
    + exists v. split; [|assumption]. eapply nth_error_In. eapply nth_error_set_nth_same; eassumption.
    + exists q. split; [|assumption]. apply (nth_error_In _ j). rewrite nth_error_set_nth_other by (now apply not_eq_sym). assumption.
Qed.
Lemma existsb_nth {A} (f : A -> bool) l : existsb f l = true <-> exists j q, nth_error l j = Some q /\ f q = true.
Proof.
  rewrite existsb_exists. split.
  - intros (q & Hin & Hq). apply In_nth_error in Hin. destruct Hin as [j Hj]. eauto.
  - intros (j & q & Hj & Hq). exists q. split; [eapply nth_error_In; eassumption|assumption].
Qed.

(* ---------- structural well-formedness of the ring: no operation panics ---------- *)
Definition WF (r : ring) : Prop :=
  0 < rsize r /\ nlen (rbuf r) = rsize r /\ rr r < rsize r /\ rw r < rsize r.

Lemma wf_new size r : 0 < size -> rnew size = Some r -> WF r.
Proof.
  unfold rnew. destruct (pow2_ok size); [|discriminate]. intros Hs [= <-]. unfold WF; cbn.
  splits; try lia. apply nlen_nrep.
Qed.
Lemma wf_push r x : WF r -> match rpush r x with PushOk r' => WF r' | PushFull => True | PushPanic => False end.
Proof.
  intros (Hs & Hl & Hr & Hw). unfold rpush.
  destruct (nnth_lt (rbuf r) (rw r)) as [s Hsl]; [lia|]. rewrite Hsl. destruct s; [exact I|].
  destruct (N.eqb_spec (rsize r) 0); [lia|]. unfold WF; cbn. rewrite nlen_nset.
  splits; try assumption. apply N.mod_lt. lia.
Qed.
Lemma wf_pull r : WF r -> match rpull r with PullGot _ r' => WF r' | PullPanic => False | _ => True end.
Proof.
  intros (Hs & Hl & Hr & Hw). unfold rpull.
  destruct (nnth_lt (rbuf r) (rr r)) as [s Hsl]; [lia|]. rewrite Hsl. destruct s.
  - destruct (N.eqb_spec (rsize r) 0); [lia|]. unfold WF; cbn. rewrite nlen_nset.
    splits; try assumption. apply N.mod_lt. lia.
  - destruct (rclosed r); exact I.
Qed.
Lemma wf_close r : WF r -> WF (rclose r).
Proof. intros (Hs & Hl & Hr & Hw). unfold WF, rclose; cbn. rewrite nlen_map. splits; assumption. Qed.

(* ---------- items held by the ring ---------- *)
Definition slot_items (s : option item) : list item := match s with Some x => [x] | None => [] end.
Lemma ring_items_nset_some (l : list (option item)) i x :
  nnth i l = Some None ->
  Permutation (flat_map slot_items (nset i (Some x) l)) (x :: flat_map slot_items l).
Proof.
  revert i; induction l as [|s t IH]; intros i H; cbn [nnth nset] in *; [discriminate|].
  destruct (N.eqb_spec i 0).
  - injection H as ->. cbn. reflexivity.
  - cbn [flat_map]. rewrite IH by assumption. destruct s; cbn; [apply perm_swap|reflexivity].
Qed.
Lemma ring_items_nset_none (l : list (option item)) i y :
  nnth i l = Some (Some y) ->
  Permutation (flat_map slot_items l) (y :: flat_map slot_items (nset i None l)).
Proof.
  revert i; induction l as [|s t IH]; intros i H; cbn [nnth nset] in *; [discriminate|].
  destruct (N.eqb_spec i 0).
  - injection H as ->. cbn. reflexivity.
  - cbn [flat_map]. rewrite (IH _ H). destruct s; cbn; [apply perm_swap|reflexivity].
Qed.
Lemma ring_items_close r : ring_items (rclose r) = [].
Proof. unfold ring_items, rclose; cbn. induction (rbuf r); cbn; auto. Qed.

Lemma push_items r x r' : rpush r x = PushOk r' -> Permutation (ring_items r') (x :: ring_items r).
Proof.
  unfold rpush. destruct (nnth (rw r) (rbuf r)) as [[?|]|] eqn:E; try discriminate.
  destruct (rsize r =? 0); [discriminate|]. intros [= <-]. unfold ring_items; cbn.
  now apply ring_items_nset_some.
Qed.
Lemma pull_items r y r' : rpull r = PullGot y r' -> Permutation (ring_items r) (y :: ring_items r').
Proof.
  unfold rpull. destruct (nnth (rr r) (rbuf r)) as [[z|]|] eqn:E; try discriminate.
  - destruct (rsize r =? 0); [discriminate|]. intros [= <- <-]. unfold ring_items; cbn.
    now apply ring_items_nset_none.
  - destruct (rclosed r); discriminate.
Qed.

(* ---------- the global invariant ---------- *)
Definition pending_p (p : ppc) : bool := match p with PDid true _ | PBc _ => true | _ => false end.
Definition pending_k (k : kpc) : bool := match k with KDid | KBc => true | _ => false end.
Definition pending (c : cfg) : bool := existsb pending_p (prods c) || pending_k (closer c).
Definition inhand (k : cpc) : list item := match k with CTook x | CRun x => [x] | _ => [] end.
Definition slot_empty (r : ring) : Prop := nnth (rr r) (rbuf r) = Some None.
Definition close_done (k : kpc) : bool := match k with KIdle | KHold => false | _ => true end.

Record Inv (c : cfg) : Prop := {
  inv_wf : WF (cring c);
  (* no lost wake-up *)
  inv_wake : cons c = CParked -> (slot_empty (cring c) /\ rclosed (cring c) = false) \/ pending c = true;
  (* exactly once: accepted items are executed, in the consumer's hand, queued, or dropped by Close *)
  inv_cons : Permutation (accepted c) (executed c ++ inhand (cons c) ++ ring_items (cring c) ++ discarded c);
  inv_closed : rclosed (cring c) = close_done (closer c);
  (* Close returns only after the consumer has stopped *)
  inv_done : closer c = KDone -> cons c = CStopped \/ cons c = CNotStarted;
  (* a processing error is reported exactly once and stops the consumer *)
  inv_err : onerror c <= 1 /\ (onerror c = 1 -> cons c = CStopped)
}.

Section S.
Variable cb_err : item -> bool.

Lemma inv_init size r work : 0 < size -> rnew size = Some r -> Inv (init_cfg r work).
Proof.
  intros Hs Hn. pose proof (wf_new size r Hs Hn) as W.
  unfold rnew in Hn. destruct (pow2_ok size); [|discriminate]. injection Hn as <-.
  constructor; cbn -[ring_items rclose]; try assumption; try discriminate; try reflexivity.
  - unfold ring_items; cbn. rewrite nrep_repeat. induction (N.to_nat size); cbn; auto.
  - split; [lia|discriminate].
Qed.

Lemma wake_parked k : wake k = CParked -> False.
Proof. destruct k; cbn; discriminate. Qed.
Lemma inhand_wake k : inhand (wake k) = inhand k.
Proof. destruct k; reflexivity. Qed.
Lemma wake_stopped k : k = CStopped -> wake k = CStopped.
Proof. intros ->. reflexivity. Qed.
Lemma wake_stopped_inv k : wake k = CStopped -> k = CStopped.
Proof. destruct k; cbn; congruence. Qed.

Ltac fin Hd He :=
  cbn [inhand app] in *;
  first
  [ assumption | discriminate | reflexivity
  | intros H; discriminate H
  | let H := fresh in intros H; apply Hd in H; destruct H as [H|H]; (congruence || discriminate)
  | let H := fresh in intros H; left; reflexivity
  | let H := fresh in intros H; right; reflexivity
  | let H := fresh in intros H; apply Hd in H; destruct H as [H|H]; [left|right]; (assumption || congruence)
  | split; [apply He | let H := fresh in intros H; apply He in H; (congruence || discriminate)]
  | intros _; reflexivity ].

Lemma pending_frame (c : cfg) i p p' :
  nth_error (prods c) i = Some p -> pending_p p = false ->
  existsb pending_p (prods c) || pending_k (closer c) = true ->
  existsb pending_p (set_nth i p' (prods c)) || pending_k (closer c) = true.
Proof.
  intros En Hp H. apply orb_true_iff in H. apply orb_true_iff. destruct H as [H|H]; [left|now right].
  apply existsb_nth in H. destruct H as (j & q & Hj & Hq).
  apply (existsb_set_nth pending_p _ _ _ _ En). right. exists j, q. splits; try assumption.
  intros ->. rewrite En in Hj. injection Hj as <-. congruence.
Qed.

Lemma inv_step c t c' : Inv c -> step cb_err c t = Some c' -> Inv c'.
Proof.
  intros [W Hw Hc Hcl Hd He] Hs. destruct t as [| |i|]; cbn [step] in Hs.
  - (* consumer *)
    unfold step_cons in Hs. destruct (cons c) eqn:Ek.
    + destruct (free c); [|discriminate]. injection Hs as <-. constructor; cbn -[ring_items rclose]; try solve [fin Hd He].
    + pose proof (wf_pull _ W) as Wp. destruct (rpull (cring c)) as [x r'| | |] eqn:Ep; try contradiction.
      * injection Hs as <-. constructor; cbn -[ring_items rclose]; try solve [fin Hd He].
        -- cbn [inhand app] in *. rewrite Hc. apply Permutation_app_head.
           apply (pull_items _ _ _) in Ep.
           change (x :: ring_items r' ++ discarded c) with ((x :: ring_items r') ++ discarded c).
           now apply Permutation_app_tail.
        -- rewrite <- Hcl. unfold rpull in Ep. destruct (nnth _ _) as [[?|]|]; try discriminate.
           ++ destruct (rsize (cring c) =? 0); [discriminate|]. now injection Ep as _ <-.
           ++ destruct (rclosed (cring c)); discriminate.
      * injection Hs as <-. constructor; cbn -[ring_items rclose]; try solve [fin Hd He].
      * injection Hs as <-. constructor; cbn -[ring_items rclose]; try solve [fin Hd He].
        intros _. left. unfold rpull in Ep. unfold slot_empty.
        destruct (nnth _ _) as [[?|]|]; try discriminate.
        -- destruct (rsize (cring c) =? 0); discriminate.
        -- destruct (rclosed (cring c)); [discriminate|]. split; reflexivity.
    + injection Hs as <-. constructor; cbn -[ring_items rclose]; try solve [fin Hd He].
    + injection Hs as <-. constructor; cbn -[ring_items rclose]; try solve [fin Hd He].
    + discriminate.
    + destruct (free c); [|discriminate]. injection Hs as <-. constructor; cbn -[ring_items rclose]; try solve [fin Hd He].
    + injection Hs as <-. constructor; cbn -[ring_items rclose]; try solve [fin Hd He].
    + injection Hs as <-. constructor; cbn -[ring_items rclose]; try solve [fin Hd He].
      * destruct (cb_err x); discriminate.
      * cbn [inhand app] in *. rewrite Hc. rewrite <- app_assoc. cbn [app].
        destruct (cb_err x); reflexivity.
      * destruct He as [He1 He2]. destruct (cb_err x).
        -- split; [|reflexivity]. assert (onerror c <> 1) by (intros H; apply He2 in H; discriminate). lia.
        -- split; [assumption|]. intros H. apply He2 in H. discriminate.
    + discriminate.
    + discriminate.
  - (* closer *)
    unfold step_close in Hs. destruct (closer c) eqn:Ek.
    + destruct (free c); [|discriminate]. injection Hs as <-. constructor; cbn -[ring_items rclose]; try solve [fin Hd He].
      intros H. destruct (Hw H) as [?|Hp]; [now left|right]. unfold pending in *; cbn. rewrite Ek in Hp. exact Hp.
    + injection Hs as <-. constructor; cbn -[ring_items rclose]; try solve [fin Hd He].
      * now apply wf_close.
      * intros _. right. unfold pending; cbn. apply orb_true_r.
      * rewrite ring_items_close. cbn [app]. rewrite Hc.
        apply Permutation_app_head. apply Permutation_app_head. apply Permutation_app_comm.
    + injection Hs as <-. constructor; cbn -[ring_items rclose]; try solve [fin Hd He].
      intros H. right. unfold pending; cbn. apply orb_true_r.
    + injection Hs as <-. constructor; cbn -[ring_items rclose]; try solve [fin Hd He].
      * intros H. now apply wake_parked in H.
      * now rewrite inhand_wake.
      * destruct He as [He1 He2]. split; [assumption|]. intros H. apply wake_stopped. auto.
    + destruct (cons c) eqn:Ec; try discriminate;
        (injection Hs as <-; constructor; cbn -[ring_items rclose]; rewrite ?Ec; try solve [fin Hd He]).
    + discriminate.
  - (* producer i *)
    unfold step_prod in Hs. destruct (nth_error (prods c) i) as [p|] eqn:En; [|discriminate].
    destruct p as [[|x todo]|x todo|[|] todo|todo].
    + discriminate.
    + destruct (free c); [|discriminate]. injection Hs as <-. constructor; cbn -[ring_items rclose]; try solve [fin Hd He].
      intros H. destruct (Hw H) as [?|Hp]; [now left|right]. unfold pending in *; cbn.
      eapply pending_frame; try eassumption. reflexivity.
    + pose proof (wf_push _ x W) as Wp. destruct (rpush (cring c) x) as [r'| |] eqn:Ep; try contradiction.
      * injection Hs as <-. constructor; cbn -[ring_items rclose]; try solve [fin Hd He].
        -- intros _. right. unfold pending; cbn. apply orb_true_iff. left.
           apply (existsb_set_nth pending_p _ _ _ _ En). now left.
        -- apply push_items in Ep. rewrite Ep, Hc. rewrite <- Permutation_cons_append. cbn [app].
           rewrite <- (Permutation_middle (inhand (cons c))). rewrite <- (Permutation_middle (executed c)).
           reflexivity.
        -- rewrite <- Hcl. unfold rpush in Ep. destruct (nnth _ _) as [[?|]|]; try discriminate.
           destruct (rsize (cring c) =? 0); [discriminate|]. now injection Ep as <-.
      * injection Hs as <-. constructor; cbn -[ring_items rclose]; try solve [fin Hd He].
        intros H. destruct (Hw H) as [?|Hp]; [now left|right]. unfold pending in *; cbn.
        eapply pending_frame; try eassumption. reflexivity.
    + injection Hs as <-. constructor; cbn -[ring_items rclose]; try solve [fin Hd He].
      intros _. right. unfold pending; cbn. apply orb_true_iff. left.
      apply (existsb_set_nth pending_p _ _ _ _ En). now left.
    + injection Hs as <-. constructor; cbn -[ring_items rclose]; try solve [fin Hd He].
      intros H. destruct (Hw H) as [?|Hp]; [now left|right]. unfold pending in *; cbn.
      eapply pending_frame; try eassumption. reflexivity.
    + injection Hs as <-. constructor; cbn -[ring_items rclose]; try solve [fin Hd He].
      * intros H. now apply wake_parked in H.
      * now rewrite inhand_wake.
      * intros H. destruct (Hd H) as [E|E]; rewrite E; [left|right]; reflexivity.
      * destruct He as [He1 He2]. split; [assumption|]. intros H. apply wake_stopped. auto.
  - (* Start *)
    unfold step_start in Hs. destruct (cons c) eqn:Ek; try discriminate. destruct (closer c) eqn:Ekk; try discriminate.
    injection Hs as <-. constructor; cbn -[ring_items rclose]; rewrite ?Ekk; try solve [fin Hd He].
Qed.

Lemma inv_exec sched : forall c, Inv c -> Inv (exec cb_err c sched).
Proof.
  induction sched as [|t rest IH]; intros c HI; cbn [exec]; [assumption|].
  destruct (step cb_err c t) as [c'|] eqn:E; [|now apply IH]. apply IH. eapply inv_step; eassumption.
Qed.

End S.

(* ---------- mutual exclusion ---------- *)
Definition holding_p (p : ppc) : bool := match p with PHold _ _ | PDid _ _ => true | _ => false end.
Definition holding_c (k : cpc) : bool := match k with CHold | CTook _ | CSawClosed | CRelocked => true | _ => false end.
Definition holding_k (k : kpc) : bool := match k with KHold | KDid => true | _ => false end.

Definition others_free (c : cfg) (i : option nat) : Prop :=
  forall j q, Some j <> i -> nth_error (prods c) j = Some q -> holding_p q = false.

Definition MInv (c : cfg) : Prop :=
  match owner c with
  | None => others_free c None /\ holding_c (cons c) = false /\ holding_k (closer c) = false
  | Some TCons => others_free c None /\ holding_c (cons c) = true /\ holding_k (closer c) = false
  | Some TClose => others_free c None /\ holding_c (cons c) = false /\ holding_k (closer c) = true
  | Some (TProd i) =>
      (exists q, nth_error (prods c) i = Some q /\ holding_p q = true) /\ others_free c (Some i) /\
      holding_c (cons c) = false /\ holding_k (closer c) = false
  | Some TStart => False          (* Start never takes the mutex *)
  end.

Section S2.
Variable cb_err : item -> bool.

Lemma minv_init r work : MInv (init_cfg r work).
Proof.
  unfold MInv, init_cfg, others_free; cbn [owner prods cons closer holding_c holding_k]. splits; try reflexivity. intros j q _ H.
  rewrite nth_error_map in H. destruct (nth_error work j); cbn in H; [|discriminate]. now injection H as <-.
Qed.

Lemma holding_wake k : holding_c (wake k) = holding_c k.
Proof. destruct k; reflexivity. Qed.

Lemma others_free_set (c : cfg) i p' (k : option nat) :
  others_free c k -> (Some i <> k -> holding_p p' = false) ->
  forall j q, Some j <> k -> nth_error (set_nth i p' (prods c)) j = Some q -> holding_p q = false.
Proof.
  intros Hof Hp j q Hj Hn. destruct (Nat.eq_dec i j) as [->|Hne].
  - destruct (nth_error (prods c) j) as [p|] eqn:E.
    + rewrite (nth_error_set_nth_same _ _ _ _ E) in Hn. injection Hn as <-. auto.
    + assert (nth_error (set_nth j p' (prods c)) j = None).
      { clear -E. revert E. generalize (prods c). induction j; intros [|x t] E; cbn in *; try reflexivity; try discriminate. auto. }
      congruence.
  - rewrite nth_error_set_nth_other in Hn by assumption. eauto.
Qed.

Lemma minv_step c t c' : MInv c -> step cb_err c t = Some c' -> MInv c'.
Proof.
  intros HM Hs. destruct t as [| |i|]; cbn [step] in Hs.
  - unfold step_cons in Hs. unfold MInv, others_free in *. destruct (cons c) eqn:Ek.
    + unfold free in Hs. destruct (owner c) eqn:Eo; [discriminate|]. injection Hs as <-. cbn. solve [intuition (try discriminate; try congruence)].
    + destruct (rpull (cring c)); try discriminate; injection Hs as <-; cbn;
        destruct (owner c) as [[| |j|]|]; cbn in *; try solve [intuition (try discriminate; try congruence)]; try (destruct HM as (_ & _ & ? & _); discriminate);
        try (destruct HM as (_ & ? & _); discriminate).
    + injection Hs as <-; cbn. destruct (owner c) as [[| |j|]|]; cbn in *; try solve [intuition (try discriminate; try congruence)];
        try (destruct HM as (_ & _ & ? & _); discriminate); try (destruct HM as (_ & ? & _); discriminate).
    + injection Hs as <-; cbn. destruct (owner c) as [[| |j|]|]; cbn in *; try solve [intuition (try discriminate; try congruence)];
        try (destruct HM as (_ & _ & ? & _); discriminate); try (destruct HM as (_ & ? & _); discriminate).
    + discriminate.
    + unfold free in Hs. destruct (owner c) eqn:Eo; [discriminate|]. injection Hs as <-. cbn. solve [intuition (try discriminate; try congruence)].
    + injection Hs as <-; cbn. destruct (owner c) as [[| |j|]|]; cbn in *; try solve [intuition (try discriminate; try congruence)];
        try (destruct HM as (_ & _ & ? & _); discriminate); try (destruct HM as (_ & ? & _); discriminate).
    + injection Hs as <-; cbn. destruct (owner c) as [[| |j|]|]; cbn in *;
        destruct (cb_err x); cbn; try tauto.
    + discriminate.
    + discriminate.
  - unfold step_close in Hs. unfold MInv, others_free in *. destruct (closer c) eqn:Ek.
    + unfold free in Hs. destruct (owner c) eqn:Eo; [discriminate|]. injection Hs as <-. cbn. solve [intuition (try discriminate; try congruence)].
    + injection Hs as <-; cbn. destruct (owner c) as [[| |j|]|]; cbn in * ; solve [intuition (try discriminate; try congruence)].
    + injection Hs as <-; cbn. destruct (owner c) as [[| |j|]|]; cbn in *; try solve [intuition (try discriminate; try congruence)];
        try (destruct HM as (_ & _ & _ & ?); discriminate); try (destruct HM as (_ & _ & ?); discriminate).
    + injection Hs as <-; cbn. rewrite holding_wake. destruct (owner c) as [[| |j|]|]; cbn in * ; solve [intuition (try discriminate; try congruence)].
    + destruct (cons c) eqn:Ec; try discriminate; (injection Hs as <-; cbn; rewrite ?Ec; destruct (owner c) as [[| |j|]|]; cbn in * ; solve [intuition (try discriminate; try congruence)]).
    + discriminate.
  - unfold step_prod in Hs. destruct (nth_error (prods c) i) as [p|] eqn:En; [|discriminate].
    unfold MInv in *.
    destruct p as [[|x todo]|x todo|[|] todo|todo].
    + discriminate.
    + unfold free in Hs. destruct (owner c) eqn:Eo; [discriminate|]. injection Hs as <-. cbn.
      destruct HM as (Hof & Hc & Hk). splits; try assumption.
      * eexists. split; [eapply nth_error_set_nth_same; eassumption|reflexivity].
      * intros j q Hj. apply (others_free_set c i _ (Some i)); try assumption.
        -- intros j' q' _ H'. eapply Hof; [discriminate|eassumption].
        -- congruence.
    + destruct (rpush (cring c) x); try discriminate; injection Hs as <-; cbn;
      (destruct (owner c) as [[| |j|]|] eqn:Eo; cbn in *;
       [ destruct HM as (Hof & _); specialize (Hof i _ ltac:(discriminate) En); discriminate
       | destruct HM as (Hof & _); specialize (Hof i _ ltac:(discriminate) En); discriminate
       | destruct HM as ((q & Hq & Hh) & Hof & Hc & Hk);
         destruct (Nat.eq_dec i j) as [->|Hne];
         [ splits; try assumption;
           [ eexists; split; [eapply nth_error_set_nth_same; eassumption|reflexivity]
           | intros j' q' Hj'; apply (others_free_set c j _ (Some j)); [assumption|congruence|assumption] ]
         | specialize (Hof i _ ltac:(congruence) En); discriminate ]
       | contradiction
       | destruct HM as (Hof & _); specialize (Hof i _ ltac:(discriminate) En); discriminate ]).
    + injection Hs as <-; cbn.
      destruct (owner c) as [[| |j|]|] eqn:Eo; cbn in *;
       [ destruct HM as (Hof & _); specialize (Hof i _ ltac:(discriminate) En); discriminate
       | destruct HM as (Hof & _); specialize (Hof i _ ltac:(discriminate) En); discriminate
       | destruct HM as ((q & Hq & Hh) & Hof & Hc & Hk);
         destruct (Nat.eq_dec i j) as [->|Hne];
         [ splits; try assumption;
           intros j' q' Hj'; cbn [prods]; destruct (Nat.eq_dec j j') as [<-|Hne'];
           [ intros Hn; rewrite (nth_error_set_nth_same _ _ _ _ En) in Hn; now injection Hn as <-
           | rewrite nth_error_set_nth_other by assumption; apply Hof; congruence ]
         | specialize (Hof i _ ltac:(congruence) En); discriminate ]
       | contradiction
       | destruct HM as (Hof & _); specialize (Hof i _ ltac:(discriminate) En); discriminate ].
    + injection Hs as <-; cbn.
      destruct (owner c) as [[| |j|]|] eqn:Eo; cbn in *;
       [ destruct HM as (Hof & _); specialize (Hof i _ ltac:(discriminate) En); discriminate
       | destruct HM as (Hof & _); specialize (Hof i _ ltac:(discriminate) En); discriminate
       | destruct HM as ((q & Hq & Hh) & Hof & Hc & Hk);
         destruct (Nat.eq_dec i j) as [->|Hne];
         [ splits; try assumption;
           intros j' q' Hj'; cbn [prods]; destruct (Nat.eq_dec j j') as [<-|Hne'];
           [ intros Hn; rewrite (nth_error_set_nth_same _ _ _ _ En) in Hn; now injection Hn as <-
           | rewrite nth_error_set_nth_other by assumption; apply Hof; congruence ]
         | specialize (Hof i _ ltac:(congruence) En); discriminate ]
       | contradiction
       | destruct HM as (Hof & _); specialize (Hof i _ ltac:(discriminate) En); discriminate ].
    + injection Hs as <-; cbn. rewrite holding_wake.
      assert (Hfr : forall k, others_free c k -> forall j q, Some j <> k ->
                nth_error (set_nth i (PIdle todo) (prods c)) j = Some q -> holding_p q = false).
      { intros k Hof. apply others_free_set; [assumption|reflexivity]. }
      destruct (owner c) as [[| |j|]|] eqn:Eo; cbn in *.
      * destruct HM as (Hof & Hc & Hk). splits; try assumption. intros j' q'. apply Hfr. assumption.
      * destruct HM as (Hof & Hc & Hk). splits; try assumption. intros j' q'. apply Hfr. assumption.
      * destruct HM as ((q & Hq & Hh) & Hof & Hc & Hk).
        assert (i <> j) by (intros ->; rewrite En in Hq; injection Hq as <-; discriminate).
        splits; try assumption.
        -- exists q. split; [|assumption]. now rewrite nth_error_set_nth_other.
        -- intros j' q'. apply Hfr. assumption.
      * contradiction.
      * destruct HM as (Hof & Hc & Hk). splits; try assumption. intros j' q'. apply Hfr. assumption.
  - (* Start *)
    unfold step_start in Hs. destruct (cons c) eqn:Ek; try discriminate. destruct (closer c) eqn:Ekk; try discriminate.
    injection Hs as <-. unfold MInv, others_free in *; cbn. rewrite Ek in HM. rewrite ?Ekk.
    destruct (owner c) as [[| |j|]|]; cbn in *; try contradiction.
    + destruct HM as (_ & H2 & _). discriminate H2.
    + destruct HM as (H1 & H2 & H3). rewrite Ekk in H3. discriminate H3.
    + destruct HM as (H0 & H1 & H2 & H3). splits; assumption || reflexivity.
    + destruct HM as (H1 & H2 & H3). splits; assumption || reflexivity.
Qed.

(* ---------- deadlock freedom: Close always gets to return ---------- *)
Definition finished (c : cfg) : Prop :=
  (forall j q, nth_error (prods c) j = Some q -> q = PIdle []) /\ (cons c = CStopped \/ cons c = CNotStarted) /\ closer c = KDone.

Definition can_step_p (p : ppc) : bool :=
  match p with PIdle [] => false | _ => true end.

Theorem progress c : Inv c -> MInv c ->
  (exists t c', step cb_err c t = Some c') \/ finished c.
Proof.
  intros HI HM. destruct HI as [W Hw Hc Hcl Hd He]. unfold MInv in HM.
  destruct (owner c) as [[| |i|]|] eqn:Eo; [| | |contradiction|].
  - (* consumer holds the lock: it can always continue *)
    left. exists TCons. cbn [step]. unfold step_cons. destruct HM as (_ & Hh & _).
    destruct (cons c) eqn:Ek; try discriminate; eauto.
    pose proof (wf_pull _ W) as Wp. destruct (rpull (cring c)); try contradiction; eauto.
  - left. exists TClose. cbn [step]. unfold step_close. destruct HM as (_ & _ & Hh).
    destruct (closer c); try discriminate; eauto.
  - left. exists (TProd i). cbn [step]. unfold step_prod. destruct HM as ((q & Hq & Hh) & _). rewrite Hq.
    destruct q as [|x todo|[|] todo|]; try discriminate; eauto.
    pose proof (wf_push _ x W) as Wp. destruct (rpush (cring c) x); try contradiction; eauto.
  - (* lock free *)
    destruct HM as (Hof & Hhc & Hhk).
    destruct (existsb can_step_p (prods c)) eqn:Ep.
    + left. apply existsb_nth in Ep. destruct Ep as (j & q & Hj & Hq). exists (TProd j). cbn [step].
      unfold step_prod, free. rewrite Hj, Eo.
      specialize (Hof j q ltac:(discriminate) Hj).
      destruct q as [[|x todo]|x todo|[|] todo|todo]; try discriminate; eauto.
    + assert (Hall : forall j q, nth_error (prods c) j = Some q -> q = PIdle []).
      { intros j q Hj. destruct q as [[|x todo]|x todo|ok todo|todo]; try reflexivity;
        (assert (existsb can_step_p (prods c) = true) by (apply existsb_nth; eauto); congruence). }
      destruct (closer c) eqn:Ek; try discriminate.
      * left. exists TClose. cbn [step]. unfold step_close, free. rewrite Ek, Eo. eauto.
      * left. exists TClose. cbn [step]. unfold step_close. rewrite Ek. eauto.
      * destruct (cons c) eqn:Ec; try discriminate.
        -- left. exists TCons. cbn [step]. unfold step_cons, free. rewrite Ec, Eo. eauto.
        -- (* parked while Close waits: impossible, the wake-up cannot have been lost *)
           exfalso. destruct (Hw eq_refl) as [[_ Hopen]|Hp].
           ++ rewrite Hcl in Hopen. discriminate.
           ++ unfold pending in Hp. rewrite Ek in Hp. cbn in Hp. rewrite orb_false_r in Hp.
              apply existsb_nth in Hp. destruct Hp as (j & q & Hj & Hq). apply Hall in Hj. subst q. discriminate.
        -- left. exists TCons. cbn [step]. unfold step_cons, free. rewrite Ec, Eo. eauto.
        -- left. exists TCons. cbn [step]. unfold step_cons. rewrite Ec. eauto.
        -- left. exists TClose. cbn [step]. unfold step_close. rewrite Ek, Ec. eauto.
        -- left. exists TClose. cbn [step]. unfold step_close. rewrite Ek, Ec. eauto.
      * right. unfold finished. splits; auto.
Qed.

(* ---------- FIFO order until Close ---------- *)
Definition FInv (c : cfg) : Prop :=
  close_done (closer c) = false ->
  exists q, Live (cring c) q /\ accepted c = executed c ++ inhand (cons c) ++ q.

Lemma finv_init size r work : 0 < size -> rnew size = Some r -> FInv (init_cfg r work).
Proof.
  intros Hs Hn _. exists []. split; [|reflexivity].
  destruct (rnew_R size r Hs Hn) as (_ & _ & HL).
  unfold rnew in Hn. destruct (pow2_ok size); [|discriminate]. injection Hn as <-. exact HL.
Qed.

Lemma finv_step c t c' : Inv c -> FInv c -> step cb_err c t = Some c' -> FInv c'.
Proof.
  intros HI HF Hs. unfold FInv in *. destruct t as [| |i|]; cbn [step] in Hs.
  - unfold step_cons in Hs. destruct (cons c) eqn:Ek.
    + destruct (free c); [|discriminate]. injection Hs as <-. intros Hcd. cbn in *.
      destruct (HF Hcd) as (q & HL & Hq). exists q. rewrite ?Ek in Hq. now split.
    + destruct (rpull (cring c)) as [x r'| | |] eqn:Ep; try discriminate; injection Hs as <-; intros Hcd; cbn in *;
        destruct (HF Hcd) as (q & HL & Hq); rewrite ?Ek in Hq; cbn [inhand app] in Hq.
      * destruct q as [|y t].
        -- unfold rpull in Ep. rewrite (live_head _ _ HL) in Ep. destruct (rclosed (cring c)); discriminate.
        -- destruct (live_pull _ y t HL) as (r'' & Hp & HL' & _). rewrite Hp in Ep. injection Ep as <- <-.
           exists t. split; [assumption|]. exact Hq.
      * exists q. now split.
      * exists q. now split.
    + injection Hs as <-. intros Hcd. cbn in *. destruct (HF Hcd) as (q & HL & Hq). exists q. rewrite ?Ek in Hq. now split.
    + injection Hs as <-. intros Hcd. cbn in *. destruct (HF Hcd) as (q & HL & Hq). exists q. rewrite ?Ek in Hq. now split.
    + discriminate.
    + destruct (free c); [|discriminate]. injection Hs as <-. intros Hcd. cbn in *.
      destruct (HF Hcd) as (q & HL & Hq). exists q. rewrite ?Ek in Hq. now split.
    + injection Hs as <-. intros Hcd. cbn in *. destruct (HF Hcd) as (q & HL & Hq). exists q. rewrite ?Ek in Hq. now split.
    + injection Hs as <-. intros Hcd. cbn in *. destruct (HF Hcd) as (q & HL & Hq). exists q. rewrite ?Ek in Hq.
      split; [assumption|]. cbn [inhand app] in Hq. rewrite Hq, <- app_assoc. cbn [app].
      destruct (cb_err x); reflexivity.
    + discriminate.
    + discriminate.
  - unfold step_close in Hs. destruct (closer c) eqn:Ek.
    + destruct (free c); [|discriminate]. injection Hs as <-. intros Hcd. cbn in *. exact (HF eq_refl).
    + injection Hs as <-. intros Hcd. cbn in Hcd. discriminate.
    + injection Hs as <-. intros Hcd. cbn in Hcd. discriminate.
    + injection Hs as <-. intros Hcd. cbn in Hcd. discriminate.
    + destruct (cons c); try discriminate; (injection Hs as <-; intros Hcd; cbn in Hcd; discriminate).
    + discriminate.
  - unfold step_prod in Hs. destruct (nth_error (prods c) i) as [p|] eqn:En; [|discriminate].
    destruct p as [[|x todo]|x todo|[|] todo|todo].
    + discriminate.
    + destruct (free c); [|discriminate]. injection Hs as <-. intros Hcd. cbn in *. exact (HF Hcd).
    + destruct (rpush (cring c) x) as [r'| |] eqn:Ep; try discriminate; injection Hs as <-; intros Hcd; cbn in *;
        destruct (HF Hcd) as (q & HL & Hq).
      * destruct (N.ltb_spec (nlen q) (rsize (cring c))) as [Hlt|Hge].
        -- destruct (live_push _ q x HL Hlt) as (r'' & Hp & HL' & _). rewrite Hp in Ep. injection Ep as <-.
           exists (q ++ [x]). split; [assumption|]. rewrite Hq, <- !app_assoc. reflexivity.
        -- rewrite (live_push_full _ q x HL Hge) in Ep. discriminate.
      * exists q. now split.
    + injection Hs as <-. intros Hcd. cbn in *. exact (HF Hcd).
    + injection Hs as <-. intros Hcd. cbn in *. exact (HF Hcd).
    + injection Hs as <-. intros Hcd. cbn in *. destruct (HF Hcd) as (q & HL & Hq). exists q.
      rewrite inhand_wake. now split.
  - unfold step_start in Hs. destruct (cons c) eqn:Ek; try discriminate. destruct (closer c) eqn:Ekk; try discriminate.
    injection Hs as <-. intros Hcd. cbn in *. destruct (HF eq_refl) as (q & HL & Hq). exists q. split; assumption.
Qed.

(* ---------- every schedule ---------- *)
Theorem all_schedules size r work sched :
  0 < size -> rnew size = Some r ->
  let c := exec cb_err (init_cfg r work) sched in Inv c /\ MInv c /\ FInv c.
Proof.
  intros Hs Hn. cbn zeta.
  assert (G : forall sched c, Inv c /\ MInv c /\ FInv c -> Inv (exec cb_err c sched) /\ MInv (exec cb_err c sched) /\ FInv (exec cb_err c sched)).
  { clear. induction sched as [|t rest IH]; intros c H; cbn [exec]; [assumption|].
    destruct (step cb_err c t) as [c'|] eqn:E; [|now apply IH]. apply IH.
    destruct H as (HI & HM & HF). splits.
    - eapply inv_step; eassumption.
    - eapply minv_step; eassumption.
    - eapply finv_step; eassumption. }
  apply G. splits; [eapply inv_init; eassumption|apply minv_init|eapply finv_init; eassumption].
Qed.

(* once Close has returned nothing runs any more *)
Lemma closed_frozen c t c' : Inv c -> closer c = KDone -> step cb_err c t = Some c' ->
  executed c' = executed c /\ closer c' = KDone.
Proof.
  intros HI Hk Hs. pose proof (inv_done _ HI Hk) as Hc. destruct t as [| |i|]; cbn [step] in Hs.
  - unfold step_cons in Hs. destruct Hc as [Hc|Hc]; rewrite Hc in Hs; discriminate.
  - unfold step_close in Hs. rewrite Hk in Hs. discriminate.
  - unfold step_prod in Hs. destruct (nth_error (prods c) i) as [p|]; [|discriminate].
    destruct p as [[|x todo]|x todo|[|] todo|todo]; try discriminate;
      try (destruct (free c); [|discriminate]); try (destruct (rpush (cring c) x); try discriminate);
      injection Hs as <-; cbn; auto.
  - (* Start is not called once Close has been *)
    unfold step_start in Hs. rewrite Hk in Hs. destruct (cons c); discriminate.
Qed.

End S2.

(* ---------- acceptance order is respected for ever (pushes after Close included) ---------- *)
Inductive Sub {A} : list A -> list A -> Prop :=
| sub_nil : Sub [] []
| sub_skip l1 l2 x : Sub l1 l2 -> Sub l1 (x :: l2)
| sub_keep l1 l2 x : Sub l1 l2 -> Sub (x :: l1) (x :: l2).

Lemma Sub_refl {A} (l : list A) : Sub l l.
Proof. induction l; [apply sub_nil | apply sub_keep; assumption]. Qed.
Lemma Sub_nil_l {A} (l : list A) : Sub [] l.
Proof. induction l; [apply sub_nil | apply sub_skip; assumption]. Qed.
Lemma Sub_app_tail {A} (l1 l2 : list A) x : Sub l1 l2 -> Sub (l1 ++ [x]) (l2 ++ [x]).
Proof. induction 1; cbn [app]; [apply sub_keep, sub_nil | apply sub_skip; assumption | apply sub_keep; assumption]. Qed.
Lemma Sub_drop_suffix {A} (l1 s l2 : list A) : Sub (l1 ++ s) l2 -> Sub l1 l2.
Proof.
  revert l1 s. induction l2 as [|y t IH]; intros l1 s H.
  - inversion H as [E| |]. destruct l1; [apply sub_nil|discriminate].
  - inversion H as [|? ? ? H' E1 E2|? ? ? H' E1 E2]; subst.
    + apply sub_skip. eapply IH; eassumption.
    + destruct l1 as [|z l1'].
      * apply Sub_nil_l.
      * cbn [app] in E1. injection E1 as -> ->. apply sub_keep. eapply IH; eassumption.
Qed.

Definition OInv (c : cfg) : Prop :=
  exists q, Live (cring c) q /\ Sub (executed c ++ inhand (cons c) ++ q) (accepted c).

Section S3.
Variable cb_err : item -> bool.

Lemma oinv_init size r work : 0 < size -> rnew size = Some r -> OInv (init_cfg r work).
Proof.
  intros Hs Hn. exists []. split; [|apply sub_nil].
  destruct (rnew_R size r Hs Hn) as (_ & _ & HL). exact HL.
Qed.

Lemma oinv_step c t c' : OInv c -> step cb_err c t = Some c' -> OInv c'.
Proof.
  intros (q & HL & HS) Hs. destruct t as [| |i|]; cbn [step] in Hs.
  - unfold step_cons in Hs. destruct (cons c) eqn:Ek.
    + destruct (free c); [|discriminate]. injection Hs as <-. exists q. cbn. split; assumption.
    + destruct (rpull (cring c)) as [x r'| | |] eqn:Ep; try discriminate; injection Hs as <-; cbn [cring with_cons with_ring with_owner accepted executed cons inhand app] in *.
      * destruct q as [|y t].
        -- unfold rpull in Ep. rewrite (live_head _ _ HL) in Ep. destruct (rclosed (cring c)); discriminate.
        -- destruct (live_pull _ y t HL) as (r'' & Hp & HL' & _). rewrite Hp in Ep. injection Ep as <- <-.
           exists t. split; assumption.
      * exists q. split; assumption.
      * exists q. split; assumption.
    + injection Hs as <-. exists q. cbn. split; assumption.
    + injection Hs as <-. exists q. cbn. split; assumption.
    + discriminate.
    + destruct (free c); [|discriminate]. injection Hs as <-. exists q. cbn. split; assumption.
    + injection Hs as <-. exists q. cbn. split; assumption.
    + injection Hs as <-. exists q. cbn [cring accepted executed cons]. split; [assumption|].
      cbn [inhand app] in HS. replace (inhand (if cb_err x then CStopped else CIdle)) with (@nil item) by (destruct (cb_err x); reflexivity).
      cbn [app]. rewrite <- app_assoc. exact HS.
    + discriminate.
    + discriminate.
  - unfold step_close in Hs. destruct (closer c) eqn:Ek.
    + destruct (free c); [|discriminate]. injection Hs as <-. exists q. cbn. split; assumption.
    + injection Hs as <-. exists []. cbn [cring accepted executed cons]. split; [eapply live_of_close; eassumption|].
      rewrite app_nil_r. rewrite app_assoc in HS. eapply Sub_drop_suffix; eassumption.
    + injection Hs as <-. exists q. cbn. split; assumption.
    + injection Hs as <-. exists q. cbn. rewrite inhand_wake. split; assumption.
    + destruct (cons c) eqn:Ec; try discriminate; (injection Hs as <-; exists q; cbn; rewrite ?Ec; split; assumption).
    + discriminate.
  - unfold step_prod in Hs. destruct (nth_error (prods c) i) as [p|] eqn:En; [|discriminate].
    destruct p as [[|x todo]|x todo|[|] todo|todo].
    + discriminate.
    + destruct (free c); [|discriminate]. injection Hs as <-. exists q. cbn. split; assumption.
    + destruct (rpush (cring c) x) as [r'| |] eqn:Ep; try discriminate; injection Hs as <-; cbn [cring accepted executed cons].
      * destruct (N.ltb_spec (nlen q) (rsize (cring c))) as [Hlt|Hge].
        -- destruct (live_push _ q x HL Hlt) as (r'' & Hp & HL' & _). rewrite Hp in Ep. injection Ep as <-.
           exists (q ++ [x]). split; [assumption|]. rewrite !app_assoc. apply Sub_app_tail. rewrite <- !app_assoc. exact HS.
        -- rewrite (live_push_full _ q x HL Hge) in Ep. discriminate.
      * exists q. split; assumption.
    + injection Hs as <-. exists q. cbn. split; assumption.
    + injection Hs as <-. exists q. cbn. split; assumption.
    + injection Hs as <-. exists q. cbn. rewrite inhand_wake. split; assumption.
  - unfold step_start in Hs. destruct (cons c) eqn:Ek; try discriminate. destruct (closer c) eqn:Ekk; try discriminate.
    injection Hs as <-. exists q. cbn [cring accepted executed cons with_cons inhand app] in *. split; assumption.
Qed.

Theorem order_for_ever size r work sched :
  0 < size -> rnew size = Some r -> OInv (exec cb_err (init_cfg r work) sched).
Proof.
  intros Hs Hn.
  assert (G : forall sched c, OInv c -> OInv (exec cb_err c sched)).
  { clear. induction sched as [|t rest IH]; intros c H; cbn [exec]; [assumption|].
    destruct (step cb_err c t) as [c'|] eqn:E; [|now apply IH]. apply IH. eapply oinv_step; eassumption. }
  apply G. eapply oinv_init; eassumption.
Qed.

End S3.

(* The ring buffer's operations AS TRANSLATED from ringbuffer.go, run by the interpreter of GVL.Imp, behind the same
   case protocol as the hand-written model: case kind 3 = case kind 1 with every operation executed by the translated
   program.  Executable, proof-free (RingCode.v proves the agreement). *)
From Coq Require Import ZArith NArith List Bool.
From GVL Require Import NList Wire Wrap Imp.
From GVG Require Import Prog.
From GV_ring Require Import Model.
Import ListNotations.
Open Scope Z_scope.

Definition penc (x : item) : Z := Z.of_N x + 1.
Definition pencs (s : option item) : Z := match s with None => 0 | Some x => penc x end.
Definition pdecs (z : Z) : option item := if z =? 0 then None else Some (Z.to_N (z - 1)).

Definition fields (vsz vr vw vc : N) (r : ring) : vars :=
  [(vsz, Z.of_N (rsize r)); (vr, Z.of_N (rr r)); (vw, Z.of_N (rw r)); (vc, if rclosed r then 1 else 0)].
Definition ring_of (vsz vr vw vc buf : N) (st : state) : ring :=
  mkRing (Z.to_N (V st vsz)) (map pdecs (A st buf)) (Z.to_N (V st vr)) (Z.to_N (V st vw)) (negb (V st vc =? 0)).

Definition rstep_p (r : ring) (o : op) : ring * out :=
  match o with
  | OPush x =>
      match exec 40 p_ring_push
              (mkS ((p_ring_push_v_data, penc x) ::
                    fields p_ring_push_v_r_size p_ring_push_v_r_readIndex p_ring_push_v_r_writeIndex p_ring_push_v_r_closed r)
                   [(p_ring_push_a_r_buffer, map pencs (rbuf r))]) with
      | ORet [VZ ok] st' =>
          if ok =? 0 then (r, RPushed false)
          else (ring_of p_ring_push_v_r_size p_ring_push_v_r_readIndex p_ring_push_v_r_writeIndex p_ring_push_v_r_closed
                        p_ring_push_a_r_buffer st', RPushed true)
      | _ => (r, RPanic)
      end
  | OPull =>
      match exec 40 p_ring_pull
              (mkS (fields p_ring_pull_v_r_size p_ring_pull_v_r_readIndex p_ring_pull_v_r_writeIndex p_ring_pull_v_r_closed r)
                   [(p_ring_pull_a_r_buffer, map pencs (rbuf r))]) with
      | ORet [VZ d; VZ ok] st' =>
          if ok =? 0 then (r, RClosed)
          else (ring_of p_ring_pull_v_r_size p_ring_pull_v_r_readIndex p_ring_pull_v_r_writeIndex p_ring_pull_v_r_closed
                        p_ring_pull_a_r_buffer st', RGot (Z.to_N (d - 1)))
      | OFuel => (r, RWouldBlock)      (* the loop spins: in Go the consumer parks on the condition variable *)
      | _ => (r, RPanic)
      end
  | OClose =>
      match exec (N.to_nat (rsize r) + 40) p_ring_close
              (mkS (fields p_ring_close_v_r_size p_ring_close_v_r_readIndex p_ring_close_v_r_writeIndex p_ring_close_v_r_closed r)
                   [(p_ring_close_a_r_buffer, map pencs (rbuf r))]) with
      | ONormal st' =>
          (ring_of p_ring_close_v_r_size p_ring_close_v_r_readIndex p_ring_close_v_r_writeIndex p_ring_close_v_r_closed
                   p_ring_close_a_r_buffer st', RUnit)
      | _ => (r, RPanic)
      end
  | OReset =>
      match exec (N.to_nat (rsize r) + 40) p_ring_reset
              (mkS (fields p_ring_reset_v_r_size p_ring_reset_v_r_readIndex p_ring_reset_v_r_writeIndex p_ring_reset_v_r_closed r)
                   [(p_ring_reset_a_r_buffer, map pencs (rbuf r))]) with
      | ONormal st' =>
          (ring_of p_ring_reset_v_r_size p_ring_reset_v_r_readIndex p_ring_reset_v_r_writeIndex p_ring_reset_v_r_closed
                   p_ring_reset_a_r_buffer st', RUnit)
      | _ => (r, RPanic)
      end
  end.

Fixpoint rrun_p (r : ring) (ops : list op) : list out :=
  match ops with
  | [] => []
  | o :: t => let '(r', x) := rstep_p r o in x :: rrun_p r' t
  end.

Definition run2 (c : list N) : list N :=
  match c with
  | 3%N :: size :: t =>
      match rnew size, dec_ops t t with
      | Some r, Some ops => concat (map enc_out (rrun_p r ops))
      | None, _ => [88%N]
      | _, None => bad_case
      end
  | _ => run c
  end.

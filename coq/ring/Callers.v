(* The write queue inside its callers: ServerSession / Client createWriter + destroyWriter and
   internal/asyncprocessor Close / run, as an interleaving model.

     OnError (handed to the processor by createWriter):
         select { <-ctx.Done() (the PROCESSOR's context) | <-ss.ctx.Done() (the session's) | ss.chWriterError <- err }
     Processor.Close():  ctxCancel(); buffer.Close(); if running { <-done }
     Processor.run():    defer close(done); for { item, ok := buffer.Pull(); if !ok return; if err := item() { OnError(ctx, err); return } }
     session routine:    select { request PAUSE -> destroyWriter() = Close()   (the session context stays alive)
                                | err := <-chWriterError -> leave the loop: cancel the session context, destroyWriter() }

   The only receiver of chWriterError is the session routine - the very goroutine that, inside PAUSE, waits for the
   consumer in Close().  THEOREMS (Props_C16.v): for any number of queued items, any moment at which an item fails, any
   moment of PAUSE or shutdown and any schedule: the schedule is finite; when nobody can move the session routine has
   finished its Close (paused or ended), the consumer has exited, and the error was delivered to the session at most
   once.  In the variant whose OnError does not look at the processor's context (seeded changes C11-4 / C16-6) a
   reachable state is stuck with Close waiting for ever (Example).
   Tie to the code: GVG.Skel.skel_ss_create_writer / skel_cl_create_writer / skel_ap_close / skel_ap_start. *)
From Coq Require Import List Arith Lia Bool NArith.
Import ListNotations.

Inductive spc := SIdle | SC1 | SC2 | SC3 | SFin.     (* session routine: in its select; destroyWriter steps; done *)
Inductive cpc := CWork | COnErr | CDone.            (* consumer: pulling / executing; inside OnError's select; exited *)

Record cfg := mkCfg {
  sp : spc;
  ending : bool;       (* the session routine is closing the writer because the session ends (context cancelled first) *)
  cp : cpc;
  wctx : bool;         (* the processor's context is cancelled *)
  sctx : bool;         (* the session's context is cancelled *)
  bclosed : bool;      (* the ring buffer is closed *)
  done : bool;         (* done is closed *)
  items : nat;         (* items the consumer may still execute successfully *)
  reported : nat }.    (* errors received by the session routine through chWriterError *)

Inductive label := LPause | LShutdown | LS | LRecvErr | LCOk | LCFail | LCClosed | LCCtx.

(* [strict]: true = the code as it is; false = OnError ignores the processor's context *)
Definition step (strict : bool) (l : label) (c : cfg) : option cfg :=
  match l with
  | LPause =>        (* a PAUSE request is taken from the select *)
      match sp c with
      | SIdle => Some (mkCfg SC1 false (cp c) (wctx c) (sctx c) (bclosed c) (done c) (items c) (reported c))
      | _ => None end
  | LShutdown =>     (* the session ends for another reason (TEARDOWN, timeout, server closing): its context is cancelled *)
      match sp c with
      | SIdle => Some (mkCfg SC1 true (cp c) (wctx c) true (bclosed c) (done c) (items c) (reported c))
      | _ => None end
  | LRecvErr =>      (* rendezvous on chWriterError: the consumer is in OnError's select, the session routine in its own *)
      match sp c, cp c with
      | SIdle, COnErr => Some (mkCfg SC1 true CDone (wctx c) true (bclosed c) true (items c) (S (reported c)))
      | _, _ => None end
  | LS =>            (* the next step of destroyWriter / Processor.Close *)
      match sp c with
      | SC1 => Some (mkCfg SC2 (ending c) (cp c) true (sctx c) (bclosed c) (done c) (items c) (reported c))      (* ctxCancel() *)
      | SC2 => Some (mkCfg SC3 (ending c) (cp c) (wctx c) (sctx c) true (done c) (items c) (reported c))         (* buffer.Close() *)
      | SC3 => if done c then Some (mkCfg SFin (ending c) (cp c) (wctx c) (sctx c) (bclosed c) (done c) (items c) (reported c)) else None  (* <-done *)
      | _ => None end
  | LCOk =>          (* an item is executed without error *)
      match cp c, items c with
      | CWork, S n => if bclosed c then None else Some (mkCfg (sp c) (ending c) CWork (wctx c) (sctx c) (bclosed c) (done c) n (reported c))
      | _, _ => None end
  | LCFail =>        (* an item fails (e.g. the blocked socket write times out): the consumer calls OnError *)
      match cp c with
      | CWork => Some (mkCfg (sp c) (ending c) COnErr (wctx c) (sctx c) (bclosed c) (done c) (items c) (reported c))
      | _ => None end
  | LCClosed =>      (* Pull returns !ok: the buffer is closed; return; close(done) *)
      match cp c with
      | CWork => if bclosed c then Some (mkCfg (sp c) (ending c) CDone (wctx c) (sctx c) (bclosed c) true (items c) (reported c)) else None
      | _ => None end
  | LCCtx =>         (* OnError's select takes a cancelled context; return; close(done) *)
      match cp c with
      | COnErr => if (strict && wctx c) || sctx c
                  then Some (mkCfg (sp c) (ending c) CDone (wctx c) (sctx c) (bclosed c) true (items c) (reported c)) else None
      | _ => None end
  end.

Definition labels : list label := [LPause; LShutdown; LS; LRecvErr; LCOk; LCFail; LCClosed; LCCtx].
Definition stuck (strict : bool) (c : cfg) : Prop := forall l, step strict l c = None.
Definition stuckb (strict : bool) (c : cfg) : bool :=
  forallb (fun l => match step strict l c with None => true | Some _ => false end) labels.
Fixpoint run (strict : bool) (ls : list label) (c : cfg) : option cfg :=
  match ls with [] => Some c | l :: t => match step strict l c with Some c' => run strict t c' | None => None end end.
Definition init (n : nat) : cfg := mkCfg SIdle false CWork false false false false n 0.

Definition Inv (c : cfg) : Prop :=
  (done c = true <-> cp c = CDone) /\
  (wctx c = true <-> (sp c = SC2 \/ sp c = SC3 \/ sp c = SFin)) /\
  (bclosed c = true <-> (sp c = SC3 \/ sp c = SFin)) /\
  (sctx c = true -> ending c = true) /\
  (ending c = true -> sp c <> SIdle /\ sctx c = true) /\
  reported c <= 1 /\
  (reported c = 1 -> cp c = CDone /\ ending c = true).

Definition sw (s : spc) : nat := match s with SIdle => 4 | SC1 => 3 | SC2 => 2 | SC3 => 1 | SFin => 0 end.
Definition cw (k : cpc) : nat := match k with CWork => 2 | COnErr => 1 | CDone => 0 end.
Definition measure (c : cfg) : nat := sw (sp c) + cw (cp c) + items c.

Open Scope N_scope.
(* createWriter: Lock <BufferSize closure: if( return )if return> func{ select <-param.Done <-recv.ctx.Done ch<- }func Unlock *)
Definition expected_create_writer : list N := [1; 12; 15; 14; 15; 70; 23; 24; 25; 22; 71; 2].
Close Scope N_scope.

(* Ring buffer refines the bounded FIFO (sequential semantics). *)
From GVL Require Import NList Wire.
From GV_ring Require Import Model.
From Coq Require Import ZifyBool ZifyNat ZifyN.
Open Scope N_scope.
Ltac splits := repeat match goal with |- _ /\ _ => split end.

Lemma mod_lt2 a s : 0 < s -> a < 2 * s -> a mod s = if a <? s then a else a - s.
Proof.
  intros Hs Ha. destruct (N.ltb_spec a s) as [H|H].
  - now apply N.mod_small.
  - symmetry. apply (N.mod_unique a s 1 (a - s)); lia.
Qed.

(* ---- the representation invariant ---- *)
Definition Live (r : ring) (q : list item) : Prop :=
  0 < rsize r /\ nlen (rbuf r) = rsize r /\ rr r < rsize r /\
  rw r = (rr r + nlen q) mod rsize r /\ nlen q <= rsize r /\
  forall i, i < rsize r ->
    nnth ((rr r + i) mod rsize r) (rbuf r) = Some (if i <? nlen q then nnth i q else None).

Definition R (r : ring) (b : bq) : Prop :=
  bcap b = rsize r /\ bclosed b = rclosed r /\ Live r (bitems b).

Lemma rnew_R size r : 0 < size -> rnew size = Some r -> R r (bnew size).
Proof.
  unfold rnew. destruct (pow2_ok size); [|discriminate]. intros Hs [= <-].
  unfold R, bnew, Live; cbn [rsize rbuf rr rw rclosed bcap bitems bclosed nlen].
  splits; try reflexivity; try lia.
  - apply nlen_nrep.
  - intros i Hi. rewrite N.add_0_l, N.mod_small by lia.
    destruct (N.ltb_spec i 0); [lia|]. now apply nnth_nrep.
Qed.

Definition is_push (o : op) := match o with OPush _ => true | _ => false end.

Ltac modsolve :=
  repeat first
  [ match goal with |- context[?a mod ?s] => rewrite (mod_lt2 a s) by lia end
  | match goal with
    | |- context[?a <? ?b] => destruct (N.ltb_spec a b)
    | H : context[?a <? ?b] |- _ => destruct (N.ltb_spec a b)
    end ]; try lia.

Lemma live_push r q x : Live r q -> nlen q < rsize r ->
  exists r', rpush r x = PushOk r' /\ Live r' (q ++ [x]) /\ rclosed r' = rclosed r /\ rsize r' = rsize r.
Proof.
  intros (Hs & Hlen & Hr & Hw & Hq & Hsl) Hlt.
  pose proof (Hsl (nlen q) Hlt) as Hslot. rewrite <- Hw, N.ltb_irrefl in Hslot.
  unfold rpush. rewrite Hslot. destruct (N.eqb_spec (rsize r) 0); [lia|].
  eexists; split; [reflexivity|]. split; [|split; reflexivity].
  unfold Live; cbn [rsize rbuf rr rw rclosed]. rewrite nlen_app; cbn [nlen].
  assert (Hwlt : rw r < rsize r) by (rewrite Hw; apply N.mod_lt; lia).
  splits; try assumption; try lia.
  - now rewrite nlen_nset.
  - rewrite Hw. replace (N.succ 0) with 1 by lia.
    rewrite (mod_lt2 (rr r + nlen q)) by lia. modsolve.
  - intros i Hi. replace (N.succ 0) with 1 by lia.
    destruct (N.eq_dec i (nlen q)) as [->|Hne].
    + rewrite <- Hw, nnth_nset_same by lia.
      destruct (N.ltb_spec (nlen q) (nlen q + 1)); [|lia]. now rewrite nnth_app_last.
    + rewrite nnth_nset_other.
      * rewrite (Hsl i Hi).
        destruct (N.ltb_spec i (nlen q)); destruct (N.ltb_spec i (nlen q + 1)); try lia; [|reflexivity].
        now rewrite nnth_app_lt.
      * rewrite Hw. modsolve.
Qed.

Lemma live_head r q : Live r q ->
  nnth (rr r) (rbuf r) = Some (match q with [] => None | y :: _ => Some y end).
Proof.
  intros (Hs & Hlen & Hr & Hw & Hq & Hsl).
  pose proof (Hsl 0 Hs) as Hslot. rewrite N.add_0_r, (N.mod_small (rr r)) in Hslot by lia.
  rewrite Hslot. destruct q as [|y t]; cbn [nlen nnth].
  - reflexivity.
  - destruct (N.ltb_spec 0 (N.succ (nlen t))); [reflexivity|lia].
Qed.

Lemma live_push_full r q x : Live r q -> rsize r <= nlen q -> rpush r x = PushFull.
Proof.
  intros HL Hge. pose proof (live_head r q HL) as Hh.
  destruct HL as (Hs & Hlen & Hr & Hw & Hq & Hsl).
  assert (Hwr : rw r = rr r) by (rewrite Hw; modsolve).
  unfold rpush. rewrite Hwr, Hh. destruct q; [cbn [nlen] in *; lia|reflexivity].
Qed.

Lemma live_pull r y t : Live r (y :: t) ->
  exists r', rpull r = PullGot y r' /\ Live r' t /\ rclosed r' = rclosed r /\ rsize r' = rsize r.
Proof.
  intros HL. pose proof (live_head r _ HL) as Hh.
  destruct HL as (Hs & Hlen & Hr & Hw & Hq & Hsl). cbn [nlen] in *.
  unfold rpull. rewrite Hh. destruct (N.eqb_spec (rsize r) 0); [lia|].
  eexists; split; [reflexivity|]. split; [|split; reflexivity].
  unfold Live; cbn [rsize rbuf rr rw rclosed].
  splits; try assumption; try lia.
  - now rewrite nlen_nset.
  - rewrite Hw. rewrite (mod_lt2 (rr r + 1)) by lia. modsolve.
  - intros i Hi.
    destruct (N.eq_dec i (rsize r - 1)) as [->|Hne].
    + replace (((rr r + 1) mod rsize r + (rsize r - 1)) mod rsize r) with (rr r).
      * rewrite nnth_nset_same by lia.
        destruct (N.ltb_spec (rsize r - 1) (nlen t)); [lia|reflexivity].
      * rewrite (mod_lt2 (rr r + 1)) by lia. modsolve.
    + assert (Hi1 : i + 1 < rsize r) by lia.
      replace (((rr r + 1) mod rsize r + i) mod rsize r) with ((rr r + (i + 1)) mod rsize r).
      * rewrite nnth_nset_other.
        -- rewrite (Hsl (i + 1) Hi1), nnth_tail.
           destruct (N.ltb_spec (i + 1) (N.succ (nlen t))); destruct (N.ltb_spec i (nlen t)); try lia; reflexivity.
        -- modsolve.
      * rewrite (mod_lt2 (rr r + 1)) by lia. modsolve.
Qed.

Lemma live_wf r q : Live r q -> 0 < rsize r /\ nlen (rbuf r) = rsize r /\ rr r < rsize r.
Proof. intros (Hs & Hlen & Hr & _). splits; assumption. Qed.

Lemma live_of_close r q : Live r q -> Live (rclose r) [].
Proof.
  intros HL. destruct (live_wf _ _ HL) as (Hs & Hlen & Hr).
  unfold Live, rclose; cbn [rsize rbuf rr rw rclosed nlen].
  splits; try assumption; try lia.
  - now rewrite nlen_map.
  - rewrite N.add_0_r. symmetry. now apply N.mod_small.
  - intros i Hi. destruct (N.ltb_spec i 0); [lia|]. apply nnth_map_const.
    rewrite Hlen. apply N.mod_lt. lia.
Qed.

Lemma live_of_reset r q : Live r q -> Live (rreset r) [].
Proof.
  intros HL. destruct (live_wf _ _ HL) as (Hs & Hlen & Hr).
  unfold Live, rreset; cbn [rsize rbuf rr rw rclosed nlen].
  splits; try assumption; try lia.
  - now rewrite nlen_map.
  - intros i Hi. rewrite N.add_0_l, N.mod_small by lia.
    destruct (N.ltb_spec i 0); [lia|]. apply nnth_map_const. lia.
Qed.

Lemma step_refines r b o :
  R r b -> snd (rstep r o) = snd (bstep b o) /\ R (fst (rstep r o)) (fst (bstep b o)).
Proof.
  intros HRR. pose proof HRR as (Hcap & Hcl & HR).
  destruct o as [x| | |].
  - (* push: Push does not look at closed *)
    cbn [rstep bstep]. rewrite Hcap.
    destruct (N.ltb_spec (nlen (bitems b)) (rsize r)) as [Hlt|Hge].
    + destruct (live_push r _ x HR Hlt) as (r' & Hp & HL & Hc & Hsz). rewrite Hp.
      cbn [fst snd]. split; [reflexivity|]. unfold R; cbn [bcap bitems bclosed].
      rewrite Hc, Hsz. splits; try assumption; try reflexivity.
    + rewrite (live_push_full r _ x HR Hge). cbn [fst snd]. split; [reflexivity|]. exact HRR.
  - (* pull *)
    cbn [rstep bstep]. destruct (bitems b) as [|y t] eqn:Eq.
    + unfold rpull. rewrite (live_head r _ HR), Hcl. destruct (rclosed r); cbn [fst snd]; (split; [reflexivity|exact HRR]).
    + destruct (live_pull r y t HR) as (r' & Hp & HL & Hc & Hsz). rewrite Hp.
      cbn [fst snd]. split; [reflexivity|]. unfold R; cbn [bcap bitems bclosed].
      rewrite Hc, Hsz. splits; try assumption; try reflexivity.
  - (* close *)
    cbn [rstep bstep fst snd]. split; [reflexivity|]. unfold R; cbn [bcap bitems bclosed rclose rclosed rsize].
    splits; try assumption; try reflexivity. eapply live_of_close; eassumption.
  - (* reset *)
    cbn [rstep bstep fst snd]. split; [reflexivity|]. unfold R; cbn [bcap bitems bclosed rreset rclosed rsize].
    splits; try assumption; try reflexivity. eapply live_of_reset; eassumption.
Qed.

Lemma run_refines ops : forall r b, R r b -> rrun r ops = brun b ops.
Proof.
  induction ops as [|o t IH]; intros r b HR; [reflexivity|].
  cbn [rrun brun].
  destruct (step_refines r b o HR) as [Hout HR'].
  destruct (rstep r o) as [r' x] eqn:Er. destruct (bstep b o) as [b' y] eqn:Eb.
  cbn [fst snd] in *. subst y. f_equal. now apply IH.
Qed.

(* for EVERY operation list: pushes after Close included *)
Theorem ring_refines_bq size r ops :
  0 < size -> rnew size = Some r -> rrun r ops = brun (bnew size) ops.
Proof. intros Hs Hn. apply run_refines. now apply rnew_R. Qed.

(* The spec itself is a bounded FIFO: characterise what it outputs. *)
Lemma bq_push_refused_iff_full b x :
  snd (bstep b (OPush x)) = RPushed false <-> bcap b <= nlen (bitems b).
Proof.
  cbn [bstep]. destruct (N.ltb_spec (nlen (bitems b)) (bcap b)); cbn [snd]; split; intros H'; try lia; try discriminate; reflexivity.
Qed.

(* never panics for a positive size *)
Lemma no_panic ops : forall r b, R r b -> ~ In RPanic (rrun r ops).
Proof.
  intros r b HR. rewrite (run_refines ops r b HR). clear.
  revert b. induction ops as [|o t IH]; intros b; cbn [brun]; [tauto|].
  destruct (bstep b o) as [b' y] eqn:E. intros [H|H]; [|eapply IH; eassumption].
  subst y. destruct o; cbn [bstep] in E.
  - destruct (nlen (bitems b) <? bcap b); inversion E.
  - destruct (bitems b); [destruct (bclosed b)|]; inversion E.
  - inversion E.
  - inversion E.
Qed.

(* ---- what the specification says: conservation = FIFO + exactly once ---- *)
Definition accepted_of (o : op) (x : out) : list item :=
  match o, x with OPush v, RPushed true => [v] | _, _ => [] end.
Definition got_of (x : out) : list item := match x with RGot v => [v] | _ => [] end.

Fixpoint brun_st (b : bq) (ops : list op) : bq :=
  match ops with [] => b | o :: t => brun_st (fst (bstep b o)) t end.

Fixpoint pp_only (ops : list op) : bool :=
  match ops with
  | [] => true
  | OPush _ :: t | OPull :: t => pp_only t
  | _ => false
  end.

Lemma bq_conservation ops : forall b,
  pp_only ops = true ->
  bitems b ++ concat (map (fun p => accepted_of (fst p) (snd p)) (combine ops (brun b ops)))
  = concat (map got_of (brun b ops)) ++ bitems (brun_st b ops).
Proof.
  induction ops as [|o t IH]; intros b Hpp; cbn [brun brun_st combine map concat].
  - now rewrite app_nil_r.
  - destruct o as [x| | |]; cbn [pp_only] in Hpp; try discriminate.
    + cbn [bstep]. destruct (nlen (bitems b) <? bcap b); cbn [fst snd accepted_of got_of map concat combine app].
      * specialize (IH (mkBq (bcap b) (bitems b ++ [x]) (bclosed b)) Hpp). cbn [bitems] in IH.
        rewrite <- IH. now rewrite <- app_assoc.
      * apply IH; assumption.
    + cbn [bstep]. destruct (bitems b) as [|y q] eqn:Eq; cbn [fst snd accepted_of got_of map concat combine app].
      * specialize (IH b Hpp). rewrite Eq in IH. destruct (bclosed b); exact IH.
      * specialize (IH (mkBq (bcap b) q (bclosed b)) Hpp). cbn [bitems] in IH.
        rewrite <- IH. reflexivity.
Qed.

Lemma bq_bounded ops : forall b, nlen (bitems b) <= bcap b -> nlen (bitems (brun_st b ops)) <= bcap b /\ bcap (brun_st b ops) = bcap b.
Proof.
  induction ops as [|o t IH]; intros b Hb; cbn [brun_st]; [split; [assumption|reflexivity]|].
  assert (H : nlen (bitems (fst (bstep b o))) <= bcap b /\ bcap (fst (bstep b o)) = bcap b).
  { destruct o; cbn [bstep].
    - destruct (N.ltb_spec (nlen (bitems b)) (bcap b)); cbn [fst bitems bcap]; [rewrite nlen_app; cbn [nlen]|]; split; try reflexivity; lia.
    - destruct (bitems b) eqn:E; cbn [fst bitems bcap]; [rewrite E|]; cbn [nlen] in *; split; try reflexivity; lia.
    - cbn [fst bitems bcap nlen]. split; [lia|reflexivity].
    - cbn [fst bitems bcap nlen]. split; [lia|reflexivity]. }
  destruct H as [H1 H2]. destruct (IH (fst (bstep b o))) as [H3 H4]; [lia|]. split; [lia|congruence].
Qed.

(* Executable model of pkg/ringbuffer/ringbuffer.go (sequential semantics of each critical
   section) and of the bounded-FIFO specification it must refine.  Proof-free. *)
From GVL Require Import NList Wire.
Open Scope N_scope.

Definition item := N.

Record ring := mkRing {
  rsize : N;
  rbuf : list (option item);   (* []any : None = nil slot *)
  rr : N;                      (* readIndex *)
  rw : N;                      (* writeIndex *)
  rclosed : bool }.

(* make([]any, size) *)
Fixpoint nils (fuel : list unit) : list (option item) :=
  match fuel with [] => [] | _ :: t => None :: nils t end.
(* New(size): refuses sizes that are not a power of two ((size & (size-1)) != 0) *)
Definition pow2_ok (size : N) : bool := N.land size (size - 1) =? 0.
Definition rnew (size : N) : option ring :=
  if pow2_ok size then Some (mkRing size (nrep None size) 0 0 false) else None.

Inductive pushres := PushOk (r : ring) | PushFull | PushPanic.

(* Push: buffer[writeIndex] is an index expression: out of range = panic (size 0) *)
Definition rpush (r : ring) (x : item) : pushres :=
  match nnth (rw r) (rbuf r) with
  | None => PushPanic
  | Some (Some _) => PushFull
  | Some None =>
      if rsize r =? 0 then PushPanic else
      PushOk (mkRing (rsize r) (nset (rw r) (Some x) (rbuf r)) (rr r) ((rw r + 1) mod rsize r) (rclosed r))
  end.

Inductive pullres := PullGot (x : item) (r : ring) | PullClosed | PullWouldBlock | PullPanic.

(* one iteration of Pull's loop body, up to the point where it would cond.Wait *)
Definition rpull (r : ring) : pullres :=
  match nnth (rr r) (rbuf r) with
  | None => PullPanic
  | Some (Some x) =>
      if rsize r =? 0 then PullPanic else
      PullGot x (mkRing (rsize r) (nset (rr r) None (rbuf r)) ((rr r + 1) mod rsize r) (rw r) (rclosed r))
  | Some None => if rclosed r then PullClosed else PullWouldBlock
  end.

(* Close: closed = true; every slot cleared; writeIndex = readIndex (the queue is empty again, so that
   items pushed afterwards are still pulled in order) *)
Definition rclose (r : ring) : ring :=
  mkRing (rsize r) (map (fun _ => None) (rbuf r)) (rr r) (rr r) true.

Definition rreset (r : ring) : ring :=
  mkRing (rsize r) (map (fun _ => None) (rbuf r)) 0 0 false.

(* ---- specification: bounded FIFO ---- *)
Record bq := mkBq { bcap : N; bitems : list item; bclosed : bool }.
Definition bnew (cap : N) : bq := mkBq cap [] false.

Inductive op := OPush (x : item) | OPull | OClose | OReset.
Inductive out := RPushed (ok : bool) | RGot (x : item) | RClosed | RWouldBlock | RUnit | RPanic.

Definition bstep (b : bq) (o : op) : bq * out :=
  match o with
  | OPush x =>
      if nlen (bitems b) <? bcap b
      then (mkBq (bcap b) (bitems b ++ [x]) (bclosed b), RPushed true)
      else (b, RPushed false)
  | OPull =>
      match bitems b with
      | x :: t => (mkBq (bcap b) t (bclosed b), RGot x)
      | [] => (b, if bclosed b then RClosed else RWouldBlock)
      end
  | OClose => (mkBq (bcap b) [] true, RUnit)
  | OReset => (mkBq (bcap b) [] false, RUnit)
  end.

Definition rstep (r : ring) (o : op) : ring * out :=
  match o with
  | OPush x =>
      match rpush r x with
      | PushOk r' => (r', RPushed true)
      | PushFull => (r, RPushed false)
      | PushPanic => (r, RPanic)
      end
  | OPull =>
      match rpull r with
      | PullGot x r' => (r', RGot x)
      | PullClosed => (r, RClosed)
      | PullWouldBlock => (r, RWouldBlock)
      | PullPanic => (r, RPanic)
      end
  | OClose => (rclose r, RUnit)
  | OReset => (rreset r, RUnit)
  end.

Fixpoint rrun (r : ring) (ops : list op) : list out :=
  match ops with
  | [] => []
  | o :: t => let '(r', x) := rstep r o in x :: rrun r' t
  end.

Fixpoint brun (b : bq) (ops : list op) : list out :=
  match ops with
  | [] => []
  | o :: t => let '(b', x) := bstep b o in x :: brun b' t
  end.

(* ---- asyncprocessor: the consumer loop over a ring, sequentialised.
   A callback is an item id; cb_err says whether the callback returns an error. ---- *)
Record aproc := mkAp {
  aring : ring;
  astopped : bool;           (* runInner has returned *)
  aexecuted : list item;     (* callbacks run, oldest first *)
  aerrors : N }.             (* OnError invocations *)

(* the consumer takes one loop iteration if it can *)
Definition aconsume (cb_err : item -> bool) (a : aproc) : aproc :=
  if astopped a then a else
  match rpull (aring a) with
  | PullGot x r' =>
      if cb_err x
      then mkAp r' true (aexecuted a ++ [x]) (aerrors a + 1)
      else mkAp r' false (aexecuted a ++ [x]) (aerrors a)
  | PullClosed => mkAp (aring a) true (aexecuted a) (aerrors a)
  | PullWouldBlock => a
  | PullPanic => a
  end.

(* ---- wire protocol ---- *)
Fixpoint dec_ops (fuel : list N) (l : list N) : option (list op) :=
  match fuel with
  | [] => match l with [] => Some [] | _ => None end
  | _ :: fuel' =>
    match l with
    | [] => Some []
    | 1 :: x :: t => option_map (cons (OPush x)) (dec_ops fuel' t)
    | 2 :: t => option_map (cons OPull) (dec_ops fuel' t)
    | 3 :: t => option_map (cons OClose) (dec_ops fuel' t)
    | 4 :: t => option_map (cons OReset) (dec_ops fuel' t)
    | _ => None
    end
  end.

Definition enc_out (o : out) : list N :=
  match o with
  | RPushed true => [1]
  | RPushed false => [0]
  | RGot x => [2; x]
  | RClosed => [3]
  | RWouldBlock => [4]
  | RUnit => [9]
  | RPanic => [77]
  end.

(* case: 1 size ops...   -> per-op outputs (ring)
         2 size ops...   -> per-op outputs (spec bq; used to cross-check the refinement at run time) *)
Definition run (c : list N) : list N :=
  match c with
  | 1 :: size :: t =>
      match rnew size, dec_ops t t with
      | Some r, Some ops => concat (map enc_out (rrun r ops))
      | None, _ => [88]
      | _, None => bad_case
      end
  | 2 :: size :: t =>
      match dec_ops t t with
      | Some ops => concat (map enc_out (brun (bnew size) ops))
      | None => bad_case
      end
  | _ => bad_case
  end.

From Coq Require Import List Arith Lia Bool NArith.
Import ListNotations.
From GVG Require Import Skel.
From GV_ring Require Import Callers.

Lemma skel_callers_matches :
  skel_ss_create_writer = expected_create_writer /\ skel_cl_create_writer = expected_create_writer.
Proof. split; reflexivity. Qed.

Ltac step_cases H :=
  repeat match type of H with
  | context [match ?x with _ => _ end] => destruct x eqn:?; try discriminate
  | context [if ?x then _ else _] => destruct x eqn:?; try discriminate
  end.

Lemma measure_decreases strict l c c' : step strict l c = Some c' -> measure c' < measure c.
Proof.
  destruct c as [s e k w sc b d n r]. unfold step, measure; cbn [sp ending cp wctx sctx bclosed done items reported].
  intros H. destruct l; step_cases H; inversion H; subst; cbn [sp cp items sw cw]; lia.
Qed.

Lemma run_length strict ls : forall c c', run strict ls c = Some c' -> length ls + measure c' <= measure c.
Proof.
  induction ls as [|l t IH]; intros c c' H; cbn [run length] in *; [inversion H; lia|].
  destruct (step strict l c) as [c1|] eqn:E; [|discriminate]. apply measure_decreases in E. apply IH in H. lia.
Qed.

Lemma inv_init n : Inv (init n).
Proof. unfold Inv, init; cbn. repeat split; intros; try discriminate; try lia; try (intuition discriminate). Qed.

Lemma inv_step l c c' : Inv c -> step true l c = Some c' -> Inv c'.
Proof.
  destruct c as [s e k w sc b d n r]. unfold Inv, step; cbn [sp ending cp wctx sctx bclosed done items reported].
  intros (H1 & H2 & H3 & H4 & H5 & H6 & H7) H.
  destruct l; step_cases H; inversion H; subst; clear H; cbn [sp ending cp wctx sctx bclosed done items reported];
    repeat split; intros; try discriminate; try congruence; try lia; try tauto;
    try (intuition (try discriminate; try congruence; try lia));
    try (assert (r <> 1) by (intro; intuition discriminate); lia).
Qed.

Lemma inv_run ls : forall c c', Inv c -> run true ls c = Some c' -> Inv c'.
Proof.
  induction ls as [|l t IH]; intros c c' Hi H; cbn [run] in H; [inversion H; subst; exact Hi|].
  destruct (step true l c) as [c1|] eqn:E; [|discriminate]. eapply IH; [eapply inv_step; eauto|exact H].
Qed.

Lemma stuck_is_finished c : Inv c -> stuck true c -> sp c = SFin /\ cp c = CDone /\ done c = true.
Proof.
  destruct c as [s e k w sc b d n r]. unfold Inv, stuck; cbn [sp ending cp wctx sctx bclosed done items reported].
  intros (H1 & H2 & H3 & H4 & H5 & H6 & H7) S.
  pose proof (S LPause) as SP. pose proof (S LS) as SS. pose proof (S LCFail) as SF. pose proof (S LCCtx) as SX. pose proof (S LCClosed) as SCl.
  unfold step in SP, SS, SF, SX, SCl; cbn [sp ending cp wctx sctx bclosed done items reported] in *.
  destruct s; try discriminate.
  - (* SC3: waiting for done *)
    exfalso. destruct d; [discriminate|].
    assert (Hw : w = true) by (apply H2; auto). assert (Hb : b = true) by (apply H3; auto). subst w b.
    destruct k; try discriminate.
    destruct H1 as [_ H1]. specialize (H1 eq_refl). discriminate.
  - destruct k.
    + discriminate.
    + exfalso. assert (Hw : w = true) by (apply H2; auto). subst w. cbn in SX. discriminate.
    + repeat split. apply H1. reflexivity.
Qed.

Theorem close_in_callers_always_returns (n : nat) (ls : list label) (c : cfg) :
  run true ls (init n) = Some c ->
  length ls <= measure (init n) /\ reported c <= 1 /\
  (stuck true c -> sp c = SFin /\ cp c = CDone /\ done c = true).
Proof.
  intros H. split; [apply run_length in H; lia|].
  assert (Hi : Inv c) by (eapply inv_run; [apply inv_init|exact H]).
  split; [apply Hi|apply stuck_is_finished; exact Hi].
Qed.

(* the variant whose OnError does not look at the processor's context: PAUSE closes the writer while an item fails *)
Lemma ignoring_processor_context_deadlocks : exists c,
  run false [LPause; LS; LS; LCFail] (init 3) = Some c /\ stuckb false c = true /\ sp c = SC3 /\ cp c = COnErr.
Proof. eexists. split; [reflexivity|]. repeat split. Qed.
(* ... the code as it is gets out of the same state *)
Lemma same_state_is_live : exists c c', run true [LPause; LS; LS; LCFail] (init 3) = Some c /\ step true LCCtx c = Some c'.
Proof. eexists. eexists. split; reflexivity. Qed.

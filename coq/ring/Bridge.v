(* BRIDGE: the integer kernels of pkg/ringbuffer/ringbuffer.go as TRANSLATED from the Go source on this run
   (GVG.Kern, tools/go2coq; spec lines in tools/go2coq/spec.d/ring.txt) are the formulas the hand-written model
   uses: the power-of-two test of New (Model.pow2_ok / rnew) and the index advance of Push / Pull
   ((index + 1) mod size in Model.rpush / rpull, a division by zero = the PushPanic / PullPanic outcome).
   Re-checked on every run against the regenerated Kern.v. *)
From Coq Require Import ZArith NArith Lia Bool.
From Coq Require Import ZifyBool ZifyN.
From GVL Require Import NList Wrap.
From GVG Require Import Kern.
From GV_ring Require Import Model.
Open Scope Z_scope.
Ltac Zify.zify_post_hook ::= Z.div_mod_to_equations.

Definition u64 (x : N) : Prop := (x < 18446744073709551616)%N.

Lemma land_bound x y : 0 <= x < 18446744073709551616 -> 0 <= y -> 0 <= Z.land x y < 18446744073709551616.
Proof.
  intros Hx Hy. assert (Hn : 0 <= Z.land x y) by (apply Z.land_nonneg; lia). split; [exact Hn|].
  destruct (Z.eq_dec (Z.land x y) 0) as [E|E]; [lia|].
  destruct (Z.eq_dec x 0) as [->|Hx0]; [rewrite Z.land_0_l in E; lia|].
  change 18446744073709551616 with (2 ^ 64). apply Z.log2_lt_pow2; [lia|].
  pose proof (Z.log2_land x y ltac:(lia) Hy) as Hl.
  assert (Z.log2 x < 64) by (apply Z.log2_lt_pow2; [lia|change (2 ^ 64) with 18446744073709551616; lia]).
  lia.
Qed.

Lemma of_N_land a b : Z.of_N (N.land a b) = Z.land (Z.of_N a) (Z.of_N b).
Proof. destruct a, b; reflexivity. Qed.

(* New: if (size & (size - 1)) != 0 { error }.  For size = 0 the Go subtraction wraps to 2^64-1 and N's truncates
   to 0: the conjunction is 0 either way. *)
Lemma bridge_new_reject size : u64 size ->
  k_ring_new_reject (Z.of_N size) = negb (pow2_ok size).
Proof.
  unfold u64, k_ring_new_reject, pow2_ok. intros Hs. f_equal.
  destruct (N.eq_dec size 0) as [->|Hnz]; [reflexivity|].
  assert (E1 : w64 (Z.of_N size - 1) = Z.of_N (size - 1)) by (unfold w64; lia).
  rewrite E1, <- of_N_land.
  assert (Hb : 0 <= Z.land (Z.of_N size) (Z.of_N (size - 1)) < 18446744073709551616) by (apply land_bound; lia).
  rewrite <- of_N_land in Hb.
  unfold w64. rewrite Z.mod_small by exact Hb.
  destruct (N.eqb_spec (N.land size (size - 1)) 0) as [E|E]; lia.
Qed.

Theorem new_kernel_is_the_code size : u64 size ->
  (rnew size = None <-> k_ring_new_reject (Z.of_N size) = true).
Proof.
  intros Hs. rewrite (bridge_new_reject size Hs). unfold rnew. destruct (pow2_ok size); cbn [negb]; split; congruence.
Qed.

(* Push / Pull: index = (index + 1) % size *)
Lemma bridge_next i size : u64 size -> (i + 1 < 18446744073709551616)%N -> size <> 0%N ->
  k_ring_push_next (Z.of_N i) (Z.of_N size) = Some (Z.of_N ((i + 1) mod size)).
Proof.
  unfold u64, k_ring_push_next. intros Hs Hi Hnz.
  destruct (Z.eqb_spec (Z.of_N size) 0) as [E|_]; [lia|]. f_equal.
  assert (E1 : w64 (Z.of_N i + 1) = Z.of_N (i + 1)) by (unfold w64; lia). rewrite E1.
  rewrite Z.rem_mod_nonneg by lia. rewrite <- N2Z.inj_mod.
  pose proof (N.mod_lt (i + 1) size Hnz). unfold w64. rewrite Z.mod_small by lia. reflexivity.
Qed.
Lemma push_pull_same_text i size : k_ring_pull_next i size = k_ring_push_next i size.
Proof. reflexivity. Qed.
Lemma bridge_next_zero i : k_ring_push_next i 0 = None /\ k_ring_pull_next i 0 = None.
Proof. split; reflexivity. Qed.

(* tied to the model's steps: whenever the model's Push / Pull succeeds, the new index is the translated Go
   expression on the old one; on a ring of size 0 the Go expression panics and so does the model *)
Theorem push_kernel_is_the_code r x r' : u64 (rsize r) -> (rw r + 1 < 18446744073709551616)%N ->
  rpush r x = PushOk r' ->
  k_ring_push_next (Z.of_N (rw r)) (Z.of_N (rsize r)) = Some (Z.of_N (rw r')) /\ rr r' = rr r /\ rsize r' = rsize r.
Proof.
  intros Hs Hi. unfold rpush. destruct (nnth (rw r) (rbuf r)) as [[y|]|]; try discriminate.
  destruct (N.eqb_spec (rsize r) 0) as [E|E]; [discriminate|]. intros H. injection H as <-. cbn [rw rr rsize].
  split; [apply bridge_next; assumption|split; reflexivity].
Qed.
Theorem pull_kernel_is_the_code r x r' : u64 (rsize r) -> (rr r + 1 < 18446744073709551616)%N ->
  rpull r = PullGot x r' ->
  k_ring_pull_next (Z.of_N (rr r)) (Z.of_N (rsize r)) = Some (Z.of_N (rr r')) /\ rw r' = rw r /\ rsize r' = rsize r.
Proof.
  intros Hs Hi. unfold rpull. destruct (nnth (rr r) (rbuf r)) as [[y|]|]; try discriminate.
  - destruct (N.eqb_spec (rsize r) 0) as [E|E]; [discriminate|]. intros H. injection H as <- <-. cbn [rw rr rsize].
    split; [rewrite push_pull_same_text; apply bridge_next; assumption|split; reflexivity].
  - destruct (rclosed r); discriminate.
Qed.
Theorem zero_size_panics r x : rsize r = 0%N ->
  (forall r', rpush r x <> PushOk r') /\ (forall y r', rpull r <> PullGot y r') /\
  k_ring_push_next (Z.of_N (rw r)) (Z.of_N (rsize r)) = None /\ k_ring_pull_next (Z.of_N (rr r)) (Z.of_N (rsize r)) = None.
Proof.
  intros E. rewrite E. repeat split.
  - intros r'. unfold rpush. destruct (nnth (rw r) (rbuf r)) as [[y|]|]; try discriminate. rewrite E. discriminate.
  - intros y r'. unfold rpull. destruct (nnth (rr r) (rbuf r)) as [[z|]|]; try discriminate; [rewrite E; discriminate|].
    destruct (rclosed r); discriminate.
Qed.

Theorem ring_kernels_are_the_code :
  (forall size, u64 size -> (rnew size = None <-> k_ring_new_reject (Z.of_N size) = true)) /\
  (forall r x r', u64 (rsize r) -> (rw r + 1 < 18446744073709551616)%N -> rpush r x = PushOk r' ->
     k_ring_push_next (Z.of_N (rw r)) (Z.of_N (rsize r)) = Some (Z.of_N (rw r')) /\ rr r' = rr r /\ rsize r' = rsize r) /\
  (forall r x r', u64 (rsize r) -> (rr r + 1 < 18446744073709551616)%N -> rpull r = PullGot x r' ->
     k_ring_pull_next (Z.of_N (rr r)) (Z.of_N (rsize r)) = Some (Z.of_N (rr r')) /\ rw r' = rw r /\ rsize r' = rsize r) /\
  (forall r (x : item), rsize r = 0%N ->
     (forall r', rpush r x <> PushOk r') /\ (forall y r', rpull r <> PullGot y r') /\
     k_ring_push_next (Z.of_N (rw r)) (Z.of_N (rsize r)) = None /\ k_ring_pull_next (Z.of_N (rr r)) (Z.of_N (rsize r)) = None).
Proof.
  split; [exact new_kernel_is_the_code|]. split; [exact push_kernel_is_the_code|].
  split; [exact pull_kernel_is_the_code|exact zero_size_panics].
Qed.

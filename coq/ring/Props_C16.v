(* C16 — statements only. Each theorem is closed by [exact] of a lemma proved in Proofs.v / Conc.v
   and followed by Print Assumptions. *)
From GVL Require Import NList.
From GV_ring Require Import Model Proofs ConcModel ConcProofs SkelCheck Bridge.
From GV_ring Require Callers CallersProofs.
From GVG Require Skel.
From GVG Require Import Skel Kern.
From Coq Require Import Permutation.
Open Scope N_scope.

(* For every positive size accepted by New and EVERY operation list (pushes after a Close included),
   the ring buffer produces exactly the outputs of the bounded FIFO queue of that capacity: a push is
   refused iff the queue holds [size] items, pulls return the accepted items in order, each once;
   Close empties the queue, after which a pull on an empty queue says closed. *)
Theorem C16_ring_refines_bounded_fifo : forall size r ops,
  0 < size -> rnew size = Some r -> rrun r ops = brun (bnew size) ops.
Proof. exact ring_refines_bq. Qed.
Print Assumptions C16_ring_refines_bounded_fifo.

(* The specification is a FIFO with exactly-once delivery: queued items followed by the accepted
   pushes equal the pulled items followed by what is still queued. *)
Theorem C16_spec_fifo_exactly_once : forall ops b,
  pp_only ops = true ->
  bitems b ++ concat (map (fun p => accepted_of (fst p) (snd p)) (combine ops (brun b ops)))
  = concat (map got_of (brun b ops)) ++ bitems (brun_st b ops).
Proof. exact bq_conservation. Qed.
Print Assumptions C16_spec_fifo_exactly_once.

Theorem C16_spec_refusal_iff_full : forall b x,
  snd (bstep b (OPush x)) = RPushed false <-> bcap b <= nlen (bitems b).
Proof. exact bq_push_refused_iff_full. Qed.
Print Assumptions C16_spec_refusal_iff_full.

Theorem C16_spec_bounded : forall ops b,
  nlen (bitems b) <= bcap b ->
  nlen (bitems (brun_st b ops)) <= bcap b /\ bcap (brun_st b ops) = bcap b.
Proof. exact bq_bounded. Qed.
Print Assumptions C16_spec_bounded.

(* ---- any number of concurrent producers, Start, one consumer, one closer, EVERY interleaving ----
   (threads: TStart = Processor.Start, enabled until Close is called; TCons; TClose; TProd i)
   [exec cb_err (init_cfg r work) sched] is the configuration reached from the initial one by an
   arbitrary schedule (list of thread choices; disabled choices are skipped); work = the items each
   producer pushes; cb_err = which callbacks fail. *)
Theorem C16_all_interleavings : forall cb_err size r work sched,
  0 < size -> rnew size = Some r ->
  let c := exec cb_err (init_cfg r work) sched in
  (* no lost wake-up: a parked consumer sees an empty open queue, or a broadcast is still to come *)
  (cons c = CParked -> (slot_empty (cring c) /\ rclosed (cring c) = false) \/ pending c = true) /\
  (* exactly once: every accepted item is executed, in the consumer's hand, queued, or dropped by Close *)
  Permutation (accepted c) (executed c ++ inhand (cons c) ++ ring_items (cring c) ++ discarded c) /\
  (* FIFO until Close: executed callbacks are a prefix of the accepted pushes, in acceptance order,
     and what is queued is the rest (q is the abstract bounded queue the ring represents) *)
  (close_done (closer c) = false ->
     exists q, Live (cring c) q /\ accepted c = executed c ++ inhand (cons c) ++ q) /\
  (* Close returns only after the consumer has stopped (or was never started: Close before Start returns at once) *)
  (closer c = KDone -> cons c = CStopped \/ cons c = CNotStarted) /\
  (* a processing error is reported at most once and stops the consumer *)
  (onerror c <= 1 /\ (onerror c = 1 -> cons c = CStopped)).
Proof.
  intros cb_err size r work sched Hs Hn.
  destruct (all_schedules cb_err size r work sched Hs Hn) as (HI & _ & HF).
  exact (conj (inv_wake _ HI) (conj (inv_cons _ HI) (conj HF (conj (inv_done _ HI) (inv_err _ HI))))).
Qed.
Print Assumptions C16_all_interleavings.

(* acceptance order is respected for ever, pushes racing with or following Close included: what has been
   executed, is in the consumer's hand or is still queued is, in that order, a subsequence of the
   accepted items in acceptance order (items dropped by Close are the only ones missing) *)
Theorem C16_order_for_ever : forall cb_err size r work sched,
  0 < size -> rnew size = Some r ->
  let c := exec cb_err (init_cfg r work) sched in
  exists q, Live (cring c) q /\ Sub (executed c ++ inhand (cons c) ++ q) (accepted c).
Proof. exact order_for_ever. Qed.
Print Assumptions C16_order_for_ever.

(* deadlock freedom: from every reachable configuration some thread can step, unless every producer
   has finished, the consumer has stopped and Close has returned.  In particular a Close that is
   waiting for the consumer is never stuck behind a lost wake-up. *)
Theorem C16_no_deadlock : forall cb_err size r work sched,
  0 < size -> rnew size = Some r ->
  let c := exec cb_err (init_cfg r work) sched in
  (exists t c', step cb_err c t = Some c') \/ finished c.
Proof.
  intros cb_err size r work sched Hs Hn.
  destruct (all_schedules cb_err size r work sched Hs Hn) as (HI & HM & _).
  exact (progress cb_err _ HI HM).
Qed.
Print Assumptions C16_no_deadlock.

(* nothing runs after Close has returned: no later step changes the executed list *)
Theorem C16_nothing_after_close : forall cb_err size r work sched t c',
  0 < size -> rnew size = Some r ->
  let c := exec cb_err (init_cfg r work) sched in
  closer c = KDone -> step cb_err c t = Some c' -> executed c' = executed c /\ closer c' = KDone.
Proof.
  intros cb_err size r work sched t c' Hs Hn c Hk Hst.
  destruct (all_schedules cb_err size r work sched Hs Hn) as (HI & _ & _).
  exact (closed_frozen cb_err _ t c' HI Hk Hst).
Qed.
Print Assumptions C16_nothing_after_close.

(* the tie of the interleaving model to the Go text: the synchronisation skeleton regenerated from
   ringbuffer.go and async_processor.go on this run is the one the model was written from *)
Theorem C16_sync_skeleton_matches_model :
  skel_ring_push = expected_ring_push /\ skel_ring_pull = expected_ring_pull /\
  skel_ring_close = expected_ring_close /\ skel_ap_close = expected_ap_close /\
  skel_ap_start = expected_ap_start /\ skel_ap_push = expected_ap_push.
Proof. exact sync_skeleton_matches_model. Qed.
Print Assumptions C16_sync_skeleton_matches_model.

(* Close before Start: returns without waiting, and nothing ever runs afterwards *)
Example C16_close_before_start :
  exists r, rnew 2 = Some r /\
  let c := exec (fun _ => false) (init_cfg r [[7; 8]])
    [TProd 0; TProd 0; TProd 0; TProd 0; TClose; TClose; TClose; TClose; TClose; TStart; TCons; TProd 0; TProd 0; TProd 0; TProd 0; TStart; TCons] in
  closer c = KDone /\ cons c = CNotStarted /\ executed c = [] /\ accepted c = [7; 8].
Proof. eexists. split; [reflexivity|]. vm_compute. repeat split. Qed.

(* non-vacuity of the concurrent model: 2 producers on a ring of 1, a schedule that pushes, is refused,
   executes, closes and joins *)
Example C16_conc_example :
  exists r, rnew 1 = Some r /\
  let c := exec (fun _ => false) (init_cfg r [[7]; [8]])
    [TStart; TProd 0; TProd 0; TProd 0; TProd 1; TProd 1; TProd 1; TProd 0;
     TCons; TCons; TCons; TCons; TClose; TClose; TClose; TClose; TCons; TCons; TCons; TClose] in
  accepted c = [7] /\ executed c = [7] /\ closer c = KDone /\ cons c = CStopped.
Proof. eexists. split; [reflexivity|]. vm_compute. repeat split. Qed.

(* non-vacuity: capacity 2, push push push(refused) pull push pull pull pull(would block) *)
Example C16_example :
  exists r, rnew 2 = Some r /\
  rrun r [OPush 5; OPush 6; OPush 7; OPull; OPush 8; OPull; OPull; OPull] =
  [RPushed true; RPushed true; RPushed false; RGot 5; RPushed true; RGot 6; RGot 8; RWouldBlock].
Proof. eexists. split; reflexivity. Qed.

(* BRIDGE (tools/go2coq): the integer kernels of ringbuffer.go TRANSLATED from the Go source on this run are the
   formulas of the model: New refuses exactly the sizes for which (size & (size-1)) != 0 (Model.rnew / pow2_ok);
   whenever the model's Push / Pull succeeds the new write / read index is the Go expression (index + 1) % size
   evaluated on the old one (the other index and the size are untouched); on a ring of size 0 that expression is a
   division by zero and the model's step is the panic outcome.  The uint64 ranges are hypotheses (the model's
   indices are unbounded N). *)
Theorem C16_ring_kernels_are_the_code :
  (forall size, u64 size -> (rnew size = None <-> k_ring_new_reject (Z.of_N size) = true)) /\
  (forall r x r', u64 (rsize r) -> rw r + 1 < 18446744073709551616 -> rpush r x = PushOk r' ->
     k_ring_push_next (Z.of_N (rw r)) (Z.of_N (rsize r)) = Some (Z.of_N (rw r')) /\ rr r' = rr r /\ rsize r' = rsize r) /\
  (forall r x r', u64 (rsize r) -> rr r + 1 < 18446744073709551616 -> rpull r = PullGot x r' ->
     k_ring_pull_next (Z.of_N (rr r)) (Z.of_N (rsize r)) = Some (Z.of_N (rr r')) /\ rw r' = rw r /\ rsize r' = rsize r) /\
  (forall r (x : item), rsize r = 0 ->
     (forall r', rpush r x <> PushOk r') /\ (forall y r', rpull r <> PullGot y r') /\
     k_ring_push_next (Z.of_N (rw r)) (Z.of_N (rsize r)) = None /\ k_ring_pull_next (Z.of_N (rr r)) (Z.of_N (rsize r)) = None).
Proof. exact ring_kernels_are_the_code. Qed.
Print Assumptions C16_ring_kernels_are_the_code.

(* the translated kernels compute: 8 and 0 are accepted, 6 and 2^64-2 are refused; index 7 of 8 wraps to 0 *)
Example C16_example_kernels :
  k_ring_new_reject 8 = false /\ k_ring_new_reject 0 = false /\ k_ring_new_reject 6 = true /\
  k_ring_new_reject 18446744073709551614 = true /\ k_ring_new_reject 9223372036854775808 = false /\
  k_ring_push_next 7 8 = Some 0%Z /\ k_ring_pull_next 3 8 = Some 4%Z /\ k_ring_push_next 0 0 = None.
Proof. vm_compute. repeat split. Qed.

(* ---------------- the queue inside its callers (server_session.go, client.go: createWriter / destroyWriter) ----------------
   Callers.v is an interleaving model of the session (or client) routine, which closes the writer inside PAUSE while its
   context is alive, or at the end after cancelling it, and of the queue's consumer, whose OnError callback offers the
   error on a channel that only that routine receives from.  For any number of queued items, any moment at which an item
   fails, any moment of PAUSE / shutdown and ANY schedule: the schedule is finite, the error reaches the session at most
   once, and a state in which nobody can move is one where Close has returned and the consumer has exited. *)
Theorem C16_close_in_callers_always_returns : forall (n : nat) (ls : list Callers.label) (c : Callers.cfg),
  Callers.run true ls (Callers.init n) = Some c ->
  (length ls <= Callers.measure (Callers.init n))%nat /\ (Callers.reported c <= 1)%nat /\
  (Callers.stuck true c -> Callers.sp c = Callers.SFin /\ Callers.cp c = Callers.CDone /\ Callers.done c = true).
Proof. exact CallersProofs.close_in_callers_always_returns. Qed.
Print Assumptions C16_close_in_callers_always_returns.

(* the model was written from these skeletons of createWriter (the OnError closure: select over the processor's context,
   the caller's context and the error channel), regenerated from server_session.go and client.go on every run *)
Theorem C16_callers_skeleton_is_the_code :
  Skel.skel_ss_create_writer = Callers.expected_create_writer /\ Skel.skel_cl_create_writer = Callers.expected_create_writer.
Proof. exact CallersProofs.skel_callers_matches. Qed.
Print Assumptions C16_callers_skeleton_is_the_code.

(* why the processor's own context must be in that select (seeded changes C11-4 and C16-6 removed it): PAUSE closes the
   writer (ctxCancel, buffer.Close, <-done) while an item fails; without that case the consumer waits for a receiver that
   is waiting for the consumer; with it the same state is live *)
Example C16_example_callers_deadlock_without_processor_context :
  (exists c, Callers.run false [Callers.LPause; Callers.LS; Callers.LS; Callers.LCFail] (Callers.init 3%nat) = Some c /\
     Callers.stuckb false c = true /\ Callers.sp c = Callers.SC3 /\ Callers.cp c = Callers.COnErr) /\
  (exists c c', Callers.run true [Callers.LPause; Callers.LS; Callers.LS; Callers.LCFail] (Callers.init 3%nat) = Some c /\
     Callers.step true Callers.LCCtx c = Some c').
Proof. split; [exact CallersProofs.ignoring_processor_context_deadlocks|exact CallersProofs.same_state_is_live]. Qed.

(* ---- translated code (round 8): Push / Pull / Close / Reset of pkg/ringbuffer, regenerated from ringbuffer.go on every
   run as programs of the language of GVL.Imp (coq/gen/Prog.v, tools/go2coq -prog; the mutex / cond calls are ignored
   there: they are the subject of ConcModel.v and the sync skeleton), ARE the model's rpush / rpull / rclose / rreset, the
   functions the refinement theorem above is about: same result, same fields, same buffer, the same index-out-of-range /
   modulo-by-zero panics; for every ring with size, readIndex, writeIndex < 2^63 (Close / Reset: size = len(buffer), as
   New makes it). [holds .. st r]: the program state st carries exactly the fields of r (items as non-zero handles). *)
From GVL Require Import Imp.
From GVG Require Import Prog.
From GV_ring Require Import RingCode.
Theorem C16_push_program_is_the_model : forall r x st, wfr r ->
  holds p_ring_push_v_r_size p_ring_push_v_r_readIndex p_ring_push_v_r_writeIndex p_ring_push_v_r_closed p_ring_push_a_r_buffer st r ->
  V st p_ring_push_v_data = enc x ->
  match rpush r x with
  | PushOk r' => exists st', bs p_ring_push st (ORet [VZ 1%Z] st') /\
      holds p_ring_push_v_r_size p_ring_push_v_r_readIndex p_ring_push_v_r_writeIndex p_ring_push_v_r_closed p_ring_push_a_r_buffer st' r'
  | PushFull => exists st', bs p_ring_push st (ORet [VZ 0%Z] st') /\
      holds p_ring_push_v_r_size p_ring_push_v_r_readIndex p_ring_push_v_r_writeIndex p_ring_push_v_r_closed p_ring_push_a_r_buffer st' r
  | PushPanic => bs p_ring_push st OPanic
  end.
Proof. exact push_program_is_the_model. Qed.
Print Assumptions C16_push_program_is_the_model.

Theorem C16_pull_program_is_the_model : forall r st, wfr r ->
  holds p_ring_pull_v_r_size p_ring_pull_v_r_readIndex p_ring_pull_v_r_writeIndex p_ring_pull_v_r_closed p_ring_pull_a_r_buffer st r ->
  match rpull r with
  | PullGot x r' => exists st', bs p_ring_pull st (ORet [VZ (enc x); VZ 1%Z] st') /\
      holds p_ring_pull_v_r_size p_ring_pull_v_r_readIndex p_ring_pull_v_r_writeIndex p_ring_pull_v_r_closed p_ring_pull_a_r_buffer st' r'
  | PullClosed => exists st', bs p_ring_pull st (ORet [VZ 0%Z; VZ 0%Z] st') /\
      holds p_ring_pull_v_r_size p_ring_pull_v_r_readIndex p_ring_pull_v_r_writeIndex p_ring_pull_v_r_closed p_ring_pull_a_r_buffer st' r
  | PullWouldBlock => True
  | PullPanic => bs p_ring_pull st OPanic
  end.
Proof. exact pull_program_is_the_model. Qed.
Print Assumptions C16_pull_program_is_the_model.

Theorem C16_close_reset_programs_are_the_model : forall r,  wfr r -> rsize r = nlen (rbuf r) ->
  (forall st, holds p_ring_close_v_r_size p_ring_close_v_r_readIndex p_ring_close_v_r_writeIndex p_ring_close_v_r_closed p_ring_close_a_r_buffer st r ->
     exists st', bs p_ring_close st (ONormal st') /\
       holds p_ring_close_v_r_size p_ring_close_v_r_readIndex p_ring_close_v_r_writeIndex p_ring_close_v_r_closed p_ring_close_a_r_buffer st' (rclose r)) /\
  (forall st, holds p_ring_reset_v_r_size p_ring_reset_v_r_readIndex p_ring_reset_v_r_writeIndex p_ring_reset_v_r_closed p_ring_reset_a_r_buffer st r ->
     exists st', bs p_ring_reset st (ONormal st') /\
       holds p_ring_reset_v_r_size p_ring_reset_v_r_readIndex p_ring_reset_v_r_writeIndex p_ring_reset_v_r_closed p_ring_reset_a_r_buffer st' (rreset r)).
Proof. intros r Hw Hl. split; intros st H; [apply close_program_is_the_model|apply reset_program_is_the_model]; assumption. Qed.
Print Assumptions C16_close_reset_programs_are_the_model.

(* the programs run: capacity 2, one item queued: Push returns true and advances writeIndex to 0 (wrap); Pull on it returns the item *)
Example C16_example_ring_programs :
  exec 30 p_ring_push (mkS [(p_ring_push_v_data, 8%Z); (p_ring_push_v_r_size, 2%Z); (p_ring_push_v_r_readIndex, 0%Z);
                            (p_ring_push_v_r_writeIndex, 1%Z); (p_ring_push_v_r_closed, 0%Z)] [(p_ring_push_a_r_buffer, [5; 0]%Z)]) =
    ORet [VZ 1%Z] (mkS [(p_ring_push_v_data, 8%Z); (p_ring_push_v_r_size, 2%Z); (p_ring_push_v_r_readIndex, 0%Z);
                        (p_ring_push_v_r_writeIndex, 0%Z); (p_ring_push_v_r_closed, 0%Z); (p_ring_push_v_tmp_1, 0%Z)] [(p_ring_push_a_r_buffer, [5; 8]%Z)]) /\
  (exists st', exec 30 p_ring_pull (mkS [(p_ring_pull_v_r_size, 2%Z); (p_ring_pull_v_r_readIndex, 0%Z); (p_ring_pull_v_r_writeIndex, 0%Z);
                            (p_ring_pull_v_r_closed, 0%Z)] [(p_ring_pull_a_r_buffer, [5; 8]%Z)]) = ORet [VZ 5%Z; VZ 1%Z] st' /\
               A st' p_ring_pull_a_r_buffer = [0; 8]%Z /\ V st' p_ring_pull_v_r_readIndex = 1%Z).
Proof. split; [vm_compute; reflexivity|eexists; split; [vm_compute; reflexivity|split; reflexivity]]. Qed.

(* determinism of the semantics (GVL.Imp.bs_det) makes the statement two-sided: ANY run of the translated Push from a
   state that holds r returns what rpush says *)
Theorem C16_push_program_only_the_model : forall r x st o, wfr r ->
  holds p_ring_push_v_r_size p_ring_push_v_r_readIndex p_ring_push_v_r_writeIndex p_ring_push_v_r_closed p_ring_push_a_r_buffer st r ->
  V st p_ring_push_v_data = enc x -> bs p_ring_push st o ->
  match rpush r x with
  | PushOk r' => exists st', o = ORet [VZ 1%Z] st' /\
      holds p_ring_push_v_r_size p_ring_push_v_r_readIndex p_ring_push_v_r_writeIndex p_ring_push_v_r_closed p_ring_push_a_r_buffer st' r'
  | PushFull => exists st', o = ORet [VZ 0%Z] st' /\
      holds p_ring_push_v_r_size p_ring_push_v_r_readIndex p_ring_push_v_r_writeIndex p_ring_push_v_r_closed p_ring_push_a_r_buffer st' r
  | PushPanic => o = OPanic
  end.
Proof. exact push_program_only_the_model. Qed.
Print Assumptions C16_push_program_only_the_model.

(* C16 — statements only. Each theorem is closed by [exact] of a lemma proved in Proofs.v / Conc.v
   and followed by Print Assumptions. *)
From GVL Require Import NList.
From GV_ring Require Import Model Proofs.
Open Scope N_scope.

(* For every positive size accepted by New and every operation list in which nothing is pushed
   between a Close and the next Reset, the ring buffer produces exactly the outputs of the bounded
   FIFO queue of that capacity: a push is refused iff the queue holds [size] items, pulls return the
   accepted items in order, each once; after Close every pull says closed. *)
Theorem C16_ring_refines_bounded_fifo : forall size r ops,
  0 < size -> rnew size = Some r -> ok_ops false ops = true ->
  rrun r ops = brun (bnew size) ops.
Proof. exact ring_refines_bq. Qed.
Print Assumptions C16_ring_refines_bounded_fifo.

(* The specification is a FIFO with exactly-once delivery: queued items followed by the accepted
   pushes equal the pulled items followed by what is still queued. *)
Theorem C16_spec_fifo_exactly_once : forall ops b,
  pp_only ops = true ->
  bitems b ++ concat (map (fun p => accepted_of (fst p) (snd p)) (combine ops (brun b ops)))
  = concat (map got_of (brun b ops)) ++ bitems (brun_st b ops).
Proof. exact bq_conservation. Qed.
Print Assumptions C16_spec_fifo_exactly_once.

Theorem C16_spec_refusal_iff_full : forall b x,
  snd (bstep b (OPush x)) = RPushed false <-> bcap b <= nlen (bitems b).
Proof. exact bq_push_refused_iff_full. Qed.
Print Assumptions C16_spec_refusal_iff_full.

Theorem C16_spec_bounded : forall ops b,
  nlen (bitems b) <= bcap b ->
  nlen (bitems (brun_st b ops)) <= bcap b /\ bcap (brun_st b ops) = bcap b.
Proof. exact bq_bounded. Qed.
Print Assumptions C16_spec_bounded.

(* non-vacuity: capacity 2, push push push(refused) pull push pull pull pull(would block) *)
Example C16_example :
  exists r, rnew 2 = Some r /\
  rrun r [OPush 5; OPush 6; OPush 7; OPull; OPush 8; OPull; OPull; OPull] =
  [RPushed true; RPushed true; RPushed false; RGot 5; RPushed true; RGot 6; RGot 8; RWouldBlock].
Proof. eexists. split; reflexivity. Qed.

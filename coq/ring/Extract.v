From Coq Require Extraction ExtrOcamlBasic.
From GV_ring Require Import Model.
Extraction Language OCaml.
Extraction "model.ml" run.

From Coq Require Extraction ExtrOcamlBasic.
From GV_ring Require Import Model RingRun.
Extraction Language OCaml.
(* the driver calls [run]; tools/build_domain.sh appends  let run = run2  (case kind 3 = the translated programs) *)
Extraction "model.ml" run2.

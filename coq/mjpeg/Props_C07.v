(* C07, rtpmjpeg — statements only *)
From GVL Require Import NList Rtp.
From GV_mjpeg Require Import Model Proofs.
Open Scope N_scope.

(* After ANY packet history (loss, duplication, reordering, foreign packets: [hist] is arbitrary), an
   intact image inside the pair's domain is returned exactly at its last packet, "more" before, and
   the fragment table is empty afterwards - no intact predecessor is needed, because the packet with
   fragment offset 0 resets the decoder. *)
Theorem C07_mjpeg_resync : forall max hist seq img s data ty w h tabs,
  valid_image max img s data ty w h tabs ->
  exists ps seq' img' d', enc max seq img = EOk ps seq' /\
    rebuild ty w h tabs data = Some img' /\
    dec_run (fst (dec_run dinit hist)) ps = (d', repeat DMore (length ps - 1) ++ [DFrame img']) /\
    dfrags d' = [] /\ dfsize d' = 0.
Proof. exact resync. Qed.
Print Assumptions C07_mjpeg_resync.

Theorem C07_mjpeg_no_panic : forall hist, ~ In DPanic (snd (dec_run dinit hist)).
Proof. exact total. Qed.
Print Assumptions C07_mjpeg_no_panic.

Definition img3 : bytes :=
  [255;216] ++ [255;219;0;67;0] ++ nrep 3 64 ++
  [255;192;0;17;8;0;8;0;16;3;0;34;0;1;17;0;2;17;0] ++
  [255;218;0;12;3;0;0;1;17;2;17;0;63;0] ++ [1;2;3;4;5;6;7].
Example C07_mjpeg_example : (* the first image loses its first packet; the second one is returned *)
  match enc 80 10 img3, enc 80 20 img3 with
  | EOk pa _, EOk pb _ =>
      map (fun r => match r with DFrame _ => 1 | DMore => 0 | DErr => 2 | DPanic => 77 end)
          (snd (dec_run dinit (tl pa ++ pb))) = [2; 0; 1]
  | _, _ => False
  end.
Proof. vm_compute. reflexivity. Qed.

(* ---- the translated kernels (tools/go2coq, regenerated from the Go source on every run) ----
   The fragment-offset formulas of rtpmjpeg - h.FragmentOffset = uint32(byts[1])<<16 | uint32(byts[2])<<8 |
   uint32(byts[3]) (header_jpeg.go), jh.FragmentOffset == 0, int(jh.FragmentOffset) != d.fragmentsSize,
   d.fragmentsSize += len(byts) (decoder.go) - ARE the formulas of Model.jhdr_unmarshal / dec:
   o2*65536 + o1*256 + o0, off =? 0, negb (off =? dfsize d), dfsize d + nlen byts. *)
From Coq Require Import ZArith.
From GVG Require Import Kern.
From GV_mjpeg Require Import BridgeLib Bridge.
Open Scope Z_scope.

Theorem C07_mjpeg_kernels_are_the_code : forall (o2 o1 o0 off fs : N) (byts : bytes),
  byte o2 -> byte o1 -> byte o0 -> u32 off -> Z.of_N (fs + nlen byts) < i64max ->
  k_mjpeg_jh_fragoff (Z.of_N o2) (Z.of_N o1) (Z.of_N o0) = Z.of_N (o2 * 65536 + o1 * 256 + o0) /\
  k_mjpeg_dec_first (Z.of_N off) = (off =? 0)%N /\
  k_mjpeg_dec_wrongoff (Z.of_N off) (Z.of_N fs) = negb (off =? fs)%N /\
  k_mjpeg_dec_acc (Z.of_N fs) (Z.of_N (nlen byts)) = Z.of_N (fs + nlen byts).
Proof. exact resync_kernels_are_the_code. Qed.
Print Assumptions C07_mjpeg_kernels_are_the_code.

(* 12 34 56 is offset 0x123456; offset 0 starts an image, 1 does not; offset 1302 continues 1302 collected bytes, 1301
   and 1303 do not *)
Example C07_mjpeg_example_kernels :
  k_mjpeg_jh_fragoff 18 52 86 = 1193046 /\ k_mjpeg_jh_fragoff 255 255 255 = 16777215 /\
  k_mjpeg_dec_first 0 = true /\ k_mjpeg_dec_first 1 = false /\
  k_mjpeg_dec_wrongoff 1302 1302 = false /\ k_mjpeg_dec_wrongoff 1301 1302 = true /\
  k_mjpeg_dec_wrongoff 1303 1302 = true /\ k_mjpeg_dec_acc 1302 1442 = 2744.
Proof. vm_compute. repeat split. Qed.

(* C07, rtpmjpeg — statements only *)
From GVL Require Import NList Rtp.
From GV_mjpeg Require Import Model Proofs.
Open Scope N_scope.

(* After ANY packet history (loss, duplication, reordering, foreign packets: [hist] is arbitrary), an
   intact image inside the pair's domain is returned exactly at its last packet, "more" before, and
   the fragment table is empty afterwards - no intact predecessor is needed, because the packet with
   fragment offset 0 resets the decoder. *)
Theorem C07_mjpeg_resync : forall max hist seq img s data ty w h tabs,
  valid_image max img s data ty w h tabs ->
  exists ps seq' img' d', enc max seq img = EOk ps seq' /\
    rebuild ty w h tabs data = Some img' /\
    dec_run (fst (dec_run dinit hist)) ps = (d', repeat DMore (length ps - 1) ++ [DFrame img']) /\
    dfrags d' = [] /\ dfsize d' = 0.
Proof. exact resync. Qed.
Print Assumptions C07_mjpeg_resync.

Theorem C07_mjpeg_no_panic : forall hist, ~ In DPanic (snd (dec_run dinit hist)).
Proof. exact total. Qed.
Print Assumptions C07_mjpeg_no_panic.

Definition img3 : bytes :=
  [255;216] ++ [255;219;0;67;0] ++ nrep 3 64 ++
  [255;192;0;17;8;0;8;0;16;3;0;34;0;1;17;0;2;17;0] ++
  [255;218;0;12;3;0;0;1;17;2;17;0;63;0] ++ [1;2;3;4;5;6;7].
Example C07_mjpeg_example : (* the first image loses its first packet; the second one is returned *)
  match enc 80 10 img3, enc 80 20 img3 with
  | EOk pa _, EOk pb _ =>
      map (fun r => match r with DFrame _ => 1 | DMore => 0 | DErr => 2 | DPanic => 77 end)
          (snd (dec_run dinit (tl pa ++ pb))) = [2; 0; 1]
  | _, _ => False
  end.
Proof. vm_compute. reflexivity. Qed.

(* rtpmjpeg, encoder side: payload layout and packet well-formedness (C06). *)
From GVL Require Import NList Wire Chunks Rtp.
From GVG Require Import Consts.
From GV_mjpeg Require Import Tables Model.
From Coq Require Import ZifyBool ZifyNat ZifyN.
Open Scope N_scope.
Ltac splits := repeat match goal with |- _ /\ _ => split end.

(* ---------- generic ---------- *)
Lemma nnth_app_l {A} (l1 l2 : list A) i : i < nlen l1 -> nnth i (l1 ++ l2) = nnth i l1.
Proof.
  revert i; induction l1 as [|x t IH]; intros i H; cbn [nlen app nnth] in *; [lia|].
  destruct (N.eqb_spec i 0); [reflexivity|]. apply IH. lia.
Qed.
Lemma nnth_app_r {A} (l1 l2 : list A) i : nlen l1 <= i -> nnth i (l1 ++ l2) = nnth (i - nlen l1) l2.
Proof.
  revert i; induction l1 as [|x t IH]; intros i H; cbn [nlen app nnth] in *; [f_equal; lia|].
  destruct (N.eqb_spec i 0); [lia|]. rewrite IH by lia. f_equal. lia.
Qed.
Lemma seq_add_next s k : seq_add (seq_next s) k = seq_add s (k + 1).
Proof. unfold seq_add, seq_next. rewrite N.add_mod_idemp_l by lia. f_equal. lia. Qed.
Lemma seq_add_0 s : s < 65536 -> seq_add s 0 = s.
Proof. intros H. unfold seq_add. rewrite N.add_0_r. now apply N.mod_small. Qed.
Lemma seq_add_add s a b : seq_add (seq_add s a) b = seq_add s (a + b).
Proof. unfold seq_add. rewrite N.add_mod_idemp_l by lia. f_equal. lia. Qed.
Lemma seq_add_lt s k : seq_add s k < 65536.
Proof. unfold seq_add. apply N.mod_lt. lia. Qed.
Lemma seq_next_lt s : seq_next s < 65536.
Proof. unfold seq_next. apply N.mod_lt. lia. Qed.
Lemma concat_snoc {A} (l : list (list A)) x : concat (l ++ [x]) = concat l ++ x.
Proof. rewrite concat_app. cbn. now rewrite app_nil_r. Qed.
Lemma chunks_ne {A} n (l : list A) : 0 < n -> l <> [] -> chunks n l <> [].
Proof. intros Hn Hl. rewrite chunks_cons by assumption. discriminate. Qed.

(* ---------- packets ---------- *)
Lemma mk_pkts_payloads seq cs : map ppayload (mk_pkts seq cs) = cs.
Proof. revert seq; induction cs as [|c t IH]; intros seq; cbn [mk_pkts map]; [reflexivity|]. now rewrite IH. Qed.
Lemma mk_pkts_len seq cs : nlen (mk_pkts seq cs) = nlen cs.
Proof. revert seq; induction cs as [|c t IH]; intros seq; cbn [mk_pkts nlen]; [reflexivity|]. now rewrite IH. Qed.
Lemma mk_pkts_seq cs : forall seq i p, seq < 65536 -> nnth i (mk_pkts seq cs) = Some p -> pseq p = seq_add seq i.
Proof.
  induction cs as [|c t IH]; intros seq i p Hs H; cbn [mk_pkts nnth] in H; [discriminate|].
  destruct (N.eqb_spec i 0) as [->|Hi].
  - injection H as <-. cbn [pseq]. now rewrite seq_add_0.
  - apply IH in H; [|apply seq_next_lt]. rewrite H, seq_add_next. f_equal. lia.
Qed.
Lemma mk_pkts_marker cs : forall seq i p, nnth i (mk_pkts seq cs) = Some p ->
  pmarker p = (i + 1 =? nlen cs).
Proof.
  induction cs as [|c t IH]; intros seq i p H; cbn [mk_pkts nnth] in H; [discriminate|].
  destruct (N.eqb_spec i 0) as [->|Hi].
  - injection H as <-. cbn [pmarker nlen]. destruct t; cbn [nlen]; [reflexivity|].
    symmetry. apply N.eqb_neq. lia.
  - apply IH in H. rewrite H. cbn [nlen].
    destruct (N.eqb_spec (N.pred i + 1) (nlen t)); destruct (N.eqb_spec (i + 1) (N.succ (nlen t))); try reflexivity; lia.
Qed.
Lemma mk_pkts_ts seq cs : Forall (fun p => pts p = 0) (mk_pkts seq cs).
Proof. revert seq; induction cs as [|c t IH]; intros seq; cbn [mk_pkts]; constructor; [reflexivity|apply IH]. Qed.

Lemma mk_pkts_forall (Q : bytes -> Prop) pls : forall seq, Forall Q pls -> Forall (fun p => Q (ppayload p)) (mk_pkts seq pls).
Proof. induction pls as [|c t IH]; intros seq H; cbn [mk_pkts]; [constructor|]. inversion H; subst. constructor; [assumption|now apply IH]. Qed.

(* ---------- payload layout ---------- *)
(* continuation payloads: header for the running offset + the next piece of scan data *)
Fixpoint cont_spec (hdr : N -> bytes) (off : N) (cs : list bytes) : list bytes :=
  match cs with
  | [] => []
  | c :: t => (hdr off ++ c) :: cont_spec hdr (off + nlen c) t
  end.

Lemma cont_payloads_spec max hdr H : (forall off, nlen (hdr off) = H) -> H < max ->
  forall n data, nlen data = n -> forall fuel off, data <> [] -> nlen data <= nlen fuel ->
  cont_payloads fuel max off hdr data = Some (cont_spec hdr off (chunks (max - H) data)).
Proof.
  intros HH Hm n. induction n as [n IH] using (well_founded_induction N.lt_wf_0).
  intros data Hn fuel off Hne Hf. destruct fuel as [|f fuel]; [destruct data; [contradiction|cbn [nlen] in Hf; lia]|].
  cbn [cont_payloads]. rewrite HH. destruct (N.ltb_spec max H); [lia|].
  assert (Hd : 0 < nlen data) by (destruct data; [contradiction|cbn [nlen]; lia]).
  destruct (N.eqb_spec (N.min (max - H) (nlen data)) 0); [lia|].
  rewrite chunks_cons by (assumption || lia). cbn [cont_spec].
  destruct (N.leb_spec (nlen data) (max - H)) as [Hle|Hgt].
  - replace (N.min (max - H) (nlen data)) with (nlen data) by lia.
    rewrite (ndrop_all (nlen data)) by lia. rewrite (ndrop_all (max - H)) by lia.
    rewrite (ntake_all (nlen data)) by lia. rewrite (ntake_all (max - H)) by lia.
    rewrite chunks_nil. reflexivity.
  - replace (N.min (max - H) (nlen data)) with (max - H) by lia.
    assert (Hr : ndrop (max - H) data <> []).
    { intros E. apply (f_equal nlen) in E. rewrite nlen_ndrop in E. cbn in E. lia. }
    destruct (ndrop (max - H) data) as [|x xs] eqn:Ed; [contradiction|]. rewrite <- Ed.
    rewrite (IH (nlen (ndrop (max - H) data))); try reflexivity.
    + cbn [option_map]. rewrite nlen_ntake. replace (N.min (max - H) (nlen data)) with (max - H) by lia. reflexivity.
    + rewrite nlen_ndrop. lia.
    + rewrite Ed. discriminate.
    + rewrite nlen_ndrop. cbn [nlen] in Hf. lia.
Qed.

Lemma jhdr_len off ty q w h : nlen (jhdr off ty q w h) = 8.
Proof. reflexivity. Qed.
Lemma rst_hdr_len dri : nlen (rst_hdr dri) = match dri with None => 0 | Some _ => 4 end.
Proof. destruct dri; reflexivity. Qed.
Lemma qt_hdr_len tabs : nlen (qt_hdr tabs) = 4 + nlen (concat tabs).
Proof. unfold qt_hdr. rewrite nlen_app. reflexivity. Qed.

(* sizes of the fixed parts of the first / of every later payload *)
Definition hlen (s : pst) : N := 8 + match pdri s with None => 0 | Some _ => 4 end.
Definition hlen0 (s : pst) : N := hlen s + 4 + nlen (concat (map snd (pqt s))).
Definition hdr_of (s : pst) (ty w h : N) : N -> bytes :=
  fun off => jhdr off (match pdri s with None => ty | Some _ => ty + 64 end) 255 w h ++ rst_hdr (pdri s).

Lemma hdr_of_len s ty w h off : nlen (hdr_of s ty w h off) = hlen s.
Proof. unfold hdr_of, hlen. rewrite nlen_app, jhdr_len, rst_hdr_len. reflexivity. Qed.

(* the payload list Encode produces: the first packet is filled up to the limit (or carries all the
   scan data), every later one carries max - hlen scan bytes, the last one the rest *)
Definition payload_spec (max : N) (s : pst) (ty w h : N) (data : bytes) : list bytes :=
  let buf0 := hdr_of s ty w h 0 ++ qt_hdr (map snd (pqt s)) in
  let rem := N.min (max - hlen0 s) (nlen data) in
  (buf0 ++ ntake rem data) :: cont_spec (hdr_of s ty w h) rem (chunks (max - hlen s) (ndrop rem data)).

Lemma payloads_spec max s ty w h data : psof s = Some (ty, w, h) -> hlen0 s <= max -> hlen s < max ->
  payloads max s data = Some (payload_spec max s ty w h data).
Proof.
  intros Hs H0 H1. unfold payloads, payload_spec. rewrite Hs. cbv zeta.
  change (fun off : N => jhdr off (match pdri s with None => ty | Some _ => ty + 64 end) 255 w h ++ rst_hdr (pdri s)) with (hdr_of s ty w h).
  change (jhdr 0 (match pdri s with None => ty | Some _ => ty + 64 end) 255 w h ++ rst_hdr (pdri s)) with (hdr_of s ty w h 0).
  assert (L0 : nlen (hdr_of s ty w h 0 ++ qt_hdr (map snd (pqt s))) = hlen0 s).
  { rewrite nlen_app, hdr_of_len, qt_hdr_len. unfold hlen0. lia. }
  rewrite L0. destruct (N.ltb_spec max (hlen0 s)); [lia|].
  set (rem := N.min (max - hlen0 s) (nlen data)).
  destruct (ndrop rem data) as [|x xs] eqn:Ed; [rewrite chunks_nil; reflexivity|]. rewrite <- Ed.
  rewrite (cont_payloads_spec max (hdr_of s ty w h) (hlen s) (hdr_of_len s ty w h) H1 _ _ eq_refl); [reflexivity|rewrite Ed; discriminate|lia].
Qed.

Lemma cont_spec_facts hdr H avail : (forall off, nlen (hdr off) = H) -> forall cs off,
  Forall (fun c => 0 < nlen c /\ nlen c <= avail) cs ->
  Forall (fun pl => H < nlen pl /\ nlen pl <= H + avail) (cont_spec hdr off cs) /\
  concat (map (ndrop H) (cont_spec hdr off cs)) = concat cs /\ nlen (cont_spec hdr off cs) = nlen cs.
Proof.
  intros HH. induction cs as [|c t IH]; intros off Hc; cbn [cont_spec map concat nlen]; [splits; [constructor|reflexivity|reflexivity]|].
  inversion Hc as [|? ? [Hc1 Hc2] Ht]; subst. destruct (IH (off + nlen c) Ht) as (I1 & I2 & I3). splits.
  - constructor; [rewrite nlen_app, HH; lia|exact I1].
  - rewrite I2. f_equal. rewrite <- (HH off). apply ndrop_app_exact.
  - now rewrite I3.
Qed.

(* C06.  For every image the marker loop of Encode accepts (jparse = JOk) and that has a SOF segment,
   every limit that holds the first packet's headers and more than a continuation header, every
   initial sequence number: the payloads are exactly [payload_spec]; none exceeds the limit; the scan
   data is carried completely and in order; packet i has sequence number seq+i mod 2^16; the marker
   is on the last packet and on no other; the encoder continues at seq+count. *)
Theorem enc_wellformed max seq img s data ty w h :
  jparse img = JOk s data -> psof s = Some (ty, w, h) -> hlen0 s <= max -> hlen s < max -> seq < 65536 ->
  exists ps, enc max seq img = EOk ps (seq_add seq (nlen ps)) /\
    map ppayload ps = payload_spec max s ty w h data /\
    Forall (fun p => nlen (ppayload p) <= max) ps /\
    (let rem := N.min (max - hlen0 s) (nlen data) in
     ndrop (hlen0 s) (hd [] (map ppayload ps)) ++ concat (map (ndrop (hlen s)) (tl (map ppayload ps))) = data) /\
    (forall i p, nnth i ps = Some p -> pseq p = seq_add seq i /\ pmarker p = (i + 1 =? nlen ps)) /\
    Forall (fun p => pts p = 0) ps.
Proof.
  intros Hp Hs H0 H1 Hq. unfold enc. rewrite Hp, (payloads_spec max s ty w h data Hs H0 H1).
  exists (mk_pkts seq (payload_spec max s ty w h data)). rewrite mk_pkts_len, mk_pkts_payloads.
  assert (L0 : nlen (hdr_of s ty w h 0 ++ qt_hdr (map snd (pqt s))) = hlen0 s).
  { rewrite nlen_app, hdr_of_len, qt_hdr_len. unfold hlen0. lia. }
  set (rem := N.min (max - hlen0 s) (nlen data)).
  pose proof (chunks_bounds (max - hlen s) (ndrop rem data) ltac:(lia)) as Hb.
  destruct (cont_spec_facts (hdr_of s ty w h) (hlen s) (max - hlen s) (hdr_of_len s ty w h) _ rem Hb) as (C1 & C2 & C3).
  splits; try reflexivity.
  - apply (mk_pkts_forall (fun pl => nlen pl <= max)). unfold payload_spec. fold rem. constructor.
    + rewrite nlen_app, L0, nlen_ntake. lia.
    + eapply Forall_impl; [|exact C1]. cbn. intros pl. lia.
  - unfold payload_spec. fold rem. cbn [hd tl]. rewrite C2. rewrite <- L0 at 1. rewrite ndrop_app_exact.
    rewrite chunks_concat by lia. apply ntake_ndrop.
  - intros i p H. split; [eapply mk_pkts_seq; eassumption|eapply mk_pkts_marker; exact H].
  - apply mk_pkts_ts.
Qed.

(* C03, rtpmjpeg — statements only *)
From GVL Require Import NList Rtp.
From GVG Require Import Consts.
From GV_mjpeg Require Import Model Proofs.
Open Scope N_scope.

(* The round trip is stated over the PARSED image: [jparse] is the executable model of the marker loop
   in Encoder.Encode together with mediacommon's DQT/SOF/DRI/SOS parsers (a defined function, not an
   assumed one), [rebuild] is the model of the JPEG writer at the end of Decoder.Decode.
   valid_image: frame type 0/1 without restart interval (the decoder rejects type > 63, so images
   with a DRI segment are outside the pair's domain - stated, not a finding), dimensions that are
   multiples of 8 below 2048, one or two 64-byte quantisation tables, 2 .. 2^24-1 bytes of scan data,
   and a payload limit that leaves room for at least one scan byte in the first packet
   (8 + 4 + 64*tables + 1: the smallest workable value; with no scan byte in the first packet the
   second packet would carry fragment offset 0 again).
   From ANY decoder state: "more" on every packet but the last; at the last packet an image rebuilt
   from exactly the type, width, height, quantisation tables and entropy-coded data of the original
   (the decoder writes its own fixed Huffman tables and adds an EOI marker if the data has none). *)
Theorem C03_mjpeg_roundtrip : forall max seq img s data ty w h tabs d,
  valid_image max img s data ty w h tabs ->
  exists ps seq' img' d', enc max seq img = EOk ps seq' /\
    rebuild ty w h tabs data = Some img' /\
    dec_run d ps = (d', repeat DMore (length ps - 1) ++ [DFrame img']) /\ dfrags d' = [] /\ dfsize d' = 0.
Proof. exact roundtrip. Qed.
Print Assumptions C03_mjpeg_roundtrip.

(* ... and that image parses - with the parser the encoder itself uses - to the same frame type and
   dimensions, no restart interval, the same quantisation tables (numbered 0..) and the same
   entropy-coded data (plus an end-of-image marker if the input had none): the property's wording. *)
Theorem C03_mjpeg_roundtrip_parsed : forall max seq img s data ty w h tabs d,
  valid_image max img s data ty w h tabs ->
  exists ps seq' img' d' data', enc max seq img = EOk ps seq' /\
    dec_run d ps = (d', repeat DMore (length ps - 1) ++ [DFrame img']) /\
    jparse img' = JOk (mkP (Some (ty, w, h)) None (numbered tabs)) data' /\
    map snd (numbered tabs) = tabs /\
    (data' = data \/ data' = data ++ [255; jpeg_marker_eoi]).
Proof. exact roundtrip_parsed. Qed.
Print Assumptions C03_mjpeg_roundtrip_parsed.

(* consecutive images through one encoder/decoder pair *)
Theorem C03_mjpeg_roundtrip_seq : forall max frames imgs', Forall2 (valid_at max) frames imgs' ->
  forall seq d,
  exists pss d', enc_many max seq frames = Some pss /\ dec_run d (concat pss) = (d', expect pss imgs').
Proof. exact roundtrip_seq. Qed.
Print Assumptions C03_mjpeg_roundtrip_seq.

(* a concrete image: 16x8, type 1, one table, 5 bytes of scan data ending in EOI; limit 79 *)
Definition tab0 : bytes := nrep 3 64.
Definition img1 : bytes :=
  [255;216] ++ [255;219;0;67;0] ++ tab0 ++
  [255;192;0;17;8;0;8;0;16;3;0;34;0;1;17;0;2;17;0] ++
  [255;196;0;5;0;1;2] ++
  [255;218;0;12;3;0;0;1;17;2;17;0;63;0] ++ [9;8;7;255;217].
Example C03_mjpeg_example :
  exists s, valid_image 79 img1 s [9;8;7;255;217] 1 16 8 [tab0] /\
  match enc 79 65535 img1 with
  | EOk ps _ => map pseq ps = [65535; 0] /\
      exists img', rebuild 1 16 8 [tab0] [9;8;7;255;217] = Some img' /\ snd (dec_run dinit ps) = [DMore; DFrame img']
  | _ => False
  end.
Proof.
  eexists. split.
  - unfold valid_image. split; [vm_compute; reflexivity|]. cbn [psof pdri pqt map snd].
    split; [reflexivity|]. split; [reflexivity|]. split; [reflexivity|].
    split; [left; exists tab0; split; [reflexivity|vm_compute; reflexivity]|].
    repeat split; try (vm_compute; discriminate); try (vm_compute; reflexivity).
  - vm_compute. split; [reflexivity|]. eexists. split; reflexivity.
Qed.

(* the same example, checked by computation end to end: the decoder's output parses back (with the
   encoder's own parser) to the same type, dimensions, table and scan data *)
Example C03_mjpeg_example_parse_back :
  match enc 79 65535 img1 with
  | EOk ps _ =>
      match snd (dec_run dinit ps) with
      | [DMore; DFrame img'] =>
          match jparse img' with
          | JOk s data => psof s = Some (1, 16, 8) /\ pdri s = None /\ pqt s = [(0, tab0)] /\ data = [9;8;7;255;217]
          | _ => False
          end
      | _ => False
      end
  | _ => False
  end.
Proof. vm_compute. repeat split; reflexivity. Qed.

From Coq Require Extraction ExtrOcamlBasic.
From GV_mjpeg Require Import Model.
Extraction Language OCaml.
Extraction "model.ml" run.

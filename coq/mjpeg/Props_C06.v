(* C06, rtpmjpeg — statements only *)
From GVL Require Import NList Rtp.
From GV_mjpeg Require Import Model Proofs.
Open Scope N_scope.

(* For every image the marker loop of Encode accepts (jparse = JOk: no panic, no error) and that has a
   SOF segment - restart-interval images included -, every limit that holds the first packet's headers
   (hlen0 = 8 [+4] + 4 + table bytes) and more than a continuation header (hlen = 8 [+4]), every
   initial sequence number: the payloads are exactly [payload_spec] (main header with the running
   24-bit offset [+ restart header] [+ table header in the first packet] + the next piece of scan
   data); none exceeds the limit; the scan data is carried completely and in order; packet i has
   sequence number seq+i mod 2^16; the marker is on the last packet and on no other; the encoder
   continues at seq+count; timestamps are left at 0. *)
Theorem C06_mjpeg_packets_wellformed : forall max seq img s data ty w h,
  jparse img = JOk s data -> psof s = Some (ty, w, h) -> hlen0 s <= max -> hlen s < max -> seq < 65536 ->
  exists ps, enc max seq img = EOk ps (seq_add seq (nlen ps)) /\
    map ppayload ps = payload_spec max s ty w h data /\
    Forall (fun p => nlen (ppayload p) <= max) ps /\
    (let rem := N.min (max - hlen0 s) (nlen data) in
     ndrop (hlen0 s) (hd [] (map ppayload ps)) ++ concat (map (ndrop (hlen s)) (tl (map ppayload ps))) = data) /\
    (forall i p, nnth i ps = Some p -> pseq p = seq_add seq i /\ pmarker p = (i + 1 =? nlen ps)) /\
    Forall (fun p => pts p = 0) ps.
Proof. exact enc_wellformed. Qed.
Print Assumptions C06_mjpeg_packets_wellformed.

Theorem C06_mjpeg_gapless_across_calls : forall max frames, Forall (encodable_at max) frames ->
  forall seq, seq < 65536 ->
  exists pss, enc_many max seq frames = Some pss /\
    forall i p, nnth i (concat pss) = Some p -> pseq p = seq_add seq i.
Proof. exact enc_many_gapless. Qed.
Print Assumptions C06_mjpeg_gapless_across_calls.

Definition img2 : bytes :=      (* one table, 16x8, 7 bytes of scan data *)
  [255;216] ++ [255;219;0;67;0] ++ nrep 3 64 ++
  [255;192;0;17;8;0;8;0;16;3;0;34;0;1;17;0;2;17;0] ++
  [255;218;0;12;3;0;0;1;17;2;17;0;63;0] ++ [1;2;3;4;5;6;7].
Example C06_mjpeg_example :
  match enc 78 65535 img2 with
  | EOk ps _ => map pseq ps = [65535; 0] /\ map pmarker ps = [false; true]
                /\ map (fun p => nlen (ppayload p)) ps = [78; 13]
  | _ => False
  end.
Proof. vm_compute. repeat split; reflexivity. Qed.

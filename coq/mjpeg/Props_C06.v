(* C06, rtpmjpeg — statements only *)
From GVL Require Import NList Rtp.
From GV_mjpeg Require Import Model Proofs.
Open Scope N_scope.

(* For every image the marker loop of Encode accepts (jparse = JOk: no panic, no error) and that has a
   SOF segment - restart-interval images included -, every limit that holds the first packet's headers
   (hlen0 = 8 [+4] + 4 + table bytes) and more than a continuation header (hlen = 8 [+4]), every
   initial sequence number: the payloads are exactly [payload_spec] (main header with the running
   24-bit offset [+ restart header] [+ table header in the first packet] + the next piece of scan
   data); none exceeds the limit; the scan data is carried completely and in order; packet i has
   sequence number seq+i mod 2^16; the marker is on the last packet and on no other; the encoder
   continues at seq+count; timestamps are left at 0. *)
Theorem C06_mjpeg_packets_wellformed : forall max seq img s data ty w h,
  jparse img = JOk s data -> psof s = Some (ty, w, h) -> hlen0 s <= max -> hlen s < max -> seq < 65536 ->
  exists ps, enc max seq img = EOk ps (seq_add seq (nlen ps)) /\
    map ppayload ps = payload_spec max s ty w h data /\
    Forall (fun p => nlen (ppayload p) <= max) ps /\
    (let rem := N.min (max - hlen0 s) (nlen data) in
     ndrop (hlen0 s) (hd [] (map ppayload ps)) ++ concat (map (ndrop (hlen s)) (tl (map ppayload ps))) = data) /\
    (forall i p, nnth i ps = Some p -> pseq p = seq_add seq i /\ pmarker p = (i + 1 =? nlen ps)) /\
    Forall (fun p => pts p = 0) ps.
Proof. exact enc_wellformed. Qed.
Print Assumptions C06_mjpeg_packets_wellformed.

Theorem C06_mjpeg_gapless_across_calls : forall max frames, Forall (encodable_at max) frames ->
  forall seq, seq < 65536 ->
  exists pss, enc_many max seq frames = Some pss /\
    forall i p, nnth i (concat pss) = Some p -> pseq p = seq_add seq i.
Proof. exact enc_many_gapless. Qed.
Print Assumptions C06_mjpeg_gapless_across_calls.

Definition img2 : bytes :=      (* one table, 16x8, 7 bytes of scan data *)
  [255;216] ++ [255;219;0;67;0] ++ nrep 3 64 ++
  [255;192;0;17;8;0;8;0;16;3;0;34;0;1;17;0;2;17;0] ++
  [255;218;0;12;3;0;0;1;17;2;17;0;63;0] ++ [1;2;3;4;5;6;7].
Example C06_mjpeg_example :
  match enc 78 65535 img2 with
  | EOk ps _ => map pseq ps = [65535; 0] /\ map pmarker ps = [false; true]
                /\ map (fun p => nlen (ppayload p)) ps = [78; 13]
  | _ => False
  end.
Proof. vm_compute. repeat split; reflexivity. Qed.

(* ---- the translated kernels (tools/go2coq, regenerated from the Go source on every run) ----
   The integer formulas of rtpmjpeg/encoder.go and of the three header marshal functions - the five segment lengths
   int(image[0])<<8 | int(image[1]), the APPn markers 0xE0..0xE2, Quantization: 255, jh.Type += 64, FragmentOffset =
   uint32(offset) and its bytes >> 16, >> 8, low, byte(Width/8), byte(Height/8), the restart-marker header bytes
   (Interval >> 8, Interval, Count 0xFFFF), the quantization-table header length len(Tables)*64 and its two bytes,
   the payload budget remaining := PayloadMaxSize - len(buf) with its clipping remaining > ldata (Bridge.rem_code),
   offset += remaining, Marker: len(data) == 0, the loop exit, e.sequenceNumber++ - ARE the formulas of Model.seg_len /
   is_skipped / jhdr / rst_hdr / qt_hdr / payloads / cont_payloads / mk_pkts: be16, 224..226, 255, (ty+64) mod 256,
   (off/65536) mod 256, hi8 off, lo8 off, (w/8) mod 256, N.min (max - nlen buf) (nlen data) (None when max <? nlen buf),
   off + rem, rest = [], seq_next. *)
From Coq Require Import ZArith.
From GVL Require Import Wrap.
From GVG Require Import Kern.
From GV_mjpeg Require Import BridgeLib Bridge.
Open Scope Z_scope.

Theorem C06_mjpeg_kernels_are_the_code :
  forall (a b ty off w h iv nt max lbuf ldata rem s : N) (rest : bytes),
  byte a -> byte b -> byte ty -> Z.of_N off < i64max -> Z.of_N w < i64max -> Z.of_N h < i64max -> u16 iv ->
  Z.of_N nt * 64 < i64max -> Z.of_N max < i64max -> Z.of_N lbuf < i64max -> Z.of_N (off + rem) < i64max ->
  k_mjpeg_mlen_skip (Z.of_N a) (Z.of_N b) = Z.of_N (be16 a b) /\ k_mjpeg_mlen_dqt (Z.of_N a) (Z.of_N b) = Z.of_N (be16 a b) /\
  k_mjpeg_mlen_dri (Z.of_N a) (Z.of_N b) = Z.of_N (be16 a b) /\ k_mjpeg_mlen_sof (Z.of_N a) (Z.of_N b) = Z.of_N (be16 a b) /\
  k_mjpeg_mlen_sos (Z.of_N a) (Z.of_N b) = Z.of_N (be16 a b) /\
  k_mjpeg_skip0 = Z.of_N 224 /\ k_mjpeg_skip1 = Z.of_N 225 /\ k_mjpeg_skip2 = Z.of_N 226 /\ k_mjpeg_enc_q = Z.of_N 255 /\
  k_mjpeg_type_dri (Z.of_N ty) = Z.of_N ((ty + 64) mod 256) /\
  w8 (k_mjpeg_jh_off2 (k_mjpeg_fragoff (Z.of_N off))) = Z.of_N ((off / 65536) mod 256) /\
  w8 (k_mjpeg_jh_off1 (k_mjpeg_fragoff (Z.of_N off))) = Z.of_N (hi8 off) /\
  w8 (k_mjpeg_jh_off0 (k_mjpeg_fragoff (Z.of_N off))) = Z.of_N (lo8 off) /\
  k_mjpeg_jh_w (Z.of_N w) = Z.of_N ((w / 8) mod 256) /\ k_mjpeg_jh_h (Z.of_N h) = Z.of_N ((h / 8) mod 256) /\
  w8 (k_mjpeg_rst_i1 (Z.of_N iv)) = Z.of_N (hi8 iv) /\ w8 (k_mjpeg_rst_i0 (Z.of_N iv)) = Z.of_N (lo8 iv) /\
  w8 (k_mjpeg_rst_c1 k_mjpeg_rst_count) = Z.of_N 255 /\ w8 (k_mjpeg_rst_c0 k_mjpeg_rst_count) = Z.of_N 255 /\
  k_mjpeg_qth_l (Z.of_N nt) = Z.of_N (nt * 64) /\
  w8 (k_mjpeg_qth_l1 (k_mjpeg_qth_l (Z.of_N nt))) = Z.of_N (hi8 (nt * 64)) /\
  w8 (k_mjpeg_qth_l0 (k_mjpeg_qth_l (Z.of_N nt))) = Z.of_N (lo8 (nt * 64)) /\
  (rem_code (Z.of_N max) (Z.of_N lbuf) (Z.of_N ldata) <? 0) = (max <? lbuf)%N /\
  ((lbuf <= max)%N -> rem_code (Z.of_N max) (Z.of_N lbuf) (Z.of_N ldata) = Z.of_N (N.min (max - lbuf) ldata)) /\
  k_mjpeg_offset_acc (Z.of_N off) (Z.of_N rem) = Z.of_N (off + rem) /\
  k_mjpeg_marker (Z.of_N (nlen rest)) = match rest with [] => true | _ :: _ => false end /\
  k_mjpeg_done (Z.of_N (nlen rest)) = match rest with [] => true | _ :: _ => false end /\
  k_mjpeg_seq (Z.of_N s) = Z.of_N (seq_next s).
Proof. exact enc_kernels_are_the_code. Qed.
Print Assumptions C06_mjpeg_kernels_are_the_code.

(* the translated kernels compute, on the boundaries: a 1450-byte limit and a 148-byte header leave 1302 bytes, clipped
   to 1000 when only 1000 are left, not clipped at exactly 1302; a header longer than the limit gives a negative count;
   the marker is set when no data is left; offset 0x123456 is written as 12 34 56; width 2040 -> 255; segment length
   0x01 0x02 = 258; two tables -> 00 80; type 1 with a restart interval -> 65; 65535++ = 0 *)
Example C06_mjpeg_example_kernels :
  rem_code 1450 148 5000 = 1302 /\ rem_code 1450 148 1000 = 1000 /\ rem_code 1450 148 1302 = 1302 /\
  rem_code 1450 148 1303 = 1302 /\ rem_code 100 148 5000 = -48 /\
  k_mjpeg_marker 0 = true /\ k_mjpeg_marker 1 = false /\ k_mjpeg_done 0 = true /\ k_mjpeg_offset_acc 1302 1442 = 2744 /\
  w8 (k_mjpeg_jh_off2 (k_mjpeg_fragoff 1193046)) = 18 /\ w8 (k_mjpeg_jh_off1 (k_mjpeg_fragoff 1193046)) = 52 /\
  w8 (k_mjpeg_jh_off0 (k_mjpeg_fragoff 1193046)) = 86 /\ k_mjpeg_jh_w 2040 = 255 /\ k_mjpeg_jh_h 8 = 1 /\
  k_mjpeg_mlen_sos 1 2 = 258 /\ k_mjpeg_mlen_dqt 0 67 = 67 /\
  w8 (k_mjpeg_qth_l1 (k_mjpeg_qth_l 2)) = 0 /\ w8 (k_mjpeg_qth_l0 (k_mjpeg_qth_l 2)) = 128 /\
  w8 (k_mjpeg_rst_i1 258) = 1 /\ w8 (k_mjpeg_rst_i0 258) = 2 /\ k_mjpeg_type_dri 1 = 65 /\ k_mjpeg_seq 65535 = 0.
Proof. vm_compute. repeat split. Qed.

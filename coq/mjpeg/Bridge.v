(* BRIDGE: the integer formulas of pkg/format/rtpmjpeg (encoder.go, decoder.go, header_jpeg.go,
   header_quantization_table.go, header_restart_marker.go) as TRANSLATED from the Go source on this run (GVG.Kern,
   tools/go2coq, spec.d/mjpeg.txt) are the formulas the hand-written Model.v uses: the five segment lengths
   int(image[0])<<8 | int(image[1]), the skipped APPn markers, Quantization 255, Type += 64, the payload budget
   PayloadMaxSize - len(buf) and its clipping, offset += remaining, FragmentOffset = uint32(offset) and its three header
   bytes, Width/8, Height/8, the restart-marker and quantization-table header bytes, the marker, the sequence number step;
   in the decoder the fragment-offset field and its two tests, the size accumulation, the length tests, the type /
   quantization validity tests, width*8, the quantization-table header (precision, length, 64/128, truncation test, table
   count, consumed size) and every statement of makeQuantizationTables.
   Re-checked against the regenerated Kern.v on every run. *)
From Coq Require Import ZArith NArith List Lia Bool.
From Coq Require Import ZifyBool ZifyN.
From GVL Require Import NList Wrap Chunks Rtp.
From GVG Require Import Kern.
From GV_mjpeg Require Import Model BridgeLib.
Import ListNotations.
Open Scope Z_scope.

Definition byte (b : N) : Prop := (b < 256)%N.
Definition u16 (s : N) : Prop := (s < 65536)%N.
Definition u32 (s : N) : Prop := (s < 4294967296)%N.

(* a << k | b  =  a * 2^k + b   when b < 2^k *)
Lemma lor_shift a b k : 0 <= k -> 0 <= a -> 0 <= b < 2 ^ k -> Z.lor (Z.shiftl a k) b = a * 2 ^ k + b.
Proof.
  intros Hk Ha Hb. rewrite Z.shiftl_mul_pow2 by lia.
  rewrite <- Z.lxor_lor, <- Z.add_nocarry_lxor; try reflexivity.
  all: apply Z.bits_inj'; intros n Hn; rewrite Z.land_spec, Z.bits_0.
  all: destruct (Z.lt_ge_cases n k) as [L|G].
  all: try (rewrite Z.mul_pow2_bits_low by lia; reflexivity).
  all: destruct (Z.eq_dec b 0) as [->|Hb0]; [rewrite Z.bits_0, andb_false_r; reflexivity|].
  all: rewrite (Z.bits_above_log2 b n); [apply andb_false_r|lia|].
  all: assert (Z.log2 b < k) by (apply Z.log2_lt_pow2; lia); lia.
Qed.

(* int(a)<<8 | int(b)   is Model.be16 *)
Lemma be16_code (a b : N) : byte a -> byte b ->
  ki64 (Z.lor (ki64 (Z.shiftl (ki64 (Z.of_N a)) 8)) (ki64 (Z.of_N b))) = Z.of_N (be16 a b).
Proof.
  unfold byte, be16. intros Ha Hb. rewrite (ki64_small (Z.of_N a)), (ki64_small (Z.of_N b)) by lia.
  rewrite (ki64_small (Z.shiftl _ 8)) by (rewrite Z.shiftl_mul_pow2 by lia; change (2 ^ 8) with 256; lia).
  rewrite lor_shift8 by lia. rewrite ki64_small by lia. lia.
Qed.

(* ---------- encoder ---------- *)

(* mlen := int(image[0])<<8 | int(image[1])   (five copies)  is Model.seg_len; case 0xE0, 0xE1, 0xE2 are the first
   three markers of Model.is_skipped; Quantization: 255; jh.Type += 64 *)
Lemma bridge_parse (a b ty : N) : byte a -> byte b -> byte ty ->
  k_mjpeg_mlen_skip (Z.of_N a) (Z.of_N b) = Z.of_N (be16 a b) /\ k_mjpeg_mlen_dqt (Z.of_N a) (Z.of_N b) = Z.of_N (be16 a b) /\
  k_mjpeg_mlen_dri (Z.of_N a) (Z.of_N b) = Z.of_N (be16 a b) /\ k_mjpeg_mlen_sof (Z.of_N a) (Z.of_N b) = Z.of_N (be16 a b) /\
  k_mjpeg_mlen_sos (Z.of_N a) (Z.of_N b) = Z.of_N (be16 a b) /\
  k_mjpeg_skip0 = Z.of_N 224 /\ k_mjpeg_skip1 = Z.of_N 225 /\ k_mjpeg_skip2 = Z.of_N 226 /\ k_mjpeg_enc_q = Z.of_N 255 /\
  k_mjpeg_type_dri (Z.of_N ty) = Z.of_N ((ty + 64) mod 256).
Proof.
  intros Ha Hb Ht. pose proof (be16_code a b Ha Hb) as E.
  repeat (split; [first [exact E|reflexivity]|]). unfold k_mjpeg_type_dri, w8, byte in *. lia.
Qed.

(* jh.FragmentOffset = uint32(offset), then byte(h.FragmentOffset >> 16), byte(... >> 8), byte(...); byte(h.Width/8),
   byte(h.Height/8)   are the bytes of Model.jhdr  (the conversions byte(x) of the three offset bytes sit inside a
   composite literal, which is not a site: they are written here as w8) *)
Lemma bridge_jhdr (off w h : N) : Z.of_N off < i64max -> Z.of_N w < i64max -> Z.of_N h < i64max ->
  w8 (k_mjpeg_jh_off2 (k_mjpeg_fragoff (Z.of_N off))) = Z.of_N ((off / 65536) mod 256) /\
  w8 (k_mjpeg_jh_off1 (k_mjpeg_fragoff (Z.of_N off))) = Z.of_N (hi8 off) /\
  w8 (k_mjpeg_jh_off0 (k_mjpeg_fragoff (Z.of_N off))) = Z.of_N (lo8 off) /\
  k_mjpeg_jh_w (Z.of_N w) = Z.of_N ((w / 8) mod 256) /\ k_mjpeg_jh_h (Z.of_N h) = Z.of_N ((h / 8) mod 256).
Proof.
  unfold i64max, k_mjpeg_jh_off2, k_mjpeg_jh_off1, k_mjpeg_jh_off0, k_mjpeg_fragoff, k_mjpeg_jh_w, k_mjpeg_jh_h, hi8, lo8.
  intros Ho Hw Hh. rewrite !Z.shiftr_div_pow2 by lia. change (2 ^ 16) with 65536. change (2 ^ 8) with 256.
  rewrite !Z.quot_div_nonneg by lia. rewrite (ki64_small (Z.of_N w / 8)), (ki64_small (Z.of_N h / 8)) by lia.
  unfold w8, w32. repeat split; lia.
Qed.

(* headerRestartMarker{Interval, Count: 0xFFFF}.marshal and headerQuantizationTable.marshal: Model.rst_hdr, Model.qt_hdr *)
Lemma bridge_subhdrs (iv nt : N) : u16 iv -> Z.of_N nt * 64 < i64max ->
  w8 (k_mjpeg_rst_i1 (Z.of_N iv)) = Z.of_N (hi8 iv) /\ w8 (k_mjpeg_rst_i0 (Z.of_N iv)) = Z.of_N (lo8 iv) /\
  w8 (k_mjpeg_rst_c1 k_mjpeg_rst_count) = Z.of_N 255 /\ w8 (k_mjpeg_rst_c0 k_mjpeg_rst_count) = Z.of_N 255 /\
  k_mjpeg_qth_l (Z.of_N nt) = Z.of_N (nt * 64) /\
  w8 (k_mjpeg_qth_l1 (k_mjpeg_qth_l (Z.of_N nt))) = Z.of_N (hi8 (nt * 64)) /\
  w8 (k_mjpeg_qth_l0 (k_mjpeg_qth_l (Z.of_N nt))) = Z.of_N (lo8 (nt * 64)).
Proof.
  unfold u16, i64max, k_mjpeg_rst_i1, k_mjpeg_rst_i0, k_mjpeg_qth_l, k_mjpeg_qth_l1, k_mjpeg_qth_l0, hi8, lo8.
  intros Hi Hn. rewrite (ki64_small (Z.of_N nt * 64)) by lia. rewrite !Z.shiftr_div_pow2 by lia. change (2 ^ 8) with 256.
  rewrite (ki64_small (_ / 256)) by lia. unfold w8, w16.
  split; [lia|]. split; [lia|]. split; [reflexivity|]. split; [reflexivity|]. repeat split; lia.
Qed.

(* remaining := e.PayloadMaxSize - len(buf); if remaining > ldata { remaining = ldata }: the skeleton over the two
   kernels is N.min (max - nlen buf) (nlen data) of Model.payloads / cont_payloads; it is negative (data[:remaining]
   panics) exactly when max <? nlen buf *)
Definition rem_code (max lbuf ldata : Z) : Z :=
  let r := k_mjpeg_remaining max lbuf in if k_mjpeg_rem_clip r ldata then ldata else r.

Lemma bridge_remaining (max lbuf ldata : N) : Z.of_N max < i64max -> Z.of_N lbuf < i64max ->
  (rem_code (Z.of_N max) (Z.of_N lbuf) (Z.of_N ldata) <? 0) = (max <? lbuf)%N /\
  ((lbuf <= max)%N -> rem_code (Z.of_N max) (Z.of_N lbuf) (Z.of_N ldata) = Z.of_N (N.min (max - lbuf) ldata)).
Proof.
  unfold i64max, rem_code, k_mjpeg_remaining, k_mjpeg_rem_clip. intros Hm Hb. cbv zeta. rewrite ki64_small by lia.
  destruct (Z.gtb_spec (Z.of_N max - Z.of_N lbuf) (Z.of_N ldata)); split; try lia.
  all: match goal with |- (?a <? 0) = _ => destruct (Z.ltb_spec a 0), (N.ltb_spec max lbuf); lia end.
Qed.

(* offset += remaining; Marker: len(data) == 0; the loop exit len(data) == 0; e.sequenceNumber++ *)
Lemma bridge_step (off rem s : N) (rest : bytes) : Z.of_N (off + rem) < i64max ->
  k_mjpeg_offset_acc (Z.of_N off) (Z.of_N rem) = Z.of_N (off + rem) /\
  k_mjpeg_marker (Z.of_N (nlen rest)) = match rest with [] => true | _ :: _ => false end /\
  k_mjpeg_done (Z.of_N (nlen rest)) = match rest with [] => true | _ :: _ => false end /\
  k_mjpeg_seq (Z.of_N s) = Z.of_N (seq_next s).
Proof.
  unfold i64max, k_mjpeg_offset_acc, k_mjpeg_marker, k_mjpeg_done, k_mjpeg_seq, seq_next. intros H.
  rewrite ki64_small by lia. split; [lia|]. split; [destruct rest; cbn [nlen]; lia|].
  split; [destruct rest; cbn [nlen]; lia|]. apply w16_succ_N.
Qed.

Theorem enc_kernels_are_the_code (a b ty off w h iv nt max lbuf ldata rem s : N) (rest : bytes) :
  byte a -> byte b -> byte ty -> Z.of_N off < i64max -> Z.of_N w < i64max -> Z.of_N h < i64max -> u16 iv ->
  Z.of_N nt * 64 < i64max -> Z.of_N max < i64max -> Z.of_N lbuf < i64max -> Z.of_N (off + rem) < i64max ->
  k_mjpeg_mlen_skip (Z.of_N a) (Z.of_N b) = Z.of_N (be16 a b) /\ k_mjpeg_mlen_dqt (Z.of_N a) (Z.of_N b) = Z.of_N (be16 a b) /\
  k_mjpeg_mlen_dri (Z.of_N a) (Z.of_N b) = Z.of_N (be16 a b) /\ k_mjpeg_mlen_sof (Z.of_N a) (Z.of_N b) = Z.of_N (be16 a b) /\
  k_mjpeg_mlen_sos (Z.of_N a) (Z.of_N b) = Z.of_N (be16 a b) /\
  k_mjpeg_skip0 = Z.of_N 224 /\ k_mjpeg_skip1 = Z.of_N 225 /\ k_mjpeg_skip2 = Z.of_N 226 /\ k_mjpeg_enc_q = Z.of_N 255 /\
  k_mjpeg_type_dri (Z.of_N ty) = Z.of_N ((ty + 64) mod 256) /\
  w8 (k_mjpeg_jh_off2 (k_mjpeg_fragoff (Z.of_N off))) = Z.of_N ((off / 65536) mod 256) /\
  w8 (k_mjpeg_jh_off1 (k_mjpeg_fragoff (Z.of_N off))) = Z.of_N (hi8 off) /\
  w8 (k_mjpeg_jh_off0 (k_mjpeg_fragoff (Z.of_N off))) = Z.of_N (lo8 off) /\
  k_mjpeg_jh_w (Z.of_N w) = Z.of_N ((w / 8) mod 256) /\ k_mjpeg_jh_h (Z.of_N h) = Z.of_N ((h / 8) mod 256) /\
  w8 (k_mjpeg_rst_i1 (Z.of_N iv)) = Z.of_N (hi8 iv) /\ w8 (k_mjpeg_rst_i0 (Z.of_N iv)) = Z.of_N (lo8 iv) /\
  w8 (k_mjpeg_rst_c1 k_mjpeg_rst_count) = Z.of_N 255 /\ w8 (k_mjpeg_rst_c0 k_mjpeg_rst_count) = Z.of_N 255 /\
  k_mjpeg_qth_l (Z.of_N nt) = Z.of_N (nt * 64) /\
  w8 (k_mjpeg_qth_l1 (k_mjpeg_qth_l (Z.of_N nt))) = Z.of_N (hi8 (nt * 64)) /\
  w8 (k_mjpeg_qth_l0 (k_mjpeg_qth_l (Z.of_N nt))) = Z.of_N (lo8 (nt * 64)) /\
  (rem_code (Z.of_N max) (Z.of_N lbuf) (Z.of_N ldata) <? 0) = (max <? lbuf)%N /\
  ((lbuf <= max)%N -> rem_code (Z.of_N max) (Z.of_N lbuf) (Z.of_N ldata) = Z.of_N (N.min (max - lbuf) ldata)) /\
  k_mjpeg_offset_acc (Z.of_N off) (Z.of_N rem) = Z.of_N (off + rem) /\
  k_mjpeg_marker (Z.of_N (nlen rest)) = match rest with [] => true | _ :: _ => false end /\
  k_mjpeg_done (Z.of_N (nlen rest)) = match rest with [] => true | _ :: _ => false end /\
  k_mjpeg_seq (Z.of_N s) = Z.of_N (seq_next s).
Proof.
  intros Ha Hb Ht Ho Hw Hh Hi Hn Hm Hl Hr.
  destruct (bridge_parse a b ty Ha Hb Ht) as (A1 & A2 & A3 & A4 & A5 & A6 & A7 & A8 & A9 & A10).
  destruct (bridge_jhdr off w h Ho Hw Hh) as (B1 & B2 & B3 & B4 & B5).
  destruct (bridge_subhdrs iv nt Hi Hn) as (C1 & C2 & C3 & C4 & C5 & C6 & C7).
  destruct (bridge_remaining max lbuf ldata Hm Hl) as (D1 & D2).
  destruct (bridge_step off rem s rest Hr) as (E1 & E2 & E3 & E4).
  repeat split; assumption.
Qed.

(* ---------- decoder: the fragment offset and its tests (C07) ---------- *)

Lemma lor_disjoint a b k : 0 <= k -> 0 <= a -> a mod 2 ^ k = 0 -> 0 <= b < 2 ^ k -> Z.lor a b = a + b.
Proof.
  intros Hk Ha Hm Hb. assert (P : 0 < 2 ^ k) by (apply Z.pow_pos_nonneg; lia).
  assert (E : a = Z.shiftl (a / 2 ^ k) k).
  { rewrite Z.shiftl_mul_pow2 by lia. pose proof (Z.div_mod a (2 ^ k) ltac:(lia)). lia. }
  rewrite E at 1. rewrite lor_shift; [|lia|apply Z.div_pos; lia|lia]. pose proof (Z.div_mod a (2 ^ k) ltac:(lia)). lia.
Qed.

Theorem resync_kernels_are_the_code (o2 o1 o0 off fs : N) (byts : bytes) :
  byte o2 -> byte o1 -> byte o0 -> u32 off -> Z.of_N (fs + nlen byts) < i64max ->
  k_mjpeg_jh_fragoff (Z.of_N o2) (Z.of_N o1) (Z.of_N o0) = Z.of_N (o2 * 65536 + o1 * 256 + o0) /\
  k_mjpeg_dec_first (Z.of_N off) = (off =? 0)%N /\
  k_mjpeg_dec_wrongoff (Z.of_N off) (Z.of_N fs) = negb (off =? fs)%N /\
  k_mjpeg_dec_acc (Z.of_N fs) (Z.of_N (nlen byts)) = Z.of_N (fs + nlen byts).
Proof.
  unfold byte, u32, i64max. intros H2 H1 H0 Ho Hf. split; [|split; [|split]].
  - unfold k_mjpeg_jh_fragoff. rewrite (w32_small (Z.of_N o2)), (w32_small (Z.of_N o1)), (w32_small (Z.of_N o0)) by lia.
    rewrite (Z.shiftl_mul_pow2 _ 8) by lia. change (2 ^ 8) with 256. rewrite (w32_small (Z.of_N o1 * 256)) by lia.
    rewrite (w32_small (Z.shiftl _ 16)) by (rewrite Z.shiftl_mul_pow2 by lia; change (2 ^ 16) with 65536; lia).
    rewrite lor_shift by (change (2 ^ 16) with 65536; lia). change (2 ^ 16) with 65536.
    rewrite (w32_small (_ + _)) by lia.
    rewrite (lor_disjoint _ _ 8) by (change (2 ^ 8) with 256; lia). rewrite w32_small by lia. lia.
  - unfold k_mjpeg_dec_first. exact (eqb_N off 0).
  - unfold k_mjpeg_dec_wrongoff. rewrite ki64_small by lia. rewrite eqb_N. reflexivity.
  - unfold k_mjpeg_dec_acc. rewrite ki64_small by lia. lia.
Qed.

(* ---------- decoder: length tests, validity tests, quantization tables (C08) ---------- *)

Lemma bridge_jh_tests (b : bytes) (ty q w h fs : N) : byte w -> byte h ->
  k_mjpeg_jh_short (Z.of_N (nlen b)) = (nlen b <? 8)%N /\ k_mjpeg_jh_size = Z.of_N 8 /\
  k_mjpeg_jh_badtype (Z.of_N ty) = (63 <? ty)%N /\
  k_mjpeg_jh_badq (Z.of_N q) = ((q =? 0)%N || ((99 <? q)%N && (q <? 127)%N)) /\
  k_mjpeg_jh_width (Z.of_N w) = Z.of_N (w * 8) /\ k_mjpeg_jh_height (Z.of_N h) = Z.of_N (h * 8) /\
  k_mjpeg_dec_qdyn (Z.of_N q) = (128 <=? q)%N /\ k_mjpeg_dec_tiny (Z.of_N fs) = (fs <? 2)%N.
Proof.
  unfold byte, k_mjpeg_jh_short, k_mjpeg_jh_badtype, k_mjpeg_jh_badq, k_mjpeg_jh_width, k_mjpeg_jh_height,
    k_mjpeg_dec_qdyn, k_mjpeg_dec_tiny. intros Hw Hh.
  split; [exact (ltb_N (nlen b) 8)|]. split; [reflexivity|]. split; [exact (gtb_N ty 63)|].
  split; [rewrite Z.gtb_ltb, <- (eqb_N q 0), <- (ltb_N 99 q), <- (ltb_N q 127); reflexivity|].
  rewrite (ki64_small (Z.of_N w)), (ki64_small (Z.of_N h)) by lia. rewrite !ki64_small by lia.
  split; [lia|]. split; [lia|]. split; [exact (geb_N q 128)|exact (ltb_N fs 2)].
Qed.

(* headerQuantizationTable.unmarshal *)
Lemma bridge_qt (b : bytes) (pr l1 l0 : N) : byte l1 -> byte l0 -> (4 <= nlen b)%N -> Z.of_N (nlen b) < i64max ->
  k_mjpeg_qt_short (Z.of_N (nlen b)) = (nlen b <? 4)%N /\
  k_mjpeg_qt_badprec (Z.of_N pr) = negb (pr =? 0)%N /\
  k_mjpeg_qt_length (Z.of_N l1) (Z.of_N l0) = Z.of_N (be16 l1 l0) /\
  k_mjpeg_qt_len1 = Z.of_N 64 /\ k_mjpeg_qt_len2 = Z.of_N 128 /\
  k_mjpeg_qt_trunc (Z.of_N (nlen b)) (Z.of_N (be16 l1 l0)) = (nlen b - 4 <? be16 l1 l0)%N /\
  k_mjpeg_qt_count k_mjpeg_qt_len1 = Z.of_N 1 /\ k_mjpeg_qt_count k_mjpeg_qt_len2 = Z.of_N 2 /\
  k_mjpeg_qt_size k_mjpeg_qt_len1 = Z.of_N 68 /\ k_mjpeg_qt_size k_mjpeg_qt_len2 = Z.of_N 132.
Proof.
  unfold byte, i64max. intros H1 H0 H4 Hl.
  split; [exact (ltb_N (nlen b) 4)|]. split; [unfold k_mjpeg_qt_badprec; rewrite <- (eqb_N pr 0); reflexivity|].
  split; [apply be16_code; assumption|]. split; [reflexivity|]. split; [reflexivity|].
  split; [|vm_compute; repeat split].
  unfold k_mjpeg_qt_trunc, i64max. rewrite ki64_small by lia.
  destruct (Z.ltb_spec (Z.of_N (nlen b) - 4) (Z.of_N (be16 l1 l0))), (N.ltb_spec (nlen b - 4) (be16 l1 l0)); lia.
Qed.

(* makeQuantizationTables: the scale, and one table entry (the loop body, both copies) *)
Definition scale_code (q : Z) : option Z :=
  if k_mjpeg_mq_low q then k_mjpeg_mq_scale_lo q else Some (k_mjpeg_mq_scale_hi q).
Definition luma_entry_code (sc base : Z) : Z :=
  let v := k_mjpeg_mq_lv base sc in
  let v := if k_mjpeg_mq_lbig v then 255 else if k_mjpeg_mq_lzero v then 1 else v in
  k_mjpeg_mq_lbyte v.
Definition chroma_entry_code (sc base : Z) : Z :=
  let v := k_mjpeg_mq_cv base sc in
  let v := if k_mjpeg_mq_cbig v then 255 else if k_mjpeg_mq_czero v then 1 else v in
  k_mjpeg_mq_cbyte v.

Lemma bridge_scale (q : N) : (1 <= q)%N -> byte q -> scale_code (Z.of_N q) = Some (scale_of q).
Proof.
  unfold byte, scale_code, scale_of, k_mjpeg_mq_low, k_mjpeg_mq_scale_lo, k_mjpeg_mq_scale_hi. intros H1 Hq.
  rewrite !(ki64_small (Z.of_N q)) by lia.
  destruct (Z.ltb_spec (Z.of_N q) 50), (N.ltb_spec q 50); try lia.
  - destruct (Z.eqb_spec (Z.of_N q) 0); [lia|].
    rewrite ki64_small; [reflexivity|]. rewrite Z.quot_div_nonneg by lia.
    assert (0 <= 5000 / Z.of_N q <= 5000) by (split; [apply Z.div_pos; lia|apply Z.div_le_upper_bound; nia]). lia.
  - rewrite (ki64_small (2 * Z.of_N q)) by lia. rewrite ki64_small by lia. reflexivity.
Qed.

Lemma bridge_entry (sc : Z) (base : N) : -2147483648 < sc < 2147483648 -> u32 base ->
  luma_entry_code sc (Z.of_N base) = Z.of_N (quant_entry sc base) /\
  chroma_entry_code sc (Z.of_N base) = Z.of_N (quant_entry sc base).
Proof.
  unfold u32, luma_entry_code, chroma_entry_code, quant_entry, k_mjpeg_mq_lv, k_mjpeg_mq_lbig, k_mjpeg_mq_lzero,
    k_mjpeg_mq_lbyte, k_mjpeg_mq_cv, k_mjpeg_mq_cbig, k_mjpeg_mq_czero, k_mjpeg_mq_cbyte. intros Hs Hb. cbv zeta.
  assert (B : -9223372036854775000 < Z.of_N base * sc < 9223372036854775000) by nia.
  rewrite (ki64_small (Z.of_N base * sc)) by lia. rewrite (ki64_small (_ + 50)) by lia.
  set (x := Z.of_N base * sc + 50) in *.
  assert (Q : -9223372036854775000 < Z.quot x 100 < 9223372036854775000) by lia.
  rewrite (ki64_small (Z.quot x 100)) by lia. rewrite Z.gtb_ltb.
  set (v := if 255 <? Z.quot x 100 then 255 else if Z.quot x 100 =? 0 then 1 else Z.quot x 100).
  unfold w8. rewrite Z2N.id by (apply Z.mod_pos_bound; lia). split; reflexivity.
Qed.

Theorem caps_kernels_are_the_code (b qb : bytes) (ty q w h fs pr l1 l0 q1 base : N) (sc : Z) :
  byte w -> byte h -> byte l1 -> byte l0 -> (4 <= nlen qb)%N -> Z.of_N (nlen qb) < i64max -> (1 <= q1)%N -> byte q1 ->
  -2147483648 < sc < 2147483648 -> u32 base ->
  k_mjpeg_jh_short (Z.of_N (nlen b)) = (nlen b <? 8)%N /\ k_mjpeg_jh_size = Z.of_N 8 /\
  k_mjpeg_jh_badtype (Z.of_N ty) = (63 <? ty)%N /\
  k_mjpeg_jh_badq (Z.of_N q) = ((q =? 0)%N || ((99 <? q)%N && (q <? 127)%N)) /\
  k_mjpeg_jh_width (Z.of_N w) = Z.of_N (w * 8) /\ k_mjpeg_jh_height (Z.of_N h) = Z.of_N (h * 8) /\
  k_mjpeg_dec_qdyn (Z.of_N q) = (128 <=? q)%N /\ k_mjpeg_dec_tiny (Z.of_N fs) = (fs <? 2)%N /\
  k_mjpeg_qt_short (Z.of_N (nlen qb)) = (nlen qb <? 4)%N /\
  k_mjpeg_qt_badprec (Z.of_N pr) = negb (pr =? 0)%N /\
  k_mjpeg_qt_length (Z.of_N l1) (Z.of_N l0) = Z.of_N (be16 l1 l0) /\
  k_mjpeg_qt_len1 = Z.of_N 64 /\ k_mjpeg_qt_len2 = Z.of_N 128 /\
  k_mjpeg_qt_trunc (Z.of_N (nlen qb)) (Z.of_N (be16 l1 l0)) = (nlen qb - 4 <? be16 l1 l0)%N /\
  k_mjpeg_qt_count k_mjpeg_qt_len1 = Z.of_N 1 /\ k_mjpeg_qt_count k_mjpeg_qt_len2 = Z.of_N 2 /\
  k_mjpeg_qt_size k_mjpeg_qt_len1 = Z.of_N 68 /\ k_mjpeg_qt_size k_mjpeg_qt_len2 = Z.of_N 132 /\
  scale_code (Z.of_N q1) = Some (scale_of q1) /\
  luma_entry_code sc (Z.of_N base) = Z.of_N (quant_entry sc base) /\
  chroma_entry_code sc (Z.of_N base) = Z.of_N (quant_entry sc base).
Proof.
  intros Hw Hh H1 H0 H4 Hl Hq1 Hq Hs Hb.
  destruct (bridge_jh_tests b ty q w h fs Hw Hh) as (A1 & A2 & A3 & A4 & A5 & A6 & A7 & A8).
  destruct (bridge_qt qb pr l1 l0 H1 H0 H4 Hl) as (B1 & B2 & B3 & B4 & B5 & B6 & B7 & B8 & B9 & B10).
  destruct (bridge_entry sc base Hs Hb) as (C1 & C2). pose proof (bridge_scale q1 Hq1 Hq) as D.
  repeat split; assumption.
Qed.

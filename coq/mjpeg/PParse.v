(* rtpmjpeg: the image the decoder writes parses back - with the encoder's own parser - to the type,
   dimensions, quantisation tables and scan data it was built from. *)
From GVL Require Import NList Wire Chunks Rtp Wrap.
From GVG Require Import Consts.
From GV_mjpeg Require Import Tables Model PEnc PDec PRT.
From Coq Require Import ZifyBool ZifyNat ZifyN.
Open Scope N_scope.

Lemma be16_hilo s : s < 65536 -> be16 (hi8 s) (lo8 s) = s.
Proof. unfold be16, hi8, lo8. intros H. lia. Qed.

(* ---------- one iteration of the marker loop on a well-formed segment ---------- *)
(* common prefix: marker byte h1, length bytes a b, body; the length covers a, b and the body *)
Lemma seg_parts h1 a b body rest :
  let image := (255 :: h1 :: a :: b :: body) ++ rest in
  (nlen image <? 2) = false /\ nnth 1 image = Some h1 /\
  nsub image 2 (nlen image) = Some ((a :: b :: body) ++ rest) /\
  seg_len ((a :: b :: body) ++ rest) = Some (be16 a b) /\
  (be16 a b = 2 + nlen body ->
     nsub ((a :: b :: body) ++ rest) 2 (be16 a b) = Some body /\
     nsub ((a :: b :: body) ++ rest) (be16 a b) (nlen ((a :: b :: body) ++ rest)) = Some rest).
Proof.
  cbn zeta. split; [|split; [|split; [|split]]].
  - cbn [app nlen]. destruct (N.ltb_spec (N.succ (N.succ (N.succ (N.succ (nlen (body ++ rest)))))) 2); [lia|reflexivity].
  - reflexivity.
  - rewrite nsub_suffix by (cbn [app nlen]; lia). reflexivity.
  - reflexivity.
  - intros E. rewrite E. split.
    + rewrite nsub_ok by (cbn [app nlen]; rewrite ?nlen_app; lia). f_equal.
      replace (2 + nlen body - 2) with (nlen body) by lia. cbn [app]. cbn [ndrop N.eqb N.pred Pos.pred_N]. rewrite ndrop_0.
      apply ntake_app_exact.
    + replace (2 + nlen body) with (nlen (a :: b :: body)) by (cbn [nlen]; lia).
      rewrite nsub_suffix by (rewrite nlen_app; lia). f_equal. apply ndrop_app_exact.
Qed.

Lemma jloop_skip f fuel h1 a b body rest s : is_skipped h1 = true -> be16 a b = 2 + nlen body ->
  jloop (f :: fuel) ((255 :: h1 :: a :: b :: body) ++ rest) s = jloop fuel rest s.
Proof.
  intros Hk E. destruct (seg_parts h1 a b body rest) as (P1 & P2 & P3 & P4 & P5). destruct (P5 E) as [_ P6].
  cbn [jloop]. rewrite P1, P2, P3, Hk, P4, P6. reflexivity.
Qed.

Lemma jloop_dqt f fuel a b body rest s tabs : be16 a b = 2 + nlen body -> dqt_unmarshal body body = Some tabs ->
  jloop (f :: fuel) ((255 :: jpeg_marker_dqt :: a :: b :: body) ++ rest) s =
  jloop fuel rest (mkP (psof s) (pdri s) (qt_set_all tabs (pqt s))).
Proof.
  intros E Hd. destruct (seg_parts jpeg_marker_dqt a b body rest) as (P1 & P2 & P3 & P4 & P5). destruct (P5 E) as [P6 P7].
  cbn [jloop]. rewrite P1, P2, P3.
  replace (is_skipped jpeg_marker_dqt) with false by (vm_compute; reflexivity). rewrite N.eqb_refl, P4, P6, Hd, P7. reflexivity.
Qed.

Lemma jloop_sof f fuel a b body rest s fr : be16 a b = 2 + nlen body -> sof_unmarshal body = Some fr ->
  jloop (f :: fuel) ((255 :: jpeg_marker_sof1 :: a :: b :: body) ++ rest) s =
  jloop fuel rest (mkP (Some fr) (pdri s) (pqt s)).
Proof.
  intros E Hd. destruct (seg_parts jpeg_marker_sof1 a b body rest) as (P1 & P2 & P3 & P4 & P5). destruct (P5 E) as [P6 P7].
  cbn [jloop]. rewrite P1, P2, P3.
  replace (is_skipped jpeg_marker_sof1) with false by (vm_compute; reflexivity).
  replace (jpeg_marker_sof1 =? jpeg_marker_dqt) with false by (vm_compute; reflexivity).
  replace (jpeg_marker_sof1 =? jpeg_marker_dri) with false by (vm_compute; reflexivity).
  rewrite N.eqb_refl, P4, P6, Hd, P7. reflexivity.
Qed.

Lemma jloop_sos f fuel a b body rest s : be16 a b = 2 + nlen body -> nlen body = 10 ->
  jloop (f :: fuel) ((255 :: jpeg_marker_sos :: a :: b :: body) ++ rest) s = JOk s rest.
Proof.
  intros E Hl. destruct (seg_parts jpeg_marker_sos a b body rest) as (P1 & P2 & P3 & P4 & P5). destruct (P5 E) as [P6 P7].
  cbn [jloop]. rewrite P1, P2, P3.
  replace (is_skipped jpeg_marker_sos) with false by (vm_compute; reflexivity).
  replace (jpeg_marker_sos =? jpeg_marker_dqt) with false by (vm_compute; reflexivity).
  replace (jpeg_marker_sos =? jpeg_marker_dri) with false by (vm_compute; reflexivity).
  replace (jpeg_marker_sos =? jpeg_marker_sof1) with false by (vm_compute; reflexivity).
  rewrite N.eqb_refl, P4, P6. unfold sos_unmarshal. rewrite Hl. cbn [N.eqb Pos.eqb negb]. rewrite P7. reflexivity.
Qed.

(* ---------- the DQT segment the decoder writes ---------- *)
Definition numbered (tabs : list bytes) : list (N * bytes) :=
  match tabs with
  | [t0] => [(0, t0)]
  | [t0; t1] => [(0, t0); (1, t1)]
  | _ => []
  end.

Lemma dqt_unmarshal_nil fuel : dqt_unmarshal fuel [] = Some [].
Proof. destruct fuel; reflexivity. Qed.

Lemma dqt_entries_parse tabs : tabs_ok tabs ->
  dqt_unmarshal (dqt_entries 0 tabs) (dqt_entries 0 tabs) = Some (numbered tabs) /\
  nlen (dqt_entries 0 tabs) = nlen tabs + nlen (concat tabs) /\ nlen (dqt_entries 0 tabs) <= 130 /\
  qt_set_all (numbered tabs) [] = numbered tabs.
Proof.
  intros [(t0 & -> & L0)|(t0 & t1 & -> & L0 & L1)].
  - cbn [dqt_entries numbered app]. rewrite app_nil_r. change (0 mod 256) with 0.
    cbn [dqt_unmarshal]. change (0 / 16 =? 0) with true. cbn [negb]. destruct (N.ltb_spec (nlen t0) 64); [lia|].
    rewrite ndrop_all by lia. rewrite dqt_unmarshal_nil. rewrite ntake_all by lia. change (0 mod 16) with 0.
    split; [reflexivity|]. cbn [nlen concat]. rewrite app_nil_r. split; [lia|]. split; [lia|reflexivity].
  - cbn [dqt_entries numbered app]. rewrite app_nil_r. change (0 mod 256) with 0. change ((0 + 1) mod 256) with 1.
    destruct t0 as [|x t0']; [cbn in L0; lia|].
    cbn [dqt_unmarshal app]. change (0 / 16 =? 0) with true. cbn [negb].
    change (x :: t0' ++ 1 :: t1) with ((x :: t0') ++ 1 :: t1).
    destruct (N.ltb_spec (nlen ((x :: t0') ++ 1 :: t1)) 64); [rewrite nlen_app in *; lia|].
    assert (Ed : ndrop 64 ((x :: t0') ++ 1 :: t1) = 1 :: t1) by (rewrite <- L0; apply ndrop_app_exact).
    assert (Et : ntake 64 ((x :: t0') ++ 1 :: t1) = x :: t0') by (rewrite <- L0; apply ntake_app_exact).
    rewrite Ed, Et. change (1 / 16 =? 0) with true. cbn [negb].
    destruct (N.ltb_spec (nlen t1) 64); [lia|]. rewrite ndrop_all by lia. rewrite dqt_unmarshal_nil. rewrite ntake_all by lia.
    change (0 mod 16) with 0. change (1 mod 16) with 1. split; [reflexivity|].
    cbn [concat]. rewrite app_nil_r. cbn [nlen]. rewrite !nlen_app. cbn [nlen] in *. split; [lia|]. split; [lia|reflexivity].
Qed.

(* ---------- the theorem ---------- *)
Theorem rebuild_parse_back ty w h tabs data img' :
  ty <= 1 -> w < 65536 -> h < 65536 -> tabs_ok tabs -> rebuild ty w h tabs data = Some img' ->
  exists data', jparse img' = JOk (mkP (Some (ty, w, h)) None (numbered tabs)) data' /\
                (data' = data \/ data' = data ++ [255; jpeg_marker_eoi]).
Proof.
  intros Hty Hw Hh Ht Hr. unfold rebuild in Hr.
  destruct (nnth (nlen data - 2) data) as [e0|]; [|discriminate]. destruct (nnth (nlen data - 1) data) as [e1|]; [|discriminate].
  apply (f_equal (fun o => match o with Some v => v | None => [] end)) in Hr. cbv beta iota in Hr. subst img'.
  set (tail := if (e0 =? 255) && (e1 =? jpeg_marker_eoi) then [] else [255; jpeg_marker_eoi]).
  exists (data ++ tail). split; [|unfold tail; destruct ((e0 =? 255) && (e1 =? jpeg_marker_eoi)); [left; apply app_nil_r|now right]].
  destruct (dqt_entries_parse tabs Ht) as (Dp & Dl & Db & Dq).
  (* name the segments *)
  set (R5 := sos_marshal ++ data ++ tail).
  set (R4 := dht_marshal chm_ac_codelens chm_ac_symbols 1 1 ++ R5).
  set (R3 := dht_marshal chm_dc_codelens chm_dc_symbols 1 0 ++ R4).
  set (R2 := dht_marshal lum_ac_codelens lum_ac_symbols 0 1 ++ R3).
  set (R1 := dht_marshal lum_dc_code_lens lum_dc_symbols 0 0 ++ R2).
  set (R0 := sof_marshal ty w h (nlen tabs mod 256) ++ R1).
  unfold jparse, soi_marshal.
  change ([255; jpeg_marker_soi] ++ dqt_marshal tabs ++ R0) with (255 :: jpeg_marker_soi :: dqt_marshal tabs ++ R0).
  assert (Hs : dqt_size tabs = 2 + nlen (dqt_entries 0 tabs)).
  { rewrite Dl. clear. induction tabs as [|t r IH]; cbn [dqt_size nlen concat]; [reflexivity|]. rewrite nlen_app. lia. }
  assert (Ee : exists x xs, dqt_entries 0 tabs = x :: xs).
  { destruct Ht as [(t0 & -> & _)|(t0 & t1 & -> & _)]; cbn [dqt_entries app]; eauto. }
  destruct Ee as (x & xs & Ee).
  set (IMG := 255 :: jpeg_marker_soi :: dqt_marshal tabs ++ R0).
  (* fuel: seven leading conses are all the marker loop needs *)
  assert (EF : exists f1 f2 f3 f4 f5 f6 f7 ft, IMG = f1 :: f2 :: f3 :: f4 :: f5 :: f6 :: f7 :: ft).
  { unfold IMG, dqt_marshal. cbn [app]. rewrite Ee. cbn [app]. repeat eexists. }
  destruct EF as (f1 & f2 & f3 & f4 & f5 & f6 & f7 & ft & EF).
  assert (EN : nsub IMG 2 (nlen IMG) = Some (dqt_marshal tabs ++ R0)).
  { unfold IMG. rewrite nsub_suffix by (cbn [nlen]; lia). reflexivity. }
  rewrite EN, EF. clear EN EF IMG.
  unfold dqt_marshal.
  change (([255; jpeg_marker_dqt; hi8 (dqt_size tabs); lo8 (dqt_size tabs)] ++ dqt_entries 0 tabs) ++ R0)
    with ((255 :: jpeg_marker_dqt :: hi8 (dqt_size tabs) :: lo8 (dqt_size tabs) :: dqt_entries 0 tabs) ++ R0).
  (* 1: DQT *)
  rewrite (jloop_dqt _ _ _ _ _ R0 _ (numbered tabs)); [|rewrite be16_hilo by lia; exact Hs|exact Dp].
  cbn [psof pdri pqt]. rewrite Dq.
  (* 2: SOF *)
  unfold R0, sof_marshal.
  set (sq := if nlen tabs mod 256 =? 2 then 1 else 0). set (samp := if ty mod 64 =? 0 then 33 else 34).
  change ([255; jpeg_marker_sof1; 0; 17; 8; hi8 h; lo8 h; hi8 w; lo8 w; 3; 0; samp; 0; 1; 17; sq; 2; 17; sq] ++ R1)
    with ((255 :: jpeg_marker_sof1 :: 0 :: 17 :: [8; hi8 h; lo8 h; hi8 w; lo8 w; 3; 0; samp; 0; 1; 17; sq; 2; 17; sq]) ++ R1).
  rewrite (jloop_sof _ _ _ _ _ R1 _ (ty, w, h)); [|reflexivity|].
  2:{ unfold sof_unmarshal. cbn [N.eqb Pos.eqb negb]. unfold samp.
      assert (E : ty = 0 \/ ty = 1) by lia. destruct E as [-> | ->]; cbn [N.modulo N.div_eucl N.eqb Pos.eqb negb];
      rewrite !be16_hilo by assumption; reflexivity. }
  cbn [psof pdri pqt].
  (* 3-6: the four Huffman tables are skipped *)
  assert (SK : forall codes symbols number cls f fuel rest s, 3 + nlen codes + nlen symbols < 65536 ->
            jloop (f :: fuel) (dht_marshal codes symbols number cls ++ rest) s = jloop fuel rest s).
  { intros codes symbols number cls f fuel rest s Hlt. unfold dht_marshal. cbn [app].
    change (255 :: jpeg_marker_dht :: hi8 (3 + nlen codes + nlen symbols) :: lo8 (3 + nlen codes + nlen symbols)
              :: (cls * 16 + number) mod 256 :: (codes ++ symbols) ++ rest)
      with ((255 :: jpeg_marker_dht :: hi8 (3 + nlen codes + nlen symbols) :: lo8 (3 + nlen codes + nlen symbols)
              :: ((cls * 16 + number) mod 256 :: codes ++ symbols)) ++ rest).
    apply jloop_skip; [vm_compute; reflexivity|]. rewrite be16_hilo by assumption. cbn [nlen]. rewrite nlen_app. lia. }
  unfold R1. rewrite SK by (vm_compute; reflexivity).
  unfold R2. rewrite SK by (vm_compute; reflexivity).
  unfold R3. rewrite SK by (vm_compute; reflexivity).
  unfold R4. rewrite SK by (vm_compute; reflexivity).
  (* 7: SOS *)
  unfold R5, sos_marshal.
  change ([255; jpeg_marker_sos; 0; 12; 3; 0; 0; 1; 17; 2; 17; 0; 63; 0] ++ data ++ tail)
    with ((255 :: jpeg_marker_sos :: 0 :: 12 :: [3; 0; 0; 1; 17; 2; 17; 0; 63; 0]) ++ data ++ tail).
  rewrite jloop_sos; [reflexivity|reflexivity|reflexivity].
Qed.

(* C03 in its final form: the image returned at the last packet parses - with the parser the encoder
   itself uses - to the same frame type and dimensions, no restart interval, the same quantisation
   tables (numbered 0..) and the same entropy-coded data (plus an EOI marker if the input had none). *)
Theorem roundtrip_parsed max seq img s data ty w h tabs d :
  valid_image max img s data ty w h tabs ->
  exists ps seq' img' d' data', enc max seq img = EOk ps seq' /\
    dec_run d ps = (d', repeat DMore (length ps - 1) ++ [DFrame img']) /\
    jparse img' = JOk (mkP (Some (ty, w, h)) None (numbered tabs)) data' /\
    map snd (numbered tabs) = tabs /\
    (data' = data \/ data' = data ++ [255; jpeg_marker_eoi]).
Proof.
  intros Hv. destruct (roundtrip max seq img s data ty w h tabs d Hv) as (ps & seq' & img' & d' & He & Hr & Hrun & _).
  destruct Hv as (_ & _ & _ & _ & Ht & Hty & _ & Hw & _ & Hh & _).
  destruct (rebuild_parse_back ty w h tabs data img' Hty ltac:(lia) ltac:(lia) Ht Hr) as (data' & Hp & Hd).
  exists ps, seq', img', d', data'. split; [exact He|]. split; [exact Hrun|]. split; [exact Hp|]. split; [|exact Hd].
  destruct Ht as [(t0 & -> & _)|(t0 & t1 & -> & _)]; reflexivity.
Qed.

(* rtpmjpeg: round trip over the parsed image (C03) and resynchronisation (C07). *)
From GVL Require Import NList Wire Chunks Rtp Wrap.
From GVG Require Import Consts.
From GV_mjpeg Require Import Tables Model PEnc PDec.
From Coq Require Import ZifyBool ZifyNat ZifyN.
Open Scope N_scope.

(* ---------- reading back the headers the encoder wrote ---------- *)
Lemma off24 off : off <= omax ->
  (off / 65536) mod 256 * 65536 + hi8 off * 256 + lo8 off = off.
Proof. unfold omax, hi8, lo8. intros H. lia. Qed.

Lemma dim8 w : w mod 8 = 0 -> w < 2048 -> (w / 8) mod 256 * 8 = w.
Proof. intros H1 H2. lia. Qed.

Lemma jhdr_roundtrip off ty w h X : off <= omax -> ty <= 63 ->
  w mod 8 = 0 -> w < 2048 -> h mod 8 = 0 -> h < 2048 ->
  jhdr_unmarshal (jhdr off ty 255 w h ++ X) = Some (off, ty, 255, w, h).
Proof.
  intros Ho Ht Hw1 Hw2 Hh1 Hh2. unfold jhdr. cbn [app]. unfold jhdr_unmarshal.
  rewrite (N.mod_small ty 256) by lia. destruct (N.ltb_spec 63 ty); [lia|].
  cbn [N.eqb N.ltb N.compare Pos.compare Pos.compare_cont orb andb].
  rewrite off24 by assumption. rewrite !dim8 by assumption. reflexivity.
Qed.

Lemma body_after_jhdr off ty q w h X :
  nsub (jhdr off ty q w h ++ X) 8 (nlen (jhdr off ty q w h ++ X)) = Some X.
Proof.
  rewrite nsub_suffix by (rewrite nlen_app, jhdr_len; lia).
  rewrite <- (jhdr_len off ty q w h) at 1. now rewrite ndrop_app_exact.
Qed.

Definition tabs_ok (tabs : list bytes) : Prop :=
  (exists t0, tabs = [t0] /\ nlen t0 = 64) \/ (exists t0 t1, tabs = [t0; t1] /\ nlen t0 = 64 /\ nlen t1 = 64).

Lemma qt_roundtrip tabs c0 : tabs_ok tabs ->
  exists n, qt_unmarshal (qt_hdr tabs ++ c0) = QOk tabs n /\
            nsub (qt_hdr tabs ++ c0) n (nlen (qt_hdr tabs ++ c0)) = Some c0.
Proof.
  intros [(t0 & -> & L0)|(t0 & t1 & -> & L0 & L1)].
  - exists 68. unfold qt_hdr. cbn [nlen concat]. rewrite app_nil_r.
    change (N.succ 0 * 64) with 64. change (hi8 64) with 0. change (lo8 64) with 64.
    cbn [app]. unfold qt_unmarshal. cbn [N.eqb negb be16 N.mul N.add Pos.mul Pos.add orb Pos.eqb].
    cbn [nlen]. rewrite !nlen_app, L0.
    destruct (N.ltb_spec (N.succ (N.succ (N.succ (N.succ (64 + nlen c0)))) - 4) 64); [lia|].
    set (b := 0 :: 0 :: 0 :: 64 :: t0 ++ c0).
    assert (Hb : nlen b = 68 + nlen c0) by (unfold b; cbn [nlen]; rewrite nlen_app, L0; lia).
    assert (Hd : ndrop 4 b = t0 ++ c0) by (unfold b; cbn; apply ndrop_0).
    rewrite (nsub_ok b 4 68) by lia. rewrite Hd. replace (68 - 4) with (nlen t0) by lia. rewrite ntake_app_exact.
    split; [reflexivity|]. replace (N.succ (N.succ (N.succ (N.succ (64 + nlen c0))))) with (nlen b) by lia.
    rewrite nsub_suffix by lia. f_equal.
    replace 68 with (nlen (0 :: 0 :: 0 :: 64 :: t0)) by (cbn [nlen]; lia).
    change b with ((0 :: 0 :: 0 :: 64 :: t0) ++ c0). apply ndrop_app_exact.
  - exists 132. unfold qt_hdr. cbn [nlen concat]. rewrite app_nil_r.
    change (N.succ (N.succ 0) * 64) with 128. change (hi8 128) with 0. change (lo8 128) with 128.
    cbn [app]. unfold qt_unmarshal. cbn [N.eqb negb be16 N.mul N.add Pos.mul Pos.add orb Pos.eqb].
    cbn [nlen]. rewrite !nlen_app, L0, L1.
    destruct (N.ltb_spec (N.succ (N.succ (N.succ (N.succ (64 + 64 + nlen c0)))) - 4) 128); [lia|].
    set (b := 0 :: 0 :: 0 :: 128 :: (t0 ++ t1) ++ c0).
    assert (Hb : nlen b = 132 + nlen c0) by (unfold b; cbn [nlen]; rewrite !nlen_app, L0, L1; lia).
    assert (Hd : ndrop 4 b = t0 ++ (t1 ++ c0)) by (unfold b; cbn; rewrite ndrop_0; now rewrite app_assoc).
    assert (Hd2 : ndrop 68 b = t1 ++ c0).
    { assert (Eb : b = (0 :: 0 :: 0 :: 128 :: t0) ++ (t1 ++ c0)) by (unfold b; cbn [app]; now rewrite <- app_assoc).
      rewrite Eb. replace 68 with (nlen (0 :: 0 :: 0 :: 128 :: t0)) by (cbn [nlen]; lia). apply ndrop_app_exact. }
    rewrite (nsub_ok b 4 68) by lia. rewrite (nsub_ok b 68 132) by lia. rewrite Hd, Hd2.
    replace (68 - 4) with (nlen t0) by lia. replace (132 - 68) with (nlen t1) by lia. rewrite !ntake_app_exact.
    split; [reflexivity|]. replace (N.succ (N.succ (N.succ (N.succ (64 + 64 + nlen c0))))) with (nlen b) by lia.
    rewrite nsub_suffix by lia. f_equal.
    replace 132 with (nlen (0 :: 0 :: 0 :: 128 :: t0 ++ t1)) by (cbn [nlen]; rewrite nlen_app; lia).
    change b with ((0 :: 0 :: 0 :: 128 :: t0 ++ t1) ++ c0). apply ndrop_app_exact.
Qed.

(* ---------- one Decode call on an encoder-made packet ---------- *)
(* the tail of Decode once the fragment is stored *)
Definition fin (d2 : dstate) (m : bool) : dstate * dres bytes :=
  if negb m then (d2, DMore) else
  if dfsize d2 <? 2 then (d2, DErr) else
  match join (dfrags d2) (dfsize d2), dhdr d2 with
  | Some data, Some (ty', w', h') =>
      match rebuild ty' w' h' (dqt d2) data with
      | Some img => (reset_frags d2, DFrame img)
      | None => (reset_frags d2, DPanic)
      end
  | _, _ => (d2, DPanic)
  end.

Section Image.
Variables (ty w h : N) (tabs : list bytes).
Hypothesis (Hty : ty <= 63) (Hw1 : w mod 8 = 0) (Hw2 : w < 2048) (Hh1 : h mod 8 = 0) (Hh2 : h < 2048).
Hypothesis (Htabs : tabs_ok tabs).

Lemma dec_first d seq ts m c0 :
  dec d (mkPkt seq ts m (jhdr 0 ty 255 w h ++ qt_hdr tabs ++ c0)) =
  fin (mkD true [c0] (nlen c0) (Some (ty, w, h)) tabs) m.
Proof.
  unfold dec. cbn [ppayload pmarker]. rewrite jhdr_roundtrip by (assumption || (unfold omax; lia)).
  rewrite body_after_jhdr. cbn [N.eqb N.leb N.compare Pos.compare Pos.compare_cont].
  destruct (qt_roundtrip tabs c0 Htabs) as (n & -> & ->). reflexivity.
Qed.

Lemma dec_cont d seq ts m off c : 0 < off -> off <= omax -> dfsize d = off ->
  dec d (mkPkt seq ts m (jhdr off ty 255 w h ++ c)) =
  fin (mkD (dfirst d) (dfrags d ++ [c]) (dfsize d + nlen c) (dhdr d) (dqt d)) m.
Proof.
  intros H0 H1 Hs. unfold dec. cbn [ppayload pmarker]. rewrite jhdr_roundtrip by assumption.
  rewrite body_after_jhdr. destruct (N.eqb_spec off 0); [lia|]. rewrite Hs, N.eqb_refl. reflexivity.
Qed.

(* the continuation packets: all "more", the image at the last one *)
Lemma cont_run cs : forall d seq off, cs <> [] -> 0 < off -> dfsize d = off ->
  dfsize d = nlen (concat (dfrags d)) -> dhdr d = Some (ty, w, h) -> dqt d = tabs ->
  off + nlen (concat cs) <= omax -> 2 <= off + nlen (concat cs) ->
  exists img d', rebuild ty w h tabs (concat (dfrags d) ++ concat cs) = Some img /\
    dec_run d (mk_pkts seq (cont_spec (fun o => jhdr o ty 255 w h) off cs)) =
      (d', repeat DMore (length cs - 1) ++ [DFrame img]) /\ dfrags d' = [] /\ dfsize d' = 0.
Proof.
  induction cs as [|c t IH]; intros d seq off Hne H0 Hs Hsz Hh Hq Hmax H2; [contradiction|].
  cbn [cont_spec mk_pkts dec_run]. cbn [concat] in Hmax, H2. rewrite nlen_app in Hmax, H2.
  rewrite (dec_cont d seq 0 _ off c H0 ltac:(lia) Hs).
  set (d2 := mkD (dfirst d) (dfrags d ++ [c]) (dfsize d + nlen c) (dhdr d) (dqt d)).
  destruct t as [|c2 t2].
  - (* last packet: marker *)
    cbn [cont_spec mk_pkts]. unfold fin. cbn [negb]. unfold d2; cbn [dfsize dfrags dhdr dqt].
    destruct (N.ltb_spec (dfsize d + nlen c) 2) as [Hb|Hb]; [cbn [concat nlen] in H2; lia|].
    replace (dfsize d + nlen c) with (nlen (concat (dfrags d ++ [c]))) by (rewrite concat_snoc, nlen_app; lia).
    rewrite join_exact, Hh, Hq, concat_snoc.
    destruct (rebuild_facts ty w h tabs (concat (dfrags d) ++ c)) as (img & Hr & _); [rewrite nlen_app; cbn [concat nlen] in H2; lia|].
    cbn [concat]. rewrite app_nil_r, Hr. exists img. eexists. split; [reflexivity|]. split; [reflexivity|]. split; reflexivity.
  - cbn [cont_spec mk_pkts]. unfold fin at 1. cbn [negb].
    destruct (IH d2 (seq_next seq) (off + nlen c)) as (img & d' & Hr & Hrun & Hd1 & Hd2); try (unfold d2; cbn [dfsize dfrags dhdr dqt]; assumption || lia).
    + discriminate.
    + unfold d2; cbn [dfsize dfrags]. rewrite concat_snoc, nlen_app. lia.
    + cbn [cont_spec mk_pkts] in Hrun. rewrite Hrun. exists img, d'.
      unfold d2 in Hr; cbn [dfrags] in Hr. rewrite concat_snoc, <- app_assoc in Hr. cbn [concat].
      split; [exact Hr|]. split; [|split; assumption]. cbn [length Nat.sub]. rewrite Nat.sub_0_r. reflexivity.
Qed.
End Image.

(* ---------- images inside the pair's domain ---------- *)
(* [valid_image max img s data ty w h tabs]: the encoder's parse of img yields frame type ty (0 or 1;
   no restart interval: type 64+ is rejected by the decoder), dimensions that RFC 2435 can express
   (multiples of 8 below 2048), one or two 64-byte quantisation tables tabs (by ascending id), scan
   data of 2 .. 2^24-1 bytes; and the limit leaves room for one scan byte in the first packet. *)
Definition valid_image (max : N) (img : bytes) (s : pst) (data : bytes) (ty w h : N) (tabs : list bytes) : Prop :=
  jparse img = JOk s data /\ psof s = Some (ty, w, h) /\ pdri s = None /\ map snd (pqt s) = tabs /\
  tabs_ok tabs /\ ty <= 1 /\ w mod 8 = 0 /\ w < 2048 /\ h mod 8 = 0 /\ h < 2048 /\
  2 <= nlen data /\ nlen data <= omax /\ hlen0 s < max.

Lemma cont_spec_ext f g : (forall o, f o = g o) -> forall cs off, cont_spec f off cs = cont_spec g off cs.
Proof. intros E. induction cs as [|c t IH]; intros off; cbn [cont_spec]; [reflexivity|]. now rewrite E, IH. Qed.

(* C03: from ANY decoder state (the first packet of an image resets everything): "more" on every
   packet but the last, and at the last the image rebuilt from exactly the type, dimensions,
   quantisation tables and scan data of the original. *)
Theorem roundtrip max seq img s data ty w h tabs d :
  valid_image max img s data ty w h tabs ->
  exists ps seq' img' d', enc max seq img = EOk ps seq' /\
    rebuild ty w h tabs data = Some img' /\
    dec_run d ps = (d', repeat DMore (length ps - 1) ++ [DFrame img']) /\ dfrags d' = [] /\ dfsize d' = 0.
Proof.
  intros (Hp & Hs & Hdri & Hq & Ht & Hty1 & Hw1 & Hw2 & Hh1 & Hh2 & Hd2 & Hdm & Hmax).
  assert (Hty : ty <= 63) by lia.
  assert (Hl : hlen s = 8) by (unfold hlen; now rewrite Hdri).
  assert (Hl0 : hlen s < max) by (unfold hlen0 in Hmax; lia).
  unfold enc. rewrite Hp, (payloads_spec max s ty w h data Hs ltac:(lia) Hl0).
  unfold payload_spec. rewrite Hq, Hl.
  assert (Eh : forall o, hdr_of s ty w h o = jhdr o ty 255 w h) by (intros o; unfold hdr_of; rewrite Hdri; cbn [rst_hdr]; now rewrite app_nil_r).
  rewrite (cont_spec_ext _ _ Eh), Eh.
  set (rem := N.min (max - hlen0 s) (nlen data)). assert (Hrem : 0 < rem) by (unfold rem; lia).
  set (pls := ((jhdr 0 ty 255 w h ++ qt_hdr tabs) ++ ntake rem data) ::
              cont_spec (fun o => jhdr o ty 255 w h) rem (chunks (max - 8) (ndrop rem data))).
  exists (mk_pkts seq pls), (seq_add seq (nlen pls)).
  cut (exists img' d', rebuild ty w h tabs data = Some img' /\
         dec_run d (mk_pkts seq pls) = (d', repeat DMore (length (mk_pkts seq pls) - 1) ++ [DFrame img']) /\
         dfrags d' = [] /\ dfsize d' = 0).
  { intros (img' & d' & A & B & C & D). exists img', d'. split; [reflexivity|]. split; [exact A|]. split; [exact B|]. split; assumption. }
  unfold pls. clear pls. cbn [mk_pkts dec_run]. rewrite <- app_assoc.
  rewrite (dec_first ty w h tabs Hty Hw1 Hw2 Hh1 Hh2 Ht d seq 0 _ (ntake rem data)).
  set (d2 := mkD true [ntake rem data] (nlen (ntake rem data)) (Some (ty, w, h)) tabs).
  assert (Hn : nlen (ntake rem data) = rem) by (rewrite nlen_ntake; unfold rem; lia).
  destruct (ndrop rem data) as [|x xs] eqn:Erest.
  - (* everything fits the first packet *)
    rewrite chunks_nil. cbn [cont_spec mk_pkts]. unfold fin. cbn [negb]. unfold d2; cbn [dfsize dfrags dhdr dqt].
    assert (E : ntake rem data = data) by (rewrite <- (ntake_ndrop rem data) at 2; now rewrite Erest, app_nil_r).
    rewrite E. destruct (N.ltb_spec (nlen data) 2); [lia|].
    pose proof (join_exact [data]) as J. cbn [concat] in J. rewrite app_nil_r in J. rewrite J.
    destruct (rebuild_facts ty w h tabs data Hd2) as (img' & Hr & _). rewrite Hr.
    exists img'. eexists. split; [reflexivity|]. split; [reflexivity|]. split; reflexivity.
  - rewrite <- Erest. assert (Hrne : ndrop rem data <> []) by (rewrite Erest; discriminate).
    pose proof (chunks_ne (max - 8) (ndrop rem data) ltac:(lia) Hrne) as Hcne.
    pose proof (chunks_concat (max - 8) (ndrop rem data) ltac:(lia)) as Hcc.
    destruct (chunks (max - 8) (ndrop rem data)) as [|c1 ct] eqn:Ec; [contradiction|]. rewrite <- Ec. rewrite <- Ec in Hcc.
    replace (match cont_spec (fun o => jhdr o ty 255 w h) rem (chunks (max - 8) (ndrop rem data)) with [] => true | _ :: _ => false end) with false
      by (rewrite Ec; reflexivity).
    unfold fin at 1. cbn [negb].
    destruct (cont_run ty w h tabs Hty Hw1 Hw2 Hh1 Hh2 (chunks (max - 8) (ndrop rem data)) d2 (seq_next seq) rem)
      as (img' & d' & Hr & Hrun & Hz1 & Hz2); try (unfold d2; cbn [dfsize dfrags dhdr dqt]; assumption || reflexivity || lia).
    + rewrite Ec. discriminate.
    + unfold d2; cbn [dfsize dfrags concat]. rewrite app_nil_r. lia.
    + rewrite Hcc, nlen_ndrop. lia.
    + rewrite Hcc, nlen_ndrop. lia.
    + rewrite Hrun. unfold d2 in Hr; cbn [dfrags concat] in Hr. rewrite app_nil_r, Hcc, ntake_ndrop in Hr.
      exists img', d'. split; [exact Hr|]. split; [|split; assumption].
      assert (L : length (mk_pkts (seq_next seq) (cont_spec (fun o => jhdr o ty 255 w h) rem (chunks (max - 8) (ndrop rem data)))) =
                  length (chunks (max - 8) (ndrop rem data))).
      { pose proof (mk_pkts_len (seq_next seq) (cont_spec (fun o => jhdr o ty 255 w h) rem (chunks (max - 8) (ndrop rem data)))) as L1.
        destruct (cont_spec_facts (fun o => jhdr o ty 255 w h) 8 (max - 8) ltac:(intros; apply jhdr_len) (chunks (max - 8) (ndrop rem data)) rem
                    (chunks_bounds (max - 8) (ndrop rem data) ltac:(lia))) as (_ & _ & L2).
        rewrite !nlen_length in *. lia. }
      f_equal. cbn [length Nat.sub]. rewrite L, Ec. cbn [length Nat.sub repeat app]. rewrite !Nat.sub_0_r. reflexivity.
Qed.

(* C07: the same statement after an arbitrary history - no intact predecessor is even needed *)
Theorem resync max hist seq img s data ty w h tabs :
  valid_image max img s data ty w h tabs ->
  exists ps seq' img' d', enc max seq img = EOk ps seq' /\
    rebuild ty w h tabs data = Some img' /\
    dec_run (fst (dec_run dinit hist)) ps = (d', repeat DMore (length ps - 1) ++ [DFrame img']) /\
    dfrags d' = [] /\ dfsize d' = 0.
Proof. intros Hv. exact (roundtrip max seq img s data ty w h tabs _ Hv). Qed.

(* consecutive images through one encoder/decoder pair *)
Fixpoint expect (pss : list (list packet)) (imgs : list bytes) : list (dres bytes) :=
  match pss, imgs with
  | ps :: pt, f :: ft => repeat DMore (length ps - 1) ++ [DFrame f] ++ expect pt ft
  | _, _ => []
  end.

Definition valid_at (max : N) (img img' : bytes) : Prop :=
  exists s data ty w h tabs, valid_image max img s data ty w h tabs /\ rebuild ty w h tabs data = Some img'.

Lemma dec_run_app ps1 ps2 d :
  dec_run d (ps1 ++ ps2) =
  let '(d1, r1) := dec_run d ps1 in let '(d2, r2) := dec_run d1 ps2 in (d2, r1 ++ r2).
Proof.
  revert d; induction ps1 as [|p t IH]; intros d; cbn [app dec_run].
  - destruct (dec_run d ps2); reflexivity.
  - destruct (dec d p) as [d' r]. rewrite IH. destruct (dec_run d' t) as [d1 r1].
    destruct (dec_run d1 ps2) as [d2 r2]. reflexivity.
Qed.

Theorem roundtrip_seq max frames imgs' : Forall2 (valid_at max) frames imgs' -> forall seq d,
  exists pss d', enc_many max seq frames = Some pss /\ dec_run d (concat pss) = (d', expect pss imgs').
Proof.
  induction 1 as [|f f' ft ft' (s & data & ty & w & h & tabs & Hv & Hr) Ht IH]; intros seq d; cbn [enc_many].
  - exists [], d. split; reflexivity.
  - destruct (roundtrip max seq f s data ty w h tabs d Hv) as (ps & seq' & img' & d1 & -> & Hr' & Hrun & _).
    rewrite Hr in Hr'. injection Hr' as <-.
    destruct (IH seq' d1) as (pss & d2 & -> & Hrun2). exists (ps :: pss), d2. split; [reflexivity|].
    cbn [concat expect]. rewrite dec_run_app, Hrun, Hrun2. now rewrite <- app_assoc.
Qed.

(* C06 across calls *)
Definition encodable_at (max : N) (img : bytes) : Prop :=
  exists s data ty w h, jparse img = JOk s data /\ psof s = Some (ty, w, h) /\ hlen0 s <= max /\ hlen s < max.

Theorem enc_many_gapless max frames : Forall (encodable_at max) frames -> forall seq, seq < 65536 ->
  exists pss, enc_many max seq frames = Some pss /\
    forall i p, nnth i (concat pss) = Some p -> pseq p = seq_add seq i.
Proof.
  induction 1 as [|f t (s & data & ty & w & h & Hp & Hs & H0 & H1) Ht IH]; intros seq Hq; cbn [enc_many].
  - exists []. split; [reflexivity|]. intros i p H. cbn in H. discriminate.
  - destruct (enc_wellformed max seq f s data ty w h Hp Hs H0 H1 Hq) as (ps & -> & _ & _ & _ & Hi & _).
    destruct (IH (seq_add seq (nlen ps)) (seq_add_lt _ _)) as (pss & -> & Hj).
    exists (ps :: pss). split; [reflexivity|]. intros i p H. cbn [concat] in H.
    destruct (N.ltb_spec i (nlen ps)) as [Hlt|Hge].
    + rewrite nnth_app_l in H by assumption. apply Hi in H. tauto.
    + rewrite nnth_app_r in H by assumption. apply Hj in H. rewrite H, seq_add_add. f_equal. lia.
Qed.

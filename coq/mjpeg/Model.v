(* Executable model of pkg/format/rtpmjpeg (encoder.go, decoder.go, header_*.go; RFC 2435) together
   with the JPEG segment parsers / writers of mediacommon/pkg/codecs/jpeg that they call
   (DefineQuantizationTable, StartOfFrame1, DefineRestartInterval, StartOfScan, DefineHuffmanTable,
   StartOfImage - all a few lines each, re-modelled here).  Proof-free.
   The encoder parses the JPEG image (type, width, height, quantisation tables, optional restart
   interval, entropy-coded scan data) and sends main header [+ restart header] [+ quantisation-table
   header in the first packet] + scan data fragments addressed by a 24-bit offset.  The decoder
   collects the fragments and rebuilds a JPEG image with fixed Huffman tables.
   The decoder rejects type > 63, so images with a restart interval (type 64/65) cannot be decoded by
   this pair: they are outside the round-trip domain (stated, not a finding). *)
From GVL Require Import NList Wire Chunks Rtp.
From GVG Require Import Consts.
From GV_mjpeg Require Import Tables.
From Coq Require Import ZArith.
Open Scope N_scope.

Definition be16 (a b : N) : N := a * 256 + b.
Definition hi8 (x : N) : N := (x / 256) mod 256.     (* byte(x >> 8) *)
Definition lo8 (x : N) : N := x mod 256.              (* byte(x) *)

(* ================= mediacommon/pkg/codecs/jpeg ================= *)
(* DefineQuantizationTable.Unmarshal: list of (id, 64 bytes); None = error *)
Fixpoint dqt_unmarshal (fuel : bytes) (buf : bytes) : option (list (N * bytes)) :=
  match buf with
  | [] => Some []
  | b0 :: rest =>
    match fuel with
    | [] => None
    | _ :: fuel' =>
      if negb (b0 / 16 =? 0) then None else          (* precision *)
      if nlen rest <? 64 then None else
      match dqt_unmarshal fuel' (ndrop 64 rest) with
      | Some l => Some ((b0 mod 16, ntake 64 rest) :: l)
      | None => None
      end
    end
  end.

(* StartOfFrame1.Unmarshal: (type, width, height); None = error *)
Definition sof_unmarshal (buf : bytes) : option (N * N * N) :=
  match buf with
  | [pr; h1; h0; w1; w0; comps; _; samp0; _; _; samp1; _; _; samp2; _] =>
      if negb (pr =? 8) then None else
      if negb (comps =? 3) then None else
      match (if samp0 =? 33 then Some 0 else if samp0 =? 34 then Some 1 else None) with
      | None => None
      | Some ty =>
          if negb (samp1 =? 17) then None else
          if negb (samp2 =? 17) then None else Some (ty, be16 w1 w0, be16 h1 h0)
      end
  | _ => None                                        (* len != 15 *)
  end.

(* DefineRestartInterval.Unmarshal *)
Definition dri_unmarshal (buf : bytes) : option N :=
  match buf with [a; b] => Some (be16 a b) | _ => None end.

(* StartOfScan.Unmarshal: only the length (10) is checked *)
Definition sos_unmarshal (buf : bytes) : bool := nlen buf =? 10.

(* Marshal functions (the decoder's output) *)
Definition soi_marshal : bytes := [255; jpeg_marker_soi].

Fixpoint dqt_entries (id : N) (tables : list bytes) : bytes :=
  match tables with
  | [] => []
  | t :: r => (id mod 256 :: t) ++ dqt_entries (id + 1) r
  end.
Fixpoint dqt_size (tables : list bytes) : N :=
  match tables with [] => 2 | t :: r => 1 + nlen t + dqt_size r end.
Definition dqt_marshal (tables : list bytes) : bytes :=
  [255; jpeg_marker_dqt; hi8 (dqt_size tables); lo8 (dqt_size tables)] ++ dqt_entries 0 tables.

Definition sof_marshal (ty w h qcount : N) : bytes :=
  let sq := if qcount =? 2 then 1 else 0 in
  [255; jpeg_marker_sof1; 0; 17; 8; hi8 h; lo8 h; hi8 w; lo8 w; 3;
   0; (if ty mod 64 =? 0 then 33 else 34); 0;
   1; 17; sq;
   2; 17; sq].

Definition dht_marshal (codes symbols : bytes) (number cls : N) : bytes :=
  let s := 3 + nlen codes + nlen symbols in
  [255; jpeg_marker_dht; hi8 s; lo8 s; (cls * 16 + number) mod 256] ++ codes ++ symbols.

Definition sos_marshal : bytes := [255; jpeg_marker_sos; 0; 12; 3; 0; 0; 1; 17; 2; 17; 0; 63; 0].

(* ================= encoder ================= *)
(* quantizationTables map[uint8][]byte, iterated in ascending id order: sorted association list,
   a later table with the same id replaces the earlier one *)
Fixpoint qt_set (id : N) (data : bytes) (l : list (N * bytes)) : list (N * bytes) :=
  match l with
  | [] => [(id, data)]
  | (i, d) :: t =>
      if id <? i then (id, data) :: l
      else if id =? i then (id, data) :: t
      else (i, d) :: qt_set id data t
  end.
Fixpoint qt_set_all (tabs : list (N * bytes)) (l : list (N * bytes)) : list (N * bytes) :=
  match tabs with
  | [] => l
  | (i, d) :: r => qt_set_all r (qt_set i d l)
  end.

Record pst := mkP { psof : option (N * N * N); pdri : option N; pqt : list (N * bytes) }.
Inductive jres := JOk (s : pst) (data : bytes) | JErr | JPanic.

(* mlen := int(image[0])<<8 | int(image[1]) *)
Definition seg_len (image : bytes) : option N :=
  match image with a :: b :: _ => Some (be16 a b) | _ => None end.

Definition is_skipped (h1 : N) : bool :=
  (h1 =? 224) || (h1 =? 225) || (h1 =? 226) || (h1 =? jpeg_marker_dht) || (h1 =? jpeg_marker_com).

(* the marker loop of Encode; every slice expression is checked (None => JPanic) *)
Fixpoint jloop (fuel : bytes) (image : bytes) (s : pst) : jres :=
  match fuel with
  | [] => JPanic
  | _ :: fuel' =>
    if nlen image <? 2 then JOk s [] else
    match nnth 1 image, nsub image 2 (nlen image) with
    | Some h1, Some img =>
      if is_skipped h1 then
        match seg_len img with
        | None => JPanic
        | Some mlen =>
          match nsub img mlen (nlen img) with
          | None => JPanic
          | Some rest => jloop fuel' rest s
          end
        end
      else if h1 =? jpeg_marker_dqt then
        match seg_len img with
        | None => JPanic
        | Some mlen =>
          match nsub img 2 mlen with
          | None => JPanic
          | Some body =>
            match dqt_unmarshal body body, nsub img mlen (nlen img) with
            | Some tabs, Some rest => jloop fuel' rest (mkP (psof s) (pdri s) (qt_set_all tabs (pqt s)))
            | _, _ => JPanic
            end
          end
        end
      else if h1 =? jpeg_marker_dri then
        match seg_len img with
        | None => JPanic
        | Some mlen =>
          match nsub img 2 mlen with
          | None => JPanic
          | Some body =>
            match dri_unmarshal body, nsub img mlen (nlen img) with
            | Some iv, Some rest => jloop fuel' rest (mkP (psof s) (Some iv) (pqt s))
            | _, _ => JPanic
            end
          end
        end
      else if h1 =? jpeg_marker_sof1 then
        match seg_len img with
        | None => JPanic
        | Some mlen =>
          match nsub img 2 mlen with
          | None => JPanic
          | Some body =>
            match sof_unmarshal body, nsub img mlen (nlen img) with
            | Some f, Some rest => jloop fuel' rest (mkP (Some f) (pdri s) (pqt s))
            | _, _ => JPanic
            end
          end
        end
      else if h1 =? jpeg_marker_sos then
        match seg_len img with
        | None => JPanic
        | Some mlen =>
          match nsub img 2 mlen with
          | None => JPanic
          | Some body =>
            if negb (sos_unmarshal body) then JErr else
            match nsub img mlen (nlen img) with
            | Some rest => JOk s rest
            | None => JPanic
            end
          end
        end
      else jloop fuel' img s
    | _, _ => JPanic
    end
  end.

(* image = image[2:] first *)
Definition jparse (image : bytes) : jres :=
  match nsub image 2 (nlen image) with
  | None => JPanic
  | Some img => jloop image img (mkP None None [])
  end.

(* headerJPEG.marshal with TypeSpecific 0 *)
Definition jhdr (off ty q w h : N) : bytes :=
  [0; (off / 65536) mod 256; hi8 off; lo8 off; ty mod 256; q; (w / 8) mod 256; (h / 8) mod 256].
Definition rst_hdr (dri : option N) : bytes :=
  match dri with None => [] | Some iv => [hi8 iv; lo8 iv; 255; 255] end.
Definition qt_hdr (tables : list bytes) : bytes :=
  let l := nlen tables * 64 in [0; 0; hi8 l; lo8 l] ++ concat tables.

(* continuation packets: header (+ restart header) + as much data as fits; remaining = 0 with data
   left means Go never terminates (reported as None, like a panic) *)
Fixpoint cont_payloads (fuel : bytes) (max off : N) (hdr : N -> bytes) (data : bytes) : option (list bytes) :=
  match fuel with
  | [] => Some []
  | _ :: fuel' =>
      let buf := hdr off in
      if max <? nlen buf then None else
      let rem := N.min (max - nlen buf) (nlen data) in
      if rem =? 0 then None else
      let rest := ndrop rem data in
      match rest with
      | [] => Some [buf ++ ntake rem data]
      | _ => option_map (cons (buf ++ ntake rem data)) (cont_payloads fuel' max (off + rem) hdr rest)
      end
  end.

Definition payloads (max : N) (s : pst) (data : bytes) : option (list bytes) :=
  match psof s with
  | None => None                                        (* sof.Type: nil dereference *)
  | Some (ty, w, h) =>
      let ty' := match pdri s with None => ty | Some _ => ty + 64 end in
      let hdr := fun off => jhdr off ty' 255 w h ++ rst_hdr (pdri s) in
      let buf0 := hdr 0 ++ qt_hdr (map snd (pqt s)) in
      if max <? nlen buf0 then None else                (* data[:remaining] with remaining < 0 *)
      let rem := N.min (max - nlen buf0) (nlen data) in
      let rest := ndrop rem data in
      match rest with
      | [] => Some [buf0 ++ ntake rem data]
      | _ => option_map (cons (buf0 ++ ntake rem data)) (cont_payloads rest max rem hdr rest)
      end
  end.

Fixpoint mk_pkts (seq : N) (pls : list bytes) : list packet :=
  match pls with
  | [] => []
  | c :: t => mkPkt seq 0 (match t with [] => true | _ => false end) c :: mk_pkts (seq_next seq) t
  end.

Inductive eres := EOk (ps : list packet) (seq' : N) | EErr | EPanic.
Definition enc (max seq : N) (image : bytes) : eres :=
  match jparse image with
  | JPanic => EPanic
  | JErr => EErr
  | JOk s data =>
      match payloads max s data with
      | None => EPanic
      | Some pls => EOk (mk_pkts seq pls) (seq_add seq (nlen pls))
      end
  end.

Fixpoint enc_many (max seq : N) (frames : list bytes) : option (list (list packet)) :=
  match frames with
  | [] => Some []
  | f :: t =>
      match enc max seq f with
      | EOk ps seq' => option_map (cons ps) (enc_many max seq' t)
      | _ => None
      end
  end.

(* ================= decoder ================= *)
(* makeQuantizationTables(q): Go int arithmetic (truncating division, negative for q = 127) *)
Definition scale_of (q : N) : Z :=
  if q <? 50 then Z.quot 5000 (Z.of_N q) else (200 - 2 * Z.of_N q)%Z.
Definition quant_entry (sc : Z) (base : N) : N :=
  let v := Z.quot (Z.of_N base * sc + 50) 100 in
  let v := if (255 <? v)%Z then 255%Z else if (v =? 0)%Z then 1%Z else v in
  Z.to_N (v mod 256).
Definition make_qt (q : N) : list bytes :=
  [map (quant_entry (scale_of q)) luma_quantizers; map (quant_entry (scale_of q)) chroma_quantizers].

Record dstate := mkD {
  dfirst : bool;                    (* firstPacketReceived *)
  dfrags : list bytes; dfsize : N;  (* fragments, fragmentsSize *)
  dhdr : option (N * N * N);        (* firstJpegHeader: type, width, height *)
  dqt : list bytes }.               (* quantizationTables *)
Definition dinit : dstate := mkD false [] 0 None [].
Definition reset_frags (d : dstate) : dstate := mkD (dfirst d) [] 0 (dhdr d) (dqt d).

Fixpoint join_aux (frags : list bytes) (size n : N) (acc : bytes) : option bytes :=
  match frags with
  | [] => Some (acc ++ nrep 0 (size - n))
  | p :: t =>
      if size <? n then None else
      let c := ntake (size - n) p in
      join_aux t size (n + nlen c) (acc ++ c)
  end.
Definition join (frags : list bytes) (size : N) : option bytes := join_aux frags size 0 [].

(* headerJPEG.unmarshal: (offset, type, q, width, height) *)
Definition jhdr_unmarshal (b : bytes) : option (N * N * N * N * N) :=
  match b with
  | _ :: o2 :: o1 :: o0 :: ty :: q :: w :: h :: _ =>
      if 63 <? ty then None else
      if (q =? 0) || ((99 <? q) && (q <? 127)) then None else
      Some (o2 * 65536 + o1 * 256 + o0, ty, q, w * 8, h * 8)
  | _ => None                                         (* len < 8 *)
  end.

(* headerQuantizationTable.unmarshal: (tables, bytes consumed) *)
Inductive qres := QOk (tables : list bytes) (n : N) | QErr | QPanic.
Definition qt_unmarshal (b : bytes) : qres :=
  match b with
  | _ :: pr :: l1 :: l0 :: _ =>
      if negb (pr =? 0) then QErr else
      let len := be16 l1 l0 in
      if negb ((len =? 64) || (len =? 128)) then QErr else
      if nlen b - 4 <? len then QErr else
      if len =? 64 then
        match nsub b 4 68 with Some t0 => QOk [t0] 68 | None => QPanic end
      else
        match nsub b 4 68, nsub b 68 132 with Some t0, Some t1 => QOk [t0; t1] 132 | _, _ => QPanic end
  | _ => QErr                                         (* len < 4 *)
  end.

Definition rebuild (ty w h : N) (tables : list bytes) (data : bytes) : option bytes :=
  match nnth (nlen data - 2) data, nnth (nlen data - 1) data with
  | Some e0, Some e1 =>
      Some (soi_marshal ++ dqt_marshal tables ++ sof_marshal ty w h (nlen tables mod 256) ++
            dht_marshal lum_dc_code_lens lum_dc_symbols 0 0 ++
            dht_marshal lum_ac_codelens lum_ac_symbols 0 1 ++
            dht_marshal chm_dc_codelens chm_dc_symbols 1 0 ++
            dht_marshal chm_ac_codelens chm_ac_symbols 1 1 ++
            sos_marshal ++ data ++
            (if (e0 =? 255) && (e1 =? jpeg_marker_eoi) then [] else [255; jpeg_marker_eoi]))
  | _, _ => None
  end.

Definition dec (d : dstate) (p : packet) : dstate * dres bytes :=
  match jhdr_unmarshal (ppayload p) with
  | None => (d, DErr)
  | Some (off, ty, q, w, h) =>
    match nsub (ppayload p) 8 (nlen (ppayload p)) with
    | None => (d, DPanic)
    | Some byts =>
      let step :=       (* Some (state after the fragment was stored) | None-with-result *)
        if off =? 0 then
          let d1 := mkD true [] 0 (dhdr d) (dqt d) in
          if 128 <=? q then
            match qt_unmarshal byts with
            | QPanic => inr (d1, DPanic)
            | QErr => inr (d1, DErr)
            | QOk tables n =>
                match nsub byts n (nlen byts) with
                | None => inr (d1, DPanic)
                | Some rest => inl (mkD true [rest] (nlen rest) (Some (ty, w, h)) tables)
                end
            end
          else inl (mkD true [byts] (nlen byts) (Some (ty, w, h)) (make_qt q))
        else
          if negb (off =? dfsize d) then
            if negb (dfirst d) then inr (d, DErr) else inr (reset_frags d, DErr)
          else inl (mkD (dfirst d) (dfrags d ++ [byts]) (dfsize d + nlen byts) (dhdr d) (dqt d)) in
      match step with
      | inr r => r
      | inl d2 =>
          if negb (pmarker p) then (d2, DMore) else
          if dfsize d2 <? 2 then (d2, DErr) else
          match join (dfrags d2) (dfsize d2), dhdr d2 with
          | Some data, Some (ty', w', h') =>
              match rebuild ty' w' h' (dqt d2) data with
              | Some img => (reset_frags d2, DFrame img)
              | None => (reset_frags d2, DPanic)
              end
          | _, _ => (d2, DPanic)
          end
      end
    end
  end.

Fixpoint dec_run (d : dstate) (ps : list packet) : dstate * list (dres bytes) :=
  match ps with
  | [] => (d, [])
  | p :: t => let '(d', r) := dec d p in let '(d'', rs) := dec_run d' t in (d'', r :: rs)
  end.

(* retained: fragments and quantisation tables (both are tables of sub-slices of packet payloads or,
   for Q < 128, fresh arrays).  The returned image is a fresh array (append to nil). *)
Definition retained (d : dstate) : N * N :=
  (nlen (concat (dfrags d)) + nlen (concat (dqt d)), nlen (dfrags d) + nlen (dqt d)).

(* ================= wire ================= *)
Definition put_res (r : dres bytes) : list N :=
  match r with
  | DFrame f => 1 :: 1 :: putl f
  | DMore => [0]
  | DErr => [2]
  | DPanic => [77]
  end.

Fixpoint get_uframes (fuel : list N) (k : N) (l : list N) : option (list bytes) :=
  if k =? 0 then Some [] else
  match fuel with
  | [] => None
  | _ :: fuel' =>
    match l with
    | 1 :: r0 =>
      match getl r0 with
      | None => None
      | Some (f, r) => option_map (cons f) (get_uframes fuel' (N.pred k) r)
      end
    | _ => None
    end
  end.

Definition run (c : list N) : list N :=
  match c with
  | 1 :: _ :: max :: seq :: k :: t =>
      match get_uframes c k t with
      | Some frames =>
          match enc_many max seq frames with
          | Some pss => put_pkts (concat pss)
          | None => [77]
          end
      | None => bad_case
      end
  | 2 :: _ :: t =>
      match get_pkts t with
      | Some (ps, _) =>
          let '(d, rs) := dec_run dinit ps in
          concat (map put_res rs) ++ [fst (retained d); snd (retained d)]
      | None => bad_case
      end
  | _ => bad_case
  end.

(* C08, rtpmjpeg — statements only *)
From GVL Require Import NList Rtp.
From GV_mjpeg Require Import Model Proofs.
Open Scope N_scope.

(* any packet history: an image, "more" or an error - never a panic (all slice expressions and the
   nil-able firstJpegHeader are checked in the model) *)
Theorem C08_mjpeg_total : forall hist, ~ In DPanic (snd (dec_run dinit hist)).
Proof. exact total. Qed.
Print Assumptions C08_mjpeg_total.

(* BYTES are bounded (full statement): for every history of packets with at most P payload bytes
   (bytes < 256): retained bytes <= 2^24-1 + P (fragments: the 24-bit offset must equal the bytes
   collected) + 128 (tables); every returned image <= that + the 601 bytes of JPEG headers the decoder
   writes + EOI.  The returned image is a fresh array (append to nil) the decoder keeps no reference to. *)
Theorem C08_mjpeg_bytes_bounded : forall P hist,
  Forall (fun p => bytes_ok (ppayload p) /\ nlen (ppayload p) <= P) hist ->
  let '(d, rs) := dec_run dinit hist in
  fst (retained d) <= omax + P + 128 /\
  forall f, In (DFrame f) rs -> nlen f <= fixed_part + 130 + (omax + P) + 2.
Proof. exact bytes_bounded. Qed.
Print Assumptions C08_mjpeg_bytes_bounded.

(* FINDING F6: slice HEADERS are not bounded: for EVERY B a history (a first packet with one scan byte,
   then continuation packets at offset 1 that carry no data and no marker) after which more than B
   slice headers are retained while only 65 bytes are *)
Theorem C08_mjpeg_slices_bounded_refuted : forall B, exists hist,
  Forall (fun p => bytes_ok (ppayload p) /\ nlen (ppayload p) <= 77) hist /\
  B < snd (retained (fst (dec_run dinit hist))) /\ fst (retained (fst (dec_run dinit hist))) = 65.
Proof. exact slices_bounded_refuted. Qed.
Print Assumptions C08_mjpeg_slices_bounded_refuted.

Example C08_mjpeg_example :
  snd (dec_run dinit [first1; empty_cont; empty_cont]) = [DMore; DMore; DMore]
  /\ retained (fst (dec_run dinit [first1; empty_cont; empty_cont])) = (65, 4).
Proof. split; vm_compute; reflexivity. Qed.

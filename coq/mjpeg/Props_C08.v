(* C08, rtpmjpeg — statements only *)
From GVL Require Import NList Rtp.
From GV_mjpeg Require Import Model Proofs.
Open Scope N_scope.

(* any packet history: an image, "more" or an error - never a panic (all slice expressions and the
   nil-able firstJpegHeader are checked in the model) *)
Theorem C08_mjpeg_total : forall hist, ~ In DPanic (snd (dec_run dinit hist)).
Proof. exact total. Qed.
Print Assumptions C08_mjpeg_total.

(* BYTES are bounded (full statement): for every history of packets with at most P payload bytes
   (bytes < 256): retained bytes <= 2^24-1 + P (fragments: the 24-bit offset must equal the bytes
   collected) + 128 (tables); every returned image <= that + the 601 bytes of JPEG headers the decoder
   writes + EOI.  The returned image is a fresh array (append to nil) the decoder keeps no reference to. *)
Theorem C08_mjpeg_bytes_bounded : forall P hist,
  Forall (fun p => bytes_ok (ppayload p) /\ nlen (ppayload p) <= P) hist ->
  let '(d, rs) := dec_run dinit hist in
  fst (retained d) <= omax + P + 128 /\
  forall f, In (DFrame f) rs -> nlen f <= fixed_part + 130 + (omax + P) + 2.
Proof. exact bytes_bounded. Qed.
Print Assumptions C08_mjpeg_bytes_bounded.

(* FINDING F6: slice HEADERS are not bounded: for EVERY B a history (a first packet with one scan byte,
   then continuation packets at offset 1 that carry no data and no marker) after which more than B
   slice headers are retained while only 65 bytes are *)
Theorem C08_mjpeg_slices_bounded_refuted : forall B, exists hist,
  Forall (fun p => bytes_ok (ppayload p) /\ nlen (ppayload p) <= 77) hist /\
  B < snd (retained (fst (dec_run dinit hist))) /\ fst (retained (fst (dec_run dinit hist))) = 65.
Proof. exact slices_bounded_refuted. Qed.
Print Assumptions C08_mjpeg_slices_bounded_refuted.

Example C08_mjpeg_example :
  snd (dec_run dinit [first1; empty_cont; empty_cont]) = [DMore; DMore; DMore]
  /\ retained (fst (dec_run dinit [first1; empty_cont; empty_cont])) = (65, 4).
Proof. split; vm_compute; reflexivity. Qed.

(* ---- the translated kernels (tools/go2coq, regenerated from the Go source on every run) ----
   The length and validity tests of rtpmjpeg - headerJPEG.unmarshal: len(byts) < 8, Type > 63, Quantization == 0 ||
   (> 99 && < 127), Width = int(byts[6]) * 8, the consumed size 8; Decode: Quantization >= 128, d.fragmentsSize < 2;
   headerQuantizationTable.unmarshal: len(byts) < 4, Precision != 0, length = int(byts[2])<<8 | int(byts[3]), the
   accepted lengths 64 and 128, (len(byts) - 4) < length, tableCount = length / 64, the consumed size 4 + length - and
   every statement of makeQuantizationTables: q < 50, 5000 / int(q), 200 - 2*int(q), v := (quantizer*scale + 50) / 100,
   v > 255, v == 0, byte(v) (both copies; Bridge.scale_code, luma_entry_code, chroma_entry_code) - ARE the formulas of
   Model.jhdr_unmarshal / dec / qt_unmarshal / scale_of / quant_entry. *)
From Coq Require Import ZArith.
From GVG Require Import Kern.
From GV_mjpeg Require Import BridgeLib Bridge.
Open Scope Z_scope.

Theorem C08_mjpeg_kernels_are_the_code :
  forall (b qb : bytes) (ty q w h fs pr l1 l0 q1 base : N) (sc : Z),
  byte w -> byte h -> byte l1 -> byte l0 -> (4 <= nlen qb)%N -> Z.of_N (nlen qb) < i64max -> (1 <= q1)%N -> byte q1 ->
  -2147483648 < sc < 2147483648 -> u32 base ->
  k_mjpeg_jh_short (Z.of_N (nlen b)) = (nlen b <? 8)%N /\ k_mjpeg_jh_size = Z.of_N 8 /\
  k_mjpeg_jh_badtype (Z.of_N ty) = (63 <? ty)%N /\
  k_mjpeg_jh_badq (Z.of_N q) = ((q =? 0)%N || ((99 <? q)%N && (q <? 127)%N)) /\
  k_mjpeg_jh_width (Z.of_N w) = Z.of_N (w * 8) /\ k_mjpeg_jh_height (Z.of_N h) = Z.of_N (h * 8) /\
  k_mjpeg_dec_qdyn (Z.of_N q) = (128 <=? q)%N /\ k_mjpeg_dec_tiny (Z.of_N fs) = (fs <? 2)%N /\
  k_mjpeg_qt_short (Z.of_N (nlen qb)) = (nlen qb <? 4)%N /\
  k_mjpeg_qt_badprec (Z.of_N pr) = negb (pr =? 0)%N /\
  k_mjpeg_qt_length (Z.of_N l1) (Z.of_N l0) = Z.of_N (be16 l1 l0) /\
  k_mjpeg_qt_len1 = Z.of_N 64 /\ k_mjpeg_qt_len2 = Z.of_N 128 /\
  k_mjpeg_qt_trunc (Z.of_N (nlen qb)) (Z.of_N (be16 l1 l0)) = (nlen qb - 4 <? be16 l1 l0)%N /\
  k_mjpeg_qt_count k_mjpeg_qt_len1 = Z.of_N 1 /\ k_mjpeg_qt_count k_mjpeg_qt_len2 = Z.of_N 2 /\
  k_mjpeg_qt_size k_mjpeg_qt_len1 = Z.of_N 68 /\ k_mjpeg_qt_size k_mjpeg_qt_len2 = Z.of_N 132 /\
  scale_code (Z.of_N q1) = Some (scale_of q1) /\
  luma_entry_code sc (Z.of_N base) = Z.of_N (quant_entry sc base) /\
  chroma_entry_code sc (Z.of_N base) = Z.of_N (quant_entry sc base).
Proof. exact caps_kernels_are_the_code. Qed.
Print Assumptions C08_mjpeg_kernels_are_the_code.

(* 7 bytes are too short for the main header, 8 are not; type 63 is accepted, 64 is not; Q = 0, 100, 126 are invalid, 99,
   127, 128 valid; Q = 127 uses computed tables, 128 in-band ones; a 67-byte table header with length 64 is truncated, 68
   is not; Q = 49 scales by 102, Q = 50 by 100, Q = 127 by -54 (negative entries are stored modulo 256), Q = 0 panics
   (division by zero); an entry above 255 is clamped to 255, an entry 0 becomes 1 *)
Example C08_mjpeg_example_kernels :
  k_mjpeg_jh_short 7 = true /\ k_mjpeg_jh_short 8 = false /\ k_mjpeg_jh_badtype 63 = false /\ k_mjpeg_jh_badtype 64 = true /\
  k_mjpeg_jh_badq 0 = true /\ k_mjpeg_jh_badq 99 = false /\ k_mjpeg_jh_badq 100 = true /\ k_mjpeg_jh_badq 126 = true /\
  k_mjpeg_jh_badq 127 = false /\ k_mjpeg_dec_qdyn 127 = false /\ k_mjpeg_dec_qdyn 128 = true /\
  k_mjpeg_dec_tiny 1 = true /\ k_mjpeg_dec_tiny 2 = false /\ k_mjpeg_jh_width 255 = 2040 /\
  k_mjpeg_qt_trunc 67 64 = true /\ k_mjpeg_qt_trunc 68 64 = false /\ k_mjpeg_qt_short 3 = true /\
  scale_code 49 = Some 102 /\ scale_code 50 = Some 100 /\ scale_code 127 = Some (-54) /\ scale_code 0 = None /\
  luma_entry_code 5000 16 = 255 /\ luma_entry_code 2 16 = 1 /\ luma_entry_code 100 16 = 16 /\
  chroma_entry_code 102 99 = 101 /\ luma_entry_code (-54) 16 = 248 /\ luma_entry_code 318 80 = 254 /\
  luma_entry_code 319 80 = 255.
Proof. vm_compute. repeat split. Qed.

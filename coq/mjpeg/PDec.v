(* rtpmjpeg, decoder side on ARBITRARY packet histories (C08): never panics; retained bytes and returned
   images are bounded by the 24-bit fragment offset plus a packet; the fragment table takes empty
   continuation packets without bound (finding F6). *)
From GVL Require Import NList Wire Chunks Rtp.
From GVG Require Import Consts.
From GV_mjpeg Require Import Tables Model PEnc.
From Coq Require Import ZifyBool ZifyNat ZifyN.
Open Scope N_scope.

Lemma join_aux_exact frags : forall size n acc,
  n = nlen acc -> size = n + nlen (concat frags) -> join_aux frags size n acc = Some (acc ++ concat frags).
Proof.
  induction frags as [|p t IH]; intros size n acc Hn Hs; cbn [join_aux concat] in *.
  - cbn [nlen] in Hs. replace (size - n) with 0 by lia. cbn [nrep]. reflexivity.
  - rewrite nlen_app in Hs. destruct (N.ltb_spec size n); [lia|].
    rewrite ntake_all by lia. rewrite IH; [now rewrite <- app_assoc| rewrite nlen_app; lia | lia].
Qed.
Lemma join_exact frags : join frags (nlen (concat frags)) = Some (concat frags).
Proof. unfold join. now rewrite join_aux_exact with (acc := []). Qed.

Lemma nsub_suffix {A} (l : list A) i : i <= nlen l -> nsub l i (nlen l) = Some (ndrop i l).
Proof.
  intros H. unfold nsub. destruct (N.leb_spec i (nlen l)); [|lia]. rewrite N.leb_refl. cbn [andb].
  f_equal. apply ntake_all. rewrite nlen_ndrop. lia.
Qed.
Lemma nsub_ok {A} (l : list A) i j : i <= j -> j <= nlen l -> nsub l i j = Some (ntake (j - i) (ndrop i l)).
Proof. intros H1 H2. unfold nsub. destruct (N.leb_spec i j); [|lia]. destruct (N.leb_spec j (nlen l)); [|lia]. reflexivity. Qed.

Definition bytes_ok (l : bytes) : Prop := Forall (fun b => b < 256) l.
Definition omax : N := 16777215.                  (* largest 24-bit fragment offset *)

(* ---------- the two header parsers ---------- *)
Lemma jhdr_unmarshal_some b off ty q w h : jhdr_unmarshal b = Some (off, ty, q, w, h) ->
  8 <= nlen b /\ (bytes_ok b -> off <= omax).
Proof.
  unfold jhdr_unmarshal. destruct b as [|b0 [|o2 [|o1 [|o0 [|t [|q0 [|w0 [|h0 r]]]]]]]]; try discriminate.
  destruct (63 <? t); [discriminate|]. destruct ((q0 =? 0) || ((99 <? q0) && (q0 <? 127))); [discriminate|].
  intros H. injection H as <- _ _ _ _. split; [cbn [nlen]; lia|]. intros Hb.
  inversion Hb as [|? ? _ Hb1]; subst. inversion Hb1 as [|? ? H2 Hb2]; subst. inversion Hb2 as [|? ? H1 Hb3]; subst.
  inversion Hb3 as [|? ? H0 _]; subst. unfold omax. lia.
Qed.

Lemma qt_unmarshal_facts b : qt_unmarshal b <> QPanic /\
  forall tables n, qt_unmarshal b = QOk tables n ->
    n <= nlen b /\ nlen (concat tables) <= 128 /\ nlen tables <= 2.
Proof.
  unfold qt_unmarshal. destruct b as [|b0 [|pr [|l1 [|l0 r]]]]; try (split; [discriminate|discriminate]).
  destruct (negb (pr =? 0)); [split; discriminate|].
  destruct (negb ((be16 l1 l0 =? 64) || (be16 l1 l0 =? 128))) eqn:El; [split; discriminate|].
  set (b := b0 :: pr :: l1 :: l0 :: r) in *.
  destruct (N.ltb_spec (nlen b - 4) (be16 l1 l0)) as [Hs|Hs]; [split; discriminate|].
  assert (Hb4 : 4 <= nlen b) by (unfold b; cbn [nlen]; lia).
  destruct (N.eqb_spec (be16 l1 l0) 64) as [E|E].
  - rewrite nsub_ok by lia. split; [discriminate|]. intros tables n H. injection H as <- <-.
    cbn [concat nlen]. rewrite app_nil_r, nlen_ntake. lia.
  - assert (E2 : be16 l1 l0 = 128) by (destruct (N.eqb_spec (be16 l1 l0) 128); [assumption|cbn in El; discriminate]).
    rewrite !nsub_ok by lia. split; [discriminate|]. intros tables n H. injection H as <- <-.
    cbn [concat nlen]. rewrite app_nil_r, nlen_app, !nlen_ntake. lia.
Qed.

Lemma make_qt_facts q : nlen (concat (make_qt q)) = 128 /\ nlen (make_qt q) = 2.
Proof.
  unfold make_qt. cbn [concat nlen]. rewrite app_nil_r, nlen_app, !nlen_map. split; reflexivity.
Qed.

(* ---------- the rebuilt image ---------- *)
Definition fixed_part : N := 2 + 4 + 19 + 432 + 14.      (* SOI, DQT header, SOF, 4 x DHT, SOS *)

Lemma dqt_entries_len tables : forall id, nlen (dqt_entries id tables) = nlen tables + nlen (concat tables).
Proof.
  induction tables as [|t r IH]; intros id; cbn [dqt_entries nlen concat app]; [reflexivity|].
  rewrite nlen_app, IH, nlen_app. lia.
Qed.

Lemma rebuild_facts ty w h tables data : 2 <= nlen data ->
  exists img, rebuild ty w h tables data = Some img /\
    nlen img <= fixed_part + nlen tables + nlen (concat tables) + nlen data + 2.
Proof.
  intros Hd. unfold rebuild.
  destruct (nnth_lt data (nlen data - 2)) as [e0 ->]; [lia|].
  destruct (nnth_lt data (nlen data - 1)) as [e1 ->]; [lia|].
  eexists. split; [reflexivity|].
  rewrite !nlen_app. unfold dqt_marshal. rewrite nlen_app, dqt_entries_len.
  assert (D : nlen (dht_marshal lum_dc_code_lens lum_dc_symbols 0 0) + nlen (dht_marshal lum_ac_codelens lum_ac_symbols 0 1) +
              nlen (dht_marshal chm_dc_codelens chm_dc_symbols 1 0) + nlen (dht_marshal chm_ac_codelens chm_ac_symbols 1 1) = 432)
    by (vm_compute; reflexivity).
  assert (S1 : nlen soi_marshal = 2) by reflexivity.
  assert (S2 : nlen (sof_marshal ty w h (nlen tables mod 256)) = 19) by reflexivity.
  assert (S3 : nlen sos_marshal = 14) by reflexivity.
  assert (S4 : nlen (if (e0 =? 255) && (e1 =? jpeg_marker_eoi) then [] else [255; jpeg_marker_eoi]) <= 2)
    by (destruct ((e0 =? 255) && (e1 =? jpeg_marker_eoi)); cbn; lia).
  cbn [nlen] in *. unfold fixed_part. lia.
Qed.

(* ---------- invariants ---------- *)
(* enough for totality: sizes agree, and a non-empty fragment table has a main header *)
Definition Inv0 (d : dstate) : Prop :=
  dfsize d = nlen (concat (dfrags d)) /\ (dfsize d <> 0 -> dhdr d <> None).
(* for the bounds: offsets are 24-bit, so the table holds at most omax + P bytes; at most two tables
   of 64 bytes *)
Definition InvB (P : N) (d : dstate) : Prop :=
  Inv0 d /\ dfsize d <= omax + P /\ nlen (concat (dqt d)) <= 128 /\ nlen (dqt d) <= 2.

Lemma inv0_init : Inv0 dinit.
Proof. split; [reflexivity|]. intros H. now cbn in H. Qed.

Lemma inv0_reset d : Inv0 (reset_frags d).
Proof. split; [reflexivity|]. intros H. now cbn in H. Qed.

(* one Decode call: all facts at once.  P bounds this packet's payload when its bytes are < 256. *)
Lemma dec_facts P d p : Inv0 d ->
  let '(d', r) := dec d p in
  Inv0 d' /\ r <> DPanic /\
  (bytes_ok (ppayload p) -> nlen (ppayload p) <= P -> InvB P d ->
     InvB P d' /\ forall f, r = DFrame f -> nlen f <= fixed_part + 130 + (omax + P) + 2).
Proof.
  intros HI. pose proof HI as [H1 H2]. unfold dec.
  destruct (jhdr_unmarshal (ppayload p)) as [[[[[off ty] q] w] h]|] eqn:Eh.
  2:{ splits; [exact HI|discriminate|]. intros _ _ HB. split; [exact HB|discriminate]. }
  destruct (jhdr_unmarshal_some _ _ _ _ _ _ Eh) as [Hlen Hoff].
  rewrite nsub_suffix by lia. set (byts := ndrop 8 (ppayload p)).
  assert (Hbl : nlen byts = nlen (ppayload p) - 8) by (unfold byts; apply nlen_ndrop).
  (* what happens once a fragment has been stored *)
  assert (FIN : forall d2, Inv0 d2 ->
    let '(d', r) := (if negb (pmarker p) then (d2, DMore) else
        if dfsize d2 <? 2 then (d2, DErr) else
        match join (dfrags d2) (dfsize d2), dhdr d2 with
        | Some data, Some (ty', w', h') =>
            match rebuild ty' w' h' (dqt d2) data with
            | Some img => (reset_frags d2, DFrame img)
            | None => (reset_frags d2, DPanic)
            end
        | _, _ => (d2, DPanic)
        end) in
    Inv0 d' /\ r <> DPanic /\ (InvB P d2 -> InvB P d' /\ forall f, r = DFrame f -> nlen f <= fixed_part + 130 + (omax + P) + 2)).
  { intros d2 [I1 I2]. destruct (pmarker p); cbn [negb].
    2:{ splits; [split; assumption|discriminate|]. intros HB. split; [exact HB|discriminate]. }
    destruct (N.ltb_spec (dfsize d2) 2) as [Hs|Hs].
    { splits; [split; assumption|discriminate|]. intros HB. split; [exact HB|discriminate]. }
    rewrite I1, join_exact. destruct (dhdr d2) as [[[ty' w'] h']|] eqn:Ehd; [|exfalso; apply I2; [lia|reflexivity]].
    destruct (rebuild_facts ty' w' h' (dqt d2) (concat (dfrags d2)) ltac:(lia)) as (img & -> & Himg).
    splits; [apply inv0_reset|discriminate|]. intros (_ & B2 & B3 & B4).
    split; [split; [apply inv0_reset|cbn [reset_frags dfsize dqt]; lia]|]. intros f Hf. injection Hf as <-. lia. }
  destruct (N.eqb_spec off 0) as [Hz|Hnz].
  - (* first packet of an image *)
    destruct (128 <=? q).
    + pose proof (qt_unmarshal_facts byts) as [Qnp Qok].
      destruct (qt_unmarshal byts) as [tables n| |] eqn:Eq; [|splits; [split; [reflexivity|intros H; now cbn [dfsize] in H]|discriminate|]|contradiction].
      * destruct (Qok tables n eq_refl) as (Qn & Qc & Ql). rewrite nsub_suffix by lia.
        set (d2 := mkD true [ndrop n byts] (nlen (ndrop n byts)) (Some (ty, w, h)) tables).
        assert (I2 : Inv0 d2). { split; [unfold d2; cbn [dfsize dfrags concat]; now rewrite app_nil_r|]. intros _. discriminate. }
        pose proof (FIN d2 I2) as F. destruct (if negb (pmarker p) then _ else _) as [d' r]. destruct F as (F1 & F2 & F3).
        splits; [assumption|assumption|]. intros Hb HP HB. apply F3. split; [exact I2|].
        unfold d2; cbn [dfsize dqt]. rewrite nlen_ndrop. lia.
      * intros _ _ (_ & B2 & B3 & B4). split; [|discriminate]. split; [split; [reflexivity|intros H; now cbn [dfsize] in H]|cbn [dfsize dqt]; lia].
    + set (d2 := mkD true [byts] (nlen byts) (Some (ty, w, h)) (make_qt q)).
      assert (I2 : Inv0 d2). { split; [unfold d2; cbn [dfsize dfrags concat]; now rewrite app_nil_r|]. intros _. discriminate. }
      pose proof (FIN d2 I2) as F. destruct (if negb (pmarker p) then _ else _) as [d' r]. destruct F as (F1 & F2 & F3).
      splits; [assumption|assumption|]. intros Hb HP HB. apply F3. split; [exact I2|].
      destruct (make_qt_facts q) as [M1 M2]. unfold d2; cbn [dfsize dqt]. lia.
  - (* continuation packet *)
    destruct (N.eqb_spec off (dfsize d)) as [He|Hne]; cbn [negb].
    + set (d2 := mkD (dfirst d) (dfrags d ++ [byts]) (dfsize d + nlen byts) (dhdr d) (dqt d)).
      assert (I2 : Inv0 d2).
      { split; [unfold d2; cbn; rewrite concat_snoc, nlen_app; lia|]. intros _. apply H2. lia. }
      pose proof (FIN d2 I2) as F. destruct (if negb (pmarker p) then _ else _) as [d' r]. destruct F as (F1 & F2 & F3).
      splits; [assumption|assumption|]. intros Hb HP (_ & B2 & B3 & B4). apply F3. split; [exact I2|].
      specialize (Hoff Hb). unfold d2; cbn [dfsize dqt]. lia.
    + destruct (dfirst d); cbn [negb].
      * splits; [apply inv0_reset|discriminate|]. intros _ _ (_ & B2 & B3 & B4). split; [|discriminate].
        split; [apply inv0_reset|cbn [reset_frags dfsize dqt]; lia].
      * splits; [exact HI|discriminate|]. intros _ _ HB. split; [exact HB|discriminate].
Qed.

(* C08: totality on arbitrary histories *)
Theorem total hist : ~ In DPanic (snd (dec_run dinit hist)).
Proof.
  assert (G : forall hist d, Inv0 d -> ~ In DPanic (snd (dec_run d hist))).
  { clear hist. induction hist as [|p t IH]; intros d HI; cbn [dec_run]; [cbn; tauto|].
    pose proof (dec_facts 0 d p HI) as F. destruct (dec d p) as [d' r]. destruct F as (F1 & F2 & _).
    specialize (IH d' F1). destruct (dec_run d' t) as [d'' rs]. cbn [snd] in *.
    intros [H|H]; [congruence|contradiction]. }
  apply G, inv0_init.
Qed.

(* C08: bytes.  For every history of packets with at most P payload bytes: retained bytes stay below
   2^24 - 1 + P (fragments) + 128 (tables), and every returned image below that plus the fixed JPEG
   headers the decoder writes. *)
Theorem bytes_bounded P hist : Forall (fun p => bytes_ok (ppayload p) /\ nlen (ppayload p) <= P) hist ->
  let '(d, rs) := dec_run dinit hist in
  fst (retained d) <= omax + P + 128 /\
  forall f, In (DFrame f) rs -> nlen f <= fixed_part + 130 + (omax + P) + 2.
Proof.
  assert (G : forall hist d, InvB P d -> Forall (fun p => bytes_ok (ppayload p) /\ nlen (ppayload p) <= P) hist ->
    InvB P (fst (dec_run d hist)) /\ forall f, In (DFrame f) (snd (dec_run d hist)) -> nlen f <= fixed_part + 130 + (omax + P) + 2).
  { clear hist. induction hist as [|p t IH]; intros d HB HF; cbn [dec_run]; [cbn [fst snd In]; tauto|].
    inversion HF as [|? ? [Hp1 Hp2] Ht]; subst. pose proof HB as [HI _].
    pose proof (dec_facts P d p HI) as F. destruct (dec d p) as [d' r]. destruct F as (_ & _ & F3).
    destruct (F3 Hp1 Hp2 HB) as [HB' Hfr]. specialize (IH d' HB' Ht). destruct (dec_run d' t) as [d'' rs]. cbn [fst snd] in *.
    destruct IH as [IH1 IH2]. split; [assumption|]. intros f [H|H]; [now apply Hfr|now apply IH2]. }
  intros HF. specialize (G hist dinit). destruct (dec_run dinit hist) as [d rs]. cbn [fst snd] in G.
  destruct G as [([H1 _] & B2 & B3 & B4) Hfr]; [|assumption|].
  { split; [apply inv0_init|]. cbn [dinit dfsize dqt concat nlen]. unfold omax. lia. }
  unfold retained; cbn [fst]. split; [lia|assumption].
Qed.

(* ---------- F6: empty continuation packets are appended without bound ---------- *)
Definition first1 : packet :=       (* Q=255, one all-zero table, one scan byte *)
  mkPkt 0 0 false (jhdr 0 0 255 16 16 ++ [0; 0; 0; 64] ++ nrep 0 64 ++ [7]).
Definition empty_cont : packet := mkPkt 1 0 false (jhdr 1 0 255 16 16).

Lemma dec_first1 : dec dinit first1 = (mkD true [[7]] 1 (Some (0, 16, 16)) [nrep 0 64], DMore).
Proof. vm_compute. reflexivity. Qed.

Lemma dec_empty_cont d : dfsize d = 1 ->
  dec d empty_cont = (mkD (dfirst d) (dfrags d ++ [[]]) (dfsize d + 0) (dhdr d) (dqt d), DMore).
Proof.
  intros H. unfold dec.
  replace (jhdr_unmarshal (ppayload empty_cont)) with (Some (1, 0, 255, 16, 16)) by (vm_compute; reflexivity).
  replace (nsub (ppayload empty_cont) 8 (nlen (ppayload empty_cont))) with (Some (@nil N)) by (vm_compute; reflexivity).
  cbn [N.eqb]. rewrite H. cbn [N.eqb Pos.eqb negb pmarker empty_cont nlen]. reflexivity.
Qed.

Theorem slices_bounded_refuted : forall B, exists hist,
  Forall (fun p => bytes_ok (ppayload p) /\ nlen (ppayload p) <= 77) hist /\
  B < snd (retained (fst (dec_run dinit hist))) /\ fst (retained (fst (dec_run dinit hist))) = 65.
Proof.
  intros B. exists (first1 :: repeat empty_cont (N.to_nat B)). split.
  - constructor; [split; [vm_compute; repeat constructor|vm_compute; discriminate]|].
    apply Forall_forall. intros p Hp. apply repeat_spec in Hp. subst. split; [vm_compute; repeat constructor|vm_compute; discriminate].
  - cbn [dec_run]. rewrite dec_first1.
    assert (G : forall k d, dfsize d = 1 -> let d' := fst (dec_run d (repeat empty_cont k)) in
      nlen (dfrags d') = nlen (dfrags d) + N.of_nat k /\ nlen (concat (dfrags d')) = nlen (concat (dfrags d)) /\ dqt d' = dqt d).
    { induction k as [|k IH]; intros d Hd; cbn [repeat dec_run]; [cbn; splits; try lia; reflexivity|].
      rewrite (dec_empty_cont d Hd). set (d2 := mkD _ _ _ _ _). specialize (IH d2).
      destruct (dec_run d2 (repeat empty_cont k)) as [d3 rs]. cbn [fst] in *.
      destruct IH as (I1 & I2 & I3); [unfold d2; cbn; lia|]. unfold d2 in *; cbn [dfrags dqt] in *.
      rewrite nlen_app in I1. rewrite concat_snoc, app_nil_r in I2. cbn [nlen] in I1. splits; [lia|assumption|assumption]. }
    specialize (G (N.to_nat B) (mkD true [[7]] 1 (Some (0, 16, 16)) [nrep 0 64]) eq_refl).
    destruct (dec_run _ (repeat empty_cont (N.to_nat B))) as [d rs]. cbn [fst] in *.
    destruct G as (G1 & G2 & G3). unfold retained; cbn [fst snd]. rewrite G1, G2, G3, N2Nat.id.
    cbn [dfrags dqt concat app nlen]. rewrite app_nil_r, nlen_nrep. lia.
Qed.

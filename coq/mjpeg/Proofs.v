From GVL Require Import NList Wire Chunks Rtp.
From GV_mjpeg Require Import Model.

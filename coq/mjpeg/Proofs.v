(* rtpmjpeg: the proofs are split over PEnc.v (encoder, C06), PDec.v (arbitrary histories, C08) and
   PRT.v (round trip C03, resynchronisation C07); this file only re-exports them. *)
From GV_mjpeg Require Export Tables Model PEnc PDec PRT PParse.

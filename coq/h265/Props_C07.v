(* C07, rtph265 - statements only *)
From GVL Require Import NList Rtp.
From GV_h265 Require Import Model Proofs.
Open Scope N_scope.

(* never panics, never loops, whatever arrives (loss, duplication, reordering, foreign packets) *)
Theorem C07_h265_no_panic : forall hist, ~ In DPanic (snd (dec_run dinit hist)).
Proof. exact total. Qed.
Print Assumptions C07_h265_no_panic.

(* Absorption: after ANY packet history, one intact access unit leaves the decoder clean - no
   fragment and no NAL unit of any earlier frame is retained, whatever was emitted on the way. *)
Theorem C07_h265_absorb : forall max hist au s,
  4 <= max -> max <= 65538 -> s < 65536 -> valid_frame au ->
  exists ps, enc max s au = (Some ps, SOk, seq_add s (nlen ps)) /\
    clean (fst (dec_run (fst (dec_run dinit hist)) ps)).
Proof. exact absorb. Qed.
Print Assumptions C07_h265_absorb.

(* One intact frame is enough: after any history and an intact access unit au1, the next intact
   access unit au2 is returned exactly at its last packet, "more" before, and the decoder is clean
   afterwards.  Sequence numbers s1, s2 are arbitrary: whole frames may have been lost in between. *)
Theorem C07_h265_resync : forall max hist au1 au2 s1 s2,
  4 <= max -> max <= 65538 -> s1 < 65536 -> s2 < 65536 -> valid_frame au1 -> valid_frame au2 ->
  exists ps1 ps2, enc max s1 au1 = (Some ps1, SOk, seq_add s1 (nlen ps1)) /\
    enc max s2 au2 = (Some ps2, SOk, seq_add s2 (nlen ps2)) /\
    let d0 := fst (dec_run dinit hist) in
    let d1 := fst (dec_run d0 ps1) in
    exists d2, dec_run d1 ps2 = (d2, repeat DMore (length ps2 - 1) ++ [DFrame au2]) /\ clean d2.
Proof. exact resync. Qed.
Print Assumptions C07_h265_resync.

(* non-vacuity: first FU fragment of a frame lost, then two intact frames *)
Example C07_h265_example :
  match enc 5 10 [[2; 1; 1; 2; 3; 4; 5]], enc 5 20 [[64; 1]; [66; 1; 2; 2; 2]], enc 5 30 [[2; 1; 9]] with
  | (Some p0, _, _), (Some p1, _, _), (Some p2, _, _) => snd (dec_run dinit (tl p0 ++ p1 ++ p2))
  | _, _, _ => []
  end = [DErr; DErr; DMore; DMore; DFrame [[64; 1]; [66; 1; 2; 2; 2]]; DFrame [[2; 1; 9]]].
Proof. vm_compute. reflexivity. Qed.

(* ---- the translated kernels (tools/go2coq, regenerated from the Go source on every run) ----
   The resynchronisation tests of decodeNALUs - the NALU type field (b0 >> 1) & 63, the FU start and end bits and the
   three tests on them (start == 1, end != 0, end != 1), the FU type b2 & 63 and the reconstructed 16-bit NALU header,
   the expected next sequence number (pkt.SequenceNumber + 1 and ++, both uint16), the continuity test
   pkt.SequenceNumber != d.fragmentNextSeqNum, the "no fragment pending" test d.fragmentsSize == 0 - ARE the
   expressions Model.decode_nalus is written with. *)
From Coq Require Import ZArith.
From GVG Require Import Kern.
From GV_h265 Require Import BridgeLib Bridge.
Open Scope Z_scope.

Theorem C07_h265_kernels_are_the_code : forall (b0 b1 b2 st en seq next fs : N),
  byte b0 -> byte b1 -> byte b2 -> u16 seq -> u16 next ->
  k_h265_dec_typ (Z.of_N b0) = Z.of_N (N.land (N.shiftr b0 1) 63) /\
  k_h265_dec_start (Z.of_N b2) = Z.of_N (N.shiftr b2 7) /\
  k_h265_dec_end (Z.of_N b2) = Z.of_N (N.land (N.shiftr b2 6) 1) /\
  k_h265_dec_ftyp (Z.of_N b2) = Z.of_N (N.land b2 63) /\
  k_h265_dec_isstart (Z.of_N st) = (st =? 1)%N /\
  k_h265_dec_startend (Z.of_N en) = negb (en =? 0)%N /\
  k_h265_dec_notend (Z.of_N en) = negb (en =? 1)%N /\
  k_h265_dec_head (Z.of_N b0) (k_h265_dec_ftyp (Z.of_N b2)) (Z.of_N b1)
    = Z.of_N (N.lor (N.lor (N.shiftl (N.land b0 129) 8) (N.shiftl (N.land b2 63) 9)) b1) /\
  k_h265_dec_nextseq (Z.of_N seq) = Z.of_N (seq_next seq) /\
  k_h265_dec_incseq (Z.of_N next) = Z.of_N (seq_next next) /\
  k_h265_dec_gap (Z.of_N seq) (Z.of_N next) = negb (seq =? next)%N /\
  k_h265_dec_nostart (Z.of_N fs) = (fs =? 0)%N.
Proof. exact resync_kernels_are_the_code. Qed.
Print Assumptions C07_h265_kernels_are_the_code.

Example C07_h265_example_kernels :
  k_h265_dec_typ 98 = 49 /\ k_h265_dec_typ 96 = 48 /\ k_h265_dec_start 147 = 1 /\ k_h265_dec_end 83 = 1 /\
  k_h265_dec_end 147 = 0 /\ k_h265_dec_ftyp 147 = 19 /\ k_h265_dec_head 98 19 1 = 38 * 256 + 1 /\
  k_h265_dec_isstart 1 = true /\ k_h265_dec_isstart 0 = false /\ k_h265_dec_startend 1 = true /\
  k_h265_dec_notend 1 = false /\ k_h265_dec_notend 0 = true /\
  k_h265_dec_nextseq 65535 = 0 /\ k_h265_dec_incseq 7 = 8 /\ k_h265_dec_gap 8 8 = false /\ k_h265_dec_gap 9 8 = true /\
  k_h265_dec_nostart 0 = true /\ k_h265_dec_nostart 1 = false.
Proof. vm_compute. repeat split. Qed.

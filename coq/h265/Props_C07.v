(* C07, rtph265 - statements only *)
From GVL Require Import NList Rtp.
From GV_h265 Require Import Model Proofs.
Open Scope N_scope.

(* never panics, never loops, whatever arrives (loss, duplication, reordering, foreign packets) *)
Theorem C07_h265_no_panic : forall hist, ~ In DPanic (snd (dec_run dinit hist)).
Proof. exact total. Qed.
Print Assumptions C07_h265_no_panic.

(* Absorption: after ANY packet history, one intact access unit leaves the decoder clean - no
   fragment and no NAL unit of any earlier frame is retained, whatever was emitted on the way. *)
Theorem C07_h265_absorb : forall max hist au s,
  4 <= max -> max <= 65538 -> s < 65536 -> valid_frame au ->
  exists ps, enc max s au = (Some ps, SOk, seq_add s (nlen ps)) /\
    clean (fst (dec_run (fst (dec_run dinit hist)) ps)).
Proof. exact absorb. Qed.
Print Assumptions C07_h265_absorb.

(* One intact frame is enough: after any history and an intact access unit au1, the next intact
   access unit au2 is returned exactly at its last packet, "more" before, and the decoder is clean
   afterwards.  Sequence numbers s1, s2 are arbitrary: whole frames may have been lost in between. *)
Theorem C07_h265_resync : forall max hist au1 au2 s1 s2,
  4 <= max -> max <= 65538 -> s1 < 65536 -> s2 < 65536 -> valid_frame au1 -> valid_frame au2 ->
  exists ps1 ps2, enc max s1 au1 = (Some ps1, SOk, seq_add s1 (nlen ps1)) /\
    enc max s2 au2 = (Some ps2, SOk, seq_add s2 (nlen ps2)) /\
    let d0 := fst (dec_run dinit hist) in
    let d1 := fst (dec_run d0 ps1) in
    exists d2, dec_run d1 ps2 = (d2, repeat DMore (length ps2 - 1) ++ [DFrame au2]) /\ clean d2.
Proof. exact resync. Qed.
Print Assumptions C07_h265_resync.

(* non-vacuity: first FU fragment of a frame lost, then two intact frames *)
Example C07_h265_example :
  match enc 5 10 [[2; 1; 1; 2; 3; 4; 5]], enc 5 20 [[64; 1]; [66; 1; 2; 2; 2]], enc 5 30 [[2; 1; 9]] with
  | (Some p0, _, _), (Some p1, _, _), (Some p2, _, _) => snd (dec_run dinit (tl p0 ++ p1 ++ p2))
  | _, _, _ => []
  end = [DErr; DErr; DMore; DMore; DFrame [[64; 1]; [66; 1; 2; 2; 2]]; DFrame [[2; 1; 9]]].
Proof. vm_compute. reflexivity. Qed.

(* C08, rtph265 - statements only *)
From GVL Require Import NList Rtp.
From GV_h265 Require Import Model Proofs.
Open Scope N_scope.

(* arbitrary packet sequences - any payload bytes, sequence numbers, timestamps, markers: Decode
   returns a frame, "more" or an error; never a panic, never a loop (out-of-fuel is Panic in the model).
   Covers joinFragments, splitNALUs and the aggregation-unit walk. *)
Theorem C08_h265_total : forall hist, ~ In DPanic (snd (dec_run dinit hist)).
Proof. exact total. Qed.
Print Assumptions C08_h265_total.

(* for every history whose packets carry at most P payload bytes: retained bytes (fragments + frame
   buffer) stay below max(MaxAccessUnitSize, P) + MaxAccessUnitSize, the frame buffer holds at most
   MaxNALUsPerAccessUnit slices, and every returned frame has at most MaxNALUsPerAccessUnit NAL units
   and MaxAccessUnitSize bytes *)
Theorem C08_h265_bounded : forall P hist,
  Forall (fun p => nlen (ppayload p) <= P) hist ->
  let '(d, rs) := dec_run dinit hist in
  fst (retained d) <= N.max cap P + cap /\ nlen (dfb d) <= maxn /\
  forall f, In (DFrame f) rs -> nlen f <= maxn /\ sum_len f <= cap.
Proof. exact bounded. Qed.
Print Assumptions C08_h265_bounded.

(* the number of retained slice headers is bounded as long as no packet is a bare 3-byte FU header ... *)
Theorem C08_h265_slices_bounded_partial : forall P hist,
  Forall (fun p => 3 < nlen (ppayload p) /\ nlen (ppayload p) <= P) hist ->
  snd (retained (fst (dec_run dinit hist))) <= N.max cap P + maxn.
Proof. exact slices_bounded_partial. Qed.
Print Assumptions C08_h265_slices_bounded_partial.

(* ... and is NOT bounded otherwise (DESIGN F6): for every bound B there is a history of 3-byte
   packets (one FU start, then zero-length FU middle fragments with consecutive sequence numbers)
   after which the decoder retains more than B slice headers, while retaining two bytes.  Known
   finding h265-empty-fu-unbounded-slices, reproduced on the implementation by the harness. *)
Theorem C08_h265_slices_bounded_refuted : forall B, exists hist,
  Forall (fun p => nlen (ppayload p) <= 3) hist /\
  B < snd (retained (fst (dec_run dinit hist))) /\
  fst (retained (fst (dec_run dinit hist))) = 2.
Proof. exact slices_bounded_refuted. Qed.
Print Assumptions C08_h265_slices_bounded_refuted.

(* H265.PTSEqualsDTS (pkg/format/h265.go) returns true or false on every payload: no panic, no loop *)
Theorem C08_h265_pts_equals_dts_total : forall payload, pts_equals_dts payload <> None.
Proof. exact pts_equals_dts_total. Qed.
Print Assumptions C08_h265_pts_equals_dts_total.

Example C08_h265_example :
  (* start-code splitting of a reassembled FU, an AP with a zero size, a FU with S and E both set *)
  snd (dec_run dinit [mkPkt 1 0 false [98; 1; 147; 0; 0; 1; 9];
                      mkPkt 2 0 true [98; 1; 83; 0; 0; 0; 1; 8];
                      mkPkt 3 0 true [96; 1; 0; 1; 70; 0; 0];
                      mkPkt 4 0 true [98; 1; 211; 5]])
  = [DMore; DFrame [[38; 1]; [9]; [8]]; DErr; DErr]
  /\ pts_equals_dts [96; 1; 0; 2; 2; 1; 0; 2; 64; 1] = Some true.
Proof. vm_compute. split; reflexivity. Qed.

(* C08, rtph265 - statements only *)
From GVL Require Import NList Rtp.
From GV_h265 Require Import Model Proofs.
Open Scope N_scope.

(* arbitrary packet sequences - any payload bytes, sequence numbers, timestamps, markers: Decode
   returns a frame, "more" or an error; never a panic, never a loop (out-of-fuel is Panic in the model).
   Covers joinFragments, splitNALUs and the aggregation-unit walk. *)
Theorem C08_h265_total : forall hist, ~ In DPanic (snd (dec_run dinit hist)).
Proof. exact total. Qed.
Print Assumptions C08_h265_total.

(* for every history whose packets carry at most P payload bytes: retained bytes (fragments + frame
   buffer) stay below max(MaxAccessUnitSize, P) + MaxAccessUnitSize, the frame buffer holds at most
   MaxNALUsPerAccessUnit slices, and every returned frame has at most MaxNALUsPerAccessUnit NAL units
   and MaxAccessUnitSize bytes *)
Theorem C08_h265_bounded : forall P hist,
  Forall (fun p => nlen (ppayload p) <= P) hist ->
  let '(d, rs) := dec_run dinit hist in
  fst (retained d) <= N.max cap P + cap /\ nlen (dfb d) <= maxn /\
  forall f, In (DFrame f) rs -> nlen f <= maxn /\ sum_len f <= cap.
Proof. exact bounded. Qed.
Print Assumptions C08_h265_bounded.

(* the number of retained slice headers is bounded as long as no packet is a bare 3-byte FU header ... *)
Theorem C08_h265_slices_bounded_partial : forall P hist,
  Forall (fun p => 3 < nlen (ppayload p) /\ nlen (ppayload p) <= P) hist ->
  snd (retained (fst (dec_run dinit hist))) <= N.max cap P + maxn.
Proof. exact slices_bounded_partial. Qed.
Print Assumptions C08_h265_slices_bounded_partial.

(* ... and is NOT bounded otherwise (DESIGN F6): for every bound B there is a history of 3-byte
   packets (one FU start, then zero-length FU middle fragments with consecutive sequence numbers)
   after which the decoder retains more than B slice headers, while retaining two bytes.  Known
   finding h265-empty-fu-unbounded-slices, reproduced on the implementation by the harness. *)
Theorem C08_h265_slices_bounded_refuted : forall B, exists hist,
  Forall (fun p => nlen (ppayload p) <= 3) hist /\
  B < snd (retained (fst (dec_run dinit hist))) /\
  fst (retained (fst (dec_run dinit hist))) = 2.
Proof. exact slices_bounded_refuted. Qed.
Print Assumptions C08_h265_slices_bounded_refuted.

(* H265.PTSEqualsDTS (pkg/format/h265.go) returns true or false on every payload: no panic, no loop *)
Theorem C08_h265_pts_equals_dts_total : forall payload, pts_equals_dts payload <> None.
Proof. exact pts_equals_dts_total. Qed.
Print Assumptions C08_h265_pts_equals_dts_total.

Example C08_h265_example :
  (* start-code splitting of a reassembled FU, an AP with a zero size, a FU with S and E both set *)
  snd (dec_run dinit [mkPkt 1 0 false [98; 1; 147; 0; 0; 1; 9];
                      mkPkt 2 0 true [98; 1; 83; 0; 0; 0; 1; 8];
                      mkPkt 3 0 true [96; 1; 0; 1; 70; 0; 0];
                      mkPkt 4 0 true [98; 1; 211; 5]])
  = [DMore; DFrame [[38; 1]; [9]; [8]]; DErr; DErr]
  /\ pts_equals_dts [96; 1; 0; 2; 2; 1; 0; 2; 64; 1] = Some true.
Proof. vm_compute. split; reflexivity. Qed.

(* ---- the translated kernels (tools/go2coq, regenerated from the Go source on every run) ----
   The length tests and caps of rtph265/decoder.go - len(payload) < 2, < 3, the accumulation d.fragmentsSize +=
   len(payload[3:]) and its cap > h265.MaxAccessUnitSize, the aggregation-unit walk (len(payload) < 2, the 16-bit size
   field, size == 0 || int(size) > len(payload), len(payload) == 0), the NALU-count cap and the access-unit size cap
   of Decode with their accumulations - ARE the tests of Model.decode_nalus / ap_walk / dec (the constants are
   GVG.Consts' h265_max_au, h265_max_nalus). *)
From Coq Require Import ZArith.
From GVG Require Import Kern.
From GV_h265 Require Import BridgeLib Bridge.
Open Scope Z_scope.

Theorem C08_h265_kernels_are_the_code :
  forall (pl pl2 data rest : bytes) (b0 b1 p0 p1 fs fl l fsz add : N),
  byte p0 -> byte p1 -> Z.of_N (fs + nlen data) < i64max -> Z.of_N (fl + l) < i64max -> Z.of_N (fsz + add) < i64max ->
  k_h265_dec_short (Z.of_N (nlen pl)) = match pl with _ :: _ :: _ => false | _ => true end /\
  k_h265_dec_fushort (Z.of_N (nlen (b0 :: b1 :: pl2))) = match pl2 with [] => true | _ :: _ => false end /\
  k_h265_dec_cap (k_h265_dec_acc (Z.of_N fs) (Z.of_N (nlen data))) (Z.of_N cap) = (cap <? fs + nlen data)%N /\
  k_h265_dec_acc (Z.of_N fs) (Z.of_N (nlen data)) = Z.of_N (fs + nlen data) /\
  k_h265_ap_dshort (Z.of_N (nlen pl)) = match pl with _ :: _ :: _ => false | _ => true end /\
  k_h265_ap_dsize (Z.of_N p0) (Z.of_N p1) = Z.of_N (p0 * 256 + p1) /\
  k_h265_ap_dbad (Z.of_N (p0 * 256 + p1)) (Z.of_N (nlen rest)) = ((p0 * 256 + p1 =? 0) || (nlen rest <? p0 * 256 + p1))%N /\
  k_h265_ap_ddone (Z.of_N (nlen pl)) = match pl with [] => true | _ :: _ => false end /\
  k_h265_fb_count (Z.of_N fl) (Z.of_N l) (Z.of_N maxn) = (maxn <? fl + l)%N /\
  k_h265_fb_size (Z.of_N fsz) (Z.of_N add) (Z.of_N cap) = (cap <? fsz + add)%N /\
  k_h265_fb_len_acc (Z.of_N fl) (Z.of_N l) = Z.of_N (fl + l) /\
  k_h265_fb_size_acc (Z.of_N fsz) (Z.of_N add) = Z.of_N (fsz + add).
Proof. exact caps_kernels_are_the_code. Qed.
Print Assumptions C08_h265_kernels_are_the_code.

Example C08_h265_example_kernels :
  k_h265_dec_cap (k_h265_dec_acc (Z.of_N cap - 10) 10) (Z.of_N cap) = false /\
  k_h265_dec_cap (k_h265_dec_acc (Z.of_N cap - 10) 11) (Z.of_N cap) = true /\
  k_h265_ap_dsize 1 2 = 258 /\ k_h265_ap_dbad 258 257 = true /\ k_h265_ap_dbad 258 258 = false /\
  k_h265_ap_dbad 0 5 = true /\ k_h265_ap_dshort 1 = true /\ k_h265_ap_dshort 2 = false /\
  k_h265_ap_ddone 0 = true /\ k_h265_ap_ddone 1 = false /\
  k_h265_fb_count (Z.of_N maxn - 1) 1 (Z.of_N maxn) = false /\ k_h265_fb_count (Z.of_N maxn) 1 (Z.of_N maxn) = true /\
  k_h265_fb_size (Z.of_N cap - 1) 1 (Z.of_N cap) = false /\ k_h265_fb_size (Z.of_N cap) 1 (Z.of_N cap) = true /\
  k_h265_dec_short 1 = true /\ k_h265_dec_short 2 = false /\ k_h265_dec_fushort 2 = true /\ k_h265_dec_fushort 3 = false.
Proof. vm_compute. repeat split. Qed.

(* C03, rtph265 - statements only *)
From GVL Require Import NList Rtp.
From GV_h265 Require Import Model Proofs.
Open Scope N_scope.

(* One access unit: for every payload limit 4 <= max <= 65538 (4 is the smallest value for which
   the encoder works; above 65538 the 16-bit AP size field could overflow), every initial sequence
   number, every valid access unit (1..MaxNALUsPerAccessUnit NAL units, at most MaxAccessUnitSize bytes,
   each NALU at least its 2-byte header, type outside 48..50, no 00 00 01 inside) and every clean decoder
   state: the encoder succeeds, every packet but the last answers "more packets needed", the last returns
   exactly the access unit - same NAL units, same bytes, same grouping - and the decoder is clean again. *)
Theorem C03_h265_roundtrip : forall max seq au d,
  4 <= max -> max <= 65538 -> seq < 65536 -> valid_frame au -> clean d ->
  exists ps d', enc max seq au = (Some ps, SOk, seq_add seq (nlen ps)) /\
    dec_run d ps = (d', repeat DMore (length ps - 1) ++ [DFrame au]) /\ clean d'.
Proof. exact roundtrip. Qed.
Print Assumptions C03_h265_roundtrip.

(* consecutive access units through one encoder/decoder pair *)
Theorem C03_h265_roundtrip_seq : forall max, 4 <= max -> max <= 65538 -> forall frames seq d,
  seq < 65536 -> Forall valid_frame frames -> clean d ->
  exists pss d', enc_many max seq frames = Some pss /\
    dec_run d (concat pss) = (d', expect pss frames) /\ clean d'.
Proof. exact roundtrip_seq. Qed.
Print Assumptions C03_h265_roundtrip_seq.

(* whatever timestamps the application stamps on the packets: the decoder does not look at them *)
Theorem C03_h265_timestamps_ignored : forall ts ps d, dec_run d (set_ts ts ps) = dec_run d ps.
Proof. exact dec_run_set_ts. Qed.
Print Assumptions C03_h265_timestamps_ignored.

(* non-vacuity: limit 9; a fragmented NALU (2 FU packets), then two NALUs aggregated in one AP,
   then a single NALU; sequence numbers wrap *)
Definition ex_au : list bytes := [[38; 1; 0; 0; 3; 1; 9; 8; 7; 6; 5]; [64; 1; 7]; [66; 1]; [2; 1; 3; 4; 5]].
Example C03_h265_example :
  valid_frame ex_au /\
  match enc 11 65534 ex_au with
  | (Some ps, _, q) => (map pseq ps, map (fun p => nlen (ppayload p)) ps, q, snd (dec_run dinit ps))
  | _ => ([], [], 0, [])
  end = ([65534; 65535; 0; 1], [11; 4; 11; 5], 2, [DMore; DMore; DMore; DFrame ex_au]).
Proof.
  split; [|vm_compute; reflexivity].
  unfold valid_frame, ex_au. split; [discriminate|]. split; [vm_compute; discriminate|]. split; [vm_compute; discriminate|].
  repeat constructor.
Qed.

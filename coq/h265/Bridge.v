(* BRIDGE: the integer formulas of pkg/format/rtph265 (encoder.go, decoder.go) as TRANSLATED from the Go source on
   this run (GVG.Kern, tools/go2coq, spec.d/h265.txt) are the formulas the hand-written Model.v uses: the aggregation
   length (every statement of lenAggregationUnit) and its comparison with PayloadMaxSize, the single / FU decision,
   the FU budget (PayloadMaxSize - 3), the fragment count, the three FU header bytes, the position of the marker, the
   sequence number step, the bit formulas of the aggregation packet header (lowest layerID / temporalID, the 16-bit
   sizes); in the decoder the length tests, the NALU type and FU header fields, the reconstructed NALU header, the
   sequence-number continuity test, the size accumulation and the three caps, the aggregation-unit walk tests.
   Re-checked against the regenerated Kern.v on every run. *)
From Coq Require Import ZArith NArith List Lia Bool.
From Coq Require Import ZifyBool ZifyN ZifyNat.
From GVL Require Import NList Wrap Chunks Rtp.
From GVG Require Import Consts Kern.
From GV_h265 Require Import Model BridgeLib.
Import ListNotations.
Open Scope Z_scope.

Definition byte (b : N) : Prop := (b < 256)%N.
Definition u16 (s : N) : Prop := (s < 65536)%N.

(* ---------- exhaustive checks over bytes (bit formulas are compared on all 256 / 65536 arguments) ---------- *)
Fixpoint all_below (n : nat) (P : N -> bool) : bool :=
  match n with O => true | S k => P (N.of_nat k) && all_below k P end.
Lemma all_below_spec n P : all_below n P = true -> forall b, (b < N.of_nat n)%N -> P b = true.
Proof.
  induction n as [|k IH]; intros H b Hb; [lia|]. cbn [all_below] in H. apply andb_prop in H. destruct H as [H1 H2].
  destruct (N.eq_dec b (N.of_nat k)) as [->|Ne]; [exact H1|]. apply IH; [exact H2|lia].
Qed.
Lemma bytes_eq (f g : N -> Z) : all_below 256 (fun b => f b =? g b) = true -> forall b, byte b -> f b = g b.
Proof.
  intros H b Hb. apply Z.eqb_eq. apply (all_below_spec 256 (fun b => f b =? g b) H).
  unfold byte in Hb. change (N.of_nat 256) with 256%N. exact Hb.
Qed.
Lemma bytes_eq2 (f g : N -> N -> Z) :
  all_below 256 (fun a => all_below 256 (fun b => f a b =? g a b)) = true ->
  forall a b, byte a -> byte b -> f a b = g a b.
Proof.
  intros H a b Ha Hb. apply (bytes_eq (f a) (g a)); [|exact Hb].
  apply (all_below_spec 256 (fun a => all_below 256 (fun b => f a b =? g a b)) H).
  unfold byte in Ha. change (N.of_nat 256) with 256%N. exact Ha.
Qed.

Lemma lor_lt_pow2_N (a b k : N) : (a < 2 ^ k -> b < 2 ^ k -> N.lor a b < 2 ^ k)%N.
Proof.
  intros Ha Hb. destruct (N.eq_dec (N.lor a b) 0) as [E|E].
  - rewrite E. apply N.neq_0_lt_0. apply N.pow_nonzero. discriminate.
  - assert (Hk : (0 < k)%N).
    { destruct (N.eq_dec k 0) as [->|]; [|lia]. change (2 ^ 0)%N with 1%N in *.
      assert (a = 0%N) by lia. assert (b = 0%N) by lia. subst. cbn in E. congruence. }
    apply N.log2_lt_pow2; [lia|]. rewrite N.log2_lor. apply N.max_lub_lt.
    + destruct (N.eq_dec a 0) as [->|Ha0]; [exact Hk|]. apply N.log2_lt_pow2; [lia|exact Ha].
    + destruct (N.eq_dec b 0) as [->|Hb0]; [exact Hk|]. apply N.log2_lt_pow2; [lia|exact Hb].
Qed.

(* ---------- encoder ---------- *)

(* lenAggregationUnit(nalus, addNALU): the loop skeleton is written here, every statement of it is a translated kernel *)
Fixpoint la_loop (n : Z) (nalus : list bytes) : Z :=
  match nalus with
  | [] => n
  | x :: t => la_loop (k_h265_lenagg_nalu (k_h265_lenagg_size n) (Z.of_N (nlen x))) t
  end.
Definition la_code (nalus : list bytes) (add : option bytes) : Z :=
  let n := la_loop k_h265_lenagg_hdr nalus in
  match add with
  | None => n
  | Some a => k_h265_lenagg_analu (k_h265_lenagg_asize n) (Z.of_N (nlen a))
  end.

Lemma la_loop_spec nalus : forall n, 0 <= n -> n + Z.of_N (len_agg_body nalus) < i64max ->
  la_loop n nalus = n + Z.of_N (len_agg_body nalus).
Proof.
  unfold i64max. induction nalus as [|x t IH]; intros n Hn Hb; cbn [la_loop len_agg_body] in *; [lia|].
  unfold k_h265_lenagg_nalu, k_h265_lenagg_size. rewrite (ki64_small (n + 2)) by lia.
  rewrite ki64_small by lia. rewrite IH by lia. lia.
Qed.

Lemma bridge_len_agg nalus : Z.of_N (len_agg nalus) < i64max ->
  la_code nalus None = Z.of_N (len_agg nalus).
Proof.
  unfold la_code, len_agg, k_h265_lenagg_hdr, i64max. intros H. rewrite la_loop_spec; unfold i64max; lia.
Qed.

Lemma bridge_len_agg_add nalus a : Z.of_N (len_agg nalus + 2 + nlen a) < i64max ->
  la_code nalus (Some a) = Z.of_N (len_agg nalus + 2 + nlen a).
Proof.
  unfold la_code, len_agg, k_h265_lenagg_hdr, k_h265_lenagg_analu, k_h265_lenagg_asize, i64max. intros H.
  rewrite la_loop_spec by (unfold i64max; lia). rewrite (ki64_small (_ + 2)) by lia. rewrite ki64_small by lia. lia.
Qed.

(* if e.lenAggregationUnit(batch, nalu) <= e.PayloadMaxSize   is the test of Model.batches *)
Lemma bridge_agg_fits max batch n : Z.of_N (len_agg batch + 2 + nlen n) < i64max ->
  k_h265_agg_fits (la_code batch (Some n)) (Z.of_N max) = (len_agg batch + 2 + nlen n <=? max)%N.
Proof. intros H. rewrite bridge_len_agg_add by exact H. unfold k_h265_agg_fits. apply leb_N. Qed.

(* writeBatch: len(nalus) == 1, then len(nalus[0]) < e.PayloadMaxSize  (Model.write_batch) *)
Lemma bridge_one_nalu (batch : list bytes) : k_h265_one_nalu (Z.of_N (nlen batch)) = (nlen batch =? 1)%N.
Proof. unfold k_h265_one_nalu. exact (eqb_N (nlen batch) 1). Qed.
Lemma bridge_single_fits max (n : bytes) : k_h265_single_fits (Z.of_N (nlen n)) (Z.of_N max) = (nlen n <? max)%N.
Proof. unfold k_h265_single_fits. apply ltb_N. Qed.

(* writeFragmentationUnits: avail, le, the packet count, the size of a packet, last / marker *)
Lemma bridge_fu_avail max : (3 <= max)%N -> Z.of_N max < i64max -> k_h265_fu_avail (Z.of_N max) = Z.of_N (max - 3).
Proof. unfold k_h265_fu_avail, i64max. intros H1 H2. rewrite ki64_small by lia. lia. Qed.
Lemma bridge_fu_le (b0 b1 : N) (rest : bytes) : Z.of_N (nlen (b0 :: b1 :: rest)) < i64max ->
  k_h265_fu_le (Z.of_N (nlen (b0 :: b1 :: rest))) = Z.of_N (nlen rest).
Proof. unfold k_h265_fu_le, i64max. cbn [nlen]. intros H. rewrite ki64_small by lia. lia. Qed.

Lemma bridge_fu_count max (b0 b1 : N) (rest : bytes) : (4 <= max)%N -> Z.of_N max < i64max ->
  Z.of_N (nlen (b0 :: b1 :: rest)) < i64max ->
  k_h265_packetCount (k_h265_fu_avail (Z.of_N max)) (k_h265_fu_le (Z.of_N (nlen (b0 :: b1 :: rest))))
  = Some (Z.of_N (nlen (chunks (max - 3) rest))).
Proof.
  intros H1 H2 H3. rewrite bridge_fu_avail, bridge_fu_le by (try assumption; lia).
  unfold k_h265_packetCount. unfold i64max in *. cbn [nlen] in H3. rewrite pc_generic by lia.
  rewrite chunks_count_Z by lia. reflexivity.
Qed.

Lemma bridge_fu_size (h0 h1 h2 : N) (c : bytes) : Z.of_N (nlen c) + 3 < i64max ->
  k_h265_fu_size (Z.of_N (nlen c)) = Z.of_N (nlen (h0 :: h1 :: h2 :: c)).
Proof. unfold k_h265_fu_size, i64max. cbn [nlen]. intros H. rewrite ki64_small by lia. lia. Qed.

Lemma bridge_fu_last (i pc : N) : Z.of_N pc < i64max -> (1 <= pc)%N ->
  k_h265_fu_last (Z.of_N i) (Z.of_N pc) = (i + 1 =? pc)%N.
Proof.
  unfold k_h265_fu_last, i64max. intros H1 H2. rewrite ki64_small by lia.
  destruct (Z.eqb_spec (Z.of_N i) (Z.of_N pc - 1)), (N.eqb_spec (i + 1) pc); lia.
Qed.
Lemma bridge_fu_marker (i pc : N) (m : bool) : Z.of_N pc < i64max -> (1 <= pc)%N ->
  k_h265_fu_marker (Z.of_N i) (Z.of_N pc) m = ((i + 1 =? pc)%N && m).
Proof. intros H1 H2. unfold k_h265_fu_marker. fold (k_h265_fu_last (Z.of_N i) (Z.of_N pc)). rewrite bridge_fu_last by assumption. reflexivity. Qed.

(* Model.fu_protos marks the last chunk: position i of a list of pc chunks is the last one iff i + 1 = pc *)
Lemma fu_protos_marker b0 b1 m : forall (cs : list bytes) st i, (i < length cs)%nat ->
  nth i (map fst (fu_protos b0 b1 m st cs)) false = ((N.of_nat i + 1 =? nlen cs)%N && m).
Proof.
  induction cs as [|c t IH]; intros st i Hi; cbn [length] in Hi; [lia|].
  cbn [fu_protos map fst]. destruct i as [|i]; cbn [nth].
  - destruct t as [|c' t']; cbn [nlen]; [reflexivity|].
    match goal with |- context [N.eqb ?a ?b] => destruct (N.eqb_spec a b) as [E|E] end; [lia|reflexivity].
  - rewrite IH by lia. f_equal. cbn [nlen].
    repeat match goal with |- context [N.eqb ?a ?b] => destruct (N.eqb_spec a b) end; lia.
Qed.

(* the FU header bytes: data[0] = head[0]&0x81 | 49<<1,  data[2] = start<<7 | end<<6 | (head[0]>>1)&63 *)
Definition bit (b : bool) : Z := if b then 1 else 0.
Lemma bridge_fu_hdr (b0 : N) (s e : bool) : byte b0 ->
  k_h265_fu_hdr0 (Z.of_N b0) = Z.of_N (fu_hdr0 b0) /\
  k_h265_fu_hdr2 (bit s) (bit e) (Z.of_N b0) = Z.of_N (fu_hdr2 s e b0).
Proof.
  intros H. split.
  - revert b0 H. apply bytes_eq. vm_compute. reflexivity.
  - revert b0 H. destruct s, e; apply bytes_eq; vm_compute; reflexivity.
Qed.

(* e.sequenceNumber++ (three copies) is Rtp.seq_next *)
Lemma bridge_seq (s : N) :
  k_h265_seq_single (Z.of_N s) = Z.of_N (seq_next s) /\ k_h265_seq_fu (Z.of_N s) = Z.of_N (seq_next s) /\
  k_h265_seq_ap (Z.of_N s) = Z.of_N (seq_next s).
Proof. unfold k_h265_seq_single, k_h265_seq_fu, k_h265_seq_ap, seq_next. repeat split; apply w16_succ_N. Qed.

(* writeAggregationUnit: len(nalu) < 2, the layerID / temporalID of a NALU and the two "lowest" tests, the two size
   bytes, the two header bytes  (Model.ap_ids, ap_body, ap) *)
Lemma bridge_ap_short (n : bytes) :
  k_h265_ap_short (Z.of_N (nlen n)) = match n with _ :: _ :: _ => false | _ => true end.
Proof. unfold k_h265_ap_short. destruct n as [|a [|b t]]; cbn [nlen]; lia. Qed.

Lemma bridge_ap_ids (b0 b1 lid tid : N) : byte b0 -> byte b1 ->
  k_h265_ap_lid (Z.of_N b0) (Z.of_N b1) = Z.of_N (N.lor (N.shiftl (N.land b0 1) 5) (N.land (N.shiftr b1 3) 31)) /\
  k_h265_ap_tid (Z.of_N b1) = Z.of_N (N.land b1 7) /\
  k_h265_ap_lid_lt (Z.of_N (N.lor (N.shiftl (N.land b0 1) 5) (N.land (N.shiftr b1 3) 31))) (Z.of_N lid)
    = (N.lor (N.shiftl (N.land b0 1) 5) (N.land (N.shiftr b1 3) 31) <? lid)%N /\
  k_h265_ap_tid_lt (Z.of_N (N.land b1 7)) (Z.of_N tid) = (N.land b1 7 <? tid)%N.
Proof.
  intros H0 H1. split; [|split; [|split]].
  - revert b0 b1 H0 H1. apply bytes_eq2. vm_compute. reflexivity.
  - revert b1 H1. apply bytes_eq. vm_compute. reflexivity.
  - unfold k_h265_ap_lid_lt. apply ltb_N.
  - unfold k_h265_ap_tid_lt. apply ltb_N.
Qed.

Lemma bridge_ap_hdr (lid tid : N) : byte lid -> byte tid ->
  k_h265_ap_hdr0 (Z.of_N lid) = Z.of_N (N.lor 96 (N.land lid 32)) /\
  k_h265_ap_hdr1 (Z.of_N lid) (Z.of_N tid) = Z.of_N (N.lor (N.shiftl (N.land lid 31) 3) (N.land tid 7)).
Proof.
  intros H0 H1. split.
  - revert lid H0. apply bytes_eq. vm_compute. reflexivity.
  - revert lid tid H0 H1. apply bytes_eq2. vm_compute. reflexivity.
Qed.

Lemma bridge_ap_size (n : bytes) : Z.of_N (nlen n) < i64max ->
  k_h265_ap_size_hi (Z.of_N (nlen n)) = Z.of_N ((nlen n / 256) mod 256) /\
  k_h265_ap_size_lo (Z.of_N (nlen n)) = Z.of_N (nlen n mod 256).
Proof.
  unfold k_h265_ap_size_hi, k_h265_ap_size_lo, i64max, w8. intros H.
  rewrite Z.shiftr_div_pow2 by lia. change (2 ^ 8) with 256.
  assert (0 <= Z.of_N (nlen n) / 256 <= Z.of_N (nlen n)) by (split; [apply Z.div_pos; lia|apply Z.div_le_upper_bound; lia]).
  rewrite ki64_small by lia. rewrite !N2Z.inj_mod, N2Z.inj_div. split; reflexivity.
Qed.

Theorem enc_kernels_are_the_code (max : N) (batch : list bytes) (n : bytes) (b0 b1 : N) (rest : bytes) (i pc s : N)
    (m st en : bool) (lid tid : N) :
  (4 <= max)%N -> Z.of_N max < i64max -> Z.of_N (len_agg batch + 2 + nlen n) < i64max ->
  Z.of_N (nlen (b0 :: b1 :: rest)) + 3 < i64max -> (1 <= pc)%N -> Z.of_N pc < i64max ->
  byte b0 -> byte b1 -> byte lid -> byte tid ->
  la_code batch None = Z.of_N (len_agg batch) /\
  k_h265_agg_fits (la_code batch (Some n)) (Z.of_N max) = (len_agg batch + 2 + nlen n <=? max)%N /\
  k_h265_one_nalu (Z.of_N (nlen batch)) = (nlen batch =? 1)%N /\
  k_h265_single_fits (Z.of_N (nlen n)) (Z.of_N max) = (nlen n <? max)%N /\
  k_h265_fu_avail (Z.of_N max) = Z.of_N (max - 3) /\
  k_h265_packetCount (k_h265_fu_avail (Z.of_N max)) (k_h265_fu_le (Z.of_N (nlen (b0 :: b1 :: rest))))
    = Some (Z.of_N (nlen (chunks (max - 3) rest))) /\
  k_h265_fu_size (Z.of_N (nlen rest)) = Z.of_N (nlen (fu_hdr0 b0 :: b1 :: fu_hdr2 st en b0 :: rest)) /\
  k_h265_fu_hdr0 (Z.of_N b0) = Z.of_N (fu_hdr0 b0) /\
  k_h265_fu_hdr2 (bit st) (bit en) (Z.of_N b0) = Z.of_N (fu_hdr2 st en b0) /\
  k_h265_fu_last (Z.of_N i) (Z.of_N pc) = (i + 1 =? pc)%N /\
  k_h265_fu_marker (Z.of_N i) (Z.of_N pc) m = ((i + 1 =? pc)%N && m) /\
  k_h265_seq_single (Z.of_N s) = Z.of_N (seq_next s) /\ k_h265_seq_fu (Z.of_N s) = Z.of_N (seq_next s) /\
  k_h265_seq_ap (Z.of_N s) = Z.of_N (seq_next s) /\
  k_h265_ap_short (Z.of_N (nlen n)) = match n with _ :: _ :: _ => false | _ => true end /\
  k_h265_ap_lid (Z.of_N b0) (Z.of_N b1) = Z.of_N (N.lor (N.shiftl (N.land b0 1) 5) (N.land (N.shiftr b1 3) 31)) /\
  k_h265_ap_tid (Z.of_N b1) = Z.of_N (N.land b1 7) /\
  k_h265_ap_lid_lt (Z.of_N (N.lor (N.shiftl (N.land b0 1) 5) (N.land (N.shiftr b1 3) 31))) (Z.of_N lid)
    = (N.lor (N.shiftl (N.land b0 1) 5) (N.land (N.shiftr b1 3) 31) <? lid)%N /\
  k_h265_ap_tid_lt (Z.of_N (N.land b1 7)) (Z.of_N tid) = (N.land b1 7 <? tid)%N /\
  k_h265_ap_size_hi (Z.of_N (nlen rest)) = Z.of_N ((nlen rest / 256) mod 256) /\
  k_h265_ap_size_lo (Z.of_N (nlen rest)) = Z.of_N (nlen rest mod 256) /\
  k_h265_ap_hdr0 (Z.of_N lid) = Z.of_N (N.lor 96 (N.land lid 32)) /\
  k_h265_ap_hdr1 (Z.of_N lid) (Z.of_N tid) = Z.of_N (N.lor (N.shiftl (N.land lid 31) 3) (N.land tid 7)).
Proof.
  intros H1 H2 H3 H4 H5 H6 B0 B1 BL BT. unfold i64max in *.
  destruct (bridge_fu_hdr b0 st en B0) as (F0 & F2). destruct (bridge_ap_ids b0 b1 lid tid B0 B1) as (I0 & I1 & I2 & I3).
  destruct (bridge_ap_hdr lid tid BL BT) as (A0 & A1).
  cbn [nlen] in H4.
  destruct (bridge_ap_size rest ltac:(unfold i64max; lia)) as (S0 & S1).
  split; [apply bridge_len_agg; unfold i64max; lia|].
  split; [apply bridge_agg_fits; exact H3|].
  split; [apply bridge_one_nalu|]. split; [apply bridge_single_fits|].
  split; [apply bridge_fu_avail; unfold i64max; lia|].
  split; [apply bridge_fu_count; unfold i64max; cbn [nlen]; lia|].
  split; [apply bridge_fu_size; unfold i64max; lia|].
  split; [exact F0|]. split; [exact F2|].
  split; [apply bridge_fu_last; unfold i64max; lia|].
  split; [apply bridge_fu_marker; unfold i64max; lia|].
  destruct (bridge_seq s) as (Q0 & Q1 & Q2).
  split; [exact Q0|]. split; [exact Q1|]. split; [exact Q2|].
  split; [apply bridge_ap_short|].
  repeat split; assumption.
Qed.

(* ---------- decoder: resynchronisation tests (C07) ---------- *)

(* the NALU type, the FU start / end bits and the tests on them, the FU type, the reconstructed 16-bit NALU header *)
Lemma bridge_dec_fields (b0 b2 : N) : byte b0 -> byte b2 ->
  k_h265_dec_typ (Z.of_N b0) = Z.of_N (N.land (N.shiftr b0 1) 63) /\
  k_h265_dec_start (Z.of_N b2) = Z.of_N (N.shiftr b2 7) /\
  k_h265_dec_end (Z.of_N b2) = Z.of_N (N.land (N.shiftr b2 6) 1) /\
  k_h265_dec_ftyp (Z.of_N b2) = Z.of_N (N.land b2 63).
Proof.
  intros H0 H2. repeat split.
  - revert b0 H0. apply bytes_eq. vm_compute. reflexivity.
  - revert b2 H2. apply bytes_eq. vm_compute. reflexivity.
  - revert b2 H2. apply bytes_eq. vm_compute. reflexivity.
  - revert b2 H2. apply bytes_eq. vm_compute. reflexivity.
Qed.

Lemma bridge_dec_bits (st en : N) :
  k_h265_dec_isstart (Z.of_N st) = (st =? 1)%N /\
  k_h265_dec_startend (Z.of_N en) = negb (en =? 0)%N /\
  k_h265_dec_notend (Z.of_N en) = negb (en =? 1)%N.
Proof.
  unfold k_h265_dec_isstart, k_h265_dec_startend, k_h265_dec_notend.
  repeat split; [exact (eqb_N st 1)|f_equal; exact (eqb_N en 0)|f_equal; exact (eqb_N en 1)].
Qed.

(* head := uint16(p0&0x81)<<8 | uint16(typ)<<9 | uint16(p1), with typ = p2 & 63 *)
Lemma bridge_dec_head (b0 b1 b2 : N) : byte b0 -> byte b1 -> byte b2 ->
  k_h265_dec_head (Z.of_N b0) (k_h265_dec_ftyp (Z.of_N b2)) (Z.of_N b1)
  = Z.of_N (N.lor (N.lor (N.shiftl (N.land b0 129) 8) (N.shiftl (N.land b2 63) 9)) b1).
Proof.
  intros H0 H1 H2. unfold k_h265_dec_head.
  set (inner := fun x y : N => w16 (Z.lor (w16 (Z.shiftl (w16 (w8 (Z.land (Z.of_N x) 129))) 8))
                                          (w16 (Z.shiftl (w16 (k_h265_dec_ftyp (Z.of_N y))) 9)))).
  change (w16 (Z.lor (inner b0 b2) (w16 (Z.of_N b1))) = Z.of_N (N.lor (N.lor (N.shiftl (N.land b0 129) 8) (N.shiftl (N.land b2 63) 9)) b1)).
  assert (E : inner b0 b2 = Z.of_N (N.lor (N.shiftl (N.land b0 129) 8) (N.shiftl (N.land b2 63) 9))).
  { revert b0 b2 H0 H2. apply (bytes_eq2 inner). vm_compute. reflexivity. }
  rewrite E. clear E inner.
  assert (Hlt : (if Z.of_N (N.lor (N.shiftl (N.land b0 129) 8) (N.shiftl (N.land b2 63) 9)) <? 65536 then 1 else 0) = 1).
  { revert b0 b2 H0 H2.
    apply (bytes_eq2 (fun x y => if Z.of_N (N.lor (N.shiftl (N.land x 129) 8) (N.shiftl (N.land y 63) 9)) <? 65536 then 1 else 0) (fun _ _ => 1)).
    vm_compute. reflexivity. }
  destruct (Z.ltb_spec (Z.of_N (N.lor (N.shiftl (N.land b0 129) 8) (N.shiftl (N.land b2 63) 9))) 65536) as [Hlt'|]; [clear Hlt|discriminate Hlt].
  unfold byte in H1. rewrite (w16_small (Z.of_N b1)) by lia. rewrite lor_N.
  apply w16_small. split; [lia|].
  assert (L : (N.lor (N.lor (N.shiftl (N.land b0 129) 8) (N.shiftl (N.land b2 63) 9)) b1 < 2 ^ 16)%N).
  { apply lor_lt_pow2_N; change (2 ^ 16)%N with 65536%N; lia. }
  change (2 ^ 16)%N with 65536%N in L. lia.
Qed.

Lemma bridge_dec_resync (seq next fs : N) : u16 seq -> u16 next ->
  k_h265_dec_nextseq (Z.of_N seq) = Z.of_N (seq_next seq) /\
  k_h265_dec_incseq (Z.of_N next) = Z.of_N (seq_next next) /\
  k_h265_dec_gap (Z.of_N seq) (Z.of_N next) = negb (seq =? next)%N /\
  k_h265_dec_nostart (Z.of_N fs) = (fs =? 0)%N.
Proof.
  unfold k_h265_dec_nextseq, k_h265_dec_incseq, k_h265_dec_gap, k_h265_dec_nostart, seq_next. intros _ _.
  rewrite !w16_succ_N, eqb_N. repeat split. exact (eqb_N fs 0).
Qed.

Theorem resync_kernels_are_the_code (b0 b1 b2 st en seq next fs : N) : byte b0 -> byte b1 -> byte b2 -> u16 seq -> u16 next ->
  k_h265_dec_typ (Z.of_N b0) = Z.of_N (N.land (N.shiftr b0 1) 63) /\
  k_h265_dec_start (Z.of_N b2) = Z.of_N (N.shiftr b2 7) /\
  k_h265_dec_end (Z.of_N b2) = Z.of_N (N.land (N.shiftr b2 6) 1) /\
  k_h265_dec_ftyp (Z.of_N b2) = Z.of_N (N.land b2 63) /\
  k_h265_dec_isstart (Z.of_N st) = (st =? 1)%N /\
  k_h265_dec_startend (Z.of_N en) = negb (en =? 0)%N /\
  k_h265_dec_notend (Z.of_N en) = negb (en =? 1)%N /\
  k_h265_dec_head (Z.of_N b0) (k_h265_dec_ftyp (Z.of_N b2)) (Z.of_N b1)
    = Z.of_N (N.lor (N.lor (N.shiftl (N.land b0 129) 8) (N.shiftl (N.land b2 63) 9)) b1) /\
  k_h265_dec_nextseq (Z.of_N seq) = Z.of_N (seq_next seq) /\
  k_h265_dec_incseq (Z.of_N next) = Z.of_N (seq_next next) /\
  k_h265_dec_gap (Z.of_N seq) (Z.of_N next) = negb (seq =? next)%N /\
  k_h265_dec_nostart (Z.of_N fs) = (fs =? 0)%N.
Proof.
  intros H0 H1 H2 Hs Hn. destruct (bridge_dec_fields b0 b2 H0 H2) as (A & B & C & D).
  destruct (bridge_dec_bits st en) as (I & J & K). pose proof (bridge_dec_head b0 b1 b2 H0 H1 H2) as L.
  destruct (bridge_dec_resync seq next fs Hs Hn) as (E & F & G & H). repeat split; assumption.
Qed.

(* ---------- decoder: length tests and caps (C08) ---------- *)

Lemma bridge_dec_short (pl : bytes) :
  k_h265_dec_short (Z.of_N (nlen pl)) = match pl with _ :: _ :: _ => false | _ => true end.
Proof. unfold k_h265_dec_short. destruct pl as [|a [|b t]]; cbn [nlen]; lia. Qed.
Lemma bridge_dec_fushort (b0 b1 : N) (pl2 : bytes) :
  k_h265_dec_fushort (Z.of_N (nlen (b0 :: b1 :: pl2))) = match pl2 with [] => true | _ :: _ => false end.
Proof. unfold k_h265_dec_fushort. destruct pl2; cbn [nlen]; lia. Qed.

(* d.fragmentsSize += len(pkt.Payload[3:]); if d.fragmentsSize > h265.MaxAccessUnitSize *)
Lemma bridge_dec_cap (fs : N) (data : bytes) : Z.of_N (fs + nlen data) < i64max ->
  k_h265_dec_acc (Z.of_N fs) (Z.of_N (nlen data)) = Z.of_N (fs + nlen data) /\
  k_h265_dec_cap (k_h265_dec_acc (Z.of_N fs) (Z.of_N (nlen data))) (Z.of_N cap) = (cap <? fs + nlen data)%N.
Proof.
  unfold k_h265_dec_cap, k_h265_dec_acc, i64max. intros H. rewrite ki64_small by lia.
  rewrite <- N2Z.inj_add. split; [reflexivity|apply gtb_N].
Qed.

(* aggregation unit walk: the two length tests, the 16-bit size, the end test *)
Lemma bridge_ap_walk (p0 p1 : N) (rest : bytes) : byte p0 -> byte p1 ->
  k_h265_ap_dsize (Z.of_N p0) (Z.of_N p1) = Z.of_N (p0 * 256 + p1) /\
  k_h265_ap_dbad (Z.of_N (p0 * 256 + p1)) (Z.of_N (nlen rest)) = ((p0 * 256 + p1 =? 0) || (nlen rest <? p0 * 256 + p1))%N.
Proof.
  unfold byte, k_h265_ap_dsize, k_h265_ap_dbad. intros H0 H1. split.
  - rewrite (w16_small (Z.of_N p0)), (w16_small (Z.of_N p1)) by lia.
    rewrite Z.shiftl_mul_pow2 by lia. change (2 ^ 8) with 256. rewrite (w16_small (Z.of_N p0 * 256)) by lia.
    rewrite <- (Z.shiftl_mul_pow2 _ 8) by lia. rewrite lor_shift8 by lia. rewrite w16_small by lia. lia.
  - rewrite ki64_small by lia. f_equal; [exact (eqb_N (p0 * 256 + p1) 0)|apply gtb_N].
Qed.
Lemma bridge_ap_dshort (pl : bytes) :
  k_h265_ap_dshort (Z.of_N (nlen pl)) = match pl with _ :: _ :: _ => false | _ => true end.
Proof. unfold k_h265_ap_dshort. destruct pl as [|a [|b t]]; cbn [nlen]; lia. Qed.
Lemma bridge_ap_ddone (pl : bytes) :
  k_h265_ap_ddone (Z.of_N (nlen pl)) = match pl with [] => true | _ :: _ => false end.
Proof. unfold k_h265_ap_ddone. destruct pl; cbn [nlen]; lia. Qed.

(* Decode: the NALU-count cap and the access-unit size cap, and the two accumulations *)
Lemma bridge_fb (fl l fsz add : N) : Z.of_N (fl + l) < i64max -> Z.of_N (fsz + add) < i64max ->
  k_h265_fb_count (Z.of_N fl) (Z.of_N l) (Z.of_N maxn) = (maxn <? fl + l)%N /\
  k_h265_fb_size (Z.of_N fsz) (Z.of_N add) (Z.of_N cap) = (cap <? fsz + add)%N /\
  k_h265_fb_len_acc (Z.of_N fl) (Z.of_N l) = Z.of_N (fl + l) /\
  k_h265_fb_size_acc (Z.of_N fsz) (Z.of_N add) = Z.of_N (fsz + add).
Proof.
  unfold k_h265_fb_count, k_h265_fb_size, k_h265_fb_len_acc, k_h265_fb_size_acc, i64max. intros H1 H2.
  rewrite !ki64_small by lia. rewrite <- !N2Z.inj_add. repeat split; apply gtb_N.
Qed.

Theorem caps_kernels_are_the_code (pl pl2 data rest : bytes) (b0 b1 p0 p1 fs fl l fsz add : N) :
  byte p0 -> byte p1 -> Z.of_N (fs + nlen data) < i64max -> Z.of_N (fl + l) < i64max -> Z.of_N (fsz + add) < i64max ->
  k_h265_dec_short (Z.of_N (nlen pl)) = match pl with _ :: _ :: _ => false | _ => true end /\
  k_h265_dec_fushort (Z.of_N (nlen (b0 :: b1 :: pl2))) = match pl2 with [] => true | _ :: _ => false end /\
  k_h265_dec_cap (k_h265_dec_acc (Z.of_N fs) (Z.of_N (nlen data))) (Z.of_N cap) = (cap <? fs + nlen data)%N /\
  k_h265_dec_acc (Z.of_N fs) (Z.of_N (nlen data)) = Z.of_N (fs + nlen data) /\
  k_h265_ap_dshort (Z.of_N (nlen pl)) = match pl with _ :: _ :: _ => false | _ => true end /\
  k_h265_ap_dsize (Z.of_N p0) (Z.of_N p1) = Z.of_N (p0 * 256 + p1) /\
  k_h265_ap_dbad (Z.of_N (p0 * 256 + p1)) (Z.of_N (nlen rest)) = ((p0 * 256 + p1 =? 0) || (nlen rest <? p0 * 256 + p1))%N /\
  k_h265_ap_ddone (Z.of_N (nlen pl)) = match pl with [] => true | _ :: _ => false end /\
  k_h265_fb_count (Z.of_N fl) (Z.of_N l) (Z.of_N maxn) = (maxn <? fl + l)%N /\
  k_h265_fb_size (Z.of_N fsz) (Z.of_N add) (Z.of_N cap) = (cap <? fsz + add)%N /\
  k_h265_fb_len_acc (Z.of_N fl) (Z.of_N l) = Z.of_N (fl + l) /\
  k_h265_fb_size_acc (Z.of_N fsz) (Z.of_N add) = Z.of_N (fsz + add).
Proof.
  intros H0 H1 H2 H3 H4.
  destruct (bridge_dec_cap fs data H2) as (A & B). destruct (bridge_ap_walk p0 p1 rest H0 H1) as (C & D).
  destruct (bridge_fb fl l fsz add H3 H4) as (E & F & G & H).
  split; [apply bridge_dec_short|]. split; [apply bridge_dec_fushort|]. split; [exact B|]. split; [exact A|].
  split; [apply bridge_ap_dshort|]. split; [exact C|]. split; [exact D|]. split; [apply bridge_ap_ddone|].
  repeat split; assumption.
Qed.

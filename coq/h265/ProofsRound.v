(* rtph265: what the decoder does with the packets of one encoder batch, from ANY decoder state
   (shared by C03 and C07), and the round trip from a clean state (C03). *)
From GVL Require Import NList Wire Chunks Rtp.
From GVG Require Import Consts.
From GV_h265 Require Import Model ProofsEnc ProofsDec.
From Coq Require Import ZifyBool ZifyNat ZifyN.
Open Scope N_scope.

(* ---------- valid access units ---------- *)
(* the 2-byte NAL header: bytes, type not one of the RTP packet types 48 (AP), 49 (FU), 50 (PACI) *)
Definition nalu_hdr_ok (b0 b1 : N) : bool :=
  let typ := N.land (N.shiftr b0 1) 63 in
  (b0 <? 256) && (b1 <? 256) && negb (typ =? t_ap) && negb (typ =? t_fu) && negb (typ =? t_paci).

(* no 00 00 01 inside (guaranteed by emulation prevention in real NAL units): the decoder would split
   a reassembled NALU there *)
Definition valid_nalu (n : bytes) : Prop :=
  match n with b0 :: b1 :: _ => nalu_hdr_ok b0 b1 = true | _ => False end /\ find_sc n = None.

Definition valid_frame (au : list bytes) : Prop :=
  au <> [] /\ nlen au <= maxn /\ sum_len au <= cap /\ Forall valid_nalu au.

Definition clean (d : dstate) : Prop :=
  dfrags d = [] /\ dfsize d = 0 /\ dfb d = [] /\ dfblen d = 0 /\ dfbsize d = 0.

(* the decoder never looks at the timestamp *)
Definition set_ts (ts : N) (ps : list packet) : list packet :=
  map (fun p => mkPkt (pseq p) ts (pmarker p) (ppayload p)) ps.
Lemma dec_run_set_ts ts ps : forall d, dec_run d (set_ts ts ps) = dec_run d ps.
Proof.
  induction ps as [|p t IH]; intros d; [reflexivity|]. cbn [set_ts map dec_run].
  change (dec d (mkPkt (pseq p) ts (pmarker p) (ppayload p))) with (dec d p).
  destruct (dec d p) as [d' r]. unfold set_ts in IH. now rewrite IH.
Qed.

(* ---------- bit-level facts, by enumeration of the header bytes ---------- *)
Definition below (n : nat) : list N := map N.of_nat (seq 0 n).
Lemma forall_below (P : N -> bool) n : forallb P (below n) = true -> forall b, b < N.of_nat n -> P b = true.
Proof.
  intros H b Hb. rewrite forallb_forall in H. apply H. unfold below. apply in_map_iff.
  exists (N.to_nat b). split; [lia|]. apply in_seq. lia.
Qed.

Definition fu_chk1 (b0 : N) (s e : bool) : bool :=
  let h2 := fu_hdr2 s e b0 in
  (N.shiftr h2 7 =? (if s then 1 else 0)) && (N.land (N.shiftr h2 6) 1 =? (if e then 1 else 0)) &&
  (N.land h2 63 =? N.land (N.shiftr b0 1) 63).
Definition fu_chk (b0 : N) : bool :=
  (N.land (N.shiftr (fu_hdr0 b0) 1) 63 =? t_fu) &&
  fu_chk1 b0 true true && fu_chk1 b0 true false && fu_chk1 b0 false true && fu_chk1 b0 false false.
Lemma fu_chk_all : forall b0, b0 < 256 -> fu_chk b0 = true.
Proof. apply (forall_below fu_chk 256). vm_compute. reflexivity. Qed.

Lemma fu_bits b0 s e : b0 < 256 ->
  N.land (N.shiftr (fu_hdr0 b0) 1) 63 = t_fu /\
  N.shiftr (fu_hdr2 s e b0) 7 = (if s then 1 else 0) /\
  N.land (N.shiftr (fu_hdr2 s e b0) 6) 1 = (if e then 1 else 0) /\
  N.land (fu_hdr2 s e b0) 63 = N.land (N.shiftr b0 1) 63.
Proof.
  intros Hb. pose proof (fu_chk_all b0 Hb) as H. unfold fu_chk in H.
  repeat (apply andb_prop in H; destruct H as [H ?]).
  apply N.eqb_eq in H. split; [assumption|].
  assert (G : fu_chk1 b0 s e = true) by (destruct s, e; assumption).
  unfold fu_chk1 in G. repeat (apply andb_prop in G; destruct G as [G ?]).
  repeat split; apply N.eqb_eq; assumption.
Qed.

(* the 2-byte NAL header rebuilt by the decoder from the FU header is the original one *)
Definition head_of (b0 b1 : N) : N :=
  N.lor (N.lor (N.shiftl (N.land (fu_hdr0 b0) 129) 8) (N.shiftl (N.land (N.shiftr b0 1) 63) 9)) b1.
Definition head_chk (b0 : N) : bool :=
  forallb (fun b1 => (N.land (N.shiftr (head_of b0 b1) 8) 255 =? b0) && (N.land (head_of b0 b1) 255 =? b1)) (below 256).
Lemma head_chk_all : forall b0, b0 < 256 -> head_chk b0 = true.
Proof. apply (forall_below head_chk 256). vm_compute. reflexivity. Qed.
Lemma head_bits b0 b1 : b0 < 256 -> b1 < 256 ->
  N.land (N.shiftr (head_of b0 b1) 8) 255 = b0 /\ N.land (head_of b0 b1) 255 = b1.
Proof.
  intros H0 H1. pose proof (head_chk_all b0 H0) as H. unfold head_chk in H.
  pose proof (forall_below _ 256 H b1 H1) as G. cbn beta in G. apply andb_prop in G.
  destruct G as [G1 G2]. split; apply N.eqb_eq; assumption.
Qed.

(* the AP header byte carries type 48 whatever the layer id *)
Definition ap_chk (lid : N) : bool := N.land (N.shiftr (N.lor 96 (N.land lid 32)) 1) 63 =? t_ap.
Lemma ap_chk_all : forall lid, lid < 256 -> ap_chk lid = true.
Proof. apply (forall_below ap_chk 256). vm_compute. reflexivity. Qed.

Lemma ap_ids_le l : forall lid0 tid0 lid tid, ap_ids l lid0 tid0 = Some (lid, tid) -> lid <= lid0.
Proof.
  induction l as [|n t IH]; intros lid0 tid0 lid tid H; cbn [ap_ids] in H.
  - injection H as <- _. lia.
  - destruct n as [|b0 [|b1 r]]; try discriminate. apply IH in H.
    destruct (N.ltb_spec (N.lor (N.shiftl (N.land b0 1) 5) (N.land (N.shiftr b1 3) 31)) lid0); lia.
Qed.

(* ---------- state algebra ---------- *)
Definition clear_frags (d : dstate) (nx : N) : dstate := set_frags d [] 0 nx.

(* the part of Decode after decodeNALUs *)
Definition post (x : dstate * nres) (mk : bool) : dstate * dres (list bytes) :=
  match x with
  | (d1, NPanic) => (d1, DPanic)
  | (d1, NErr) => (d1, DErr)
  | (d1, NMore) => (d1, DMore)
  | (d1, NOk nalus) =>
      let l := nlen nalus in
      if maxn <? dfblen d1 + l then (reset_fb d1, DErr) else
      let add := sum_len nalus in
      if cap <? dfbsize d1 + add then (reset_fb d1, DErr) else
      let d2 := set_fb d1 (dfb d1 ++ nalus) (dfblen d1 + l) (dfbsize d1 + add) in
      if negb mk then (d2, DMore) else (reset_fb d2, DFrame (dfb d2))
  end.
Lemma dec_post d p : dec d p = post (decode_nalus d p) (pmarker p).
Proof. reflexivity. Qed.

Lemma split_nalus_single n : n <> [] -> find_sc n = None -> split_nalus n = Some [n].
Proof.
  intros Hne Hf. unfold split_nalus. destruct n as [|x t]; [contradiction|].
  cbn [split_aux]. rewrite Hf. reflexivity.
Qed.

Lemma valid_nalu_len n : valid_nalu n -> 2 <= nlen n.
Proof. intros [H _]. destruct n as [|b0 [|b1 r]]; try contradiction. cbn [nlen]. lia. Qed.
Lemma valid_nalu_ne n : valid_nalu n -> n <> [].
Proof. intros H. apply valid_nalu_len in H. destruct n; [cbn [nlen] in H; lia|discriminate]. Qed.

(* ---------- a single NAL unit packet ---------- *)
Lemma decode_single d s t m n : valid_nalu n ->
  decode_nalus d (mkPkt s t m n) = (clear_frags d (dnext d), NOk [n]).
Proof.
  intros Hv. pose proof Hv as [Hh _]. unfold decode_nalus. cbn [ppayload].
  destruct n as [|b0 [|b1 pl2]]; try contradiction.
  unfold nalu_hdr_ok in Hh. repeat (apply andb_prop in Hh; destruct Hh as [Hh ?]).
  repeat match goal with H : negb _ = true |- _ => apply negb_true_iff in H end.
  repeat match goal with H : (_ =? _) = false |- _ => rewrite H end.
  reflexivity.
Qed.

(* ---------- an aggregation packet ---------- *)
Lemma size_field len : len < 65536 -> (len / 256) mod 256 * 256 + len mod 256 = len.
Proof.
  intros H. rewrite (N.mod_small (len / 256)).
  - rewrite N.mul_comm. symmetry. apply N.div_mod. lia.
  - apply N.div_lt_upper_bound; lia.
Qed.

Lemma ap_walk_ok : forall batch fuel acc, batch <> [] ->
  Forall (fun n => 0 < nlen n /\ nlen n < 65536) batch ->
  nlen (ap_body batch) <= nlen fuel ->
  ap_walk fuel (ap_body batch) acc = POk (acc ++ batch).
Proof.
  induction batch as [|n t IH]; intros fuel acc Hne Hall Hf; [contradiction|].
  inversion Hall as [|? ? [Hn0 Hn1] Ht]; subst.
  destruct fuel as [|f fuel]; [cbn [ap_body nlen] in Hf; lia|].
  cbn [ap_body ap_walk]. rewrite size_field by assumption.
  destruct (N.eqb_spec (nlen n) 0); [lia|]. cbn [orb].
  destruct (N.ltb_spec (nlen (n ++ ap_body t)) (nlen n)); [rewrite nlen_app in *; lia|].
  rewrite ntake_app_exact, ndrop_app_exact.
  destruct t as [|n2 t2]; [reflexivity|].
  remember (ap_body (n2 :: t2)) as body eqn:Eb. destruct body as [|y r]; [discriminate|].
  rewrite IH; [now rewrite <- app_assoc|discriminate|assumption|].
  change (ap_body (n :: n2 :: t2)) with ((nlen n / 256) mod 256 :: nlen n mod 256 :: n ++ ap_body (n2 :: t2)) in Hf.
  rewrite <- Eb in Hf. cbn [nlen] in Hf. rewrite nlen_app in Hf. cbn [nlen] in *. lia.
Qed.

Lemma decode_ap d s t m batch pl : ap batch = Some pl -> batch <> [] ->
  Forall (fun n => 0 < nlen n /\ nlen n < 65536) batch ->
  decode_nalus d (mkPkt s t m pl) = (clear_frags d (dnext d), NOk batch).
Proof.
  intros Hap Hne Hall. unfold ap in Hap. destruct (ap_ids batch 255 255) as [[lid tid]|] eqn:Eids; [|discriminate].
  pose proof (ap_ids_le _ _ _ _ _ Eids) as Hle.
  pose proof (ap_chk_all lid ltac:(lia)) as Hc. unfold ap_chk in Hc.
  remember (N.lor 96 (N.land lid 32)) as h0 eqn:Eh0.
  injection Hap as <-. unfold decode_nalus. cbn [ppayload]. rewrite Hc.
  rewrite ap_walk_ok; [|assumption|assumption|lia]. reflexivity.
Qed.

(* ---------- FU packets ---------- *)
(* continuation fragments, from a state that already holds the beginning *)
Lemma fu_rest b0 b1 m : b0 < 256 -> forall cs d s, cs <> [] ->
  0 < dfsize d -> dnext d = s -> s < 65536 -> dfsize d + sum_len cs <= cap ->
  dec_run d (number s (fu_protos b0 b1 m false cs)) =
    let d1 := set_frags d (dfrags d ++ cs) (dfsize d + sum_len cs) (seq_add s (nlen cs)) in
    let '(d2, r) := post (finish_frags d1) m in
    (d2, repeat DMore (length cs - 1) ++ [r]).
Proof.
  intros Hb. induction cs as [|c t IH]; intros d s Hne H0 Hnx Hs Hcap; [contradiction|].
  cbn [fu_protos number dec_run pseq pmarker ppayload sum_len] in *.
  rewrite dec_post. cbn [pmarker]. unfold decode_nalus at 1. cbn [ppayload pseq].
  destruct (fu_bits b0 false (match t with [] => true | _ :: _ => false end) Hb) as (F1 & F2 & F3 & _).
  rewrite F1. change (t_fu =? t_ap) with false. rewrite N.eqb_refl, F2. change (0 =? 1) with false. cbn iota.
  destruct (N.eqb_spec (dfsize d) 0); [lia|]. rewrite Hnx, N.eqb_refl. cbn [negb].
  destruct (N.ltb_spec cap (dfsize d + nlen c)); [lia|]. rewrite F3.
  destruct t as [|c2 t2].
  - cbn [negb andb N.eqb]. cbn [sum_len nlen length Nat.sub repeat app].
    replace (dfsize d + (nlen c + 0)) with (dfsize d + nlen c) by lia.
    change (seq_add s (N.succ 0)) with (seq_next s).
    destruct (post _ m) as [d2 r]. reflexivity.
  - change (0 =? 1) with false. cbn [negb andb post].
    set (d1 := set_frags d (dfrags d ++ [c]) (dfsize d + nlen c) (seq_next s)).
    specialize (IH d1 (seq_next s)). rewrite IH; clear IH.
    + unfold d1, set_frags. cbn [dfrags dfsize dnext dfb dfblen dfbsize]. rewrite <- app_assoc. cbn [app].
      replace (dfsize d + nlen c + sum_len (c2 :: t2)) with (dfsize d + (nlen c + sum_len (c2 :: t2))) by lia.
      replace (seq_add (seq_next s) (nlen (c2 :: t2))) with (seq_add s (nlen (c :: c2 :: t2)))
        by (rewrite seq_add_next; f_equal; cbn [nlen]; lia).
      cbn zeta. destruct (post _ m) as [d2 r]. cbn [length Nat.sub]. rewrite Nat.sub_0_r. reflexivity.
    + discriminate.
    + unfold d1, set_frags; cbn [dfsize]. lia.
    + reflexivity.
    + apply seq_next_lt.
    + unfold d1, set_frags; cbn [dfsize]. cbn [sum_len] in Hcap. cbn [sum_len]. clear -Hcap. lia.
Qed.

(* a whole fragmented NALU, from any state *)
Lemma fu_run b0 b1 rest m c1 c2 cs d s :
  b0 < 256 -> b1 < 256 -> s < 65536 -> concat (c1 :: c2 :: cs) = rest -> nlen (b0 :: b1 :: rest) <= cap ->
  dec_run d (number s (fu_protos b0 b1 m true (c1 :: c2 :: cs))) =
    let d1 := set_frags d ([b0; b1] :: c1 :: c2 :: cs) (nlen (b0 :: b1 :: rest)) (seq_add s (nlen (c1 :: c2 :: cs))) in
    let '(d2, r) := post (finish_frags d1) m in
    (d2, repeat DMore (length (c1 :: c2 :: cs) - 1) ++ [r]).
Proof.
  intros Hb0 Hb1 Hs Hcat Hcap.
  change (fu_protos b0 b1 m true (c1 :: c2 :: cs)) with
    ((false && m, fu_hdr0 b0 :: b1 :: fu_hdr2 true false b0 :: c1) :: fu_protos b0 b1 m false (c2 :: cs)).
  cbn [number dec_run pseq pmarker ppayload].
  rewrite dec_post. cbn [pmarker]. unfold decode_nalus at 1. cbn [ppayload pseq].
  destruct (fu_bits b0 true false Hb0) as (F1 & F2 & F3 & F4).
  rewrite F1. change (t_fu =? t_ap) with false. rewrite N.eqb_refl, F2, N.eqb_refl, F3, F4.
  change (negb (0 =? 0)) with false. cbn iota. cbn [andb post].
  fold (head_of b0 b1). destruct (head_bits b0 b1 Hb0 Hb1) as [G1 G2]. rewrite G1, G2.
  set (d1 := set_frags d [[b0; b1]; c1] (N.succ (N.succ (nlen c1))) (seq_next s)).
  pose proof (fu_rest b0 b1 m Hb0 (c2 :: cs) d1 (seq_next s)) as H.
  assert (Hsum : sum_len (c1 :: c2 :: cs) = nlen rest) by (rewrite sum_len_concat; now f_equal).
  cbn [sum_len nlen] in Hsum, Hcap.
  rewrite H; clear H.
  - unfold d1, set_frags. cbn [dfrags dfsize dnext dfb dfblen dfbsize]. cbn [app nlen].
    replace (N.succ (N.succ (nlen c1)) + sum_len (c2 :: cs)) with (N.succ (N.succ (nlen rest))) by (cbn [sum_len]; lia).
    replace (seq_add (seq_next s) (N.succ (nlen cs))) with (seq_add s (N.succ (N.succ (nlen cs))))
      by (rewrite seq_add_next; f_equal; lia).
    cbn zeta. destruct (post _ m) as [d2 r]. cbn [length Nat.sub]. rewrite Nat.sub_0_r. reflexivity.
  - discriminate.
  - unfold d1, set_frags; cbn [dfsize nlen]. lia.
  - reflexivity.
  - apply seq_next_lt.
  - unfold d1, set_frags; cbn [dfsize nlen sum_len]. clear -Hsum Hcap. lia.
Qed.

Lemma finish_frags_valid d b0 b1 rest cs nx :
  valid_nalu (b0 :: b1 :: rest) -> concat cs = rest ->
  finish_frags (set_frags d ([b0; b1] :: cs) (nlen (b0 :: b1 :: rest)) nx) = (clear_frags d nx, NOk [b0 :: b1 :: rest]).
Proof.
  intros Hv Hcat. unfold finish_frags.
  change (dfrags (set_frags d ([b0; b1] :: cs) (nlen (b0 :: b1 :: rest)) nx)) with ([b0; b1] :: cs).
  change (dfsize (set_frags d ([b0; b1] :: cs) (nlen (b0 :: b1 :: rest)) nx)) with (nlen (b0 :: b1 :: rest)).
  replace (nlen (b0 :: b1 :: rest)) with (sum_len ([b0; b1] :: cs)) at 1.
  2:{ rewrite sum_len_concat. cbn [concat app]. now rewrite Hcat. }
  rewrite join_exact. cbn [concat app]. rewrite Hcat.
  rewrite split_nalus_single; [|discriminate|apply Hv]. reflexivity.
Qed.

(* ---------- one encoder batch, from ANY decoder state ---------- *)
Definition batch_ok (max : N) (b : list bytes) : Prop :=
  b <> [] /\ Forall valid_nalu b /\ ok_batch max b /\ sum_len b <= cap /\ nlen b <= maxn.

Lemma in_sum_len n (b : list bytes) : In n b -> nlen n <= sum_len b.
Proof.
  induction b as [|x t IH]; intros H; [contradiction|]. cbn [sum_len]. destruct H as [->|H]; [lia|].
  specialize (IH H). lia.
Qed.

Lemma batch_run max m b d s : 4 <= max -> max <= 65538 -> batch_ok max b -> s < 65536 ->
  exists protos nx, write_batch max m b = WOk protos /\ protos <> [] /\
    dec_run d (number s protos) =
      let '(d2, r) := post (clear_frags d nx, NOk b) m in
      (d2, repeat DMore (length protos - 1) ++ [r]).
Proof.
  intros Hm HM (Hne & Hv & Hok & Hsz & Hbn) Hs. unfold write_batch.
  destruct b as [|n [|n2 r]]; [contradiction| |].
  - (* one NALU *)
    inversion Hv as [|? ? Hvn _]; subst. cbn [sum_len] in Hsz.
    destruct (N.ltb_spec (nlen n) max) as [Hlt|Hge].
    + exists [(m, n)], (dnext d). split; [reflexivity|]. split; [discriminate|].
      cbn [number dec_run pseq pmarker ppayload]. rewrite dec_post. cbn [pmarker].
      rewrite decode_single by assumption.
      destruct (post _ m) as [d2 r']. reflexivity.
    + destruct n as [|b0 [|b1 rest]]; [destruct Hvn as [[] _]|destruct Hvn as [[] _]|].
      pose proof Hvn as [Hh _]. unfold nalu_hdr_ok in Hh.
      repeat (apply andb_prop in Hh; destruct Hh as [Hh ?]). apply N.ltb_lt in Hh.
      match goal with H : (b1 <? 256) = true |- _ => apply N.ltb_lt in H; rename H into Hb1 end.
      assert (Hrest : rest <> []) by (destruct rest; [cbn [nlen] in Hge; lia|discriminate]).
      assert (Hav : 0 < max - 3) by lia.
      pose proof (chunks_concat (max - 3) rest Hav) as Hcat.
      pose proof (chunks_count (max - 3) rest Hav) as Hcnt.
      remember (chunks (max - 3) rest) as cs eqn:Ecs.
      destruct cs as [|c1 [|c2 cs]].
      * cbn in Hcat. subst rest. contradiction.
      * exfalso. cbn [nlen] in Hcnt, Hge.
        assert (Hq : 2 <= (nlen rest + (max - 3) - 1) / (max - 3)).
        { apply N.div_le_lower_bound; lia. }
        lia.
      * eexists. exists (seq_add s (nlen (c1 :: c2 :: cs))). split; [reflexivity|]. split; [discriminate|].
        rewrite (fu_run b0 b1 rest m c1 c2 cs d s) by (assumption || lia).
        cbn zeta. rewrite finish_frags_valid by assumption.
        destruct (post _ m) as [d2 r']. rewrite fu_protos_length. reflexivity.
  - (* aggregation *)
    assert (Hlong : long_nalus (n :: n2 :: r)).
    { eapply Forall_impl; [|exact Hv]. intros x Hx. now apply valid_nalu_len. }
    destruct (ap_some _ Hlong) as (pl & Hap & _). rewrite Hap.
    exists [(m, pl)], (dnext d). split; [reflexivity|]. split; [discriminate|].
    cbn [number dec_run pseq pmarker ppayload]. rewrite dec_post. cbn [pmarker].
    rewrite (decode_ap d s 0 m (n :: n2 :: r) pl Hap); [|discriminate|].
    + destruct (post _ m) as [d2 r']. reflexivity.
    + rewrite Forall_forall. intros x Hx. rewrite Forall_forall in Hv.
      pose proof (valid_nalu_len x (Hv x Hx)) as Hxl. split; [lia|].
      cbn [ok_batch] in Hok. unfold len_agg in Hok. rewrite len_agg_body_sum in Hok.
      pose proof (in_sum_len x _ Hx) as Hle. cbn [nlen] in Hok. lia.
Qed.

(* ---------- the frame buffer while it accumulates one access unit ---------- *)
Definition fb_inv (d : dstate) : Prop := dfblen d = nlen (dfb d) /\ dfbsize d = sum_len (dfb d).

Lemma post_accum d nx b m : fb_inv d ->
  nlen (dfb d) + nlen b <= maxn -> sum_len (dfb d) + sum_len b <= cap ->
  post (clear_frags d nx, NOk b) m =
    let d2 := set_fb (clear_frags d nx) (dfb d ++ b) (dfblen d + nlen b) (dfbsize d + sum_len b) in
    if m then (reset_fb d2, DFrame (dfb d ++ b)) else (d2, DMore).
Proof.
  intros [H1 H2] Hn Hc. unfold post.
  change (dfb (clear_frags d nx)) with (dfb d). change (dfblen (clear_frags d nx)) with (dfblen d).
  change (dfbsize (clear_frags d nx)) with (dfbsize d).
  destruct (N.ltb_spec maxn (dfblen d + nlen b)); [lia|].
  destruct (N.ltb_spec cap (dfbsize d + sum_len b)); [lia|].
  destruct m; reflexivity.
Qed.

Lemma repeat_more_app {A} (x : A) a b (y : A) : (1 <= a)%nat -> (1 <= b)%nat ->
  (repeat x (a - 1) ++ [x]) ++ repeat x (b - 1) ++ [y] = repeat x (a + b - 1) ++ [y].
Proof.
  intros Ha Hb. replace (a + b - 1)%nat with ((a - 1) + 1 + (b - 1))%nat by lia.
  rewrite !repeat_app. cbn [repeat]. now rewrite <- !app_assoc.
Qed.

Lemma dec_run_app ps1 ps2 d :
  dec_run d (ps1 ++ ps2) =
  let '(d1, r1) := dec_run d ps1 in let '(d2, r2) := dec_run d1 ps2 in (d2, r1 ++ r2).
Proof.
  revert d; induction ps1 as [|p t IH]; intros d; cbn [app dec_run].
  - destruct (dec_run d ps2); reflexivity.
  - destruct (dec d p) as [d' r]. rewrite IH. destruct (dec_run d' t) as [d1 r1].
    destruct (dec_run d1 ps2) as [d2 r2]. reflexivity.
Qed.

(* all batches of one access unit, into a frame buffer that has room *)
Lemma batches_run max : 4 <= max -> max <= 65538 -> forall bs d s, bs <> [] ->
  Forall (batch_ok max) bs -> s < 65536 -> fb_inv d ->
  nlen (dfb d) + nlen (concat bs) <= maxn -> sum_len (dfb d) + sum_len (concat bs) <= cap ->
  exists protos d', write_batches max bs = (protos, SOk) /\ protos <> [] /\
    dec_run d (number s protos) =
      (d', repeat DMore (length protos - 1) ++ [DFrame (dfb d ++ concat bs)]) /\ clean d'.
Proof.
  intros Hm HM. induction bs as [|b t IH]; intros d s Hne Hall Hs Hfb Hn Hc; [contradiction|].
  inversion Hall as [|? ? Hb Ht]; subst. cbn [write_batches concat] in *.
  rewrite nlen_app in Hn. rewrite sum_len_app in Hc.
  destruct t as [|b2 t2].
  - destruct (batch_run max true b d s Hm HM Hb Hs) as (protos & nx & -> & Hpne & Hrun).
    exists protos. eexists. split; [reflexivity|]. split; [assumption|].
    rewrite Hrun, post_accum by (assumption || (cbn [concat nlen sum_len] in *; lia)).
    cbn zeta iota. rewrite app_nil_r. split; [reflexivity|].
    unfold clean, reset_fb, set_fb, clear_frags, set_frags; cbn. repeat split; reflexivity.
  - destruct (batch_run max false b d s Hm HM Hb Hs) as (x & nx & -> & Hxne & Hrun).
    rewrite post_accum in Hrun by (assumption || lia). cbn zeta iota in Hrun.
    set (d1 := set_fb (clear_frags d nx) (dfb d ++ b) (dfblen d + nlen b) (dfbsize d + sum_len b)) in *.
    destruct (IH d1 (seq_add s (nlen x))) as (y & d' & Hw & Hyne & Hrun2 & Hcl).
    + discriminate.
    + assumption.
    + apply seq_add_lt.
    + destruct Hfb as [F1 F2]. unfold fb_inv, d1, set_fb; cbn [dfb dfblen dfbsize].
      rewrite nlen_app, sum_len_app. split; lia.
    + unfold d1, set_fb; cbn [dfb]. rewrite nlen_app. lia.
    + unfold d1, set_fb; cbn [dfb]. rewrite sum_len_app. lia.
    + rewrite Hw. exists (x ++ y), d'. split; [reflexivity|]. split; [destruct x; [contradiction|discriminate]|].
      split; [|assumption].
      rewrite number_app by assumption. rewrite dec_run_app, Hrun, Hrun2.
      unfold d1, set_fb at 1; cbn [dfb]. rewrite app_length.
      rewrite <- (app_assoc (dfb d) b (concat (b2 :: t2))). f_equal.
      apply repeat_more_app; [destruct x; [contradiction|cbn; lia]|destruct y; [contradiction|cbn; lia]].
Qed.

Lemma sum_len_concat_in (ls : list (list bytes)) b : In b ls -> sum_len b <= sum_len (concat ls).
Proof.
  induction ls as [|l t IH]; intros H; [contradiction|]. cbn [concat]. rewrite sum_len_app.
  destruct H as [->|H]; [lia|]. specialize (IH H). lia.
Qed.

Lemma nlen_concat_in {A} (ls : list (list A)) b : In b ls -> nlen b <= nlen (concat ls).
Proof.
  induction ls as [|l t IH]; intros H; [contradiction|]. cbn [concat]. rewrite nlen_app.
  destruct H as [->|H]; [lia|]. specialize (IH H). lia.
Qed.

Lemma batches_valid max au : 4 <= max -> valid_frame au -> Forall (batch_ok max) (batches max [] au).
Proof.
  intros Hm (Hne & Hn & Hc & Hv).
  pose proof (batches_concat max au []) as Hcat. cbn [app] in Hcat.
  pose proof (batches_nonempty max au [] (or_intror Hne)) as H1.
  assert (H2 : Forall (ok_batch max) (batches max [] au)).
  { apply batches_ok. cbn. unfold len_agg. cbn. lia. }
  assert (H3 : Forall (Forall valid_nalu) (batches max [] au)).
  { apply Forall_concat. now rewrite Hcat. }
  rewrite Forall_forall in *. intros b Hb. unfold batch_ok.
  repeat split; [now apply H1|now apply H3|now apply H2| |].
  - pose proof (sum_len_concat_in _ b Hb) as Hle. rewrite Hcat in Hle. lia.
  - pose proof (nlen_concat_in _ b Hb) as Hle. rewrite Hcat in Hle. lia.
Qed.

(* ---------- C03 ---------- *)
Theorem roundtrip max seq au d : 4 <= max -> max <= 65538 -> seq < 65536 ->
  valid_frame au -> clean d ->
  exists ps d', enc max seq au = (Some ps, SOk, seq_add seq (nlen ps)) /\
    dec_run d ps = (d', repeat DMore (length ps - 1) ++ [DFrame au]) /\ clean d'.
Proof.
  intros Hm HM Hs Hv (Hc1 & Hc2 & Hc3 & Hc4 & Hc5).
  pose proof (batches_valid max au Hm Hv) as Hb.
  pose proof (batches_concat max au []) as Hcat. cbn [app] in Hcat.
  destruct Hv as (Hne & Hn & Hc & Hvn).
  destruct (batches_run max Hm HM (batches max [] au) d seq) as (protos & d' & Hw & Hpne & Hrun & Hcl).
  - apply batches_ne.
  - assumption.
  - assumption.
  - unfold fb_inv. rewrite Hc3, Hc4, Hc5. split; reflexivity.
  - rewrite Hc3, Hcat. cbn [nlen]. lia.
  - rewrite Hc3, Hcat. cbn [sum_len]. lia.
  - unfold enc, enc_protos. rewrite Hw. exists (number seq protos), d'. rewrite number_len. split; [reflexivity|].
    rewrite Hrun, Hc3, Hcat, number_length. cbn [app]. split; [reflexivity|assumption].
Qed.

(* consecutive access units through the same encoder/decoder pair *)
Fixpoint expect (pss : list (list packet)) (frames : list (list bytes)) : list (dres (list bytes)) :=
  match pss, frames with
  | ps :: pt, f :: ft => repeat DMore (length ps - 1) ++ [DFrame f] ++ expect pt ft
  | _, _ => []
  end.

Theorem roundtrip_seq max : 4 <= max -> max <= 65538 -> forall frames seq d,
  seq < 65536 -> Forall valid_frame frames -> clean d ->
  exists pss d', enc_many max seq frames = Some pss /\
    dec_run d (concat pss) = (d', expect pss frames) /\ clean d'.
Proof.
  intros Hm HM. induction frames as [|f t IH]; intros seq d Hs Hv Hcl.
  - exists [], d. cbn. repeat split; try reflexivity; apply Hcl.
  - inversion Hv as [|? ? Hf Ht]; subst. cbn [enc_many].
    destruct (roundtrip max seq f d Hm HM Hs Hf Hcl) as (ps & d1 & He & Hr1 & Hc1).
    rewrite He.
    destruct (IH (seq_add seq (nlen ps)) d1 (seq_add_lt _ _) Ht Hc1) as (pss & d2 & -> & Hr2 & Hc2).
    exists (ps :: pss), d2. split; [reflexivity|]. split; [|assumption].
    cbn [concat expect]. rewrite dec_run_app, Hr1, Hr2. now rewrite <- app_assoc.
Qed.

(* rtph265 decoder on arbitrary packet histories (C08): never panics / always terminates, retained
   bytes bounded, returned frames bounded; retained slice headers are NOT bounded (refutation). *)
From GVL Require Import NList Wire Chunks Rtp.
From GV_h265 Require Import Model ProofsEnc.
From Coq Require Import ZifyBool ZifyNat ZifyN.
Open Scope N_scope.

(* ---------- checked primitives succeed within bounds ---------- *)
Lemma nsub_ok {A} (l : list A) i j : i <= j -> j <= nlen l -> nsub l i j = Some (ntake (j - i) (ndrop i l)).
Proof.
  intros H1 H2. unfold nsub.
  destruct (N.leb_spec i j); [|lia]. destruct (N.leb_spec j (nlen l)); [|lia]. reflexivity.
Qed.

Lemma find_sc_bound b : forall i, find_sc b = Some i -> i + 3 <= nlen b.
Proof.
  induction b as [|x t IH]; intros i H; cbn [find_sc] in H; [discriminate|].
  destruct ((x =? 0) && starts01 t) eqn:E.
  - injection H as <-. apply andb_prop in E. destruct E as [_ E].
    destruct t as [|a [|b r]]; cbn [starts01] in E; try discriminate. cbn [nlen]. lia.
  - destruct (find_sc t) as [j|]; cbn [option_map] in H; [|discriminate].
    injection H as <-. specialize (IH j eq_refl). cbn [nlen]. lia.
Qed.

Lemma prev_is_zero_ok b i : i <= nlen b -> prev_is_zero b i <> None.
Proof.
  intros H. unfold prev_is_zero. destruct (N.eqb_spec i 0); [discriminate|].
  destruct (nnth_lt b (i - 1)) as [x ->]; [lia|discriminate].
Qed.

(* ---------- splitNALUs terminates without panic ---------- *)
Lemma split_aux_total : forall fuel b acc, nlen b <= nlen fuel -> split_aux fuel b acc <> None.
Proof.
  induction fuel as [|f fuel IH]; intros b acc Hl; destruct b as [|x t]; cbn [split_aux]; try discriminate.
  - cbn [nlen] in Hl. lia.
  - set (b := x :: t) in *. destruct (find_sc b) as [idx0|] eqn:Ef; [|discriminate].
    pose proof (find_sc_bound b idx0 Ef) as Hb.
    destruct (prev_is_zero b idx0) as [z|] eqn:Ez; [|exfalso; revert Ez; apply prev_is_zero_ok; lia].
    assert (Hz : z = true -> 0 < idx0).
    { intros ->. unfold prev_is_zero in Ez. destruct (N.eqb_spec idx0 0); [discriminate|lia]. }
    set (idx := if z then idx0 - 1 else idx0). set (sz := if z then 4 else 3).
    assert (Hsum : idx + sz = idx0 + 3).
    { unfold idx, sz. destruct z; [specialize (Hz eq_refl)|]; lia. }
    assert (Hlen : nlen b = N.succ (nlen t)) by reflexivity.
    destruct (N.eqb_spec idx 0) as [Hi|Hi].
    + rewrite nsub_ok by lia. apply IH. rewrite nlen_ntake, nlen_ndrop. cbn [nlen] in Hl. lia.
    + rewrite nsub_ok by lia. rewrite nsub_ok by lia. apply IH.
      rewrite nlen_ntake, nlen_ndrop. cbn [nlen] in Hl. lia.
Qed.

Lemma split_nalus_total b : split_nalus b <> None.
Proof. apply split_aux_total. lia. Qed.

(* ---------- the aggregation-unit walk terminates without panic ---------- *)
Lemma ap_walk_total : forall fuel pl acc, nlen pl <= nlen fuel -> ap_walk fuel pl acc <> PPanic.
Proof.
  induction fuel as [|f fuel IH]; intros pl acc Hl.
  - destruct pl as [|p0 [|p1 rest]]; cbn [ap_walk]; try discriminate. cbn [nlen] in Hl. lia.
  - destruct pl as [|p0 [|p1 rest]]; cbn [ap_walk]; try discriminate.
    destruct (N.eqb_spec (p0 * 256 + p1) 0); cbn [orb]; [discriminate|].
    destruct (N.ltb_spec (nlen rest) (p0 * 256 + p1)); [discriminate|].
    destruct (ndrop (p0 * 256 + p1) rest) as [|y r] eqn:Ed; [discriminate|].
    apply IH. rewrite <- Ed, nlen_ndrop. cbn [nlen] in Hl. lia.
Qed.

(* ---------- joinFragments is exact when size = total length ---------- *)
Lemma join_aux_exact frags : forall size n acc,
  n = nlen acc -> size = n + sum_len frags -> join_aux frags size n acc = Some (acc ++ concat frags).
Proof.
  induction frags as [|p t IH]; intros size n acc Hn Hs; cbn [join_aux concat sum_len] in *.
  - replace (size - n) with 0 by lia. cbn [nrep]. reflexivity.
  - destruct (N.ltb_spec size n); [lia|].
    rewrite ntake_all by lia. rewrite IH; [now rewrite <- app_assoc| rewrite nlen_app; lia | lia].
Qed.
Lemma join_exact frags : join frags (sum_len frags) = Some (concat frags).
Proof. unfold join. now rewrite join_aux_exact with (acc := []). Qed.

(* ---------- invariant ---------- *)
(* [strict]: every packet so far carried more than 3 bytes, so no stored fragment is empty *)
Definition Inv (P : N) (strict : bool) (d : dstate) : Prop :=
  dfsize d = sum_len (dfrags d) /\ dfsize d <= N.max cap P /\
  (strict = true -> Forall (fun f => 0 < nlen f) (dfrags d)) /\
  dfblen d = nlen (dfb d) /\ dfbsize d = sum_len (dfb d) /\ dfblen d <= maxn /\ dfbsize d <= cap.

Definition pkt_ok (P : N) (strict : bool) (p : packet) : Prop :=
  nlen (ppayload p) <= P /\ (strict = true -> 3 < nlen (ppayload p)).

Lemma inv_init P s : Inv P s dinit.
Proof. unfold Inv, dinit, maxn, cap; cbn. repeat split; auto; lia. Qed.

Lemma inv_reset_frags P s d : Inv P s d -> Inv P s (reset_frags d).
Proof. unfold Inv, reset_frags; cbn. intros (_ & _ & _ & H). repeat split; try apply H; auto; lia. Qed.

Lemma inv_reset_fb P s d : Inv P s d -> Inv P s (reset_fb d).
Proof.
  unfold Inv, reset_fb, maxn, cap; cbn. intros (H1 & H2 & H3 & _). repeat split; auto; lia.
Qed.

Lemma finish_frags_inv P s d : Inv P s d ->
  Inv P s (fst (finish_frags d)) /\ snd (finish_frags d) <> NPanic.
Proof.
  intros HI. unfold finish_frags. pose proof HI as (Hs & HI').
  rewrite Hs, join_exact.
  pose proof (split_nalus_total (concat (dfrags d))) as Ht.
  destruct (split_nalus (concat (dfrags d))) as [nalus|]; [|contradiction].
  cbn [fst snd]. split; [now apply inv_reset_frags|discriminate].
Qed.

Lemma decode_nalus_inv P s d p : Inv P s d -> pkt_ok P s p ->
  Inv P s (fst (decode_nalus d p)) /\ snd (decode_nalus d p) <> NPanic.
Proof.
  intros HI [Hp Hstrict]. unfold decode_nalus.
  destruct (ppayload p) as [|b0 [|b1 pl2]] eqn:Epl; cbn [fst snd];
    try (split; [now apply inv_reset_frags|discriminate]).
  destruct (N.land (N.shiftr b0 1) 63 =? t_ap).
  - pose proof (ap_walk_total pl2 pl2 [] (N.le_refl _)) as Ht.
    destruct (ap_walk pl2 pl2 []) as [nalus| |]; cbn [fst snd];
      [split; [now apply inv_reset_frags|discriminate]|split; [now apply inv_reset_frags|discriminate]|contradiction].
  - destruct (N.land (N.shiftr b0 1) 63 =? t_fu).
    + destruct pl2 as [|b2 data]; cbn [fst snd]; [split; [now apply inv_reset_frags|discriminate]|].
      assert (Hdata : s = true -> 0 < nlen data).
      { intros Hst. specialize (Hstrict Hst). cbn [nlen] in Hstrict. lia. }
      destruct (N.shiftr b2 7 =? 1).
      * destruct (negb _); cbn [fst snd]; [split; [now apply inv_reset_frags|discriminate]|].
        split; [|discriminate].
        destruct HI as (_ & _ & _ & Hfb). unfold Inv, set_frags; cbn [dfrags dfsize dfb dfblen dfbsize sum_len].
        cbn [nlen] in *. repeat split; try apply Hfb; try lia.
        intros Hst. constructor; [cbn [nlen]; lia|]. constructor; [now apply Hdata|constructor].
      * destruct (dfsize d =? 0); cbn [fst snd]; [split; [assumption|discriminate]|].
        destruct (negb (pseq p =? dnext d)); cbn [fst snd]; [split; [now apply inv_reset_frags|discriminate]|].
        destruct (N.ltb_spec cap (dfsize d + nlen data)); cbn [fst snd]; [split; [now apply inv_reset_frags|discriminate]|].
        match goal with |- context [set_frags d ?fr ?sz ?nx] => set (d1 := set_frags d fr sz nx) end.
        assert (H1 : Inv P s d1).
        { destruct HI as (Hs & _ & Hne & Hfb). unfold Inv, d1, set_frags; cbn [dfrags dfsize dfb dfblen dfbsize].
          rewrite sum_len_app. cbn [sum_len]. repeat split; try apply Hfb; try lia.
          intros Hst. apply Forall_app. split; [now apply Hne|]. constructor; [now apply Hdata|constructor]. }
        destruct (negb _); [cbn [fst snd]; split; [assumption|discriminate]|now apply finish_frags_inv].
    + destruct (_ =? t_paci); cbn [fst snd]; split; try (now apply inv_reset_frags); discriminate.
Qed.

Definition frame_ok (f : list bytes) : Prop := nlen f <= maxn /\ sum_len f <= cap.

Lemma inv_frame_ok P s d : Inv P s d -> frame_ok (dfb d).
Proof. intros (_ & _ & _ & H4 & H5 & H6 & H7). unfold frame_ok. lia. Qed.

Lemma dec_inv P s d p : Inv P s d -> pkt_ok P s p ->
  Inv P s (fst (dec d p)) /\ snd (dec d p) <> DPanic /\
  (forall f, snd (dec d p) = DFrame f -> frame_ok f).
Proof.
  intros HI Hp. destruct (decode_nalus_inv P s d p HI Hp) as [H1 Hnp]. unfold dec.
  destruct (decode_nalus d p) as [d1 [nalus| | |]]; cbn [fst snd] in *;
    try (split; [assumption|split; [discriminate|intros f Hf; discriminate]]); [|contradiction].
  destruct (N.ltb_spec maxn (dfblen d1 + nlen nalus)); cbn [fst snd];
    [split; [now apply inv_reset_fb|split; [discriminate|intros f Hf; discriminate]]|].
  destruct (N.ltb_spec cap (dfbsize d1 + sum_len nalus)); cbn [fst snd];
    [split; [now apply inv_reset_fb|split; [discriminate|intros f Hf; discriminate]]|].
  match goal with |- context [set_fb d1 ?a ?b ?c] => set (d2 := set_fb d1 a b c) end.
  assert (H2 : Inv P s d2).
  { destruct H1 as (A1 & A2 & A3 & A4 & A5 & A6 & A7).
    unfold Inv, d2, set_fb; cbn [dfrags dfsize dfb dfblen dfbsize]. rewrite nlen_app, sum_len_app.
    repeat split; auto; lia. }
  destruct (negb (pmarker p)); cbn [fst snd].
  - split; [assumption|]. split; [discriminate|]. intros f Hf. discriminate.
  - split; [now apply inv_reset_fb|]. split; [discriminate|]. intros f Hf. injection Hf as <-.
    exact (inv_frame_ok P s d2 H2).
Qed.

Lemma dec_run_inv P s : forall ps d, Inv P s d -> Forall (pkt_ok P s) ps ->
  Inv P s (fst (dec_run d ps)) /\ ~ In DPanic (snd (dec_run d ps)) /\
  (forall f, In (DFrame f) (snd (dec_run d ps)) -> frame_ok f).
Proof.
  induction ps as [|p t IH]; intros d HI HF; cbn [dec_run]; [cbn; tauto|].
  inversion HF as [|? ? Hp Ht]; subst.
  destruct (dec_inv P s d p HI Hp) as (HI' & Hnp & Hfr). destruct (dec d p) as [d' r] eqn:E. cbn [fst snd] in *.
  destruct (IH d' HI' Ht) as (HI'' & Hnp' & Hfr'). destruct (dec_run d' t) as [d'' rs]. cbn [fst snd] in *.
  split; [assumption|]. split.
  - intros [H|H]; [congruence|contradiction].
  - intros f [H|H]; [now apply Hfr|now apply Hfr'].
Qed.

(* every history is bounded by some P *)
Lemma hist_bound (hist : list packet) : exists P, Forall (pkt_ok P false) hist.
Proof.
  induction hist as [|p t [P IH]]; [exists 0; constructor|].
  exists (N.max P (nlen (ppayload p))). constructor.
  - split; [lia|discriminate].
  - eapply Forall_impl; [|exact IH]. intros q [Hq _]. split; [lia|discriminate].
Qed.

(* ---------- C08 ---------- *)
Theorem total hist : ~ In DPanic (snd (dec_run dinit hist)).
Proof.
  destruct (hist_bound hist) as [P HP].
  apply (dec_run_inv P false hist dinit (inv_init _ _) HP).
Qed.

Theorem bounded P hist :
  Forall (fun p => nlen (ppayload p) <= P) hist ->
  let '(d, rs) := dec_run dinit hist in
  fst (retained d) <= N.max cap P + cap /\ nlen (dfb d) <= maxn /\
  forall f, In (DFrame f) rs -> nlen f <= maxn /\ sum_len f <= cap.
Proof.
  intros HF.
  assert (HF' : Forall (pkt_ok P false) hist).
  { eapply Forall_impl; [|exact HF]. intros p Hp. split; [assumption|discriminate]. }
  pose proof (dec_run_inv P false hist dinit (inv_init _ _) HF') as (HI & _ & Hfr).
  destruct (dec_run dinit hist) as [d rs]. cbn [fst snd] in *.
  destruct HI as (H1 & H2 & _ & H4 & H5 & H6 & H7). unfold retained; cbn [fst snd].
  split; [lia|]. split; [lia|]. intros f Hf. apply Hfr in Hf. exact Hf.
Qed.

(* the slice-header count is bounded as long as no packet is a bare 3-byte FU header *)
Theorem slices_bounded_partial P hist :
  Forall (fun p => 3 < nlen (ppayload p) /\ nlen (ppayload p) <= P) hist ->
  snd (retained (fst (dec_run dinit hist))) <= N.max cap P + maxn.
Proof.
  intros HF.
  assert (HF' : Forall (pkt_ok P true) hist).
  { eapply Forall_impl; [|exact HF]. intros p [Hp1 Hp2]. split; [assumption|intros _; assumption]. }
  pose proof (dec_run_inv P true hist dinit (inv_init _ _) HF') as (HI & _ & _).
  destruct (dec_run dinit hist) as [d rs]. cbn [fst snd] in *.
  destruct HI as (H1 & H2 & H3 & H4 & H5 & H6 & H7). unfold retained; cbn [fst snd].
  specialize (H3 eq_refl).
  assert (G : nlen (dfrags d) <= sum_len (dfrags d)).
  { clear -H3. induction H3 as [|x t Hx Ht IH]; cbn [nlen sum_len]; lia. }
  lia.
Qed.

(* ---------- F6: zero-length FU fragments are appended without bound ---------- *)
Definition fu_start_pkt (s : N) : packet := mkPkt s 0 false [98; 1; 147].   (* 0x62 0x01 0x93: FU, S=1 *)
Definition fu_empty_pkt (s : N) : packet := mkPkt s 0 false [98; 1; 19].    (* 0x62 0x01 0x13: FU, S=0 E=0 *)
Fixpoint empties (s : N) (n : nat) : list packet :=
  match n with O => [] | S k => fu_empty_pkt s :: empties (seq_next s) k end.

Lemma dec_empty d : 0 < dfsize d -> dfsize d <= cap ->
  dec d (fu_empty_pkt (dnext d)) =
  (set_frags d (dfrags d ++ [[]]) (dfsize d) (seq_next (dnext d)), DMore).
Proof.
  intros H0 Hc. unfold dec, decode_nalus, fu_empty_pkt. cbn [ppayload pseq].
  change (N.land (N.shiftr 98 1) 63 =? t_ap) with false. change (N.land (N.shiftr 98 1) 63 =? t_fu) with true. cbn iota.
  change (N.shiftr 19 7 =? 1) with false. cbn iota.
  destruct (N.eqb_spec (dfsize d) 0); [lia|]. rewrite N.eqb_refl. cbn [negb nlen].
  rewrite N.add_0_r. destruct (N.ltb_spec cap (dfsize d)); [lia|].
  change (N.land (N.shiftr 19 6) 1 =? 1) with false. cbn [negb]. reflexivity.
Qed.

Lemma empties_run : forall n d, 0 < dfsize d -> dfsize d <= cap ->
  let d' := fst (dec_run d (empties (dnext d) n)) in
  nlen (dfrags d') = nlen (dfrags d) + N.of_nat n /\ dfb d' = dfb d.
Proof.
  induction n as [|n IH]; intros d H0 Hc; cbn [empties dec_run fst]; [split; [lia|reflexivity]|].
  rewrite dec_empty by assumption.
  set (d1 := set_frags d (dfrags d ++ [[]]) (dfsize d) (seq_next (dnext d))).
  specialize (IH d1 H0 Hc). change (dnext d1) with (seq_next (dnext d)) in IH.
  destruct (dec_run d1 (empties (seq_next (dnext d)) n)) as [d2 rs]. cbn [fst] in *.
  destruct IH as [IH1 IH2]. rewrite IH1, IH2. unfold d1, set_frags; cbn [dfrags dfb].
  rewrite nlen_app. cbn [nlen]. split; [lia|reflexivity].
Qed.

Theorem slices_bounded_refuted : forall B, exists hist,
  Forall (fun p => nlen (ppayload p) <= 3) hist /\
  B < snd (retained (fst (dec_run dinit hist))) /\
  fst (retained (fst (dec_run dinit hist))) = 2.
Proof.
  intros B. set (n := N.to_nat B).
  exists (fu_start_pkt 0 :: empties 1 n). split; [|].
  - constructor; [cbn; lia|]. generalize 1. induction n as [|k IH]; intros s; cbn [empties]; constructor; [cbn; lia|apply IH].
  - cbn [dec_run].
    assert (E : dec dinit (fu_start_pkt 0) = (set_frags dinit [[38; 1]; []] 2 1, DMore)) by reflexivity.
    rewrite E. set (d1 := set_frags dinit [[38; 1]; []] 2 1).
    pose proof (empties_run n d1) as H. change (dnext d1) with 1 in H.
    assert (H0 : 0 < dfsize d1) by (cbn; lia).
    assert (Hc : dfsize d1 <= cap) by (unfold cap, GVG.Consts.h265_max_au; cbn; lia).
    specialize (H H0 Hc). cbn zeta in H.
    assert (Hsz : forall m d, 0 < dfsize d -> dfsize d <= cap ->
              sum_len (dfrags d) = dfsize d -> sum_len (dfb d) = 0 ->
              fst (retained (fst (dec_run d (empties (dnext d) m)))) = dfsize d).
    { clear. induction m as [|m IH]; intros d H0 Hc Hs Hb; cbn [empties dec_run fst].
      - unfold retained; cbn [fst]. lia.
      - rewrite dec_empty by assumption.
        set (d1 := set_frags d (dfrags d ++ [[]]) (dfsize d) (seq_next (dnext d))).
        specialize (IH d1). change (dnext d1) with (seq_next (dnext d)) in IH.
        destruct (dec_run d1 (empties (seq_next (dnext d)) m)) as [d2 rs]. cbn [fst] in *.
        apply IH; try assumption. unfold d1, set_frags; cbn [dfrags dfsize]. rewrite sum_len_app. cbn [sum_len nlen]. lia. }
    specialize (Hsz n d1 H0 Hc eq_refl eq_refl). change (dnext d1) with 1 in Hsz.
    destruct (dec_run d1 (empties 1 n)) as [d2 rs]. cbn [fst] in *.
    destruct H as [H1 H2]. split.
    + unfold retained; cbn [snd]. rewrite H1. unfold d1, set_frags; cbn [dfrags nlen]. unfold n. lia.
    + exact Hsz.
Qed.

(* ---------- H265.PTSEqualsDTS never panics, terminates ---------- *)
Lemma pts_ap_total : forall fuel pl, 2 <= nlen pl -> nlen pl <= nlen fuel + 2 -> pts_ap fuel pl <> None.
Proof.
  induction fuel as [|f fuel IH]; intros pl H2 Hl.
  - destruct pl as [|p0 [|p1 rest]]; cbn [nlen] in *; try lia.
    assert (rest = []) by (destruct rest; [reflexivity|cbn [nlen] in Hl; lia]). subst rest.
    cbn [pts_ap]. change (nnth 0 [p0; p1]) with (Some p0). change (nnth 1 [p0; p1]) with (Some p1).
    change (nsub [p0; p1] 2 (nlen [p0; p1])) with (Some (@nil N)). cbn [nlen].
    destruct (N.eqb_spec (p0 * 256 + p1) 0); cbn [orb]; [discriminate|].
    destruct (N.ltb_spec 0 (p0 * 256 + p1)); [discriminate|lia].
  - destruct pl as [|p0 [|p1 rest]]; cbn [nlen] in H2; try lia.
    cbn [pts_ap]. change (nnth 0 (p0 :: p1 :: rest)) with (Some p0). change (nnth 1 (p0 :: p1 :: rest)) with (Some p1).
    rewrite nsub_ok by (cbn [nlen]; lia).
    replace (ntake (nlen (p0 :: p1 :: rest) - 2) (ndrop 2 (p0 :: p1 :: rest))) with rest.
    2:{ change (ndrop 2 (p0 :: p1 :: rest)) with (ndrop 0 rest). rewrite ndrop_0, ntake_all; [reflexivity|cbn [nlen]; lia]. }
    set (size := p0 * 256 + p1).
    destruct (N.eqb_spec size 0); cbn [orb]; [discriminate|].
    destruct (N.ltb_spec (nlen rest) size); [discriminate|].
    rewrite nsub_ok by lia. rewrite nsub_ok by lia.
    destruct (nnth_lt (ntake (size - 0) (ndrop 0 rest)) 0) as [n0 ->].
    { rewrite nlen_ntake, nlen_ndrop. lia. }
    destruct (is_key _); [discriminate|].
    set (rest' := ntake (nlen rest - size) (ndrop size rest)).
    assert (Hr : nlen rest' = nlen rest - size) by (unfold rest'; rewrite nlen_ntake, nlen_ndrop; lia).
    destruct (N.eqb_spec (nlen rest') 0); [discriminate|].
    destruct (N.ltb_spec (nlen rest') 2); [discriminate|].
    apply IH; [assumption|]. cbn [nlen] in Hl. lia.
Qed.

Theorem pts_equals_dts_total payload : pts_equals_dts payload <> None.
Proof.
  unfold pts_equals_dts. destruct payload as [|b0 pl1]; [discriminate|].
  destruct (is_key _); [discriminate|].
  destruct (_ =? t_ap).
  - destruct (N.ltb_spec (nlen (b0 :: pl1)) 4); [discriminate|].
    rewrite nsub_ok by lia. apply pts_ap_total; rewrite nlen_ntake, nlen_ndrop; lia.
  - destruct (_ =? t_fu); [|discriminate].
    destruct (N.ltb_spec (nlen (b0 :: pl1)) 3); [discriminate|].
    destruct (nnth_lt (b0 :: pl1) 2) as [b2 ->]; [lia|]. destruct (negb _); discriminate.
Qed.

From GV_h265 Require Import Model.

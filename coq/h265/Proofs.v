(* rtph265 proofs, split by theme: encoder (C06), decoder invariants on arbitrary histories (C08),
   round trip (C03), resynchronisation (C07). *)
From GV_h265 Require Export Model ProofsEnc ProofsDec ProofsRound ProofsResync.

(* rtph265: resynchronisation after arbitrary damage (C07).  After ANY packet history one intact
   access unit leaves the decoder clean (whatever it emits); the next intact one is then returned
   exactly at its last packet. *)
From GVL Require Import NList Wire Chunks Rtp.
From GVG Require Import Consts.
From GV_h265 Require Import Model ProofsEnc ProofsDec ProofsRound.
From Coq Require Import ZifyBool ZifyNat ZifyN.
Open Scope N_scope.

Definition fbI (d : dstate) : Prop :=
  dfblen d = nlen (dfb d) /\ dfbsize d = sum_len (dfb d) /\ nlen (dfb d) <= maxn /\ sum_len (dfb d) <= cap.
Definition fclear (d : dstate) : Prop := dfrags d = [] /\ dfsize d = 0.

Lemma inv_fbI P s d : Inv P s d -> fbI d.
Proof. intros (_ & _ & _ & H4 & H5 & H6 & H7). unfold fbI. repeat split; lia. Qed.

Lemma clean_of d : fclear d -> fbI d -> dfb d = [] -> clean d.
Proof.
  intros [F1 F2] (B1 & B2 & _ & _) E. unfold clean. rewrite E in *. cbn [nlen sum_len] in *. tauto.
Qed.

(* what Decode does with the NAL units of one batch, from any frame-buffer state: it adds them or
   drops everything; with the marker the frame buffer is empty afterwards in both cases *)
Lemma post_cases d nx b m : fbI d ->
  fclear (fst (post (clear_frags d nx, NOk b) m)) /\ fbI (fst (post (clear_frags d nx, NOk b) m)) /\
  (m = true -> dfb (fst (post (clear_frags d nx, NOk b) m)) = []).
Proof.
  intros (B1 & B2 & B3 & B4). unfold post.
  change (dfb (clear_frags d nx)) with (dfb d). change (dfblen (clear_frags d nx)) with (dfblen d).
  change (dfbsize (clear_frags d nx)) with (dfbsize d).
  assert (Hzero : 0 <= maxn /\ 0 <= cap) by (split; lia).
  destruct (N.ltb_spec maxn (dfblen d + nlen b)); cbn [fst].
  { split; [split; reflexivity|]. split; [unfold fbI; cbn; repeat split; lia|reflexivity]. }
  destruct (N.ltb_spec cap (dfbsize d + sum_len b)); cbn [fst].
  { split; [split; reflexivity|]. split; [unfold fbI; cbn; repeat split; lia|reflexivity]. }
  destruct m; cbn [negb fst].
  - split; [split; reflexivity|]. split; [unfold fbI; cbn; repeat split; lia|reflexivity].
  - split; [split; reflexivity|]. split; [|discriminate].
    unfold fbI; cbn [set_fb dfb dfblen dfbsize]. rewrite nlen_app, sum_len_app. repeat split; lia.
Qed.

Lemma absorb_batches max : 4 <= max -> max <= 65538 -> forall bs d s, bs <> [] ->
  Forall (batch_ok max) bs -> s < 65536 -> fbI d ->
  exists protos, write_batches max bs = (protos, SOk) /\
    clean (fst (dec_run d (number s protos))).
Proof.
  intros Hm HM. induction bs as [|b t IH]; intros d s Hne Hall Hs Hfb; [contradiction|].
  inversion Hall as [|? ? Hb Ht]; subst. cbn [write_batches].
  destruct t as [|b2 t2].
  - destruct (batch_run max true b d s Hm HM Hb Hs) as (protos & nx & -> & _ & Hrun).
    exists protos. split; [reflexivity|]. rewrite Hrun.
    destruct (post_cases d nx b true Hfb) as (F & B & C).
    destruct (post (clear_frags d nx, NOk b) true) as [d2 r]. cbn [fst] in *.
    apply clean_of; auto.
  - destruct (batch_run max false b d s Hm HM Hb Hs) as (x & nx & -> & _ & Hrun).
    destruct (post_cases d nx b false Hfb) as (F & B & _).
    destruct (post (clear_frags d nx, NOk b) false) as [d2 r] eqn:Ep. cbn [fst] in *.
    destruct (IH d2 (seq_add s (nlen x))) as (y & Hw & Hcl).
    + discriminate.
    + assumption.
    + apply seq_add_lt.
    + assumption.
    + rewrite Hw. exists (x ++ y). split; [reflexivity|].
      rewrite number_app by assumption. rewrite dec_run_app, Hrun.
      destruct (dec_run d2 _) as [d3 rs3]. cbn [fst] in *. exact Hcl.
Qed.

(* an intact access unit absorbs any earlier damage *)
Theorem absorb max hist au s : 4 <= max -> max <= 65538 -> s < 65536 -> valid_frame au ->
  exists ps, enc max s au = (Some ps, SOk, seq_add s (nlen ps)) /\
    clean (fst (dec_run (fst (dec_run dinit hist)) ps)).
Proof.
  intros Hm HM Hs Hv.
  destruct (hist_bound hist) as [P HP].
  pose proof (dec_run_inv P false hist dinit (inv_init _ _) HP) as (HI & _ & _).
  pose proof (batches_valid max au Hm Hv) as Hb.
  destruct (absorb_batches max Hm HM (batches max [] au) (fst (dec_run dinit hist)) s) as (protos & Hw & Hcl).
  - apply batches_ne.
  - assumption.
  - assumption.
  - eapply inv_fbI; eassumption.
  - unfold enc, enc_protos. rewrite Hw. exists (number s protos). rewrite number_len. split; [reflexivity|assumption].
Qed.

(* arbitrary history, then two intact access units: the second one is returned at its last packet *)
Theorem resync max hist au1 au2 s1 s2 : 4 <= max -> max <= 65538 -> s1 < 65536 -> s2 < 65536 ->
  valid_frame au1 -> valid_frame au2 ->
  exists ps1 ps2, enc max s1 au1 = (Some ps1, SOk, seq_add s1 (nlen ps1)) /\
    enc max s2 au2 = (Some ps2, SOk, seq_add s2 (nlen ps2)) /\
    let d0 := fst (dec_run dinit hist) in
    let d1 := fst (dec_run d0 ps1) in
    exists d2, dec_run d1 ps2 = (d2, repeat DMore (length ps2 - 1) ++ [DFrame au2]) /\ clean d2.
Proof.
  intros Hm HM Hs1 Hs2 Hv1 Hv2.
  destruct (absorb max hist au1 s1 Hm HM Hs1 Hv1) as (ps1 & He1 & Hcl).
  destruct (roundtrip max s2 au2 _ Hm HM Hs2 Hv2 Hcl) as (ps2 & d2 & He2 & Hr & Hc2).
  exists ps1, ps2. split; [assumption|]. split; [assumption|]. cbn zeta. exists d2. tauto.
Qed.

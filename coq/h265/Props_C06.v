(* C06, rtph265 - statements only *)
From GVL Require Import NList Rtp.
From GV_h265 Require Import Model Proofs.
Open Scope N_scope.

(* One Encode call, for every access unit whose NAL units have at least their 2-byte header (valid or
   not otherwise; the empty access unit included) and every limit >= 4: the call succeeds, emits at
   least one packet, every payload is at most max bytes, packet i carries sequence number seq+i mod 2^16
   and timestamp 0, the marker is set on the last packet and on no other, the encoder continues at
   seq+count. *)
Theorem C06_h265_packets_wellformed : forall max seq au, 4 <= max -> seq < 65536 -> long_nalus au ->
  exists ps, enc max seq au = (Some ps, SOk, seq_add seq (nlen ps)) /\ ps <> [] /\
    Forall (fun p => nlen (ppayload p) <= max) ps /\
    (forall i p, nnth i ps = Some p ->
       pseq p = seq_add seq i /\ pmarker p = (i + 1 =? nlen ps) /\ pts p = 0).
Proof. exact enc_wellformed. Qed.
Print Assumptions C06_h265_packets_wellformed.

(* any series of (successful) Encode calls: sequence numbers increase by exactly one modulo 2^16 from
   the configured initial value across calls; per call the payload bound and marker placement hold *)
Theorem C06_h265_series_wellformed : forall max, 4 <= max -> forall frames seq, seq < 65536 ->
  Forall long_nalus frames ->
  exists pss, enc_many max seq frames = Some pss /\ length pss = length frames /\
    (forall i p, nnth i (concat pss) = Some p -> pseq p = seq_add seq i) /\
    Forall (fun ps => ps <> [] /\ Forall (fun p => nlen (ppayload p) <= max) ps /\
                      forall i p, nnth i ps = Some p -> pmarker p = (i + 1 =? nlen ps)) pss.
Proof. exact enc_many_wellformed. Qed.
Print Assumptions C06_h265_series_wellformed.

(* Encode never panics, whatever the access unit (1-byte and empty NAL units included) *)
Theorem C06_h265_encode_no_panic : forall max seq au, 4 <= max -> snd (fst (enc max seq au)) <> SPanic.
Proof. exact enc_no_panic. Qed.
Print Assumptions C06_h265_encode_no_panic.

(* ... but with a 1-byte NAL unit (allowed by the documentation of Encode: "each element must contain
   at least 1 byte") that lands in an aggregation unit, the call fails AFTER the packets of earlier
   batches were numbered: nothing is returned and the next call starts 2 sequence numbers later, so the
   "increase by exactly one across any series of Encode calls" part is false for such a series.
   Known finding h265-encode-error-seq-gap, reproduced on the implementation by the harness. *)
Theorem C06_h265_gapless_after_error_refuted :
  enc 9 0 [[2; 1; 7; 7; 7; 7; 7; 7; 7]; [1]; [2; 1]] = (None, SErr, 2).
Proof. exact enc_error_advances_seq. Qed.
Print Assumptions C06_h265_gapless_after_error_refuted.

Example C06_h265_example :
  match enc_many 5 65534 [[[2; 1; 2; 3; 4]]; [[64; 1]; [66; 1]]; [[2; 1; 3]]] with
  | Some pss => (map pseq (concat pss), map pmarker (concat pss), map (fun p => nlen (ppayload p)) (concat pss))
  | None => ([], [], [])
  end = ([65534; 65535; 0; 1; 2], [false; true; false; true; true], [5; 4; 2; 2; 3]).
Proof. vm_compute. reflexivity. Qed.

(* ---- the translated kernels (tools/go2coq, regenerated from the Go source on every run) ----
   The integer formulas of rtph265/encoder.go - lenAggregationUnit (every statement of its loop), the aggregation test
   lenAggregationUnit(batch, nalu) <= PayloadMaxSize, the single/FU decision len(nalu) < PayloadMaxSize, the FU budget
   PayloadMaxSize - 3, the fragment count packetCount(avail, len(nalu)-2), the size 3+le of a fragment packet, the FU
   header bytes data[0] and data[2], the last-fragment test and the marker expression, the three e.sequenceNumber++,
   and of writeAggregationUnit the len(nalu) < 2 test, the layerID / temporalID of a NALU and the two "lowest so far"
   comparisons, the two size bytes and the two header bytes - ARE the formulas of Model.batches / write_batch /
   fu_protos / fu_hdr0 / fu_hdr2 / number / ap_ids / ap_body / ap: len_agg, <=?, <?, max - 3,
   nlen (chunks (max-3) rest), i+1 = count, seq_next, the N.lor / N.land / N.shiftl expressions. *)
From Coq Require Import ZArith.
From GVL Require Import Chunks.
From GVG Require Import Kern.
From GV_h265 Require Import BridgeLib Bridge.
Open Scope Z_scope.

Theorem C06_h265_kernels_are_the_code :
  forall (max : N) (batch : list bytes) (n : bytes) (b0 b1 : N) (rest : bytes) (i pc s : N)
    (m st en : bool) (lid tid : N),
  (4 <= max)%N -> Z.of_N max < i64max -> Z.of_N (len_agg batch + 2 + nlen n) < i64max ->
  Z.of_N (nlen (b0 :: b1 :: rest)) + 3 < i64max -> (1 <= pc)%N -> Z.of_N pc < i64max ->
  byte b0 -> byte b1 -> byte lid -> byte tid ->
  la_code batch None = Z.of_N (len_agg batch) /\
  k_h265_agg_fits (la_code batch (Some n)) (Z.of_N max) = (len_agg batch + 2 + nlen n <=? max)%N /\
  k_h265_one_nalu (Z.of_N (nlen batch)) = (nlen batch =? 1)%N /\
  k_h265_single_fits (Z.of_N (nlen n)) (Z.of_N max) = (nlen n <? max)%N /\
  k_h265_fu_avail (Z.of_N max) = Z.of_N (max - 3) /\
  k_h265_packetCount (k_h265_fu_avail (Z.of_N max)) (k_h265_fu_le (Z.of_N (nlen (b0 :: b1 :: rest))))
    = Some (Z.of_N (nlen (chunks (max - 3) rest))) /\
  k_h265_fu_size (Z.of_N (nlen rest)) = Z.of_N (nlen (fu_hdr0 b0 :: b1 :: fu_hdr2 st en b0 :: rest)) /\
  k_h265_fu_hdr0 (Z.of_N b0) = Z.of_N (fu_hdr0 b0) /\
  k_h265_fu_hdr2 (bit st) (bit en) (Z.of_N b0) = Z.of_N (fu_hdr2 st en b0) /\
  k_h265_fu_last (Z.of_N i) (Z.of_N pc) = (i + 1 =? pc)%N /\
  k_h265_fu_marker (Z.of_N i) (Z.of_N pc) m = ((i + 1 =? pc)%N && m) /\
  k_h265_seq_single (Z.of_N s) = Z.of_N (seq_next s) /\ k_h265_seq_fu (Z.of_N s) = Z.of_N (seq_next s) /\
  k_h265_seq_ap (Z.of_N s) = Z.of_N (seq_next s) /\
  k_h265_ap_short (Z.of_N (nlen n)) = match n with _ :: _ :: _ => false | _ => true end /\
  k_h265_ap_lid (Z.of_N b0) (Z.of_N b1) = Z.of_N (N.lor (N.shiftl (N.land b0 1) 5) (N.land (N.shiftr b1 3) 31)) /\
  k_h265_ap_tid (Z.of_N b1) = Z.of_N (N.land b1 7) /\
  k_h265_ap_lid_lt (Z.of_N (N.lor (N.shiftl (N.land b0 1) 5) (N.land (N.shiftr b1 3) 31))) (Z.of_N lid)
    = (N.lor (N.shiftl (N.land b0 1) 5) (N.land (N.shiftr b1 3) 31) <? lid)%N /\
  k_h265_ap_tid_lt (Z.of_N (N.land b1 7)) (Z.of_N tid) = (N.land b1 7 <? tid)%N /\
  k_h265_ap_size_hi (Z.of_N (nlen rest)) = Z.of_N ((nlen rest / 256) mod 256) /\
  k_h265_ap_size_lo (Z.of_N (nlen rest)) = Z.of_N (nlen rest mod 256) /\
  k_h265_ap_hdr0 (Z.of_N lid) = Z.of_N (N.lor 96 (N.land lid 32)) /\
  k_h265_ap_hdr1 (Z.of_N lid) (Z.of_N tid) = Z.of_N (N.lor (N.shiftl (N.land lid 31) 3) (N.land tid 7)).
Proof. exact enc_kernels_are_the_code. Qed.
Print Assumptions C06_h265_kernels_are_the_code.

(* the translated kernels compute, on the boundaries: a 1450-byte limit leaves 1447 bytes per FU; an aggregate of
   exactly 1450 bytes fits, 1451 does not; a NALU of 1450 bytes is fragmented, 1449 is sent alone; 65535++ = 0;
   lenAggregationUnit([3 bytes], 1 byte) = 2 + 2+3 + 2+1; 2 + 2894 bytes are 2 fragments, one more byte makes 3;
   the FU header of a NALU of type 19 (b0 = 38): 98, start -> 128+19, end -> 64+19 *)
Example C06_h265_example_kernels :
  k_h265_fu_avail 1450 = 1447 /\ k_h265_agg_fits 1450 1450 = true /\ k_h265_agg_fits 1451 1450 = false /\
  k_h265_single_fits 1450 1450 = false /\ k_h265_single_fits 1449 1450 = true /\ k_h265_seq_fu 65535 = 0 /\
  k_h265_fu_marker 2 3 true = true /\ k_h265_fu_marker 1 3 true = false /\
  la_code [[1; 2; 3]%N] (Some [4%N]) = 10 /\
  k_h265_packetCount (k_h265_fu_avail 1450) (k_h265_fu_le 2896) = Some 2 /\
  k_h265_packetCount (k_h265_fu_avail 1450) (k_h265_fu_le 2897) = Some 3 /\
  k_h265_fu_size 1447 = 1450 /\ k_h265_fu_hdr0 38 = 98 /\ k_h265_fu_hdr2 1 0 38 = 147 /\ k_h265_fu_hdr2 0 1 38 = 83 /\
  k_h265_ap_lid 1 8 = 33 /\ k_h265_ap_tid 9 = 1 /\ k_h265_ap_size_hi 258 = 1 /\ k_h265_ap_size_lo 258 = 2 /\
  k_h265_ap_hdr0 33 = 96 /\ k_h265_ap_hdr1 33 1 = 9 /\ k_h265_ap_short 1 = true /\ k_h265_ap_short 2 = false.
Proof. vm_compute. repeat split. Qed.

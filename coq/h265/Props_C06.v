(* C06, rtph265 - statements only *)
From GVL Require Import NList Rtp.
From GV_h265 Require Import Model Proofs.
Open Scope N_scope.

(* One Encode call, for every access unit whose NAL units have at least their 2-byte header (valid or
   not otherwise; the empty access unit included) and every limit >= 4: the call succeeds, emits at
   least one packet, every payload is at most max bytes, packet i carries sequence number seq+i mod 2^16
   and timestamp 0, the marker is set on the last packet and on no other, the encoder continues at
   seq+count. *)
Theorem C06_h265_packets_wellformed : forall max seq au, 4 <= max -> seq < 65536 -> long_nalus au ->
  exists ps, enc max seq au = (Some ps, SOk, seq_add seq (nlen ps)) /\ ps <> [] /\
    Forall (fun p => nlen (ppayload p) <= max) ps /\
    (forall i p, nnth i ps = Some p ->
       pseq p = seq_add seq i /\ pmarker p = (i + 1 =? nlen ps) /\ pts p = 0).
Proof. exact enc_wellformed. Qed.
Print Assumptions C06_h265_packets_wellformed.

(* any series of (successful) Encode calls: sequence numbers increase by exactly one modulo 2^16 from
   the configured initial value across calls; per call the payload bound and marker placement hold *)
Theorem C06_h265_series_wellformed : forall max, 4 <= max -> forall frames seq, seq < 65536 ->
  Forall long_nalus frames ->
  exists pss, enc_many max seq frames = Some pss /\ length pss = length frames /\
    (forall i p, nnth i (concat pss) = Some p -> pseq p = seq_add seq i) /\
    Forall (fun ps => ps <> [] /\ Forall (fun p => nlen (ppayload p) <= max) ps /\
                      forall i p, nnth i ps = Some p -> pmarker p = (i + 1 =? nlen ps)) pss.
Proof. exact enc_many_wellformed. Qed.
Print Assumptions C06_h265_series_wellformed.

(* Encode never panics, whatever the access unit (1-byte and empty NAL units included) *)
Theorem C06_h265_encode_no_panic : forall max seq au, 4 <= max -> snd (fst (enc max seq au)) <> SPanic.
Proof. exact enc_no_panic. Qed.
Print Assumptions C06_h265_encode_no_panic.

(* ... but with a 1-byte NAL unit (allowed by the documentation of Encode: "each element must contain
   at least 1 byte") that lands in an aggregation unit, the call fails AFTER the packets of earlier
   batches were numbered: nothing is returned and the next call starts 2 sequence numbers later, so the
   "increase by exactly one across any series of Encode calls" part is false for such a series.
   Known finding h265-encode-error-seq-gap, reproduced on the implementation by the harness. *)
Theorem C06_h265_gapless_after_error_refuted :
  enc 9 0 [[2; 1; 7; 7; 7; 7; 7; 7; 7]; [1]; [2; 1]] = (None, SErr, 2).
Proof. exact enc_error_advances_seq. Qed.
Print Assumptions C06_h265_gapless_after_error_refuted.

Example C06_h265_example :
  match enc_many 5 65534 [[[2; 1; 2; 3; 4]]; [[64; 1]; [66; 1]]; [[2; 1; 3]]] with
  | Some pss => (map pseq (concat pss), map pmarker (concat pss), map (fun p => nlen (ppayload p)) (concat pss))
  | None => ([], [], [])
  end = ([65534; 65535; 0; 1; 2], [false; true; false; true; true], [5; 4; 2; 2; 3]).
Proof. vm_compute. reflexivity. Qed.

(* rtph265 encoder: packet well-formedness (C06) and the structural facts the round trip needs. *)
From GVL Require Import NList Wire Chunks Rtp.
From GV_h265 Require Import Model.
From Coq Require Import ZifyBool ZifyNat ZifyN.
Open Scope N_scope.
Ltac splits := repeat match goal with |- _ /\ _ => split end.

(* ---------- sequence numbers ---------- *)
Lemma seq_add_next s k : seq_add (seq_next s) k = seq_add s (k + 1).
Proof. unfold seq_add, seq_next. rewrite N.add_mod_idemp_l by lia. f_equal. lia. Qed.
Lemma seq_add_0 s : s < 65536 -> seq_add s 0 = s.
Proof. intros H. unfold seq_add. rewrite N.add_0_r. now apply N.mod_small. Qed.
Lemma seq_add_add s a b : seq_add (seq_add s a) b = seq_add s (a + b).
Proof. unfold seq_add. rewrite N.add_mod_idemp_l by lia. f_equal. lia. Qed.
Lemma seq_add_lt s k : seq_add s k < 65536.
Proof. unfold seq_add. apply N.mod_lt. lia. Qed.
Lemma seq_next_lt s : seq_next s < 65536.
Proof. unfold seq_next. apply N.mod_lt. lia. Qed.
Lemma seq_next_add s : seq_next s = seq_add s 1.
Proof. reflexivity. Qed.

(* ---------- list helpers ---------- *)
Lemma nnth_app_l {A} (l1 l2 : list A) i : i < nlen l1 -> nnth i (l1 ++ l2) = nnth i l1.
Proof.
  revert i; induction l1 as [|x t IH]; intros i H; cbn [nlen app nnth] in *; [lia|].
  destruct (N.eqb_spec i 0); [reflexivity|]. apply IH. lia.
Qed.
Lemma nnth_app_r {A} (l1 l2 : list A) i : nlen l1 <= i -> nnth i (l1 ++ l2) = nnth (i - nlen l1) l2.
Proof.
  revert i; induction l1 as [|x t IH]; intros i H; cbn [nlen app nnth] in *; [f_equal; lia|].
  destruct (N.eqb_spec i 0); [lia|]. rewrite IH by lia. f_equal. lia.
Qed.
Lemma nnth_map {A B} (f : A -> B) l i : nnth i (map f l) = option_map f (nnth i l).
Proof.
  revert i; induction l as [|x t IH]; intros i; cbn [map nnth]; [reflexivity|].
  destruct (i =? 0); [reflexivity|apply IH].
Qed.
Lemma nnth_some_lt {A} (l : list A) i x : nnth i l = Some x -> i < nlen l.
Proof.
  intros H. destruct (N.ltb_spec i (nlen l)); [assumption|]. rewrite nnth_ge in H by assumption. discriminate.
Qed.
Lemma sum_len_app a b : sum_len (a ++ b) = sum_len a + sum_len b.
Proof. induction a as [|x t IH]; cbn [app sum_len]; [reflexivity|]. rewrite IH. lia. Qed.
Lemma sum_len_concat (l : list bytes) : sum_len l = nlen (concat l).
Proof. induction l as [|x t IH]; cbn [sum_len concat nlen]; [reflexivity|]. rewrite nlen_app, IH. reflexivity. Qed.
Lemma len_agg_body_app a b : len_agg_body (a ++ b) = len_agg_body a + len_agg_body b.
Proof. induction a as [|x t IH]; cbn [app len_agg_body]; [reflexivity|]. rewrite IH. lia. Qed.
Lemma len_agg_body_sum a : len_agg_body a = 2 * nlen a + sum_len a.
Proof. induction a as [|x t IH]; cbn [len_agg_body nlen sum_len]; [reflexivity|]. rewrite IH. lia. Qed.

(* all markers false except the last, which is [m] *)
Definition mk_last (m : bool) (l : list bool) : Prop := exists k, l = repeat false k ++ [m].

Lemma mk_last_app m x y : mk_last false x -> mk_last m y -> mk_last m (x ++ y).
Proof.
  intros [a ->] [b ->]. exists (a + 1 + b)%nat.
  rewrite !repeat_app. cbn [repeat]. now rewrite <- !app_assoc.
Qed.
Lemma mk_last_ne m l : mk_last m l -> l <> [].
Proof. intros [k ->]. destruct k; discriminate. Qed.
Lemma mk_last_nth l : mk_last true l -> forall i b, nnth i l = Some b -> b = (i + 1 =? nlen l).
Proof.
  intros [k ->] i b H. rewrite nlen_app, nlen_repeat. cbn [nlen].
  destruct (N.ltb_spec i (N.of_nat k)) as [Hlt|Hge].
  - rewrite nnth_app_l in H by (rewrite nlen_repeat; lia). rewrite nnth_repeat in H by lia.
    injection H as <-. symmetry. apply N.eqb_neq. lia.
  - rewrite nnth_app_r in H by (rewrite nlen_repeat; lia). rewrite nlen_repeat in H.
    cbn [nnth] in H. destruct (N.eqb_spec (i - N.of_nat k) 0); [|discriminate].
    injection H as <-. symmetry. apply N.eqb_eq. lia.
Qed.

(* ---------- numbering ---------- *)
Lemma number_len s ps : nlen (number s ps) = nlen ps.
Proof. revert s; induction ps as [|[m pl] t IH]; intros s; cbn [number nlen]; [reflexivity|]. now rewrite IH. Qed.
Lemma number_length s ps : length (number s ps) = length ps.
Proof. revert s; induction ps as [|[m pl] t IH]; intros s; cbn [number length]; [reflexivity|]. now rewrite IH. Qed.

Lemma number_nth ps : forall s i p, s < 65536 -> nnth i (number s ps) = Some p ->
  exists m pl, nnth i ps = Some (m, pl) /\ p = mkPkt (seq_add s i) 0 m pl.
Proof.
  induction ps as [|[m pl] t IH]; intros s i p Hs H; cbn [number nnth] in *; [discriminate|].
  destruct (N.eqb_spec i 0) as [->|Hi].
  - injection H as <-. exists m, pl. rewrite seq_add_0 by assumption. split; reflexivity.
  - apply IH in H; [|apply seq_next_lt]. destruct H as (m' & pl' & H1 & ->).
    exists m', pl'. split; [assumption|]. rewrite seq_add_next. do 2 f_equal. lia.
Qed.

Lemma number_app x : forall s y, s < 65536 -> number s (x ++ y) = number s x ++ number (seq_add s (nlen x)) y.
Proof.
  induction x as [|[m pl] t IH]; intros s y Hs; cbn [app number nlen].
  - now rewrite seq_add_0.
  - rewrite IH by apply seq_next_lt. rewrite seq_add_next. cbn [app]. replace (nlen t + 1) with (N.succ (nlen t)) by lia. reflexivity.
Qed.

Lemma number_payloads s ps : map ppayload (number s ps) = map snd ps.
Proof. revert s; induction ps as [|[m pl] t IH]; intros s; cbn [number map]; [reflexivity|]. now rewrite IH. Qed.
Lemma number_markers s ps : map pmarker (number s ps) = map fst ps.
Proof. revert s; induction ps as [|[m pl] t IH]; intros s; cbn [number map]; [reflexivity|]. now rewrite IH. Qed.

(* ---------- fragmentation packets ---------- *)
Lemma fu_protos_length b0 b1 m st cs : length (fu_protos b0 b1 m st cs) = length cs.
Proof. revert st; induction cs as [|c t IH]; intros st; cbn [fu_protos length]; [reflexivity|]. now rewrite IH. Qed.

Lemma fu_protos_markers b0 b1 m cs : forall st, cs <> [] -> mk_last m (map fst (fu_protos b0 b1 m st cs)).
Proof.
  induction cs as [|c t IH]; intros st Hne; [contradiction|]. cbn [fu_protos map fst].
  destruct t as [|c2 t2].
  - exists 0%nat. reflexivity.
  - cbn [andb]. destruct (IH false) as [k Hk]; [discriminate|]. exists (S k). cbn [repeat app]. now rewrite Hk.
Qed.

Lemma fu_protos_sizes b0 b1 m a cs : forall st, Forall (fun c => nlen c <= a) cs ->
  Forall (fun p => nlen (snd p) <= a + 3) (fu_protos b0 b1 m st cs).
Proof.
  induction cs as [|c t IH]; intros st H; cbn [fu_protos]; [constructor|].
  inversion H as [|? ? Hc Ht]; subst. constructor; [cbn [snd nlen]; lia|]. now apply IH.
Qed.

(* ---------- batches ---------- *)
Definition ok_batch (max : N) (b : list bytes) : Prop :=
  match b with [_] => True | _ => len_agg b <= max end.

Lemma batches_ok max : forall au batch, ok_batch max batch -> Forall (ok_batch max) (batches max batch au).
Proof.
  induction au as [|n t IH]; intros batch Hb; cbn [batches]; [constructor; [assumption|constructor]|].
  destruct (N.leb_spec (len_agg batch + 2 + nlen n) max) as [Hle|Hgt].
  - apply IH.
    assert (E : len_agg (batch ++ [n]) = len_agg batch + 2 + nlen n)
      by (unfold len_agg; rewrite len_agg_body_app; cbn [len_agg_body]; lia).
    unfold ok_batch. remember (batch ++ [n]) as bb. destruct bb as [|a [|b r]]; try exact I; lia.
  - destruct batch as [|x r]; [apply IH; exact I|]. constructor; [assumption|apply IH; exact I].
Qed.

Lemma batches_concat max : forall au batch, concat (batches max batch au) = batch ++ au.
Proof.
  induction au as [|n t IH]; intros batch; cbn [batches concat]; [now rewrite !app_nil_r|].
  destruct (len_agg batch + 2 + nlen n <=? max).
  - rewrite IH, <- app_assoc. reflexivity.
  - destruct batch as [|x r]; [rewrite IH; reflexivity|]. cbn [concat]. rewrite IH. reflexivity.
Qed.

Lemma batches_ne max : forall au batch, batches max batch au <> [].
Proof.
  induction au as [|n t IH]; intros batch; cbn [batches]; [discriminate|].
  destruct (len_agg batch + 2 + nlen n <=? max); [apply IH|]. destruct batch; [apply IH|discriminate].
Qed.

(* no batch is empty, unless the access unit itself is *)
Lemma batches_nonempty max : forall au batch, (batch <> [] \/ au <> []) ->
  Forall (fun b => b <> []) (batches max batch au).
Proof.
  induction au as [|n t IH]; intros batch H; cbn [batches].
  - constructor; [|constructor]. destruct H; [assumption|contradiction].
  - destruct (len_agg batch + 2 + nlen n <=? max).
    + apply IH. left. destruct batch; discriminate.
    + destruct batch as [|x r]; [apply IH; left; discriminate|].
      constructor; [discriminate|apply IH; left; discriminate].
Qed.

(* ---------- writeBatch ---------- *)
Lemma chunks_ne {A} n (l : list A) : 0 < n -> l <> [] -> chunks n l <> [].
Proof. intros Hn Hl. rewrite chunks_cons by assumption. discriminate. Qed.

Definition long_nalus (l : list bytes) : Prop := Forall (fun n => 2 <= nlen n) l.

Lemma ap_ids_some l : long_nalus l -> forall lid tid, ap_ids l lid tid <> None.
Proof.
  induction 1 as [|n t Hn Ht IH]; intros lid tid; cbn [ap_ids]; [discriminate|].
  destruct n as [|b0 [|b1 r]]; cbn [nlen] in Hn; try lia. apply IH.
Qed.

Lemma ap_body_len l : nlen (ap_body l) = len_agg_body l.
Proof. induction l as [|x t IH]; cbn [ap_body len_agg_body nlen]; [reflexivity|]. rewrite nlen_app, IH. lia. Qed.

Lemma ap_some l : long_nalus l -> exists pl, ap l = Some pl /\ nlen pl = len_agg l.
Proof.
  intros H. unfold ap. pose proof (ap_ids_some l H 255 255) as Hs.
  destruct (ap_ids l 255 255) as [[lid tid]|]; [|contradiction].
  eexists. split; [reflexivity|]. cbn [nlen]. rewrite ap_body_len. unfold len_agg. lia.
Qed.

Lemma write_batch_spec max m b : 4 <= max -> ok_batch max b -> long_nalus b ->
  exists ps, write_batch max m b = WOk ps /\ mk_last m (map fst ps) /\
             Forall (fun p => nlen (snd p) <= max) ps.
Proof.
  intros Hm Hok Hlong. unfold write_batch.
  assert (Hagg : len_agg b <= max -> exists ps,
             match ap b with Some pl => WOk [(m, pl)] | None => WErr end = WOk ps /\ mk_last m (map fst ps) /\
             Forall (fun p => nlen (snd p) <= max) ps).
  { intros Hl. destruct (ap_some b Hlong) as (pl & -> & Hpl). eexists. split; [reflexivity|].
    split; [exists 0%nat; reflexivity|]. constructor; [|constructor]. cbn [snd]. lia. }
  destruct b as [|n [|n2 r]]; [apply Hagg; exact Hok| |apply Hagg; exact Hok].
  destruct (N.ltb_spec (nlen n) max) as [Hlt|Hge].
  - eexists. split; [reflexivity|]. split; [exists 0%nat; reflexivity|].
    constructor; [cbn [snd]; lia|constructor].
  - destruct n as [|b0 [|b1 rest]]; [cbn [nlen] in Hge; lia|cbn [nlen] in Hge; lia|].
    eexists. split; [reflexivity|]. split.
    + apply fu_protos_markers. apply chunks_ne; [lia|]. destruct rest; [cbn [nlen] in Hge; lia|discriminate].
    + eapply Forall_impl; [|apply fu_protos_sizes with (a := max - 3)].
      * cbn. intros p Hp. lia.
      * eapply Forall_impl; [|apply chunks_bounds; lia]. cbn. tauto.
Qed.

Lemma write_batches_spec max : 4 <= max -> forall bs, bs <> [] -> Forall (ok_batch max) bs ->
  Forall long_nalus bs ->
  exists ps, write_batches max bs = (ps, SOk) /\ mk_last true (map fst ps) /\
             Forall (fun p => nlen (snd p) <= max) ps.
Proof.
  intros Hm. induction bs as [|b t IH]; intros Hne Hok Hlong; [contradiction|].
  inversion Hok as [|? ? Hb Ht]; subst. inversion Hlong as [|? ? Hlb Hlt]; subst. cbn [write_batches].
  destruct t as [|b2 t2].
  - destruct (write_batch_spec max true b Hm Hb Hlb) as (x & -> & Hx1 & Hx2). exists x. tauto.
  - destruct (write_batch_spec max false b Hm Hb Hlb) as (x & -> & Hx1 & Hx2).
    destruct IH as (y & Hy & Hy1 & Hy2); [discriminate|assumption|assumption|]. rewrite Hy.
    exists (x ++ y). split; [reflexivity|]. split.
    + rewrite map_app. now apply mk_last_app.
    + apply Forall_app. split; assumption.
Qed.

Lemma Forall_concat {A} (P : A -> Prop) (ls : list (list A)) : Forall P (concat ls) -> Forall (Forall P) ls.
Proof.
  induction ls as [|l t IH]; intros H; [constructor|]. cbn [concat] in H. apply Forall_app in H.
  destruct H as [H1 H2]. constructor; [assumption|now apply IH].
Qed.

(* ---------- C06: one Encode call ---------- *)
Theorem enc_wellformed max seq au : 4 <= max -> seq < 65536 -> long_nalus au ->
  exists ps, enc max seq au = (Some ps, SOk, seq_add seq (nlen ps)) /\ ps <> [] /\
    Forall (fun p => nlen (ppayload p) <= max) ps /\
    (forall i p, nnth i ps = Some p ->
       pseq p = seq_add seq i /\ pmarker p = (i + 1 =? nlen ps) /\ pts p = 0).
Proof.
  intros Hm Hs Hlong. unfold enc, enc_protos.
  destruct (write_batches_spec max Hm (batches max [] au)) as (ps & -> & Hmk & Hsz).
  - apply batches_ne.
  - apply batches_ok. cbn. unfold len_agg. cbn. lia.
  - apply Forall_concat. rewrite batches_concat. exact Hlong.
  - exists (number seq ps). rewrite number_len. splits.
    + reflexivity.
    + pose proof (mk_last_ne _ _ Hmk) as Hne. destruct ps as [|[m pl] t]; [contradiction|discriminate].
    + rewrite <- (Forall_map ppayload (fun pl => nlen pl <= max)). rewrite number_payloads.
      rewrite Forall_map. exact Hsz.
    + intros i p H. apply number_nth in H; [|assumption]. destruct H as (m & pl & Hn & ->).
      cbn [pseq pmarker pts]. splits; [reflexivity| |reflexivity].
      rewrite <- (nlen_map fst ps). apply (mk_last_nth _ Hmk i m).
      rewrite nnth_map, Hn. reflexivity.
Qed.

(* ---------- C06: any series of Encode calls ---------- *)
Theorem enc_many_wellformed max : 4 <= max -> forall frames seq, seq < 65536 ->
  Forall long_nalus frames ->
  exists pss, enc_many max seq frames = Some pss /\ length pss = length frames /\
    (forall i p, nnth i (concat pss) = Some p -> pseq p = seq_add seq i) /\
    Forall (fun ps => ps <> [] /\ Forall (fun p => nlen (ppayload p) <= max) ps /\
                      forall i p, nnth i ps = Some p -> pmarker p = (i + 1 =? nlen ps)) pss.
Proof.
  intros Hm. induction frames as [|f t IH]; intros seq Hs Hl; cbn [enc_many].
  - exists []. splits; [reflexivity|reflexivity| |constructor]. intros i p H. cbn in H. discriminate.
  - inversion Hl as [|? ? Hlf Hlt]; subst.
    destruct (enc_wellformed max seq f Hm Hs Hlf) as (ps & -> & Hne & Hsz & Hi).
    destruct (IH (seq_add seq (nlen ps)) (seq_add_lt _ _) Hlt) as (pss & -> & Hlen & Hgap & Hall).
    exists (ps :: pss). splits.
    + reflexivity.
    + cbn [length]. now rewrite Hlen.
    + intros i p H. cbn [concat] in H. destruct (N.ltb_spec i (nlen ps)) as [Hlt'|Hge].
      * rewrite nnth_app_l in H by assumption. now apply Hi in H.
      * rewrite nnth_app_r in H by assumption. apply Hgap in H. rewrite H, seq_add_add. f_equal. lia.
    + constructor; [|assumption]. splits; [assumption|assumption|]. intros i p H. now apply Hi in H.
Qed.

(* ---------- Encode never panics, whatever the access unit (limit >= 4) ---------- *)
Lemma write_batch_no_panic max m b : 4 <= max -> write_batch max m b <> WPanic.
Proof.
  intros Hm. unfold write_batch. destruct b as [|n [|n2 r]]; try (destruct (ap _); discriminate).
  destruct (N.ltb_spec (nlen n) max); [discriminate|].
  destruct n as [|b0 [|b1 rest]]; cbn [nlen] in *; try lia. discriminate.
Qed.

Lemma write_batches_no_panic max : 4 <= max -> forall bs, snd (write_batches max bs) <> SPanic.
Proof.
  intros Hm. induction bs as [|b t IH]; cbn [write_batches]; [discriminate|].
  pose proof (write_batch_no_panic max (match t with [] => true | _ :: _ => false end) b Hm) as Hb.
  destruct (write_batch max _ b) as [x| |]; cbn [snd]; [|discriminate|contradiction].
  destruct t as [|b2 t2]; [discriminate|]. destruct (write_batches max (b2 :: t2)) as [y st]. exact IH.
Qed.

Theorem enc_no_panic max seq au : 4 <= max -> snd (fst (enc max seq au)) <> SPanic.
Proof.
  intros Hm. unfold enc, enc_protos. pose proof (write_batches_no_panic max Hm (batches max [] au)) as H.
  destruct (write_batches max (batches max [] au)) as [ps st]. exact H.
Qed.

(* a failed Encode call has already consumed sequence numbers: limit 9, a 9-byte NALU (2 FU packets)
   followed by two NALUs that are aggregated, one of them a single byte *)
Lemma enc_error_advances_seq :
  enc 9 0 [[2; 1; 7; 7; 7; 7; 7; 7; 7]; [1]; [2; 1]] = (None, SErr, 2).
Proof. vm_compute. reflexivity. Qed.

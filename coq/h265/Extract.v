From Coq Require Extraction ExtrOcamlBasic.
From GV_h265 Require Import Model.
Extraction Language OCaml.
Extraction "model.ml" run.

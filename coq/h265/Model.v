(* Executable model of pkg/format/rtph265 (encoder.go, decoder.go) and of H265.PTSEqualsDTS
   (pkg/format/h265.go).  Proof-free.

   Conventions: bytes are N (< 256 on the wire); every Go slice / index expression whose bounds are
   not guarded by an immediately preceding length test is a checked primitive (nnth / nsub /
   join) whose failure is the outcome Panic; a loop that runs out of fuel is also Panic (so the
   "no Panic" theorems also say "terminates").
   Not modelled because not observable under the harness projection: firstPacketReceived (it only
   selects between two error values), PayloadType / SSRC / Version (constants copied into every
   packet header; checked by the direct oracle). *)
From GVL Require Import NList Wire Chunks Rtp.
From GVG Require Import Consts.
Open Scope N_scope.

Definition cap : N := h265_max_au.          (* h265.MaxAccessUnitSize *)
Definition maxn : N := h265_max_nalus.      (* h265.MaxNALUsPerAccessUnit *)
Definition t_ap : N := h265_nalu_ap.        (* 48 *)
Definition t_fu : N := h265_nalu_fu.        (* 49 *)
Definition t_paci : N := h265_nalu_paci.    (* 50 *)

Inductive pres (A : Type) := POk (a : A) | PErr | PPanic.
Arguments POk {A} a. Arguments PErr {A}. Arguments PPanic {A}.

Fixpoint sum_len (l : list bytes) : N :=
  match l with [] => 0 | x :: t => nlen x + sum_len t end.

(* ================= encoder ================= *)

(* lenAggregationUnit(nalus, nil) *)
Fixpoint len_agg_body (nalus : list bytes) : N :=
  match nalus with [] => 0 | n :: t => 2 + nlen n + len_agg_body t end.
Definition len_agg (nalus : list bytes) : N := 2 + len_agg_body nalus.

(* the batching loop of Encode: [batch] is the current batch ([] = nil), result = the batches
   handed to writeBatch, in order; the last one is the final batch (marker = true) *)
Fixpoint batches (max : N) (batch : list bytes) (au : list bytes) : list (list bytes) :=
  match au with
  | [] => [batch]
  | n :: t =>
      if len_agg batch + 2 + nlen n <=? max then batches max (batch ++ [n]) t
      else match batch with
           | [] => batches max [n] t
           | _ :: _ => batch :: batches max [n] t
           end
  end.

(* writeAggregationUnit.  Lowest layerID / temporalID over the NALUs (start value 0xFF);
   None = "invalid NALU" error (a NALU shorter than 2 bytes) *)
Fixpoint ap_ids (nalus : list bytes) (lid tid : N) : option (N * N) :=
  match nalus with
  | [] => Some (lid, tid)
  | n :: t =>
      match n with
      | b0 :: b1 :: _ =>
          let nl := N.lor (N.shiftl (N.land b0 1) 5) (N.land (N.shiftr b1 3) 31) in
          let nt := N.land b1 7 in
          ap_ids t (if nl <? lid then nl else lid) (if nt <? tid then nt else tid)
      | _ => None
      end
  end.
Fixpoint ap_body (nalus : list bytes) : bytes :=
  match nalus with
  | [] => []
  | n :: t => (nlen n / 256) mod 256 :: nlen n mod 256 :: n ++ ap_body t
  end.
Definition ap (nalus : list bytes) : option bytes :=
  match ap_ids nalus 255 255 with
  | None => None
  | Some (lid, tid) =>
      Some (N.lor 96 (N.land lid 32) :: N.lor (N.shiftl (N.land lid 31) 3) (N.land tid 7) :: ap_body nalus)
  end.

(* writeFragmentationUnits header bytes: head[0]&0x81 | 49<<1, head[1], (start<<7)|(end<<6)|(head[0]>>1)&63 *)
Definition fu_hdr0 (b0 : N) : N := N.lor (N.land b0 129) 98.
Definition fu_hdr2 (s e : bool) (b0 : N) : N :=
  N.lor (N.lor (if s then 128 else 0) (if e then 64 else 0)) (N.land (N.shiftr b0 1) 63).

(* a packet before numbering: (marker, payload) *)
Fixpoint fu_protos (b0 b1 : N) (marker start : bool) (cs : list bytes) : list (bool * bytes) :=
  match cs with
  | [] => []
  | c :: t =>
      let last := match t with [] => true | _ :: _ => false end in
      (last && marker, fu_hdr0 b0 :: b1 :: fu_hdr2 start last b0 :: c) :: fu_protos b0 b1 marker false t
  end.

Inductive wres := WOk (ps : list (bool * bytes)) | WErr | WPanic.

(* writeBatch.  WPanic: nalu[:2] of a NALU shorter than 2 bytes (slice beyond capacity).
   packetCount = ceil(le/avail) pieces of [avail] bytes but the last = chunks avail (nalu[2:]) *)
Definition write_batch (max : N) (marker : bool) (batch : list bytes) : wres :=
  match batch with
  | [n] =>
      if nlen n <? max then WOk [(marker, n)]
      else match n with
           | b0 :: b1 :: rest => WOk (fu_protos b0 b1 marker true (chunks (max - 3) rest))
           | _ => WPanic
           end
  | _ => match ap batch with Some pl => WOk [(marker, pl)] | None => WErr end
  end.

(* packets written before an error keep their sequence numbers: (packets so far, status) *)
Inductive wstat := SOk | SErr | SPanic.
Fixpoint write_batches (max : N) (bs : list (list bytes)) : list (bool * bytes) * wstat :=
  match bs with
  | [] => ([], SOk)
  | b :: t =>
      match write_batch max (match t with [] => true | _ :: _ => false end) b with
      | WErr => ([], SErr)
      | WPanic => ([], SPanic)
      | WOk x =>
          match t with
          | [] => (x, SOk)
          | _ :: _ => let '(y, st) := write_batches max t in (x ++ y, st)
          end
      end
  end.

Definition enc_protos (max : N) (au : list bytes) : list (bool * bytes) * wstat :=
  write_batches max (batches max [] au).

(* e.sequenceNumber++ per packet, in emission order; the encoder leaves Timestamp = 0 *)
Fixpoint number (seq : N) (ps : list (bool * bytes)) : list packet :=
  match ps with
  | [] => []
  | (m, pl) :: t => mkPkt seq 0 m pl :: number (seq_next seq) t
  end.

(* result of one Encode call: the packets (None = error or panic: nothing is returned) and the
   encoder's next sequence number - advanced by the packets built before the error, too *)
Definition enc (max seq : N) (au : list bytes) : option (list packet) * wstat * N :=
  let '(ps, st) := enc_protos max au in
  (match st with SOk => Some (number seq ps) | _ => None end, st, seq_add seq (nlen ps)).

(* a series of calls that all succeed *)
Fixpoint enc_many (max seq : N) (frames : list (list bytes)) : option (list (list packet)) :=
  match frames with
  | [] => Some []
  | f :: t =>
      match enc max seq f with
      | (Some ps, _, seq') =>
          match enc_many max seq' t with
          | None => None
          | Some r => Some (ps :: r)
          end
      | (None, _, _) => None
      end
  end.

(* ================= decoder ================= *)

Record dstate := mkD {
  dfrags : list bytes;   (* d.fragments (logical content; [:0] = []) *)
  dfsize : N;            (* d.fragmentsSize *)
  dnext : N;             (* d.fragmentNextSeqNum *)
  dfb : list bytes;      (* d.frameBuffer ([] = nil) *)
  dfblen : N;            (* d.frameBufferLen *)
  dfbsize : N }.         (* d.frameBufferSize *)

Definition dinit : dstate := mkD [] 0 0 [] 0 0.

Definition reset_frags (d : dstate) : dstate :=
  mkD [] 0 (dnext d) (dfb d) (dfblen d) (dfbsize d).
Definition set_frags (d : dstate) (fr : list bytes) (sz nx : N) : dstate :=
  mkD fr sz nx (dfb d) (dfblen d) (dfbsize d).
Definition reset_fb (d : dstate) : dstate :=
  mkD (dfrags d) (dfsize d) (dnext d) [] 0 0.
Definition set_fb (d : dstate) (fb : list bytes) (l sz : N) : dstate :=
  mkD (dfrags d) (dfsize d) (dnext d) fb l sz.

(* joinFragments: ret := make([]byte, size); n += copy(ret[n:], p).  ret[n:] panics if n > size *)
Fixpoint join_aux (frags : list bytes) (size n : N) (acc : bytes) : option bytes :=
  match frags with
  | [] => Some (acc ++ nrep 0 (size - n))
  | p :: t =>
      if size <? n then None else
      let c := ntake (size - n) p in
      join_aux t size (n + nlen c) (acc ++ c)
  end.
Definition join (frags : list bytes) (size : N) : option bytes := join_aux frags size 0 [].

(* bytes.Index(b, {0,0,1}) *)
Definition starts01 (t : bytes) : bool :=
  match t with a :: b :: _ => (a =? 0) && (b =? 1) | _ => false end.
Fixpoint find_sc (b : bytes) : option N :=
  match b with
  | [] => None
  | x :: t => if (x =? 0) && starts01 t then Some 0 else option_map N.succ (find_sc t)
  end.

(* b[idx-1] == 0 guarded by idx > 0; None = index out of range *)
Definition prev_is_zero (b : bytes) (idx : N) : option bool :=
  if idx =? 0 then Some false
  else match nnth (idx - 1) b with Some x => Some (x =? 0) | None => None end.

(* splitNALUs.  None = panic or out of fuel *)
Fixpoint split_aux (fuel b : bytes) (acc : list bytes) : option (list bytes) :=
  match b with
  | [] => Some acc
  | _ :: _ =>
    match fuel with
    | [] => None
    | _ :: fuel' =>
      match find_sc b with
      | None => Some (acc ++ [b])
      | Some idx0 =>
        match prev_is_zero b idx0 with
        | None => None
        | Some z =>
          let idx := if z then idx0 - 1 else idx0 in
          let sz := if z then 4 else 3 in
          if idx =? 0 then
            match nsub b sz (nlen b) with
            | Some b' => split_aux fuel' b' acc
            | None => None
            end
          else
            match nsub b 0 idx, nsub b (idx + sz) (nlen b) with
            | Some u, Some b' => split_aux fuel' b' (acc ++ [u])
            | _, _ => None
            end
        end
      end
    end
  end.
Definition split_nalus (b : bytes) : option (list bytes) := split_aux b b [].

(* the aggregation-unit walk.  [pl] = payload (after the 2 header bytes) *)
Fixpoint ap_walk (fuel pl : bytes) (acc : list bytes) : pres (list bytes) :=
  match pl with
  | p0 :: p1 :: rest =>
      let size := p0 * 256 + p1 in
      if (size =? 0) || (nlen rest <? size) then PErr
      else
        let acc' := acc ++ [ntake size rest] in
        match ndrop size rest with
        | [] => POk acc'
        | (_ :: _) as rest' =>
            match fuel with
            | [] => PPanic
            | _ :: fuel' => ap_walk fuel' rest' acc'
            end
        end
  | _ => PErr
  end.

Inductive nres := NOk (nalus : list bytes) | NMore | NErr | NPanic.

(* join + splitNALUs + resetFragments *)
Definition finish_frags (d : dstate) : dstate * nres :=
  match join (dfrags d) (dfsize d) with
  | None => (d, NPanic)
  | Some j =>
      match split_nalus j with
      | None => (d, NPanic)
      | Some nalus => (reset_frags d, NOk nalus)
      end
  end.

Definition decode_nalus (d : dstate) (p : packet) : dstate * nres :=
  match ppayload p with
  | b0 :: b1 :: pl2 =>
      let typ := N.land (N.shiftr b0 1) 63 in
      if typ =? t_ap then
        let d1 := reset_frags d in
        match ap_walk pl2 pl2 [] with
        | PPanic => (d1, NPanic)
        | PErr => (d1, NErr)
        | POk nalus => (d1, NOk nalus)
        end
      else if typ =? t_fu then
        match pl2 with
        | [] => (reset_frags d, NErr)
        | b2 :: data =>
            let start := N.shiftr b2 7 in
            let e := N.land (N.shiftr b2 6) 1 in
            if start =? 1 then
              let d1 := reset_frags d in
              if negb (e =? 0) then (d1, NErr)
              else
                let ftyp := N.land b2 63 in
                (* uint16(p0&0x81)<<8 | uint16(typ)<<9 | uint16(p1) *)
                let head := N.lor (N.lor (N.shiftl (N.land b0 129) 8) (N.shiftl ftyp 9)) b1 in
                (set_frags d [[N.land (N.shiftr head 8) 255; N.land head 255]; data]
                   (N.succ (N.succ (nlen data))) (seq_next (pseq p)), NMore)
            else if dfsize d =? 0 then (d, NErr)
            else if negb (pseq p =? dnext d) then (reset_frags d, NErr)
            else
              let size' := dfsize d + nlen data in
              if cap <? size' then (reset_frags d, NErr)
              else
                let d1 := set_frags d (dfrags d ++ [data]) size' (seq_next (dnext d)) in
                if negb (e =? 1) then (d1, NMore) else finish_frags d1
        end
      else if typ =? t_paci then (reset_frags d, NErr)
      else (reset_frags d, NOk [ppayload p])
  | _ => (reset_frags d, NErr)
  end.

Definition dec (d : dstate) (p : packet) : dstate * dres (list bytes) :=
  match decode_nalus d p with
  | (d1, NPanic) => (d1, DPanic)
  | (d1, NErr) => (d1, DErr)
  | (d1, NMore) => (d1, DMore)
  | (d1, NOk nalus) =>
      let l := nlen nalus in
      if maxn <? dfblen d1 + l then (reset_fb d1, DErr) else
      let add := sum_len nalus in
      if cap <? dfbsize d1 + add then (reset_fb d1, DErr) else
      let d2 := set_fb d1 (dfb d1 ++ nalus) (dfblen d1 + l) (dfbsize d1 + add) in
      if negb (pmarker p) then (d2, DMore) else (reset_fb d2, DFrame (dfb d2))
  end.

Fixpoint dec_run (d : dstate) (ps : list packet) : dstate * list (dres (list bytes)) :=
  match ps with
  | [] => (d, [])
  | p :: t => let '(d', r) := dec d p in let '(d'', rs) := dec_run d' t in (d'', r :: rs)
  end.

(* what the decoder retains: logical bytes and slice headers (fragments + frame buffer) *)
Definition retained (d : dstate) : N * N :=
  (sum_len (dfrags d) + sum_len (dfb d), nlen (dfrags d) + nlen (dfb d)).

(* ================= H265.PTSEqualsDTS (pkg/format/h265.go) ================= *)
Definition is_key (t : N) : bool :=
  (t =? h265_nalu_idr_w_radl) || (t =? h265_nalu_idr_n_lp) || (t =? h265_nalu_cra) ||
  (t =? h265_nalu_vps) || (t =? h265_nalu_sps) || (t =? h265_nalu_pps).

(* the loop reads payload[0], payload[1] without a test of its own: checked.  None = panic / no fuel *)
Fixpoint pts_ap (fuel pl : bytes) : option bool :=
  match nnth 0 pl, nnth 1 pl, nsub pl 2 (nlen pl) with
  | Some p0, Some p1, Some rest =>
      let size := p0 * 256 + p1 in
      if (size =? 0) || (nlen rest <? size) then Some false else
      match nsub rest 0 size, nsub rest size (nlen rest) with
      | Some nalu, Some rest' =>
          match nnth 0 nalu with
          | None => None
          | Some n0 =>
              if is_key (N.land (N.shiftr n0 1) 63) then Some true else
              if nlen rest' =? 0 then Some false else
              if nlen rest' <? 2 then Some false else
              match fuel with
              | [] => None
              | _ :: fuel' => pts_ap fuel' rest'
              end
          end
      | _, _ => None
      end
  | _, _, _ => None
  end.

Definition pts_equals_dts (payload : bytes) : option bool :=
  match payload with
  | [] => Some false
  | b0 :: _ =>
      let typ := N.land (N.shiftr b0 1) 63 in
      if is_key typ then Some true
      else if typ =? t_ap then
        if nlen payload <? 4 then Some false else
        match nsub payload 2 (nlen payload) with
        | Some pl => pts_ap pl pl
        | None => None
        end
      else if typ =? t_fu then
        if nlen payload <? 3 then Some false else
        match nnth 2 payload with
        | None => None
        | Some b2 => if negb (N.shiftr b2 7 =? 1) then Some false else Some (is_key (N.land b2 63))
        end
      else Some false
  end.

(* ================= wire ================= *)
Definition put_res (r : dres (list bytes)) : list N :=
  match r with
  | DFrame f => 1 :: putls f
  | DMore => [0]
  | DErr => [2]
  | DPanic => [77]
  end.

Fixpoint get_frames (fuel : list N) (k : N) (l : list N) : option (list (list bytes)) :=
  if k =? 0 then Some [] else
  match fuel with
  | [] => None
  | _ :: fuel' =>
    match getls l with
    | None => None
    | Some (f, r) => option_map (cons f) (get_frames fuel' (N.pred k) r)
    end
  end.

(* case 1: param max seq nframes {nunits {len bytes}} -> all packets of all frames (put_pkts);
           78 if a call returns an error, 77 if it panics
   case 2: param npackets {pkt}                      -> per packet result; retained bytes, slices
   case 3: param len bytes                           -> PTSEqualsDTS: 0 | 1 | 77
   case 4: param max seq nunits {len bytes}          -> one Encode call: status (0 ok | 78 | 77),
           the encoder's next sequence number, then the packets if ok *)
Definition run (c : list N) : list N :=
  match c with
  | 1 :: _ :: max :: seq :: k :: t =>
      match get_frames c k t with
      | Some frames =>
          if max <? 4 then bad_case else
          match enc_many max seq frames with
          | Some pss => put_pkts (concat pss)
          | None => [78]
          end
      | None => bad_case
      end
  | 2 :: _ :: t =>
      match get_pkts t with
      | Some (ps, _) =>
          let '(d, rs) := dec_run dinit ps in
          concat (map put_res rs) ++ [fst (retained d); snd (retained d)]
      | None => bad_case
      end
  | 3 :: _ :: t =>
      match getl t with
      | Some (pl, _) =>
          match pts_equals_dts pl with
          | Some b => [putb b]
          | None => [77]
          end
      | None => bad_case
      end
  | 4 :: _ :: max :: seq :: t =>
      match getls t with
      | Some (au, _) =>
          if max <? 4 then bad_case else
          match enc max seq au with
          | (Some ps, _, seq') => 0 :: seq' :: put_pkts ps
          | (None, SPanic, seq') => [77; seq']
          | (None, _, seq') => [78; seq']
          end
      | None => bad_case
      end
  | _ => bad_case
  end.

(* C17: MIKEY <-> SRTP context conversion, admission rules, client choice, redirects. *)
From Coq Require Import ZifyBool ZifyNat ZifyN.
From GVL Require Import NList.
From GVG Require Import Consts.
From GV_secure Require Import Model ProofsRoc.
Open Scope N_scope.

Ltac Zify.zify_post_hook ::= Z.div_mod_to_equations.

(* ------------------------------------------------------------------------------------------ *)
(* the per-SSRC map                                                                             *)
(* ------------------------------------------------------------------------------------------ *)

Lemma sm_get_set_same m k v : sm_get (sm_set m k v) k = Some v.
Proof.
  induction m as [|[k0 v0] t IH]; cbn [sm_set sm_get].
  - rewrite N.eqb_refl. reflexivity.
  - destruct (k0 =? k) eqn:E; cbn [sm_get]; rewrite E; [reflexivity|exact IH].
Qed.

Lemma sm_get_set_other m k k' v : k <> k' -> sm_get (sm_set m k v) k' = sm_get m k'.
Proof.
  intros Hne. induction m as [|[k0 v0] t IH]; cbn [sm_set sm_get].
  - destruct (k =? k') eqn:E; [apply N.eqb_eq in E; congruence|reflexivity].
  - destruct (k0 =? k) eqn:E; cbn [sm_get].
    + apply N.eqb_eq in E. subst k0.
      destruct (k =? k') eqn:E2; [apply N.eqb_eq in E2; congruence|reflexivity].
    + destruct (k0 =? k'); [reflexivity|exact IH].
Qed.

Lemma ndrop_cons_nnth {A} (l : list A) i x t :
  ndrop i l = x :: t -> nnth i l = Some x /\ ndrop (i + 1) l = t.
Proof.
  revert i. induction l as [|y l IH]; intros i H; [discriminate|].
  cbn [ndrop nnth] in *.
  destruct (i =? 0) eqn:E.
  - apply N.eqb_eq in E. subst i. injection H as -> ->.
    split; [reflexivity|]. cbn [ndrop]. replace (0 + 1 =? 0) with false by reflexivity.
    replace (N.pred (0 + 1)) with 0 by reflexivity. apply ndrop_0.
  - destruct (IH (N.pred i) H) as (H1 & H2). split; [exact H1|].
    cbn [ndrop]. replace (i + 1 =? 0) with false by lia.
    replace (N.pred (i + 1)) with (N.pred i + 1) by lia. exact H2.
Qed.

(* SetROC over the (ssrc_i, f ssrc_i) pairs: every listed SSRC ends with the state keyed by f *)
Lemma set_rocs_map (f : N -> N) all : forall suffix i m,
  ndrop i all = suffix ->
  exists m', set_rocs all i (map f suffix) m = Some m' /\
    (forall s, In s suffix -> sm_get m' s = Some (fresh_state (f s))) /\
    (forall s, ~ In s suffix -> sm_get m' s = sm_get m s).
Proof.
  induction suffix as [|x t IH]; intros i m Hd.
  - exists m. cbn. split; [reflexivity|]. split; [intros s []|reflexivity].
  - destruct (ndrop_cons_nnth all i x t Hd) as (Hn & Hd').
    cbn [map set_rocs]. rewrite Hn.
    destruct (IH (i + 1) (sm_set m x (fresh_state (f x))) Hd') as (m' & E & Hin & Hout).
    exists m'. split; [exact E|]. split.
    + intros s [->|Hs].
      * destruct (in_dec N.eq_dec s t) as [Hi|Hni]; [apply Hin; exact Hi|].
        rewrite (Hout s Hni). apply sm_get_set_same.
      * apply Hin. exact Hs.
    + intros s Hns. rewrite Hout by (intros H; apply Hns; right; exact H).
      apply sm_get_set_other. intros ->. apply Hns. left. reflexivity.
Qed.

Lemma roc_of_lt c s : roc_of c s < two32.
Proof.
  unfold roc_of. destruct (sm_get (c_states c) s); [|reflexivity].
  apply N.mod_lt. discriminate.
Qed.

Lemma roc_of_fresh c s r : r < two32 -> sm_get (c_states c) s = Some (fresh_state r) -> roc_of c s = r.
Proof.
  intros Hr E. unfold roc_of. rewrite E. unfold fresh_state. cbn [ss_index].
  unfold two16, two32 in *. rewrite N.div_mul by lia. apply N.mod_small. exact Hr.
Qed.

(* ------------------------------------------------------------------------------------------ *)
(* mikey_ctx_roundtrip                                                                          *)
(* ------------------------------------------------------------------------------------------ *)

Lemma key_length_value : sec_key_length = 30.
Proof. reflexivity. Qed.

(* For EVERY context whose key has the configured length (all contexts the library builds), every
   MKI (present or not), every SSRC list (any length, duplicates included), every state of the
   roll-over counters, and every clock value within one hour: the receiving side accepts the message
   and rebuilds the same key, MKI, SSRC list, and for every listed SSRC the sender's current
   roll-over counter (as a freshly keyed state). *)
Theorem mikey_ctx_roundtrip : forall c e now,
  nlen (c_key c) = sec_key_length ->
  time_ok now (e_ts e) = true ->
  exists c', of_mikey now (to_mikey c e) = MOk c' /\
    c_key c' = c_key c /\ c_mki c' = c_mki c /\ c_ssrcs c' = c_ssrcs c /\
    c_start c' = map (roc_of c) (c_ssrcs c) /\
    (forall s, In s (c_ssrcs c) ->
       sm_get (c_states c') s = Some (fresh_state (roc_of c s)) /\ roc_of c' s = roc_of c s).
Proof.
  intros c e now Hk Ht.
  unfold of_mikey, to_mikey. cbn [mk_payloads find_t mk_ids].
  rewrite Ht. cbn [negb find_sp].
  replace (bytes1 _ 1) with true by reflexivity. cbn [negb].
  replace (bytes1 _ 16) with true by reflexivity. cbn [negb].
  replace (bytes1 _ 1) with true by reflexivity. cbn [negb].
  replace (bytes1 _ 1) with true by reflexivity. cbn [negb].
  replace (bytes1 _ 1) with true by reflexivity. cbn [negb].
  replace (bytes1 _ 1) with true by reflexivity. cbn [negb].
  cbn [find_kemac kd_key kd_spi]. rewrite Hk, N.eqb_refl. cbn [negb].
  rewrite !map_map. cbn [id_ssrc id_roc]. rewrite map_id.
  unfold initialize. rewrite Hk.
  replace (sec_key_length <? 16) with false by reflexivity.
  rewrite N.eqb_refl. cbn [negb].
  destruct (set_rocs_map (roc_of c) (c_ssrcs c) (c_ssrcs c) 0 [] (ndrop_0 _)) as (m' & E & Hin & _).
  change (fun x : N => roc_of c x) with (roc_of c).
  rewrite E. eexists. split; [reflexivity|]. cbn [c_key c_mki c_ssrcs c_start c_states].
  repeat split; try reflexivity.
  - apply Hin. exact H.
  - apply roc_of_fresh; [apply roc_of_lt|]. cbn [c_states]. apply Hin. exact H.
Qed.

(* the clock condition is satisfiable and is exactly "within one hour" *)
Lemma time_ok_spec now v :
  time_ok now v = true <-> (- hour_ns <= now - ts_unix_ns v <= hour_ns)%Z.
Proof. unfold time_ok. lia. Qed.

(* ------------------------------------------------------------------------------------------ *)
(* policy soundness of mikeyToContext                                                           *)
(* ------------------------------------------------------------------------------------------ *)

Theorem of_mikey_sound : forall now m c,
  of_mikey now m = MOk c ->
  exists ts ps k,
    find_t (mk_payloads m) = Some ts /\ time_ok now ts = true /\
    find_sp (mk_payloads m) = Some ps /\
    find_policy ps sec_sp_encr_alg = Some [1] /\
    find_policy ps sec_sp_encr_key_len = Some [16] /\
    find_policy ps sec_sp_auth_alg = Some [1] /\
    find_policy ps sec_sp_srtp_encr = Some [1] /\
    find_policy ps sec_sp_srtcp_encr = Some [1] /\
    find_policy ps sec_sp_srtp_auth = Some [1] /\
    find_kemac (mk_payloads m) = Some [k] /\
    nlen (kd_key k) = sec_key_length /\
    c_key c = kd_key k /\ c_mki c = kd_spi k /\
    c_ssrcs c = map id_ssrc (mk_ids m) /\ c_start c = map id_roc (mk_ids m).
Proof.
  intros now m c H. unfold of_mikey in H.
  destruct (find_t (mk_payloads m)) as [ts|] eqn:Et; [|discriminate].
  destruct (time_ok now ts) eqn:Eok; cbn [negb] in H; [|discriminate].
  destruct (find_sp (mk_payloads m)) as [ps|] eqn:Es; [|discriminate].
  assert (B1 : forall v x, bytes1 v x = true -> v = Some [x]).
  { intros v x Hb. unfold bytes1 in Hb. destruct v as [[|y [|]]|]; try discriminate.
    apply N.eqb_eq in Hb. subst. reflexivity. }
  destruct (bytes1 (find_policy ps sec_sp_encr_alg) 1) eqn:P1; cbn [negb] in H; [|discriminate].
  destruct (bytes1 (find_policy ps sec_sp_encr_key_len) 16) eqn:P2; cbn [negb] in H; [|discriminate].
  destruct (bytes1 (find_policy ps sec_sp_auth_alg) 1) eqn:P3; cbn [negb] in H; [|discriminate].
  destruct (bytes1 (find_policy ps sec_sp_srtp_encr) 1) eqn:P4; cbn [negb] in H; [|discriminate].
  destruct (bytes1 (find_policy ps sec_sp_srtcp_encr) 1) eqn:P5; cbn [negb] in H; [|discriminate].
  destruct (bytes1 (find_policy ps sec_sp_srtp_auth) 1) eqn:P6; cbn [negb] in H; [|discriminate].
  destruct (find_kemac (mk_payloads m)) as [ks|] eqn:Ek; [|discriminate].
  destruct ks as [|k [|k2 ks]]; try discriminate.
  destruct (nlen (kd_key k) =? sec_key_length) eqn:El; cbn [negb] in H; [|discriminate].
  apply N.eqb_eq in El.
  unfold initialize in H. rewrite El in H.
  replace (sec_key_length <? 16) with false in H by reflexivity.
  rewrite N.eqb_refl in H. cbn [negb] in H.
  destruct (set_rocs _ 0 _ []) as [m'|] eqn:Er; [|discriminate].
  injection H as <-.
  exists ts, ps, k. cbn [c_key c_mki c_ssrcs c_start].
  repeat split; auto.
Qed.

(* a key of any other length, a second key, or a missing/unsupported mandatory policy is refused *)
Theorem of_mikey_refuses_bad_key : forall now m k,
  find_kemac (mk_payloads m) = Some [k] -> nlen (kd_key k) <> sec_key_length ->
  forall c, of_mikey now m <> MOk c.
Proof.
  intros now m k Hk Hl c H. destruct (of_mikey_sound now m c H) as (ts & ps & k' & T).
  destruct T as (_ & _ & _ & _ & _ & _ & _ & _ & _ & Hk' & Hl' & _).
  rewrite Hk in Hk'. injection Hk' as ->. contradiction.
Qed.

Theorem of_mikey_refuses_many_keys : forall now m k1 k2 ks,
  find_kemac (mk_payloads m) = Some (k1 :: k2 :: ks) -> forall c, of_mikey now m <> MOk c.
Proof.
  intros now m k1 k2 ks Hk c H. destruct (of_mikey_sound now m c H) as (ts & ps & k' & T).
  destruct T as (_ & _ & _ & _ & _ & _ & _ & _ & _ & Hk' & _).
  rewrite Hk in Hk'. discriminate.
Qed.

(* ------------------------------------------------------------------------------------------ *)
(* key exchange + roll-over counters: the receiver built from the message follows the sender      *)
(* ------------------------------------------------------------------------------------------ *)

Definition recv_ctx_run (c : ctx) (ssrc : N) (l : list N) : list bool :=
  snd (recv_run (get_state c ssrc) l).

(* The sender has protected packets up to extended index h for SSRC s (or was just keyed with ROC
   idx_roc h).  The message it produces now lets the receiver accept every later delivery sequence
   that starts in the same ROC and is displaced by less than 2^15 -- for every key, SSRC list, MKI
   and counter value. *)
Theorem key_exchange_sync : forall a e now s h i0 rest,
  nlen (c_key a) = sec_key_length -> time_ok now (e_ts e) = true ->
  In s (c_ssrcs a) ->
  get_state a s = mkSS h true -> h < two48 ->
  idx_roc i0 = idx_roc h -> i0 < two48 -> bounded_disp i0 rest ->
  exists b, of_mikey now (to_mikey a e) = MOk b /\
    c_key b = c_key a /\ c_mki b = c_mki a /\
    recv_ctx_run b s (i0 :: rest) = map (fun _ => true) (i0 :: rest).
Proof.
  intros a e now s h i0 rest Hk Ht Hin Hst Hh Hroc Hi0 Hb.
  destruct (mikey_ctx_roundtrip a e now Hk Ht) as (b & E & K & M & _ & _ & Hs).
  exists b. split; [exact E|]. split; [exact K|]. split; [exact M|].
  destruct (Hs s Hin) as (Hg & _).
  unfold recv_ctx_run, get_state. rewrite Hg.
  assert (Hr : roc_of a s = idx_roc h).
  { unfold roc_of. unfold get_state in Hst.
    destruct (sm_get (c_states a) s) as [st|]; [|discriminate].
    subst st. cbn [ss_index]. unfold idx_roc, two16, two32, two48 in *.
    apply N.mod_small. lia. }
  rewrite Hr.
  destruct (recv_in_sync (idx_roc h) i0 rest Hroc Hi0 Hb) as (h' & Er).
  rewrite Er. reflexivity.
Qed.

(* ------------------------------------------------------------------------------------------ *)
(* admission                                                                                    *)
(* ------------------------------------------------------------------------------------------ *)

Theorem admission_rules : forall sc tr,
  is_transport_supported sc tr = true ->
  (t_secure tr = true -> sc_tls sc = true) /\
  (t_proto tr = TUdp -> sc_tls sc = true -> t_secure tr = true) /\
  (sc_tunnel sc = true -> t_proto tr <> TUdp) /\
  (t_proto tr = TUdp -> is_mc (t_deliv tr) = false -> sc_udp sc = true) /\
  (t_proto tr = TUdp -> is_mc (t_deliv tr) = true -> sc_mc sc = true).
Proof.
  intros [u mc tls tun] [p d s] H. unfold is_transport_supported in H. cbn in *.
  destruct p, d, s, u, mc, tls, tun; cbn in H; try discriminate; repeat split; intros; try discriminate; try reflexivity; congruence.
Qed.

(* and nothing else is refused: the five rules are the whole decision *)
Theorem admission_complete : forall sc tr,
  (t_secure tr = true -> sc_tls sc = true) ->
  (t_proto tr = TUdp -> sc_tls sc = true -> t_secure tr = true) ->
  (sc_tunnel sc = true -> t_proto tr <> TUdp) ->
  (t_proto tr = TUdp -> is_mc (t_deliv tr) = false -> sc_udp sc = true) ->
  (t_proto tr = TUdp -> is_mc (t_deliv tr) = true -> sc_mc sc = true) ->
  is_transport_supported sc tr = true.
Proof.
  intros [u mc tls tun] [p d s] H1 H2 H3 H4 H5. unfold is_transport_supported. cbn in *.
  destruct p, d, s, u, mc, tls, tun; cbn; try reflexivity;
    try (specialize (H1 eq_refl); discriminate);
    try (specialize (H2 eq_refl eq_refl); discriminate);
    try (exfalso; apply (H3 eq_refl); reflexivity);
    try (specialize (H4 eq_refl eq_refl); discriminate);
    try (specialize (H5 eq_refl eq_refl); discriminate).
Qed.

Theorem pick_first_sound : forall sc l i tr,
  pick_first sc l = Some (i, tr) ->
  nnth i l = Some tr /\ is_transport_supported sc tr = true /\
  (forall j x, j < i -> nnth j l = Some x -> is_transport_supported sc x = false).
Proof.
  intros sc l. induction l as [|y t IH]; intros i tr H; [discriminate|].
  cbn [pick_first] in H. destruct (is_transport_supported sc y) eqn:E.
  - injection H as <- <-. split; [reflexivity|]. split; [exact E|]. intros j x Hj. lia.
  - destruct (pick_first sc t) as [[i' x']|] eqn:Ep; [|discriminate].
    injection H as <- <-. destruct (IH i' x' eq_refl) as (Hn & Hs & Hb).
    split.
    { cbn [nnth]. replace (i' + 1 =? 0) with false by lia.
      replace (N.pred (i' + 1)) with i' by lia. exact Hn. }
    split; [exact Hs|].
    intros j x Hj Hx. cbn [nnth] in Hx. destruct (j =? 0) eqn:Ej.
    + injection Hx as <-. exact E.
    + apply (Hb (N.pred j) x); [lia|exact Hx].
Qed.

Theorem pick_first_none : forall sc l,
  pick_first sc l = None <-> (forall tr, In tr l -> is_transport_supported sc tr = false).
Proof.
  intros sc l. induction l as [|y t IH]; cbn [pick_first].
  - split; [intros _ tr []|reflexivity].
  - destruct (is_transport_supported sc y) eqn:E.
    + split; [discriminate|]. intros H. specialize (H y (or_introl eq_refl)). congruence.
    + destruct (pick_first sc t) as [[i x]|] eqn:Ep.
      * split; [discriminate|]. intros H.
        assert (Hn : Some (i, x) = None); [|discriminate].
        apply IH. intros tr Htr. apply H. right. exact Htr.
      * split; [|reflexivity]. intros _ tr [<-|Htr]; [exact E|].
        apply (proj1 IH eq_refl). exact Htr.
Qed.

(* ------------------------------------------------------------------------------------------ *)
(* client choice                                                                                *)
(* ------------------------------------------------------------------------------------------ *)

Definition is_udp (p : cproto) : bool := match p with CTcp => false | _ => true end.

(* what the client asks for in its first SETUP never violates the two secrecy rules *)
Theorem client_choice_safe : forall cl ms h pl p sec,
  client_choice cl None ms h pl = COk p sec ->
  sec = (cl_rtsps cl && ms)%bool /\
  (sec = true -> cl_rtsps cl = true) /\
  (is_udp p = true -> cl_rtsps cl = true -> sec = true).
Proof.
  intros [rtsps up tun] ms h pl p sec H. unfold client_choice in H. cbn in *.
  destruct up as [[]|], rtsps, ms, h, pl, tun; cbn in H; try discriminate;
    injection H as <- <-; repeat split; intros; try reflexivity; try discriminate.
Qed.

(* the same for every request of a whole SETUP exchange (including the automatic switch to TCP) *)
Theorem client_session_safe : forall cl ms h pl reqs e,
  client_session cl ms h pl = (reqs, e) ->
  Forall (fun r => (snd r = true -> cl_rtsps cl = true) /\
                   (is_udp (fst r) = true -> cl_rtsps cl = true -> snd r = true)) reqs.
Proof.
  intros [rtsps up tun] ms h pl reqs e H. unfold client_session, client_choice in H. cbn in *.
  destruct up as [[]|], rtsps, ms, h, pl, tun; cbn in H; injection H as <- <-;
    repeat constructor; cbn; intros; try reflexivity; try discriminate.
Qed.

(* a server on the same scheme never has to refuse the client's request for a secrecy reason *)
Theorem client_request_passes_secrecy_rules : forall cl ms h pl p sec sc d,
  client_choice cl None ms h pl = COk p sec -> sc_tls sc = cl_rtsps cl ->
  let tr := mkTr (if is_udp p then TUdp else TTcp) d sec in
  (t_secure tr && negb (sc_tls sc) = false)%bool /\
  ((match t_proto tr with TUdp => true | TTcp => false end) && negb (t_secure tr) && sc_tls sc = false)%bool.
Proof.
  intros cl ms h pl p sec sc d H Htls tr.
  destruct (client_choice_safe cl ms h pl p sec H) as (_ & H1 & H2).
  subst tr. cbn [t_secure t_proto]. rewrite Htls.
  destruct sec, (cl_rtsps cl), (is_udp p) eqn:Eu; cbn; split; try reflexivity.
  - specialize (H1 eq_refl). discriminate.
  - specialize (H1 eq_refl). discriminate.
  - specialize (H2 eq_refl eq_refl). discriminate.
Qed.

Theorem response_profile_checked : forall a b, response_profile_ok a b = true -> a = b.
Proof. intros [] [] H; try reflexivity; discriminate. Qed.

(* ------------------------------------------------------------------------------------------ *)
(* redirects                                                                                    *)
(* ------------------------------------------------------------------------------------------ *)

Theorem downgrade_refused : redirect_step true SRtsp = RDowngrade.
Proof. reflexivity. Qed.

(* starting on rtsps, every connection made while following ANY chain of redirects is rtsps *)
Lemma no_scheme_downgrade_n : forall chain n l e,
  follow_n n true chain = (l, e) -> Forall (fun b => b = true) l.
Proof.
  induction chain as [|t rest IH]; intros n l e H.
  - cbn in H. injection H as <- _. repeat constructor.
  - cbn [follow_n] in H. destruct (sec_max_redirects <=? n).
    { injection H as <- _. repeat constructor. }
    destruct t; cbn [redirect_step] in H.
    + injection H as <- _. repeat constructor.
    + destruct (follow_n (n + 1) true rest) as [l' e'] eqn:E. injection H as <- _.
      constructor; [reflexivity|]. apply (IH (n + 1) l' e'). exact E.
    + injection H as <- _. repeat constructor.
Qed.

Theorem no_scheme_downgrade : forall chain l e,
  follow true chain = (l, e) -> Forall (fun b => b = true) l.
Proof. intros chain l e H. apply (no_scheme_downgrade_n chain 0 l e H). Qed.

(* from any start: once a connection is rtsps, all later ones are *)
Lemma no_scheme_downgrade_later_n : forall chain n cur l e,
  follow_n n cur chain = (l, e) ->
  forall l1 l2, l = l1 ++ true :: l2 -> Forall (fun b => b = true) l2.
Proof.
  induction chain as [|t rest IH]; intros n cur l e H l1 l2 Hl.
  - cbn in H. injection H as <- _. destruct l1 as [|x [|y l1]]; try discriminate.
    injection Hl as _ <-. constructor.
  - cbn [follow_n] in H. destruct (sec_max_redirects <=? n).
    { injection H as <- _. destruct l1 as [|x [|y l1]]; try discriminate.
      injection Hl as _ <-. constructor. }
    destruct (redirect_step cur t) as [b| |] eqn:Es.
    + destruct (follow_n (n + 1) b rest) as [l' e'] eqn:E. injection H as <- _.
      destruct l1 as [|x l1].
      * cbn in Hl. injection Hl as -> <-.
        assert (b = true).
        { destruct t; cbn in Es; try discriminate; injection Es as <-; reflexivity. }
        subst b. apply (no_scheme_downgrade_n rest (n + 1) l' e'). exact E.
      * cbn in Hl. injection Hl as _ Hl. apply (IH (n + 1) b l' e' E l1 l2 Hl).
    + injection H as <- _. destruct l1 as [|x [|y l1]]; try discriminate.
      injection Hl as _ <-. constructor.
    + injection H as <- _. destruct l1 as [|x [|y l1]]; try discriminate.
      injection Hl as _ <-. constructor.
Qed.

Theorem no_scheme_downgrade_later : forall chain cur l e,
  follow cur chain = (l, e) ->
  forall l1 l2, l = l1 ++ true :: l2 -> Forall (fun b => b = true) l2.
Proof. intros chain cur l e H. apply (no_scheme_downgrade_later_n chain 0 cur l e H). Qed.

(* a downgrade target ends the chain with the refusal class, without a further connection *)
Theorem downgrade_ends_chain : forall rest, follow true (SRtsp :: rest) = ([true], 1).
Proof. reflexivity. Qed.

(* no chain makes the client connect more than clientMaxRedirects + 1 times *)
Lemma follow_n_bounded : forall chain n l e,
  follow_n n true chain = (l, e) \/ follow_n n false chain = (l, e) ->
  n <= sec_max_redirects -> nlen l + n <= sec_max_redirects + 1.
Proof.
  assert (Hc : sec_max_redirects = 10) by reflexivity.
  induction chain as [|t rest IH]; intros n l e H Hn.
  - destruct H as [H|H]; cbn in H; injection H as <- _; cbn [nlen]; lia.
  - assert (G : forall cur, follow_n n cur (t :: rest) = (l, e) -> nlen l + n <= sec_max_redirects + 1).
    { intros cur H'. cbn [follow_n] in H'. destruct (sec_max_redirects <=? n) eqn:En.
      { injection H' as <- _. cbn [nlen]. lia. }
      destruct (redirect_step cur t) as [b| |].
      - destruct (follow_n (n + 1) b rest) as [l' e'] eqn:E. injection H' as <- _.
        assert (nlen l' + (n + 1) <= sec_max_redirects + 1).
        { apply (IH (n + 1) l' e'); [destruct b; [left|right]; exact E|lia]. }
        cbn [nlen]. lia.
      - injection H' as <- _. cbn [nlen]. lia.
      - injection H' as <- _. cbn [nlen]. lia. }
    destruct H as [H|H]; eapply G; exact H.
Qed.

Theorem redirects_bounded : forall chain cur l e,
  follow cur chain = (l, e) -> nlen l <= sec_max_redirects + 1.
Proof.
  intros chain cur l e H.
  assert (nlen l + 0 <= sec_max_redirects + 1).
  { apply (follow_n_bounded chain 0 l e); [destruct cur; [left|right]; exact H|lia]. }
  lia.
Qed.

(* ------------------------------------------------------------------------------------------ *)
(* the remote-SSRC latch (code after fix e33be43)                                               *)
(* ------------------------------------------------------------------------------------------ *)

(* anything that does not decode (altered or forged) is never delivered, latched or not *)
Theorem latch_never_delivers_undecodable : forall secure l ssrc,
  snd (filter_step secure l ssrc false) <> EDelivered.
Proof.
  intros secure [f v] ssrc. unfold filter_step. cbn [l_filled l_value].
  destruct (f && secure && negb (v =? ssrc))%bool; cbn; discriminate.
Qed.

(* ... and never changes the latch: only an authenticated packet can set the expected SSRC *)
Theorem latch_unchanged_by_undecodable : forall secure l ssrc,
  fst (filter_step secure l ssrc false) = l.
Proof.
  intros secure l ssrc. unfold filter_step.
  destruct (l_filled l && secure && negb (l_value l =? ssrc))%bool; reflexivity.
Qed.

Definition latch_inv (g : N) (l : latch) : Prop := l_filled l = true -> l_value l = g.

(* FULL statement: with an ideal cipher (what decodes is genuine, i.e. carries the sender's SSRC g)
   exactly the genuine packets are delivered, for EVERY interleaving with altered / forged packets,
   whatever arrives first, from every latch state consistent with g (in particular the empty one). *)
Theorem latch_delivers_exactly_genuine : forall secure g pkts l,
  latch_inv g l ->
  Forall (fun p => snd p = true -> fst p = g) pkts ->
  Forall2 (fun p e => e = EDelivered <-> snd p = true) pkts (filter_run secure l pkts).
Proof.
  intros secure g pkts. induction pkts as [|[s ok] t IH]; intros l Hinv Hall; [constructor|].
  inversion Hall as [|? ? Hp Ht]; subst. cbn [fst snd] in Hp.
  cbn [filter_run]. unfold filter_step.
  destruct (l_filled l) eqn:Ef; cbn [andb].
  - specialize (Hinv Ef).
    destruct ok.
    + rewrite Hinv, (Hp eq_refl), N.eqb_refl. cbn [negb]. rewrite andb_false_r.
      constructor; [split; reflexivity|]. apply IH; [intros _; exact Hinv|exact Ht].
    + destruct (secure && negb (l_value l =? s))%bool;
        (constructor; [split; discriminate|]; apply IH; [intros _; exact Hinv|exact Ht]).
  - destruct ok.
    + constructor; [split; reflexivity|]. apply IH; [|exact Ht].
      intros _. cbn. exact (Hp eq_refl).
    + constructor; [split; discriminate|]. apply IH; [|exact Ht].
      intros H. congruence.
Qed.

Lemma latch_inv_empty g : latch_inv g (mkLatch false 0).
Proof. intros H. discriminate. Qed.

(* the history that poisoned the old code is harmless now *)
Example latch_regression_example :
  filter_run true (mkLatch false 0) [(2, false); (1, true); (1, true); (2, false); (1, true)]
  = [EDecodeError; EDelivered; EDelivered; EWrongSSRC; EDelivered].
Proof. reflexivity. Qed.

(* regression lemmas about the OLD code (before e33be43), for the record: one undecodable packet with
   another SSRC arriving first made the receiver refuse every genuine packet, for good *)
Lemma latch_old_poisoned :
  filter_run_old true (mkLatch false 0) [(2, false); (1, true); (1, true); (1, true)]
  = [EDecodeError; EWrongSSRC; EWrongSSRC; EWrongSSRC].
Proof. reflexivity. Qed.

Lemma latch_old_poison_permanent : forall v g pkts,
  v <> g -> Forall (fun p => p = (g, true)) pkts ->
  filter_run_old true (mkLatch true v) pkts = map (fun _ => EWrongSSRC) pkts.
Proof.
  intros v g pkts Hne Hall. induction Hall as [|p t Hp _ IH]; [reflexivity|].
  rewrite Hp. cbn [filter_run_old map]. unfold filter_step_old. cbn [l_filled l_value negb andb].
  destruct (v =? g) eqn:E; [apply N.eqb_eq in E; congruence|]. cbn [negb]. rewrite IH. reflexivity.
Qed.

(* Roll-over counter tracking (pion/srtp nextRolloverCount / updateRolloverCount as modelled in
   Model.v): the guessed ROC of a packet equals its true ROC whenever the packet's extended index
   is displaced by less than 2^15 from the highest index seen, for sender and receiver alike. *)
From Coq Require Import ZifyBool ZifyNat ZifyN.
From GVL Require Import NList.
From GVG Require Import Consts.
From GV_secure Require Import Model.
Open Scope N_scope.

Ltac Zify.zify_post_hook ::= Z.div_mod_to_equations.

Definition two48 : N := 281474976710656.

(* extended index -> what the packet carries / is protected with *)
Definition idx_seq (i : N) : N := i mod two16.
Definition idx_roc (i : N) : N := i / two16.

Lemma consts_values : sec_seq_median = 32768 /\ sec_seq_max = 65536 /\ sec_max_roc = 4294967295.
Proof. repeat split; reflexivity. Qed.

(* N.lor of a multiple of 2^16 with a 16-bit value is their sum *)
Lemma lor_shift16 r q : q < two16 -> N.lor (r * two16) q = r * two16 + q.
Proof.
  intros Hq.
  assert (Hland : N.land (r * two16) q = 0).
  { apply N.bits_inj_0. intros n.
    rewrite N.land_spec.
    destruct (N.lt_ge_cases n 16) as [Hn|Hn].
    - replace two16 with (2 ^ 16) by reflexivity.
      rewrite N.mul_pow2_bits_low by exact Hn. reflexivity.
    - assert (Hb : N.testbit q n = false).
      { destruct (N.eq_dec q 0) as [->|Hq0]; [apply N.bits_0|].
        apply N.bits_above_log2.
        assert (N.log2 q < 16).
        { apply N.log2_lt_pow2; [lia|]. exact Hq. }
        lia. }
      rewrite Hb. apply andb_false_r. }
  rewrite <- N.lxor_lor by exact Hland.
  symmetry. apply N.add_nocarry_lxor. exact Hland.
Qed.

(* ---- a processed state whose index is h ---- *)

Lemma next_roc_processed h i :
  h < two48 -> i < two48 ->
  (Z.of_N i - Z.of_N h < 32768)%Z -> (Z.of_N h - Z.of_N i < 32768)%Z ->
  next_roc (mkSS h true) (idx_seq i) = (idx_roc i, (Z.of_N i - Z.of_N h)%Z, false).
Proof.
  intros Hh Hi Hd1 Hd2.
  unfold next_roc, idx_seq, idx_roc. cbn [ss_index ss_proc].
  destruct consts_values as (Em & Ex & Er). rewrite Em, Ex, Er.
  unfold two16, two32, two48 in *.
  assert (Hlr : (h / 65536) mod 4294967296 = h / 65536) by (apply N.mod_small; lia).
  rewrite Hlr.
  destruct (32768 <? h) eqn:E1.
  - destruct (h mod 65536 <? 32768) eqn:E2.
    + destruct (Z.of_N 32768 <? Z.of_N (i mod 65536) - Z.of_N (h mod 65536))%Z eqn:E3.
      * assert (Hg : (h / 65536 + 4294967296 - 1) mod 4294967296 = i / 65536).
        { assert (1 <= h / 65536) by lia.
          replace (h / 65536 + 4294967296 - 1) with ((h / 65536 - 1) + 1 * 4294967296) by lia.
          rewrite N.mod_add by lia. rewrite N.mod_small by lia. lia. }
        rewrite Hg.
        assert (Hf : ((i / 65536 =? 0) && (h / 65536 =? 4294967295)) = false) by lia.
        rewrite Hf. f_equal. f_equal. lia.
      * assert (Hf : ((h / 65536 =? 0) && (h / 65536 =? 4294967295)) = false) by lia.
        rewrite Hf.
        assert (h / 65536 = i / 65536) by lia.
        f_equal. f_equal; lia.
    + destruct (Z.of_N (i mod 65536) <? Z.of_N (h mod 65536) - Z.of_N 32768)%Z eqn:E3.
      * assert (Hg : (h / 65536 + 1) mod 4294967296 = i / 65536).
        { rewrite N.mod_small by lia. lia. }
        rewrite Hg.
        assert (Hf : ((i / 65536 =? 0) && (h / 65536 =? 4294967295)) = false) by lia.
        rewrite Hf. f_equal. f_equal. lia.
      * assert (Hf : ((h / 65536 =? 0) && (h / 65536 =? 4294967295)) = false) by lia.
        rewrite Hf.
        assert (h / 65536 = i / 65536) by lia.
        f_equal. f_equal; lia.
  - assert (Hf : ((h / 65536 =? 0) && (h / 65536 =? 4294967295)) = false) by lia.
    rewrite Hf.
    assert (h / 65536 = i / 65536) by lia.
    f_equal. f_equal; lia.
Qed.

Lemma update_roc_processed h i :
  update_roc (mkSS h true) (idx_seq i) (Z.of_N i - Z.of_N h) = mkSS (N.max h i) true.
Proof.
  unfold update_roc. cbn [ss_proc ss_index negb].
  destruct (0 <? Z.of_N i - Z.of_N h)%Z eqn:E.
  - f_equal. lia.
  - f_equal. lia.
Qed.

(* ---- a state just keyed with SetROC r ---- *)

Lemma next_roc_fresh r q :
  r < two32 -> next_roc (fresh_state r) q = (r, 0%Z, false).
Proof.
  intros Hr. unfold next_roc, fresh_state. cbn [ss_index ss_proc].
  unfold two16, two32 in *.
  rewrite N.div_mul by lia. rewrite N.mod_small by lia.
  assert (Hf : ((r =? 0) && (r =? sec_max_roc)) = false).
  { destruct consts_values as (_ & _ & Er). rewrite Er. lia. }
  rewrite Hf. reflexivity.
Qed.

Lemma update_roc_fresh r i :
  idx_roc i = r -> update_roc (fresh_state r) (idx_seq i) 0 = mkSS i true.
Proof.
  intros Hr. unfold update_roc, fresh_state. cbn [ss_proc ss_index negb].
  rewrite lor_shift16.
  - f_equal. unfold idx_roc, idx_seq, two16 in *. lia.
  - unfold idx_seq, two16. lia.
Qed.

(* ---- runs over lists of extended indices ---- *)

(* the receiver is handed the packets with these extended indices, in this order *)
Fixpoint recv_run (s : sstate) (l : list N) : sstate * list bool :=
  match l with
  | [] => (s, [])
  | i :: t =>
    let '(s', ok) := st_recv s (idx_seq i) (idx_roc i) in
    let '(s'', oks) := recv_run s' t in (s'', ok :: oks)
  end.

(* the sender protects packets with these extended indices (it only sees their sequence numbers) *)
Fixpoint send_run (s : sstate) (l : list N) : option (sstate * list N) :=
  match l with
  | [] => Some (s, [])
  | i :: t =>
    match st_send s (idx_seq i) with
    | None => None
    | Some (s', roc) =>
      match send_run s' t with
      | None => None
      | Some (s'', rocs) => Some (s'', roc :: rocs)
      end
    end
  end.

(* every index is displaced by less than 2^15 from the highest one before it *)
Fixpoint bounded_disp (h : N) (l : list N) : Prop :=
  match l with
  | [] => True
  | i :: t =>
    i < two48 /\ (Z.of_N i - Z.of_N h < 32768)%Z /\ (Z.of_N h - Z.of_N i < 32768)%Z /\
    bounded_disp (N.max h i) t
  end.

Lemma bounded_disp_max h l : h < two48 -> bounded_disp h l ->
  forall i, In i l -> i < two48.
Proof.
  revert h. induction l as [|x t IH]; intros h Hh Hb i Hin; [destruct Hin|].
  destruct Hb as (Hx & _ & _ & Hb). destruct Hin as [->|Hin]; [exact Hx|].
  apply (IH (N.max h x)); [lia|exact Hb|exact Hin].
Qed.

Lemma recv_run_processed h l :
  h < two48 -> bounded_disp h l ->
  exists h', recv_run (mkSS h true) l = (mkSS h' true, map (fun _ => true) l) /\ h <= h' /\ h' < two48.
Proof.
  revert h. induction l as [|i t IH]; intros h Hh Hb.
  - exists h. cbn. split; [reflexivity|lia].
  - destruct Hb as (Hi & Hd1 & Hd2 & Hb).
    cbn [recv_run map]. unfold st_recv.
    rewrite (next_roc_processed h i Hh Hi Hd1 Hd2).
    rewrite N.eqb_refl. rewrite update_roc_processed.
    destruct (IH (N.max h i)) as (h' & E & Hle & Hlt); [lia|exact Hb|].
    rewrite E. exists h'. split; [reflexivity|lia].
Qed.

Lemma send_run_processed h l :
  h < two48 -> bounded_disp h l ->
  exists h', send_run (mkSS h true) l = Some (mkSS h' true, map idx_roc l) /\ h <= h' /\ h' < two48.
Proof.
  revert h. induction l as [|i t IH]; intros h Hh Hb.
  - exists h. cbn. split; [reflexivity|lia].
  - destruct Hb as (Hi & Hd1 & Hd2 & Hb).
    cbn [send_run map]. unfold st_send.
    rewrite (next_roc_processed h i Hh Hi Hd1 Hd2).
    rewrite update_roc_processed.
    destruct (IH (N.max h i)) as (h' & E & Hle & Hlt); [lia|exact Hb|].
    rewrite E. exists h'. split; [reflexivity|lia].
Qed.

(* MAIN 1: a receiver keyed with ROC r (SetROC r, as mikeyToContext does) accepts every packet of a
   delivery sequence whose first packet is in ROC r and in which every later packet is displaced by
   less than 2^15 from the highest index delivered before: loss, duplication and bounded reordering
   included, across any number of sequence-number wraps. *)
Theorem recv_in_sync : forall r i0 rest,
  idx_roc i0 = r -> i0 < two48 -> bounded_disp i0 rest ->
  exists h', recv_run (fresh_state r) (i0 :: rest) = (mkSS h' true, map (fun _ => true) (i0 :: rest)).
Proof.
  intros r i0 rest Hr Hi0 Hb.
  assert (Hr32 : r < two32).
  { subst r. unfold idx_roc, two16, two32, two48 in *. lia. }
  subst r. cbn [recv_run map]. unfold st_recv.
  rewrite (next_roc_fresh _ _ Hr32). rewrite N.eqb_refl.
  rewrite (update_roc_fresh (idx_roc i0) i0 eq_refl).
  destruct (recv_run_processed i0 rest Hi0 Hb) as (h' & E & _ & _).
  rewrite E. exists h'. reflexivity.
Qed.

(* MAIN 2: a sender keyed with ROC r whose first packet is in ROC r and whose following packets move
   by less than 2^15 protects every packet with its true ROC: the counter advances exactly when the
   sequence number wraps. *)
Theorem send_uses_true_roc : forall r i0 rest,
  idx_roc i0 = r -> i0 < two48 -> bounded_disp i0 rest ->
  exists h', send_run (fresh_state r) (i0 :: rest) = Some (mkSS h' true, map idx_roc (i0 :: rest)).
Proof.
  intros r i0 rest Hr Hi0 Hb.
  assert (Hr32 : r < two32).
  { subst r. unfold idx_roc, two16, two32, two48 in *. lia. }
  subst r. cbn [send_run map]. unfold st_send.
  rewrite (next_roc_fresh _ _ Hr32).
  rewrite (update_roc_fresh (idx_roc i0) i0 eq_refl).
  destruct (send_run_processed i0 rest Hi0 Hb) as (h' & E & _ & _).
  rewrite E. exists h'. reflexivity.
Qed.

(* in-order sending: i0, i0+1, ..., i0+n *)
Fixpoint consecutive (i : N) (n : nat) : list N :=
  match n with O => [] | S n' => i :: consecutive (i + 1) n' end.

Lemma consecutive_bounded i n :
  i + N.of_nat n < two48 -> bounded_disp i (consecutive (i + 1) n).
Proof.
  revert i. induction n as [|n IH]; intros i Hb; [exact I|].
  cbn [consecutive bounded_disp].
  repeat split; try lia.
  replace (N.max i (i + 1)) with (i + 1) by lia.
  apply IH. lia.
Qed.

Theorem send_in_order_rocs : forall i0 n,
  i0 + N.of_nat n < two48 ->
  exists h', send_run (fresh_state (idx_roc i0)) (consecutive i0 (S n))
             = Some (mkSS h' true, map idx_roc (consecutive i0 (S n))).
Proof.
  intros i0 n Hb. cbn [consecutive].
  apply send_uses_true_roc; [reflexivity|lia|].
  apply consecutive_bounded. exact Hb.
Qed.

(* the state after sending i0 .. i0+n in order: ROC() = idx_roc (i0+n), what contextToMikey reports *)
Lemma send_run_processed_last h l :
  h < two48 -> bounded_disp h l ->
  forall s rocs, send_run (mkSS h true) l = Some (s, rocs) -> s = mkSS (fold_left N.max l h) true.
Proof.
  revert h. induction l as [|i t IH]; intros h Hh Hb s rocs E.
  - cbn in E. injection E as <- _. reflexivity.
  - destruct Hb as (Hi & Hd1 & Hd2 & Hb).
    cbn [send_run] in E. unfold st_send in E.
    rewrite (next_roc_processed h i Hh Hi Hd1 Hd2) in E.
    rewrite update_roc_processed in E.
    destruct (send_run (mkSS (N.max h i) true) t) as [[s' r']|] eqn:E'; [|discriminate].
    injection E as <- _. cbn [fold_left].
    apply (IH (N.max h i)) with (rocs := r'); [lia|exact Hb|exact E'].
Qed.

(* REFUTATION of unconditional synchronisation: the sender is at (ROC 3, SEQ 65535) when the MIKEY
   message is produced (it reports ROC 3); its next packets are in ROC 4; the receiver keyed with
   ROC 3 rejects them all and never recovers. *)
Definition stale_sender : sstate := mkSS (3 * two16 + 65535) true.
Definition stale_after : list N := [4 * two16; 4 * two16 + 1; 4 * two16 + 2; 4 * two16 + 3].

Theorem roc_sync_refuted :
  exists s rocs,
    send_run stale_sender stale_after = Some (s, rocs) /\ rocs = [4; 4; 4; 4] /\
    (ss_index stale_sender / two16) mod two32 = 3 /\
    snd (recv_run (fresh_state 3) stale_after) = [false; false; false; false].
Proof. eexists. eexists. repeat split; vm_compute; reflexivity. Qed.

(* and it is permanent: as long as every offered packet is outside the ROC the receiver was keyed
   with, nothing is accepted and the state does not change *)
Theorem stale_roc_never_recovers : forall r l,
  r < two32 -> Forall (fun i => idx_roc i <> r) l ->
  recv_run (fresh_state r) l = (fresh_state r, map (fun _ => false) l).
Proof.
  intros r l Hr Hall. induction Hall as [|i t Hi _ IH]; [reflexivity|].
  cbn [recv_run map]. unfold st_recv. rewrite (next_roc_fresh r _ Hr).
  destruct (r =? idx_roc i) eqn:E; [apply N.eqb_eq in E; congruence|].
  rewrite IH. reflexivity.
Qed.

(* non-vacuity: a receiver keyed with ROC 0 follows 65534, 65535, 0, 1 with a late duplicate and a
   reordered pair *)
Example recv_in_sync_example :
  snd (recv_run (fresh_state 0) [65534; 65535; 65536; 65535; 65538; 65537])
  = [true; true; true; true; true; true]
  /\ fst (recv_run (fresh_state 0) [65534; 65535; 65536; 65535; 65538; 65537]) = mkSS 65538 true.
Proof. split; vm_compute; reflexivity. Qed.

From Coq Require Extraction ExtrOcamlBasic.
From GV_secure Require Import Model.
Extraction Language OCaml.
Extraction "model.ml" run.

(* C17 — statements only.  Each theorem is closed by [exact] of a lemma proved in Proofs.v,
   ProofsRoc.v or Cipher.v and followed by Print Assumptions.

   Reading guide.  "ctx" is gortsplib's wrappedSRTPContext (key = 16-byte master key ++ 14-byte master
   salt, MKI, SSRC list, start ROCs, pion's per-SSRC state); "mikey" is the abstract MIKEY message
   (the fields mikeyToContext / contextToMikey read and write); extended index = ROC * 2^16 + SEQ.
   The cipher theorems carry the premises [ks_ok ks] and [mac_ok mac] (ideal authenticated cipher). *)
From GVL Require Import NList.
From GVG Require Import Consts Kern.
From GV_secure Require Import Model ProofsRoc Proofs Cipher Bridge.
Open Scope N_scope.

(* ---------------- key exchange ---------------- *)

(* mikeyToContext (contextToMikey c) succeeds and rebuilds key, MKI, SSRC list and, for every listed
   SSRC, the sender's current roll-over counter -- for every key of the configured length, every MKI
   (present or absent), every SSRC list (any length, duplicates allowed), every counter state and
   every clock difference of at most one hour. *)
Theorem C17_secure_mikey_ctx_roundtrip : forall c e now,
  nlen (c_key c) = sec_key_length ->
  time_ok now (e_ts e) = true ->
  exists c', of_mikey now (to_mikey c e) = MOk c' /\
    c_key c' = c_key c /\ c_mki c' = c_mki c /\ c_ssrcs c' = c_ssrcs c /\
    c_start c' = map (roc_of c) (c_ssrcs c) /\
    (forall s, In s (c_ssrcs c) ->
       sm_get (c_states c') s = Some (fresh_state (roc_of c s)) /\ roc_of c' s = roc_of c s).
Proof. exact mikey_ctx_roundtrip. Qed.
Print Assumptions C17_secure_mikey_ctx_roundtrip.

(* what mikeyToContext accepts: a current timestamp, the six mandatory policies with the supported
   values, exactly one key of the configured length; the context is built from that key, its SPI and
   the CS-ID map *)
Theorem C17_secure_of_mikey_sound : forall now m c,
  of_mikey now m = MOk c ->
  exists ts ps k,
    find_t (mk_payloads m) = Some ts /\ time_ok now ts = true /\
    find_sp (mk_payloads m) = Some ps /\
    find_policy ps sec_sp_encr_alg = Some [1] /\
    find_policy ps sec_sp_encr_key_len = Some [16] /\
    find_policy ps sec_sp_auth_alg = Some [1] /\
    find_policy ps sec_sp_srtp_encr = Some [1] /\
    find_policy ps sec_sp_srtcp_encr = Some [1] /\
    find_policy ps sec_sp_srtp_auth = Some [1] /\
    find_kemac (mk_payloads m) = Some [k] /\
    nlen (kd_key k) = sec_key_length /\
    c_key c = kd_key k /\ c_mki c = kd_spi k /\
    c_ssrcs c = map id_ssrc (mk_ids m) /\ c_start c = map id_roc (mk_ids m).
Proof. exact of_mikey_sound. Qed.
Print Assumptions C17_secure_of_mikey_sound.

Theorem C17_secure_of_mikey_refuses_bad_key : forall now m k,
  find_kemac (mk_payloads m) = Some [k] -> nlen (kd_key k) <> sec_key_length ->
  forall c, of_mikey now m <> MOk c.
Proof. exact of_mikey_refuses_bad_key. Qed.
Print Assumptions C17_secure_of_mikey_refuses_bad_key.

Theorem C17_secure_of_mikey_refuses_many_keys : forall now m k1 k2 ks,
  find_kemac (mk_payloads m) = Some (k1 :: k2 :: ks) -> forall c, of_mikey now m <> MOk c.
Proof. exact of_mikey_refuses_many_keys. Qed.
Print Assumptions C17_secure_of_mikey_refuses_many_keys.

(* ---------------- roll-over counters ---------------- *)

(* receiver keyed with ROC r: every delivery sequence that starts in ROC r and in which each packet
   is displaced by less than 2^15 from the highest index delivered so far is accepted entirely
   (any number of wraps, loss, duplicates, bounded reordering) *)
Theorem C17_secure_recv_in_sync : forall r i0 rest,
  idx_roc i0 = r -> i0 < two48 -> bounded_disp i0 rest ->
  exists h', recv_run (fresh_state r) (i0 :: rest) = (mkSS h' true, map (fun _ => true) (i0 :: rest)).
Proof. exact recv_in_sync. Qed.
Print Assumptions C17_secure_recv_in_sync.

(* sender: every packet is protected with its true ROC, i.e. the counter advances exactly at a wrap *)
Theorem C17_secure_send_uses_true_roc : forall r i0 rest,
  idx_roc i0 = r -> i0 < two48 -> bounded_disp i0 rest ->
  exists h', send_run (fresh_state r) (i0 :: rest) = Some (mkSS h' true, map idx_roc (i0 :: rest)).
Proof. exact send_uses_true_roc. Qed.
Print Assumptions C17_secure_send_uses_true_roc.

Theorem C17_secure_send_in_order_rocs : forall i0 n,
  i0 + N.of_nat n < two48 ->
  exists h', send_run (fresh_state (idx_roc i0)) (consecutive i0 (S n))
             = Some (mkSS h' true, map idx_roc (consecutive i0 (S n))).
Proof. exact send_in_order_rocs. Qed.
Print Assumptions C17_secure_send_in_order_rocs.

(* composition: the message produced by a sender that has reached extended index h keys a receiver
   that accepts everything sent afterwards, PROVIDED the first packet it sees is still in ROC
   idx_roc h.  This is the strongest true statement (_partial): *)
Theorem C17_secure_key_exchange_sync_partial : forall a e now s h i0 rest,
  nlen (c_key a) = sec_key_length -> time_ok now (e_ts e) = true ->
  In s (c_ssrcs a) ->
  get_state a s = mkSS h true -> h < two48 ->
  idx_roc i0 = idx_roc h -> i0 < two48 -> bounded_disp i0 rest ->
  exists b, of_mikey now (to_mikey a e) = MOk b /\
    c_key b = c_key a /\ c_mki b = c_mki a /\
    recv_ctx_run b s (i0 :: rest) = map (fun _ => true) (i0 :: rest).
Proof. exact key_exchange_sync. Qed.
Print Assumptions C17_secure_key_exchange_sync_partial.

(* ... and the proviso cannot be dropped (finding roc-stale-after-wrap): sender at (ROC 3, SEQ 65535)
   when the message is produced; its next packets are in ROC 4; the receiver keyed with 3 rejects
   them all, and keeps rejecting while the sender stays outside ROC 3. *)
Theorem C17_secure_roc_sync_refuted :
  exists s rocs,
    send_run stale_sender stale_after = Some (s, rocs) /\ rocs = [4; 4; 4; 4] /\
    (ss_index stale_sender / two16) mod two32 = 3 /\
    snd (recv_run (fresh_state 3) stale_after) = [false; false; false; false].
Proof. exact roc_sync_refuted. Qed.
Print Assumptions C17_secure_roc_sync_refuted.

Theorem C17_secure_stale_roc_never_recovers : forall r l,
  r < two32 -> Forall (fun i => idx_roc i <> r) l ->
  recv_run (fresh_state r) l = (fresh_state r, map (fun _ => false) l).
Proof. exact stale_roc_never_recovers. Qed.
Print Assumptions C17_secure_stale_roc_never_recovers.

(* ---------------- admission and downgrade ---------------- *)

Theorem C17_secure_admission_rules : forall sc tr,
  is_transport_supported sc tr = true ->
  (t_secure tr = true -> sc_tls sc = true) /\
  (t_proto tr = TUdp -> sc_tls sc = true -> t_secure tr = true) /\
  (sc_tunnel sc = true -> t_proto tr <> TUdp) /\
  (t_proto tr = TUdp -> is_mc (t_deliv tr) = false -> sc_udp sc = true) /\
  (t_proto tr = TUdp -> is_mc (t_deliv tr) = true -> sc_mc sc = true).
Proof. exact admission_rules. Qed.
Print Assumptions C17_secure_admission_rules.

Theorem C17_secure_admission_complete : forall sc tr,
  (t_secure tr = true -> sc_tls sc = true) ->
  (t_proto tr = TUdp -> sc_tls sc = true -> t_secure tr = true) ->
  (sc_tunnel sc = true -> t_proto tr <> TUdp) ->
  (t_proto tr = TUdp -> is_mc (t_deliv tr) = false -> sc_udp sc = true) ->
  (t_proto tr = TUdp -> is_mc (t_deliv tr) = true -> sc_mc sc = true) ->
  is_transport_supported sc tr = true.
Proof. exact admission_complete. Qed.
Print Assumptions C17_secure_admission_complete.

Theorem C17_secure_pick_first_sound : forall sc l i tr,
  pick_first sc l = Some (i, tr) ->
  nnth i l = Some tr /\ is_transport_supported sc tr = true /\
  (forall j x, j < i -> nnth j l = Some x -> is_transport_supported sc x = false).
Proof. exact pick_first_sound. Qed.
Print Assumptions C17_secure_pick_first_sound.

Theorem C17_secure_pick_first_none : forall sc l,
  pick_first sc l = None <-> (forall tr, In tr l -> is_transport_supported sc tr = false).
Proof. exact pick_first_none. Qed.
Print Assumptions C17_secure_pick_first_none.

Theorem C17_secure_client_session_safe : forall cl ms h pl reqs e,
  client_session cl ms h pl = (reqs, e) ->
  Forall (fun r => (snd r = true -> cl_rtsps cl = true) /\
                   (is_udp (fst r) = true -> cl_rtsps cl = true -> snd r = true)) reqs.
Proof. exact client_session_safe. Qed.
Print Assumptions C17_secure_client_session_safe.

Theorem C17_secure_response_profile_checked : forall a b, response_profile_ok a b = true -> a = b.
Proof. exact response_profile_checked. Qed.
Print Assumptions C17_secure_response_profile_checked.

Theorem C17_secure_no_scheme_downgrade : forall chain l e,
  follow true chain = (l, e) -> Forall (fun b => b = true) l.
Proof. exact no_scheme_downgrade. Qed.
Print Assumptions C17_secure_no_scheme_downgrade.

Theorem C17_secure_no_scheme_downgrade_later : forall chain cur l e,
  follow cur chain = (l, e) ->
  forall l1 l2, l = l1 ++ true :: l2 -> Forall (fun b => b = true) l2.
Proof. exact no_scheme_downgrade_later. Qed.
Print Assumptions C17_secure_no_scheme_downgrade_later.

(* and no chain makes the client connect more than clientMaxRedirects + 1 times (fix for C12) *)
Theorem C17_secure_redirects_bounded : forall chain cur l e,
  follow cur chain = (l, e) -> nlen l <= sec_max_redirects + 1.
Proof. exact redirects_bounded. Qed.
Print Assumptions C17_secure_redirects_bounded.

(* ---------------- the wire, under the ideal cipher ---------------- *)

Theorem C17_secure_unprotect_iff_roc : forall ks mac hdr_ssrc hdr_seq,
  ks_ok ks -> mac_ok mac ->
  forall k mki roc roc' p,
  unprotect ks mac hdr_ssrc hdr_seq k mki roc' (protect ks mac hdr_ssrc hdr_seq k mki roc p) <> None
  <-> roc' = roc.
Proof. exact unprotect_iff_roc. Qed.
Print Assumptions C17_secure_unprotect_iff_roc.

Theorem C17_secure_single_field_alteration_rejected : forall ks mac hdr_ssrc hdr_seq,
  mac_ok mac ->
  forall k mki roc p c' roc',
  differs_in_one_field (protect ks mac hdr_ssrc hdr_seq k mki roc p) c' ->
  (s_hdr c' = p_hdr p -> roc' = roc) ->
  unprotect ks mac hdr_ssrc hdr_seq k mki roc' c' = None.
Proof. exact single_field_alteration_rejected. Qed.
Print Assumptions C17_secure_single_field_alteration_rejected.

Theorem C17_secure_altered_keeping_tag_rejected : forall ks mac hdr_ssrc hdr_seq,
  mac_ok mac ->
  forall k mki roc p c' roc',
  c' <> protect ks mac hdr_ssrc hdr_seq k mki roc p ->
  s_tag c' = s_tag (protect ks mac hdr_ssrc hdr_seq k mki roc p) ->
  unprotect ks mac hdr_ssrc hdr_seq k mki roc' c' = None.
Proof. exact altered_keeping_tag_rejected. Qed.
Print Assumptions C17_secure_altered_keeping_tag_rejected.

Theorem C17_secure_wire_secret_partial : forall ks mac hdr_ssrc hdr_seq,
  ks_ok ks -> mac_ok mac ->
  forall sc tr k mki roc p,
  sc_tls sc = true -> is_transport_supported sc tr = true ->
  (outside_tls sc tr = true \/ t_secure tr = true) ->
  exists c, emit ks mac hdr_ssrc hdr_seq tr k mki roc p = Protected c /\
    c = protect ks mac hdr_ssrc hdr_seq k mki roc p /\
    s_body c = xorl (p_payload p) (keystream ks hdr_ssrc hdr_seq k (p_hdr p) roc (length (p_payload p))) /\
    unprotect ks mac hdr_ssrc hdr_seq k mki roc c = Some p.
Proof. exact wire_secret_partial. Qed.
Print Assumptions C17_secure_wire_secret_partial.

Theorem C17_secure_keys_never_in_clear : forall sc tr,
  sc_tls sc = false -> is_transport_supported sc tr = true -> t_secure tr = false.
Proof. exact keys_never_in_clear. Qed.
Print Assumptions C17_secure_keys_never_in_clear.

(* ---------------- the remote-SSRC check in front of decryption (after fix e33be43) ---------------- *)

(* whatever does not decode (altered / forged) is never delivered and never sets the expected SSRC *)
Theorem C17_secure_latch_never_delivers_undecodable : forall secure l ssrc,
  snd (filter_step secure l ssrc false) <> EDelivered.
Proof. exact latch_never_delivers_undecodable. Qed.
Print Assumptions C17_secure_latch_never_delivers_undecodable.

Theorem C17_secure_latch_unchanged_by_undecodable : forall secure l ssrc,
  fst (filter_step secure l ssrc false) = l.
Proof. exact latch_unchanged_by_undecodable. Qed.
Print Assumptions C17_secure_latch_unchanged_by_undecodable.

(* full statement (replaces latch_partial / latch_poisoned_refuted of the pinned tree): when only the
   sender's packets decode (ideal cipher), exactly those are delivered -- for every interleaving with
   altered or forged packets, whatever arrives first *)
Theorem C17_secure_latch_delivers_exactly_genuine : forall secure g pkts l,
  latch_inv g l ->
  Forall (fun p => snd p = true -> fst p = g) pkts ->
  Forall2 (fun p e => e = EDelivered <-> snd p = true) pkts (filter_run secure l pkts).
Proof. exact latch_delivers_exactly_genuine. Qed.
Print Assumptions C17_secure_latch_delivers_exactly_genuine.

(* ---- BRIDGE (tools/go2coq) ----
   The roll-over-counter arithmetic of pion/srtp v3 (the dependency version pinned by /repo/go.mod) TRANSLATED from its
   Go source on this run is the arithmetic of the model: next_roc IS srtpSSRCState.nextRolloverCount written with the
   translated kernels (seq / localRoc / localSeq extraction, the three range tests, localRoc-1 / localRoc+1 with uint32
   wrap-around, the three differences, the overflow test against maxROC), for every index below 2^48 and every 16-bit
   sequence number; update_roc IS updateRolloverCount without a remote ROC (s.index |= seq on first use, s.index +=
   uint64(difference) when difference > 0); the key-length test that precedes context creation in mikeyToContext is
   len(KeyData) != srtpKeyLength.  The named constants are instantiated with GVG.Consts. *)
Theorem C17_secure_kernels_are_the_code :
  (forall s seq, idx48 (ss_index s) -> seq16 seq -> next_roc s seq = next_roc_k s seq) /\
  (forall s seq diff, idx48 (ss_index s) -> seq16 seq -> (-9223372036854775808 <= diff < 4294967296)%Z ->
     update_roc s seq diff = update_roc_k s seq diff) /\
  (forall n, k_sec_key_len_bad (Z.of_N n) (Z.of_N sec_key_length) = negb (n =? sec_key_length)) /\
  (forall key mki ssrcs starts, 16 <= nlen key ->
     k_sec_key_len_bad (Z.of_N (nlen key)) (Z.of_N sec_key_length) = true -> initialize key mki ssrcs starts = IErr).
Proof. exact secure_kernels_are_the_code. Qed.
Print Assumptions C17_secure_kernels_are_the_code.

(* the translated kernels compute: index 0x0001_FFFE, packet 2 -> forward wrap: ROC 2, difference +4; index 0x0002_0001,
   packet 65535 -> a late packet of the previous cycle: ROC 1, difference -2; ROC 0 - 1 wraps to 2^32-1 *)
Example C17_example_kernels :
  k_sec_roc_local_roc 131070 = 1%Z /\ k_sec_roc_local_seq 131070 65536 = 65534%Z /\
  k_sec_roc_fwd 65534 32768 2 = true /\ k_sec_roc_inc 1 = 2%Z /\ k_sec_roc_diff_fwd 2 65534 65536 = 4%Z /\
  k_sec_roc_low_half 1 32768 = true /\ k_sec_roc_back 65535 1 32768 = true /\ k_sec_roc_dec 2 = 1%Z /\
  k_sec_roc_diff_back 65535 1 65536 = (-2)%Z /\ k_sec_roc_dec 0 = 4294967295%Z /\
  k_sec_roc_overflow 0 4294967295 4294967295 = true /\ k_sec_roc_overflow 0 0 4294967295 = false /\
  k_sec_upd_first 131072 7 = 131079%Z /\ k_sec_upd_add 131079 4 = 131083%Z /\ k_sec_upd_pos 0 = false /\
  k_sec_key_len_bad 30 (Z.of_N sec_key_length) = false /\ k_sec_key_len_bad 16 (Z.of_N sec_key_length) = true.
Proof. vm_compute. repeat split. Qed.

(* non-vacuity: the empty latch satisfies the invariant; the history that silenced the old code
   (fixed finding ssrc-latch-before-auth) now delivers every genuine packet *)
Example C17_example_latch :
  latch_inv 1 (mkLatch false 0) /\
  filter_run true (mkLatch false 0) [(2, false); (1, true); (1, true); (1, true)]
  = [EDecodeError; EDelivered; EDelivered; EDelivered] /\
  filter_run_old true (mkLatch false 0) [(2, false); (1, true); (1, true); (1, true)]
  = [EDecodeError; EWrongSSRC; EWrongSSRC; EWrongSSRC].
Proof. split; [apply latch_inv_empty|split; reflexivity]. Qed.

(* ---------------- non-vacuity ---------------- *)

(* a context with an MKI, three SSRCs (one duplicated) and non-zero counters goes through *)
Example C17_example_roundtrip :
  let key := nrep 7 30 in
  match initialize key [1;2;3;4] [10; 20; 10] [5; 6; 7] with
  | IOk c =>
    nlen (c_key c) = sec_key_length /\
    of_mikey 0 (to_mikey c (mkEnt 9 (nrep 0 16) unix0_ntp)) =
      MOk (mkCtx key [1;2;3;4] [10;20;10] [7;6;7]
                 [(10, fresh_state 7); (20, fresh_state 6)])
  | _ => False
  end.
Proof. vm_compute. split; reflexivity. Qed.

(* the hypotheses of the sync theorem hold across a wrap with a loss and a reordering *)
Example C17_example_bounded : bounded_disp 65534 [65535; 65536; 65539; 65538].
Proof. cbn. unfold two48. repeat split; lia. Qed.

Example C17_example_admission :
  is_transport_supported (mkSc true false true false) (mkTr TUdp DUnicast true) = true /\
  is_transport_supported (mkSc true false true false) (mkTr TUdp DUnicast false) = false /\
  is_transport_supported (mkSc true false false false) (mkTr TTcp DNone true) = false /\
  follow false [SRtsps; SRtsp] = ([false; true], 1).
Proof. repeat split. Qed.

(* HISTORY (not built, not in _CoqProject): written before fix e33be43 was committed to /repo; its content
   is now Model.filter_step / Proofs.latch_delivers_exactly_genuine. *)
(* Repaired model for finding ssrc-latch-unauthenticated (not referenced by Props; for the
   coordinator to switch to after a fix in /repo).  The only change: the remote SSRC is recorded
   after decodeRTP has succeeded, i.e. from an authenticated packet. *)
From GVL Require Import NList.
From GV_secure Require Import Model.
Open Scope N_scope.

Definition filter_step_fixed (secure : bool) (l : latch) (ssrc : N) (auth_ok : bool) : latch * revent :=
  if l_filled l && secure && negb (l_value l =? ssrc) then (l, EWrongSSRC)
  else if auth_ok then ((if l_filled l then l else mkLatch true ssrc), EDelivered)
  else (l, EDecodeError).

Fixpoint filter_run_fixed (secure : bool) (l : latch) (pkts : list (N * bool)) : list revent :=
  match pkts with
  | [] => []
  | (ssrc, ok) :: t => let '(l', e) := filter_step_fixed secure l ssrc ok in e :: filter_run_fixed secure l' t
  end.

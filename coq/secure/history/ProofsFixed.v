(* HISTORY (not built, not in _CoqProject): written before fix e33be43 was committed to /repo; its content
   is now Model.filter_step / Proofs.latch_delivers_exactly_genuine. *)
(* Full theorem for the repaired latch: with an ideal cipher (what decodes is genuine) every genuine
   packet is delivered and nothing else is, for EVERY interleaving with altered / forged packets,
   whatever arrives first. *)
From Coq Require Import ZifyBool ZifyNat ZifyN.
From GVL Require Import NList.
From GV_secure Require Import Model ModelFixed.
Open Scope N_scope.

Definition latch_inv (g : N) (l : latch) : Prop := l_filled l = true -> l_value l = g.

Theorem latch_fixed_delivers_exactly_genuine : forall secure g pkts l,
  latch_inv g l ->
  Forall (fun p => snd p = true -> fst p = g) pkts ->
  Forall2 (fun p e => e = EDelivered <-> snd p = true) pkts (filter_run_fixed secure l pkts).
Proof.
  intros secure g pkts. induction pkts as [|[s ok] t IH]; intros l Hinv Hall; [constructor|].
  inversion Hall as [|? ? Hp Ht]; subst. cbn [fst snd] in Hp.
  cbn [filter_run_fixed]. unfold filter_step_fixed.
  destruct (l_filled l) eqn:Ef; cbn [andb].
  - specialize (Hinv Ef).
    destruct ok.
    + rewrite Hinv, (Hp eq_refl), N.eqb_refl. cbn [negb]. rewrite andb_false_r.
      constructor; [split; reflexivity|]. apply IH; [intros _; exact Hinv|exact Ht].
    + destruct (secure && negb (l_value l =? s))%bool;
        (constructor; [split; discriminate|]; apply IH; [intros _; exact Hinv|exact Ht]).
  - destruct ok.
    + constructor; [split; reflexivity|]. apply IH; [|exact Ht].
      intros _. cbn. exact (Hp eq_refl).
    + constructor; [split; discriminate|]. apply IH; [|exact Ht].
      intros H. congruence.
Qed.

(* the poisoning history of the finding is harmless in the repaired model *)
Example latch_fixed_example :
  filter_run_fixed true (mkLatch false 0) [(2, false); (1, true); (1, true); (2, false); (1, true)]
  = [EDecodeError; EDelivered; EDelivered; EWrongSSRC; EDelivered].
Proof. reflexivity. Qed.

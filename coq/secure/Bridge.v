(* BRIDGE: the roll-over-counter arithmetic of pion/srtp v3 (the module version pinned by /repo/go.mod:
   srtpSSRCState.nextRolloverCount / updateRolloverCount in context.go) and the key-length test of mikeyToContext, as
   TRANSLATED from the Go source on this run (GVG.Kern, tools/go2coq; spec lines in tools/go2coq/spec.d/secure.txt), are
   the formulas of the hand-written model: Model.next_roc IS nextRolloverCount written with the sixteen translated
   assignments / conditions / results, Model.update_roc IS updateRolloverCount (hasRemoteRoc = false) written with the
   translated  s.index |= seq,  difference > 0  and  s.index += uint64(difference),  and Model.initialize's key test is
   len(KeyData) != srtpKeyLength.  seqNumMedian, seqNumMax, maxROC, srtpKeyLength are free variables of the kernels,
   instantiated with GVG.Consts. *)
From Coq Require Import ZArith NArith Lia Bool List.
From Coq Require Import ZifyBool ZifyN.
From GVL Require Import NList Wrap.
From GVG Require Import Consts Kern.
From GV_secure Require Import Model.
Open Scope Z_scope.
Ltac Zify.zify_post_hook ::= Z.div_mod_to_equations.

Notation zn := Z.of_N.

Lemma ki32_small x : -2147483648 <= x < 2147483648 -> ki32 x = x.
Proof. unfold ki32. apply s32_w32_small. Qed.
Lemma ki64_small x : -9223372036854775808 <= x < 9223372036854775808 -> ki64 x = x.
Proof. unfold ki64, s64, w64. intros H. destruct (x mod 18446744073709551616 <? 9223372036854775808) eqn:E; lia. Qed.
Lemma of_N_lor a b : zn (N.lor a b) = Z.lor (zn a) (zn b).
Proof. destruct a, b; reflexivity. Qed.

(* nextRolloverCount written with the translated kernels *)
Definition next_roc_k (s : sstate) (seq : N) : N * Z * bool :=
  let median := zn sec_seq_median in
  let smax := zn sec_seq_max in
  let sq := k_sec_roc_seq (zn seq) in
  let lroc := k_sec_roc_local_roc (zn (ss_index s)) in
  let lseq := k_sec_roc_local_seq (zn (ss_index s)) smax in
  let '(guess, diff) :=
    if ss_proc s then
      if k_sec_roc_nonzero (zn (ss_index s)) median then
        if k_sec_roc_low_half lseq median then
          if k_sec_roc_back sq lseq median
          then (k_sec_roc_dec lroc, k_sec_roc_diff_back sq lseq smax)
          else (lroc, k_sec_roc_diff sq lseq)
        else
          if k_sec_roc_fwd lseq median sq
          then (k_sec_roc_inc lroc, k_sec_roc_diff_fwd sq lseq smax)
          else (lroc, k_sec_roc_diff_same sq lseq)
      else (lroc, k_sec_roc_diff_zero sq lseq)
    else (lroc, 0) in
  (Z.to_N guess, k_sec_roc_diff64 diff, k_sec_roc_overflow guess lroc (zn sec_max_roc)).

Definition idx48 (x : N) : Prop := (x < 281474976710656)%N.     (* ROC (32 bits) << 16 | SEQ (16 bits) *)
Definition seq16 (x : N) : Prop := (x < 65536)%N.

Lemma bridge_local_roc i : idx48 i -> k_sec_roc_local_roc (zn i) = zn ((i / two16) mod two32).
Proof.
  unfold idx48, k_sec_roc_local_roc, two16, two32. intros H. rewrite Z.shiftr_div_pow2 by lia. change (2 ^ 16) with 65536.
  unfold w32, w64. lia.
Qed.
Lemma bridge_local_seq i : idx48 i -> k_sec_roc_local_seq (zn i) (zn sec_seq_max) = zn (i mod two16).
Proof.
  unfold idx48, k_sec_roc_local_seq, two16. intros H. change (zn sec_seq_max) with 65536.
  change (w64 (65536 - 1)) with (Z.ones 16). rewrite Z.land_ones by lia. change (2 ^ 16) with 65536.
  assert (E : w64 (zn i mod 65536) = zn i mod 65536) by (unfold w64; lia). rewrite E. rewrite ki32_small by lia. lia.
Qed.

Lemma ovf_eq g l : (zn g =? 0) && (zn l =? 4294967295) = ((g =? 0) && (l =? 4294967295))%N.
Proof. destruct (Z.eqb_spec (zn g) 0), (N.eqb_spec g 0), (Z.eqb_spec (zn l) 4294967295), (N.eqb_spec l 4294967295); try lia; reflexivity. Qed.

Theorem next_roc_is_the_code s seq : idx48 (ss_index s) -> seq16 seq -> next_roc s seq = next_roc_k s seq.
Proof.
  intros Hi Hs. unfold next_roc, next_roc_k. cbv zeta.
  rewrite (bridge_local_roc _ Hi), (bridge_local_seq _ Hi).
  unfold idx48, seq16 in *.
  set (lroc := ((ss_index s / two16) mod two32)%N). set (lseq := (ss_index s mod two16)%N).
  assert (Hlr : (lroc < 4294967296)%N) by (unfold lroc, two32; lia).
  assert (Hls : (lseq < 65536)%N) by (unfold lseq, two16; lia).
  unfold k_sec_roc_seq, k_sec_roc_nonzero, k_sec_roc_low_half, k_sec_roc_back, k_sec_roc_dec, k_sec_roc_diff_back,
    k_sec_roc_diff, k_sec_roc_fwd, k_sec_roc_inc, k_sec_roc_diff_fwd, k_sec_roc_diff_same, k_sec_roc_diff_zero,
    k_sec_roc_diff64, k_sec_roc_overflow.
  change (zn sec_seq_median) with 32768. change (zn sec_seq_max) with 65536. change (zn sec_max_roc) with 4294967295.
  change sec_seq_median with 32768%N. change sec_seq_max with 65536%N. change sec_max_roc with 4294967295%N. unfold two32.
  rewrite (ki32_small (zn seq)) by lia.
  rewrite (ki32_small (zn seq - zn lseq)) by lia. rewrite (ki32_small (zn lseq - 32768)) by lia.
  rewrite (ki32_small (zn seq - zn lseq - 65536)) by lia. rewrite (ki32_small (zn seq - zn lseq + 65536)) by lia.
  destruct (ss_proc s).
  - destruct (N.ltb_spec 32768 (ss_index s)) as [A|A]; destruct (Z.gtb_spec (zn (ss_index s)) 32768) as [A'|A']; try lia.
    + destruct (N.ltb_spec lseq 32768) as [B|B]; destruct (Z.ltb_spec (zn lseq) 32768) as [B'|B']; try lia.
      * destruct (Z.ltb_spec 32768 (zn seq - zn lseq)) as [C|C]; destruct (Z.gtb_spec (zn seq - zn lseq) 32768) as [C'|C']; try lia.
        -- rewrite ki64_small by lia.
           assert (E : w32 (zn lroc - 1) = zn ((lroc + 4294967296 - 1) mod 4294967296)) by (unfold w32; lia).
           rewrite E, N2Z.id, ovf_eq. reflexivity.
        -- rewrite ki64_small by lia. rewrite N2Z.id, ovf_eq. reflexivity.
      * destruct (Z.ltb_spec (zn seq) (zn lseq - 32768)) as [C|C]; destruct (Z.gtb_spec (zn lseq - 32768) (zn seq)) as [C'|C']; try lia.
        -- rewrite ki64_small by lia.
           assert (E : w32 (zn lroc + 1) = zn ((lroc + 1) mod 4294967296)) by (unfold w32; lia).
           rewrite E, N2Z.id, ovf_eq. reflexivity.
        -- rewrite ki64_small by lia. rewrite N2Z.id, ovf_eq. reflexivity.
    + rewrite ki64_small by lia. rewrite N2Z.id, ovf_eq. reflexivity.
  - rewrite N2Z.id, ovf_eq. reflexivity.
Qed.

(* updateRolloverCount(seq, difference, hasRemoteRoc = false) written with the translated kernels *)
Definition update_roc_k (s : sstate) (seq : N) (diff : Z) : sstate :=
  if negb (ss_proc s) then mkSS (Z.to_N (k_sec_upd_first (zn (ss_index s)) (zn seq))) true
  else if k_sec_upd_pos diff then mkSS (Z.to_N (k_sec_upd_add (zn (ss_index s)) diff)) true
  else s.
Lemma lor_u64 a b : 0 <= a < 18446744073709551616 -> 0 <= b < 18446744073709551616 -> 0 <= Z.lor a b < 18446744073709551616.
Proof.
  intros Ha Hb. assert (Hn : 0 <= Z.lor a b) by (apply Z.lor_nonneg; lia). split; [exact Hn|].
  destruct (Z.eq_dec (Z.lor a b) 0) as [E|E]; [lia|].
  change 18446744073709551616 with (2 ^ 64). apply Z.log2_lt_pow2; [lia|]. rewrite Z.log2_lor by lia.
  assert (La : a = 0 \/ Z.log2 a < 64) by (destruct (Z.eq_dec a 0); [left; assumption|right; apply Z.log2_lt_pow2; [lia|change (2 ^ 64) with 18446744073709551616; lia]]).
  assert (Lb : b = 0 \/ Z.log2 b < 64) by (destruct (Z.eq_dec b 0); [left; assumption|right; apply Z.log2_lt_pow2; [lia|change (2 ^ 64) with 18446744073709551616; lia]]).
  destruct La as [->|La], Lb as [->|Lb]; cbn [Z.log2]; lia.
Qed.
Theorem update_roc_is_the_code s seq diff :
  idx48 (ss_index s) -> seq16 seq -> -9223372036854775808 <= diff < 4294967296 ->
  update_roc s seq diff = update_roc_k s seq diff.
Proof.
  unfold idx48, seq16. intros Hi Hs Hd. unfold update_roc, update_roc_k, k_sec_upd_first, k_sec_upd_pos, k_sec_upd_add.
  destruct (ss_proc s); cbn [negb].
  - destruct (Z.ltb_spec 0 diff) as [P|P]; destruct (Z.gtb_spec diff 0) as [P'|P']; try lia; [|reflexivity].
    f_equal. assert (E : w64 diff = diff) by (unfold w64; lia). rewrite E. unfold w64. lia.
  - f_equal. assert (E : w64 (zn seq) = zn seq) by (unfold w64; lia). rewrite E. rewrite <- of_N_lor.
    assert (B : 0 <= Z.lor (zn (ss_index s)) (zn seq) < 18446744073709551616) by (apply lor_u64; lia).
    rewrite <- of_N_lor in B. unfold w64. rewrite Z.mod_small by lia. rewrite N2Z.id. reflexivity.
Qed.

(* mikeyToContext: if len(kemacPayload.SubPayloads[0].KeyData) != srtpKeyLength { error } *)
Theorem key_length_test_is_the_code key mki ssrcs starts : (16 <= nlen key)%N ->
  k_sec_key_len_bad (zn (nlen key)) (zn sec_key_length) = true -> initialize key mki ssrcs starts = IErr.
Proof.
  unfold k_sec_key_len_bad, initialize. intros H16 H.
  destruct (N.ltb_spec (nlen key) 16); [lia|].
  destruct (N.eqb_spec (nlen key) sec_key_length) as [E|E]; [rewrite E, Z.eqb_refl in H; discriminate|reflexivity].
Qed.
Lemma bridge_key_len n : k_sec_key_len_bad (zn n) (zn sec_key_length) = negb (n =? sec_key_length)%N.
Proof. unfold k_sec_key_len_bad. f_equal. destruct (Z.eqb_spec (zn n) (zn sec_key_length)), (N.eqb_spec n sec_key_length); lia. Qed.

Theorem secure_kernels_are_the_code :
  (forall s seq, idx48 (ss_index s) -> seq16 seq -> next_roc s seq = next_roc_k s seq) /\
  (forall s seq diff, idx48 (ss_index s) -> seq16 seq -> -9223372036854775808 <= diff < 4294967296 ->
     update_roc s seq diff = update_roc_k s seq diff) /\
  (forall n, k_sec_key_len_bad (zn n) (zn sec_key_length) = negb (n =? sec_key_length)%N) /\
  (forall key mki ssrcs starts, (16 <= nlen key)%N ->
     k_sec_key_len_bad (zn (nlen key)) (zn sec_key_length) = true -> initialize key mki ssrcs starts = IErr).
Proof.
  split; [exact next_roc_is_the_code|]. split; [exact update_roc_is_the_code|].
  split; [exact bridge_key_len|exact key_length_test_is_the_code].
Qed.

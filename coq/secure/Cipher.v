(* C17, wire statement: what a secure session puts on its carriers, under an IDEAL authenticated
   cipher.  AES-CM and HMAC-SHA1 (pion/srtp) are NOT verified: they appear as Section variables with
   the two hypotheses below, which therefore remain visible as premises of every theorem here.

     ks      keystream generator (AES-CM under the session keys derived from the master key/salt)
     mac     authentication tag (HMAC-SHA1-80) over (clear header, encrypted body, ROC)
     mac_inj no two different authenticated messages have the same tag under one key
             (idealisation of a MAC: collision/forgery freedom; a real 80-bit tag gives 2^-80)

   A protected packet is a record of its four byte ranges (header, body, MKI, tag); how pion finds
   the boundaries in the byte string (header length from CC/X, fixed MKI and tag lengths) is not
   modelled.  A single-bit or single-byte alteration touches exactly one of the four ranges. *)
From Coq Require Import ZifyBool ZifyNat ZifyN.
From GVL Require Import NList.
From GV_secure Require Import Model.
Open Scope N_scope.

Definition xorl (a b : list N) : list N := map (fun xy => N.lxor (fst xy) (snd xy)) (combine a b).

Lemma xorl_length a b : (length a <= length b)%nat -> length (xorl a b) = length a.
Proof.
  intros H. unfold xorl. rewrite map_length, combine_length. lia.
Qed.

Lemma xorl_involutive a b : (length a <= length b)%nat -> xorl (xorl a b) b = a.
Proof.
  revert b. induction a as [|x a IH]; intros b H; [reflexivity|].
  destruct b as [|y b]; [cbn in H; lia|].
  unfold xorl in *. cbn [combine map fst snd]. f_equal.
  - rewrite N.lxor_assoc, N.lxor_nilpotent, N.lxor_0_r. reflexivity.
  - apply IH. cbn in H. lia.
Qed.

Definition leqb (a b : list N) : bool := if list_eq_dec N.eq_dec a b then true else false.
Lemma leqb_true a b : leqb a b = true <-> a = b.
Proof. unfold leqb. destruct (list_eq_dec N.eq_dec a b); split; congruence. Qed.
Lemma leqb_refl a : leqb a a = true.
Proof. apply leqb_true. reflexivity. Qed.

Record rtp_pkt := mkRtp { p_hdr : list N; p_payload : list N }.
Record srtp_pkt := mkSrtp { s_hdr : list N; s_body : list N; s_mki : list N; s_tag : list N }.

(* the two premises of the ideal cipher, named so that property statements can quote them *)
Definition ks_ok (ks : list N -> N -> N -> nat -> list N) : Prop :=
  forall k s i n, length (ks k s i n) = n.
Definition mac_ok (mac : list N -> (list N * list N * N) -> list N) : Prop :=
  forall k m m', mac k m = mac k m' -> m = m'.

Section IdealCipher.
  Variable ks : list N -> N -> N -> nat -> list N.          (* key, SSRC, extended index, length *)
  Variable mac : list N -> (list N * list N * N) -> list N. (* key, (header, body, ROC) *)
  Variable hdr_ssrc hdr_seq : list N -> N.                  (* fields read from the clear header *)
  Hypothesis ks_length : forall k s i n, length (ks k s i n) = n.
  Hypothesis mac_inj : forall k m m', mac k m = mac k m' -> m = m'.

  Definition keystream (k : list N) (hdr : list N) (roc : N) (n : nat) : list N :=
    ks k (hdr_ssrc hdr) (roc * two16 + hdr_seq hdr) n.

  (* srtp.Context.EncryptRTP with the ROC chosen by st_send *)
  Definition protect (k mki : list N) (roc : N) (p : rtp_pkt) : srtp_pkt :=
    let body := xorl (p_payload p) (keystream k (p_hdr p) roc (length (p_payload p))) in
    mkSrtp (p_hdr p) body mki (mac k (p_hdr p, body, roc)).

  (* srtp.Context.DecryptRTP with the ROC guessed by st_recv: MKI lookup, tag check, decryption *)
  Definition unprotect (k mki : list N) (roc : N) (c : srtp_pkt) : option rtp_pkt :=
    if leqb (s_mki c) mki && leqb (s_tag c) (mac k (s_hdr c, s_body c, roc))
    then Some (mkRtp (s_hdr c) (xorl (s_body c) (keystream k (s_hdr c) roc (length (s_body c)))))
    else None.

  (* each side decrypts exactly what the other encrypts ... *)
  Theorem unprotect_protect : forall k mki roc p,
    unprotect k mki roc (protect k mki roc p) = Some p.
  Proof.
    intros k mki roc [h pl]. unfold unprotect, protect. cbn [s_mki s_tag s_hdr s_body p_hdr p_payload].
    rewrite !leqb_refl. cbn [andb].
    rewrite xorl_length by (unfold keystream; rewrite ks_length; lia).
    rewrite xorl_involutive by (unfold keystream; rewrite ks_length; lia).
    reflexivity.
  Qed.

  (* ... if and only if it guesses the roll-over counter the sender used: this is the acceptance
     condition of Model.st_recv *)
  Theorem unprotect_iff_roc : forall k mki roc roc' p,
    unprotect k mki roc' (protect k mki roc p) <> None <-> roc' = roc.
  Proof.
    intros k mki roc roc' p. split.
    - intros H. unfold unprotect, protect in H. cbn [s_mki s_tag s_hdr s_body] in H.
      rewrite leqb_refl in H. cbn [andb] in H.
      destruct (leqb _ _) eqn:E; [|congruence].
      apply leqb_true in E. apply mac_inj in E. congruence.
    - intros ->. rewrite unprotect_protect. discriminate.
  Qed.

  (* a different MKI is refused (ErrMKINotFound) *)
  Theorem unprotect_wrong_mki : forall k mki mki' roc roc' p,
    mki' <> mki -> unprotect k mki' roc' (protect k mki roc p) = None.
  Proof.
    intros k mki mki' roc roc' p H. unfold unprotect, protect. cbn [s_mki].
    destruct (leqb mki mki') eqn:E; [apply leqb_true in E; congruence|reflexivity].
  Qed.

  (* ALTERED PACKETS.  c is what the sender produced; c' is what arrives. *)

  (* any alteration that leaves the tag untouched is rejected whatever ROC the receiver guesses
     (an altered header may change the guessed ROC) *)
  Theorem altered_keeping_tag_rejected : forall k mki roc p c' roc',
    c' <> protect k mki roc p -> s_tag c' = s_tag (protect k mki roc p) ->
    unprotect k mki roc' c' = None.
  Proof.
    intros k mki roc p c' roc' Hne Htag. unfold unprotect.
    destruct (leqb (s_mki c') mki) eqn:Em; [|reflexivity]. cbn [andb].
    destruct (leqb (s_tag c') _) eqn:Et; [|reflexivity].
    exfalso. apply Hne. apply leqb_true in Em, Et.
    rewrite Htag in Et. unfold protect in Et. cbn [s_tag] in Et.
    apply mac_inj in Et. destruct c' as [h b m t]. cbn in *.
    injection Et as Eh Eb Er. subst. unfold protect. cbn [p_hdr]. reflexivity.
  Qed.

  (* any alteration that leaves header and body untouched (tag or MKI altered) is rejected: the
     header is the same, so the receiver guesses the ROC it would guess for the genuine packet *)
  Theorem altered_keeping_message_rejected : forall k mki roc p c',
    c' <> protect k mki roc p ->
    s_hdr c' = s_hdr (protect k mki roc p) -> s_body c' = s_body (protect k mki roc p) ->
    unprotect k mki roc c' = None.
  Proof.
    intros k mki roc p c' Hne Hh Hb. unfold unprotect.
    destruct (leqb (s_mki c') mki) eqn:Em; [|reflexivity]. cbn [andb].
    destruct (leqb (s_tag c') _) eqn:Et; [|reflexivity].
    exfalso. apply Hne. apply leqb_true in Em, Et.
    destruct c' as [h b m t]. cbn in *. subst. reflexivity.
  Qed.

  (* in particular every alteration confined to ONE of the four byte ranges -- hence every
     single-bit and every single-byte alteration -- is rejected *)
  Definition differs_in_one_field (c c' : srtp_pkt) : Prop :=
    (s_hdr c' <> s_hdr c /\ s_body c' = s_body c /\ s_mki c' = s_mki c /\ s_tag c' = s_tag c) \/
    (s_hdr c' = s_hdr c /\ s_body c' <> s_body c /\ s_mki c' = s_mki c /\ s_tag c' = s_tag c) \/
    (s_hdr c' = s_hdr c /\ s_body c' = s_body c /\ s_mki c' <> s_mki c /\ s_tag c' = s_tag c) \/
    (s_hdr c' = s_hdr c /\ s_body c' = s_body c /\ s_mki c' = s_mki c /\ s_tag c' <> s_tag c).

  Theorem single_field_alteration_rejected : forall k mki roc p c' roc',
    differs_in_one_field (protect k mki roc p) c' ->
    (s_hdr c' = p_hdr p -> roc' = roc) ->   (* same header => same sequence number => same guess *)
    unprotect k mki roc' c' = None.
  Proof.
    intros k mki roc p c' roc' D G.
    assert (Hne : c' <> protect k mki roc p).
    { intros ->. destruct D as [D|[D|[D|D]]]; destruct D as (A & B & C & E); congruence. }
    destruct D as [D|[D|[D|D]]]; destruct D as (A & B & C & E).
    - apply (altered_keeping_tag_rejected k mki roc p c' roc' Hne E).
    - apply (altered_keeping_tag_rejected k mki roc p c' roc' Hne E).
    - apply (altered_keeping_tag_rejected k mki roc p c' roc' Hne E).
    - rewrite (G A). apply (altered_keeping_message_rejected k mki roc p c' Hne A B).
  Qed.

  (* whatever IS accepted carries a tag computed under the key for exactly what is delivered:
     an accepted packet different from the genuine one needs a tag for a message the sender never
     authenticated *)
  Theorem accepted_is_authenticated : forall k mki roc' c' q,
    unprotect k mki roc' c' = Some q ->
    s_tag c' = mac k (s_hdr c', s_body c', roc') /\ s_mki c' = mki /\ p_hdr q = s_hdr c'.
  Proof.
    intros k mki roc' c' q H. unfold unprotect in H.
    destruct (leqb (s_mki c') mki) eqn:Em; [|discriminate]. cbn [andb] in H.
    destruct (leqb (s_tag c') _) eqn:Et; [|discriminate].
    apply leqb_true in Em, Et. injection H as <-. cbn. auto.
  Qed.

  (* ---------------------------------------------------------------------------------------- *)
  (* what is put on the carriers                                                               *)
  (* ---------------------------------------------------------------------------------------- *)

  Inductive wire_unit :=
  | Clear (p : rtp_pkt)          (* the marshalled packet itself *)
  | Protected (c : srtp_pkt).

  (* server_stream_format.go:113-121 / client_format.go:281-289 / *_media.go writePacketRTCP:
     the buffer handed to the transport is the SRTP output iff the session has an outbound SRTP
     context, which exists iff the negotiated profile is secure *)
  Definition emit (tr : transport) (k mki : list N) (roc : N) (p : rtp_pkt) : wire_unit :=
    if t_secure tr then Protected (protect k mki roc p) else Clear p.

  (* does a unit of this session travel outside the TLS record stream? UDP always; interleaved
     frames only when the control connection is plain *)
  Definition outside_tls (sc : sconn) (tr : transport) : bool :=
    match t_proto tr with TUdp => true | TTcp => negb (sc_tls sc) end.

  (* wire_secret_partial: on an RTSPS server, for every transport the admission rules accept, every
     packet that leaves the process outside the TLS stream is an SRTP packet whose body is the
     payload XOR the keystream (the payload itself is not on the wire), and a session with the
     secure profile emits SRTP packets on every carrier.  "Partial": the cipher is ideal (premises
     above), the byte-level packet layout and the rest of the write path (queues, framing) are
     observed by the harness taps, not modelled. *)
  Theorem wire_secret_partial : forall sc tr k mki roc p,
    sc_tls sc = true -> is_transport_supported sc tr = true ->
    (outside_tls sc tr = true \/ t_secure tr = true) ->
    exists c, emit tr k mki roc p = Protected c /\
      c = protect k mki roc p /\
      s_body c = xorl (p_payload p) (keystream k (p_hdr p) roc (length (p_payload p))) /\
      unprotect k mki roc c = Some p.
  Proof.
    intros [u mc tls tun] [pr d s] k mki roc p Htls Hs Hout. cbn in Htls. subst tls.
    assert (s = true).
    { destruct Hout as [Ho|Hsec]; [|exact Hsec].
      unfold outside_tls in Ho. cbn in Ho. destruct pr; [|discriminate].
      unfold is_transport_supported in Hs. cbn in Hs. destruct s; [reflexivity|].
      destruct d, u, mc, tun; discriminate. }
    subst s. unfold emit. cbn [t_secure]. eexists. split; [reflexivity|].
    split; [reflexivity|]. split; [reflexivity|]. apply unprotect_protect.
  Qed.

  (* and the key material itself never travels in clear: a plain RTSP server accepts no transport
     with the secure profile (the MIKEY message of a secure SETUP would be readable) *)
  Theorem keys_never_in_clear : forall sc tr,
    sc_tls sc = false -> is_transport_supported sc tr = true -> t_secure tr = false.
  Proof.
    intros [u mc tls tun] [pr d s] Htls Hs. cbn in *. subst tls.
    unfold is_transport_supported in Hs. cbn in Hs.
    destruct s; [|reflexivity]. destruct pr, d, u, mc, tun; discriminate.
  Qed.
End IdealCipher.

(* non-vacuity of the Section hypotheses: they are satisfiable (a toy instance in which the tag IS
   the authenticated message) -- so the theorems above are not vacuous.  This instance is of course
   not a secure cipher; it only shows consistency of the premises. *)
Definition toy_ks (k : list N) (s i : N) (n : nat) : list N := repeat (N.lxor (hd 0 k) (N.lxor s i)) n.
Definition toy_mac (k : list N) (m : list N * list N * N) : list N :=
  let '(h, b, r) := m in
  [N.of_nat (length h); N.of_nat (length b)] ++ h ++ b ++ [r] ++ k.

Lemma toy_ks_length k s i n : length (toy_ks k s i n) = n.
Proof. apply repeat_length. Qed.

Lemma app_inj_length {A} (a a' b b' : list A) : length a = length a' -> a ++ b = a' ++ b' -> a = a' /\ b = b'.
Proof.
  revert a'. induction a as [|x a IH]; intros [|y a'] Hl H; try discriminate.
  - split; [reflexivity|exact H].
  - cbn [app] in H. injection H as Hx H. subst y. cbn [length] in Hl.
    assert (Hl' : length a = length a') by lia.
    destruct (IH a' Hl' H) as (-> & ->). split; reflexivity.
Qed.

Lemma toy_mac_inj k m m' : toy_mac k m = toy_mac k m' -> m = m'.
Proof.
  destruct m as [[h b] r], m' as [[h' b'] r']. unfold toy_mac. cbn [app].
  intros H. injection H as Hlh Hlb H.
  apply Nat2N.inj in Hlh, Hlb.
  destruct (app_inj_length h h' _ _ Hlh H) as (-> & H2).
  destruct (app_inj_length b b' _ _ Hlb H2) as (-> & H3).
  injection H3 as ->. reflexivity.
Qed.

Example ideal_cipher_premises_satisfiable :
  let p := mkRtp [128;96] [10;20;30] in
  let c := protect toy_ks toy_mac (fun _ => 7) (fun _ => 65535) [1;2;3] [9;9;9;9] 4 p in
  unprotect toy_ks toy_mac (fun _ => 7) (fun _ => 65535) [1;2;3] [9;9;9;9] 4 c = Some p /\
  (forall r', unprotect toy_ks toy_mac (fun _ => 7) (fun _ => 65535) [1;2;3] [9;9;9;9] r' c <> None <-> r' = 4).
Proof.
  split.
  - apply unprotect_protect; first [exact toy_ks_length | exact toy_mac_inj].
  - intros r'. apply unprotect_iff_roc; first [exact toy_ks_length | exact toy_mac_inj].
Qed.

(* Executable model for C17 (domain "secure").  Proof-free.

   What is modelled (file:line in /repo, pinned tree):
   - wrapped_srtp_context.go:37-117   mikeyToContext   -> [of_mikey]
   - wrapped_srtp_context.go:119-235  contextToMikey   -> [to_mikey]
   - wrapped_srtp_context.go:250-270  initialize       -> [initialize]
   - pion/srtp context.go nextRolloverCount / updateRolloverCount / SetROC / ROC
                                                       -> [next_roc] [update_roc] [set_roc] [roc_of]
   - server_session.go:198-236        isTransportSupported / pickFirstSupportedTransport
                                                       -> [is_transport_supported] [pick_first]
   - client.go:1575-1585, 1663-1703, 1738-1742, 1861-1874, 2070-2072
                                      the client's secure flag / protocol / profile choice
                                                       -> [announce_secure] [client_choice] [client_session]
   - client.go:1478-1499              redirect handling with the scheme downgrade check
                                                       -> [redirect_step] [follow]
   - client_format.go:233-270, server_session_format.go:237-274  readPacketRTP: remote-SSRC check in
                                      front of decryption, latch after it (fix e33be43)   -> [filter_step] [filter_run]
   The MIKEY message is an abstract record (fields of pkg/mikey's structs that the two conversion
   functions read or write); its byte-level marshalling is domain "mikey" (C09). *)
From GVL Require Import NList Wire.
From GVG Require Import Consts.
Open Scope N_scope.

(* ------------------------------------------------------------------------------------------ *)
(* 1. pion/srtp per-SSRC state and roll-over counter tracking                                  *)
(* ------------------------------------------------------------------------------------------ *)

Record sstate := mkSS { ss_index : N; ss_proc : bool }.   (* index (ROC<<16|SEQ), rolloverHasProcessed *)

Definition two16 : N := 65536.
Definition two32 : N := 4294967296.

(* nextRolloverCount: (guessed ROC, difference, overflow) *)
Definition next_roc (s : sstate) (seq : N) : N * Z * bool :=
  let local_roc := (ss_index s / two16) mod two32 in   (* uint32(s.index >> 16) *)
  let local_seq := ss_index s mod two16 in
  let zs := Z.of_N seq in
  let zl := Z.of_N local_seq in
  let '(guess, diff) :=
    if ss_proc s then
      if sec_seq_median <? ss_index s then
        if local_seq <? sec_seq_median then
          if (Z.of_N sec_seq_median <? zs - zl)%Z
          then ((local_roc + two32 - 1) mod two32, (zs - zl - Z.of_N sec_seq_max)%Z)
          else (local_roc, (zs - zl)%Z)
        else
          if (zs <? zl - Z.of_N sec_seq_median)%Z
          then ((local_roc + 1) mod two32, (zs - zl + Z.of_N sec_seq_max)%Z)
          else (local_roc, (zs - zl)%Z)
      else (local_roc, (zs - zl)%Z)
    else (local_roc, 0%Z) in
  (guess, diff, (guess =? 0) && (local_roc =? sec_max_roc)).

(* updateRolloverCount with hasRemoteRoc = false *)
Definition update_roc (s : sstate) (seq : N) (diff : Z) : sstate :=
  if negb (ss_proc s) then mkSS (N.lor (ss_index s) seq) true
  else if (0 <? diff)%Z then mkSS (ss_index s + Z.to_N diff) true
  else s.

(* Context.SetROC *)
Definition fresh_state (roc : N) : sstate := mkSS (roc * two16) false.

(* the per-context map ssrc -> state (Go map; only point lookups and point updates are used) *)
Definition smap := list (N * sstate).

Fixpoint sm_get (m : smap) (ssrc : N) : option sstate :=
  match m with
  | [] => None
  | (k, v) :: t => if k =? ssrc then Some v else sm_get t ssrc
  end.

Fixpoint sm_set (m : smap) (ssrc : N) (v : sstate) : smap :=
  match m with
  | [] => [(ssrc, v)]
  | (k, v0) :: t => if k =? ssrc then (k, v) :: t else (k, v0) :: sm_set t ssrc v
  end.

(* ------------------------------------------------------------------------------------------ *)
(* 2. wrappedSRTPContext                                                                        *)
(* ------------------------------------------------------------------------------------------ *)

Record ctx := mkCtx {
  c_key : list N;        (* master key ++ master salt *)
  c_mki : list N;
  c_ssrcs : list N;
  c_start : list N;      (* startROCs *)
  c_states : smap }.     (* srtp.Context.srtpSSRCStates *)

Inductive ires := IOk (c : ctx) | IErr | IPanic.

(* for i, roc := range startROCs { w.SetROC(ssrcs[i], roc) }   -- ssrcs[i] is a checked index *)
Fixpoint set_rocs (ssrcs : list N) (i : N) (starts : list N) (m : smap) : option smap :=
  match starts with
  | [] => Some m
  | r :: t =>
    match nnth i ssrcs with
    | None => None
    | Some s => set_rocs ssrcs (i + 1) t (sm_set m s (fresh_state r))
    end
  end.

(* initialize(): key[:16], key[16:] are slice expressions; CreateContext checks both lengths *)
Definition initialize (key mki ssrcs starts : list N) : ires :=
  if nlen key <? 16 then IPanic
  else if negb (nlen key =? sec_key_length) then IErr
  else match set_rocs ssrcs 0 starts [] with
       | None => IPanic
       | Some m => IOk (mkCtx key mki ssrcs starts m)
       end.

(* wrappedSRTPContext.roc: v, _ := w.ROC(ssrc) *)
Definition roc_of (c : ctx) (ssrc : N) : N :=
  match sm_get (c_states c) ssrc with
  | None => 0
  | Some s => (ss_index s / two16) mod two32     (* uint32(state.index >> 16) *)
  end.

(* one SSRC state under EncryptRTP: Some (new state, ROC the packet is protected with); None = errExceededMaxPackets *)
Definition st_send (s : sstate) (seq : N) : option (sstate * N) :=
  let '(roc, diff, ovf) := next_roc s seq in
  if ovf then None else Some (update_roc s seq diff, roc).

(* one SSRC state under DecryptRTP of a packet that was protected with ROC [proc_roc] under the same
   key, with an ideal authenticated cipher: accepted iff the guessed ROC is the one the sender used
   (Cipher.v proves this equivalence from the cipher hypotheses).  The state is committed only on success. *)
Definition st_recv (s : sstate) (seq proc_roc : N) : sstate * bool :=
  let '(roc, diff, _) := next_roc s seq in
  if roc =? proc_roc then (update_roc s seq diff, true) else (s, false).

(* getSRTPSSRCState: a missing entry is a zero state *)
Definition get_state (c : ctx) (ssrc : N) : sstate :=
  match sm_get (c_states c) ssrc with Some s => s | None => mkSS 0 false end.
Definition with_state (c : ctx) (ssrc : N) (s : sstate) : ctx :=
  mkCtx (c_key c) (c_mki c) (c_ssrcs c) (c_start c) (sm_set (c_states c) ssrc s).

Definition ctx_send (c : ctx) (ssrc seq : N) : option (ctx * N) :=
  match st_send (get_state c ssrc) seq with
  | None => None
  | Some (s', roc) => Some (with_state c ssrc s', roc)
  end.

Definition ctx_recv (c : ctx) (ssrc seq proc_roc : N) : ctx * bool :=
  let '(s', ok) := st_recv (get_state c ssrc) seq proc_roc in
  if ok then (with_state c ssrc s', true) else (c, false).

(* ------------------------------------------------------------------------------------------ *)
(* 3. abstract MIKEY message and the two conversions                                            *)
(* ------------------------------------------------------------------------------------------ *)

Record id_entry := mkId { id_policy : N; id_ssrc : N; id_roc : N }.   (* mikey.SRTPIDEntry *)
Record sp_param := mkSP { sp_type : N; sp_value : list N }.           (* mikey.PayloadSPPolicyParam *)
Record key_data := mkKD { kd_type : N; kd_kv : N; kd_key : list N; kd_spi : list N }.  (* SubPayloadKeyData *)

Inductive payload :=
| PT (tstype tsvalue : N)
| PRAND (data : list N)
| PSP (policy_no prot : N) (params : list sp_param)
| PKEMAC (subs : list key_data).

Record mikey := mkMikey { mk_csbid : N; mk_ids : list id_entry; mk_payloads : list payload }.

(* randomness and clock consumed by contextToMikey *)
Record entropy := mkEnt { e_csbid : N; e_rand : list N; e_ts : N }.

(* constants returned by srtp.ProtectionProfileAes128CmHmacSha1_80.{KeyLen,AuthKeyLen,AuthTagRTPLen}() *)
Definition prof_key_len : N := 16.
Definition prof_auth_key_len : N := 20.
Definition prof_auth_tag_len : N := 10.

Definition kv_null : N := sec_kv_null.
Definition kv_spi : N := sec_kv_spi.
Definition kd_type_tek : N := sec_kd_type_tek.

Definition to_mikey (c : ctx) (e : entropy) : mikey :=
  mkMikey (e_csbid e)
    (map (fun s => mkId 0 s (roc_of c s)) (c_ssrcs c))
    [ PT 0 (e_ts e);
      PRAND (e_rand e);
      PSP 0 0 [ mkSP sec_sp_encr_alg [1];
                mkSP sec_sp_encr_key_len [prof_key_len];
                mkSP sec_sp_auth_alg [1];
                mkSP sec_sp_auth_key_len [prof_auth_key_len];
                mkSP sec_sp_srtp_encr [1];
                mkSP sec_sp_srtcp_encr [1];
                mkSP sec_sp_srtp_auth [1];
                mkSP sec_sp_auth_tag_len [prof_auth_tag_len] ];
      PKEMAC [ mkKD kd_type_tek (if nlen (c_mki c) =? 0 then kv_null else kv_spi) (c_key c) (c_mki c) ] ].

(* mikeyGetPayload[T]: first payload of that type *)
Fixpoint find_t (l : list payload) : option N :=
  match l with [] => None | PT _ v :: _ => Some v | _ :: t => find_t t end.
Fixpoint find_sp (l : list payload) : option (list sp_param) :=
  match l with [] => None | PSP _ _ ps :: _ => Some ps | _ :: t => find_sp t end.
Fixpoint find_kemac (l : list payload) : option (list key_data) :=
  match l with [] => None | PKEMAC ks :: _ => Some ks | _ :: t => find_kemac t end.
(* mikeyGetSPPolicy: first parameter of that type *)
Fixpoint find_policy (ps : list sp_param) (ty : N) : option (list N) :=
  match ps with
  | [] => None
  | p :: t => if sp_type p =? ty then Some (sp_value p) else find_policy t ty
  end.

Definition bytes1 (v : option (list N)) (x : N) : bool :=
  match v with Some [y] => y =? x | _ => false end.

(* ntp.Decode + time.Since: all integer arithmetic (the float64 conversion in Decode is applied to an
   integer below 10^9, which is exact).  now_ns: Unix nanoseconds at the time of the check. *)
Definition ntp_epoch_offset : Z := 2208988800.
Definition ts_unix_ns (v : N) : Z :=
  ((Z.of_N (v / two32) - ntp_epoch_offset) * 1000000000 + Z.of_N (((v mod two32) * 1000000000) / two32))%Z.
Definition hour_ns : Z := 3600000000000.
Definition time_ok (now_ns : Z) (v : N) : bool :=
  let diff := (now_ns - ts_unix_ns v)%Z in
  negb ((diff <? - hour_ns)%Z || (hour_ns <? diff)%Z).

Inductive mres := MOk (c : ctx) | MErr (class : N) | MPanic.

Definition of_mikey (now_ns : Z) (m : mikey) : mres :=
  match find_t (mk_payloads m) with
  | None => MErr 1
  | Some ts =>
    if negb (time_ok now_ns ts) then MErr 2 else
    match find_sp (mk_payloads m) with
    | None => MErr 3
    | Some ps =>
      if negb (bytes1 (find_policy ps sec_sp_encr_alg) 1) then MErr 4 else
      if negb (bytes1 (find_policy ps sec_sp_encr_key_len) 16) then MErr 5 else
      if negb (bytes1 (find_policy ps sec_sp_auth_alg) 1) then MErr 6 else
      if negb (bytes1 (find_policy ps sec_sp_srtp_encr) 1) then MErr 7 else
      if negb (bytes1 (find_policy ps sec_sp_srtcp_encr) 1) then MErr 8 else
      if negb (bytes1 (find_policy ps sec_sp_srtp_auth) 1) then MErr 9 else
      match find_kemac (mk_payloads m) with
      | None => MErr 10
      | Some ks =>
        match ks with
        | [k] =>
          if negb (nlen (kd_key k) =? sec_key_length) then MErr 12 else
          match initialize (kd_key k) (kd_spi k) (map id_ssrc (mk_ids m)) (map id_roc (mk_ids m)) with
          | IOk c => MOk c
          | IErr => MErr 13
          | IPanic => MPanic
          end
        | _ => MErr 11
        end
      end
    end
  end.

(* ------------------------------------------------------------------------------------------ *)
(* 4. server-side admission of a transport                                                      *)
(* ------------------------------------------------------------------------------------------ *)

Inductive tproto := TUdp | TTcp.                          (* headers.TransportProtocol *)
Inductive tdeliv := DNone | DUnicast | DMulticast.         (* *headers.TransportDelivery *)
Record transport := mkTr { t_proto : tproto; t_deliv : tdeliv; t_secure : bool }.  (* secure = profile SAVP *)

Record sconn := mkSc {
  sc_udp : bool;       (* s.udpRTPListener != nil *)
  sc_mc : bool;        (* s.MulticastIPRange != "" *)
  sc_tls : bool;       (* s.TLSConfig != nil *)
  sc_tunnel : bool }.  (* sc.tunnel != TunnelNone *)

Definition is_mc (d : tdeliv) : bool := match d with DMulticast => true | _ => false end.

Definition is_transport_supported (sc : sconn) (tr : transport) : bool :=
  (match t_proto tr with
   | TUdp =>
     negb (negb (is_mc (t_deliv tr)) && negb (sc_udp sc))
     && negb (is_mc (t_deliv tr) && negb (sc_mc sc))
     && negb (sc_tunnel sc)
     && negb (negb (t_secure tr) && sc_tls sc)
   | TTcp => true
   end)
  && negb (t_secure tr && negb (sc_tls sc)).

(* index of the first supported transport *)
Fixpoint pick_first (sc : sconn) (l : list transport) : option (N * transport) :=
  match l with
  | [] => None
  | tr :: t =>
    if is_transport_supported sc tr then Some (0, tr)
    else match pick_first sc t with
         | Some (i, x) => Some (i + 1, x)
         | None => None
         end
  end.

(* ------------------------------------------------------------------------------------------ *)
(* 5. client-side choice of protocol and profile                                                *)
(* ------------------------------------------------------------------------------------------ *)

Inductive cproto := CUdp | CMulticast | CTcp.             (* gortsplib.Protocol *)

Record client := mkCl {
  cl_rtsps : bool;                 (* c.Scheme == "rtsps" *)
  cl_proto : option cproto;        (* c.Protocol *)
  cl_tunnel : bool }.              (* c.Tunnel != TunnelNone *)

(* StartRecording/doAnnounce: the secure flag decides the profile of every announced media *)
Definition announce_secure (cl : client) (any_media_secure : bool) : bool :=
  match cl_proto cl with
  | Some CTcp => if cl_rtsps cl then any_media_secure else cl_rtsps cl
  | _ => cl_rtsps cl
  end.

Inductive cres := COk (p : cproto) (secure : bool) | CErrSecureUDP | CErrH264.

(* doSetup up to the point where the request is sent.
   prev = c.setuppedTransport; media_secure = isSecure(medi.Profile); playing = state is Initial/PrePlay *)
Definition client_choice (cl : client) (prev : option (cproto * bool))
           (media_secure h264m0 playing : bool) : cres :=
  let '(p, sec) :=
    match prev with
    | Some ps => ps
    | None =>
      (match cl_proto cl with
       | Some p => p
       | None =>
         if h264m0 && playing then CTcp
         else if cl_rtsps cl && negb media_secure then CTcp
         else if cl_tunnel cl then CTcp
         else CUdp
       end,
       cl_rtsps cl && media_secure)
    end in
  match p with
  | CTcp => if h264m0 && negb playing then CErrH264 else COk p sec
  | _ =>
    if cl_rtsps cl && negb sec then CErrSecureUDP
    else if h264m0 then CErrH264
    else COk p sec
  end.

(* a whole SETUP exchange against a server that answers 461 to every SETUP:
   list of requests sent, then the terminal class (1 secure-UDP error, 2 H264 error, 3 bad status) *)
Definition client_session (cl : client) (media_secure h264m0 playing : bool) : list (cproto * bool) * N :=
  match client_choice cl None media_secure h264m0 playing with
  | CErrSecureUDP => ([], 1)
  | CErrH264 => ([], 2)
  | COk p sec =>
    match cl_proto cl with
    | Some _ => ([(p, sec)], 3)
    | None =>
      (* automatic switch to TCP, same profile *)
      match client_choice cl (Some (CTcp, sec)) media_secure h264m0 playing with
      | CErrSecureUDP => ([(p, sec)], 1)
      | CErrH264 => ([(p, sec)], 2)
      | COk p2 sec2 => ([(p, sec); (p2, sec2)], 3)
      end
    end
  end.

(* the client refuses a response whose profile differs from the requested one *)
Definition response_profile_ok (req_secure res_secure : bool) : bool := Bool.eqb req_secure res_secure.

(* ------------------------------------------------------------------------------------------ *)
(* 6. redirects                                                                                 *)
(* ------------------------------------------------------------------------------------------ *)

Inductive scheme := SRtsp | SRtsps | SOther.

Inductive rres := RFollow (now_rtsps : bool) | RDowngrade | RBadURL.

(* one redirect answer while connected with scheme cur *)
Definition redirect_step (cur_rtsps : bool) (target : scheme) : rres :=
  match target with
  | SOther => RBadURL                        (* base.ParseURL: unsupported scheme *)
  | SRtsps => RFollow true
  | SRtsp => if cur_rtsps then RDowngrade else RFollow false
  end.

(* the schemes of all connections made while following a chain of redirect targets, and how it ended
   (0 chain exhausted, 1 downgrade refused, 2 bad URL, 3 too many redirects: doDescribeInner refuses
   the redirect when clientMaxRedirects have already been followed) *)
Fixpoint follow_n (count : N) (cur_rtsps : bool) (chain : list scheme) : list bool * N :=
  match chain with
  | [] => ([cur_rtsps], 0)
  | t :: rest =>
    if sec_max_redirects <=? count then ([cur_rtsps], 3) else
    match redirect_step cur_rtsps t with
    | RDowngrade => ([cur_rtsps], 1)
    | RBadURL => ([cur_rtsps], 2)
    | RFollow b => let '(l, e) := follow_n (count + 1) b rest in (cur_rtsps :: l, e)
    end
  end.

Definition follow (cur_rtsps : bool) (chain : list scheme) : list bool * N := follow_n 0 cur_rtsps chain.

(* ------------------------------------------------------------------------------------------ *)
(* 7. the remote-SSRC latch in front of decryption (clientFormat / serverSessionFormat)          *)
(* ------------------------------------------------------------------------------------------ *)

Record latch := mkLatch { l_filled : bool; l_value : N }.   (* remoteSSRCFilled, remoteSSRCValue *)

Inductive revent := EWrongSSRC | EDecodeError | EDelivered.

(* one inbound RTP packet of a format: its header SSRC and whether decodeRTP succeeds (with an ideal
   cipher: the packet is genuine and its ROC is guessed right; without SRTP: always).
   secure = (srtpInCtx != nil).
   Code as of /repo e33be43 ("latch the remote SSRC only after a packet has been decoded"):
     if filled && secure && ssrc != value  -> "wrong SSRC" decode error
     decodeRTP fails                       -> decode error, latch untouched
     otherwise: latch the SSRC if not yet latched, deliver. *)
Definition filter_step (secure : bool) (l : latch) (ssrc : N) (auth_ok : bool) : latch * revent :=
  if l_filled l && secure && negb (l_value l =? ssrc) then (l, EWrongSSRC)
  else if auth_ok then ((if l_filled l then l else mkLatch true ssrc), EDelivered)
  else (l, EDecodeError).

Fixpoint filter_run (secure : bool) (l : latch) (pkts : list (N * bool)) : list revent :=
  match pkts with
  | [] => []
  | (ssrc, ok) :: t => let '(l', e) := filter_step secure l ssrc ok in e :: filter_run secure l' t
  end.

(* the code BEFORE e33be43 (pinned tree 55be630): the latch was written before the packet was
   authenticated.  Kept only for the regression lemmas in Proofs.v; not used by [run]. *)
Definition filter_step_old (secure : bool) (l : latch) (ssrc : N) (auth_ok : bool) : latch * revent :=
  if negb (l_filled l) then (mkLatch true ssrc, if auth_ok then EDelivered else EDecodeError)
  else if secure && negb (l_value l =? ssrc) then (l, EWrongSSRC)
  else (l, if auth_ok then EDelivered else EDecodeError).

Fixpoint filter_run_old (secure : bool) (l : latch) (pkts : list (N * bool)) : list revent :=
  match pkts with
  | [] => []
  | (ssrc, ok) :: t => let '(l', e) := filter_step_old secure l ssrc ok in e :: filter_run_old secure l' t
  end.

(* ------------------------------------------------------------------------------------------ *)
(* 8. line protocol                                                                             *)
(* ------------------------------------------------------------------------------------------ *)

Definition put_ctx (c : ctx) : list N :=
  [1] ++ putl (c_key c) ++ putl (c_mki c) ++ putl (c_ssrcs c) ++ putl (c_start c)
      ++ putl (map (roc_of c) (c_ssrcs c)).

Definition put_mres (r : mres) : list N :=
  match r with
  | MOk c => put_ctx c
  | MErr k => [0; k]
  | MPanic => [77]
  end.

(* pre-sends: pairs (ssrc, seq) encrypted by the context before the conversion *)
Fixpoint do_sends (c : ctx) (l : list N) (fuel : list N) : option ctx :=
  match fuel with
  | [] => Some c
  | _ :: fuel' =>
    match l with
    | [] => Some c
    | ssrc :: seq :: t =>
      match ctx_send c ssrc seq with
      | Some (c', _) => do_sends c' t fuel'
      | None => None
      end
    | _ => None
    end
  end.

Definition unix0_ntp : N := 2208988800 * two32.

Definition put_sp (p : sp_param) : list N := sp_type p :: putl (sp_value p).
Definition put_kd (k : key_data) : list N := [kd_type k; kd_kv k] ++ putl (kd_key k) ++ putl (kd_spi k).
Definition put_payload (p : payload) : list N :=
  match p with
  | PT a _ => [5; a]
  | PRAND d => [11; nlen d]
  | PSP a b ps => [10; a; b; nlen ps] ++ concat (map put_sp ps)
  | PKEMAC ks => [1; nlen ks] ++ concat (map put_kd ks)
  end.
Definition put_mikey (m : mikey) : list N :=
  [nlen (mk_ids m)] ++ concat (map (fun e => [id_policy e; id_ssrc e; id_roc e]) (mk_ids m))
  ++ [nlen (mk_payloads m)] ++ concat (map put_payload (mk_payloads m)).

(* decoding of an abstract message *)
Fixpoint get_ids (k : nat) (l : list N) : option (list id_entry * list N) :=
  match k with
  | O => Some ([], l)
  | S k' =>
    match l with
    | a :: b :: c :: t =>
      match get_ids k' t with
      | Some (es, r) => Some (mkId a b c :: es, r)
      | None => None
      end
    | _ => None
    end
  end.

Fixpoint get_sps (fuel : list N) (k : N) (l : list N) : option (list sp_param * list N) :=
  if k =? 0 then Some ([], l) else
  match fuel with
  | [] => None
  | _ :: fuel' =>
    match l with
    | ty :: t =>
      match getl t with
      | Some (v, r) =>
        match get_sps fuel' (N.pred k) r with
        | Some (ps, r') => Some (mkSP ty v :: ps, r')
        | None => None
        end
      | None => None
      end
    | [] => None
    end
  end.

Fixpoint get_kds (fuel : list N) (k : N) (l : list N) : option (list key_data * list N) :=
  if k =? 0 then Some ([], l) else
  match fuel with
  | [] => None
  | _ :: fuel' =>
    match l with
    | ty :: kv :: t =>
      match getl t with
      | Some (key, r) =>
        match getl r with
        | Some (spi, r2) =>
          match get_kds fuel' (N.pred k) r2 with
          | Some (ks, r') => Some (mkKD ty kv key spi :: ks, r')
          | None => None
          end
        | None => None
        end
      | None => None
      end
    | _ => None
    end
  end.

Fixpoint get_payloads (fuel : list N) (k : N) (l : list N) : option (list payload * list N) :=
  if k =? 0 then Some ([], l) else
  match fuel with
  | [] => None
  | _ :: fuel' =>
    let continue (p : payload) (r : list N) :=
      match get_payloads fuel' (N.pred k) r with
      | Some (ps, r') => Some (p :: ps, r')
      | None => None
      end in
    match l with
    | 5 :: a :: v :: t => continue (PT a v) t
    | 11 :: t => match getl t with Some (d, r) => continue (PRAND d) r | None => None end
    | 10 :: a :: b :: n :: t =>
      match get_sps t n t with Some (ps, r) => continue (PSP a b ps) r | None => None end
    | 1 :: n :: t =>
      match get_kds t n t with Some (ks, r) => continue (PKEMAC ks) r | None => None end
    | _ => None
    end
  end.

Definition get_mikey (l : list N) : option mikey :=
  match l with
  | n :: t =>
    match get_ids (N.to_nat n) t with
    | Some (ids, np :: r) =>
      match get_payloads r np r with
      | Some (ps, []) => Some (mkMikey 0 ids ps)
      | _ => None
      end
    | _ => None
    end
  | [] => None
  end.

Definition get_proto (x : N) : option tproto := match x with 0 => Some TUdp | 1 => Some TTcp | _ => None end.
Definition get_deliv (x : N) : option tdeliv :=
  match x with 0 => Some DNone | 1 => Some DUnicast | 2 => Some DMulticast | _ => None end.

Fixpoint get_transports (fuel : list N) (l : list N) : option (list transport) :=
  match l with
  | [] => Some []
  | p :: d :: s :: t =>
    match fuel with
    | [] => None
    | _ :: fuel' =>
      match get_proto p, get_deliv d, get_transports fuel' t with
      | Some p', Some d', Some r => Some (mkTr p' d' (getb s) :: r)
      | _, _, _ => None
      end
    end
  | _ => None
  end.

Definition put_cproto (p : cproto) : N := match p with CUdp => 1 | CMulticast => 2 | CTcp => 3 end.
Definition get_cproto (x : N) : option (option cproto) :=
  match x with
  | 0 => Some None | 1 => Some (Some CUdp) | 2 => Some (Some CMulticast) | 3 => Some (Some CTcp)
  | _ => None
  end.

Fixpoint get_schemes (l : list N) : option (list scheme) :=
  match l with
  | [] => Some []
  | x :: t =>
    match get_schemes t with
    | None => None
    | Some r =>
      match x with
      | 0 => Some (SRtsp :: r) | 1 => Some (SRtsps :: r) | 2 => Some (SOther :: r) | _ => None
      end
    end
  end.

(* kind 4 helpers: sender encrypts seqs, receiver is handed some of them (by position) *)
Fixpoint send_all (c : ctx) (ssrc : N) (seqs : list N) : list (N * N * N) * ctx :=
  (* per packet: (seq, ROC it is protected with, ROC() of the sender afterwards) *)
  match seqs with
  | [] => ([], c)
  | q :: t =>
    match ctx_send c ssrc q with
    | None => ([], c)
    | Some (c', r) => let '(l, c'') := send_all c' ssrc t in ((q, r, roc_of c' ssrc) :: l, c'')
    end
  end.

Fixpoint recv_all (c : ctx) (ssrc : N) (sent : list (N * N * N)) (order : list N) : list N :=
  match order with
  | [] => []
  | i :: t =>
    match nnth i sent with
    | None => [99]
    | Some (q, r, _) =>
      let '(c', ok) := ctx_recv c ssrc q r in
      putb ok :: roc_of c' ssrc :: recv_all c' ssrc sent t
    end
  end.

(* kind 10: everything delivered, in order (no index lookups: linear) *)
Fixpoint recv_inorder (c : ctx) (ssrc : N) (sent : list (N * N * N)) : list N :=
  match sent with
  | [] => []
  | (q, r, _) :: t =>
    let '(c', ok) := ctx_recv c ssrc q r in
    putb ok :: roc_of c' ssrc :: recv_inorder c' ssrc t
  end.

Fixpoint get_pairs (l : list N) : option (list (N * bool)) :=
  match l with
  | [] => Some []
  | a :: b :: t => match get_pairs t with Some r => Some ((a, getb b) :: r) | None => None end
  | _ => None
  end.

Definition put_revent (e : revent) : N :=
  match e with EWrongSSRC => 0 | EDecodeError => 1 | EDelivered => 2 end.

Definition key30 : list N := nrep 0 30.

Definition run (c : list N) : list N :=
  match c with
  (* 1: conversion round trip: key mki ssrcs starts presends *)
  | 1 :: t =>
    match getl t with
    | Some (key, t1) =>
      match getl t1 with
      | Some (mki, t2) =>
        match getl t2 with
        | Some (ssrcs, t3) =>
          match getl t3 with
          | Some (starts, t4) =>
            match getl t4 with
            | Some (sends, []) =>
              match initialize key mki ssrcs starts with
              | IPanic => [77]
              | IErr => [0; 13]
              | IOk c0 =>
                match do_sends c0 sends sends with
                | None => [0; 14]
                | Some c1 => put_mres (of_mikey 0 (to_mikey c1 (mkEnt 0 [] unix0_ntp)))
                end
              end
            | _ => bad_case
            end
          | None => bad_case
          end
        | None => bad_case
        end
      | None => bad_case
      end
    | None => bad_case
    end
  (* 2: projection of contextToMikey's output: key mki ssrcs starts *)
  | 2 :: t =>
    match getl t with
    | Some (key, t1) =>
      match getl t1 with
      | Some (mki, t2) =>
        match getl t2 with
        | Some (ssrcs, t3) =>
          match getl t3 with
          | Some (starts, []) =>
            match initialize key mki ssrcs starts with
            | IOk c0 => put_mikey (to_mikey c0 (mkEnt 0 (nrep 0 16) 0))
            | IErr => [0; 13]
            | IPanic => [77]
            end
          | _ => bad_case
          end
        | None => bad_case
        end
      | None => bad_case
      end
    | None => bad_case
    end
  (* 3: mikeyToContext on an arbitrary message: now(sign, magnitude) message *)
  | 3 :: s :: m :: t =>
    match get_mikey t with
    | Some msg => put_mres (of_mikey (getz s m) msg)
    | None => bad_case
    end
  (* 4: ROC tracking: sender start ROC, receiver start ROC, seqs, delivery order *)
  | 4 :: sroc :: rroc :: t =>
    match getl t with
    | Some (seqs, t1) =>
      match getl t1 with
      | Some (order, []) =>
        match initialize key30 [] [7] [sroc], initialize key30 [] [7] [rroc] with
        | IOk a, IOk b =>
          let '(sent, _) := send_all a 7 seqs in
          putl (map (fun x => snd x) sent) ++ recv_all b 7 sent order
        | _, _ => bad_case
        end
      | _ => bad_case
      end
    | None => bad_case
    end
  (* 5: admission: has_udp has_mc has_tls tunnel transports *)
  | 5 :: u :: mc :: tls :: tun :: t =>
    match get_transports t t with
    | Some trs =>
      let sc := mkSc (getb u) (getb mc) (getb tls) (getb tun) in
      (match pick_first sc trs with Some (i, _) => i | None => nlen trs end)
      :: map (fun tr => putb (is_transport_supported sc tr)) trs
    | None => bad_case
    end
  (* 6: client choice: rtsps userproto tunnel media_secure h264m0 recording *)
  | [6; rtsps; up; tun; ms; h; recd] =>
    match get_cproto up with
    | Some p =>
      let cl := mkCl (getb rtsps) p (getb tun) in
      let msec := if getb recd then announce_secure cl (getb ms) else getb ms in
      let '(reqs, e) := client_session cl msec (getb h) (negb (getb recd)) in
      concat (map (fun r => [put_cproto (fst r); putb (snd r)]) reqs) ++ [0; e]
    | None => bad_case
    end
  (* 7: redirect chain: initial scheme, targets *)
  | 7 :: cur :: t =>
    match get_schemes t with
    | Some ch => let '(l, e) := follow (getb cur) ch in map putb l ++ [9; e]
    | None => bad_case
    end
  (* 8: response profile check *)
  | [8; a; b] => [putb (response_profile_ok (getb a) (getb b))]
  (* 9: SSRC latch: secure, then (ssrc, decodes) pairs in arrival order *)
  | 9 :: sec :: t =>
    match get_pairs t with
    | Some ps => map put_revent (filter_run (getb sec) (mkLatch false 0) ps)
    | None => bad_case
    end
  (* 10: ROC tracking, all packets delivered in order: sender start ROC, receiver start ROC, seqs *)
  | 10 :: sroc :: rroc :: t =>
    match getl t with
    | Some (seqs, []) =>
      match initialize key30 [] [7] [sroc], initialize key30 [] [7] [rroc] with
      | IOk a, IOk b =>
        let '(sent, _) := send_all a 7 seqs in
        putl (map (fun x => snd x) sent) ++ recv_inorder b 7 sent
      | _, _ => bad_case
      end
    | _ => bad_case
    end
  | _ => bad_case
  end.

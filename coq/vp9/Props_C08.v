(* C08, rtpvp9 — statements only *)
From GVL Require Import NList Rtp.
From GV_vp9 Require Import Model Proofs.
Open Scope N_scope.

(* every slice / index expression of Decode and of pion's VP9Packet.Unmarshal (picture ID, layer
   indices, reference indices, scalability structure) is in range, for arbitrary histories *)
Theorem C08_vp9_total : forall hist, ~ In DPanic (snd (dec_run dinit hist)).
Proof. exact total. Qed.
Print Assumptions C08_vp9_total.

(* for every history whose packets carry at most P payload bytes: retained bytes and retained
   slice headers stay within max(MaxFrameSize, P), and so does every returned frame.
   (Returned frames are fresh buffers or the packet's own payload: aliasing, harness oracle.) *)
Theorem C08_vp9_bounded : forall P hist,
  Forall (fun p => nlen (ppayload p) <= P) hist ->
  let '(d, rs) := dec_run dinit hist in
  fst (retained d) <= N.max cap P /\ snd (retained d) <= N.max cap P /\
  forall f, In (DFrame f) rs -> nlen f <= N.max cap P.
Proof. exact bounded. Qed.
Print Assumptions C08_vp9_bounded.

(* the same parser facts for the encoder side: pion's VP9 frame-header parser never panics *)
Theorem C08_vp9_header_parser_total : forall buf, vp9_header buf <> HPanic.
Proof. exact header_total. Qed.
Print Assumptions C08_vp9_header_parser_total.

(* ---- the translated kernels (tools/go2coq, spec.d/vp9.txt) ----
   len(vpkt.Payload) == 0, d.fragmentsSize += len(vpkt.Payload), d.fragmentsSize > vp9.MaxFrameSize ARE the tests of
   Model.dec (cap = GVG.Consts.vp9_max_frame). *)
From Coq Require Import ZArith.
From GVG Require Import Kern.
From GV_vp9 Require Import BridgeLib Bridge.
Open Scope Z_scope.
Theorem C08_vp9_kernels_are_the_code : forall (chunk : bytes) (fs : N), Z.of_N (fs + nlen chunk) < i64max ->
  k_vp9_dec_empty (Z.of_N (nlen chunk)) = (nlen chunk =? 0)%N /\
  k_vp9_dec_acc (Z.of_N fs) (Z.of_N (nlen chunk)) = Z.of_N (fs + nlen chunk) /\
  k_vp9_dec_cap (k_vp9_dec_acc (Z.of_N fs) (Z.of_N (nlen chunk))) (Z.of_N cap) = (cap <? fs + nlen chunk)%N.
Proof. exact caps_kernels_are_the_code. Qed.
Print Assumptions C08_vp9_kernels_are_the_code.

Example C08_vp9_example_kernels :
  k_vp9_dec_cap (k_vp9_dec_acc (Z.of_N cap - 5) 5) (Z.of_N cap) = false /\
  k_vp9_dec_cap (k_vp9_dec_acc (Z.of_N cap - 5) 6) (Z.of_N cap) = true /\ k_vp9_dec_empty 0 = true.
Proof. vm_compute. repeat split. Qed.

(* C08, rtpvp9 — statements only *)
From GVL Require Import NList Rtp.
From GV_vp9 Require Import Model Proofs.
Open Scope N_scope.

(* every slice / index expression of Decode and of pion's VP9Packet.Unmarshal (picture ID, layer
   indices, reference indices, scalability structure) is in range, for arbitrary histories *)
Theorem C08_vp9_total : forall hist, ~ In DPanic (snd (dec_run dinit hist)).
Proof. exact total. Qed.
Print Assumptions C08_vp9_total.

(* for every history whose packets carry at most P payload bytes: retained bytes and retained
   slice headers stay within max(MaxFrameSize, P), and so does every returned frame.
   (Returned frames are fresh buffers or the packet's own payload: aliasing, harness oracle.) *)
Theorem C08_vp9_bounded : forall P hist,
  Forall (fun p => nlen (ppayload p) <= P) hist ->
  let '(d, rs) := dec_run dinit hist in
  fst (retained d) <= N.max cap P /\ snd (retained d) <= N.max cap P /\
  forall f, In (DFrame f) rs -> nlen f <= N.max cap P.
Proof. exact bounded. Qed.
Print Assumptions C08_vp9_bounded.

(* the same parser facts for the encoder side: pion's VP9 frame-header parser never panics *)
Theorem C08_vp9_header_parser_total : forall buf, vp9_header buf <> HPanic.
Proof. exact header_total. Qed.
Print Assumptions C08_vp9_header_parser_total.

(* rtpvp9: the two external parsers as modelled - pion's VP9 frame-header parser never indexes out
   of range, VP9Packet.Unmarshal never slices out of range and reads back the descriptors the
   payloader writes. *)
From GVL Require Import NList Wire Chunks Rtp.
From GVG Require Import Consts.
From GV_vp9 Require Import Model.
From Coq Require Import ZifyBool ZifyNat ZifyN.
Open Scope N_scope.
Ltac Zify.zify_post_hook ::= Z.div_mod_to_equations.
Ltac splits := repeat match goal with |- _ /\ _ => split end.

Lemma nnth_none_ge {A} (l : list A) i : nnth i l = None -> nlen l <= i.
Proof.
  intros H. destruct (N.ltb_spec i (nlen l)) as [Hlt|Hge]; [|exact Hge].
  destruct (nnth_lt l i Hlt) as (x & Hx). congruence.
Qed.

(* ---------- vp9.Header.Unmarshal ---------- *)
Lemma bit_at_some buf pos : pos < 8 * nlen buf -> exists b, bit_at buf pos = Some b.
Proof.
  intros H. unfold bit_at. destruct (nnth_lt buf (pos / 8)) as (x & ->); [|eauto].
  apply N.div_lt_upper_bound; lia.
Qed.

Lemma rbits_some buf n : forall pos, pos + N.of_nat n <= 8 * nlen buf -> exists v, rbits buf pos n = Some v.
Proof.
  induction n as [|n IH]; intros pos H; cbn [rbits]; [eauto|].
  destruct (bit_at_some buf pos) as (b & ->); [lia|].
  destruct (IH (pos + 1)) as (r & ->); [lia|]. eauto.
Qed.

Ltac hdr_step :=
  match goal with
  | |- context [rbits ?buf ?pos ?n] =>
      let v := fresh "v" in let E := fresh "E" in
      destruct (rbits_some buf n pos) as (v & E); [unfold has_space in *; lia | rewrite E]
  | |- context [if ?b then _ else _] => let Eb := fresh "Eb" in destruct b eqn:Eb
  end.

Lemma color_config_total profile buf pos : color_config profile buf pos <> inl HPanic.
Proof. unfold color_config. repeat hdr_step; discriminate. Qed.

Lemma color_config_pos profile buf pos pos' : color_config profile buf pos = inr pos' -> pos <= pos'.
Proof.
  unfold color_config. repeat hdr_step; try discriminate; intros H; injection H as <-; lia.
Qed.

Theorem header_total buf : vp9_header buf <> HPanic.
Proof.
  unfold vp9_header, rd. repeat hdr_step; try discriminate.
  all: pose proof (color_config_total (2 * v1 + v0) buf (4 + 1 + 3 + 24)) as C1;
       pose proof (color_config_total (2 * v1 + v0) buf (5 + 1 + 3 + 24)) as C2.
  all: try (destruct (color_config (2 * v1 + v0) buf (5 + 1 + 3 + 24)) as [e|p] eqn:EC; [destruct e; try discriminate; contradiction|]).
  all: try (destruct (color_config (2 * v1 + v0) buf (4 + 1 + 3 + 24)) as [e|p] eqn:EC; [destruct e; try discriminate; contradiction|]).
  all: repeat hdr_step; discriminate.
Qed.

Lemma header_nil : vp9_header [] = HErr.
Proof. reflexivity. Qed.

(* ---------- VP9Packet.Unmarshal never slices out of range ---------- *)
Definition good (pl : bytes) (r : rr N) : Prop := r <> RPanic /\ forall pos, r = ROk pos -> pos <= nlen pl.

Lemma byte_at_cases pl pos : byte_at pl pos = RErr \/ exists b, byte_at pl pos = ROk b /\ pos < nlen pl.
Proof.
  unfold byte_at. destruct (N.leb_spec (nlen pl) pos); [left; reflexivity|right].
  destruct (nnth_lt pl pos H) as (b & ->). eauto.
Qed.

Lemma good_err pl : good pl RErr.
Proof. split; [discriminate|intros ? H; discriminate]. Qed.
Lemma good_ok pl p : p <= nlen pl -> good pl (ROk p).
Proof. intros H. split; [discriminate|]. intros ? E; injection E as <-; exact H. Qed.

Lemma good_byte_then pl pos (k : N -> rr N) :
  (forall b, pos < nlen pl -> good pl (k b)) -> good pl (rbind (byte_at pl pos) k).
Proof.
  intros H. destruct (byte_at_cases pl pos) as [->|(b & -> & Hlt)]; cbn [rbind]; [apply good_err|auto].
Qed.

Lemma good_picture_id pl pos : good pl (parse_picture_id pl pos).
Proof.
  unfold parse_picture_id. apply good_byte_then. intros b Hlt.
  destruct (bit b 7 =? 1); [|apply good_ok; lia].
  apply good_byte_then. intros _ Hlt2. apply good_ok. lia.
Qed.

Lemma good_layer_info pl pos f : good pl (parse_layer_info pl pos f).
Proof.
  unfold parse_layer_info. apply good_byte_then. intros b Hlt.
  destruct (vp9_max_spatial <=? (b / 2) mod 8); [apply good_err|].
  destruct f; [apply good_ok; lia|]. apply good_byte_then. intros _ Hlt2. apply good_ok. lia.
Qed.

Lemma good_ref_indices pl fuel : forall pos k, 3 - k < N.of_nat fuel -> good pl (parse_ref_indices fuel pl pos k).
Proof.
  induction fuel as [|f IH]; intros pos k H; [lia|]. cbn [parse_ref_indices].
  apply good_byte_then. intros b Hlt.
  destruct (bit b 0 =? 0); [apply good_ok; lia|].
  unfold vp9_max_refpics. destruct (N.leb_spec 3 (k + 1)); [apply good_err|]. apply IH. lia.
Qed.

Lemma good_ss_sizes pl n : forall pos, pos <= nlen pl -> good pl (ss_sizes n pl pos).
Proof.
  induction n as [|n IH]; intros pos H; cbn [ss_sizes]; [now apply good_ok|].
  destruct (N.leb_spec (nlen pl) (pos + 3)); [apply good_err|]. apply IH. lia.
Qed.

Lemma good_ss_groups pl n : forall pos, pos <= nlen pl -> good pl (ss_groups n pl pos).
Proof.
  induction n as [|n IH]; intros pos H; cbn [ss_groups]; [now apply good_ok|].
  apply good_byte_then. intros b Hlt.
  destruct (N.leb_spec (nlen pl) (pos + 1 + (b / 4) mod 4 - 1)); [apply good_err|]. apply IH. lia.
Qed.

Lemma good_bind pl (r : rr N) (k : N -> rr N) :
  good pl r -> (forall p, p <= nlen pl -> good pl (k p)) -> good pl (rbind r k).
Proof.
  intros [Hnp Hp] Hk. destruct r as [| |p]; cbn [rbind]; [apply good_err|contradiction|].
  apply Hk. now apply Hp.
Qed.

Lemma good_ss pl pos : good pl (parse_ss pl pos).
Proof.
  unfold parse_ss. apply good_byte_then. intros b Hlt.
  apply good_bind.
  - destruct (bit b 4 =? 1); [apply good_ss_sizes; lia|apply good_ok; lia].
  - intros p Hp. destruct (bit b 3 =? 1).
    + destruct (byte_at_cases pl p) as [->|(ng & -> & Hlt2)]; cbn [rbind]; [apply good_err|].
      cbn [fst snd]. apply good_ss_groups. lia.
    + cbn [rbind fst snd]. now apply good_ss_groups.
Qed.

Theorem unmarshal_total pl : vp9_unmarshal pl <> UPanic.
Proof.
  unfold vp9_unmarshal. destruct (N.ltb_spec (nlen pl) 1); [discriminate|].
  destruct (nnth_lt pl 0 ltac:(lia)) as (b0 & ->).
  match goal with |- match ?r with _ => _ end <> _ => assert (G : good pl r) end.
  { apply good_bind; [destruct (bit b0 7 =? 1); [apply good_picture_id|apply good_ok; lia]|].
    intros p1 Hp1. apply good_bind; [destruct (bit b0 5 =? 1); [apply good_layer_info|now apply good_ok]|].
    intros p2 Hp2. apply good_bind.
    - destruct ((bit b0 4 =? 1) && (bit b0 6 =? 1)); [apply good_ref_indices; cbn; lia|now apply good_ok].
    - intros p3 Hp3. destruct (bit b0 1 =? 1); [apply good_ss|now apply good_ok]. }
  destruct G as [Hnp Hpos].
  match goal with |- match ?r with _ => _ end <> _ => destruct r as [| |pos] end;
    [discriminate|contradiction|].
  specialize (Hpos pos eq_refl). destruct (N.ltb_spec (nlen pl) pos); [lia|discriminate].
Qed.

Lemma unmarshal_len pl b e c : vp9_unmarshal pl = UOk b e c -> nlen c <= nlen pl.
Proof.
  unfold vp9_unmarshal. destruct (nlen pl <? 1); [discriminate|].
  destruct (nnth 0 pl); [|discriminate].
  match goal with |- match ?r with _ => _ end = _ -> _ => destruct r as [| |pos] end; try discriminate.
  destruct (nlen pl <? pos); [discriminate|]. intros H; injection H as <- <- <-. rewrite nlen_ndrop. lia.
Qed.

(* ---------- reading back what the payloader writes ---------- *)
Lemma byte_at_some pl pos b : nnth pos pl = Some b -> byte_at pl pos = ROk b.
Proof.
  intros H. unfold byte_at. destruct (N.leb_spec (nlen pl) pos) as [Hle|Hlt].
  - rewrite nnth_ge in H by exact Hle. discriminate.
  - now rewrite H.
Qed.

Lemma pid_byte pid : pid < 32768 -> bit ((pid / 256) mod 256 + 128 - 128 * bit (pid / 256) 7) 7 = 1.
Proof. intros H. unfold bit. change (2 ^ 7) with 128. lia. Qed.

Lemma um_plain b0 b1 b2 chunk :
  bit b0 7 = 1 -> bit b0 5 = 0 -> bit b0 4 = 0 -> bit b0 1 = 0 -> bit b1 7 = 1 ->
  vp9_unmarshal (b0 :: b1 :: b2 :: chunk) = UOk (bit b0 3 =? 1) (bit b0 2 =? 1) chunk.
Proof.
  intros H7 H5 H4 H1 Hb1. unfold vp9_unmarshal. cbn [nlen].
  destruct (N.ltb_spec (N.succ (N.succ (N.succ (nlen chunk)))) 1); [lia|].
  cbn [nnth N.eqb]. rewrite H7, H5, H4, H1. cbn [N.eqb Pos.eqb andb].
  unfold parse_picture_id.
  rewrite (byte_at_some _ 1 b1) by reflexivity. cbn [rbind]. rewrite Hb1. cbn [N.eqb Pos.eqb].
  rewrite (byte_at_some _ (1 + 1) b2) by reflexivity. cbn [rbind].
  cbn [N.add Pos.add Pos.succ nlen].
  destruct (N.ltb_spec (N.succ (N.succ (N.succ (nlen chunk)))) 3); [lia|].
  cbn [ndrop N.eqb N.pred Pos.pred_N Pos.pred_double]. now rewrite ndrop_0.
Qed.

Lemma um_ss b0 b1 b2 x1 x2 x3 x4 chunk :
  bit b0 7 = 1 -> bit b0 5 = 0 -> bit b0 4 = 0 -> bit b0 1 = 1 -> bit b1 7 = 1 ->
  vp9_unmarshal (b0 :: b1 :: b2 :: 24 :: x1 :: x2 :: x3 :: x4 :: 1 :: 20 :: 1 :: chunk)
  = UOk (bit b0 3 =? 1) (bit b0 2 =? 1) chunk.
Proof.
  intros H7 H5 H4 H1 Hb1. unfold vp9_unmarshal. cbn [nlen].
  set (len := N.succ (N.succ (N.succ (N.succ (N.succ (N.succ (N.succ (N.succ (N.succ (N.succ (N.succ (nlen chunk)))))))))))).
  assert (Hlen : len = 11 + nlen chunk) by (unfold len; lia).
  destruct (N.ltb_spec len 1); [lia|].
  cbn [nnth N.eqb]. rewrite H7, H5, H4, H1. cbn [N.eqb Pos.eqb andb].
  unfold parse_picture_id.
  rewrite (byte_at_some _ 1 b1) by reflexivity. cbn [rbind]. rewrite Hb1. cbn [N.eqb Pos.eqb].
  rewrite (byte_at_some _ (1 + 1) b2) by reflexivity. cbn [rbind].
  unfold parse_ss. rewrite (byte_at_some _ (1 + 2) 24) by reflexivity. cbn [rbind].
  change (bit 24 4 =? 1) with true. change (bit 24 3 =? 1) with true.
  change (N.to_nat ((24 / 32) mod 8 + 1)) with 1%nat. cbn [ss_sizes nlen]. fold len.
  destruct (N.leb_spec len (1 + 2 + 1 + 3)); [lia|]. cbn [rbind].
  rewrite (byte_at_some _ (1 + 2 + 1 + 4) 1) by reflexivity. cbn [rbind fst snd].
  change (N.to_nat (1 mod 256)) with 1%nat. cbn [ss_groups].
  rewrite (byte_at_some _ (1 + 2 + 1 + 4 + 1) 20) by reflexivity. cbn [rbind].
  change ((20 / 4) mod 4) with 1. cbn [nlen]. fold len.
  destruct (N.leb_spec len (1 + 2 + 1 + 4 + 1 + 1 + 1 - 1)); [lia|].
  destruct (N.ltb_spec len (1 + 2 + 1 + 4 + 1 + 1 + 1)); [lia|].
  change (1 + 2 + 1 + 4 + 1 + 1 + 1) with 11.
  cbn [ndrop N.eqb N.pred Pos.pred_N Pos.pred_double]. now rewrite ndrop_0.
Qed.

Theorem unmarshal_descriptor nonkey first last pid w h chunk : pid < 32768 ->
  vp9_unmarshal (descriptor nonkey first last pid w h ++ chunk) = UOk first last chunk.
Proof.
  intros Hpid. unfold descriptor.
  pose proof (pid_byte pid Hpid) as Hb1.
  destruct nonkey, first, last; cbn [negb andb b2n app];
    first [ rewrite um_plain by (first [exact Hb1 | reflexivity]); reflexivity
          | rewrite um_ss by (first [exact Hb1 | reflexivity]); reflexivity ].
Qed.

Lemma descriptor_len nonkey first last pid w h :
  nlen (descriptor nonkey first last pid w h) = if negb nonkey && first then 11 else 3.
Proof. unfold descriptor. destruct (negb nonkey && first); reflexivity. Qed.

(* rtpvp9: round trip (C03), packet well-formedness (C06), resynchronisation (C07),
   totality / boundedness on arbitrary histories (C08). *)
From GVL Require Import NList Wire Chunks Rtp.
From GVG Require Import Consts.
From GV_vp9 Require Export Model ProofsParse.
From Coq Require Import ZifyBool ZifyNat ZifyN.
Open Scope N_scope.

(* ---------- encoder facts (C06) ---------- *)
Definition hs1 (nonkey : bool) : N := if nonkey then 3 else 11.

Lemma mk_pkts_len cs : forall seq nk first pid w h, nlen (mk_pkts seq nk first pid w h cs) = nlen cs.
Proof. induction cs as [|c t IH]; intros; cbn [mk_pkts nlen]; [reflexivity|]. now rewrite IH. Qed.
Lemma mk_pkts_length cs : forall seq nk first pid w h, length (mk_pkts seq nk first pid w h cs) = length cs.
Proof. induction cs as [|c t IH]; intros; cbn [mk_pkts length]; [reflexivity|]. now rewrite IH. Qed.

Lemma seq_add_next s k : seq_add (seq_next s) k = seq_add s (k + 1).
Proof. unfold seq_add, seq_next. rewrite N.add_mod_idemp_l by lia. f_equal. lia. Qed.
Lemma seq_add_0 s : s < 65536 -> seq_add s 0 = s.
Proof. intros H. unfold seq_add. rewrite N.add_0_r. now apply N.mod_small. Qed.
Lemma seq_add_add s a b : seq_add (seq_add s a) b = seq_add s (a + b).
Proof. unfold seq_add. rewrite N.add_mod_idemp_l by lia. f_equal. lia. Qed.
Lemma seq_add_lt s k : seq_add s k < 65536.
Proof. unfold seq_add. apply N.mod_lt. lia. Qed.

Lemma mk_pkts_seq cs : forall seq nk first pid w h i p, seq < 65536 ->
  nnth i (mk_pkts seq nk first pid w h cs) = Some p -> pseq p = seq_add seq i.
Proof.
  induction cs as [|c t IH]; intros seq nk first pid w h i p Hs H; cbn [mk_pkts nnth] in H; [discriminate|].
  destruct (N.eqb_spec i 0) as [->|Hi].
  - injection H as <-. cbn [pseq]. now rewrite seq_add_0.
  - apply IH in H; [|unfold seq_next; apply N.mod_lt; lia]. rewrite H, seq_add_next. f_equal. lia.
Qed.

Lemma mk_pkts_marker cs : forall seq nk first pid w h i p,
  nnth i (mk_pkts seq nk first pid w h cs) = Some p -> pmarker p = (i + 1 =? nlen cs).
Proof.
  induction cs as [|c t IH]; intros seq nk first pid w h i p H; cbn [mk_pkts nnth] in H; [discriminate|].
  destruct (N.eqb_spec i 0) as [->|Hi].
  - injection H as <-. cbn [pmarker nlen]. destruct t; cbn [nlen]; [reflexivity|].
    symmetry. apply N.eqb_neq. lia.
  - apply IH in H. rewrite H. cbn [nlen].
    destruct (N.eqb_spec (N.pred i + 1) (nlen t)); destruct (N.eqb_spec (i + 1) (N.succ (nlen t))); try reflexivity; lia.
Qed.

(* payload sizes: the first piece leaves room for the (3 or 11 byte) descriptor, the others for 3 *)
Lemma mk_pkts_sizes mtu nk pid w h cs : forall seq first,
  Forall (fun c => nlen c + 3 <= mtu) cs ->
  (first = true -> match cs with c :: _ => nlen c + hs1 nk <= mtu | [] => True end) ->
  Forall (fun p => nlen (ppayload p) <= mtu) (mk_pkts seq nk first pid w h cs).
Proof.
  induction cs as [|c t IH]; intros seq first Hall Hfirst; cbn [mk_pkts]; constructor.
  - cbn [ppayload]. rewrite nlen_app, descriptor_len. inversion Hall; subst.
    destruct first; [specialize (Hfirst eq_refl); unfold hs1 in Hfirst; destruct nk; cbn [negb andb]; lia|].
    rewrite andb_false_r. lia.
  - inversion Hall; subst. apply IH; [assumption|discriminate].
Qed.

Lemma pieces_props mtu nk frame : frame <> [] -> hs1 nk < mtu ->
  concat (pieces mtu nk frame) = frame /\ pieces mtu nk frame <> [] /\
  Forall (fun c => 0 < nlen c /\ nlen c + 3 <= mtu) (pieces mtu nk frame) /\
  match pieces mtu nk frame with c :: _ => nlen c + hs1 nk <= mtu | [] => True end.
Proof.
  intros Hne Hm. unfold pieces. fold (hs1 nk).
  destruct (N.leb_spec mtu (hs1 nk)); [lia|].
  destruct frame as [|x t] eqn:Ef; [contradiction|]. rewrite <- Ef in *.
  assert (H3 : 3 <= hs1 nk) by (unfold hs1; destruct nk; lia).
  split; [cbn [concat]; rewrite chunks_concat by lia; apply ntake_ndrop|].
  split; [discriminate|]. split.
  - constructor.
    + rewrite nlen_ntake. rewrite Ef. cbn [nlen]. lia.
    + eapply Forall_impl; [|apply (chunks_bounds (mtu - 3)); lia]. cbn. intros a [A B]. lia.
  - rewrite nlen_ntake. lia.
Qed.

(* Encode never panics and never loops; whatever the frame: every payload within the limit,
   sequence numbers seq+i, marker on the last packet and on no other.  (A frame whose VP9 header
   pion's parser rejects, or a limit that leaves no room after the descriptor, gives NO packet.) *)
Theorem enc_wellformed max seq pid frame : seq < 65536 ->
  exists ps pid', enc max seq pid frame = Some (ps, seq_add seq (nlen ps), pid') /\
    Forall (fun p => nlen (ppayload p) <= max mod 65536 /\ nlen (ppayload p) <= max) ps /\
    (forall i p, nnth i ps = Some p -> pseq p = seq_add seq i /\ pmarker p = (i + 1 =? nlen ps)).
Proof.
  intros Hs. unfold enc. pose proof (header_total frame) as Hnp.
  destruct (vp9_header frame) as [| |nk w h]; [|contradiction|].
  - exists [], (if 32768 <=? pid + 1 then 0 else pid + 1). cbn [nlen]. rewrite seq_add_0 by exact Hs.
    split; [reflexivity|]. split; [constructor|].
    intros i p H. cbn in H. discriminate.
  - eexists _, _. rewrite mk_pkts_len. split; [reflexivity|]. split.
    + set (mtu := max mod 65536).
      assert (G : Forall (fun p => nlen (ppayload p) <= mtu) (mk_pkts seq nk true pid w h (pieces mtu nk frame))).
      { destruct frame as [|x t] eqn:Ef.
        - unfold pieces. destruct (mtu <=? (if nk then 3 else 11)); constructor.
        - destruct (N.leb_spec mtu (hs1 nk)) as [Hle|Hgt].
          + unfold pieces. fold (hs1 nk). destruct (N.leb_spec mtu (hs1 nk)); [constructor|lia].
          + destruct (pieces_props mtu nk (x :: t) ltac:(discriminate) Hgt) as (_ & _ & A & B).
            apply mk_pkts_sizes; [eapply Forall_impl; [|exact A]; cbn; tauto|intros _; exact B]. }
      eapply Forall_impl; [|exact G]. cbn. intros p Hp. pose proof (N.mod_le max 65536 ltac:(lia)). unfold mtu in Hp. lia.
    + intros i p H. split; [eapply mk_pkts_seq; eassumption|eapply mk_pkts_marker; eassumption].
Qed.

Lemma nnth_app_l {A} (l1 l2 : list A) i : i < nlen l1 -> nnth i (l1 ++ l2) = nnth i l1.
Proof.
  revert i; induction l1 as [|x t IH]; intros i H; cbn [nlen app nnth] in *; [lia|].
  destruct (N.eqb_spec i 0); [reflexivity|]. apply IH. lia.
Qed.
Lemma nnth_app_r {A} (l1 l2 : list A) i : nlen l1 <= i -> nnth i (l1 ++ l2) = nnth (i - nlen l1) l2.
Proof.
  revert i; induction l1 as [|x t IH]; intros i H; cbn [nlen app nnth] in *; [f_equal; lia|].
  destruct (N.eqb_spec i 0); [lia|]. rewrite IH by lia. f_equal. lia.
Qed.

Theorem enc_many_gapless max frames : forall seq pid, seq < 65536 ->
  exists pss, enc_many max seq pid frames = Some pss /\
    forall i p, nnth i (concat pss) = Some p -> pseq p = seq_add seq i.
Proof.
  induction frames as [|f t IH]; intros seq pid Hs; cbn [enc_many].
  - exists []. split; [reflexivity|]. intros i p H. cbn in H. discriminate.
  - destruct (enc_wellformed max seq pid f Hs) as (ps & pid' & E & _ & Hi).
    rewrite E. destruct (IH (seq_add seq (nlen ps)) pid' (seq_add_lt _ _)) as (pss & E2 & Hi2).
    rewrite E2. eexists. split; [reflexivity|]. intros i p H. cbn [concat] in H.
    destruct (N.ltb_spec i (nlen ps)) as [Hlt|Hge].
    + rewrite nnth_app_l in H by assumption. now apply Hi in H.
    + rewrite nnth_app_r in H by assumption. apply Hi2 in H. rewrite H, seq_add_add. f_equal. lia.
Qed.

(* ---------- decoder invariant (holds after any history) ---------- *)
Definition Inv (d : dstate) : Prop :=
  dsize d = nlen (concat (dfrags d)) /\ (dsize d = 0 -> dfrags d = []) /\
  Forall (fun f => 0 < nlen f) (dfrags d).
Definition clean (d : dstate) : Prop := dsize d = 0 /\ dfrags d = [].

Lemma inv_init : Inv dinit.
Proof. unfold Inv, dinit; cbn. splits; auto. Qed.
Lemma inv_reset d : Inv (dreset d).
Proof. unfold Inv, dreset; cbn. splits; auto. Qed.
Lemma clean_reset d : clean (dreset d).
Proof. split; reflexivity. Qed.

Lemma join_aux_exact frags : forall size n,
  size = n + nlen (concat frags) -> join_aux frags size n = Some (concat frags).
Proof.
  induction frags as [|p t IH]; intros size n Hs; cbn [join_aux concat] in *.
  - cbn [nlen] in Hs. replace (size - n) with 0 by lia. reflexivity.
  - rewrite nlen_app in Hs. destruct (N.ltb_spec size n); [lia|].
    rewrite ntake_all by lia. rewrite IH by lia. reflexivity.
Qed.
Lemma join_exact frags : join frags (nlen (concat frags)) = Some (concat frags).
Proof. unfold join. now apply join_aux_exact. Qed.
Lemma concat_snoc {A} (l : list (list A)) x : concat (l ++ [x]) = concat l ++ x.
Proof. rewrite concat_app. cbn. now rewrite app_nil_r. Qed.

Lemma dec_inv P d p : Inv d -> nlen (ppayload p) <= P -> dsize d <= N.max cap P ->
  Inv (fst (dec d p)) /\ snd (dec d p) <> DPanic /\ dsize (fst (dec d p)) <= N.max cap P /\
  forall f, snd (dec d p) = DFrame f -> nlen f <= N.max cap P.
Proof.
  intros (Hs & Hz & Hne) HP HB. unfold dec.
  pose proof (unmarshal_total (ppayload p)) as Hnp. pose proof (unmarshal_len (ppayload p)) as Hlen.
  destruct (vp9_unmarshal (ppayload p)) as [| |b e c]; [|contradiction|].
  { cbn [fst snd]. splits; [apply inv_reset|discriminate|cbn; lia|discriminate]. }
  specialize (Hlen b e c eq_refl).
  destruct (N.eqb_spec (nlen c) 0) as [Hc|Hc].
  { cbn [fst snd]. splits; [apply inv_reset|discriminate|cbn; lia|discriminate]. }
  destruct b.
  - destruct e; cbn [negb fst snd].
    + splits; [apply inv_reset|discriminate|cbn; lia|]. intros f H; injection H as <-. lia.
    + splits; [|discriminate|cbn; lia|discriminate].
      unfold Inv; cbn [dsize dfrags concat]. rewrite app_nil_r. splits; [reflexivity|lia|].
      constructor; [lia|constructor].
  - destruct (N.eqb_spec (dsize d) 0) as [Hd|Hd].
    { cbn [fst snd]. splits; [unfold Inv; splits; assumption|discriminate|lia|discriminate]. }
    destruct (pseq p =? dnext d); cbn [negb fst snd]; [|splits; [apply inv_reset|discriminate|cbn; lia|discriminate]].
    destruct (N.ltb_spec cap (dsize d + nlen c)); cbn [fst snd];
      [splits; [apply inv_reset|discriminate|cbn; lia|discriminate]|].
    assert (HI : Inv (mkD (dfrags d ++ [c]) (dsize d + nlen c) (seq_next (dnext d)))).
    { unfold Inv; cbn [dsize dfrags]. rewrite concat_snoc, nlen_app. splits; [lia|lia|].
      apply Forall_app. split; [assumption|]. constructor; [lia|constructor]. }
    destruct e; cbn [negb fst snd]; [|splits; [exact HI|discriminate|cbn; lia|discriminate]].
    cbn [dfrags]. replace (dsize d + nlen c) with (nlen (concat (dfrags d ++ [c])))
      by (rewrite concat_snoc, nlen_app; lia).
    rewrite join_exact. cbn [fst snd]. splits; [apply inv_reset|discriminate|cbn; lia|].
    intros f H0; injection H0 as <-. rewrite concat_snoc, nlen_app. lia.
Qed.

Lemma dec_run_inv P ps : forall d, Inv d -> dsize d <= N.max cap P ->
  Forall (fun p => nlen (ppayload p) <= P) ps ->
  Inv (fst (dec_run d ps)) /\ ~ In DPanic (snd (dec_run d ps)) /\
  dsize (fst (dec_run d ps)) <= N.max cap P /\
  forall f, In (DFrame f) (snd (dec_run d ps)) -> nlen f <= N.max cap P.
Proof.
  induction ps as [|p t IH]; intros d HI HB HF; cbn [dec_run]; [cbn; splits; auto; intros ? []|].
  inversion HF as [|? ? Hp Ht]; subst.
  destruct (dec_inv P d p HI Hp HB) as (HI' & Hnp & HB' & Hfr). destruct (dec d p) as [d' r] eqn:E. cbn [fst snd] in *.
  destruct (IH d' HI' HB' Ht) as (HI'' & Hnp' & HB'' & Hfr'). destruct (dec_run d' t) as [d'' rs]. cbn [fst snd] in *.
  splits; [assumption| |assumption|].
  - intros [H|H]; [congruence|contradiction].
  - intros f [H|H]; [apply Hfr; assumption|apply Hfr'; assumption].
Qed.

(* ---------- round trip (C03), from ANY decoder state ---------- *)
(* a valid frame: pion's parser accepts its VP9 header (key frame or not), at most MaxFrameSize *)
Definition valid_frame (f : bytes) : Prop :=
  (exists nk w h, vp9_header f = HOk nk w h) /\ nlen f <= cap.

Lemma valid_nonempty f : valid_frame f -> f <> [].
Proof. intros [(nk & w & h & H) _] ->. rewrite header_nil in H. discriminate. Qed.

Section RT.
Variables (nk : bool) (pid w h : N).
Hypothesis Hpid : pid < 32768.

(* the packets after the first one *)
Lemma dec_rest cs : forall d seq,
  cs <> [] -> Forall (fun c => 0 < nlen c) cs ->
  Inv d -> 0 < dsize d -> dnext d = seq ->
  dsize d + nlen (concat cs) <= cap ->
  exists d', dec_run d (mk_pkts seq nk false pid w h cs) =
    (d', repeat DMore (length cs - 1) ++ [DFrame (concat (dfrags d) ++ concat cs)]) /\ clean d'.
Proof.
  induction cs as [|c t IH]; intros d seq Hne Hpos HI Hsz Hnext Hcap; [contradiction|].
  inversion Hpos as [|? ? Hc Hpos']; subst.
  cbn [mk_pkts dec_run]. unfold dec at 1. cbn [ppayload pseq pmarker].
  rewrite unmarshal_descriptor by exact Hpid.
  destruct (N.eqb_spec (nlen c) 0); [lia|].
  destruct (N.eqb_spec (dsize d) 0); [lia|]. rewrite N.eqb_refl. cbn [negb].
  cbn [concat] in Hcap. rewrite nlen_app in Hcap.
  destruct (N.ltb_spec cap (dsize d + nlen c)); [lia|].
  destruct HI as (Hs & Hz & Hfr).
  destruct t as [|c2 t2].
  - cbn [negb dfrags]. replace (dsize d + nlen c) with (nlen (concat (dfrags d ++ [c])))
      by (rewrite concat_snoc, nlen_app; lia).
    rewrite join_exact. cbn [mk_pkts dec_run length Nat.sub repeat app concat].
    eexists. split; [|apply clean_reset]. rewrite concat_snoc, app_nil_r. reflexivity.
  - cbn [negb].
    set (d1 := mkD (dfrags d ++ [c]) (dsize d + nlen c) (seq_next (dnext d))).
    destruct (IH d1 (seq_next (dnext d))) as (d' & Hrun & Hcl).
    + discriminate.
    + assumption.
    + unfold Inv, d1; cbn [dsize dfrags]. rewrite concat_snoc, nlen_app. splits; [lia|lia|].
      apply Forall_app. split; [assumption|]. constructor; [lia|constructor].
    + unfold d1; cbn [dsize]. lia.
    + reflexivity.
    + unfold d1; cbn [dsize]. lia.
    + rewrite Hrun. eexists. split; [|exact Hcl].
      unfold d1; cbn [dfrags]. rewrite concat_snoc, <- app_assoc.
      cbn [length Nat.sub]. rewrite Nat.sub_0_r. cbn [concat]. reflexivity.
Qed.

(* a whole group: the B bit of the first packet restarts the decoder whatever its state *)
Lemma dec_group cs : forall d seq,
  cs <> [] -> Forall (fun c => 0 < nlen c) cs -> nlen (concat cs) <= cap ->
  exists d', dec_run d (mk_pkts seq nk true pid w h cs) =
    (d', repeat DMore (length cs - 1) ++ [DFrame (concat cs)]) /\ clean d'.
Proof.
  intros d seq Hne Hpos Hcap. destruct cs as [|c t]; [contradiction|].
  inversion Hpos as [|? ? Hc Hpos']; subst.
  cbn [mk_pkts dec_run]. unfold dec at 1. cbn [ppayload pseq pmarker].
  rewrite unmarshal_descriptor by exact Hpid.
  destruct (N.eqb_spec (nlen c) 0); [lia|].
  cbn [concat] in Hcap. rewrite nlen_app in Hcap.
  destruct t as [|c2 t2].
  - cbn [negb mk_pkts dec_run length Nat.sub repeat app concat]. rewrite app_nil_r.
    eexists. split; [reflexivity|apply clean_reset].
  - cbn [negb]. set (d1 := mkD [c] (nlen c) (seq_next seq)).
    destruct (dec_rest (c2 :: t2) d1 (seq_next seq)) as (d' & Hrun & Hcl).
    + discriminate.
    + assumption.
    + unfold Inv, d1; cbn [dsize dfrags concat]. rewrite app_nil_r.
      splits; [reflexivity|lia|]. constructor; [lia|constructor].
    + unfold d1; cbn [dsize]. lia.
    + reflexivity.
    + unfold d1; cbn [dsize]. lia.
    + rewrite Hrun. eexists. split; [|exact Hcl].
      unfold d1; cbn [dfrags concat length Nat.sub]. rewrite app_nil_r, Nat.sub_0_r. reflexivity.
Qed.
End RT.

(* from EVERY decoder state: "more" on all packets but the last, the frame at the last, clean
   afterwards; for every limit that leaves room after the longest descriptor (12 <= max mod 2^16),
   every picture ID *)
Theorem roundtrip max seq pid frame d :
  12 <= max mod 65536 -> pid < 32768 -> valid_frame frame ->
  exists ps pid' d', enc max seq pid frame = Some (ps, seq_add seq (nlen ps), pid') /\ pid' < 32768 /\
    dec_run d ps = (d', repeat DMore (length ps - 1) ++ [DFrame frame]) /\ clean d'.
Proof.
  intros Hm Hpid Hv. pose proof (valid_nonempty frame Hv) as Hne.
  destruct Hv as [(nk & w & h & Hh) Hcap]. unfold enc. rewrite Hh.
  assert (Hm' : hs1 nk < max mod 65536) by (unfold hs1; destruct nk; lia).
  destruct (pieces_props (max mod 65536) nk frame Hne Hm') as (Hcc & Hpne & Hall & _).
  destruct (dec_group nk pid w h Hpid (pieces (max mod 65536) nk frame) d seq Hpne) as (d' & Hrun & Hcl).
  - eapply Forall_impl; [|exact Hall]. cbn. tauto.
  - now rewrite Hcc.
  - eexists _, _, d'. rewrite mk_pkts_len. split; [reflexivity|]. split.
    + destruct (N.leb_spec 32768 (pid + 1)); lia.
    + split; [|exact Hcl]. rewrite Hrun, Hcc, mk_pkts_length. reflexivity.
Qed.

Fixpoint expect (pss : list (list packet)) (frames : list bytes) : list (dres bytes) :=
  match pss, frames with
  | ps :: pt, f :: ft => repeat DMore (length ps - 1) ++ [DFrame f] ++ expect pt ft
  | _, _ => []
  end.

Lemma dec_run_app ps1 ps2 d :
  dec_run d (ps1 ++ ps2) =
  let '(d1, r1) := dec_run d ps1 in let '(d2, r2) := dec_run d1 ps2 in (d2, r1 ++ r2).
Proof.
  revert d; induction ps1 as [|p t IH]; intros d; cbn [app dec_run].
  - destruct (dec_run d ps2); reflexivity.
  - destruct (dec d p) as [d' r]. rewrite IH. destruct (dec_run d' t) as [d1 r1].
    destruct (dec_run d1 ps2) as [d2 r2]. reflexivity.
Qed.

Theorem roundtrip_seq max frames : 12 <= max mod 65536 -> Forall valid_frame frames ->
  forall seq pid d, pid < 32768 ->
  exists pss d', enc_many max seq pid frames = Some pss /\
    dec_run d (concat pss) = (d', expect pss frames) /\ (frames <> [] -> clean d').
Proof.
  intros Hm. induction frames as [|f t IH]; intros Hv seq pid d Hpid; cbn [enc_many].
  - exists [], d. cbn. splits; auto. intros H; contradiction.
  - inversion Hv as [|? ? Hf Ht]; subst.
    destruct (roundtrip max seq pid f d Hm Hpid Hf) as (ps & pid' & d1 & E & Hpid' & Hr1 & Hc1). rewrite E.
    destruct (IH Ht (seq_add seq (nlen ps)) pid' d1 Hpid') as (pss & d2 & E2 & Hr2 & Hc2). rewrite E2.
    exists (ps :: pss), d2. split; [reflexivity|]. cbn [concat expect].
    rewrite dec_run_app, Hr1, Hr2. split; [now rewrite <- app_assoc|].
    intros _. destruct t as [|f2 t2]; [|apply Hc2; discriminate].
    cbn [enc_many] in E2. injection E2 as <-. cbn [concat dec_run] in Hr2. inversion Hr2; subst; exact Hc1.
Qed.

(* ---------- resynchronisation (C07) ---------- *)
Theorem resync max hist f s pid :
  12 <= max mod 65536 -> pid < 32768 -> valid_frame f ->
  let d0 := fst (dec_run dinit hist) in
  exists ps pid' d', enc max s pid f = Some (ps, seq_add s (nlen ps), pid') /\ pid' < 32768 /\
    dec_run d0 ps = (d', repeat DMore (length ps - 1) ++ [DFrame f]) /\ clean d'.
Proof. intros Hm Hp Hv d0. apply roundtrip; assumption. Qed.

(* ---------- arbitrary histories (C08) ---------- *)
Lemma forall_max_payload (hist : list packet) :
  exists P, Forall (fun p => nlen (ppayload p) <= P) hist.
Proof.
  induction hist as [|p t [P IH]]; [exists 0; constructor|].
  exists (N.max P (nlen (ppayload p))). constructor; [lia|].
  eapply Forall_impl; [|exact IH]. cbn. intros; lia.
Qed.

Theorem total hist : ~ In DPanic (snd (dec_run dinit hist)).
Proof.
  destruct (forall_max_payload hist) as (P & HP).
  apply (dec_run_inv P hist dinit inv_init ltac:(cbn; lia) HP).
Qed.

Lemma nlen_concat_ge {A} (l : list (list A)) : Forall (fun f => 0 < nlen f) l -> nlen l <= nlen (concat l).
Proof. induction 1 as [|x t Hx Ht IH]; cbn [nlen concat]; [lia|]. rewrite nlen_app. lia. Qed.

Theorem bounded P hist :
  Forall (fun p => nlen (ppayload p) <= P) hist ->
  let '(d, rs) := dec_run dinit hist in
  fst (retained d) <= N.max cap P /\ snd (retained d) <= N.max cap P /\
  forall f, In (DFrame f) rs -> nlen f <= N.max cap P.
Proof.
  intros HP.
  pose proof (dec_run_inv P hist dinit inv_init ltac:(cbn; lia) HP) as ((Hs & Hz & Hne) & _ & HB & Hfr).
  destruct (dec_run dinit hist) as [d rs]. cbn [fst snd] in *.
  unfold retained; cbn [fst snd]. pose proof (nlen_concat_ge (dfrags d) Hne). splits; [lia|lia|assumption].
Qed.

(* BRIDGE: the integer formulas of pkg/format/rtpvp9 (encoder.go, decoder.go) and of pion's VP9Payloader.payloadNonFlexible
   (module version pinned by /repo/go.mod) as TRANSLATED from the Go source on this run (GVG.Kern, spec.d/vp9.txt) are
   the formulas of Model.v: mtu = PayloadMaxSize mod 2^16, the header size 11 (first packet of a key frame) / 3, the
   fragment budget mtu - headerSize, the empty-fragment test, the payload size, the marker position, the sequence
   number step; the decoder's continuity test, empty-payload test, accumulation and cap. *)
From Coq Require Import ZArith NArith List Lia Bool.
From Coq Require Import ZifyBool ZifyN.
From GVL Require Import NList Wrap Chunks Rtp.
From GVG Require Import Consts Kern.
From GV_vp9 Require Import Model BridgeLib.
Import ListNotations.
Open Scope Z_scope.

Definition u16 (s : N) : Prop := (s < 65536)%N.

(* the header size of Model.pieces: hs1 = if nonkey then 3 else 11 for the first piece, 3 afterwards *)
Definition hs_code (nonkey : bool) (index : Z) : Z :=
  if k_vp9_pion_first nonkey index then k_vp9_pion_hs_key else k_vp9_pion_hs.

Lemma bridge_hs nonkey : hs_code nonkey 0 = Z.of_N (if nonkey then 3 else 11)%N /\
  forall idx, 0 < idx -> hs_code nonkey idx = 3.
Proof.
  unfold hs_code, k_vp9_pion_first, k_vp9_pion_hs_key, k_vp9_pion_hs. split.
  - destruct nonkey; reflexivity.
  - intros idx H. destruct nonkey; cbn [negb andb]; [reflexivity|]. destruct (Z.eqb_spec idx 0); [lia|reflexivity].
Qed.

Lemma bridge_min a b : k_vp9_pion_min a b = Z.min a b.
Proof. unfold k_vp9_pion_min. destruct (Z.ltb_spec a b); lia. Qed.

(* one iteration: maxFragmentSize := int(mtu) - headerSize; cur := minInt(maxFragmentSize, remaining); cur <= 0 => [] ;
   make([]byte, headerSize+cur) *)
Lemma bridge_fragment (mtu hs : N) (rest : bytes) : u16 mtu -> (hs < 65536)%N -> Z.of_N (nlen rest) < i64max ->
  let cur := k_vp9_pion_min (k_vp9_pion_maxfrag (Z.of_N mtu) (Z.of_N hs)) (Z.of_N (nlen rest)) in
  k_vp9_pion_none cur = ((mtu <=? hs)%N || (nlen rest =? 0)%N) /\
  ((hs < mtu)%N -> cur = Z.of_N (nlen (ntake (mtu - hs) rest)) /\
                  k_vp9_pion_outsize (Z.of_N hs) cur = Z.of_N (hs + nlen (ntake (mtu - hs) rest)) /\
                  k_vp9_pion_end (Z.of_N (nlen rest)) cur = (nlen rest <=? mtu - hs)%N).
Proof.
  intros H1 H2 H3 cur. unfold u16, i64max in *.
  assert (E : cur = Z.min (Z.of_N mtu - Z.of_N hs) (Z.of_N (nlen rest))).
  { unfold cur, k_vp9_pion_maxfrag. rewrite bridge_min. rewrite (ki64_small (Z.of_N mtu)) by lia. rewrite ki64_small by lia. reflexivity. }
  split.
  - rewrite E. unfold k_vp9_pion_none. destruct (N.leb_spec mtu hs), (N.eqb_spec (nlen rest) 0); cbn [orb]; lia.
  - intros H4. pose proof (nlen_ntake (mtu - hs)%N rest) as T.
    assert (E' : cur = Z.of_N (nlen (ntake (mtu - hs) rest))) by lia.
    split; [exact E'|]. rewrite E'. unfold k_vp9_pion_outsize, k_vp9_pion_end. rewrite ki64_small by lia.
    split; [lia|]. rewrite eqb_N. destruct (N.eqb_spec (nlen rest) (nlen (ntake (mtu - hs) rest))), (N.leb_spec (nlen rest) (mtu - hs)); lia.
Qed.

Lemma bridge_marker (i pc : N) : Z.of_N pc < i64max -> (1 <= pc)%N ->
  k_vp9_marker (Z.of_N i) (Z.of_N pc) = (i + 1 =? pc)%N.
Proof.
  unfold k_vp9_marker, i64max. intros H1 H2. rewrite ki64_small by lia.
  destruct (Z.eqb_spec (Z.of_N i) (Z.of_N pc - 1)), (N.eqb_spec (i + 1) pc); lia.
Qed.

Theorem enc_kernels_are_the_code (max mtu hs : N) (nonkey : bool) (rest : bytes) (i pc s : N) :
  u16 mtu -> (hs < 65536)%N -> Z.of_N (nlen rest) < i64max -> (1 <= pc)%N -> Z.of_N pc < i64max ->
  k_vp9_mtu (Z.of_N max) = Z.of_N (max mod 65536) /\
  hs_code nonkey 0 = Z.of_N (if nonkey then 3 else 11)%N /\ (forall idx, 0 < idx -> hs_code nonkey idx = 3) /\
  (let cur := k_vp9_pion_min (k_vp9_pion_maxfrag (Z.of_N mtu) (Z.of_N hs)) (Z.of_N (nlen rest)) in
   k_vp9_pion_none cur = ((mtu <=? hs)%N || (nlen rest =? 0)%N) /\
   ((hs < mtu)%N -> cur = Z.of_N (nlen (ntake (mtu - hs) rest)) /\
                   k_vp9_pion_outsize (Z.of_N hs) cur = Z.of_N (hs + nlen (ntake (mtu - hs) rest)) /\
                   k_vp9_pion_end (Z.of_N (nlen rest)) cur = (nlen rest <=? mtu - hs)%N)) /\
  k_vp9_marker (Z.of_N i) (Z.of_N pc) = (i + 1 =? pc)%N /\
  k_vp9_seq (Z.of_N s) = Z.of_N (seq_next s).
Proof.
  intros H1 H2 H3 H4 H5. split.
  - unfold k_vp9_mtu, w16. rewrite N2Z.inj_mod by lia. reflexivity.
  - destruct (bridge_hs nonkey) as (A & B). split; [exact A|]. split; [exact B|].
    split; [apply bridge_fragment; assumption|]. split; [apply bridge_marker; assumption|].
    unfold k_vp9_seq, seq_next. apply w16_succ_N.
Qed.

(* ---------- decoder ---------- *)
Theorem resync_kernels_are_the_code (seq next fs : N) : u16 seq -> u16 next ->
  k_vp9_dec_nofrag (Z.of_N fs) = (fs =? 0)%N /\
  k_vp9_dec_nextseq (Z.of_N seq) = Z.of_N (seq_next seq) /\
  k_vp9_dec_gap (Z.of_N seq) (Z.of_N next) = negb (seq =? next)%N /\
  k_vp9_dec_incseq (Z.of_N next) = Z.of_N (seq_next next).
Proof.
  intros _ _. unfold k_vp9_dec_nofrag, k_vp9_dec_nextseq, k_vp9_dec_gap, k_vp9_dec_incseq, seq_next.
  rewrite !w16_succ_N, eqb_N. repeat split. exact (eqb_N fs 0).
Qed.

Theorem caps_kernels_are_the_code (chunk : bytes) (fs : N) : Z.of_N (fs + nlen chunk) < i64max ->
  k_vp9_dec_empty (Z.of_N (nlen chunk)) = (nlen chunk =? 0)%N /\
  k_vp9_dec_acc (Z.of_N fs) (Z.of_N (nlen chunk)) = Z.of_N (fs + nlen chunk) /\
  k_vp9_dec_cap (k_vp9_dec_acc (Z.of_N fs) (Z.of_N (nlen chunk))) (Z.of_N cap) = (cap <? fs + nlen chunk)%N.
Proof.
  unfold i64max, k_vp9_dec_empty, k_vp9_dec_acc, k_vp9_dec_cap. intros H. rewrite ki64_small by lia.
  rewrite <- N2Z.inj_add. split; [exact (eqb_N (nlen chunk) 0)|]. split; [reflexivity|apply gtb_N].
Qed.

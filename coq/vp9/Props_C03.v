(* C03, rtpvp9 — statements only *)
From GVL Require Import NList Rtp.
From GV_vp9 Require Import Model Proofs.
Open Scope N_scope.

(* One frame: for every payload limit with 12 <= (max mod 2^16) (pion takes the mtu as uint16; 11
   bytes of descriptor on the first packet of a key frame), every initial sequence number, every
   picture ID, every frame whose VP9 header pion's parser accepts (key frame, non-key frame or
   show-existing-frame, all profiles) of at most vp9.MaxFrameSize bytes, from EVERY decoder state
   (the B bit of the first packet discards whatever was pending): "more" on every packet but the
   last, exactly the frame at the last, clean afterwards.
   The rtpvp9 Encoder never enables pion's flexible mode, so this is the only mode there is. *)
Theorem C03_vp9_roundtrip : forall max seq pid frame d,
  12 <= max mod 65536 -> pid < 32768 -> valid_frame frame ->
  exists ps pid' d', enc max seq pid frame = Some (ps, seq_add seq (nlen ps), pid') /\ pid' < 32768 /\
    dec_run d ps = (d', repeat DMore (length ps - 1) ++ [DFrame frame]) /\ clean d'.
Proof. exact roundtrip. Qed.
Print Assumptions C03_vp9_roundtrip.

(* consecutive frames through one encoder/decoder pair (the picture ID advances and wraps) *)
Theorem C03_vp9_roundtrip_seq : forall max frames,
  12 <= max mod 65536 -> Forall valid_frame frames ->
  forall seq pid d, pid < 32768 ->
  exists pss d', enc_many max seq pid frames = Some pss /\
    dec_run d (concat pss) = (d', expect pss frames) /\ (frames <> [] -> clean d').
Proof. exact roundtrip_seq. Qed.
Print Assumptions C03_vp9_roundtrip_seq.

(* a key frame (profile 0, 640x480: bytes 0x82 0x49 0x83 0x42 ...) over two packets, limit 14,
   picture ID 32767 (wraps to 0), and a non-key frame (0x86 ...) *)
Example C03_vp9_example :
  let key := [130; 73; 131; 66; 0; 39; 240; 29; 240; 1; 2; 3] in
  valid_frame key /\ valid_frame [134; 9] /\
  option_map (fun pss => (map (fun ps => map (fun p => nlen (ppayload p)) ps) pss, snd (dec_run dinit (concat pss))))
             (enc_many 14 65535 32767 [key; [134; 9]])
  = Some ([[14; 12]; [5]], [DMore; DFrame key; DFrame [134; 9]]).
Proof.
  cbv zeta. split; [|split].
  - split; [eexists _, _, _; vm_compute; reflexivity|]. unfold cap, GVG.Consts.vp9_max_frame. cbn. lia.
  - split; [eexists _, _, _; vm_compute; reflexivity|]. unfold cap, GVG.Consts.vp9_max_frame. cbn. lia.
  - vm_compute. reflexivity.
Qed.

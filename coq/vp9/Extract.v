From Coq Require Extraction ExtrOcamlBasic.
From GV_vp9 Require Import Model.
Extraction Language OCaml.
Extraction "model.ml" run.

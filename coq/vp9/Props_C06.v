(* C06, rtpvp9 — statements only *)
From GVL Require Import NList Rtp.
From GV_vp9 Require Import Model Proofs.
Open Scope N_scope.

(* For EVERY frame (valid or not), every limit, every initial sequence number and picture ID:
   Encode does not panic (pion's bit reader never indexes out of range), every payload is within
   min(max, max mod 2^16), packet i carries sequence number seq+i mod 2^16, the marker is on the
   last packet and on no other, the encoder continues at seq+count.  (A frame whose header pion's
   parser rejects, or a limit without room after the descriptor, yields no packet and no error.) *)
Theorem C06_vp9_packets_wellformed : forall max seq pid frame, seq < 65536 ->
  exists ps pid', enc max seq pid frame = Some (ps, seq_add seq (nlen ps), pid') /\
    Forall (fun p => nlen (ppayload p) <= max mod 65536 /\ nlen (ppayload p) <= max) ps /\
    (forall i p, nnth i ps = Some p -> pseq p = seq_add seq i /\ pmarker p = (i + 1 =? nlen ps)).
Proof. exact enc_wellformed. Qed.
Print Assumptions C06_vp9_packets_wellformed.

Theorem C06_vp9_gapless_across_calls : forall max frames seq pid, seq < 65536 ->
  exists pss, enc_many max seq pid frames = Some pss /\
    forall i p, nnth i (concat pss) = Some p -> pseq p = seq_add seq i.
Proof. exact enc_many_gapless. Qed.
Print Assumptions C06_vp9_gapless_across_calls.

Example C06_vp9_example :
  option_map (fun pss => (map pseq (concat pss), map pmarker (concat pss)))
             (enc_many 14 65534 0 [[130; 73; 131; 66; 0; 39; 240; 29; 240; 1; 2; 3]; [134; 9]; [0; 0]])
  = Some ([65534; 65535; 0], [false; true; true]).
Proof. vm_compute. reflexivity. Qed.

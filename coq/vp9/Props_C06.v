(* C06, rtpvp9 — statements only *)
From GVL Require Import NList Rtp.
From GV_vp9 Require Import Model Proofs.
Open Scope N_scope.

(* For EVERY frame (valid or not), every limit, every initial sequence number and picture ID:
   Encode does not panic (pion's bit reader never indexes out of range), every payload is within
   min(max, max mod 2^16), packet i carries sequence number seq+i mod 2^16, the marker is on the
   last packet and on no other, the encoder continues at seq+count.  (A frame whose header pion's
   parser rejects, or a limit without room after the descriptor, yields no packet and no error.) *)
Theorem C06_vp9_packets_wellformed : forall max seq pid frame, seq < 65536 ->
  exists ps pid', enc max seq pid frame = Some (ps, seq_add seq (nlen ps), pid') /\
    Forall (fun p => nlen (ppayload p) <= max mod 65536 /\ nlen (ppayload p) <= max) ps /\
    (forall i p, nnth i ps = Some p -> pseq p = seq_add seq i /\ pmarker p = (i + 1 =? nlen ps)).
Proof. exact enc_wellformed. Qed.
Print Assumptions C06_vp9_packets_wellformed.

Theorem C06_vp9_gapless_across_calls : forall max frames seq pid, seq < 65536 ->
  exists pss, enc_many max seq pid frames = Some pss /\
    forall i p, nnth i (concat pss) = Some p -> pseq p = seq_add seq i.
Proof. exact enc_many_gapless. Qed.
Print Assumptions C06_vp9_gapless_across_calls.

Example C06_vp9_example :
  option_map (fun pss => (map pseq (concat pss), map pmarker (concat pss)))
             (enc_many 14 65534 0 [[130; 73; 131; 66; 0; 39; 240; 29; 240; 1; 2; 3]; [134; 9]; [0; 0]])
  = Some ([65534; 65535; 0], [false; true; true]).
Proof. vm_compute. reflexivity. Qed.

(* ---- the translated kernels (tools/go2coq, spec.d/vp9.txt; regenerated from the Go source on every run) ----
   rtpvp9/encoder.go hands uint16(e.PayloadMaxSize) to pion's VP9Payloader (non-flexible mode), whose translated statements
   (headerSize = 3+8 for the first packet of a key frame, 3 otherwise; maxFragmentSize := int(mtu) - headerSize;
   currentFragmentSize := minInt(...); currentFragmentSize <= 0 => no packets; make([]byte, headerSize+cur); the E bit test
   remaining == cur) ARE the formulas of Model.enc / pieces: mtu = max mod 2^16, hs1 = if nonkey then 3 else 11, [] iff
   mtu <= hs or nothing left, piece = ntake (mtu - hs), last piece iff the rest fits; Marker: i == plen-1; sequenceNumber++. *)
From Coq Require Import ZArith.
From GVG Require Import Kern.
From GV_vp9 Require Import BridgeLib Bridge.
Open Scope Z_scope.
Theorem C06_vp9_kernels_are_the_code : forall (max mtu hs : N) (nonkey : bool) (rest : bytes) (i pc s : N),
  u16 mtu -> (hs < 65536)%N -> Z.of_N (nlen rest) < i64max -> (1 <= pc)%N -> Z.of_N pc < i64max ->
  k_vp9_mtu (Z.of_N max) = Z.of_N (max mod 65536) /\
  hs_code nonkey 0 = Z.of_N (if nonkey then 3 else 11)%N /\ (forall idx, 0 < idx -> hs_code nonkey idx = 3) /\
  (let cur := k_vp9_pion_min (k_vp9_pion_maxfrag (Z.of_N mtu) (Z.of_N hs)) (Z.of_N (nlen rest)) in
   k_vp9_pion_none cur = ((mtu <=? hs)%N || (nlen rest =? 0)%N) /\
   ((hs < mtu)%N -> cur = Z.of_N (nlen (ntake (mtu - hs) rest)) /\
                   k_vp9_pion_outsize (Z.of_N hs) cur = Z.of_N (hs + nlen (ntake (mtu - hs) rest)) /\
                   k_vp9_pion_end (Z.of_N (nlen rest)) cur = (nlen rest <=? mtu - hs)%N)) /\
  k_vp9_marker (Z.of_N i) (Z.of_N pc) = (i + 1 =? pc)%N /\
  k_vp9_seq (Z.of_N s) = Z.of_N (seq_next s).
Proof. exact enc_kernels_are_the_code. Qed.
Print Assumptions C06_vp9_kernels_are_the_code.

Example C06_vp9_example_kernels :
  k_vp9_mtu 65546 = 10 /\ hs_code false 0 = 11 /\ hs_code true 0 = 3 /\ hs_code false 5 = 3 /\
  k_vp9_pion_none (k_vp9_pion_min (k_vp9_pion_maxfrag 11 11) 100) = true /\
  k_vp9_pion_none (k_vp9_pion_min (k_vp9_pion_maxfrag 12 11) 100) = false /\
  k_vp9_pion_outsize 3 1447 = 1450 /\ k_vp9_marker 1 2 = true /\ k_vp9_marker 0 2 = false /\ k_vp9_seq 65535 = 0.
Proof. vm_compute. repeat split. Qed.

(* C07, rtpvp9 — statements only *)
From GVL Require Import NList Rtp.
From GV_vp9 Require Import Model Proofs.
Open Scope N_scope.

(* After ANY packet history (loss, duplication, reordering, foreign or hostile packets), an intact
   frame - any sequence numbers, whatever happened to its predecessor - is returned exactly at its
   last packet, "more" before, and the decoder is clean afterwards. *)
Theorem C07_vp9_resync : forall max hist f s pid,
  12 <= max mod 65536 -> pid < 32768 -> valid_frame f ->
  let d0 := fst (dec_run dinit hist) in
  exists ps pid' d', enc max s pid f = Some (ps, seq_add s (nlen ps), pid') /\ pid' < 32768 /\
    dec_run d0 ps = (d', repeat DMore (length ps - 1) ++ [DFrame f]) /\ clean d'.
Proof. exact resync. Qed.
Print Assumptions C07_vp9_resync.

Theorem C07_vp9_no_panic : forall hist, ~ In DPanic (snd (dec_run dinit hist)).
Proof. exact total. Qed.
Print Assumptions C07_vp9_no_panic.

Example C07_vp9_example : (* last packet of a 2-packet key frame lost, then an intact non-key frame *)
  option_map (fun pss => snd (dec_run dinit (removelast (hd [] pss) ++ concat (tl pss))))
             (enc_many 14 10 5 [[130; 73; 131; 66; 0; 39; 240; 29; 240; 1; 2; 3]; [134; 9; 8]])
  = Some [DMore; DFrame [134; 9; 8]].
Proof. vm_compute. reflexivity. Qed.

(* ---- the translated kernels (tools/go2coq, spec.d/vp9.txt) ----
   d.fragmentsSize == 0, d.fragmentNextSeqNum = pkt.SequenceNumber + 1, pkt.SequenceNumber != d.fragmentNextSeqNum,
   d.fragmentNextSeqNum++ ARE the tests / updates of Model.dec. *)
From Coq Require Import ZArith.
From GVG Require Import Kern.
From GV_vp9 Require Import BridgeLib Bridge.
Open Scope Z_scope.
Theorem C07_vp9_kernels_are_the_code : forall (seq next fs : N), u16 seq -> u16 next ->
  k_vp9_dec_nofrag (Z.of_N fs) = (fs =? 0)%N /\
  k_vp9_dec_nextseq (Z.of_N seq) = Z.of_N (seq_next seq) /\
  k_vp9_dec_gap (Z.of_N seq) (Z.of_N next) = negb (seq =? next)%N /\
  k_vp9_dec_incseq (Z.of_N next) = Z.of_N (seq_next next).
Proof. exact resync_kernels_are_the_code. Qed.
Print Assumptions C07_vp9_kernels_are_the_code.

Example C07_vp9_example_kernels :
  k_vp9_dec_nextseq 65535 = 0 /\ k_vp9_dec_incseq 9 = 10 /\ k_vp9_dec_gap 10 10 = false /\ k_vp9_dec_gap 11 10 = true /\
  k_vp9_dec_nofrag 0 = true.
Proof. vm_compute. repeat split. Qed.

(* C07, rtpvp9 — statements only *)
From GVL Require Import NList Rtp.
From GV_vp9 Require Import Model Proofs.
Open Scope N_scope.

(* After ANY packet history (loss, duplication, reordering, foreign or hostile packets), an intact
   frame - any sequence numbers, whatever happened to its predecessor - is returned exactly at its
   last packet, "more" before, and the decoder is clean afterwards. *)
Theorem C07_vp9_resync : forall max hist f s pid,
  12 <= max mod 65536 -> pid < 32768 -> valid_frame f ->
  let d0 := fst (dec_run dinit hist) in
  exists ps pid' d', enc max s pid f = Some (ps, seq_add s (nlen ps), pid') /\ pid' < 32768 /\
    dec_run d0 ps = (d', repeat DMore (length ps - 1) ++ [DFrame f]) /\ clean d'.
Proof. exact resync. Qed.
Print Assumptions C07_vp9_resync.

Theorem C07_vp9_no_panic : forall hist, ~ In DPanic (snd (dec_run dinit hist)).
Proof. exact total. Qed.
Print Assumptions C07_vp9_no_panic.

Example C07_vp9_example : (* last packet of a 2-packet key frame lost, then an intact non-key frame *)
  option_map (fun pss => snd (dec_run dinit (removelast (hd [] pss) ++ concat (tl pss))))
             (enc_many 14 10 5 [[130; 73; 131; 66; 0; 39; 240; 29; 240; 1; 2; 3]; [134; 9; 8]])
  = Some [DMore; DFrame [134; 9; 8]].
Proof. vm_compute. reflexivity. Qed.

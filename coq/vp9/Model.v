(* Executable model of pkg/format/rtpvp9 (encoder.go, decoder.go) and of the parts of
   pion/rtp/codecs they use: VP9Payloader.Payload in NON-flexible mode (the rtpvp9 Encoder never
   sets FlexibleMode), the VP9 frame-header parser codecs/vp9.Header.Unmarshal (bit reader), and
   VP9Packet.Unmarshal (positions only: B, E and where the payload starts).  Proof-free. *)
From GVL Require Import NList Wire Chunks Rtp.
From GVG Require Import Consts.
Open Scope N_scope.

Definition cap : N := vp9_max_frame.          (* vp9.MaxFrameSize *)

Definition bit (b k : N) : N := (b / 2 ^ k) mod 2.

(* ---- codecs/vp9: bit reader and Header.Unmarshal ---- *)
(* one bit, most significant first; None = index out of range *)
Definition bit_at (buf : bytes) (pos : N) : option N :=
  match nnth (pos / 8) buf with
  | Some b => Some (bit b (7 - pos mod 8))
  | None => None
  end.
(* readBitsUnsafe: n bits, most significant first *)
Fixpoint rbits (buf : bytes) (pos : N) (n : nat) : option N :=
  match n with
  | O => Some 0
  | S k =>
    match bit_at buf pos, rbits buf (pos + 1) k with
    | Some b, Some r => Some (b * 2 ^ (N.of_nat k) + r)
    | _, _ => None
    end
  end.
(* hasSpace *)
Definition has_space (buf : bytes) (pos n : N) : bool := n <=? 8 * nlen buf - pos.

(* NonKeyFrame, Width(), Height() of a parsed header *)
Inductive hres := HErr | HPanic | HOk (nonkey : bool) (w h : N).

Definition rd (buf : bytes) (pos : N) (n : nat) (k : N -> hres) : hres :=
  match rbits buf pos n with Some v => k v | None => HPanic end.

(* color_config: the position after it, or an error *)
Definition color_config (profile : N) (buf : bytes) (pos : N) : hres + N :=
  let pos1_or :=
    if 2 <=? profile then (if has_space buf pos 1 then inr (pos + 1) else inl HErr) else inr pos in
  match pos1_or with
  | inl e => inl e
  | inr pos1 =>
    if negb (has_space buf pos1 3) then inl HErr else
    match rbits buf pos1 3 with
    | None => inl HPanic
    | Some cs =>
      let pos2 := pos1 + 3 in
      let odd := (profile =? 1) || (profile =? 3) in
      if negb (cs =? 7) then
        if negb (has_space buf pos2 1) then inl HErr else
        let pos3 := pos2 + 1 in
        if odd then (if has_space buf pos3 3 then inr (pos3 + 3) else inl HErr) else inr pos3
      else
        if odd then (if has_space buf pos2 1 then inr (pos2 + 1) else inl HErr) else inr pos2
    end
  end.

Definition vp9_header (buf : bytes) : hres :=
  if negb (has_space buf 0 4) then HErr else
  rd buf 0 2 (fun marker =>
  if negb (marker =? 2) then HErr else
  rd buf 2 1 (fun plow => rd buf 3 1 (fun phigh =>
  let profile := 2 * phigh + plow in
  let pos_or := if profile =? 3 then (if has_space buf 4 1 then inr 5 else inl HErr) else inr 4 in
  match pos_or with
  | inl e => e
  | inr pos =>
    if negb (has_space buf pos 1) then HErr else
    rd buf pos 1 (fun show_existing =>
    let pos := pos + 1 in
    if show_existing =? 1 then
      (if has_space buf pos 3 then HOk false 0 0 else HErr)
    else
      if negb (has_space buf pos 3) then HErr else
      rd buf pos 1 (fun nonkey =>
      let pos := pos + 3 in
      if nonkey =? 1 then HOk true 0 0 else
      if negb (has_space buf pos 24) then HErr else
      rd buf pos 8 (fun s0 => if negb (s0 =? 73) then HErr else
      rd buf (pos + 8) 8 (fun s1 => if negb (s1 =? 131) then HErr else
      rd buf (pos + 16) 8 (fun s2 => if negb (s2 =? 66) then HErr else
      match color_config profile buf (pos + 24) with
      | inl e => e
      | inr pos =>
        if negb (has_space buf pos 32) then HErr else
        rd buf pos 16 (fun wm1 => rd buf (pos + 16) 16 (fun hm1 =>
        HOk false ((wm1 + 1) mod 65536) ((hm1 + 1) mod 65536)))
      end)))))
  end))).

(* ---- encoder ---- *)
Definition b2n (b : bool) : N := if b then 1 else 0.

(* the descriptor of one packet: I=1, Z=1, P, B, E, V; 15-bit picture ID; scalability structure on
   the first packet of a key frame *)
Definition descriptor (nonkey first last : bool) (pid w h : N) : bytes :=
  let ss := negb nonkey && first in
  [129 + 64 * b2n nonkey + 8 * b2n first + 4 * b2n last + 2 * b2n ss;
   (pid / 256) mod 256 + 128 - 128 * bit (pid / 256) 7; pid mod 256]
  ++ (if ss then [24; (w / 256) mod 256; w mod 256; (h / 256) mod 256; h mod 256; 1; 20; 1] else []).

Fixpoint mk_pkts (seq : N) (nonkey first : bool) (pid w h : N) (cs : list bytes) : list packet :=
  match cs with
  | [] => []
  | c :: t =>
    let last := match t with [] => true | _ => false end in
    mkPkt seq 0 last (descriptor nonkey first last pid w h ++ c)
    :: mk_pkts (seq_next seq) nonkey false pid w h t
  end.

(* payloadNonFlexible: the pieces; [] when the header does not parse or a piece would be empty *)
Definition pieces (mtu : N) (nonkey : bool) (frame : bytes) : list bytes :=
  let hs1 := if nonkey then 3 else 11 in
  if mtu <=? hs1 then [] else
  match frame with
  | [] => []
  | _ => ntake (mtu - hs1) frame :: chunks (mtu - 3) (ndrop (mtu - hs1) frame)
  end.

(* one Encode call: packets, next sequence number, next picture ID; None = Go would panic *)
Definition enc (max seq pid : N) (frame : bytes) : option (list packet * N * N) :=
  let mtu := max mod 65536 in
  let pid' := if 32768 <=? pid + 1 then 0 else pid + 1 in
  match vp9_header frame with
  | HPanic => None
  | HErr => Some ([], seq, pid')
  | HOk nonkey w h =>
    let cs := pieces mtu nonkey frame in
    Some (mk_pkts seq nonkey true pid w h cs, seq_add seq (nlen cs), pid')
  end.

Fixpoint enc_many (max seq pid : N) (frames : list bytes) : option (list (list packet)) :=
  match frames with
  | [] => Some []
  | f :: t =>
    match enc max seq pid f with
    | None => None
    | Some (ps, seq', pid') =>
      match enc_many max seq' pid' t with
      | None => None
      | Some r => Some (ps :: r)
      end
    end
  end.

(* ---- codecs.VP9Packet.Unmarshal: B, E and the payload after the descriptor ---- *)
Inductive rr (A : Type) := RErr | RPanic | ROk (a : A).
Arguments RErr {A}. Arguments RPanic {A}. Arguments ROk {A} a.
Inductive ures := UErr | UPanic | UOk (b e : bool) (payload : bytes).

Definition rbind {A B} (r : rr A) (k : A -> rr B) : rr B :=
  match r with RErr => RErr | RPanic => RPanic | ROk a => k a end.
(* checked byte read, after the length test of the Go code *)
Definition byte_at (pl : bytes) (pos : N) : rr N :=
  if nlen pl <=? pos then RErr else
  match nnth pos pl with Some b => ROk b | None => RPanic end.

Definition parse_picture_id (pl : bytes) (pos : N) : rr N :=
  rbind (byte_at pl pos) (fun b =>
  if bit b 7 =? 1 then rbind (byte_at pl (pos + 1)) (fun _ => ROk (pos + 2)) else ROk (pos + 1)).

Definition parse_layer_info (pl : bytes) (pos : N) (f : bool) : rr N :=
  rbind (byte_at pl pos) (fun b =>
  if vp9_max_spatial <=? (b / 2) mod 8 then RErr else
  if f then ROk (pos + 1) else rbind (byte_at pl (pos + 1)) (fun _ => ROk (pos + 2))).

(* [k] = len(p.PDiff) before the iteration *)
Fixpoint parse_ref_indices (fuel : nat) (pl : bytes) (pos k : N) : rr N :=
  match fuel with
  | O => RPanic
  | S fuel' =>
    rbind (byte_at pl pos) (fun b =>
    if bit b 0 =? 0 then ROk (pos + 1)
    else if vp9_max_refpics <=? k + 1 then RErr
    else parse_ref_indices fuel' pl (pos + 1) (k + 1))
  end.

Fixpoint ss_sizes (n : nat) (pl : bytes) (pos : N) : rr N :=
  match n with
  | O => ROk pos
  | S n' => if nlen pl <=? pos + 3 then RErr else ss_sizes n' pl (pos + 4)
  end.

Fixpoint ss_groups (n : nat) (pl : bytes) (pos : N) : rr N :=
  match n with
  | O => ROk pos
  | S n' =>
    rbind (byte_at pl pos) (fun b =>
    let r := (b / 4) mod 4 in
    let pos := pos + 1 in
    if nlen pl <=? pos + r - 1 then RErr else ss_groups n' pl (pos + r))
  end.

Definition parse_ss (pl : bytes) (pos : N) : rr N :=
  rbind (byte_at pl pos) (fun b =>
  let ns := b / 32 in
  let y := bit b 4 =? 1 in
  let g := bit b 3 =? 1 in
  let pos := pos + 1 in
  rbind (if y then ss_sizes (N.to_nat (ns mod 8 + 1)) pl pos else ROk pos) (fun pos =>
  rbind (if g then rbind (byte_at pl pos) (fun ng => ROk (ng mod 256, pos + 1)) else ROk (0, pos)) (fun r =>
  ss_groups (N.to_nat (fst r)) pl (snd r)))).

Definition vp9_unmarshal (pl : bytes) : ures :=
  if nlen pl <? 1 then UErr else
  match nnth 0 pl with
  | None => UPanic
  | Some b0 =>
    let fI := bit b0 7 =? 1 in let fP := bit b0 6 =? 1 in let fL := bit b0 5 =? 1 in
    let fF := bit b0 4 =? 1 in let fB := bit b0 3 =? 1 in let fE := bit b0 2 =? 1 in
    let fV := bit b0 1 =? 1 in
    let r :=
      rbind (if fI then parse_picture_id pl 1 else ROk 1) (fun pos =>
      rbind (if fL then parse_layer_info pl pos fF else ROk pos) (fun pos =>
      rbind (if fF && fP then parse_ref_indices 4 pl pos 0 else ROk pos) (fun pos =>
      if fV then parse_ss pl pos else ROk pos))) in
    match r with
    | RErr => UErr
    | RPanic => UPanic
    | ROk pos => if nlen pl <? pos then UPanic else UOk fB fE (ndrop pos pl)   (* packet[pos:] *)
    end
  end.

(* ---- decoder ---- *)
Record dstate := mkD { dfrags : list bytes; dsize : N; dnext : N }.
Definition dinit : dstate := mkD [] 0 0.
Definition dreset (d : dstate) : dstate := mkD [] 0 (dnext d).

Fixpoint join_aux (frags : list bytes) (size n : N) : option bytes :=
  match frags with
  | [] => Some (nrep 0 (size - n))
  | p :: t =>
      if size <? n then None else
      let c := ntake (size - n) p in
      match join_aux t size (n + nlen c) with
      | Some r => Some (c ++ r)
      | None => None
      end
  end.
Definition join (frags : list bytes) (size : N) : option bytes := join_aux frags size 0.

Definition dec (d : dstate) (p : packet) : dstate * dres bytes :=
  match vp9_unmarshal (ppayload p) with
  | UErr => (dreset d, DErr)
  | UPanic => (d, DPanic)
  | UOk b e chunk =>
    if nlen chunk =? 0 then (dreset d, DErr) else
    if b then
      if negb e then (mkD [chunk] (nlen chunk) (seq_next (pseq p)), DMore)
      else (dreset d, DFrame chunk)
    else
      if dsize d =? 0 then (d, DErr) else
      if negb (pseq p =? dnext d) then (dreset d, DErr) else
      let size' := dsize d + nlen chunk in
      if cap <? size' then (dreset d, DErr) else
      let d' := mkD (dfrags d ++ [chunk]) size' (seq_next (dnext d)) in
      if negb e then (d', DMore) else
      match join (dfrags d') size' with
      | Some f => (dreset d', DFrame f)
      | None => (d', DPanic)
      end
  end.

Fixpoint dec_run (d : dstate) (ps : list packet) : dstate * list (dres bytes) :=
  match ps with
  | [] => (d, [])
  | p :: t => let '(d', r) := dec d p in let '(d'', rs) := dec_run d' t in (d'', r :: rs)
  end.

Definition retained (d : dstate) : N * N := (nlen (concat (dfrags d)), nlen (dfrags d)).

(* ---- wire ---- *)
Definition put_res (r : dres bytes) : list N :=
  match r with
  | DFrame f => 1 :: 1 :: putl f
  | DMore => [0]
  | DErr => [2]
  | DPanic => [77]
  end.

Fixpoint get_uframes (fuel : list N) (k : N) (l : list N) : option (list bytes) :=
  if k =? 0 then Some [] else
  match fuel with
  | [] => None
  | _ :: fuel' =>
    match l with
    | 1 :: r0 =>
      match getl r0 with
      | None => None
      | Some (f, r) => option_map (cons f) (get_uframes fuel' (N.pred k) r)
      end
    | _ => None
    end
  end.

(* the harness derives Encoder.InitialPictureID from the format parameter (32 values): near the
   15-bit wrap, near the multiples of 256, and 0xFFFF (masked to 0x7FFF by the payloader) *)
Definition pid_of_param (param : N) : N :=
  if param <? 16 then (32760 + param) mod 32768
  else if param =? 31 then 65535 mod 32768
  else ((param - 16) * 2048 + 250) mod 32768.

(* packets of a decode case; like GVL.Rtp.get_pkts but linear in the length of the line (the
   near-cap histories are lines of several million tokens) *)
Fixpoint take_n (n : N) (l : list N) {struct l} : option (list N * list N) :=
  match l with
  | [] => if n =? 0 then Some ([], []) else None
  | x :: t =>
    if n =? 0 then Some ([], l) else
    match take_n (N.pred n) t with
    | Some (a, r) => Some (x :: a, r)
    | None => None
    end
  end.

Fixpoint get_pkts_lin (fuel : list N) (k : N) (l : list N) : option (list packet) :=
  if k =? 0 then Some [] else
  match fuel with
  | [] => None
  | _ :: fuel' =>
    match l with
    | s :: t :: m :: n :: r =>
      match take_n n r with
      | Some (pl, r') => option_map (cons (mkPkt s t (getb m) pl)) (get_pkts_lin fuel' (N.pred k) r')
      | None => None
      end
    | _ => None
    end
  end.

Definition run (c : list N) : list N :=
  match c with
  | 1 :: param :: max :: seq :: k :: t =>
      match get_uframes c k t with
      | Some frames =>
          let max' := if max =? 0 then vp9_default_max else max in
          match enc_many max' seq (pid_of_param param) frames with
          | Some pss => put_pkts (concat pss)
          | None => [77]
          end
      | None => bad_case
      end
  | 2 :: _ :: k :: t =>
      match get_pkts_lin c k t with
      | Some ps =>
          let '(d, rs) := dec_run dinit ps in
          concat (map put_res rs) ++ [fst (retained d); snd (retained d)]
      | None => bad_case
      end
  | _ => bad_case
  end.

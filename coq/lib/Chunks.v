(* Splitting a byte string into consecutive pieces of at most n elements: the common core of
   every fragmenting packetizer (packetCount = ceil(len/avail); all pieces full but the last). *)
From GVL Require Import NList.
From Coq Require Import ZifyBool ZifyNat ZifyN.
Open Scope N_scope.

Section C.
Context {A : Type}.

Fixpoint chunks_aux (fuel : list A) (n : N) (l : list A) : list (list A) :=
  match l with
  | [] => []
  | _ :: _ =>
    match fuel with
    | [] => []
    | _ :: fuel' => ntake n l :: chunks_aux fuel' n (ndrop n l)
    end
  end.

Definition chunks (n : N) (l : list A) : list (list A) := chunks_aux l n l.

Lemma chunks_aux_concat n : 0 < n -> forall fuel l,
  nlen l <= nlen fuel -> concat (chunks_aux fuel n l) = l.
Proof.
  intros Hn. induction fuel as [|f fuel IH]; intros l Hl.
  - destruct l; [reflexivity|]. cbn [nlen] in Hl. lia.
  - destruct l as [|x t]; [reflexivity|]. cbn [chunks_aux concat].
    rewrite IH.
    + apply ntake_ndrop.
    + rewrite nlen_ndrop. cbn [nlen] in *. lia.
Qed.

Lemma chunks_concat n l : 0 < n -> concat (chunks n l) = l.
Proof. intros Hn. apply chunks_aux_concat; [assumption|lia]. Qed.

Lemma chunks_aux_bounds n : 0 < n -> forall fuel l,
  Forall (fun c => 0 < nlen c /\ nlen c <= n) (chunks_aux fuel n l).
Proof.
  intros Hn. induction fuel as [|f fuel IH]; intros l.
  - destruct l; constructor.
  - destruct l as [|x t]; [constructor|]. cbn [chunks_aux]. constructor; [|apply IH].
    rewrite nlen_ntake. cbn [nlen]. lia.
Qed.

Lemma chunks_bounds n l : 0 < n -> Forall (fun c => 0 < nlen c /\ nlen c <= n) (chunks n l).
Proof. intros Hn. now apply chunks_aux_bounds. Qed.

(* fuel independence: any fuel at least as long as the list gives the same result *)
Lemma chunks_aux_fuel n : 0 < n -> forall fuel1 fuel2 l,
  nlen l <= nlen fuel1 -> nlen l <= nlen fuel2 -> chunks_aux fuel1 n l = chunks_aux fuel2 n l.
Proof.
  intros Hn. induction fuel1 as [|f1 fuel1 IH]; intros fuel2 l H1 H2.
  - destruct l; [destruct fuel2; reflexivity|]. cbn [nlen] in H1. lia.
  - destruct l as [|x t]; [destruct fuel2; reflexivity|].
    destruct fuel2 as [|f2 fuel2]; [cbn [nlen] in H2; lia|].
    cbn [chunks_aux]. f_equal. apply IH; rewrite nlen_ndrop; cbn [nlen] in *; lia.
Qed.

Lemma chunks_nil n : chunks n [] = [].
Proof. reflexivity. Qed.

Lemma chunks_cons n l : 0 < n -> l <> [] -> chunks n l = ntake n l :: chunks n (ndrop n l).
Proof.
  intros Hn Hl. unfold chunks. destruct l as [|x t]; [contradiction|].
  cbn [chunks_aux]. f_equal. apply chunks_aux_fuel; try assumption; try lia.
  rewrite nlen_ndrop. cbn [nlen]. lia.
Qed.

Lemma chunks_small n l : 0 < n -> l <> [] -> nlen l <= n -> chunks n l = [l].
Proof.
  intros Hn Hl Hle. rewrite chunks_cons by assumption.
  rewrite ntake_all, ndrop_all by assumption. reflexivity.
Qed.

(* number of pieces = ceil(len / n) *)
Lemma chunks_count n l : 0 < n -> nlen (chunks n l) = (nlen l + n - 1) / n.
Proof.
  intros Hn. remember (nlen l) as k eqn:Ek. revert l Ek.
  induction k as [k IH] using (well_founded_induction N.lt_wf_0). intros l Ek.
  destruct l as [|x t].
  - cbn [nlen] in Ek. subst k. rewrite chunks_nil. cbn [nlen]. symmetry. apply N.div_small. lia.
  - rewrite chunks_cons by (assumption || discriminate). cbn [nlen].
    rewrite (IH (nlen (ndrop n (x :: t)))); [| rewrite nlen_ndrop; cbn [nlen] in *; lia | reflexivity].
    rewrite nlen_ndrop. rewrite <- Ek.
    destruct (N.leb_spec k n) as [Hle|Hgt].
    + replace (k - n) with 0 by lia. replace (0 + n - 1) with (n - 1) by lia.
      rewrite (N.div_small (n - 1) n) by lia.
      cbn [nlen] in Ek.
      assert (Hq : (k + n - 1) / n = 1).
      { symmetry. apply (N.div_unique (k + n - 1) n 1 (k - 1)); lia. }
      rewrite Hq. reflexivity.
    + replace (k + n - 1) with ((k - n + n - 1) + 1 * n) by lia.
      rewrite N.div_add by lia. lia.
Qed.

End C.

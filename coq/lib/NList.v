(* N-indexed list operations with structural recursion on the list (executable after
   extraction without unary nat), and their characterisation by firstn/skipn. *)
From Coq Require Export List NArith ZArith Lia Bool.
From Coq Require Import ZifyBool ZifyNat ZifyN.
Export ListNotations.
Open Scope N_scope.

Section NL.
Context {A : Type}.

Fixpoint nlen (l : list A) : N :=
  match l with [] => 0 | _ :: t => N.succ (nlen t) end.

Fixpoint ntake (n : N) (l : list A) : list A :=
  match l with
  | [] => []
  | x :: t => if n =? 0 then [] else x :: ntake (N.pred n) t
  end.

Fixpoint ndrop (n : N) (l : list A) : list A :=
  match l with
  | [] => []
  | x :: t => if n =? 0 then l else ndrop (N.pred n) t
  end.

Fixpoint nnth (n : N) (l : list A) : option A :=
  match l with
  | [] => None
  | x :: t => if n =? 0 then Some x else nnth (N.pred n) t
  end.

(* checked slice l[i:j] : None models a Go slice-bounds panic *)
Definition nsub (l : list A) (i j : N) : option (list A) :=
  if (i <=? j) && (j <=? nlen l) then Some (ntake (j - i) (ndrop i l)) else None.

Lemma nlen_length l : nlen l = N.of_nat (length l).
Proof. induction l as [|x t IH]; cbn [nlen length]; [reflexivity|]. rewrite IH. lia. Qed.

Lemma ntake_firstn n l : ntake n l = firstn (N.to_nat n) l.
Proof.
  revert n; induction l as [|x t IH]; intros n; cbn [ntake].
  - now rewrite firstn_nil.
  - destruct (N.eqb_spec n 0) as [->|Hn]; [reflexivity|].
    replace (N.to_nat n) with (S (N.to_nat (N.pred n))) by lia.
    cbn [firstn]. now rewrite IH.
Qed.

Lemma ndrop_skipn n l : ndrop n l = skipn (N.to_nat n) l.
Proof.
  revert n; induction l as [|x t IH]; intros n; cbn [ndrop].
  - now rewrite skipn_nil.
  - destruct (N.eqb_spec n 0) as [->|Hn]; [reflexivity|].
    replace (N.to_nat n) with (S (N.to_nat (N.pred n))) by lia.
    cbn [skipn]. now rewrite IH.
Qed.

Lemma ntake_ndrop n l : ntake n l ++ ndrop n l = l.
Proof. rewrite ntake_firstn, ndrop_skipn. apply firstn_skipn. Qed.

Lemma nlen_app l1 l2 : nlen (l1 ++ l2) = nlen l1 + nlen l2.
Proof. rewrite !nlen_length, app_length. lia. Qed.

Lemma nlen_ntake n l : nlen (ntake n l) = N.min n (nlen l).
Proof. rewrite ntake_firstn, !nlen_length, firstn_length. lia. Qed.

Lemma nlen_ndrop n l : nlen (ndrop n l) = nlen l - n.
Proof. rewrite ndrop_skipn, !nlen_length, skipn_length. lia. Qed.

Lemma nlen_nil_iff l : nlen l = 0 <-> l = [].
Proof. destruct l; cbn [nlen]; split; intros H; try reflexivity; try discriminate; lia. Qed.

Lemma ntake_all n l : nlen l <= n -> ntake n l = l.
Proof. intros H. rewrite ntake_firstn. apply firstn_all2. rewrite nlen_length in H. lia. Qed.

Lemma ndrop_all n l : nlen l <= n -> ndrop n l = [].
Proof. intros H. rewrite ndrop_skipn. apply skipn_all2. rewrite nlen_length in H. lia. Qed.

Lemma ntake_0 l : ntake 0 l = [].
Proof. destruct l; reflexivity. Qed.

Lemma ndrop_0 l : ndrop 0 l = l.
Proof. destruct l; reflexivity. Qed.

Lemma ntake_app_exact l1 l2 : ntake (nlen l1) (l1 ++ l2) = l1.
Proof.
  rewrite ntake_firstn, nlen_length, Nat2N.id.
  rewrite firstn_app, Nat.sub_diag, firstn_O, app_nil_r. apply firstn_all.
Qed.

Lemma ndrop_app_exact l1 l2 : ndrop (nlen l1) (l1 ++ l2) = l2.
Proof.
  rewrite ndrop_skipn, nlen_length, Nat2N.id.
  rewrite skipn_app, Nat.sub_diag, skipn_all. reflexivity.
Qed.

End NL.

Lemma nlen_map {A B} (f : A -> B) l : nlen (map f l) = nlen l.
Proof. rewrite !nlen_length, map_length. reflexivity. Qed.

Lemma nlen_repeat {A} (x : A) n : nlen (repeat x n) = N.of_nat n.
Proof. rewrite nlen_length, repeat_length. reflexivity. Qed.

(* ---- replicate by binary size, update at index ---- *)
Fixpoint nrepeat {A} (x : A) (n : positive) : list A :=
  match n with
  | xH => [x]
  | xO p => nrepeat x p ++ nrepeat x p
  | xI p => x :: nrepeat x p ++ nrepeat x p
  end.
Definition nrep {A} (x : A) (n : N) : list A :=
  match n with N0 => [] | Npos p => nrepeat x p end.

Fixpoint nset {A} (i : N) (v : A) (l : list A) : list A :=
  match l with
  | [] => []
  | x :: t => if i =? 0 then v :: t else x :: nset (N.pred i) v t
  end.


(* ---- nnth / nset / nrep ---- *)
Lemma nnth_lt {A} (l : list A) i : i < nlen l -> exists x, nnth i l = Some x.
Proof.
  revert i; induction l as [|x t IH]; intros i H; cbn [nlen nnth] in *; [lia|].
  destruct (N.eqb_spec i 0); [eauto|]. apply IH. lia.
Qed.
Lemma nnth_ge {A} (l : list A) i : nlen l <= i -> nnth i l = None.
Proof.
  revert i; induction l as [|x t IH]; intros i H; cbn [nlen nnth] in *; [reflexivity|].
  destruct (N.eqb_spec i 0); [lia|]. apply IH. lia.
Qed.
Lemma nlen_nset {A} i (v : A) l : nlen (nset i v l) = nlen l.
Proof.
  revert i; induction l as [|x t IH]; intros i; cbn [nset nlen]; [reflexivity|].
  destruct (i =? 0); cbn [nlen]; [reflexivity|]. now rewrite IH.
Qed.
Lemma nnth_nset_same {A} i (v : A) l : i < nlen l -> nnth i (nset i v l) = Some v.
Proof.
  revert i; induction l as [|x t IH]; intros i H; cbn [nlen nset nnth] in *; [lia|].
  destruct (N.eqb_spec i 0) as [->|Hi]; cbn [nnth].
  - reflexivity.
  - destruct (N.eqb_spec i 0); [lia|]. apply IH. lia.
Qed.
Lemma nnth_nset_other {A} i j (v : A) l : i <> j -> nnth j (nset i v l) = nnth j l.
Proof.
  revert i j; induction l as [|x t IH]; intros i j H; cbn [nset nnth]; [reflexivity|].
  destruct (N.eqb_spec i 0) as [->|Hi]; cbn [nnth].
  - destruct (N.eqb_spec j 0); [lia|reflexivity].
  - destruct (N.eqb_spec j 0); [reflexivity|]. apply IH. lia.
Qed.
Lemma nrepeat_repeat {A} (x : A) p : nrepeat x p = repeat x (Pos.to_nat p).
Proof.
  induction p as [p IH|p IH|]; cbn [nrepeat].
  - rewrite IH, <- repeat_app. replace (Pos.to_nat p~1) with (S (Pos.to_nat p + Pos.to_nat p))%nat by lia. reflexivity.
  - rewrite IH, <- repeat_app. f_equal. lia.
  - reflexivity.
Qed.
Lemma nrep_repeat {A} (x : A) n : nrep x n = repeat x (N.to_nat n).
Proof. destruct n; cbn [nrep]; [reflexivity|]. rewrite nrepeat_repeat. f_equal. Qed.
Lemma nlen_nrep {A} (x : A) n : nlen (nrep x n) = n.
Proof. rewrite nrep_repeat, nlen_repeat. lia. Qed.
Lemma nnth_repeat {A} (x : A) k i : i < N.of_nat k -> nnth i (repeat x k) = Some x.
Proof.
  revert i; induction k as [|k IH]; intros i H; [lia|]. cbn [repeat nnth].
  destruct (N.eqb_spec i 0); [reflexivity|]. apply IH. lia.
Qed.
Lemma nnth_nrep {A} (x : A) n i : i < n -> nnth i (nrep x n) = Some x.
Proof. intros H. rewrite nrep_repeat. apply nnth_repeat. lia. Qed.
Lemma nnth_map_const {A B} (c : B) (l : list A) i : i < nlen l -> nnth i (map (fun _ => c) l) = Some c.
Proof.
  revert i; induction l as [|x t IH]; intros i H; cbn [nlen map nnth] in *; [lia|].
  destruct (N.eqb_spec i 0); [reflexivity|]. apply IH. lia.
Qed.
Lemma nnth_app_last {A} (l : list A) x : nnth (nlen l) (l ++ [x]) = Some x.
Proof.
  induction l as [|y t IH]; cbn [nlen app nnth]; [reflexivity|].
  destruct (N.eqb_spec (N.succ (nlen t)) 0); [lia|]. now rewrite N.pred_succ.
Qed.
Lemma nnth_app_lt {A} (l : list A) x i : i < nlen l -> nnth i (l ++ [x]) = nnth i l.
Proof.
  revert i; induction l as [|y t IH]; intros i H; cbn [nlen app nnth] in *; [lia|].
  destruct (N.eqb_spec i 0); [reflexivity|]. apply IH. lia.
Qed.
Lemma nnth_tail {A} (x : A) t i : nnth (i + 1) (x :: t) = nnth i t.
Proof. cbn [nnth]. destruct (N.eqb_spec (i + 1) 0); [lia|]. f_equal. lia. Qed.


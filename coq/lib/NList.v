(* N-indexed list operations with structural recursion on the list (executable after
   extraction without unary nat), and their characterisation by firstn/skipn. *)
From Coq Require Export List NArith ZArith Lia Bool.
From Coq Require Import ZifyBool ZifyNat ZifyN.
Export ListNotations.
Open Scope N_scope.

Section NL.
Context {A : Type}.

Fixpoint nlen (l : list A) : N :=
  match l with [] => 0 | _ :: t => N.succ (nlen t) end.

Fixpoint ntake (n : N) (l : list A) : list A :=
  match l with
  | [] => []
  | x :: t => if n =? 0 then [] else x :: ntake (N.pred n) t
  end.

Fixpoint ndrop (n : N) (l : list A) : list A :=
  match l with
  | [] => []
  | x :: t => if n =? 0 then l else ndrop (N.pred n) t
  end.

Fixpoint nnth (n : N) (l : list A) : option A :=
  match l with
  | [] => None
  | x :: t => if n =? 0 then Some x else nnth (N.pred n) t
  end.

(* checked slice l[i:j] : None models a Go slice-bounds panic *)
Definition nsub (l : list A) (i j : N) : option (list A) :=
  if (i <=? j) && (j <=? nlen l) then Some (ntake (j - i) (ndrop i l)) else None.

Lemma nlen_length l : nlen l = N.of_nat (length l).
Proof. induction l as [|x t IH]; cbn [nlen length]; [reflexivity|]. rewrite IH. lia. Qed.

Lemma ntake_firstn n l : ntake n l = firstn (N.to_nat n) l.
Proof.
  revert n; induction l as [|x t IH]; intros n; cbn [ntake].
  - now rewrite firstn_nil.
  - destruct (N.eqb_spec n 0) as [->|Hn]; [reflexivity|].
    replace (N.to_nat n) with (S (N.to_nat (N.pred n))) by lia.
    cbn [firstn]. now rewrite IH.
Qed.

Lemma ndrop_skipn n l : ndrop n l = skipn (N.to_nat n) l.
Proof.
  revert n; induction l as [|x t IH]; intros n; cbn [ndrop].
  - now rewrite skipn_nil.
  - destruct (N.eqb_spec n 0) as [->|Hn]; [reflexivity|].
    replace (N.to_nat n) with (S (N.to_nat (N.pred n))) by lia.
    cbn [skipn]. now rewrite IH.
Qed.

Lemma ntake_ndrop n l : ntake n l ++ ndrop n l = l.
Proof. rewrite ntake_firstn, ndrop_skipn. apply firstn_skipn. Qed.

Lemma nlen_app l1 l2 : nlen (l1 ++ l2) = nlen l1 + nlen l2.
Proof. rewrite !nlen_length, app_length. lia. Qed.

Lemma nlen_ntake n l : nlen (ntake n l) = N.min n (nlen l).
Proof. rewrite ntake_firstn, !nlen_length, firstn_length. lia. Qed.

Lemma nlen_ndrop n l : nlen (ndrop n l) = nlen l - n.
Proof. rewrite ndrop_skipn, !nlen_length, skipn_length. lia. Qed.

Lemma nlen_nil_iff l : nlen l = 0 <-> l = [].
Proof. destruct l; cbn [nlen]; split; intros H; try reflexivity; try discriminate; lia. Qed.

Lemma ntake_all n l : nlen l <= n -> ntake n l = l.
Proof. intros H. rewrite ntake_firstn. apply firstn_all2. rewrite nlen_length in H. lia. Qed.

Lemma ndrop_all n l : nlen l <= n -> ndrop n l = [].
Proof. intros H. rewrite ndrop_skipn. apply skipn_all2. rewrite nlen_length in H. lia. Qed.

Lemma ntake_0 l : ntake 0 l = [].
Proof. destruct l; reflexivity. Qed.

Lemma ndrop_0 l : ndrop 0 l = l.
Proof. destruct l; reflexivity. Qed.

Lemma ntake_app_exact l1 l2 : ntake (nlen l1) (l1 ++ l2) = l1.
Proof.
  rewrite ntake_firstn, nlen_length, Nat2N.id.
  rewrite firstn_app, Nat.sub_diag, firstn_O, app_nil_r. apply firstn_all.
Qed.

Lemma ndrop_app_exact l1 l2 : ndrop (nlen l1) (l1 ++ l2) = l2.
Proof.
  rewrite ndrop_skipn, nlen_length, Nat2N.id.
  rewrite skipn_app, Nat.sub_diag, skipn_all. reflexivity.
Qed.

End NL.

Lemma nlen_map {A B} (f : A -> B) l : nlen (map f l) = nlen l.
Proof. rewrite !nlen_length, map_length. reflexivity. Qed.

Lemma nlen_repeat {A} (x : A) n : nlen (repeat x n) = N.of_nat n.
Proof. rewrite nlen_length, repeat_length. reflexivity. Qed.

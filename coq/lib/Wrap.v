(* Fixed-width integer wrap-around, written explicitly. *)
From Coq Require Export NArith ZArith Lia.
From Coq Require Import ZifyBool ZifyNat ZifyN.
Ltac Zify.zify_post_hook ::= Z.div_mod_to_equations.
Open Scope Z_scope.

Definition w8  (x : Z) : Z := x mod 256.
Definition w16 (x : Z) : Z := x mod 65536.
Definition w32 (x : Z) : Z := x mod 4294967296.
Definition w64 (x : Z) : Z := x mod 18446744073709551616.
(* two's complement reinterpretation of an already wrapped value *)
Definition s16 (x : Z) : Z := if x <? 32768 then x else x - 65536.
Definition s32 (x : Z) : Z := if x <? 2147483648 then x else x - 4294967296.
Definition s64 (x : Z) : Z := if x <? 9223372036854775808 then x else x - 18446744073709551616.

Lemma w16_range x : 0 <= w16 x < 65536.
Proof. unfold w16. lia. Qed.
Lemma w32_range x : 0 <= w32 x < 4294967296.
Proof. unfold w32. lia. Qed.
Lemma w16_idem x : w16 (w16 x) = w16 x.
Proof. unfold w16. lia. Qed.
Lemma w16_small x : 0 <= x < 65536 -> w16 x = x.
Proof. unfold w16. lia. Qed.
Lemma w32_small x : 0 <= x < 4294967296 -> w32 x = x.
Proof. unfold w32. lia. Qed.
Lemma w16_add_l a b : w16 (w16 a + b) = w16 (a + b).
Proof. unfold w16. lia. Qed.
Lemma w16_add_r a b : w16 (a + w16 b) = w16 (a + b).
Proof. unfold w16. lia. Qed.
Lemma w32_add_l a b : w32 (w32 a + b) = w32 (a + b).
Proof. unfold w32. lia. Qed.
Lemma s32_w32_small d : -2147483648 <= d < 2147483648 -> s32 (w32 d) = d.
Proof. unfold s32, w32. intros H. destruct (Z.ltb_spec (d mod 4294967296) 2147483648); lia. Qed.
Lemma s16_w16_small d : -32768 <= d < 32768 -> s16 (w16 d) = d.
Proof. unfold s16, w16. intros H. destruct (Z.ltb_spec (d mod 65536) 32768); lia. Qed.
Lemma w32_sub_cancel a b : w32 (w32 (a + b) - w32 a) = w32 b.
Proof. unfold w32. lia. Qed.
Lemma w16_sub_cancel a b : w16 (w16 (a + b) - w16 a) = w16 b.
Proof. unfold w16. lia. Qed.

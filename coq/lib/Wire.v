(* The line protocol between the Go harness and the extracted model: a case and an observable
   are both flat lists of N.  These are the decoding/encoding helpers used by every run function. *)
From GVL Require Import NList.
Open Scope N_scope.

Definition get1 (l : list N) : option (N * list N) :=
  match l with [] => None | x :: t => Some (x, t) end.

(* n x1..xn rest *)
Definition getl (l : list N) : option (list N * list N) :=
  match l with
  | [] => None
  | n :: t => if n <=? nlen t then Some (ntake n t, ndrop n t) else None
  end.

(* k lists, each length-prefixed; fuel is the structural bound (length of input) *)
Fixpoint getls_aux (fuel : list N) (k : N) (l : list N) : option (list (list N) * list N) :=
  if k =? 0 then Some ([], l) else
  match fuel with
  | [] => None
  | _ :: fuel' =>
    match getl l with
    | None => None
    | Some (x, r) =>
      match getls_aux fuel' (N.pred k) r with
      | None => None
      | Some (xs, r') => Some (x :: xs, r')
      end
    end
  end.
Definition getls (l : list N) : option (list (list N) * list N) :=
  match l with
  | [] => None
  | k :: t => getls_aux l k t
  end.

Definition putl (x : list N) : list N := nlen x :: x.
Definition putls (xs : list (list N)) : list N := nlen xs :: concat (map putl xs).
Definition putb (b : bool) : N := if b then 1 else 0.
Definition getb (n : N) : bool := negb (n =? 0).

(* Z as sign, magnitude *)
Definition putz (z : Z) : list N := [if (z <? 0)%Z then 1 else 0; Z.abs_N z].
Definition getz (s m : N) : Z := if s =? 0 then Z.of_N m else (- Z.of_N m)%Z.

(* error marker for a malformed case line: never produced by the Go side *)
Definition bad_case : list N := [999999999].

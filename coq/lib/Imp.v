(* A small imperative language with arrays: the target of tools/go2imp, which translates whole Go functions
   (loops, slice reads and writes, break / continue / early return) from /repo's current source on every run.
   Statements are a deep embedding; expressions are Gallina closures over the state (they are produced by the
   same expression translator as coq/gen/Kern.v: every integer operation normalised to its Go type, division an
   option).  Every slice access is checked: out of range => OPanic.  Scalars are Z (pointers are opaque handles,
   nil = 0); slices are lists of Z.
   [exec] is the executable semantics (fuel = recursion depth); [bs] is the same semantics as a relation, without
   fuel, for proofs; [bs_exec]: a [bs] derivation is what [exec] computes for every sufficiently large fuel, and
   [exec_det]: once [exec] has an answer, more fuel gives the same answer. *)
From Coq Require Import ZArith List Lia Bool.
From GVL Require Import NList.
Import ListNotations.
Open Scope Z_scope.

Definition vars := list (N * Z).
Definition arrs := list (N * list Z).
Record state := mkS { sv : vars; sa : arrs }.

Fixpoint gv (l : vars) (x : N) : Z :=
  match l with [] => 0 | (y, z) :: t => if N.eqb x y then z else gv t x end.
Fixpoint setv (l : vars) (x : N) (z : Z) : vars :=
  match l with
  | [] => [(x, z)]
  | (y, w) :: t => if N.eqb x y then (y, z) :: t else (y, w) :: setv t x z
  end.
Fixpoint ga (l : arrs) (x : N) : list Z :=
  match l with [] => [] | (y, z) :: t => if N.eqb x y then z else ga t x end.
Fixpoint seta (l : arrs) (x : N) (z : list Z) : arrs :=
  match l with
  | [] => [(x, z)]
  | (y, w) :: t => if N.eqb x y then (y, z) :: t else (y, w) :: seta t x z
  end.

Definition V (st : state) (x : N) : Z := gv (sv st) x.
Definition A (st : state) (x : N) : list Z := ga (sa st) x.
Definition LEN (st : state) (x : N) : Z := Z.of_N (nlen (A st x)).
Definition setV (st : state) (x : N) (z : Z) : state := mkS (setv (sv st) x z) (sa st).
Definition setA (st : state) (x : N) (l : list Z) : state := mkS (sv st) (seta (sa st) x l).

Definition zexp := state -> option Z.
Definition bexp := state -> option bool.

Inductive rexp := RZ (e : zexp) | RA (a : N) | RNil | RLit (es : list zexp).
Inductive rval := VZ (z : Z) | VA (l : list Z).

Inductive stmt :=
| SSkip
| SSet (x : N) (e : zexp)                 (* x = e *)
| SLoad (x : N) (a : N) (i : zexp)        (* x = a[i]   (checked) *)
| SStore (a : N) (i v : zexp)             (* a[i] = v   (checked) *)
| SMake (a : N) (n : zexp)                (* a = make([]T, n) *)
| SSeq (s1 s2 : stmt)
| SIf (c : bexp) (s1 s2 : stmt)
| SFor (c : bexp) (post body : stmt)      (* for ; c; post { body } *)
| SBreak
| SContinue
| SRet (rs : list rexp).

Inductive outcome :=
| ONormal (s : state) | OBreak (s : state) | OCont (s : state)
| ORet (v : list rval) (s : state) | OPanic | OFuel.

Fixpoint eval_list (es : list zexp) (st : state) : option (list Z) :=
  match es with
  | [] => Some []
  | e :: t => match e st, eval_list t st with Some z, Some l => Some (z :: l) | _, _ => None end
  end.
Definition eval_r (r : rexp) (st : state) : option rval :=
  match r with
  | RZ e => match e st with Some z => Some (VZ z) | None => None end
  | RA a => Some (VA (A st a))
  | RNil => Some (VA [])
  | RLit es => match eval_list es st with Some l => Some (VA l) | None => None end
  end.
Fixpoint eval_rs (rs : list rexp) (st : state) : option (list rval) :=
  match rs with
  | [] => Some []
  | r :: t => match eval_r r st, eval_rs t st with Some v, Some l => Some (v :: l) | _, _ => None end
  end.

(* the atomic statements *)
Definition do_load (x a : N) (i : zexp) (st : state) : outcome :=
  match i st with
  | None => OPanic
  | Some k => if k <? 0 then OPanic else
      match nnth (Z.to_N k) (A st a) with Some z => ONormal (setV st x z) | None => OPanic end
  end.
Definition do_store (a : N) (i v : zexp) (st : state) : outcome :=
  match i st, v st with
  | Some k, Some z => if k <? 0 then OPanic else
      if (Z.to_N k <? nlen (A st a))%N then ONormal (setA st a (nset (Z.to_N k) z (A st a))) else OPanic
  | _, _ => OPanic
  end.
Definition do_make (a : N) (n : zexp) (st : state) : outcome :=
  match n st with
  | Some k => if k <? 0 then OPanic else ONormal (setA st a (nrep 0 (Z.to_N k)))
  | None => OPanic
  end.
Definition do_set (x : N) (e : zexp) (st : state) : outcome :=
  match e st with Some z => ONormal (setV st x z) | None => OPanic end.
Definition do_ret (rs : list rexp) (st : state) : outcome :=
  match eval_rs rs st with Some vs => ORet vs st | None => OPanic end.

Fixpoint exec (f : nat) (s : stmt) (st : state) : outcome :=
  match f with
  | O => OFuel
  | S f =>
    match s with
    | SSkip => ONormal st
    | SSet x e => do_set x e st
    | SLoad x a i => do_load x a i st
    | SStore a i v => do_store a i v st
    | SMake a n => do_make a n st
    | SSeq s1 s2 => match exec f s1 st with ONormal st' => exec f s2 st' | o => o end
    | SIf c s1 s2 =>
        match c st with Some true => exec f s1 st | Some false => exec f s2 st | None => OPanic end
    | SFor c post body =>
        match c st with
        | None => OPanic
        | Some false => ONormal st
        | Some true =>
            match exec f body st with
            | ONormal st' | OCont st' =>
                match exec f post st' with
                | ONormal st'' => exec f (SFor c post body) st''
                | o => o
                end
            | OBreak st' => ONormal st'
            | o => o
            end
        end
    | SBreak => OBreak st
    | SContinue => OCont st
    | SRet rs => do_ret rs st
    end
  end.

(* ---- the same semantics as a relation (no fuel) ---- *)
Inductive bs : stmt -> state -> outcome -> Prop :=
| bs_skip st : bs SSkip st (ONormal st)
| bs_set x e st : bs (SSet x e) st (do_set x e st)
| bs_load x a i st : bs (SLoad x a i) st (do_load x a i st)
| bs_store a i v st : bs (SStore a i v) st (do_store a i v st)
| bs_make a n st : bs (SMake a n) st (do_make a n st)
| bs_seq s1 s2 st st' o : bs s1 st (ONormal st') -> bs s2 st' o -> bs (SSeq s1 s2) st o
| bs_seq_stop s1 s2 st o : bs s1 st o -> (forall st', o <> ONormal st') -> bs (SSeq s1 s2) st o
| bs_if_true c s1 s2 st o : c st = Some true -> bs s1 st o -> bs (SIf c s1 s2) st o
| bs_if_false c s1 s2 st o : c st = Some false -> bs s2 st o -> bs (SIf c s1 s2) st o
| bs_if_panic c s1 s2 st : c st = None -> bs (SIf c s1 s2) st OPanic
| bs_for_panic c p b st : c st = None -> bs (SFor c p b) st OPanic
| bs_for_done c p b st : c st = Some false -> bs (SFor c p b) st (ONormal st)
| bs_for_step c p b st st' st'' o : c st = Some true ->
    bs b st (ONormal st') -> bs p st' (ONormal st'') -> bs (SFor c p b) st'' o -> bs (SFor c p b) st o
| bs_for_cont c p b st st' st'' o : c st = Some true ->
    bs b st (OCont st') -> bs p st' (ONormal st'') -> bs (SFor c p b) st'' o -> bs (SFor c p b) st o
| bs_for_break c p b st st' : c st = Some true -> bs b st (OBreak st') -> bs (SFor c p b) st (ONormal st')
| bs_for_exit c p b st o : c st = Some true -> bs b st o ->
    (forall st', o <> ONormal st' /\ o <> OCont st' /\ o <> OBreak st') -> bs (SFor c p b) st o
| bs_break st : bs SBreak st (OBreak st)
| bs_cont st : bs SContinue st (OCont st)
| bs_ret rs st : bs (SRet rs) st (do_ret rs st).

(* more fuel never changes an answer *)
Lemma exec_mono : forall f s st o, exec f s st = o -> o <> OFuel -> forall f', (f <= f')%nat -> exec f' s st = o.
Proof.
  induction f as [|f IH]; intros s st o He Ho f' Hle.
  - cbn in He. congruence.
  - destruct f' as [|f']; [lia|]. assert (Hf : (f <= f')%nat) by lia.
    assert (IH' : forall s st o, exec f s st = o -> o <> OFuel -> exec f' s st = o) by (intros; eapply IH; eauto).
    destruct s; cbn [exec] in *; try exact He.
    + destruct (exec f s1 st) eqn:E1; try (subst o; rewrite (IH' _ _ _ E1) by discriminate; reflexivity).
      * rewrite (IH' _ _ _ E1) by discriminate. apply IH'; assumption.
      * congruence.
    + destruct (c st) as [[|]|]; try exact He; apply IH'; assumption.
    + destruct (c st) as [[|]|]; try exact He.
      destruct (exec f s2 st) eqn:E1; try (subst o; rewrite (IH' _ _ _ E1) by discriminate; reflexivity); try congruence.
      * rewrite (IH' _ _ _ E1) by discriminate.
        destruct (exec f s1 s) eqn:E2; try (subst o; rewrite (IH' _ _ _ E2) by discriminate; reflexivity); try congruence.
        rewrite (IH' _ _ _ E2) by discriminate. apply IH'; assumption.
      * rewrite (IH' _ _ _ E1) by discriminate.
        destruct (exec f s1 s) eqn:E2; try (subst o; rewrite (IH' _ _ _ E2) by discriminate; reflexivity); try congruence.
        rewrite (IH' _ _ _ E2) by discriminate. apply IH'; assumption.
Qed.

Lemma exec_det : forall f f' s st o o', exec f s st = o -> exec f' s st = o' -> o <> OFuel -> o' <> OFuel -> o = o'.
Proof.
  intros f f' s st o o' H1 H2 Ho Ho'.
  destruct (Nat.le_ge_cases f f') as [H|H].
  - rewrite (exec_mono _ _ _ _ H1 Ho _ H) in H2. exact H2.
  - rewrite (exec_mono _ _ _ _ H2 Ho' _ H) in H1. symmetry. exact H1.
Qed.

Lemma do_set_nf x e st : do_set x e st <> OFuel.
Proof. unfold do_set. destruct (e st); discriminate. Qed.
Lemma do_load_nf x a i st : do_load x a i st <> OFuel.
Proof. unfold do_load. destruct (i st); try discriminate. destruct (_ <? 0); try discriminate. destruct (nnth _ _); discriminate. Qed.
Lemma do_store_nf a i v st : do_store a i v st <> OFuel.
Proof. unfold do_store. destruct (i st); try discriminate. destruct (v st); try discriminate. destruct (_ <? 0); try discriminate. destruct (_ <? _)%N; discriminate. Qed.
Lemma do_make_nf a n st : do_make a n st <> OFuel.
Proof. unfold do_make. destruct (n st); try discriminate. destruct (_ <? 0); discriminate. Qed.
Lemma do_ret_nf rs st : do_ret rs st <> OFuel.
Proof. unfold do_ret. destruct (eval_rs rs st); discriminate. Qed.

(* a derivation never yields OFuel, and exec computes it for every sufficiently large fuel *)
Lemma bs_exec : forall s st o, bs s st o -> o <> OFuel /\ exists f0, forall f, (f0 <= f)%nat -> exec f s st = o.
Proof.
  induction 1.
  - split; [discriminate|]. exists 1%nat. intros [|f] Hf; [lia|reflexivity].
  - split; [apply do_set_nf|]. exists 1%nat. intros [|f] Hf; [lia|reflexivity].
  - split; [apply do_load_nf|]. exists 1%nat. intros [|f] Hf; [lia|reflexivity].
  - split; [apply do_store_nf|]. exists 1%nat. intros [|f] Hf; [lia|reflexivity].
  - split; [apply do_make_nf|]. exists 1%nat. intros [|f] Hf; [lia|reflexivity].
  - destruct IHbs1 as [_ [f1 H1]]. destruct IHbs2 as [Hn [f2 H2]]. split; [exact Hn|].
    exists (S (Nat.max f1 f2)). intros [|f] Hf; [lia|]. cbn [exec]. rewrite H1 by lia. apply H2. lia.
  - destruct IHbs as [Hn [f1 H1]]. split; [exact Hn|].
    exists (S f1). intros [|f] Hf; [lia|]. cbn [exec]. rewrite H1 by lia.
    destruct o; try reflexivity. exfalso. eapply H0. reflexivity.
  - destruct IHbs as [Hn [f1 H1]]. split; [exact Hn|].
    exists (S f1). intros [|f] Hf; [lia|]. cbn [exec]. rewrite H. apply H1. lia.
  - destruct IHbs as [Hn [f1 H1]]. split; [exact Hn|].
    exists (S f1). intros [|f] Hf; [lia|]. cbn [exec]. rewrite H. apply H1. lia.
  - split; [discriminate|]. exists 1%nat. intros [|f] Hf; [lia|]. cbn [exec]. rewrite H. reflexivity.
  - split; [discriminate|]. exists 1%nat. intros [|f] Hf; [lia|]. cbn [exec]. rewrite H. reflexivity.
  - split; [discriminate|]. exists 1%nat. intros [|f] Hf; [lia|]. cbn [exec]. rewrite H. reflexivity.
  - destruct IHbs1 as [_ [f1 H1']]. destruct IHbs2 as [_ [f2 H2']]. destruct IHbs3 as [Hn [f3 H3']]. split; [exact Hn|].
    exists (S (Nat.max f1 (Nat.max f2 f3))). intros [|f] Hf; [lia|]. cbn [exec]. rewrite H.
    rewrite H1' by lia. rewrite H2' by lia. apply H3'. lia.
  - destruct IHbs1 as [_ [f1 H1']]. destruct IHbs2 as [_ [f2 H2']]. destruct IHbs3 as [Hn [f3 H3']]. split; [exact Hn|].
    exists (S (Nat.max f1 (Nat.max f2 f3))). intros [|f] Hf; [lia|]. cbn [exec]. rewrite H.
    rewrite H1' by lia. rewrite H2' by lia. apply H3'. lia.
  - destruct IHbs as [_ [f1 H1']]. split; [discriminate|].
    exists (S f1). intros [|f] Hf; [lia|]. cbn [exec]. rewrite H. rewrite H1' by lia. reflexivity.
  - destruct IHbs as [Hn [f1 H1']]. split; [exact Hn|].
    exists (S f1). intros [|f] Hf; [lia|]. cbn [exec]. rewrite H. rewrite H1' by lia.
    destruct o; try reflexivity; exfalso; destruct (H1 s) as [Ha [Hb Hc]]; congruence.
  - split; [discriminate|]. exists 1%nat. intros [|f] Hf; [lia|reflexivity].
  - split; [discriminate|]. exists 1%nat. intros [|f] Hf; [lia|reflexivity].
  - split; [apply do_ret_nf|]. exists 1%nat. intros [|f] Hf; [lia|reflexivity].
Qed.

(* what a check of a program proves: for every sufficiently large fuel the interpreter returns o, and no fuel gives
   any other answer than o or "out of fuel" *)
Definition runs_to (s : stmt) (st : state) (o : outcome) : Prop :=
  o <> OFuel /\ (exists f0, forall f, (f0 <= f)%nat -> exec f s st = o) /\
  (forall f o', exec f s st = o' -> o' = o \/ o' = OFuel).

Lemma bs_runs_to s st o : bs s st o -> runs_to s st o.
Proof.
  intros H. destruct (bs_exec _ _ _ H) as [Hn [f0 Hf]]. split; [exact Hn|]. split; [eauto|].
  intros f o' He. destruct o'; try (right; reflexivity); left;
    (eapply exec_det; [exact He | apply (Hf f0); lia | discriminate | exact Hn]).
Qed.

(* ---- reading a state after updates ---- *)
Lemma gv_setv l x z y : gv (setv l x z) y = if N.eqb y x then z else gv l y.
Proof.
  induction l as [|[k w] t IH]; cbn [setv gv].
  - destruct (N.eqb y x); reflexivity.
  - destruct (N.eqb x k) eqn:E; cbn [gv].
    + apply N.eqb_eq in E. subst k. destruct (N.eqb y x); reflexivity.
    + rewrite IH. destruct (N.eqb y k) eqn:E2; [|reflexivity].
      apply N.eqb_eq in E2. subst k. rewrite N.eqb_sym in E. rewrite E. reflexivity.
Qed.
Lemma ga_seta l x z y : ga (seta l x z) y = if N.eqb y x then z else ga l y.
Proof.
  induction l as [|[k w] t IH]; cbn [seta ga].
  - destruct (N.eqb y x); reflexivity.
  - destruct (N.eqb x k) eqn:E; cbn [ga].
    + apply N.eqb_eq in E. subst k. destruct (N.eqb y x); reflexivity.
    + rewrite IH. destruct (N.eqb y k) eqn:E2; [|reflexivity].
      apply N.eqb_eq in E2. subst k. rewrite N.eqb_sym in E. rewrite E. reflexivity.
Qed.
Lemma V_setV st x z y : V (setV st x z) y = if N.eqb y x then z else V st y.
Proof. apply gv_setv. Qed.
Lemma V_setA st a l y : V (setA st a l) y = V st y.
Proof. reflexivity. Qed.
Lemma A_setV st x z a : A (setV st x z) a = A st a.
Proof. reflexivity. Qed.
Lemma A_setA st a l b : A (setA st a l) b = if N.eqb b a then l else A st b.
Proof. apply ga_seta. Qed.
Lemma LEN_setV st x z a : LEN (setV st x z) a = LEN st a.
Proof. reflexivity. Qed.
Lemma LEN_setA st a l b : LEN (setA st a l) b = if N.eqb b a then Z.of_N (nlen l) else LEN st b.
Proof. unfold LEN. rewrite A_setA. destruct (N.eqb b a); reflexivity. Qed.

Lemma nset_map {X Y} (f : X -> Y) i v l : nset i (f v) (map f l) = map f (nset i v l).
Proof.
  revert i. induction l as [|x t IH]; intros i; cbn [nset map]; [reflexivity|].
  destruct (i =? 0)%N; cbn [map]; [reflexivity|]. rewrite IH. reflexivity.
Qed.
Lemma nnth_map {X Y} (f : X -> Y) i l : nnth i (map f l) = option_map f (nnth i l).
Proof.
  revert i. induction l as [|x t IH]; intros i; cbn [nnth map]; [reflexivity|].
  destruct (i =? 0)%N; [reflexivity|]. apply IH.
Qed.

(* ---- continuation-style rules for symbolic execution ---- *)
Lemma bs_set1 x e st z : e st = Some z -> bs (SSet x e) st (ONormal (setV st x z)).
Proof. intros H. pose proof (bs_set x e st) as B. unfold do_set in B. rewrite H in B. exact B. Qed.
Lemma bs_load1 x a i st k z : i st = Some k -> 0 <= k -> nnth (Z.to_N k) (A st a) = Some z ->
  bs (SLoad x a i) st (ONormal (setV st x z)).
Proof.
  intros H Hk Hn. pose proof (bs_load x a i st) as B. unfold do_load in B. rewrite H in B.
  destruct (Z.ltb_spec k 0); [lia|]. rewrite Hn in B. exact B.
Qed.
Lemma bs_store1 a i v st k z : i st = Some k -> v st = Some z -> 0 <= k -> (Z.to_N k < nlen (A st a))%N ->
  bs (SStore a i v) st (ONormal (setA st a (nset (Z.to_N k) z (A st a)))).
Proof.
  intros H Hv Hk Hn. pose proof (bs_store a i v st) as B. unfold do_store in B. rewrite H, Hv in B.
  destruct (Z.ltb_spec k 0); [lia|]. destruct (N.ltb_spec (Z.to_N k) (nlen (A st a))); [exact B|lia].
Qed.
Lemma bs_make1 a n st k : n st = Some k -> 0 <= k -> bs (SMake a n) st (ONormal (setA st a (nrep 0 (Z.to_N k)))).
Proof.
  intros H Hk. pose proof (bs_make a n st) as B. unfold do_make in B. rewrite H in B.
  destruct (Z.ltb_spec k 0); [lia|]. exact B.
Qed.
Lemma bs_ret1 rs st vs : eval_rs rs st = Some vs -> bs (SRet rs) st (ORet vs st).
Proof. intros H. pose proof (bs_ret rs st) as B. unfold do_ret in B. rewrite H in B. exact B. Qed.

Lemma bs_seq_set x e st z s2 o : e st = Some z -> bs s2 (setV st x z) o -> bs (SSeq (SSet x e) s2) st o.
Proof. intros H B. eapply bs_seq; [apply bs_set1; exact H | exact B]. Qed.
Lemma bs_seq_load x a i st k z s2 o : i st = Some k -> 0 <= k -> nnth (Z.to_N k) (A st a) = Some z ->
  bs s2 (setV st x z) o -> bs (SSeq (SLoad x a i) s2) st o.
Proof. intros H Hk Hn B. eapply bs_seq; [eapply bs_load1; eauto | exact B]. Qed.
Lemma bs_seq_store a i v st k z s2 o : i st = Some k -> v st = Some z -> 0 <= k -> (Z.to_N k < nlen (A st a))%N ->
  bs s2 (setA st a (nset (Z.to_N k) z (A st a))) o -> bs (SSeq (SStore a i v) s2) st o.
Proof. intros H Hv Hk Hn B. eapply bs_seq; [eapply bs_store1; eauto | exact B]. Qed.
Lemma bs_seq_make a n st k s2 o : n st = Some k -> 0 <= k ->
  bs s2 (setA st a (nrep 0 (Z.to_N k))) o -> bs (SSeq (SMake a n) s2) st o.
Proof. intros H Hk B. eapply bs_seq; [eapply bs_make1; eauto | exact B]. Qed.
(* (s1; s2); s3  =  s1; (s2; s3) *)
Lemma bs_seq_assoc s1 s2 s3 st o : bs (SSeq s1 (SSeq s2 s3)) st o -> bs (SSeq (SSeq s1 s2) s3) st o.
Proof.
  intros H. inversion H; subst.
  - match goal with H2 : bs (SSeq s2 s3) _ _ |- _ => inversion H2; subst end.
    + eapply bs_seq; [eapply bs_seq; eauto | eauto].
    + eapply bs_seq_stop; [eapply bs_seq; eauto | eauto].
  - eapply bs_seq_stop; [eapply bs_seq_stop; eauto | eauto].
Qed.
Lemma bs_seq_skip s st o : bs s st o -> bs (SSeq SSkip s) st o.
Proof. intros H. eapply bs_seq; [apply bs_skip | exact H]. Qed.
(* an if in front of a continuation *)
Lemma bs_seq_if_true c s1 s2 s3 st o : c st = Some true -> bs (SSeq s1 s3) st o -> bs (SSeq (SIf c s1 s2) s3) st o.
Proof.
  intros Hc H. inversion H; subst.
  - eapply bs_seq; [eapply bs_if_true; eauto | eauto].
  - eapply bs_seq_stop; [eapply bs_if_true; eauto | eauto].
Qed.
Lemma bs_seq_if_false c s1 s2 s3 st o : c st = Some false -> bs (SSeq s2 s3) st o -> bs (SSeq (SIf c s1 s2) s3) st o.
Proof.
  intros Hc H. inversion H; subst.
  - eapply bs_seq; [eapply bs_if_false; eauto | eauto].
  - eapply bs_seq_stop; [eapply bs_if_false; eauto | eauto].
Qed.
(* a statement that returns ends the sequence *)
Lemma bs_seq_ret rs st vs s2 : eval_rs rs st = Some vs -> bs (SSeq (SRet rs) s2) st (ORet vs st).
Proof. intros H. eapply bs_seq_stop; [apply bs_ret1; exact H | discriminate]. Qed.

(* one iteration in front of an existentially quantified rest of the loop *)
Lemma bs_for_step_ex c p b st st1 st2 (Q P : state -> Prop) :
  c st = Some true -> bs b st (ONormal st1) -> bs p st1 (ONormal st2) ->
  (exists st', bs (SFor c p b) st2 (ONormal st') /\ Q st') -> (forall st', Q st' -> P st') ->
  exists st', bs (SFor c p b) st (ONormal st') /\ P st'.
Proof.
  intros Hc Hb Hp (st' & Hl & HQ) HQP. exists st'. split; [|auto]. eapply bs_for_step; eauto.
Qed.

(* the same rules in front of an existentially quantified final state *)
Section Ex.
Variable P : outcome -> Prop.
Lemma bs_seq_set_ex x e st z s2 : e st = Some z -> (exists o, bs s2 (setV st x z) o /\ P o) -> exists o, bs (SSeq (SSet x e) s2) st o /\ P o.
Proof. intros H (o & B & HP). exists o. split; [eapply bs_seq_set; eauto|exact HP]. Qed.
Lemma bs_seq_assoc_ex s1 s2 s3 st : (exists o, bs (SSeq s1 (SSeq s2 s3)) st o /\ P o) -> exists o, bs (SSeq (SSeq s1 s2) s3) st o /\ P o.
Proof. intros (o & B & HP). exists o. split; [apply bs_seq_assoc; exact B|exact HP]. Qed.
Lemma bs_seq_if_true_ex c s1 s2 s3 st : c st = Some true -> (exists o, bs (SSeq s1 s3) st o /\ P o) -> exists o, bs (SSeq (SIf c s1 s2) s3) st o /\ P o.
Proof. intros H (o & B & HP). exists o. split; [eapply bs_seq_if_true; eauto|exact HP]. Qed.
Lemma bs_seq_if_false_ex c s1 s2 s3 st : c st = Some false -> (exists o, bs (SSeq s2 s3) st o /\ P o) -> exists o, bs (SSeq (SIf c s1 s2) s3) st o /\ P o.
Proof. intros H (o & B & HP). exists o. split; [eapply bs_seq_if_false; eauto|exact HP]. Qed.
Lemma bs_seq_skip_ex s st : (exists o, bs s st o /\ P o) -> exists o, bs (SSeq SSkip s) st o /\ P o.
Proof. intros (o & B & HP). exists o. split; [apply bs_seq_skip; exact B|exact HP]. Qed.
Lemma bs_seq_loop_ex s1 s2 st st' : bs s1 st (ONormal st') -> (exists o, bs s2 st' o /\ P o) -> exists o, bs (SSeq s1 s2) st o /\ P o.
Proof. intros B1 (o & B & HP). exists o. split; [eapply bs_seq; eauto|exact HP]. Qed.
Lemma bs_seq_make_ex a n st k s2 : n st = Some k -> 0 <= k -> (exists o, bs s2 (setA st a (nrep 0 (Z.to_N k))) o /\ P o) ->
  exists o, bs (SSeq (SMake a n) s2) st o /\ P o.
Proof. intros H Hk (o & B & HP). exists o. split; [eapply bs_seq_make; eauto|exact HP]. Qed.
Lemma bs_seq_load_ex x a i st k z s2 : i st = Some k -> 0 <= k -> nnth (Z.to_N k) (A st a) = Some z ->
  (exists o, bs s2 (setV st x z) o /\ P o) -> exists o, bs (SSeq (SLoad x a i) s2) st o /\ P o.
Proof. intros H Hk Hn (o & B & HP). exists o. split; [eapply bs_seq_load; eauto|exact HP]. Qed.
Lemma bs_seq_store_ex a i v st k z s2 : i st = Some k -> v st = Some z -> 0 <= k -> (Z.to_N k < nlen (A st a))%N ->
  (exists o, bs s2 (setA st a (nset (Z.to_N k) z (A st a))) o /\ P o) -> exists o, bs (SSeq (SStore a i v) s2) st o /\ P o.
Proof. intros H Hv Hk Hn (o & B & HP). exists o. split; [eapply bs_seq_store; eauto|exact HP]. Qed.
End Ex.

(* the relational semantics is deterministic *)
Lemma bs_det s st o1 o2 : bs s st o1 -> bs s st o2 -> o1 = o2.
Proof.
  intros H1 H2. destruct (bs_exec _ _ _ H1) as [N1 [f1 E1]]. destruct (bs_exec _ _ _ H2) as [N2 [f2 E2]].
  eapply exec_det; [apply (E1 (Nat.max f1 f2)); lia | apply (E2 (Nat.max f1 f2)); lia | exact N1 | exact N2].
Qed.

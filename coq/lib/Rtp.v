(* RTP packets as the payload codecs see them, and their wire (line protocol) encoding. *)
From GVL Require Import NList Wire.
Open Scope N_scope.

Notation byte := N (only parsing).
Notation bytes := (list N) (only parsing).

Record packet := mkPkt {
  pseq : N;        (* 16-bit sequence number *)
  pts : N;         (* 32-bit timestamp as set by the encoder *)
  pmarker : bool;
  ppayload : bytes }.

Definition seq_next (s : N) : N := (s + 1) mod 65536.
Definition seq_add (s k : N) : N := (s + k) mod 65536.

(* wire: seq ts marker len bytes... *)
Definition put_pkt (p : packet) : list N :=
  pseq p :: pts p :: putb (pmarker p) :: putl (ppayload p).
Definition put_pkts (ps : list packet) : list N := nlen ps :: concat (map put_pkt ps).

Definition get_pkt (l : list N) : option (packet * list N) :=
  match l with
  | s :: t :: m :: r =>
      match getl r with
      | Some (pl, r') => Some (mkPkt s t (getb m) pl, r')
      | None => None
      end
  | _ => None
  end.

Fixpoint get_pkts_aux (fuel : list N) (k : N) (l : list N) : option (list packet * list N) :=
  if k =? 0 then Some ([], l) else
  match fuel with
  | [] => None
  | _ :: fuel' =>
    match get_pkt l with
    | None => None
    | Some (p, r) =>
      match get_pkts_aux fuel' (N.pred k) r with
      | None => None
      | Some (ps, r') => Some (p :: ps, r')
      end
    end
  end.
Definition get_pkts (l : list N) : option (list packet * list N) :=
  match l with
  | [] => None
  | k :: t => get_pkts_aux l k t
  end.

(* decoder results *)
Inductive dres (F : Type) := DFrame (f : F) | DMore | DErr | DPanic.
Arguments DFrame {F} f. Arguments DMore {F}. Arguments DErr {F}. Arguments DPanic {F}.

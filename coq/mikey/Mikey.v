(* Executable, proof-free model of pkg/mikey (RFC 3830 MIKEY messages as used by the KeyMgmt header):
   message.go, header.go, payload.go, payload_kemac.go, payload_sp.go, payload_t.go, payload_rand.go,
   sub_payload_key_data.go.

   Shared file: physically in coq/mikey, symlinked into coq/headers (compiled there as GV.headers.Mikey);
   siblings are imported with the prefix [GV] only.

   Conventions
   * A Go []byte is a [list N]; the theorems that matter do not even need the elements to be < 256.
   * Every Go index expression buf[i] is [idx buf i], every slice expression buf[i:j] / buf[i:] is
     [slice buf i j] / [slice_from buf i]: checked primitives of Res.v whose failure is the outcome [Panic].
     The model performs them in the order of the Go code, after exactly the length checks the Go code makes,
     so "Unmarshal never panics" (MikeyProofs.mikey_total) is a theorem about those checks.
   * Go `int` arithmetic on lengths is unbounded N arithmetic (all quantities are below 2^17 + len(buf)).
     `len(buf)-n > 1` is written [n + 1 <? nlen buf] (no truncated subtraction).
   * uint16(b0)<<8 | uint16(b1) etc. are written arithmetically (be16/be32/be64); for bytes the two agree.
   * Loops: the fuel is the buffer itself (each iteration consumes at least one byte of it).  Running out of
     fuel is reported as [Panic] so that the totality theorem also proves that the fuel always suffices.
   * Constants (payload type numbers, accepted algorithm codes) come from GVG.Consts (generated from the Go
     source by tools/genconsts, spec.d/mikey.txt); comparisons against literals in the Go code are literals here. *)
From GVL Require Import NList Wire.
From GVG Require Import Consts.
From GV Require Import Res.
Open Scope N_scope.

(* ---------- values ---------- *)
Record srtp_id := mkSrtpId { policy_no : N; ssrc : N; roc : N }.

Record header := mkHeader {
  version : N;
  data_type : N;
  v_flag : bool;
  prf_func : N;
  csb_id : N;
  map_type : N;
  map_info : list srtp_id }.

Record key_data := mkKeyData { kd_type : N; kd_kv : N; kd_key : list N; kd_spi : list N }.

Inductive payload :=
| PKemac (encr_alg : N) (subs : list key_data) (mac_alg : N)
| PT (ts_type ts_value : N)
| PSP (sp_policy_no sp_prot : N) (params : list (N * list N))
| PRand (data : list N).

Record message := mkMessage { msg_header : header; msg_payloads : list payload }.

(* ---------- big-endian helpers ---------- *)
Definition byte (x : N) : N := x mod 256.                      (* Go byte(x) / uint8(x) *)
Definition be16 (a b : N) : N := a * 256 + b.
Definition be32 (a b c d : N) : N := a * 16777216 + b * 65536 + c * 256 + d.
Definition be64 (a b c d e f g h : N) : N :=
  a * 72057594037927936 + b * 281474976710656 + c * 1099511627776 + d * 4294967296
  + e * 16777216 + f * 65536 + g * 256 + h.
Definition put_be16 (x : N) : list N := [byte (x / 256); byte x].
Definition put_be32 (x : N) : list N := [byte (x / 16777216); byte (x / 65536); byte (x / 256); byte x].
Definition put_be64 (x : N) : list N :=
  [byte (x / 72057594037927936); byte (x / 281474976710656); byte (x / 1099511627776); byte (x / 4294967296);
   byte (x / 16777216); byte (x / 65536); byte (x / 256); byte x].

(* uint32(buf[n])<<24 | uint32(buf[n+1])<<16 | uint32(buf[n+2])<<8 | uint32(buf[n+3]) *)
Definition get_be32 (buf : list N) (n : N) : res N :=
  let* a := idx buf n in
  let* b := idx buf (n + 1) in
  let* c := idx buf (n + 2) in
  let* d := idx buf (n + 3) in
  Ok (be32 a b c d).

(* ================= Unmarshal ================= *)

(* header.go: the loop `for i := range numCS` of Header.unmarshal *)
Fixpoint um_map (fuel buf : list N) (k n : N) : res (list srtp_id * N) :=
  if k =? 0 then Ok ([], n) else
  match fuel with
  | [] => Panic
  | _ :: fuel' =>
      let* p := idx buf n in
      let* s := get_be32 buf (n + 1) in
      let* r := get_be32 buf (n + 5) in
      let* (rest, n') := um_map fuel' buf (N.pred k) (n + 9) in
      Ok (mkSrtpId p s r :: rest, n')
  end.

(* Header.unmarshal: returns (header, n, nextPayload) *)
Definition um_header (buf : list N) : res (header * N * N) :=
  if nlen buf <? 10 then Err else
  let* ver := idx buf 0 in
  if negb (ver =? 1) then Err else
  let* dt := idx buf 1 in
  if negb (dt =? mikey_dt_initiator_psk) then Err else
  let* np := idx buf 2 in
  let* b3 := idx buf 3 in
  let v := negb (N.shiftr b3 7 =? 0) in
  let prf := N.land b3 127 in
  if v then Err else
  if negb (prf =? 0) then Err else
  let* csb := get_be32 buf 4 in
  let* ncs := idx buf 8 in
  let* mt := idx buf 9 in
  if negb (mt =? mikey_map_srtp_id) then Err else
  let* tl := slice_from buf 10 in
  if nlen tl <? ncs * 9 then Err else
  let* (mi, n) := um_map buf buf ncs 10 in
  Ok (mkHeader ver dt v prf csb mt mi, n, np).

(* sub_payload_key_data.go: SubPayloadKeyData.unmarshal; returns (value, bytes consumed) *)
Definition um_key_data (buf : list N) : res (key_data * N) :=
  if nlen buf <? 4 then Err else
  let* b1 := idx buf 1 in
  let t := N.shiftr b1 4 in
  let kv := N.land b1 15 in
  if negb (t =? mikey_kd_tek) then Err else
  if negb (kv =? mikey_kv_null) && negb (kv =? mikey_kv_spi) then Err else
  let* l0 := idx buf 2 in
  let* l1 := idx buf 3 in
  let kdl := be16 l0 l1 in
  let* tl := slice_from buf 4 in
  if nlen tl <? kdl then Err else
  let* key := slice buf 4 (4 + kdl) in
  let n := 4 + kdl in
  if kv =? mikey_kv_spi then
    let* tl2 := slice_from buf n in
    if nlen tl2 <? 1 then Err else
    let* sl := idx buf n in
    let* tl3 := slice_from buf (n + 1) in
    if nlen tl3 <? sl then Err else
    let* spi := slice buf (n + 1) (n + 1 + sl) in
    Ok (mkKeyData t kv key spi, n + 1 + sl)
  else Ok (mkKeyData t kv key [], n).

(* payload_kemac.go: the `for { ... }` loop over encrData.  At least one iteration is always executed. *)
Fixpoint um_subs (fuel ed : list N) (sn : N) : res (list key_data * N) :=
  match fuel with
  | [] => Panic
  | _ :: fuel' =>
      let* sub := slice_from ed sn in
      let* (kd, l) := um_key_data sub in
      let* npt := idx ed sn in
      if npt =? 0 then Ok ([kd], sn + l) else
      if negb (npt =? mikey_pt_keydata) then Err else
      let* (rest, sn') := um_subs fuel' ed (sn + l) in
      Ok (kd :: rest, sn')
  end.

Definition um_kemac (buf : list N) : res (payload * N) :=
  if nlen buf <? 4 then Err else
  let* ea := idx buf 1 in
  if negb (ea =? mikey_encr_null) then Err else
  let* l0 := idx buf 2 in
  let* l1 := idx buf 3 in
  let edl := be16 l0 l1 in
  let* tl := slice_from buf 4 in
  if nlen tl <? edl + 1 then Err else
  let* ed := slice buf 4 (4 + edl) in
  let* (subs, sn) := um_subs (0 :: ed) ed 0 in
  if negb (sn =? nlen ed) then Err else
  let* ma := idx buf (4 + edl) in
  if negb (ma =? mikey_mac_null) then Err else
  Ok (PKemac ea subs ma, 4 + edl + 1).

(* payload_t.go *)
Definition um_t (buf : list N) : res (payload * N) :=
  if nlen buf <? 10 then Err else
  let* ty := idx buf 1 in
  if negb (ty =? 0) then Err else
  let* a := idx buf 2 in
  let* b := idx buf 3 in
  let* c := idx buf 4 in
  let* d := idx buf 5 in
  let* e := idx buf 6 in
  let* f := idx buf 7 in
  let* g := idx buf 8 in
  let* h := idx buf 9 in
  Ok (PT ty (be64 a b c d e f g h), 10).

(* payload_sp.go: the `for { ... }` loop over the policy params *)
Fixpoint um_sp_params (fuel buf : list N) (n end_ : N) : res (list (N * list N) * N) :=
  if end_ <? n then Err else
  if n =? end_ then Ok ([], n) else
  match fuel with
  | [] => Panic
  | _ :: fuel' =>
      let* tl := slice_from buf n in
      if nlen tl <? 2 then Err else
      let* typ := idx buf n in
      let* vl := idx buf (n + 1) in
      let* tl2 := slice_from buf (n + 2) in
      if nlen tl2 <? vl then Err else
      let* v := slice buf (n + 2) (n + 2 + vl) in
      let* (rest, n') := um_sp_params fuel' buf (n + 2 + vl) end_ in
      Ok ((typ, v) :: rest, n')
  end.

Definition um_sp (buf : list N) : res (payload * N) :=
  if nlen buf <? 5 then Err else
  let* pn := idx buf 1 in
  let* pt := idx buf 2 in
  if negb (pt =? 0) then Err else
  let* l0 := idx buf 3 in
  let* l1 := idx buf 4 in
  let end_ := 5 + be16 l0 l1 in
  let* (ps, n) := um_sp_params buf buf 5 end_ in
  Ok (PSP pn pt ps, n).

(* payload_rand.go *)
Definition um_rand (buf : list N) : res (payload * N) :=
  if nlen buf <? 2 then Err else
  let* dl := idx buf 1 in
  if dl <? 16 then Err else
  let* tl := slice_from buf 2 in
  if nlen tl <? dl then Err else
  let* d := slice buf 2 (2 + dl) in
  Ok (PRand d, 2 + dl).

(* message.go: the switch on nextPayloadType (default: error) followed by payload.unmarshal(buf[n:]) *)
Definition known_type (t : N) : bool :=
  (t =? mikey_pt_kemac) || (t =? mikey_pt_t) || (t =? mikey_pt_sp) || (t =? mikey_pt_rand).

Definition um_payload (t : N) (sub : list N) : res (payload * N) :=
  if t =? mikey_pt_kemac then um_kemac sub else
  if t =? mikey_pt_t then um_t sub else
  if t =? mikey_pt_sp then um_sp sub else
  if t =? mikey_pt_rand then um_rand sub else Err.

(* message.go: `for nextPayloadType != 0 { ... }` *)
Fixpoint um_payloads (fuel buf : list N) (n npt : N) : res (list payload * N) :=
  if npt =? 0 then Ok ([], n) else
  match fuel with
  | [] => Panic
  | _ :: fuel' =>
      if negb (known_type npt) then Err else
      let* sub := slice_from buf n in
      let* (p, plen) := um_payload npt sub in
      let* npt' := idx buf n in
      let* (rest, n') := um_payloads fuel' buf (n + plen) npt' in
      Ok (p :: rest, n')
  end.

(* Message.Unmarshal *)
Definition mikey_unmarshal (buf : list N) : res message :=
  let* (hn, np) := um_header buf in
  let (h, n) := hn in
  let* (ps, n') := um_payloads buf buf n np in
  if n' + 1 <? nlen buf then
    let* b := idx buf n' in
    if negb (b =? 0) then Err else Ok (mkMessage h ps)
  else Ok (mkMessage h ps).

(* ================= Marshal ================= *)
(* Marshal fills a buffer of marshalSize() bytes front to back; every byte is written exactly once, so the
   result is the concatenation below.  (Marshal never returns an error.) *)

Definition m_srtp_id (e : srtp_id) : list N :=
  byte (policy_no e) :: put_be32 (ssrc e) ++ put_be32 (roc e).

Definition m_header (np : N) (h : header) : list N :=
  [byte (version h); byte (data_type h); byte np;
   N.lor (if v_flag h then 128 else 0) (byte (prf_func h))]
  ++ put_be32 (csb_id h)
  ++ [byte (nlen (map_info h)); byte (map_type h)]
  ++ concat (map m_srtp_id (map_info h)).

(* SubPayloadKeyData.marshalSize *)
Definition kd_size (kd : key_data) : N :=
  4 + nlen (kd_key kd) + (if kd_kv kd =? mikey_kv_spi then 1 + nlen (kd_spi kd) else 0).

Definition m_key_data (nt : N) (kd : key_data) : list N :=
  [byte nt; N.lor ((byte (kd_type kd) * 16) mod 256) (byte (kd_kv kd))]
  ++ put_be16 (nlen (kd_key kd))
  ++ kd_key kd
  ++ (if kd_kv kd =? mikey_kv_spi then byte (nlen (kd_spi kd)) :: kd_spi kd else []).

Fixpoint m_subs (subs : list key_data) : list N :=
  match subs with
  | [] => []
  | kd :: t => m_key_data (match t with [] => 0 | _ => mikey_pt_keydata end) kd ++ m_subs t
  end.

Fixpoint encr_len (subs : list key_data) : N :=
  match subs with [] => 0 | kd :: t => kd_size kd + encr_len t end.

Definition m_param (p : N * list N) : list N := byte (fst p) :: byte (nlen (snd p)) :: snd p.

Fixpoint params_len (ps : list (N * list N)) : N :=
  match ps with [] => 0 | p :: t => 2 + nlen (snd p) + params_len t end.

Definition payload_type (p : payload) : N :=
  match p with
  | PKemac _ _ _ => mikey_pt_kemac
  | PT _ _ => mikey_pt_t
  | PSP _ _ _ => mikey_pt_sp
  | PRand _ => mikey_pt_rand
  end.

Definition m_payload (nt : N) (p : payload) : list N :=
  match p with
  | PKemac e subs m =>
      [byte nt; byte e] ++ put_be16 (encr_len subs) ++ m_subs subs ++ [byte m]
  | PT ty v => [byte nt; byte ty] ++ put_be64 v
  | PSP pn pr ps =>
      [byte nt; byte pn; byte pr] ++ put_be16 (params_len ps) ++ concat (map m_param ps)
  | PRand d => [byte nt; byte (nlen d)] ++ d
  end.

Definition first_type (ps : list payload) : N :=
  match ps with [] => 0 | p :: _ => payload_type p end.

Fixpoint m_payloads (ps : list payload) : list N :=
  match ps with
  | [] => []
  | p :: t => m_payload (first_type t) p ++ m_payloads t
  end.

Definition mikey_marshal (m : message) : list N :=
  m_header (first_type (msg_payloads m)) (msg_header m) ++ m_payloads (msg_payloads m).

(* ================= well-formedness: exactly the values that survive Marshal ; Unmarshal ================= *)
Definition is_nil {A} (l : list A) : bool := match l with [] => true | _ => false end.

Definition wf_srtp_id (e : srtp_id) : bool :=
  (policy_no e <? 256) && (ssrc e <? 4294967296) && (roc e <? 4294967296).

Definition wf_header (h : header) : bool :=
  (version h =? 1) && (data_type h =? mikey_dt_initiator_psk) && negb (v_flag h) && (prf_func h =? 0)
  && (csb_id h <? 4294967296) && (map_type h =? mikey_map_srtp_id)
  && (nlen (map_info h) <=? 255) && forallb wf_srtp_id (map_info h).

Definition wf_key_data (kd : key_data) : bool :=
  (kd_type kd =? mikey_kd_tek)
  && (((kd_kv kd =? mikey_kv_null) && is_nil (kd_spi kd))
      || ((kd_kv kd =? mikey_kv_spi) && (nlen (kd_spi kd) <=? 255)))
  && (nlen (kd_key kd) <=? 65535)
  && bytes_okb (kd_key kd) && bytes_okb (kd_spi kd).

Definition wf_param (p : N * list N) : bool :=
  (fst p <? 256) && (nlen (snd p) <=? 255) && bytes_okb (snd p).

Definition wf_payload (p : payload) : bool :=
  match p with
  | PKemac e subs m =>
      (e =? mikey_encr_null) && (m =? mikey_mac_null) && negb (is_nil subs)
      && forallb wf_key_data subs && (encr_len subs <=? 65535)
  | PT ty v => (ty =? 0) && (v <? 18446744073709551616)
  | PSP pn pr ps =>
      (pn <? 256) && (pr =? 0) && forallb wf_param ps && (params_len ps <=? 65535)
  | PRand d => (16 <=? nlen d) && (nlen d <=? 255) && bytes_okb d
  end.

Definition wf_message (m : message) : bool :=
  wf_header (msg_header m) && forallb wf_payload (msg_payloads m).

(* ================= wire encoding of values for the line protocol ================= *)
(* header : version data_type V prf csb_id map_type  k (policy ssrc roc)^k
   message: header  k payload^k
   payload: 1 encr k (type kv |key| key |spi| spi)^k mac  |  2 ts_type ts_value
          | 3 policy_no prot k (type |v| v)^k             |  4 |data| data *)
Definition enc_srtp_id (e : srtp_id) : list N := [policy_no e; ssrc e; roc e].
Definition enc_header (h : header) : list N :=
  [version h; data_type h; putb (v_flag h); prf_func h; csb_id h; map_type h; nlen (map_info h)]
  ++ concat (map enc_srtp_id (map_info h)).
Definition enc_key_data (kd : key_data) : list N :=
  [kd_type kd; kd_kv kd] ++ putl (kd_key kd) ++ putl (kd_spi kd).
Definition enc_param (p : N * list N) : list N := fst p :: putl (snd p).
Definition enc_payload (p : payload) : list N :=
  match p with
  | PKemac e subs m => [1; e; nlen subs] ++ concat (map enc_key_data subs) ++ [m]
  | PT ty v => [2; ty; v]
  | PSP pn pr ps => [3; pn; pr; nlen ps] ++ concat (map enc_param ps)
  | PRand d => 4 :: putl d
  end.
Definition enc_message (m : message) : list N :=
  enc_header (msg_header m) ++ [nlen (msg_payloads m)] ++ concat (map enc_payload (msg_payloads m)).

(* k items, each decoded by [d]; every item consumes at least one token, so the input is enough fuel *)
Fixpoint dec_list {A} (d : list N -> option (A * list N)) (fuel : list N) (k : N) (l : list N)
  : option (list A * list N) :=
  if k =? 0 then Some ([], l) else
  match fuel with
  | [] => None
  | _ :: fuel' =>
      match d l with
      | None => None
      | Some (x, r) =>
          match dec_list d fuel' (N.pred k) r with
          | None => None
          | Some (xs, r') => Some (x :: xs, r')
          end
      end
  end.

Definition dec_srtp_id (l : list N) : option (srtp_id * list N) :=
  match l with p :: s :: r :: t => Some (mkSrtpId p s r, t) | _ => None end.

Definition dec_header (l : list N) : option (header * list N) :=
  match l with
  | ver :: dt :: v :: prf :: csb :: mt :: k :: t =>
      match dec_list dec_srtp_id t k t with
      | Some (mi, r) => Some (mkHeader ver dt (getb v) prf csb mt mi, r)
      | None => None
      end
  | _ => None
  end.

Definition dec_key_data (l : list N) : option (key_data * list N) :=
  match l with
  | ty :: kv :: t =>
      match getl t with
      | Some (key, r) =>
          match getl r with
          | Some (spi, r') => Some (mkKeyData ty kv key spi, r')
          | None => None
          end
      | None => None
      end
  | _ => None
  end.

Definition dec_param (l : list N) : option ((N * list N) * list N) :=
  match l with
  | ty :: t => match getl t with Some (v, r) => Some ((ty, v), r) | None => None end
  | _ => None
  end.

Definition dec_payload (l : list N) : option (payload * list N) :=
  match l with
  | tag :: t =>
      if tag =? 1 then
        match t with
        | e :: k :: t' =>
            match dec_list dec_key_data t' k t' with
            | Some (subs, m :: r) => Some (PKemac e subs m, r)
            | _ => None
            end
        | _ => None
        end
      else if tag =? 2 then
        match t with ty :: v :: r => Some (PT ty v, r) | _ => None end
      else if tag =? 3 then
        match t with
        | pn :: pr :: k :: t' =>
            match dec_list dec_param t' k t' with
            | Some (ps, r) => Some (PSP pn pr ps, r)
            | None => None
            end
        | _ => None
        end
      else if tag =? 4 then
        match getl t with Some (d, r) => Some (PRand d, r) | None => None end
      else None
  | [] => None
  end.

Definition dec_message (l : list N) : option (message * list N) :=
  match dec_header l with
  | Some (h, k :: t) =>
      match dec_list dec_payload t k t with
      | Some (ps, r) => Some (mkMessage h ps, r)
      | None => None
      end
  | _ => None
  end.

(* Outcome monad shared by the headers / mikey / auth models (physically in coq/mikey, symlinked into
   coq/headers and coq/auth; each domain compiles its own copy under its own logical prefix GV.<d>,
   shared files import each other with [From GV Require Import ...]).
   [Panic] is the distinguished outcome of a failed checked primitive (Go index / slice expression out of
   range, nil dereference).  [Err] is "the Go function returned a non-nil error" (texts are not modelled). *)
From GVL Require Import NList.
Open Scope N_scope.

Inductive res (A : Type) : Type := Ok (a : A) | Err | Panic.
Arguments Ok {A} a.
Arguments Err {A}.
Arguments Panic {A}.

Definition bind {A B} (r : res A) (f : A -> res B) : res B :=
  match r with Ok a => f a | Err => Err | Panic => Panic end.

Notation "'let*' x ':=' r 'in' k" := (bind r (fun x => k))
  (at level 200, x pattern, r at level 100, k at level 200, right associativity).

Definition of_option {A} (o : option A) : res A := match o with Some a => Ok a | None => Err end.

(* checked Go primitives on byte strings *)
Definition idx (l : list N) (i : N) : res N :=
  match nnth i l with Some x => Ok x | None => Panic end.
Definition slice (l : list N) (i j : N) : res (list N) :=
  match nsub l i j with Some x => Ok x | None => Panic end.
Definition slice_from (l : list N) (i : N) : res (list N) := slice l i (nlen l).

Definition is_ok {A} (r : res A) : bool := match r with Ok _ => true | _ => false end.
Definition is_panic {A} (r : res A) : bool := match r with Panic => true | _ => false end.

Definition bytes_ok (l : list N) : Prop := Forall (fun b => b < 256) l.
Definition bytes_okb (l : list N) : bool := forallb (fun b => b <? 256) l.

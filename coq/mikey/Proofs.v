(* The proofs of the mikey domain live in MikeyProofs.v (shared with coq/headers through a symlink);
   this file only re-exports them under the conventional name. *)
From GV Require Export Res Mikey MikeyProofs.

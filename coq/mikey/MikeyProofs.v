From GVL Require Import NList Wire.
From GV Require Import Res Mikey.

(* Proofs about the MIKEY model (Mikey.v): totality of Unmarshal (no checked index / slice primitive ever
   fails, the loops never run out of fuel), Marshal;Unmarshal round trip on well-formed values, marshalled
   bytes are bytes.  Shared file (symlinked into coq/headers): siblings imported through the prefix GV only. *)
From GVL Require Import NList Wire.
From GVG Require Import Consts.
From GV Require Import Res Mikey.
From Coq Require Import ZifyBool ZifyNat ZifyN.
Open Scope N_scope.

Ltac Zify.zify_post_hook ::= Z.div_mod_to_equations.

Ltac unfold_consts :=
  unfold mikey_pt_kemac, mikey_pt_t, mikey_pt_sp, mikey_pt_rand, mikey_pt_keydata, mikey_dt_initiator_psk,
    mikey_map_srtp_id, mikey_encr_null, mikey_mac_null, mikey_kd_tek, mikey_kv_null, mikey_kv_spi in *.

(* ================= checked primitives ================= *)

Lemma idx_ok l i : i < nlen l -> exists x, idx l i = Ok x.
Proof. intros H. unfold idx. destruct (nnth_lt l i H) as [x ->]. eauto. Qed.

Lemma slice_ok l i j : i <= j -> j <= nlen l -> slice l i j = Ok (ntake (j - i) (ndrop i l)).
Proof.
  intros H1 H2. unfold slice, nsub.
  destruct (N.leb_spec i j); [|lia]. destruct (N.leb_spec j (nlen l)); [|lia]. reflexivity.
Qed.

Lemma slice_from_ok l i : i <= nlen l -> slice_from l i = Ok (ndrop i l).
Proof.
  intros H. unfold slice_from. rewrite slice_ok by lia. f_equal.
  apply ntake_all. rewrite nlen_ndrop. lia.
Qed.

Lemma nlen_slice_ok (l : list N) i j : i <= j -> j <= nlen l -> nlen (ntake (j - i) (ndrop i l)) = j - i.
Proof. intros. rewrite nlen_ntake, nlen_ndrop. lia. Qed.

(* ================= totality ================= *)

(* [good P r]: r is not Panic, and if it is a value the value satisfies P *)
Definition good {A} (P : A -> Prop) (r : res A) : Prop :=
  match r with Ok a => P a | Err => True | Panic => False end.

Lemma good_bind {A B} (P : B -> Prop) (r : res A) (k : A -> res B) :
  good (fun a => good P (k a)) r -> good P (bind r k).
Proof. destruct r; cbn [good bind]; auto. Qed.

Lemma good_mono {A} (P Q : A -> Prop) (r : res A) : (forall a, P a -> Q a) -> good P r -> good Q r.
Proof. destruct r; cbn [good]; auto. Qed.

Lemma good_not_panic {A} (P : A -> Prop) (r : res A) : good P r -> r <> Panic.
Proof. destruct r; cbn [good]; intros H; [discriminate|discriminate|contradiction]. Qed.

Lemma good_idx (P : N -> Prop) l i : i < nlen l -> (forall x, P x) -> good P (idx l i).
Proof. intros H HP. destruct (idx_ok l i H) as [x ->]. apply HP. Qed.

(* one step of a totality proof: resolve the primitive at the head of the term *)
Ltac tstep :=
  lazymatch goal with
  | |- good _ (bind (idx ?l ?i) _) =>
      let x := fresh "x" in let Hx := fresh "Hx" in
      destruct (idx_ok l i) as [x Hx]; [try lia | rewrite Hx; cbn [bind]; clear Hx]
  | |- good _ (bind (slice_from ?l ?i) _) =>
      rewrite (slice_from_ok l i) by lia; cbn [bind]
  | |- good _ (bind (slice ?l ?i ?j) _) =>
      rewrite (slice_ok l i j) by lia; cbn [bind]
  | |- good _ (if ?a <? ?b then Err else _) =>
      let H := fresh "Hc" in destruct (N.ltb_spec a b) as [H|H]; [exact I|]
  | |- good _ (if negb (?a =? ?b) then Err else _) =>
      let H := fresh "Hc" in destruct (N.eqb_spec a b) as [H|H]; cbn [negb]; [|exact I]
  | |- good _ (if ?c then Err else _) =>
      let H := fresh "Hc" in destruct c eqn:H; [exact I|]
  end.

Lemma get_be32_good (P : N -> Prop) buf n : n + 3 < nlen buf -> (forall x, P x) -> good P (get_be32 buf n).
Proof. intros H HP. unfold get_be32. do 4 tstep. apply HP. Qed.

Lemma um_map_good : forall fuel buf k n,
  n + 9 * k <= nlen buf -> k <= nlen fuel ->
  good (fun r => snd r = n + 9 * k) (um_map fuel buf k n).
Proof.
  induction fuel as [|f fuel IH]; intros buf k n Hb Hf; cbn [um_map nlen] in *.
  - destruct (N.eqb_spec k 0); [cbn [good snd]; lia | lia].
  - destruct (N.eqb_spec k 0) as [->|Hk]; [cbn [good snd]; lia|].
    tstep.
    apply good_bind, get_be32_good; [lia|]; intros s.
    apply good_bind, get_be32_good; [lia|]; intros r.
    apply good_bind. eapply good_mono; [|apply (IH buf (N.pred k) (n + 9)); lia].
    intros [rest n'] Hn; cbn [snd good] in *. lia.
Qed.

Lemma um_header_good buf :
  good (fun r => 10 <= snd (fst r) <= nlen buf) (um_header buf).
Proof.
  unfold um_header. tstep. do 2 tstep. do 2 tstep. do 2 tstep.
  set (v := negb _). destruct v; [exact I|]. tstep.
  apply good_bind, get_be32_good; [lia|]; intros csb.
  do 2 tstep. tstep. tstep. rewrite nlen_ndrop in *. tstep.
  apply good_bind. eapply good_mono; [|apply um_map_good; lia].
  intros [mi n] Hn; cbn [snd fst good] in *. lia.
Qed.

Lemma um_key_data_good buf :
  good (fun r => 1 <= snd r <= nlen buf) (um_key_data buf).
Proof.
  unfold um_key_data. tstep. tstep.
  set (t := N.shiftr _ _). set (kv := N.land _ _).
  tstep. tstep. do 2 tstep. tstep. rewrite nlen_ndrop in *. tstep. tstep.
  destruct (kv =? mikey_kv_spi).
  - tstep. rewrite nlen_ndrop in *. tstep. tstep. tstep. rewrite nlen_ndrop in *. tstep. tstep.
    cbn [good snd]. lia.
  - cbn [good snd]. lia.
Qed.

Lemma um_subs_good : forall fuel ed sn,
  sn <= nlen ed -> nlen ed < sn + nlen fuel ->
  good (fun r => snd r <= nlen ed) (um_subs fuel ed sn).
Proof.
  induction fuel as [|f fuel IH]; intros ed sn Hs Hf; cbn [um_subs nlen] in *; [lia|].
  tstep. apply good_bind.
  eapply good_mono; [|apply um_key_data_good].
  intros [kd l] Hl; cbn [snd] in Hl. rewrite nlen_ndrop in Hl.
  tstep. destruct (x =? 0); [cbn [good snd]; lia|]. tstep.
  apply good_bind. eapply good_mono; [|apply (IH ed (sn + l)); lia].
  intros [rest sn'] Hn; cbn [snd good] in *. lia.
Qed.

Lemma um_kemac_good buf : good (fun r => 1 <= snd r <= nlen buf) (um_kemac buf).
Proof.
  unfold um_kemac. tstep. do 2 tstep. do 2 tstep. tstep. rewrite nlen_ndrop in *. tstep. tstep.
  set (ed := ntake _ _).
  assert (Hed : nlen ed = be16 x0 x1) by (unfold ed; rewrite nlen_ntake, nlen_ndrop; lia).
  apply good_bind. eapply good_mono; [|apply um_subs_good; cbn [nlen]; lia].
  intros [subs sn] Hn; cbn [snd] in Hn.
  tstep. tstep. tstep. cbn [good snd]. lia.
Qed.

Lemma um_t_good buf : good (fun r => 1 <= snd r <= nlen buf) (um_t buf).
Proof. unfold um_t. tstep. do 2 tstep. do 8 tstep. cbn [good snd]. lia. Qed.

Lemma um_sp_params_good : forall fuel buf n end_,
  n <= nlen buf -> nlen buf < n + nlen fuel ->
  good (fun r => n <= snd r <= nlen buf) (um_sp_params fuel buf n end_).
Proof.
  induction fuel as [|f fuel IH]; intros buf n end_ Hn Hf; cbn [um_sp_params nlen] in *; [lia|].
  tstep. destruct (n =? end_); [cbn [good snd]; lia|].
  tstep. rewrite nlen_ndrop in *. tstep. do 2 tstep. tstep. rewrite nlen_ndrop in *. tstep. tstep.
  apply good_bind. eapply good_mono; [|apply (IH buf (n + 2 + x0) end_); lia].
  intros [rest n'] Hn'; cbn [snd good] in *. lia.
Qed.

Lemma um_sp_good buf : good (fun r => 1 <= snd r <= nlen buf) (um_sp buf).
Proof.
  unfold um_sp. tstep. do 2 tstep. tstep. do 2 tstep.
  apply good_bind. eapply good_mono; [|apply um_sp_params_good; lia].
  intros [ps n] Hn; cbn [snd good] in *. lia.
Qed.

Lemma um_rand_good buf : good (fun r => 1 <= snd r <= nlen buf) (um_rand buf).
Proof.
  unfold um_rand. tstep. tstep. tstep. tstep. rewrite nlen_ndrop in *. tstep. tstep.
  cbn [good snd]. lia.
Qed.

Lemma um_payload_good t buf : good (fun r => 1 <= snd r <= nlen buf) (um_payload t buf).
Proof.
  unfold um_payload.
  destruct (t =? mikey_pt_kemac); [apply um_kemac_good|].
  destruct (t =? mikey_pt_t); [apply um_t_good|].
  destruct (t =? mikey_pt_sp); [apply um_sp_good|].
  destruct (t =? mikey_pt_rand); [apply um_rand_good|exact I].
Qed.

Lemma um_payloads_good : forall fuel buf n npt,
  n <= nlen buf -> nlen buf < n + nlen fuel ->
  good (fun r => snd r <= nlen buf) (um_payloads fuel buf n npt).
Proof.
  induction fuel as [|f fuel IH]; intros buf n npt Hn Hf; cbn [um_payloads nlen] in *; [lia|].
  destruct (npt =? 0); [cbn [good snd]; lia|].
  tstep. tstep. apply good_bind.
  eapply good_mono; [|apply um_payload_good].
  intros [p l] Hl; cbn [snd] in Hl. rewrite nlen_ndrop in Hl.
  tstep. apply good_bind. eapply good_mono; [|apply (IH buf (n + l) x); lia].
  intros [rest n'] Hn'; cbn [snd good] in *. lia.
Qed.

Lemma mikey_unmarshal_good buf : good (fun _ => True) (mikey_unmarshal buf).
Proof.
  unfold mikey_unmarshal. apply good_bind.
  eapply good_mono; [|apply um_header_good].
  intros [[h n] np] Hn; cbn [snd fst] in Hn.
  apply good_bind. eapply good_mono; [|apply um_payloads_good; lia].
  intros [ps n'] Hn'; cbn [snd] in Hn'.
  destruct (N.ltb_spec (n' + 1) (nlen buf)); [|exact I].
  tstep. destruct (negb (x =? 0)); exact I.
Qed.

(* Message.Unmarshal never panics, whatever the input (even for lists whose elements are not bytes). *)
Theorem mikey_total : forall b, mikey_unmarshal b <> Panic.
Proof. intros b. exact (good_not_panic _ _ (mikey_unmarshal_good b)). Qed.

Theorem mikey_unmarshal_deterministic : forall b r1 r2,
  mikey_unmarshal b = r1 -> mikey_unmarshal b = r2 -> r1 = r2.
Proof. intros b r1 r2 <- <-. reflexivity. Qed.

Theorem mikey_marshal_deterministic : forall m b1 b2,
  mikey_marshal m = b1 -> mikey_marshal m = b2 -> b1 = b2.
Proof. intros m b1 b2 <- <-. reflexivity. Qed.

(* ================= round trip ================= *)

(* primitives at a position described by an explicit decomposition of the buffer *)
Lemma idx_at pre x post buf i : buf = pre ++ x :: post -> i = nlen pre -> idx buf i = Ok x.
Proof.
  intros -> ->. unfold idx.
  induction pre as [|y pre IH]; cbn [app nlen nnth]; [reflexivity|].
  destruct (N.eqb_spec (N.succ (nlen pre)) 0); [lia|]. now rewrite N.pred_succ.
Qed.

Lemma slice_at pre mid post buf i j :
  buf = pre ++ mid ++ post -> i = nlen pre -> j = i + nlen mid -> slice buf i j = Ok mid.
Proof.
  intros -> -> ->. rewrite slice_ok; [|lia|rewrite !nlen_app; lia].
  rewrite ndrop_app_exact. replace (nlen pre + nlen mid - nlen pre) with (nlen mid) by lia.
  now rewrite ntake_app_exact.
Qed.

Lemma slice_from_at pre post buf i : buf = pre ++ post -> i = nlen pre -> slice_from buf i = Ok post.
Proof.
  intros -> ->. rewrite slice_from_ok by (rewrite nlen_app; lia). now rewrite ndrop_app_exact.
Qed.

Ltac list_eq := repeat first [rewrite <- app_assoc | progress cbn [app]]; reflexivity.
Ltac len_eq := repeat first [rewrite nlen_app | progress cbn [nlen app]]; lia.

Lemma byte_small x : x < 256 -> byte x = x.
Proof. intros H. unfold byte. now apply N.mod_small. Qed.
Lemma byte_lt x : byte x < 256.
Proof. unfold byte. apply N.mod_lt. lia. Qed.

Lemma be16_put x : x < 65536 -> be16 (byte (x / 256)) (byte x) = x.
Proof. intros H. unfold be16, byte. lia. Qed.
Lemma be32_put x : x < 4294967296 ->
  be32 (byte (x / 16777216)) (byte (x / 65536)) (byte (x / 256)) (byte x) = x.
Proof. intros H. unfold be32, byte. lia. Qed.
Lemma divmod256 y : exists q r, y / 256 = q /\ y mod 256 = r /\ y = 256 * q + r /\ r < 256.
Proof. exists (y / 256), (y mod 256). repeat split; lia. Qed.

Lemma be64_put x : x < 18446744073709551616 ->
  be64 (byte (x / 72057594037927936)) (byte (x / 281474976710656)) (byte (x / 1099511627776))
       (byte (x / 4294967296)) (byte (x / 16777216)) (byte (x / 65536)) (byte (x / 256)) (byte x) = x.
Proof.
  intros H. unfold be64, byte.
  replace (x / 65536) with (x / 256 / 256) by (rewrite N.div_div by lia; reflexivity).
  replace (x / 16777216) with (x / 256 / 256 / 256) by (rewrite !N.div_div by lia; reflexivity).
  replace (x / 4294967296) with (x / 256 / 256 / 256 / 256) by (rewrite !N.div_div by lia; reflexivity).
  replace (x / 1099511627776) with (x / 256 / 256 / 256 / 256 / 256) by (rewrite !N.div_div by lia; reflexivity).
  replace (x / 281474976710656) with (x / 256 / 256 / 256 / 256 / 256 / 256)
    by (rewrite !N.div_div by lia; reflexivity).
  replace (x / 72057594037927936) with (x / 256 / 256 / 256 / 256 / 256 / 256 / 256)
    by (rewrite !N.div_div by lia; reflexivity).
  destruct (divmod256 x) as (q1 & r0 & -> & -> & E0 & R0).
  destruct (divmod256 q1) as (q2 & r1 & -> & -> & E1 & R1).
  destruct (divmod256 q2) as (q3 & r2 & -> & -> & E2 & R2).
  destruct (divmod256 q3) as (q4 & r3 & -> & -> & E3 & R3).
  destruct (divmod256 q4) as (q5 & r4 & -> & -> & E4 & R4).
  destruct (divmod256 q5) as (q6 & r5 & -> & -> & E5 & R5).
  destruct (divmod256 q6) as (q7 & r6 & -> & -> & E6 & R6).
  rewrite (N.mod_small q7) by lia. lia.
Qed.

Lemma get_be32_at pre x post buf n :
  buf = pre ++ put_be32 x ++ post -> n = nlen pre -> x < 4294967296 -> get_be32 buf n = Ok x.
Proof.
  intros -> -> Hx. unfold get_be32, put_be32.
  rewrite (idx_at pre _ ([byte (x / 65536); byte (x / 256); byte x] ++ post)) by (list_eq || len_eq).
  cbn [bind].
  rewrite (idx_at (pre ++ [byte (x / 16777216)]) _ ([byte (x / 256); byte x] ++ post)) by (list_eq || len_eq).
  cbn [bind].
  rewrite (idx_at (pre ++ [byte (x / 16777216); byte (x / 65536)]) _ ([byte x] ++ post)) by (list_eq || len_eq).
  cbn [bind].
  rewrite (idx_at (pre ++ [byte (x / 16777216); byte (x / 65536); byte (x / 256)]) _ post) by (list_eq || len_eq).
  cbn [bind]. now rewrite be32_put.
Qed.

Ltac bool_hyps := repeat match goal with
  | H : _ && _ = true |- _ => apply andb_true_iff in H; destruct H
  | H : _ || _ = true |- _ => apply orb_true_iff in H; destruct H
  | H : (_ =? _) = true |- _ => apply N.eqb_eq in H
  | H : (_ <? _) = true |- _ => apply N.ltb_lt in H
  | H : (_ <=? _) = true |- _ => apply N.leb_le in H
  | H : negb _ = true |- _ => apply negb_true_iff in H
  end.

(* the length test at the head of the term is false *)
Ltac ltb_no :=
  match goal with
  | |- context [if ?a <? ?b then Err else _] =>
      let Hc := fresh "Hc" in
      destruct (N.ltb_spec a b) as [Hc|_]; [exfalso; revert Hc; len_eq|]
  end.
Ltac side := solve [list_eq | len_eq].

Lemma um_rand_rt d nt rest : wf_payload (PRand d) = true ->
  um_rand (m_payload nt (PRand d) ++ rest) = Ok (PRand d, nlen (m_payload nt (PRand d))).
Proof.
  cbn [wf_payload m_payload]. intros Hwf. bool_hyps.
  rewrite (byte_small (nlen d)) by lia.
  unfold um_rand. ltb_no.
  rewrite (idx_at [byte nt] (nlen d) (d ++ rest)) by side. cbn [bind].
  ltb_no.
  rewrite (slice_from_at [byte nt; nlen d] (d ++ rest)) by side. cbn [bind].
  ltb_no.
  rewrite (slice_at [byte nt; nlen d] d rest) by side. cbn [bind].
  f_equal. f_equal. len_eq.
Qed.

Lemma um_t_rt ty v nt rest : wf_payload (PT ty v) = true ->
  um_t (m_payload nt (PT ty v) ++ rest) = Ok (PT ty v, nlen (m_payload nt (PT ty v))).
Proof.
  cbn [wf_payload m_payload]. intros Hwf. bool_hyps. subst ty.
  unfold um_t, put_be64. ltb_no.
  cbn [app idx nnth N.eqb Pos.eqb N.pred Pos.pred_N Pos.pred_double bind negb].
  change (byte 0) with 0. cbn [N.eqb negb]. rewrite be64_put by assumption. reflexivity.
Qed.

Lemma nlen_m_params ps : nlen (concat (map m_param ps)) = params_len ps.
Proof.
  induction ps as [|p ps IH]; cbn [map concat params_len nlen]; [reflexivity|].
  rewrite nlen_app, IH. unfold m_param. cbn [nlen]. lia.
Qed.

Lemma um_sp_params_rt : forall ps fuel pre rest n end_,
  forallb wf_param ps = true ->
  n = nlen pre -> end_ = n + params_len ps -> params_len ps <= nlen fuel ->
  um_sp_params fuel (pre ++ concat (map m_param ps) ++ rest) n end_ = Ok (ps, end_).
Proof.
  induction ps as [|[ty v] ps IH]; intros fuel pre rest n end_ Hwf Hn He Hf;
    cbn [forallb params_len map concat snd fst] in *.
  - destruct fuel; cbn [um_sp_params];
      (destruct (N.ltb_spec end_ n); [lia|]); (destruct (N.eqb_spec n end_); [|lia]); f_equal; f_equal; lia.
  - apply andb_true_iff in Hwf. destruct Hwf as [Hp Hps].
    unfold wf_param in Hp. cbn [fst snd] in Hp. bool_hyps.
    destruct fuel as [|f fuel]; cbn [nlen] in Hf; [lia|]. cbn [um_sp_params].
    destruct (N.ltb_spec end_ n); [lia|]. destruct (N.eqb_spec n end_); [lia|].
    change (m_param (ty, v)) with (byte ty :: byte (nlen v) :: v).
    rewrite (byte_small ty), (byte_small (nlen v)) by lia.
    rewrite <- app_assoc.
    set (tl := concat (map m_param ps) ++ rest).
    rewrite (slice_from_at pre ((ty :: nlen v :: v) ++ tl)) by (unfold tl; side). cbn [bind].
    ltb_no.
    rewrite (idx_at pre ty ((nlen v :: v) ++ tl)) by (unfold tl; side). cbn [bind].
    rewrite (idx_at (pre ++ [ty]) (nlen v) (v ++ tl)) by (unfold tl; side). cbn [bind].
    rewrite (slice_from_at (pre ++ [ty; nlen v]) (v ++ tl)) by (unfold tl; side). cbn [bind].
    ltb_no.
    rewrite (slice_at (pre ++ [ty; nlen v]) v tl) by (unfold tl; side). cbn [bind].
    unfold tl.
    replace (pre ++ (ty :: nlen v :: v) ++ concat (map m_param ps) ++ rest)
      with ((pre ++ ty :: nlen v :: v) ++ concat (map m_param ps) ++ rest) by list_eq.
    rewrite (IH fuel (pre ++ ty :: nlen v :: v) rest (n + 2 + nlen v) end_); try assumption; try len_eq.
    reflexivity.
Qed.

Lemma um_sp_rt pn pr ps nt rest : wf_payload (PSP pn pr ps) = true ->
  um_sp (m_payload nt (PSP pn pr ps) ++ rest) = Ok (PSP pn pr ps, nlen (m_payload nt (PSP pn pr ps))).
Proof.
  cbn [wf_payload m_payload]. intros Hwf. bool_hyps. subst pr.
  rewrite (byte_small pn) by lia. change (byte 0) with 0.
  unfold um_sp, put_be16. ltb_no.
  cbn [app].
  erewrite (idx_at [byte nt] pn) by side. cbn [bind].
  erewrite (idx_at [byte nt; pn] 0) by side. cbn [bind N.eqb negb].
  erewrite (idx_at [byte nt; pn; 0] (byte (params_len ps / 256))) by side. cbn [bind].
  erewrite (idx_at [byte nt; pn; 0; byte (params_len ps / 256)] (byte (params_len ps))) by side. cbn [bind].
  rewrite be16_put by lia.
  set (pre := [byte nt; pn; 0; byte (params_len ps / 256); byte (params_len ps)]).
  change (byte nt :: pn :: 0 :: byte (params_len ps / 256) :: byte (params_len ps) :: concat (map m_param ps) ++ rest)
    with (pre ++ concat (map m_param ps) ++ rest).
  rewrite (um_sp_params_rt ps _ pre rest 5 (5 + params_len ps)); try assumption; try reflexivity.
  - cbn [bind]. f_equal. f_equal. cbn [nlen]. rewrite nlen_m_params. lia.
  - rewrite !nlen_app, nlen_m_params. unfold pre. cbn [nlen]. lia.
Qed.

Lemma nlen_m_key_data nt kd : nlen (m_key_data nt kd) = kd_size kd.
Proof.
  unfold m_key_data, kd_size, put_be16. rewrite !nlen_app. cbn [nlen].
  destruct (kd_kv kd =? mikey_kv_spi); cbn [nlen]; lia.
Qed.

Lemma nlen_m_subs subs : nlen (m_subs subs) = encr_len subs.
Proof.
  induction subs as [|kd t IH]; cbn [m_subs encr_len nlen]; [reflexivity|].
  now rewrite nlen_app, nlen_m_key_data, IH.
Qed.

Lemma um_key_data_rt kd nt rest : wf_key_data kd = true ->
  um_key_data (m_key_data nt kd ++ rest) = Ok (kd, kd_size kd).
Proof.
  destruct kd as [t kv key spi]. unfold wf_key_data, m_key_data, kd_size, um_key_data.
  cbn [kd_type kd_kv kd_key kd_spi]. unfold_consts. intros Hwf.
  apply andb_true_iff in Hwf. destruct Hwf as [Hwf Hb2].
  apply andb_true_iff in Hwf. destruct Hwf as [Hwf Hb1].
  apply andb_true_iff in Hwf. destruct Hwf as [Hwf Hkl].
  apply andb_true_iff in Hwf. destruct Hwf as [Ht Hkv].
  apply N.eqb_eq in Ht. apply N.leb_le in Hkl. subst t.
  unfold put_be16.
  apply orb_true_iff in Hkv. destruct Hkv as [Hkv|Hkv]; apply andb_true_iff in Hkv; destruct Hkv as [Hk Hs];
    apply N.eqb_eq in Hk; subst kv.
  - destruct spi; [|discriminate]. clear Hs.
    change (N.lor (byte 2 * 16 mod 256) (byte 0)) with 32. cbn [N.eqb Pos.eqb app].
    ltb_no.
    erewrite (idx_at [byte nt] 32) by side. cbn [bind].
    change (N.shiftr 32 4) with 2. change (N.land 32 15) with 0. cbn [N.eqb Pos.eqb negb andb].
    erewrite (idx_at [byte nt; 32] (byte (nlen key / 256))) by side. cbn [bind].
    erewrite (idx_at [byte nt; 32; byte (nlen key / 256)] (byte (nlen key))) by side. cbn [bind].
    rewrite be16_put by lia.
    rewrite (slice_from_at [byte nt; 32; byte (nlen key / 256); byte (nlen key)] (key ++ rest)) by side.
    cbn [bind]. ltb_no.
    rewrite (slice_at [byte nt; 32; byte (nlen key / 256); byte (nlen key)] key rest) by side.
    cbn [bind]. f_equal. f_equal. lia.
  - apply N.leb_le in Hs.
    change (N.lor (byte 2 * 16 mod 256) (byte 1)) with 33. cbn [N.eqb Pos.eqb app].
    rewrite (byte_small (nlen spi)) by lia.
    ltb_no.
    erewrite (idx_at [byte nt] 33) by side. cbn [bind].
    change (N.shiftr 33 4) with 2. change (N.land 33 15) with 1. cbn [N.eqb Pos.eqb negb andb].
    erewrite (idx_at [byte nt; 33] (byte (nlen key / 256))) by side. cbn [bind].
    erewrite (idx_at [byte nt; 33; byte (nlen key / 256)] (byte (nlen key))) by side. cbn [bind].
    rewrite be16_put by lia.
    set (pre := [byte nt; 33; byte (nlen key / 256); byte (nlen key)]).
    rewrite (slice_from_at pre (key ++ (nlen spi :: spi) ++ rest)) by (unfold pre; side).
    cbn [bind]. ltb_no.
    rewrite (slice_at pre key ((nlen spi :: spi) ++ rest)) by (unfold pre; side).
    cbn [bind].
    rewrite (slice_from_at (pre ++ key) ((nlen spi :: spi) ++ rest)) by (unfold pre; side).
    cbn [bind]. ltb_no.
    rewrite (idx_at (pre ++ key) (nlen spi) (spi ++ rest)) by (unfold pre; side).
    cbn [bind].
    rewrite (slice_from_at (pre ++ key ++ [nlen spi]) (spi ++ rest)) by (unfold pre; side).
    cbn [bind]. ltb_no.
    rewrite (slice_at (pre ++ key ++ [nlen spi]) spi rest) by (unfold pre; side).
    cbn [bind]. f_equal. f_equal. lia.
Qed.

Lemma kd_size_pos kd : 4 <= kd_size kd.
Proof. unfold kd_size. lia. Qed.

Lemma nlen_le_encr_len subs : nlen subs <= encr_len subs.
Proof.
  induction subs as [|kd t IH]; cbn [nlen encr_len]; [lia|]. pose proof (kd_size_pos kd). lia.
Qed.

Lemma m_key_data_head nt kd : exists tl, m_key_data nt kd = byte nt :: tl.
Proof. unfold m_key_data. cbn [app]. eauto. Qed.

Lemma um_subs_rt : forall subs fuel pre sn,
  subs <> [] -> forallb wf_key_data subs = true -> sn = nlen pre -> nlen subs <= nlen fuel ->
  um_subs fuel (pre ++ m_subs subs) sn = Ok (subs, sn + encr_len subs).
Proof.
  induction subs as [|kd t IH]; intros fuel pre sn Hne Hwf Hsn Hf; [congruence|].
  cbn [forallb] in Hwf. apply andb_true_iff in Hwf. destruct Hwf as [Hkd Ht].
  destruct fuel as [|f fuel]; cbn [nlen] in Hf; [lia|].
  cbn [um_subs m_subs encr_len].
  set (nt := match t with [] => 0 | _ :: _ => mikey_pt_keydata end).
  rewrite (slice_from_at pre (m_key_data nt kd ++ m_subs t)) by side. cbn [bind].
  rewrite um_key_data_rt by assumption. cbn [bind].
  destruct (m_key_data_head nt kd) as [tl Htl].
  rewrite (idx_at pre (byte nt) (tl ++ m_subs t)) by (rewrite ?Htl; side). cbn [bind].
  destruct t as [|kd2 t'].
  - subst nt. change (byte 0) with 0. cbn [N.eqb encr_len]. f_equal. f_equal. lia.
  - subst nt. unfold_consts. change (byte 20) with 20. cbn [N.eqb Pos.eqb negb].
    replace (pre ++ m_key_data 20 kd ++ m_subs (kd2 :: t'))
      with ((pre ++ m_key_data 20 kd) ++ m_subs (kd2 :: t')) by list_eq.
    rewrite (IH fuel (pre ++ m_key_data 20 kd) (sn + kd_size kd)); try assumption; try congruence.
    + cbn [bind]. f_equal. f_equal. lia.
    + rewrite nlen_app. change 20 with mikey_pt_keydata. rewrite nlen_m_key_data. lia.
    + lia.
Qed.

Lemma um_kemac_rt e subs m nt rest : wf_payload (PKemac e subs m) = true ->
  um_kemac (m_payload nt (PKemac e subs m) ++ rest)
  = Ok (PKemac e subs m, nlen (m_payload nt (PKemac e subs m))).
Proof.
  cbn [wf_payload m_payload]. intros Hwf.
  apply andb_true_iff in Hwf. destruct Hwf as [Hwf Hlen]. apply N.leb_le in Hlen.
  apply andb_true_iff in Hwf. destruct Hwf as [Hwf Hsubs].
  apply andb_true_iff in Hwf. destruct Hwf as [Hwf Hne].
  apply andb_true_iff in Hwf. destruct Hwf as [He Hm].
  apply N.eqb_eq in He. apply N.eqb_eq in Hm. subst e m.
  assert (Hne' : subs <> []) by (destruct subs; [discriminate|congruence]).
  unfold um_kemac, put_be16. unfold mikey_encr_null, mikey_mac_null. change (byte 0) with 0.
  set (E := encr_len subs) in *.
  pose proof (nlen_m_subs subs) as HE. fold E in HE.
  cbn [app]. ltb_no.
  erewrite (idx_at [byte nt] 0) by side. cbn [bind N.eqb negb].
  erewrite (idx_at [byte nt; 0] (byte (E / 256))) by side. cbn [bind].
  erewrite (idx_at [byte nt; 0; byte (E / 256)] (byte E)) by side. cbn [bind].
  rewrite be16_put by lia.
  set (pre := [byte nt; 0; byte (E / 256); byte E]).
  rewrite (slice_from_at pre (m_subs subs ++ [0] ++ rest)) by (unfold pre; side). cbn [bind].
  ltb_no.
  rewrite (slice_at pre (m_subs subs) ([0] ++ rest)) by (unfold pre; side). cbn [bind].
  change (um_subs (0 :: m_subs subs) (m_subs subs) 0) with (um_subs (0 :: m_subs subs) ([] ++ m_subs subs) 0).
  rewrite (um_subs_rt subs (0 :: m_subs subs) [] 0); try assumption; try reflexivity.
  - cbn [bind]. rewrite N.add_0_l. fold E. rewrite HE, N.eqb_refl. cbn [negb].
    rewrite (idx_at (pre ++ m_subs subs) 0 rest) by (unfold pre; side). cbn [bind N.eqb negb].
    f_equal. f_equal. cbn [nlen]. rewrite nlen_app. cbn [nlen]. lia.
  - cbn [nlen]. pose proof (nlen_le_encr_len subs). lia.
Qed.

Lemma um_payload_rt p nt rest : wf_payload p = true ->
  um_payload (payload_type p) (m_payload nt p ++ rest) = Ok (p, nlen (m_payload nt p)).
Proof.
  intros Hwf. unfold um_payload.
  destruct p as [e subs m|ty v|pn pr ps|d]; cbn [payload_type]; unfold_consts; cbn [N.eqb Pos.eqb].
  - now apply um_kemac_rt.
  - now apply um_t_rt.
  - now apply um_sp_rt.
  - now apply um_rand_rt.
Qed.

Lemma m_payload_head nt p : exists tl, m_payload nt p = byte nt :: tl.
Proof. destruct p; cbn [m_payload app]; eauto. Qed.

Lemma payload_type_facts p :
  payload_type p <> 0 /\ payload_type p < 256 /\ known_type (payload_type p) = true.
Proof. destruct p; cbn [payload_type]; unfold known_type; unfold_consts; cbn; repeat split; lia. Qed.

Lemma first_type_lt ps : first_type ps < 256.
Proof. destruct ps as [|p t]; cbn [first_type]; [lia|]. apply payload_type_facts. Qed.

Lemma um_payloads_rt : forall ps fuel pre rest n,
  forallb wf_payload ps = true -> n = nlen pre -> nlen ps <= nlen fuel ->
  um_payloads fuel (pre ++ m_payloads ps ++ rest) n (first_type ps)
  = Ok (ps, n + nlen (m_payloads ps)).
Proof.
  induction ps as [|p t IH]; intros fuel pre rest n Hwf Hn Hf.
  - cbn [first_type m_payloads nlen]. destruct fuel; cbn [um_payloads N.eqb]; f_equal; f_equal; lia.
  - cbn [forallb] in Hwf. apply andb_true_iff in Hwf. destruct Hwf as [Hp Ht].
    destruct fuel as [|f fuel]; cbn [nlen] in Hf; [lia|].
    cbn [um_payloads first_type m_payloads].
    destruct (payload_type_facts p) as (Hnz & Hlt & Hk).
    destruct (N.eqb_spec (payload_type p) 0); [contradiction|]. rewrite Hk. cbn [negb].
    rewrite <- app_assoc.
    rewrite (slice_from_at pre (m_payload (first_type t) p ++ m_payloads t ++ rest)) by side. cbn [bind].
    rewrite um_payload_rt by assumption. cbn [bind].
    destruct (m_payload_head (first_type t) p) as [tl Htl].
    rewrite (idx_at pre (byte (first_type t)) (tl ++ m_payloads t ++ rest)) by (rewrite ?Htl; side).
    cbn [bind]. rewrite (byte_small (first_type t)) by apply first_type_lt.
    replace (pre ++ m_payload (first_type t) p ++ m_payloads t ++ rest)
      with ((pre ++ m_payload (first_type t) p) ++ m_payloads t ++ rest) by list_eq.
    rewrite (IH fuel (pre ++ m_payload (first_type t) p) rest); try assumption; try lia.
    + cbn [bind]. f_equal. f_equal. rewrite nlen_app. lia.
    + rewrite nlen_app. lia.
Qed.

Lemma nlen_m_map mi : nlen (concat (map m_srtp_id mi)) = 9 * nlen mi.
Proof.
  induction mi as [|e t IH]; cbn [map concat nlen]; [reflexivity|].
  rewrite nlen_app, IH. unfold m_srtp_id, put_be32. cbn [nlen app]. lia.
Qed.

Lemma um_map_rt : forall mi fuel pre rest n,
  forallb wf_srtp_id mi = true -> n = nlen pre -> nlen mi <= nlen fuel ->
  um_map fuel (pre ++ concat (map m_srtp_id mi) ++ rest) (nlen mi) n = Ok (mi, n + 9 * nlen mi).
Proof.
  induction mi as [|[pol ss rc] t IH]; intros fuel pre rest n Hwf Hn Hf.
  - cbn [nlen]. destruct fuel; cbn [um_map N.eqb]; f_equal; f_equal; lia.
  - cbn [forallb] in Hwf. apply andb_true_iff in Hwf. destruct Hwf as [He Ht].
    unfold wf_srtp_id in He. cbn [policy_no ssrc roc] in He. bool_hyps.
    destruct fuel as [|f fuel]; cbn [nlen] in Hf; [lia|].
    cbn [um_map nlen map concat].
    destruct (N.eqb_spec (N.succ (nlen t)) 0); [lia|]. rewrite N.pred_succ.
    change (m_srtp_id (mkSrtpId pol ss rc)) with (byte pol :: put_be32 ss ++ put_be32 rc).
    rewrite (byte_small pol) by assumption.
    set (tl := concat (map m_srtp_id t) ++ rest).
    rewrite <- app_assoc. fold tl.
    erewrite (idx_at pre pol) by side. cbn [bind].
    rewrite (get_be32_at (pre ++ [pol]) ss (put_be32 rc ++ tl)) by (side || assumption). cbn [bind].
    rewrite (get_be32_at (pre ++ pol :: put_be32 ss) rc tl) by (assumption || (unfold put_be32; side)).
    cbn [bind].
    replace (pre ++ (pol :: put_be32 ss ++ put_be32 rc) ++ tl)
      with ((pre ++ pol :: put_be32 ss ++ put_be32 rc) ++ concat (map m_srtp_id t) ++ rest)
      by (unfold tl; list_eq).
    rewrite (IH fuel (pre ++ pol :: put_be32 ss ++ put_be32 rc) rest (n + 9)); try assumption; try lia.
    + cbn [bind]. f_equal. f_equal. lia.
    + unfold put_be32. len_eq.
Qed.

Lemma nlen_le_m_payloads ps : nlen ps <= nlen (m_payloads ps).
Proof.
  induction ps as [|p t IH]; cbn [nlen m_payloads]; [lia|].
  destruct (m_payload_head (first_type t) p) as [tl ->]. rewrite nlen_app. cbn [nlen]. lia.
Qed.

Lemma um_header_rt h np rest :
  wf_header h = true -> np < 256 ->
  um_header (m_header np h ++ rest) = Ok (h, nlen (m_header np h), np).
Proof.
  destruct h as [ver dt v prf csb mt mi]. unfold wf_header, m_header.
  cbn [version data_type v_flag prf_func csb_id map_type map_info]. unfold_consts.
  intros Hwf Hnp.
  apply andb_true_iff in Hwf. destruct Hwf as [Hwf Hmi].
  apply andb_true_iff in Hwf. destruct Hwf as [Hwf Hnm]. apply N.leb_le in Hnm.
  apply andb_true_iff in Hwf. destruct Hwf as [Hwf Hmt]. apply N.eqb_eq in Hmt.
  apply andb_true_iff in Hwf. destruct Hwf as [Hwf Hcsb]. apply N.ltb_lt in Hcsb.
  apply andb_true_iff in Hwf. destruct Hwf as [Hwf Hprf]. apply N.eqb_eq in Hprf.
  apply andb_true_iff in Hwf. destruct Hwf as [Hwf Hv]. apply negb_true_iff in Hv.
  apply andb_true_iff in Hwf. destruct Hwf as [Hver Hdt]. apply N.eqb_eq in Hver. apply N.eqb_eq in Hdt.
  subst ver dt v prf mt.
  change (N.lor 0 (byte 0)) with 0. change (byte 1) with 1. change (byte 0) with 0.
  rewrite (byte_small np), (byte_small (nlen mi)) by lia.
  set (M := concat (map m_srtp_id mi)).
  set (pre4 := [1; 0; np; 0]).
  set (pre10 := pre4 ++ put_be32 csb ++ [nlen mi; 0]).
  assert (Hbuf : (pre4 ++ put_be32 csb ++ [nlen mi; 0] ++ M) ++ rest = pre10 ++ M ++ rest)
    by (unfold pre10; list_eq).
  rewrite Hbuf.
  assert (H10 : nlen pre10 = 10) by reflexivity.
  unfold um_header. unfold_consts. ltb_no.
  erewrite (idx_at [] 1) by (unfold pre10, pre4, put_be32; side). cbn [bind N.eqb Pos.eqb negb].
  erewrite (idx_at [1] 0) by (unfold pre10, pre4, put_be32; side). cbn [bind N.eqb negb].
  erewrite (idx_at [1; 0] np) by (unfold pre10, pre4, put_be32; side). cbn [bind].
  erewrite (idx_at [1; 0; np] 0) by (unfold pre10, pre4, put_be32; side). cbn [bind].
  change (N.shiftr 0 7) with 0. change (N.land 0 127) with 0. cbn [N.eqb negb].
  rewrite (get_be32_at pre4 csb ([nlen mi; 0] ++ M ++ rest)) by (assumption || (unfold pre10; side)).
  cbn [bind].
  erewrite (idx_at (pre4 ++ put_be32 csb) (nlen mi)) by (unfold pre10, pre4, put_be32; side). cbn [bind].
  erewrite (idx_at (pre4 ++ put_be32 csb ++ [nlen mi]) 0) by (unfold pre10, pre4, put_be32; side).
  cbn [bind N.eqb negb].
  rewrite (slice_from_at pre10 (M ++ rest)) by side. cbn [bind].
  pose proof (nlen_m_map mi) as HM. fold M in HM.
  destruct (N.ltb_spec (nlen (M ++ rest)) (nlen mi * 9)) as [Hc|_]; [rewrite nlen_app in Hc; lia|].
  unfold M. rewrite (um_map_rt mi _ pre10 rest 10); try assumption; try reflexivity.
  - cbn [bind]. f_equal. f_equal. f_equal.
    fold M. unfold pre4, put_be32. len_eq.
  - fold M. rewrite !nlen_app. lia.
Qed.

Theorem mikey_roundtrip : forall m, wf_message m = true -> mikey_unmarshal (mikey_marshal m) = Ok m.
Proof.
  intros [h ps]. unfold wf_message, mikey_marshal, mikey_unmarshal. cbn [msg_header msg_payloads].
  intros Hwf. apply andb_true_iff in Hwf. destruct Hwf as [Hh Hps].
  rewrite (um_header_rt h (first_type ps) (m_payloads ps) Hh (first_type_lt ps)). cbn [bind].
  replace (m_header (first_type ps) h ++ m_payloads ps)
    with (m_header (first_type ps) h ++ m_payloads ps ++ []) by now rewrite app_nil_r.
  rewrite (um_payloads_rt ps _ (m_header (first_type ps) h) []); try assumption; try reflexivity.
  - cbn [bind]. rewrite app_nil_r, nlen_app.
    destruct (N.ltb_spec (nlen (m_header (first_type ps) h) + nlen (m_payloads ps) + 1)
                (nlen (m_header (first_type ps) h) + nlen (m_payloads ps))); [lia|reflexivity].
  - rewrite !nlen_app. pose proof (nlen_le_m_payloads ps). lia.
Qed.

(* ================= marshalled bytes are bytes ================= *)

Lemma bytes_okb_ok l : bytes_okb l = true -> bytes_ok l.
Proof.
  unfold bytes_okb, bytes_ok. rewrite forallb_forall, Forall_forall.
  intros H x Hx. apply N.ltb_lt. now apply H.
Qed.

Ltac bytes_cons := repeat (apply Forall_cons; [first [apply byte_lt | lia]|]).

Lemma put_be16_bytes x : bytes_ok (put_be16 x).
Proof. unfold bytes_ok, put_be16. bytes_cons. constructor. Qed.
Lemma put_be32_bytes x : bytes_ok (put_be32 x).
Proof. unfold bytes_ok, put_be32. bytes_cons. constructor. Qed.
Lemma put_be64_bytes x : bytes_ok (put_be64 x).
Proof. unfold bytes_ok, put_be64. bytes_cons. constructor. Qed.

Lemma bytes_ok_app a b : bytes_ok a -> bytes_ok b -> bytes_ok (a ++ b).
Proof. unfold bytes_ok. intros. apply Forall_app. now split. Qed.

Lemma m_map_bytes mi : bytes_ok (concat (map m_srtp_id mi)).
Proof.
  induction mi as [|e t IH]; cbn [map concat]; [constructor|].
  apply bytes_ok_app; [|exact IH]. unfold m_srtp_id.
  apply Forall_cons; [apply byte_lt|]. apply bytes_ok_app; apply put_be32_bytes.
Qed.

Lemma m_header_bytes np h : wf_header h = true -> bytes_ok (m_header np h).
Proof.
  intros Hwf. unfold wf_header in Hwf.
  apply andb_true_iff in Hwf. destruct Hwf as [Hwf _].
  apply andb_true_iff in Hwf. destruct Hwf as [Hwf _].
  apply andb_true_iff in Hwf. destruct Hwf as [Hwf _].
  apply andb_true_iff in Hwf. destruct Hwf as [Hwf _].
  apply andb_true_iff in Hwf. destruct Hwf as [Hwf Hprf]. apply N.eqb_eq in Hprf.
  apply andb_true_iff in Hwf. destruct Hwf as [Hwf Hv]. apply negb_true_iff in Hv.
  unfold m_header. rewrite Hv, Hprf. change (N.lor 0 (byte 0)) with 0.
  repeat apply bytes_ok_app; try apply put_be32_bytes; try apply m_map_bytes;
    unfold bytes_ok; bytes_cons; constructor.
Qed.

Lemma m_key_data_bytes nt kd : wf_key_data kd = true -> bytes_ok (m_key_data nt kd).
Proof.
  destruct kd as [t kv key spi]. unfold wf_key_data, m_key_data.
  cbn [kd_type kd_kv kd_key kd_spi]. unfold_consts. intros Hwf.
  apply andb_true_iff in Hwf. destruct Hwf as [Hwf Hb2]. apply bytes_okb_ok in Hb2.
  apply andb_true_iff in Hwf. destruct Hwf as [Hwf Hb1]. apply bytes_okb_ok in Hb1.
  apply andb_true_iff in Hwf. destruct Hwf as [Hwf _].
  apply andb_true_iff in Hwf. destruct Hwf as [Ht Hkv].
  apply N.eqb_eq in Ht. subst t.
  assert (Hkv' : kv = 0 \/ kv = 1).
  { apply orb_true_iff in Hkv. destruct Hkv as [Hkv|Hkv]; apply andb_true_iff in Hkv;
      destruct Hkv as [Hk _]; apply N.eqb_eq in Hk; auto. }
  repeat apply bytes_ok_app; try apply put_be16_bytes; try assumption.
  - destruct Hkv' as [-> | ->]; [change (N.lor (byte 2 * 16 mod 256) (byte 0)) with 32
                                |change (N.lor (byte 2 * 16 mod 256) (byte 1)) with 33];
      unfold bytes_ok; bytes_cons; constructor.
  - destruct (kv =? 1); [|constructor]. apply Forall_cons; [apply byte_lt|assumption].
Qed.

Lemma m_subs_bytes subs : forallb wf_key_data subs = true -> bytes_ok (m_subs subs).
Proof.
  induction subs as [|kd t IH]; cbn [forallb m_subs]; intros Hwf; [constructor|].
  apply andb_true_iff in Hwf. destruct Hwf as [Hkd Ht].
  apply bytes_ok_app; [now apply m_key_data_bytes | now apply IH].
Qed.

Lemma m_params_bytes ps : forallb wf_param ps = true -> bytes_ok (concat (map m_param ps)).
Proof.
  induction ps as [|[ty v] t IH]; cbn [forallb map concat]; intros Hwf; [constructor|].
  apply andb_true_iff in Hwf. destruct Hwf as [Hp Ht].
  unfold wf_param in Hp. cbn [fst snd] in Hp.
  apply andb_true_iff in Hp. destruct Hp as [_ Hb]. apply bytes_okb_ok in Hb.
  apply bytes_ok_app; [|now apply IH]. unfold m_param. cbn [fst snd].
  unfold bytes_ok. bytes_cons. exact Hb.
Qed.

Lemma m_payload_bytes nt p : wf_payload p = true -> bytes_ok (m_payload nt p).
Proof.
  destruct p as [e subs m|ty v|pn pr ps|d]; cbn [wf_payload m_payload]; intros Hwf.
  - apply andb_true_iff in Hwf. destruct Hwf as [Hwf _].
    apply andb_true_iff in Hwf. destruct Hwf as [_ Hsubs].
    repeat apply bytes_ok_app; try apply put_be16_bytes; try (now apply m_subs_bytes);
      unfold bytes_ok; bytes_cons; constructor.
  - apply bytes_ok_app; [|apply put_be64_bytes]. unfold bytes_ok; bytes_cons; constructor.
  - apply andb_true_iff in Hwf. destruct Hwf as [Hwf _].
    apply andb_true_iff in Hwf. destruct Hwf as [_ Hps].
    repeat apply bytes_ok_app; try apply put_be16_bytes; try (now apply m_params_bytes);
      unfold bytes_ok; bytes_cons; constructor.
  - apply andb_true_iff in Hwf. destruct Hwf as [_ Hd]. apply bytes_okb_ok in Hd.
    apply bytes_ok_app; [|exact Hd]. unfold bytes_ok; bytes_cons; constructor.
Qed.

Lemma m_payloads_bytes ps : forallb wf_payload ps = true -> bytes_ok (m_payloads ps).
Proof.
  induction ps as [|p t IH]; cbn [forallb m_payloads]; intros Hwf; [constructor|].
  apply andb_true_iff in Hwf. destruct Hwf as [Hp Ht].
  apply bytes_ok_app; [now apply m_payload_bytes | now apply IH].
Qed.

Theorem mikey_marshal_bytes_ok : forall m, wf_message m = true -> bytes_ok (mikey_marshal m).
Proof.
  intros [h ps]. unfold wf_message, mikey_marshal. cbn [msg_header msg_payloads]. intros Hwf.
  apply andb_true_iff in Hwf. destruct Hwf as [Hh Hps].
  apply bytes_ok_app; [now apply m_header_bytes | now apply m_payloads_bytes].
Qed.

(* ================= everything Unmarshal accepts is well-formed ================= *)

(* [okp P r]: if r is a value, the value satisfies P *)
Definition okp {A} (P : A -> Prop) (r : res A) : Prop :=
  match r with Ok a => P a | _ => True end.

Lemma okp_bind {A B} (P : B -> Prop) (r : res A) (k : A -> res B) :
  okp (fun a => okp P (k a)) r -> okp P (bind r k).
Proof. destruct r; cbn [okp bind]; auto. Qed.

Lemma okp_mono {A} (P Q : A -> Prop) (r : res A) : (forall a, P a -> Q a) -> okp P r -> okp Q r.
Proof. destruct r; cbn [okp]; auto. Qed.

Lemma bytes_ok_nnth l i x : bytes_ok l -> nnth i l = Some x -> x < 256.
Proof.
  unfold bytes_ok. intros Hl. revert i. induction Hl as [|y t Hy Ht IH]; intros i; cbn [nnth]; [discriminate|].
  destruct (i =? 0); [intros [= <-]; exact Hy | apply IH].
Qed.

Lemma bytes_ok_ntake n l : bytes_ok l -> bytes_ok (ntake n l).
Proof.
  unfold bytes_ok. intros H. rewrite <- (ntake_ndrop n l) in H. apply Forall_app in H. apply H.
Qed.
Lemma bytes_ok_ndrop n l : bytes_ok l -> bytes_ok (ndrop n l).
Proof.
  unfold bytes_ok. intros H. rewrite <- (ntake_ndrop n l) in H. apply Forall_app in H. apply H.
Qed.

Lemma okp_idx (P : N -> Prop) l i : bytes_ok l -> (forall x, x < 256 -> P x) -> okp P (idx l i).
Proof.
  intros Hl HP. unfold idx. destruct (nnth i l) as [x|] eqn:E; cbn [okp]; [|exact I].
  apply HP. eapply bytes_ok_nnth; eauto.
Qed.

Lemma okp_slice (P : list N -> Prop) l i j : bytes_ok l ->
  (forall s, bytes_ok s -> nlen s = j - i -> i <= j -> j <= nlen l -> P s) -> okp P (slice l i j).
Proof.
  intros Hl HP. unfold slice, nsub.
  destruct (N.leb_spec i j); cbn [andb okp]; [|exact I].
  destruct (N.leb_spec j (nlen l)); cbn [okp]; [|exact I].
  apply HP; try assumption.
  - apply bytes_ok_ntake, bytes_ok_ndrop, Hl.
  - rewrite nlen_ntake, nlen_ndrop. lia.
Qed.

Lemma okp_slice_from (P : list N -> Prop) l i : bytes_ok l ->
  (forall s, bytes_ok s -> nlen s = nlen l - i -> i <= nlen l -> P s) -> okp P (slice_from l i).
Proof. intros Hl HP. unfold slice_from. apply okp_slice; [exact Hl|]. intros s Hs Hn Hi _. now apply HP. Qed.

Lemma bytes_okb_of l : bytes_ok l -> bytes_okb l = true.
Proof.
  unfold bytes_ok, bytes_okb. rewrite forallb_forall, Forall_forall.
  intros H x Hx. apply N.ltb_lt. now apply H.
Qed.

Ltac wstep :=
  lazymatch goal with
  | |- okp _ (bind (idx ?l ?i) _) =>
      let x := fresh "x" in let Hx := fresh "Hx" in
      apply okp_bind, okp_idx; [assumption | intros x Hx]
  | |- okp _ (bind (slice_from ?l ?i) _) =>
      let s := fresh "s" in let Hs := fresh "Hs" in let Hn := fresh "Hn" in let Hi := fresh "Hi" in
      apply okp_bind, okp_slice_from; [assumption | intros s Hs Hn Hi]
  | |- okp _ (bind (slice ?l ?i ?j) _) =>
      let s := fresh "s" in let Hs := fresh "Hs" in let Hn := fresh "Hn" in
      let Hi := fresh "Hi" in let Hj := fresh "Hj" in
      apply okp_bind, okp_slice; [assumption | intros s Hs Hn Hi Hj]
  | |- okp _ (if ?a <? ?b then Err else _) =>
      let H := fresh "Hc" in destruct (N.ltb_spec a b) as [H|H]; [exact I|]
  | |- okp _ (if negb (?a =? ?b) then Err else _) =>
      let H := fresh "Hc" in destruct (N.eqb_spec a b) as [H|H]; cbn [negb]; [|exact I]
  | |- okp _ (if ?c then Err else _) =>
      let H := fresh "Hc" in destruct c eqn:H; [exact I|]
  end.

Lemma be16_lt a b : a < 256 -> b < 256 -> be16 a b < 65536.
Proof. unfold be16. lia. Qed.
Lemma be32_lt a b c d : a < 256 -> b < 256 -> c < 256 -> d < 256 -> be32 a b c d < 4294967296.
Proof. unfold be32. lia. Qed.
Lemma be64_lt a b c d e f g h : a < 256 -> b < 256 -> c < 256 -> d < 256 -> e < 256 -> f < 256 ->
  g < 256 -> h < 256 -> be64 a b c d e f g h < 18446744073709551616.
Proof. unfold be64. lia. Qed.

Lemma get_be32_okp (P : N -> Prop) buf n : bytes_ok buf -> (forall x, x < 4294967296 -> P x) ->
  okp P (get_be32 buf n).
Proof. intros Hb HP. unfold get_be32. do 4 wstep. cbn [okp]. apply HP. now apply be32_lt. Qed.

Lemma um_map_wf : forall fuel buf k n, bytes_ok buf ->
  okp (fun r => nlen (fst r) = k /\ forallb wf_srtp_id (fst r) = true) (um_map fuel buf k n).
Proof.
  induction fuel as [|f fuel IH]; intros buf k n Hb; cbn [um_map].
  - destruct (N.eqb_spec k 0); cbn [okp fst nlen forallb]; [split; [lia|reflexivity] | exact I].
  - destruct (N.eqb_spec k 0) as [->|Hk]; [cbn [okp fst nlen forallb]; split; reflexivity|].
    wstep.
    apply okp_bind, get_be32_okp; [assumption|]; intros s Hs.
    apply okp_bind, get_be32_okp; [assumption|]; intros r Hr.
    apply okp_bind. eapply okp_mono; [|apply (IH buf (N.pred k) (n + 9) Hb)].
    intros [rest n'] [Hl Hw]; cbn [fst okp nlen forallb] in *. split; [lia|].
    rewrite Hw. unfold wf_srtp_id. cbn [policy_no ssrc roc].
    destruct (N.ltb_spec x 256); [|lia]. destruct (N.ltb_spec s 4294967296); [|lia].
    destruct (N.ltb_spec r 4294967296); [|lia]. reflexivity.
Qed.

Lemma um_header_wf buf : bytes_ok buf ->
  okp (fun r => wf_header (fst (fst r)) = true) (um_header buf).
Proof.
  intros Hb. unfold um_header. wstep. do 2 wstep. do 2 wstep. do 2 wstep.
  destruct (negb (N.shiftr x2 7 =? 0)) eqn:Hv; [exact I|]. wstep.
  apply okp_bind, get_be32_okp; [assumption|]; intros csb Hcsb.
  do 2 wstep. wstep. wstep. wstep.
  apply okp_bind. eapply okp_mono; [|apply (um_map_wf buf buf x3 10 Hb)].
  intros [mi n] [Hl Hw]; cbn [fst okp] in *.
  unfold wf_header. cbn [version data_type v_flag prf_func csb_id map_type map_info].
  rewrite Hw, Hc2. subst x x0 x4. rewrite !N.eqb_refl. cbn [negb andb].
  destruct (N.ltb_spec csb 4294967296); [|lia]. destruct (N.leb_spec (nlen mi) 255); [|lia]. reflexivity.
Qed.

Lemma um_key_data_wf buf : bytes_ok buf ->
  okp (fun r => wf_key_data (fst r) = true /\ snd r = kd_size (fst r)) (um_key_data buf).
Proof.
  intros Hb. unfold um_key_data. wstep. wstep.
  set (t := N.shiftr _ _). set (kv := N.land _ _).
  wstep. wstep. do 2 wstep. wstep. wstep. wstep.
  assert (Hk : be16 x0 x1 < 65536) by now apply be16_lt.
  apply andb_false_iff in Hc1.
  destruct (N.eqb_spec kv mikey_kv_spi) as [Hkv|Hkv].
  - wstep. wstep. wstep. wstep. wstep. wstep. cbn [okp fst snd].
    unfold wf_key_data, kd_size. cbn [kd_type kd_kv kd_key kd_spi].
    rewrite Hc0, Hkv, !N.eqb_refl, (bytes_okb_of s0), (bytes_okb_of s3) by assumption.
    destruct (N.leb_spec (nlen s3) 255); [|lia]. destruct (N.leb_spec (nlen s0) 65535); [|lia].
    rewrite orb_true_r. cbn [andb]. split; [reflexivity|lia].
  - cbn [okp fst snd]. unfold wf_key_data, kd_size. cbn [kd_type kd_kv kd_key kd_spi is_nil nlen].
    change (bytes_okb []) with true.
    assert (Hkv0 : kv = mikey_kv_null).
    { destruct Hc1 as [Hc1|Hc1]; apply negb_false_iff in Hc1;
        [apply N.eqb_eq in Hc1; assumption | first [discriminate Hc1 | apply N.eqb_eq in Hc1; contradiction]]. }
    rewrite Hc0, Hkv0, !N.eqb_refl, (bytes_okb_of s0) by assumption.
    destruct (N.leb_spec (nlen s0) 65535); [|lia].
    destruct (N.eqb_spec mikey_kv_null mikey_kv_spi) as [E|E]; [discriminate E|].
    cbn [andb orb]. split; [reflexivity|lia].
Qed.

Lemma um_subs_wf : forall fuel ed sn, bytes_ok ed ->
  okp (fun r => forallb wf_key_data (fst r) = true /\ fst r <> [] /\ snd r = sn + encr_len (fst r))
      (um_subs fuel ed sn).
Proof.
  induction fuel as [|f fuel IH]; intros ed sn Hb; cbn [um_subs]; [exact I|].
  wstep. apply okp_bind. eapply okp_mono; [|apply (um_key_data_wf s Hs)].
  intros [kd l] [Hkd Hl]; cbn [fst snd] in Hkd, Hl.
  wstep. destruct (x =? 0).
  - cbn [okp fst snd forallb encr_len]. rewrite Hkd. repeat split; [discriminate|lia].
  - wstep. apply okp_bind. eapply okp_mono; [|apply (IH ed (sn + l) Hb)].
    intros [rest sn'] (Hw & Hne & Hsn); cbn [fst snd okp forallb encr_len] in *.
    rewrite Hkd, Hw. repeat split; [discriminate|lia].
Qed.

Lemma um_kemac_wf buf : bytes_ok buf -> okp (fun r => wf_payload (fst r) = true) (um_kemac buf).
Proof.
  intros Hb. unfold um_kemac. wstep. do 2 wstep. do 2 wstep. wstep. wstep. wstep.
  apply okp_bind. eapply okp_mono; [|apply (um_subs_wf (0 :: s0) s0 0 Hs0)].
  intros [subs sn] (Hw & Hne & Hsn); cbn [fst snd] in *.
  wstep. wstep. wstep. cbn [okp fst wf_payload].
  assert (Hk : be16 x0 x1 < 65536) by now apply be16_lt.
  rewrite Hw, Hc0, Hc3, !N.eqb_refl. destruct subs; [congruence|]. cbn [is_nil negb andb].
  apply N.leb_le. lia.
Qed.

Lemma um_t_wf buf : bytes_ok buf -> okp (fun r => wf_payload (fst r) = true) (um_t buf).
Proof.
  intros Hb. unfold um_t. wstep. do 2 wstep. do 8 wstep. cbn [okp fst wf_payload].
  rewrite Hc0. cbn [N.eqb andb]. apply N.ltb_lt. now apply be64_lt.
Qed.

Lemma um_sp_params_wf : forall fuel buf n end_, bytes_ok buf ->
  okp (fun r => forallb wf_param (fst r) = true /\ snd r = n + params_len (fst r) /\ snd r = end_)
      (um_sp_params fuel buf n end_).
Proof.
  induction fuel as [|f fuel IH]; intros buf n end_ Hb; cbn [um_sp_params].
  - wstep. destruct (N.eqb_spec n end_); [|exact I]. cbn [okp fst snd forallb params_len]. repeat split; lia.
  - wstep. destruct (N.eqb_spec n end_); [cbn [okp fst snd forallb params_len]; repeat split; lia|].
    wstep. wstep. do 2 wstep. wstep. wstep. wstep.
    apply okp_bind. eapply okp_mono; [|apply (IH buf (n + 2 + x0) end_ Hb)].
    intros [rest n'] (Hw & Hn' & He); cbn [fst snd okp forallb params_len] in *.
    rewrite Hw. unfold wf_param. cbn [fst snd]. rewrite (bytes_okb_of s1) by assumption.
    destruct (N.ltb_spec x 256); [|lia]. destruct (N.leb_spec (nlen s1) 255); [|lia].
    repeat split; [lia|assumption].
Qed.

Lemma um_sp_wf buf : bytes_ok buf -> okp (fun r => wf_payload (fst r) = true) (um_sp buf).
Proof.
  intros Hb. unfold um_sp. wstep. do 2 wstep. wstep. do 2 wstep.
  apply okp_bind. eapply okp_mono; [|apply (um_sp_params_wf buf buf 5 (5 + be16 x1 x2) Hb)].
  intros [ps n] (Hw & Hn & He); cbn [fst snd okp wf_payload] in *.
  assert (Hk : be16 x1 x2 < 65536) by now apply be16_lt.
  rewrite Hw, Hc0. destruct (N.ltb_spec x 256); [|lia]. cbn [N.eqb andb]. apply N.leb_le. lia.
Qed.

Lemma um_rand_wf buf : bytes_ok buf -> okp (fun r => wf_payload (fst r) = true) (um_rand buf).
Proof.
  intros Hb. unfold um_rand. wstep. wstep. wstep. wstep. wstep. wstep. cbn [okp fst wf_payload].
  rewrite (bytes_okb_of s0) by assumption.
  destruct (N.leb_spec 16 (nlen s0)); [|lia]. destruct (N.leb_spec (nlen s0) 255); [|lia]. reflexivity.
Qed.

Lemma um_payload_wf t buf : bytes_ok buf -> okp (fun r => wf_payload (fst r) = true) (um_payload t buf).
Proof.
  intros Hb. unfold um_payload.
  destruct (t =? mikey_pt_kemac); [now apply um_kemac_wf|].
  destruct (t =? mikey_pt_t); [now apply um_t_wf|].
  destruct (t =? mikey_pt_sp); [now apply um_sp_wf|].
  destruct (t =? mikey_pt_rand); [now apply um_rand_wf|exact I].
Qed.

Lemma um_payloads_wf : forall fuel buf n npt, bytes_ok buf ->
  okp (fun r => forallb wf_payload (fst r) = true) (um_payloads fuel buf n npt).
Proof.
  induction fuel as [|f fuel IH]; intros buf n npt Hb; cbn [um_payloads].
  - destruct (npt =? 0); [reflexivity|exact I].
  - destruct (npt =? 0); [reflexivity|].
    wstep. wstep. apply okp_bind. eapply okp_mono; [|apply (um_payload_wf npt s Hs)].
    intros [p l] Hp; cbn [fst] in Hp.
    wstep. apply okp_bind. eapply okp_mono; [|apply (IH buf (n + l) x Hb)].
    intros [rest n'] Hw; cbn [fst okp forallb] in *. now rewrite Hp, Hw.
Qed.

(* Every value produced by Unmarshal from a byte string is well-formed: wf_message is not only sufficient
   for the round trip, it is exactly the set of values the parser can produce. *)
Theorem mikey_unmarshal_wf : forall b m, bytes_ok b -> mikey_unmarshal b = Ok m -> wf_message m = true.
Proof.
  intros b m Hb Hm.
  assert (H : okp (fun m => wf_message m = true) (mikey_unmarshal b)).
  { unfold mikey_unmarshal. apply okp_bind. eapply okp_mono; [|apply (um_header_wf b Hb)].
    intros [[h n] np] Hh; cbn [fst] in Hh.
    apply okp_bind. eapply okp_mono; [|apply (um_payloads_wf b b n np Hb)].
    intros [ps n'] Hps; cbn [fst] in Hps.
    assert (Hw : wf_message (mkMessage h ps) = true)
      by (unfold wf_message; cbn [msg_header msg_payloads]; now rewrite Hh, Hps).
    destruct (n' + 1 <? nlen b); [|exact Hw].
    wstep. destruct (negb (x =? 0)); [exact I|exact Hw]. }
  rewrite Hm in H. exact H.
Qed.

(* parse ; marshal ; parse = parse : a parsed message marshals to bytes that parse to the same message *)
Theorem mikey_reparse : forall b m, bytes_ok b -> mikey_unmarshal b = Ok m ->
  mikey_unmarshal (mikey_marshal m) = Ok m.
Proof. intros b m Hb Hm. apply mikey_roundtrip. eapply mikey_unmarshal_wf; eauto. Qed.

(* ================= the wire encoding of values is injective: dec (enc m ++ rest) = (m, rest) ================= *)

Lemma getl_putl x r : getl (putl x ++ r) = Some (x, r).
Proof.
  unfold getl, putl. cbn [app]. rewrite nlen_app.
  destruct (N.leb_spec (nlen x) (nlen x + nlen r)); [|lia].
  now rewrite ntake_app_exact, ndrop_app_exact.
Qed.

Lemma dec_list_enc {A} (d : list N -> option (A * list N)) (e : A -> list N) :
  (forall x r, d (e x ++ r) = Some (x, r)) -> (forall x, 1 <= nlen (e x)) ->
  forall xs fuel rest, nlen xs <= nlen fuel ->
  dec_list d fuel (nlen xs) (concat (map e xs) ++ rest) = Some (xs, rest).
Proof.
  intros Hd He. induction xs as [|x xs IH]; intros fuel rest Hf.
  - cbn [nlen]. destruct fuel; reflexivity.
  - destruct fuel as [|f fuel]; cbn [nlen] in Hf; [lia|].
    cbn [dec_list nlen map concat]. destruct (N.eqb_spec (N.succ (nlen xs)) 0); [lia|].
    rewrite <- app_assoc, Hd, N.pred_succ, IH by lia. reflexivity.
Qed.

Lemma nlen_concat_ge {A} (e : A -> list N) xs : (forall x, 1 <= nlen (e x)) -> nlen xs <= nlen (concat (map e xs)).
Proof.
  intros He. induction xs as [|x xs IH]; cbn [nlen map concat]; [lia|].
  rewrite nlen_app. pose proof (He x). lia.
Qed.

Lemma dec_enc_srtp_id e r : dec_srtp_id (enc_srtp_id e ++ r) = Some (e, r).
Proof. destruct e. reflexivity. Qed.

Lemma dec_enc_key_data kd r : dec_key_data (enc_key_data kd ++ r) = Some (kd, r).
Proof.
  destruct kd as [t kv key spi]. unfold enc_key_data, dec_key_data. cbn [kd_type kd_kv kd_key kd_spi app].
  now rewrite <- app_assoc, getl_putl, getl_putl.
Qed.

Lemma dec_enc_param p r : dec_param (enc_param p ++ r) = Some (p, r).
Proof. destruct p as [t v]. unfold enc_param, dec_param. cbn [fst snd app]. now rewrite getl_putl. Qed.

Lemma dec_enc_header h r : dec_header (enc_header h ++ r) = Some (h, r).
Proof.
  destruct h as [ver dt v prf csb mt mi]. unfold enc_header, dec_header.
  cbn [version data_type v_flag prf_func csb_id map_type map_info app].
  rewrite (dec_list_enc dec_srtp_id enc_srtp_id dec_enc_srtp_id).
  - destruct v; reflexivity.
  - intros e. cbn [enc_srtp_id nlen]. lia.
  - rewrite nlen_app. pose proof (nlen_concat_ge enc_srtp_id mi). cbn [enc_srtp_id nlen] in H.
    assert (forall x : srtp_id, 1 <= 3) by (intros; lia). specialize (H H0). lia.
Qed.

Lemma dec_enc_payload p r : dec_payload (enc_payload p ++ r) = Some (p, r).
Proof.
  destruct p as [e subs m|ty v|pn pr ps|d]; unfold enc_payload, dec_payload; cbn [app N.eqb Pos.eqb].
  - rewrite <- app_assoc. rewrite (dec_list_enc dec_key_data enc_key_data dec_enc_key_data).
    + reflexivity.
    + intros kd. unfold enc_key_data. rewrite nlen_app. cbn [nlen]. lia.
    + rewrite nlen_app.
      assert (He : forall kd, 1 <= nlen (enc_key_data kd))
        by (intros kd; unfold enc_key_data; rewrite nlen_app; cbn [nlen]; lia).
      pose proof (nlen_concat_ge enc_key_data subs He). lia.
  - reflexivity.
  - rewrite (dec_list_enc dec_param enc_param dec_enc_param).
    + reflexivity.
    + intros p. unfold enc_param. cbn [nlen]. lia.
    + rewrite nlen_app.
      assert (He : forall p, 1 <= nlen (enc_param p)) by (intros p; unfold enc_param; cbn [nlen]; lia).
      pose proof (nlen_concat_ge enc_param ps He). lia.
  - now rewrite getl_putl.
Qed.

Theorem dec_enc_message : forall m rest, dec_message (enc_message m ++ rest) = Some (m, rest).
Proof.
  intros [h ps] rest. unfold enc_message, dec_message. cbn [msg_header msg_payloads].
  rewrite <- app_assoc, dec_enc_header. cbn [app].
  rewrite (dec_list_enc dec_payload enc_payload dec_enc_payload).
  - reflexivity.
  - intros p. destruct p; cbn [enc_payload nlen app]; lia.
  - rewrite nlen_app.
    assert (He : forall p, 1 <= nlen (enc_payload p)) by (intros p; destruct p; cbn [enc_payload nlen app]; lia).
    pose proof (nlen_concat_ge enc_payload ps He). lia.
Qed.

(* BRIDGE: the integer kernels of pkg/mikey as TRANSLATED from the Go source on this run (GVG.Kern, tools/go2coq; spec
   lines in tools/go2coq/spec.d/mikey.txt) are the formulas of the hand-written model Mikey.v:
     - the length guards that precede every index / slice expression of the six unmarshal functions (len(buf) < k,
       len(buf[n:]) < x, n > end, sn != len(encrData), len(buf)-n > 1 && buf[n] != 0),
     - the big-endian fields read with shifts and ors (uint16(b0)<<8 | uint16(b1), the 32- and 64-bit analogues, the
       nibbles and flag bits of single bytes) = Mikey.be16 / be32 / be64 / N.shiftr / N.land,
     - the bytes written by the marshalTo functions (byte(x >> 8), byte(x), ...) = Mikey.put_be16 / put_be32 / put_be64,
     - the marshalSize arithmetic = the length of what the model's marshal functions write.
   Index expressions buf[n] are opaque byte-valued variables of the kernels.
   Shared file: physically in coq/mikey; siblings are imported with the prefix [GV] only. *)
From Coq Require Import ZArith NArith Lia Bool List.
From Coq Require Import ZifyBool ZifyN.
From GVL Require Import NList Wire Wrap.
From GVG Require Import Consts Kern.
From GV Require Import Res Mikey MikeyProofs.
Import ListNotations.
Open Scope Z_scope.
Ltac Zify.zify_post_hook ::= Z.div_mod_to_equations.

Lemma ki64_small x : -9223372036854775808 <= x < 9223372036854775808 -> ki64 x = x.
Proof. unfold ki64, s64, w64. intros H. destruct (x mod 18446744073709551616 <? 9223372036854775808) eqn:E; lia. Qed.
Lemma w8_small x : 0 <= x < 256 -> w8 x = x.
Proof. unfold w8. lia. Qed.
Lemma w64_small x : 0 <= x < 18446744073709551616 -> w64 x = x.
Proof. unfold w64. lia. Qed.
Lemma land_shifted_small a b k : 0 <= k -> 0 <= b < 2 ^ k -> Z.land (a * 2 ^ k) b = 0.
Proof.
  intros Hk Hb. apply Z.bits_inj'. intros n Hn. rewrite Z.land_spec, Z.bits_0.
  destruct (Z.lt_ge_cases n k) as [L|G].
  - rewrite Z.mul_pow2_bits_low by lia. reflexivity.
  - destruct (Z.eq_dec b 0) as [->|Hnz]; [rewrite Z.bits_0; apply andb_false_r|].
    rewrite (Z.bits_above_log2 b n); [apply andb_false_r|lia|].
    assert (Z.log2 b < k) by (apply Z.log2_lt_pow2; lia). lia.
Qed.
Lemma lor_shifted a b k : 0 <= k -> 0 <= b < 2 ^ k -> Z.lor (a * 2 ^ k) b = a * 2 ^ k + b.
Proof.
  intros Hk Hb. pose proof (land_shifted_small a b k Hk Hb) as E.
  rewrite (Z.add_nocarry_lxor _ _ E). symmetry. apply Z.lxor_lor. exact E.
Qed.
(* x | y = x + y when y < 2^k and 2^k divides x *)
Lemma lor_disj x y k : 0 <= k -> 0 <= y < 2 ^ k -> x mod 2 ^ k = 0 -> Z.lor x y = x + y.
Proof.
  intros Hk Hy Hx. assert (P : 0 < 2 ^ k) by (apply Z.pow_pos_nonneg; lia).
  rewrite (Z.div_mod x (2 ^ k)) at 1 2 by lia. rewrite Hx, Z.add_0_r, (Z.mul_comm (2 ^ k)). apply lor_shifted; assumption.
Qed.
Lemma lor_disj8 x y : 0 <= y < 256 -> x mod 256 = 0 -> Z.lor x y = x + y.
Proof. apply (lor_disj x y 8). lia. Qed.
Lemma lor_disj16 x y : 0 <= y < 65536 -> x mod 65536 = 0 -> Z.lor x y = x + y.
Proof. apply (lor_disj x y 16). lia. Qed.
Lemma lor_disj24 x y : 0 <= y < 16777216 -> x mod 16777216 = 0 -> Z.lor x y = x + y.
Proof. apply (lor_disj x y 24). lia. Qed.
Lemma lor_disj32 x y : 0 <= y < 4294967296 -> x mod 4294967296 = 0 -> Z.lor x y = x + y.
Proof. apply (lor_disj x y 32). lia. Qed.
Lemma lor_disj40 x y : 0 <= y < 1099511627776 -> x mod 1099511627776 = 0 -> Z.lor x y = x + y.
Proof. apply (lor_disj x y 40). lia. Qed.
Lemma lor_disj48 x y : 0 <= y < 281474976710656 -> x mod 281474976710656 = 0 -> Z.lor x y = x + y.
Proof. apply (lor_disj x y 48). lia. Qed.
Lemma lor_disj56 x y : 0 <= y < 72057594037927936 -> x mod 72057594037927936 = 0 -> Z.lor x y = x + y.
Proof. apply (lor_disj x y 56). lia. Qed.
Lemma lor_disj4 x y : 0 <= y < 16 -> x mod 16 = 0 -> Z.lor x y = x + y.
Proof. apply (lor_disj x y 4). lia. Qed.
Lemma lor_disj7 x y : 0 <= y < 128 -> x mod 128 = 0 -> Z.lor x y = x + y.
Proof. apply (lor_disj x y 7). lia. Qed.

(* turn a translated shift / or / wrap expression over bounded variables into +, *, / *)
Ltac shifts :=
  repeat match goal with
  | |- context [Z.shiftl ?x ?n] => rewrite (Z.shiftl_mul_pow2 x n) by lia
  | |- context [Z.shiftr ?x ?n] => rewrite (Z.shiftr_div_pow2 x n) by lia
  end;
  change (2 ^ 4) with 16; change (2 ^ 7) with 128; change (2 ^ 8) with 256; change (2 ^ 16) with 65536;
  change (2 ^ 24) with 16777216; change (2 ^ 32) with 4294967296; change (2 ^ 40) with 1099511627776;
  change (2 ^ 48) with 281474976710656; change (2 ^ 56) with 72057594037927936.
Ltac unwrap1 :=
  match goal with
  | |- context [w8 ?x] => rewrite (w8_small x) by lia
  | |- context [w16 ?x] => rewrite (w16_small x) by lia
  | |- context [w32 ?x] => rewrite (w32_small x) by lia
  | |- context [w64 ?x] => rewrite (w64_small x) by lia
  | |- context [ki64 ?x] => rewrite (ki64_small x) by lia
  | |- context [Z.lor ?x ?y] =>
      first [ rewrite (lor_disj56 x y) by lia | rewrite (lor_disj48 x y) by lia | rewrite (lor_disj40 x y) by lia
            | rewrite (lor_disj32 x y) by lia | rewrite (lor_disj24 x y) by lia | rewrite (lor_disj16 x y) by lia
            | rewrite (lor_disj8 x y) by lia | rewrite (lor_disj7 x y) by lia | rewrite (lor_disj4 x y) by lia ]
  end.
Ltac unwrap := shifts; repeat unwrap1.

Lemma of_N_land a b : Z.of_N (N.land a b) = Z.land (Z.of_N a) (Z.of_N b).
Proof. destruct a, b; reflexivity. Qed.
Lemma of_N_lor a b : Z.of_N (N.lor a b) = Z.lor (Z.of_N a) (Z.of_N b).
Proof. destruct a, b; reflexivity. Qed.
Lemma of_N_shiftr a n : Z.of_N (N.shiftr a n) = Z.shiftr (Z.of_N a) (Z.of_N n).
Proof.
  rewrite Z.shiftr_div_pow2 by lia. rewrite N.shiftr_div_pow2. rewrite N2Z.inj_div, N2Z.inj_pow. reflexivity.
Qed.
Lemma lor_u8 a b : 0 <= a < 256 -> 0 <= b < 256 -> 0 <= Z.lor a b < 256.
Proof.
  intros Ha Hb. assert (Hn : 0 <= Z.lor a b) by (apply Z.lor_nonneg; lia). split; [exact Hn|].
  destruct (Z.eq_dec (Z.lor a b) 0) as [E|E]; [lia|].
  change 256 with (2 ^ 8). apply Z.log2_lt_pow2; [lia|]. rewrite Z.log2_lor by lia.
  assert (La : a = 0 \/ Z.log2 a < 8) by (destruct (Z.eq_dec a 0); [left; assumption|right; apply Z.log2_lt_pow2; [lia|change (2 ^ 8) with 256; lia]]).
  assert (Lb : b = 0 \/ Z.log2 b < 8) by (destruct (Z.eq_dec b 0); [left; assumption|right; apply Z.log2_lt_pow2; [lia|change (2 ^ 8) with 256; lia]]).
  destruct La as [->|La], Lb as [->|Lb]; cbn [Z.log2]; lia.
Qed.

Definition byteN (x : N) : Prop := (x < 256)%N.
Definition lenN (x : N) : Prop := (x < 576460752303423488)%N.     (* a Go length / offset: < 2^59 *)
Notation zn := Z.of_N.

(* ================= the guards ================= *)
(* len(buf) < k at the head of each unmarshal function, tied to the model: when the translated guard fires the
   model returns Err; the constant is the model's literal *)
Lemma guards_head (buf : list N) :
  k_mk_hdr_short (zn (nlen buf)) = (nlen buf <? 10)%N /\
  k_mk_kemac_short (zn (nlen buf)) = (nlen buf <? 4)%N /\
  k_mk_kd_short (zn (nlen buf)) = (nlen buf <? 4)%N /\
  k_mk_rand_short (zn (nlen buf)) = (nlen buf <? 2)%N /\
  k_mk_sp_short (zn (nlen buf)) = (nlen buf <? 5)%N /\
  k_mk_t_short (zn (nlen buf)) = (nlen buf <? 10)%N.
Proof.
  unfold k_mk_hdr_short, k_mk_kemac_short, k_mk_kd_short, k_mk_rand_short, k_mk_sp_short, k_mk_t_short.
  repeat split; lia.
Qed.
Theorem guards_head_are_the_code (buf : list N) :
  (k_mk_hdr_short (zn (nlen buf)) = true -> um_header buf = Err) /\
  (k_mk_kemac_short (zn (nlen buf)) = true -> um_kemac buf = Err) /\
  (k_mk_kd_short (zn (nlen buf)) = true -> um_key_data buf = Err) /\
  (k_mk_rand_short (zn (nlen buf)) = true -> um_rand buf = Err) /\
  (k_mk_sp_short (zn (nlen buf)) = true -> um_sp buf = Err) /\
  (k_mk_t_short (zn (nlen buf)) = true -> um_t buf = Err).
Proof.
  destruct (guards_head buf) as (E1 & E2 & E3 & E4 & E5 & E6). rewrite E1, E2, E3, E4, E5, E6.
  unfold um_header, um_kemac, um_key_data, um_rand, um_sp, um_t.
  repeat split; intros H; rewrite H; reflexivity.
Qed.

(* the guards on the rest of the buffer ([tl] = len(buf[n:])) and on the running offsets *)
Lemma guards_inner tl x n e b :
  lenN tl -> lenN x -> lenN n -> lenN e -> byteN b ->
  k_mk_hdr_map_short (zn tl) (zn b) = (tl <? b * 9)%N /\
  k_mk_kemac_data_short (zn tl) (zn x) = (tl <? x + 1)%N /\
  k_mk_kemac_unread (zn n) (zn x) = negb (n =? x)%N /\
  k_mk_kd_key_short (zn tl) (zn x) = (tl <? x)%N /\
  k_mk_kd_spilen_short (zn tl) = (tl <? 1)%N /\
  k_mk_kd_spi_short (zn tl) (zn x) = (tl <? x)%N /\
  k_mk_rand_small (zn x) = (x <? 16)%N /\
  k_mk_rand_data_short (zn tl) (zn x) = (tl <? x)%N /\
  k_mk_sp_overrun (zn n) (zn e) = (e <? n)%N /\
  k_mk_sp_done (zn n) (zn e) = (n =? e)%N /\
  k_mk_sp_param_short (zn tl) = (tl <? 2)%N /\
  k_mk_sp_value_short (zn tl) (zn x) = (tl <? x)%N /\
  (n <= tl -> k_mk_msg_trailing (zn tl) (zn n) (zn b) = ((n + 1 <? tl) && negb (b =? 0))%N)%N.
Proof.
  unfold lenN, byteN. intros Ht Hx Hn He Hb.
  unfold k_mk_hdr_map_short, k_mk_kemac_data_short, k_mk_kemac_unread, k_mk_kd_key_short, k_mk_kd_spilen_short,
    k_mk_kd_spi_short, k_mk_rand_small, k_mk_rand_data_short, k_mk_sp_overrun, k_mk_sp_done, k_mk_sp_param_short,
    k_mk_sp_value_short, k_mk_msg_trailing.
  rewrite (ki64_small (zn b)) by lia. rewrite (ki64_small (zn b * 9)) by lia. rewrite (ki64_small (zn x + 1)) by lia.
  repeat split; try lia. intros Hle. rewrite ki64_small by lia. lia.
Qed.
(* end := n + int(policyParamLength): the model's end_ is 5 + be16 l0 l1 *)
Lemma bridge_sp_end n len : lenN n -> (len < 65536)%N -> k_mk_sp_end (zn n) (zn len) = zn (n + len).
Proof. unfold lenN, k_mk_sp_end. intros. unwrap. lia. Qed.

(* ================= big-endian fields, nibbles, flag bits ================= *)
Lemma bridge_be16 a b : byteN a -> byteN b ->
  k_mk_kemac_len (zn a) (zn b) = zn (be16 a b) /\ k_mk_kd_len (zn a) (zn b) = zn (be16 a b) /\
  k_mk_sp_len (zn a) (zn b) = zn (be16 a b).
Proof.
  unfold byteN, be16, k_mk_kemac_len, k_mk_kd_len, k_mk_sp_len. intros Ha Hb. repeat split; unwrap; lia.
Qed.
Lemma bridge_be32 a b c d : byteN a -> byteN b -> byteN c -> byteN d ->
  k_mk_hdr_csbid (zn a) (zn b) (zn c) (zn d) = zn (be32 a b c d).
Proof. unfold byteN, be32, k_mk_hdr_csbid. intros. unwrap. lia. Qed.
Lemma bridge_be64 a b c d e f g h :
  byteN a -> byteN b -> byteN c -> byteN d -> byteN e -> byteN f -> byteN g -> byteN h ->
  k_mk_t_value (zn a) (zn b) (zn c) (zn d) (zn e) (zn f) (zn g) (zn h) = zn (be64 a b c d e f g h).
Proof. unfold byteN, be64, k_mk_t_value. intros. unwrap. lia. Qed.
(* h.V = (buf[n] >> 7) != 0 ; h.PRFFunc = buf[n] & 0b01111111 ; Type = buf[n] >> 4 ; KV = buf[n] & 0b1111 *)
Lemma bridge_bits b : byteN b ->
  k_mk_hdr_v (zn b) = negb (N.shiftr b 7 =? 0)%N /\ k_mk_hdr_prf (zn b) = zn (N.land b 127) /\
  k_mk_kd_type (zn b) = zn (N.shiftr b 4) /\ k_mk_kd_kv (zn b) = zn (N.land b 15).
Proof.
  unfold byteN, k_mk_hdr_v, k_mk_hdr_prf, k_mk_kd_type, k_mk_kd_kv. intros Hb.
  rewrite !of_N_land, !of_N_shiftr. change (zn 7) with 7. change (zn 4) with 4. change (zn 127) with (Z.ones 7). change (zn 15) with (Z.ones 4).
  change 127 with (Z.ones 7). change 15 with (Z.ones 4). rewrite !Z.land_ones by lia.
  rewrite !Z.shiftr_div_pow2 by lia. change (2 ^ 7) with 128. change (2 ^ 4) with 16.
  assert (E1 : w8 (zn b / 128) = zn b / 128) by (apply w8_small; lia).
  assert (E2 : w8 (zn b mod 128) = zn b mod 128) by (apply w8_small; lia).
  assert (E3 : w8 (zn b / 16) = zn b / 16) by (apply w8_small; lia).
  assert (E4 : w8 (zn b mod 16) = zn b mod 16) by (apply w8_small; lia).
  rewrite E1, E2, E3, E4. split; [|repeat split].
  rewrite N.shiftr_div_pow2. change (2 ^ 7)%N with 128%N. lia.
Qed.

(* ================= the bytes Marshal writes ================= *)
Lemma bridge_put_be16 x : lenN x ->
  put_be16 x = [Z.to_N (k_mk_kemac_len_hi (zn x)); Z.to_N (k_mk_kemac_len_lo (zn x))] /\
  put_be16 x = [Z.to_N (k_mk_kd_len_hi (zn x)); Z.to_N (k_mk_kd_len_lo (zn x))] /\
  put_be16 x = [Z.to_N (k_mk_sp_len_hi (zn x)); Z.to_N (k_mk_sp_len_lo (zn x))].
Proof.
  unfold lenN. intros Hx.
  assert (Eh : k_mk_kemac_len_hi (zn x) = zn (byte (x / 256))).
  { unfold k_mk_kemac_len_hi, byte. shifts. rewrite ki64_small by lia. unfold w8. lia. }
  assert (El : k_mk_kemac_len_lo (zn x) = zn (byte x)) by (unfold k_mk_kemac_len_lo, byte, w8; lia).
  change k_mk_kd_len_hi with k_mk_kemac_len_hi. change k_mk_kd_len_lo with k_mk_kemac_len_lo.
  change k_mk_sp_len_hi with k_mk_kemac_len_hi. change k_mk_sp_len_lo with k_mk_kemac_len_lo.
  rewrite Eh, El, !N2Z.id. repeat split.
Qed.
Lemma bridge_put_be32 x : (x < 4294967296)%N ->
  put_be32 x = [Z.to_N (k_mk_hdr_csbid_b0 (zn x)); Z.to_N (k_mk_hdr_csbid_b1 (zn x));
                Z.to_N (k_mk_hdr_csbid_b2 (zn x)); Z.to_N (k_mk_hdr_csbid_b3 (zn x))].
Proof.
  intros Hx. unfold put_be32, byte.
  assert (E0 : k_mk_hdr_csbid_b0 (zn x) = zn ((x / 16777216) mod 256)) by (unfold k_mk_hdr_csbid_b0; shifts; unfold w8, w32; lia).
  assert (E1 : k_mk_hdr_csbid_b1 (zn x) = zn ((x / 65536) mod 256)) by (unfold k_mk_hdr_csbid_b1; shifts; unfold w8, w32; lia).
  assert (E2 : k_mk_hdr_csbid_b2 (zn x) = zn ((x / 256) mod 256)) by (unfold k_mk_hdr_csbid_b2; shifts; unfold w8, w32; lia).
  assert (E3 : k_mk_hdr_csbid_b3 (zn x) = zn (x mod 256)) by (unfold k_mk_hdr_csbid_b3, w8; lia).
  rewrite E0, E1, E2, E3, !N2Z.id. reflexivity.
Qed.
Lemma bridge_put_be64 x : (x < 18446744073709551616)%N ->
  put_be64 x = [Z.to_N (k_mk_t_b0 (zn x)); Z.to_N (k_mk_t_b1 (zn x)); Z.to_N (k_mk_t_b2 (zn x)); Z.to_N (k_mk_t_b3 (zn x));
                Z.to_N (k_mk_t_b4 (zn x)); Z.to_N (k_mk_t_b5 (zn x)); Z.to_N (k_mk_t_b6 (zn x)); Z.to_N (k_mk_t_b7 (zn x))].
Proof.
  intros Hx. unfold put_be64, byte.
  assert (E0 : k_mk_t_b0 (zn x) = zn ((x / 72057594037927936) mod 256)) by (unfold k_mk_t_b0; shifts; unfold w8, w64; lia).
  assert (E1 : k_mk_t_b1 (zn x) = zn ((x / 281474976710656) mod 256)) by (unfold k_mk_t_b1; shifts; unfold w8, w64; lia).
  assert (E2 : k_mk_t_b2 (zn x) = zn ((x / 1099511627776) mod 256)) by (unfold k_mk_t_b2; shifts; unfold w8, w64; lia).
  assert (E3 : k_mk_t_b3 (zn x) = zn ((x / 4294967296) mod 256)) by (unfold k_mk_t_b3; shifts; unfold w8, w64; lia).
  assert (E4 : k_mk_t_b4 (zn x) = zn ((x / 16777216) mod 256)) by (unfold k_mk_t_b4; shifts; unfold w8, w64; lia).
  assert (E5 : k_mk_t_b5 (zn x) = zn ((x / 65536) mod 256)) by (unfold k_mk_t_b5; shifts; unfold w8, w64; lia).
  assert (E6 : k_mk_t_b6 (zn x) = zn ((x / 256) mod 256)) by (unfold k_mk_t_b6; shifts; unfold w8, w64; lia).
  assert (E7 : k_mk_t_b7 (zn x) = zn (x mod 256)) by (unfold k_mk_t_b7, w8; lia).
  rewrite E0, E1, E2, E3, E4, E5, E6, E7, !N2Z.id. reflexivity.
Qed.
(* buf[3] = boolToUint8(h.V)<<7 | h.PRFFunc ; buf[1] = byte(p.Type)<<4 | byte(p.KV) ; the one-byte counts *)
Lemma bridge_packed_bytes (v : bool) prf ty kv n : byteN prf -> byteN ty -> byteN kv -> lenN n ->
  k_mk_hdr_vprf (if v then 1 else 0) (zn prf) = zn (N.lor (if v then 128 else 0) prf) /\
  k_mk_kd_typekv (zn ty) (zn kv) = zn (N.lor ((ty * 16) mod 256) kv) /\
  k_mk_hdr_ncs (zn n) = zn (byte n) /\ k_mk_kd_spilen (zn n) = zn (byte n).
Proof.
  unfold byteN, lenN. intros Hp Ht Hk Hn. split; [|split; [|split]].
  - unfold k_mk_hdr_vprf. rewrite of_N_lor. destruct v.
    + change (w8 (Z.shiftl 1 7)) with 128. change (zn 128) with 128. apply w8_small. apply lor_u8; lia.
    + change (w8 (Z.shiftl 0 7)) with 0. change (zn 0) with 0. rewrite Z.lor_0_l. apply w8_small. lia.
  - unfold k_mk_kd_typekv. rewrite of_N_lor. shifts. rewrite (w8_small (zn ty)), (w8_small (zn kv)) by lia.
    assert (E : w8 (zn ty * 16) = zn ((ty * 16) mod 256)) by (unfold w8; lia). rewrite E.
    apply w8_small. apply lor_u8; lia.
  - unfold k_mk_hdr_ncs, byte, w8. lia.
  - unfold k_mk_kd_spilen, byte, w8. lia.
Qed.

(* ================= marshalSize = the number of bytes the model writes ================= *)
Lemma bridge_hdr_size np h : lenN (nlen (map_info h)) ->
  zn (nlen (m_header np h)) = k_mk_hdr_size (zn (nlen (map_info h))).
Proof.
  unfold lenN. intros H. unfold m_header, put_be32. rewrite !nlen_app, nlen_m_map. cbn [nlen].
  unfold k_mk_hdr_size. rewrite (ki64_small (_ * 9)) by lia. rewrite ki64_small by lia. lia.
Qed.
Lemma bridge_kd_size nt kd : lenN (nlen (kd_key kd)) -> lenN (nlen (kd_spi kd)) ->
  zn (nlen (m_key_data nt kd)) =
  if (kd_kv kd =? mikey_kv_spi)%N
  then k_mk_kd_size_spi (k_mk_kd_size_base (zn (nlen (kd_key kd)))) (zn (nlen (kd_spi kd)))
  else k_mk_kd_size_base (zn (nlen (kd_key kd))).
Proof.
  unfold lenN. intros Hk Hs. rewrite nlen_m_key_data. unfold kd_size, k_mk_kd_size_spi, k_mk_kd_size_base.
  rewrite (ki64_small (4 + _)) by lia. rewrite (ki64_small (1 + _)) by lia.
  destruct (kd_kv kd =? mikey_kv_spi)%N; [rewrite ki64_small by lia|]; lia.
Qed.
Lemma bridge_kemac_size nt e subs m :
  zn (nlen (m_payload nt (PKemac e subs m))) = k_mk_kemac_size0 + zn (encr_len subs).
Proof.
  cbn [m_payload]. unfold put_be16. rewrite !nlen_app, nlen_m_subs. cbn [nlen]. unfold k_mk_kemac_size0. lia.
Qed.
Fixpoint values_len (ps : list (N * list N)) : N :=
  match ps with [] => 0%N | p :: t => (nlen (snd p) + values_len t)%N end.
Lemma bridge_sp_size nt pn pr ps : lenN (nlen ps) ->
  zn (nlen (m_payload nt (PSP pn pr ps))) = k_mk_sp_size0 (zn (nlen ps)) + zn (values_len ps) /\
  (forall p t, lenN (params_len t) -> lenN (nlen (snd p)) ->
     zn (params_len (p :: t)) = k_mk_sp_plen_step (zn (params_len t)) (zn (nlen (snd p)))).
Proof.
  unfold lenN. intros H. split.
  - cbn [m_payload]. unfold put_be16. rewrite !nlen_app, nlen_m_params. cbn [nlen].
    unfold k_mk_sp_size0. rewrite (ki64_small (2 * _)) by lia. rewrite ki64_small by lia.
    assert (E : params_len ps = (2 * nlen ps + values_len ps)%N).
    { clear H. induction ps as [|p t IH]; cbn [params_len values_len nlen]; lia. }
    rewrite E. lia.
  - intros p t Ht Hp. cbn [params_len]. unfold k_mk_sp_plen_step. rewrite (ki64_small (2 + _)) by lia.
    rewrite ki64_small by lia. lia.
Qed.

(* ================= the bridge, assembled ================= *)
Theorem mikey_guards_are_the_code (buf : list N) tl x n e b :
  lenN tl -> lenN x -> lenN n -> lenN e -> byteN b ->
  ((k_mk_hdr_short (zn (nlen buf)) = (nlen buf <? 10)%N /\ (k_mk_hdr_short (zn (nlen buf)) = true -> um_header buf = Err)) /\
   (k_mk_kemac_short (zn (nlen buf)) = (nlen buf <? 4)%N /\ (k_mk_kemac_short (zn (nlen buf)) = true -> um_kemac buf = Err)) /\
   (k_mk_kd_short (zn (nlen buf)) = (nlen buf <? 4)%N /\ (k_mk_kd_short (zn (nlen buf)) = true -> um_key_data buf = Err)) /\
   (k_mk_rand_short (zn (nlen buf)) = (nlen buf <? 2)%N /\ (k_mk_rand_short (zn (nlen buf)) = true -> um_rand buf = Err)) /\
   (k_mk_sp_short (zn (nlen buf)) = (nlen buf <? 5)%N /\ (k_mk_sp_short (zn (nlen buf)) = true -> um_sp buf = Err)) /\
   (k_mk_t_short (zn (nlen buf)) = (nlen buf <? 10)%N /\ (k_mk_t_short (zn (nlen buf)) = true -> um_t buf = Err))) /\
  k_mk_hdr_map_short (zn tl) (zn b) = (tl <? b * 9)%N /\
  k_mk_kemac_data_short (zn tl) (zn x) = (tl <? x + 1)%N /\
  k_mk_kemac_unread (zn n) (zn x) = negb (n =? x)%N /\
  k_mk_kd_key_short (zn tl) (zn x) = (tl <? x)%N /\
  k_mk_kd_spilen_short (zn tl) = (tl <? 1)%N /\
  k_mk_kd_spi_short (zn tl) (zn x) = (tl <? x)%N /\
  k_mk_rand_small (zn x) = (x <? 16)%N /\
  k_mk_rand_data_short (zn tl) (zn x) = (tl <? x)%N /\
  k_mk_sp_overrun (zn n) (zn e) = (e <? n)%N /\
  k_mk_sp_done (zn n) (zn e) = (n =? e)%N /\
  k_mk_sp_param_short (zn tl) = (tl <? 2)%N /\
  k_mk_sp_value_short (zn tl) (zn x) = (tl <? x)%N /\
  (n <= tl -> k_mk_msg_trailing (zn tl) (zn n) (zn b) = ((n + 1 <? tl) && negb (b =? 0))%N)%N.
Proof.
  intros Ht Hx Hn He Hb. split; [|exact (guards_inner tl x n e b Ht Hx Hn He Hb)].
  destruct (guards_head buf) as (E1 & E2 & E3 & E4 & E5 & E6).
  destruct (guards_head_are_the_code buf) as (G1 & G2 & G3 & G4 & G5 & G6). repeat split; assumption.
Qed.

Theorem mikey_fields_are_the_code a b c d e f g h n len :
  byteN a -> byteN b -> byteN c -> byteN d -> byteN e -> byteN f -> byteN g -> byteN h -> lenN n -> (len < 65536)%N ->
  k_mk_kemac_len (zn a) (zn b) = zn (be16 a b) /\ k_mk_kd_len (zn a) (zn b) = zn (be16 a b) /\
  k_mk_sp_len (zn a) (zn b) = zn (be16 a b) /\
  k_mk_sp_end (zn n) (zn len) = zn (n + len) /\
  k_mk_hdr_csbid (zn a) (zn b) (zn c) (zn d) = zn (be32 a b c d) /\
  k_mk_t_value (zn a) (zn b) (zn c) (zn d) (zn e) (zn f) (zn g) (zn h) = zn (be64 a b c d e f g h) /\
  k_mk_hdr_v (zn b) = negb (N.shiftr b 7 =? 0)%N /\ k_mk_hdr_prf (zn b) = zn (N.land b 127) /\
  k_mk_kd_type (zn b) = zn (N.shiftr b 4) /\ k_mk_kd_kv (zn b) = zn (N.land b 15).
Proof.
  intros Ha Hb Hc Hd He Hf Hg Hh Hn Hl.
  destruct (bridge_be16 a b Ha Hb) as (A1 & A2 & A3). destruct (bridge_bits b Hb) as (B1 & B2 & B3 & B4).
  repeat split; try assumption; [apply bridge_sp_end; assumption|apply bridge_be32; assumption|apply bridge_be64; assumption].
Qed.

Theorem mikey_marshal_kernels_are_the_code :
  (forall x, lenN x ->
     put_be16 x = [Z.to_N (k_mk_kemac_len_hi (zn x)); Z.to_N (k_mk_kemac_len_lo (zn x))] /\
     put_be16 x = [Z.to_N (k_mk_kd_len_hi (zn x)); Z.to_N (k_mk_kd_len_lo (zn x))] /\
     put_be16 x = [Z.to_N (k_mk_sp_len_hi (zn x)); Z.to_N (k_mk_sp_len_lo (zn x))]) /\
  (forall x, (x < 4294967296)%N ->
     put_be32 x = [Z.to_N (k_mk_hdr_csbid_b0 (zn x)); Z.to_N (k_mk_hdr_csbid_b1 (zn x));
                   Z.to_N (k_mk_hdr_csbid_b2 (zn x)); Z.to_N (k_mk_hdr_csbid_b3 (zn x))]) /\
  (forall x, (x < 18446744073709551616)%N ->
     put_be64 x = [Z.to_N (k_mk_t_b0 (zn x)); Z.to_N (k_mk_t_b1 (zn x)); Z.to_N (k_mk_t_b2 (zn x)); Z.to_N (k_mk_t_b3 (zn x));
                   Z.to_N (k_mk_t_b4 (zn x)); Z.to_N (k_mk_t_b5 (zn x)); Z.to_N (k_mk_t_b6 (zn x)); Z.to_N (k_mk_t_b7 (zn x))]) /\
  (forall (v : bool) prf ty kv n, byteN prf -> byteN ty -> byteN kv -> lenN n ->
     k_mk_hdr_vprf (if v then 1 else 0) (zn prf) = zn (N.lor (if v then 128 else 0) prf) /\
     k_mk_kd_typekv (zn ty) (zn kv) = zn (N.lor ((ty * 16) mod 256) kv) /\
     k_mk_hdr_ncs (zn n) = zn (byte n) /\ k_mk_kd_spilen (zn n) = zn (byte n)) /\
  (forall np h, lenN (nlen (map_info h)) -> zn (nlen (m_header np h)) = k_mk_hdr_size (zn (nlen (map_info h)))) /\
  (forall nt kd, lenN (nlen (kd_key kd)) -> lenN (nlen (kd_spi kd)) ->
     zn (nlen (m_key_data nt kd)) =
     if (kd_kv kd =? mikey_kv_spi)%N
     then k_mk_kd_size_spi (k_mk_kd_size_base (zn (nlen (kd_key kd)))) (zn (nlen (kd_spi kd)))
     else k_mk_kd_size_base (zn (nlen (kd_key kd)))) /\
  (forall nt e subs m, zn (nlen (m_payload nt (PKemac e subs m))) = k_mk_kemac_size0 + zn (encr_len subs)) /\
  (forall nt pn pr ps, lenN (nlen ps) ->
     zn (nlen (m_payload nt (PSP pn pr ps))) = k_mk_sp_size0 (zn (nlen ps)) + zn (values_len ps) /\
     (forall p t, lenN (params_len t) -> lenN (nlen (snd p)) ->
        zn (params_len (p :: t)) = k_mk_sp_plen_step (zn (params_len t)) (zn (nlen (snd p))))).
Proof.
  split; [exact bridge_put_be16|]. split; [exact bridge_put_be32|]. split; [exact bridge_put_be64|].
  split; [exact bridge_packed_bytes|]. split; [exact bridge_hdr_size|]. split; [exact bridge_kd_size|].
  split; [exact bridge_kemac_size|exact bridge_sp_size].
Qed.

(* Line-protocol front end of the mikey model (see Mikey.v for the model itself).
   case kinds
     1 len b1..bn          Message.Unmarshal of the bytes   -> 0 (error) | 77 (panic) | 1 ++ enc_message m
     2 ++ enc_message m    Message.Marshal of the value     -> len b1..bn
     3 ++ enc_message m    does m survive Marshal;Unmarshal -> wf_message m (1/0)  (exactness of wf_message) *)
From GVL Require Import NList Wire.
From GV Require Import Res Mikey.
Open Scope N_scope.

Definition run (c : list N) : list N :=
  match c with
  | 1 :: t =>
      match getl t with
      | Some (b, []) =>
          match mikey_unmarshal b with
          | Ok m => 1 :: enc_message m
          | Err => [0]
          | Panic => [77]
          end
      | _ => bad_case
      end
  | 2 :: t =>
      match dec_message t with
      | Some (m, []) => putl (mikey_marshal m)
      | _ => bad_case
      end
  | 3 :: t =>
      match dec_message t with
      | Some (m, []) => [putb (wf_message m)]
      | _ => bad_case
      end
  | _ => bad_case
  end.

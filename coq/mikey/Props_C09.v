(* C09 (MIKEY part) — statements only.  Each theorem is closed by [exact] of a lemma proved in
   MikeyProofs.v and followed by Print Assumptions.
   Property: "For every well-formed MIKEY message, parsing the marshalled form yields an equal value, and
   marshalling is a pure function of the value.  Parsing any byte string is total and deterministic: same
   input -> same value or same failure, and never panics." *)
From GVL Require Import NList Wire.
From GV Require Import Res Mikey MikeyProofs.
Open Scope N_scope.

(* Marshal ; Unmarshal is the identity on well-formed messages ([wf_message] is the executable predicate of
   Mikey.v: the value ranges of the Go field types plus exactly the constraints Unmarshal enforces). *)
Theorem C09_mikey_roundtrip : forall m,
  wf_message m = true -> mikey_unmarshal (mikey_marshal m) = Ok m.
Proof. exact mikey_roundtrip. Qed.
Print Assumptions C09_mikey_roundtrip.

(* Unmarshal never panics: on every input (of any length, even with elements that are not bytes) every
   index and slice expression of the Go code is within bounds and every loop terminates within the buffer. *)
Theorem C09_mikey_total : forall b, mikey_unmarshal b <> Panic.
Proof. exact mikey_total. Qed.
Print Assumptions C09_mikey_total.

(* so the outcome of Unmarshal is a value or an error *)
Theorem C09_mikey_total_outcome : forall b,
  (exists m, mikey_unmarshal b = Ok m) \/ mikey_unmarshal b = Err.
Proof.
  intros b. pose proof (mikey_total b) as H.
  destruct (mikey_unmarshal b) as [m| |]; [left; eauto | right; reflexivity | contradiction].
Qed.
Print Assumptions C09_mikey_total_outcome.

(* what a well-formed message marshals to is a byte string (needed by the KeyMgmt header: base64) *)
Theorem C09_mikey_marshal_bytes : forall m, wf_message m = true -> bytes_ok (mikey_marshal m).
Proof. exact mikey_marshal_bytes_ok. Qed.
Print Assumptions C09_mikey_marshal_bytes.

(* wf_message is exact: whatever Unmarshal produces from a byte string is well-formed, hence a parsed
   message marshals to bytes that parse to the same message (parse ; marshal ; parse = parse) *)
Theorem C09_mikey_parsed_wf : forall b m,
  bytes_ok b -> mikey_unmarshal b = Ok m -> wf_message m = true.
Proof. exact mikey_unmarshal_wf. Qed.
Print Assumptions C09_mikey_parsed_wf.

Theorem C09_mikey_reparse : forall b m,
  bytes_ok b -> mikey_unmarshal b = Ok m -> mikey_unmarshal (mikey_marshal m) = Ok m.
Proof. exact mikey_reparse. Qed.
Print Assumptions C09_mikey_reparse.

(* Determinism / purity: Unmarshal and Marshal are functions of their argument alone (the model has no other
   input: no map iteration, no clock, no global state is read by pkg/mikey; the harness checks the same on
   the implementation, including that neither function writes to its argument). *)
Theorem C09_mikey_unmarshal_deterministic : forall b r1 r2,
  mikey_unmarshal b = r1 -> mikey_unmarshal b = r2 -> r1 = r2.
Proof. exact mikey_unmarshal_deterministic. Qed.
Print Assumptions C09_mikey_unmarshal_deterministic.

Theorem C09_mikey_marshal_pure : forall m b1 b2,
  mikey_marshal m = b1 -> mikey_marshal m = b2 -> b1 = b2.
Proof. exact mikey_marshal_deterministic. Qed.
Print Assumptions C09_mikey_marshal_pure.

(* ---- non-vacuity ---- *)

(* a message with all four payload kinds (KEMAC with two key-data sub-payloads, one with an SPI),
   two SRTP-ID map entries and an SP payload with an empty and a non-empty param value *)
Definition ex_msg : message :=
  mkMessage
    (mkHeader 1 0 false 0 3869069816 0 [mkSrtpId 0 812144480 0; mkSrtpId 255 4294967295 1])
    [ PT 0 17005151485044015056;
      PRand [194;221;228;67;168;73;48;165;117;122;126;217;195;164;23;251];
      PSP 7 0 [(0, [1]); (1, [16]); (12, []); (255, [1;2;3])];
      PKemac 0 [mkKeyData 2 0 [144;145;120;61] []; mkKeyData 2 1 [1;2;3;4;5] [9;8;7;6]] 0 ].

Example C09_ex_wf : wf_message ex_msg = true.
Proof. vm_compute. reflexivity. Qed.

Example C09_ex_marshal : mikey_marshal ex_msg =
  [1;0;5;0;230;157;81;248;2;0; 0;48;104;87;96;0;0;0;0; 255;255;255;255;255;0;0;0;1;
   11;0;235;254;111;45;177;193;63;208;
   10;16;194;221;228;67;168;73;48;165;117;122;126;217;195;164;23;251;
   1;7;0;0;13; 0;1;1; 1;1;16; 12;0; 255;3;1;2;3;
   0;0;0;22; 20;32;0;4;144;145;120;61; 0;33;0;5;1;2;3;4;5;4;9;8;7;6; 0].
Proof. vm_compute. reflexivity. Qed.

Example C09_ex_roundtrip : mikey_unmarshal (mikey_marshal ex_msg) = Ok ex_msg.
Proof. vm_compute. reflexivity. Qed.

(* one byte of 0x00 padding (or any single trailing byte) is accepted; two bytes not starting with 0 are not *)
Example C09_ex_padding : mikey_unmarshal (mikey_marshal ex_msg ++ [0]) = Ok ex_msg.
Proof. vm_compute. reflexivity. Qed.
Example C09_ex_trailing : mikey_unmarshal (mikey_marshal ex_msg ++ [1; 0]) = Err.
Proof. vm_compute. reflexivity. Qed.
(* observation (not a violation of C09): the rule in Message.Unmarshal is `len(buf)-n > 1 && buf[n] != 0`, so a
   single trailing byte of ANY value and any number of trailing bytes after a 0x00 are accepted as well *)
Example C09_ex_trailing_lax :
  mikey_unmarshal (mikey_marshal ex_msg ++ [7]) = Ok ex_msg /\
  mikey_unmarshal (mikey_marshal ex_msg ++ [0; 9; 9; 9]) = Ok ex_msg.
Proof. vm_compute. split; reflexivity. Qed.

(* truncation: every proper prefix of the marshalled example is rejected with an error (never a panic) *)
Example C09_ex_truncated :
  forallb (fun k => match mikey_unmarshal (ntake k (mikey_marshal ex_msg)) with Err => true | _ => false end)
          (map N.of_nat (seq 0 (length (mikey_marshal ex_msg)))) = true.
Proof. vm_compute. reflexivity. Qed.

(* an unknown payload type, a RAND shorter than 16 bytes, a KEMAC whose length field exceeds the buffer *)
Example C09_ex_errors :
  mikey_unmarshal [1;0;7;0;0;0;0;0;0;0; 0;0] = Err /\
  mikey_unmarshal [1;0;11;0;0;0;0;0;0;0; 0;15;1;2;3;4;5;6;7;8;9;10;11;12;13;14;15] = Err /\
  mikey_unmarshal [1;0;1;0;0;0;0;0;0;0; 0;0;255;255;0;32;0;0;0] = Err.
Proof. vm_compute. repeat split. Qed.

(* a value outside the well-formed set that does not survive the round trip: key validity 0 with an SPI *)
Example C09_ex_not_wf :
  let m := mkMessage (mkHeader 1 0 false 0 0 0 []) [PKemac 0 [mkKeyData 2 0 [1] [5]] 0] in
  wf_message m = false /\ mikey_unmarshal (mikey_marshal m) <> Ok m.
Proof. vm_compute. split; [reflexivity|discriminate]. Qed.

(* C09 (MIKEY part) — statements only.  Each theorem is closed by [exact] of a lemma proved in
   MikeyProofs.v and followed by Print Assumptions.
   Property: "For every well-formed MIKEY message, parsing the marshalled form yields an equal value, and
   marshalling is a pure function of the value.  Parsing any byte string is total and deterministic: same
   input -> same value or same failure, and never panics." *)
From GVL Require Import NList Wire.
From GVG Require Import Consts Kern.
From GV Require Import Res Mikey MikeyProofs Bridge.
Open Scope N_scope.

(* Marshal ; Unmarshal is the identity on well-formed messages ([wf_message] is the executable predicate of
   Mikey.v: the value ranges of the Go field types plus exactly the constraints Unmarshal enforces). *)
Theorem C09_mikey_roundtrip : forall m,
  wf_message m = true -> mikey_unmarshal (mikey_marshal m) = Ok m.
Proof. exact mikey_roundtrip. Qed.
Print Assumptions C09_mikey_roundtrip.

(* Unmarshal never panics: on every input (of any length, even with elements that are not bytes) every
   index and slice expression of the Go code is within bounds and every loop terminates within the buffer. *)
Theorem C09_mikey_total : forall b, mikey_unmarshal b <> Panic.
Proof. exact mikey_total. Qed.
Print Assumptions C09_mikey_total.

(* so the outcome of Unmarshal is a value or an error *)
Theorem C09_mikey_total_outcome : forall b,
  (exists m, mikey_unmarshal b = Ok m) \/ mikey_unmarshal b = Err.
Proof.
  intros b. pose proof (mikey_total b) as H.
  destruct (mikey_unmarshal b) as [m| |]; [left; eauto | right; reflexivity | contradiction].
Qed.
Print Assumptions C09_mikey_total_outcome.

(* what a well-formed message marshals to is a byte string (needed by the KeyMgmt header: base64) *)
Theorem C09_mikey_marshal_bytes : forall m, wf_message m = true -> bytes_ok (mikey_marshal m).
Proof. exact mikey_marshal_bytes_ok. Qed.
Print Assumptions C09_mikey_marshal_bytes.

(* wf_message is exact: whatever Unmarshal produces from a byte string is well-formed, hence a parsed
   message marshals to bytes that parse to the same message (parse ; marshal ; parse = parse) *)
Theorem C09_mikey_parsed_wf : forall b m,
  bytes_ok b -> mikey_unmarshal b = Ok m -> wf_message m = true.
Proof. exact mikey_unmarshal_wf. Qed.
Print Assumptions C09_mikey_parsed_wf.

Theorem C09_mikey_reparse : forall b m,
  bytes_ok b -> mikey_unmarshal b = Ok m -> mikey_unmarshal (mikey_marshal m) = Ok m.
Proof. exact mikey_reparse. Qed.
Print Assumptions C09_mikey_reparse.

(* Determinism / purity: Unmarshal and Marshal are functions of their argument alone (the model has no other
   input: no map iteration, no clock, no global state is read by pkg/mikey; the harness checks the same on
   the implementation, including that neither function writes to its argument). *)
Theorem C09_mikey_unmarshal_deterministic : forall b r1 r2,
  mikey_unmarshal b = r1 -> mikey_unmarshal b = r2 -> r1 = r2.
Proof. exact mikey_unmarshal_deterministic. Qed.
Print Assumptions C09_mikey_unmarshal_deterministic.

Theorem C09_mikey_marshal_pure : forall m b1 b2,
  mikey_marshal m = b1 -> mikey_marshal m = b2 -> b1 = b2.
Proof. exact mikey_marshal_deterministic. Qed.
Print Assumptions C09_mikey_marshal_pure.

(* ---- non-vacuity ---- *)

(* a message with all four payload kinds (KEMAC with two key-data sub-payloads, one with an SPI),
   two SRTP-ID map entries and an SP payload with an empty and a non-empty param value *)
Definition ex_msg : message :=
  mkMessage
    (mkHeader 1 0 false 0 3869069816 0 [mkSrtpId 0 812144480 0; mkSrtpId 255 4294967295 1])
    [ PT 0 17005151485044015056;
      PRand [194;221;228;67;168;73;48;165;117;122;126;217;195;164;23;251];
      PSP 7 0 [(0, [1]); (1, [16]); (12, []); (255, [1;2;3])];
      PKemac 0 [mkKeyData 2 0 [144;145;120;61] []; mkKeyData 2 1 [1;2;3;4;5] [9;8;7;6]] 0 ].

(* ---- BRIDGE (tools/go2coq) ----
   The integer kernels of pkg/mikey TRANSLATED from the Go source on this run are the formulas of the model.
   [byteN x] = x < 256 (an element of a []byte), [lenN x] = x < 2^59 (a Go length or offset), [zn] = Z.of_N.
   (1) the guards: the constant of each  len(buf) < k  at the head of the six unmarshal functions is the model's, and
   when the translated guard fires the model's function returns Err; the guards on the rest of the buffer
   (tl = len(buf[n:])), on the running offsets of PayloadSP and on the trailing bytes of a message are the model's
   comparisons. *)
Theorem C09_mikey_guards_are_the_code : forall (buf : list N) tl x n e b,
  lenN tl -> lenN x -> lenN n -> lenN e -> byteN b ->
  ((k_mk_hdr_short (zn (nlen buf)) = (nlen buf <? 10) /\ (k_mk_hdr_short (zn (nlen buf)) = true -> um_header buf = Err)) /\
   (k_mk_kemac_short (zn (nlen buf)) = (nlen buf <? 4) /\ (k_mk_kemac_short (zn (nlen buf)) = true -> um_kemac buf = Err)) /\
   (k_mk_kd_short (zn (nlen buf)) = (nlen buf <? 4) /\ (k_mk_kd_short (zn (nlen buf)) = true -> um_key_data buf = Err)) /\
   (k_mk_rand_short (zn (nlen buf)) = (nlen buf <? 2) /\ (k_mk_rand_short (zn (nlen buf)) = true -> um_rand buf = Err)) /\
   (k_mk_sp_short (zn (nlen buf)) = (nlen buf <? 5) /\ (k_mk_sp_short (zn (nlen buf)) = true -> um_sp buf = Err)) /\
   (k_mk_t_short (zn (nlen buf)) = (nlen buf <? 10) /\ (k_mk_t_short (zn (nlen buf)) = true -> um_t buf = Err))) /\
  k_mk_hdr_map_short (zn tl) (zn b) = (tl <? b * 9) /\
  k_mk_kemac_data_short (zn tl) (zn x) = (tl <? x + 1) /\
  k_mk_kemac_unread (zn n) (zn x) = negb (n =? x) /\
  k_mk_kd_key_short (zn tl) (zn x) = (tl <? x) /\
  k_mk_kd_spilen_short (zn tl) = (tl <? 1) /\
  k_mk_kd_spi_short (zn tl) (zn x) = (tl <? x) /\
  k_mk_rand_small (zn x) = (x <? 16) /\
  k_mk_rand_data_short (zn tl) (zn x) = (tl <? x) /\
  k_mk_sp_overrun (zn n) (zn e) = (e <? n) /\
  k_mk_sp_done (zn n) (zn e) = (n =? e) /\
  k_mk_sp_param_short (zn tl) = (tl <? 2) /\
  k_mk_sp_value_short (zn tl) (zn x) = (tl <? x) /\
  (n <= tl -> k_mk_msg_trailing (zn tl) (zn n) (zn b) = ((n + 1 <? tl) && negb (b =? 0))).
Proof. exact mikey_guards_are_the_code. Qed.
Print Assumptions C09_mikey_guards_are_the_code.

(* (2) the fields: the shift-and-or expressions of the Go code on bytes are the model's arithmetic be16 / be32 / be64,
   the end offset of the policy parameters, the flag bit / PRF / key type / KV nibbles *)
Theorem C09_mikey_fields_are_the_code : forall a b c d e f g h n len,
  byteN a -> byteN b -> byteN c -> byteN d -> byteN e -> byteN f -> byteN g -> byteN h -> lenN n -> len < 65536 ->
  k_mk_kemac_len (zn a) (zn b) = zn (be16 a b) /\ k_mk_kd_len (zn a) (zn b) = zn (be16 a b) /\
  k_mk_sp_len (zn a) (zn b) = zn (be16 a b) /\
  k_mk_sp_end (zn n) (zn len) = zn (n + len) /\
  k_mk_hdr_csbid (zn a) (zn b) (zn c) (zn d) = zn (be32 a b c d) /\
  k_mk_t_value (zn a) (zn b) (zn c) (zn d) (zn e) (zn f) (zn g) (zn h) = zn (be64 a b c d e f g h) /\
  k_mk_hdr_v (zn b) = negb (N.shiftr b 7 =? 0) /\ k_mk_hdr_prf (zn b) = zn (N.land b 127) /\
  k_mk_kd_type (zn b) = zn (N.shiftr b 4) /\ k_mk_kd_kv (zn b) = zn (N.land b 15).
Proof. exact mikey_fields_are_the_code. Qed.
Print Assumptions C09_mikey_fields_are_the_code.

(* (3) Marshal: the bytes byte(x >> 8k) written by the marshalTo functions are put_be16 / put_be32 / put_be64, the packed
   bytes V<<7|PRF and Type<<4|KV and the one-byte counts are the model's, and each marshalSize is the number of
   bytes the model's marshal function writes (header: 10 + 9 per map entry; key data: 4 + key [+ 1 + SPI]; KEMAC:
   5 + its sub-payloads; SP: 5 + 2 per parameter + the values; the running policyParamLength). *)
Theorem C09_mikey_marshal_kernels_are_the_code :
  (forall x, lenN x ->
     put_be16 x = [Z.to_N (k_mk_kemac_len_hi (zn x)); Z.to_N (k_mk_kemac_len_lo (zn x))] /\
     put_be16 x = [Z.to_N (k_mk_kd_len_hi (zn x)); Z.to_N (k_mk_kd_len_lo (zn x))] /\
     put_be16 x = [Z.to_N (k_mk_sp_len_hi (zn x)); Z.to_N (k_mk_sp_len_lo (zn x))]) /\
  (forall x, x < 4294967296 ->
     put_be32 x = [Z.to_N (k_mk_hdr_csbid_b0 (zn x)); Z.to_N (k_mk_hdr_csbid_b1 (zn x));
                   Z.to_N (k_mk_hdr_csbid_b2 (zn x)); Z.to_N (k_mk_hdr_csbid_b3 (zn x))]) /\
  (forall x, x < 18446744073709551616 ->
     put_be64 x = [Z.to_N (k_mk_t_b0 (zn x)); Z.to_N (k_mk_t_b1 (zn x)); Z.to_N (k_mk_t_b2 (zn x)); Z.to_N (k_mk_t_b3 (zn x));
                   Z.to_N (k_mk_t_b4 (zn x)); Z.to_N (k_mk_t_b5 (zn x)); Z.to_N (k_mk_t_b6 (zn x)); Z.to_N (k_mk_t_b7 (zn x))]) /\
  (forall (v : bool) prf ty kv n, byteN prf -> byteN ty -> byteN kv -> lenN n ->
     k_mk_hdr_vprf (if v then 1 else 0) (zn prf) = zn (N.lor (if v then 128 else 0) prf) /\
     k_mk_kd_typekv (zn ty) (zn kv) = zn (N.lor ((ty * 16) mod 256) kv) /\
     k_mk_hdr_ncs (zn n) = zn (byte n) /\ k_mk_kd_spilen (zn n) = zn (byte n)) /\
  (forall np h, lenN (nlen (map_info h)) -> zn (nlen (m_header np h)) = k_mk_hdr_size (zn (nlen (map_info h)))) /\
  (forall nt kd, lenN (nlen (kd_key kd)) -> lenN (nlen (kd_spi kd)) ->
     zn (nlen (m_key_data nt kd)) =
     if kd_kv kd =? mikey_kv_spi
     then k_mk_kd_size_spi (k_mk_kd_size_base (zn (nlen (kd_key kd)))) (zn (nlen (kd_spi kd)))
     else k_mk_kd_size_base (zn (nlen (kd_key kd)))) /\
  (forall nt e subs m, zn (nlen (m_payload nt (PKemac e subs m))) = (k_mk_kemac_size0 + zn (encr_len subs))%Z) /\
  (forall nt pn pr ps, lenN (nlen ps) ->
     zn (nlen (m_payload nt (PSP pn pr ps))) = (k_mk_sp_size0 (zn (nlen ps)) + zn (values_len ps))%Z /\
     (forall p t, lenN (params_len t) -> lenN (nlen (snd p)) ->
        zn (params_len (p :: t)) = k_mk_sp_plen_step (zn (params_len t)) (zn (nlen (snd p))))).
Proof. exact mikey_marshal_kernels_are_the_code. Qed.
Print Assumptions C09_mikey_marshal_kernels_are_the_code.

(* the translated kernels compute *)
Example C09_mikey_example_kernels :
  k_mk_hdr_short 9 = true /\ k_mk_hdr_short 10 = false /\ k_mk_kemac_short 3 = true /\ k_mk_kemac_short 4 = false /\
  k_mk_kemac_len 1 2 = 258%Z /\ k_mk_kemac_data_short 258 258 = true /\ k_mk_kemac_data_short 259 258 = false /\
  k_mk_hdr_csbid 1 2 3 4 = 16909060%Z /\ k_mk_t_value 0 0 0 0 0 0 1 0 = 256%Z /\
  k_mk_hdr_map_short 17 2 = true /\ k_mk_hdr_map_short 18 2 = false /\
  k_mk_kd_type 33 = 2%Z /\ k_mk_kd_kv 33 = 1%Z /\ k_mk_kd_typekv 2 1 = 33%Z /\
  k_mk_rand_small 15 = true /\ k_mk_rand_small 16 = false /\
  k_mk_sp_end 5 300 = 305%Z /\ k_mk_sp_overrun 306 305 = true /\ k_mk_sp_done 305 305 = true /\
  k_mk_msg_trailing 12 10 1 = true /\ k_mk_msg_trailing 11 10 1 = false /\ k_mk_msg_trailing 12 10 0 = false /\
  k_mk_hdr_size 2 = 28%Z /\ k_mk_kd_size_spi (k_mk_kd_size_base 30) 4 = 39%Z /\ k_mk_sp_size0 3 = 11%Z /\
  k_mk_kemac_len_hi 258 = 1%Z /\ k_mk_kemac_len_lo 258 = 2%Z /\ k_mk_t_b6 256 = 1%Z /\ k_mk_hdr_csbid_b0 16909060 = 1%Z.
Proof. vm_compute. repeat split. Qed.

Example C09_ex_wf : wf_message ex_msg = true.
Proof. vm_compute. reflexivity. Qed.

Example C09_ex_marshal : mikey_marshal ex_msg =
  [1;0;5;0;230;157;81;248;2;0; 0;48;104;87;96;0;0;0;0; 255;255;255;255;255;0;0;0;1;
   11;0;235;254;111;45;177;193;63;208;
   10;16;194;221;228;67;168;73;48;165;117;122;126;217;195;164;23;251;
   1;7;0;0;13; 0;1;1; 1;1;16; 12;0; 255;3;1;2;3;
   0;0;0;22; 20;32;0;4;144;145;120;61; 0;33;0;5;1;2;3;4;5;4;9;8;7;6; 0].
Proof. vm_compute. reflexivity. Qed.

Example C09_ex_roundtrip : mikey_unmarshal (mikey_marshal ex_msg) = Ok ex_msg.
Proof. vm_compute. reflexivity. Qed.

(* one byte of 0x00 padding (or any single trailing byte) is accepted; two bytes not starting with 0 are not *)
Example C09_ex_padding : mikey_unmarshal (mikey_marshal ex_msg ++ [0]) = Ok ex_msg.
Proof. vm_compute. reflexivity. Qed.
Example C09_ex_trailing : mikey_unmarshal (mikey_marshal ex_msg ++ [1; 0]) = Err.
Proof. vm_compute. reflexivity. Qed.
(* observation (not a violation of C09): the rule in Message.Unmarshal is `len(buf)-n > 1 && buf[n] != 0`, so a
   single trailing byte of ANY value and any number of trailing bytes after a 0x00 are accepted as well *)
Example C09_ex_trailing_lax :
  mikey_unmarshal (mikey_marshal ex_msg ++ [7]) = Ok ex_msg /\
  mikey_unmarshal (mikey_marshal ex_msg ++ [0; 9; 9; 9]) = Ok ex_msg.
Proof. vm_compute. split; reflexivity. Qed.

(* truncation: every proper prefix of the marshalled example is rejected with an error (never a panic) *)
Example C09_ex_truncated :
  forallb (fun k => match mikey_unmarshal (ntake k (mikey_marshal ex_msg)) with Err => true | _ => false end)
          (map N.of_nat (seq 0 (length (mikey_marshal ex_msg)))) = true.
Proof. vm_compute. reflexivity. Qed.

(* an unknown payload type, a RAND shorter than 16 bytes, a KEMAC whose length field exceeds the buffer *)
Example C09_ex_errors :
  mikey_unmarshal [1;0;7;0;0;0;0;0;0;0; 0;0] = Err /\
  mikey_unmarshal [1;0;11;0;0;0;0;0;0;0; 0;15;1;2;3;4;5;6;7;8;9;10;11;12;13;14;15] = Err /\
  mikey_unmarshal [1;0;1;0;0;0;0;0;0;0; 0;0;255;255;0;32;0;0;0] = Err.
Proof. vm_compute. repeat split. Qed.

(* a value outside the well-formed set that does not survive the round trip: key validity 0 with an SPI *)
Example C09_ex_not_wf :
  let m := mkMessage (mkHeader 1 0 false 0 0 0 []) [PKemac 0 [mkKeyData 2 0 [1] [5]] 0] in
  wf_message m = false /\ mikey_unmarshal (mikey_marshal m) <> Ok m.
Proof. vm_compute. split; [reflexivity|discriminate]. Qed.

(* C03, rtpmpeg1video — statements only *)
From GVL Require Import NList Rtp.
From GV_mpeg1video Require Import Model Proofs.
Open Scope N_scope.

(* valid_frame f: bytes < 256, the encoder's slicing loop accepts f (every slice >= 4 bytes, picture
   slices >= 6: the documented precondition of Encode), and f is at most maxFrameSize bytes.
   For every such frame, every payload limit >= 5 (4-byte header + 1), every initial sequence number
   and every clean decoder state (empty slice buffer; the fragment table may hold anything): Encode
   succeeds, every packet but the last says "more", the last returns exactly the frame, clean again. *)
Theorem C03_mpeg1video_roundtrip : forall max seq f d, 5 <= max -> valid_frame f -> clean d ->
  exists ps seq', enc max seq f = EOk ps seq' /\
  exists d', dec_run d ps = (d', repeat DMore (length ps - 1) ++ [DFrame f]) /\ clean d'.
Proof. exact roundtrip. Qed.
Print Assumptions C03_mpeg1video_roundtrip.

(* consecutive frames through one encoder/decoder pair *)
Theorem C03_mpeg1video_roundtrip_seq : forall max frames, 5 <= max -> Forall valid_frame frames ->
  forall seq d, clean d ->
  exists pss, enc_many max seq frames = Some pss /\
  exists d', dec_run d (concat pss) = (d', expect pss frames) /\ clean d'.
Proof. exact roundtrip_seq. Qed.
Print Assumptions C03_mpeg1video_roundtrip_seq.

Definition frame1 : bytes := [0;0;1;0;12;200; 0;0;1;1;5;6;7;8;9;10;11; 0;0;1;2;3].
Example C03_mpeg1video_example :
  match enc 9 65535 frame1 with
  | EOk ps _ => snd (dec_run dinit ps) = [DMore; DMore; DMore; DMore; DMore; DFrame frame1] /\ map pseq ps = [65535; 0; 1; 2; 3; 4]
  | _ => False
  end /\ valid_frame frame1.
Proof.
  split; [vm_compute; split; reflexivity|]. unfold valid_frame. split; [repeat constructor|]. split.
  - eexists. vm_compute. reflexivity.
  - unfold cap, GVG.Consts.mpeg1video_max_frame_size. cbn. lia.
Qed.

(* rtpmpeg1video, decoder side on ARBITRARY packet histories (C08): never panics; the slice buffer and
   every returned frame stay within maxFrameSize, the fragment table within max(maxFrameSize, packet)
   (finding F5 repaired by /repo b3e0ab0); both tables still take empty entries without bound (F6). *)
From GVL Require Import NList Wire Chunks Rtp.
From GVG Require Import Consts.
From GV_mpeg1video Require Import Model PEnc.
From Coq Require Import ZifyBool ZifyNat ZifyN.
Open Scope N_scope.

(* join is exact (and does not panic) when size is the total length *)
Lemma join_aux_exact frags : forall size n acc,
  n = nlen acc -> size = n + nlen (concat frags) -> join_aux frags size n acc = Some (acc ++ concat frags).
Proof.
  induction frags as [|p t IH]; intros size n acc Hn Hs; cbn [join_aux concat] in *.
  - cbn [nlen] in Hs. replace (size - n) with 0 by lia. cbn [nrep]. reflexivity.
  - rewrite nlen_app in Hs. destruct (N.ltb_spec size n); [lia|].
    rewrite ntake_all by lia. rewrite IH; [now rewrite <- app_assoc| rewrite nlen_app; lia | lia].
Qed.
Lemma join_exact frags : join frags (nlen (concat frags)) = Some (concat frags).
Proof. unfold join. now rewrite join_aux_exact with (acc := []). Qed.

(* sizes are the lengths of what the tables hold; the slice buffer never exceeds maxFrameSize *)
Definition Inv (d : dstate) : Prop :=
  dfsize d = nlen (concat (dfrags d)) /\ dssize d = nlen (concat (dslices d)) /\ dssize d <= cap.

Lemma inv_init : Inv dinit.
Proof. unfold Inv, dinit; cbn. unfold cap, mpeg1video_max_frame_size. lia. Qed.

Lemma inv_reset_frags d : Inv d -> Inv (reset_frags d).
Proof. intros (H1 & H2 & H3). unfold Inv, reset_frags; cbn. tauto. Qed.

Lemma nsub_suffix {A} (l : list A) i : i <= nlen l -> nsub l i (nlen l) = Some (ndrop i l).
Proof.
  intros H. unfold nsub. destruct (N.leb_spec i (nlen l)); [|lia]. rewrite N.leb_refl. cbn [andb].
  f_equal. apply ntake_all. rewrite nlen_ndrop. lia.
Qed.

(* decode_slice: never panics, keeps the invariant, leaves the slice buffer alone, and keeps the
   fragment table within max(maxFrameSize, P) when the packet carries at most P bytes *)
Lemma decode_slice_inv P d p : Inv d ->
  let '(d1, r) := decode_slice d p in
  Inv d1 /\ r <> SlPanic /\ dslices d1 = dslices d /\ dssize d1 = dssize d /\
  (dfsize d <= N.max cap P -> nlen (ppayload p) <= P -> dfsize d1 <= N.max cap P).
Proof.
  intros HI. pose proof HI as (H1 & H2 & H3). unfold decode_slice.
  assert (R : Inv (reset_frags d) /\ SlErr <> SlPanic /\ dslices (reset_frags d) = dslices d /\ dssize (reset_frags d) = dssize d /\
              (dfsize d <= N.max cap P -> nlen (ppayload p) <= P -> dfsize (reset_frags d) <= N.max cap P)).
  { split; [now apply inv_reset_frags|]. split; [discriminate|]. split; [reflexivity|]. split; [reflexivity|]. cbn [reset_frags dfsize]. lia. }
  assert (K : Inv d /\ SlErr <> SlPanic /\ dslices d = dslices d /\ dssize d = dssize d /\
              (dfsize d <= N.max cap P -> nlen (ppayload p) <= P -> dfsize d <= N.max cap P)).
  { split; [exact HI|]. split; [discriminate|]. split; [reflexivity|]. split; [reflexivity|]. tauto. }
  destruct (N.ltb_spec (nlen (ppayload p)) 4) as [Hl|Hl]; [exact R|].
  destruct (nnth_lt (ppayload p) 0) as [p0 ->]; [lia|].
  destruct (nnth_lt (ppayload p) 2) as [p2 ->]; [lia|].
  rewrite nsub_suffix by lia. set (body := ndrop 4 (ppayload p)).
  assert (Hbody : nlen body = nlen (ppayload p) - 4) by (unfold body; apply nlen_ndrop).
  destruct (negb (p0 / 8 =? 0)); [exact R|]. destruct (negb ((p0 / 4) mod 2 =? 0)); [exact R|].
  destruct (negb (p2 / 128 =? 0)); [exact R|]. destruct (negb ((p2 / 64) mod 2 =? 0)); [exact R|].
  destruct ((p2 / 16) mod 2 =? 1); destruct ((p2 / 8) mod 2 =? 1); cbn [andb].
  - split; [exact HI|]. split; [discriminate|]. split; [reflexivity|]. split; [reflexivity|]. tauto.
  - split; [unfold Inv; cbn; rewrite app_nil_r; tauto|]. split; [discriminate|]. split; [reflexivity|]. split; [reflexivity|].
    cbn [dfsize]. lia.
  - destruct (dfsize d =? 0); [exact K|].
    destruct (negb (pseq p =? dfnext d)); [exact R|].
    destruct (N.ltb_spec cap (dfsize d + nlen body)); [exact R|].
    replace (dfsize d + nlen body) with (nlen (concat (dfrags d ++ [body]))) by (rewrite concat_snoc, nlen_app; lia).
    rewrite join_exact. split; [unfold Inv; cbn; tauto|]. split; [discriminate|]. split; [reflexivity|]. split; [reflexivity|].
    cbn [dfsize]. lia.
  - destruct (dfsize d =? 0); [exact K|].
    destruct (negb (pseq p =? dfnext d)); [exact R|].
    destruct (N.ltb_spec cap (dfsize d + nlen body)); [exact R|].
    split; [unfold Inv; cbn; rewrite concat_snoc, nlen_app; splits; [lia|assumption|assumption]|].
    split; [discriminate|]. split; [reflexivity|]. split; [reflexivity|]. cbn [dfsize]. lia.
Qed.

Lemma dec_inv P d p : Inv d ->
  Inv (fst (dec d p)) /\ snd (dec d p) <> DPanic /\ (forall f, snd (dec d p) = DFrame f -> nlen f <= cap) /\
  (dfsize d <= N.max cap P -> nlen (ppayload p) <= P -> dfsize (fst (dec d p)) <= N.max cap P).
Proof.
  intros HI. unfold dec. pose proof (decode_slice_inv P d p HI) as Hs.
  destruct (decode_slice d p) as [d1 r]. destruct Hs as (HI1 & Hnp & Hsl & Hss & Hfb).
  destruct r as [s| | |]; cbn [fst snd]; try (split; [assumption|split; [discriminate|split; [discriminate|assumption]]]); [|contradiction].
  pose proof HI1 as (H1 & H2 & H3).
  destruct (N.ltb_spec cap (dssize d1 + nlen s)) as [Hov|Hfit]; cbn [fst snd].
  { split; [unfold Inv; cbn; splits; [assumption|reflexivity|unfold cap, mpeg1video_max_frame_size; lia]|]. split; [discriminate|]. split; [discriminate|exact Hfb]. }
  destruct (pmarker p); cbn [negb fst snd].
  - cbn [dslices dssize].
    replace (dssize d1 + nlen s) with (nlen (concat (dslices d1 ++ [s]))) by (rewrite concat_snoc, nlen_app; lia).
    rewrite join_exact.
    assert (HI3 : Inv (mkD (dfrags d1) (dfsize d1) (dfnext d1) [] 0)).
    { unfold Inv; cbn. splits; [assumption|reflexivity|unfold cap, mpeg1video_max_frame_size; lia]. }
    destruct (validate _ _); cbn [fst snd dfsize]; (split; [exact HI3|]); (split; [discriminate|]); (split; [|exact Hfb]); [|discriminate].
    intros f Hf. injection Hf as <-. rewrite concat_snoc, nlen_app. lia.
  - split; [unfold Inv; cbn; rewrite concat_snoc, nlen_app; splits; [assumption|lia|lia]|]. split; [discriminate|]. split; [discriminate|exact Hfb].
Qed.

Lemma dec_run_inv ps : forall d, Inv d ->
  Inv (fst (dec_run d ps)) /\ ~ In DPanic (snd (dec_run d ps)) /\
  forall f, In (DFrame f) (snd (dec_run d ps)) -> nlen f <= cap.
Proof.
  induction ps as [|p t IH]; intros d HI; cbn [dec_run]; [cbn; tauto|].
  destruct (dec_inv 0 d p HI) as (HI' & Hnp & Hfr & _). destruct (dec d p) as [d' r] eqn:E. cbn [fst snd] in *.
  destruct (IH d' HI') as (HI'' & Hnp' & Hfr'). destruct (dec_run d' t) as [d'' rs]. cbn [fst snd] in *.
  split; [assumption|]. split.
  - intros [H|H]; [congruence|contradiction].
  - intros f [H|H]; [now apply Hfr|now apply Hfr'].
Qed.

(* C08: totality; every returned frame <= maxFrameSize; the slice buffer holds <= maxFrameSize bytes *)
Theorem total hist : ~ In DPanic (snd (dec_run dinit hist)).
Proof. apply (dec_run_inv hist dinit inv_init). Qed.

Theorem output_bounded hist f : In (DFrame f) (snd (dec_run dinit hist)) -> nlen f <= cap.
Proof. apply (dec_run_inv hist dinit inv_init). Qed.

Theorem slicebuffer_bounded hist : nlen (concat (dslices (fst (dec_run dinit hist)))) <= cap.
Proof. destruct (dec_run_inv hist dinit inv_init) as ((_ & H2 & H3) & _). lia. Qed.

(* C08, bytes (finding F5 repaired): for every history of packets with at most P payload bytes the
   decoder retains at most maxFrameSize (slice buffer) + max(maxFrameSize, P) (fragment table) bytes *)
Theorem bounded P hist : Forall (fun p => nlen (ppayload p) <= P) hist ->
  fst (retained (fst (dec_run dinit hist))) <= cap + N.max cap P.
Proof.
  assert (G : forall hist d, Inv d -> dfsize d <= N.max cap P -> Forall (fun p => nlen (ppayload p) <= P) hist ->
    Inv (fst (dec_run d hist)) /\ dfsize (fst (dec_run d hist)) <= N.max cap P).
  { clear hist. induction hist as [|p t IH]; intros d HI Hb HP; cbn [dec_run]; [cbn; tauto|].
    inversion HP as [|? ? Hp Ht]; subst.
    destruct (dec_inv P d p HI) as (HI' & _ & _ & Hb'). destruct (dec d p) as [d' r]. cbn [fst snd] in *.
    specialize (IH d' HI' (Hb' Hb Hp) Ht). destruct (dec_run d' t) as [d'' rs]. exact IH. }
  intros HP. destruct (G hist dinit inv_init ltac:(cbn; lia) HP) as [(H1 & H2 & H3) Hb].
  unfold retained; cbn [fst]. lia.
Qed.

(* ---------- F6: empty entries are appended without bound ---------- *)
Definition start1 : packet := mkPkt 0 0 false [0; 0; 16; 0; 9].           (* B=1, one body byte *)
Fixpoint mids (seq : N) (k : nat) : list packet :=                          (* empty middle fragments *)
  match k with O => [] | S k' => mkPkt seq 0 false [0; 0; 0; 0] :: mids (seq_next seq) k' end.

Lemma mids_small seq k : Forall (fun p => nlen (ppayload p) <= 5) (mids seq k).
Proof. revert seq; induction k as [|k IH]; intros seq; cbn [mids]; constructor; [cbn; lia|apply IH]. Qed.

Lemma mids_grow k : forall d, 0 < dfsize d -> dfsize d <= cap ->
  let d' := fst (dec_run d (mids (dfnext d) k)) in
  nlen (dfrags d') = nlen (dfrags d) + N.of_nat k /\ dfsize d' = dfsize d /\
  nlen (concat (dfrags d')) = nlen (concat (dfrags d)) /\ dslices d' = dslices d.
Proof.
  induction k as [|k IH]; intros d Hs Hc; cbn [mids dec_run]; [cbn; splits; try lia; reflexivity|].
  assert (E : dec d (mkPkt (dfnext d) 0 false [0; 0; 0; 0]) =
    (mkD (dfrags d ++ [[]]) (dfsize d + 0) (seq_next (dfnext d)) (dslices d) (dssize d), DMore)).
  { unfold dec, decode_slice. cbn [ppayload pseq nlen].
    replace (nsub [0; 0; 0; 0] 4 (N.succ (N.succ (N.succ (N.succ 0))))) with (Some (@nil N)) by reflexivity.
    cbn. destruct (N.eqb_spec (dfsize d) 0); [lia|]. rewrite N.eqb_refl. cbn.
    destruct (N.ltb_spec cap (dfsize d + 0)); [lia|]. reflexivity. }
  rewrite E. set (d2 := mkD _ _ _ _ _).
  specialize (IH d2). replace (seq_next (dfnext d)) with (dfnext d2) by reflexivity.
  destruct (dec_run d2 (mids (dfnext d2) k)) as [d3 rs]. cbn [fst] in *.
  destruct IH as (I1 & I2 & I3 & I4); [unfold d2; cbn; lia|unfold d2; cbn; lia|]. unfold d2 in *; cbn [dfrags dfsize dslices] in *.
  rewrite nlen_app in I1. rewrite concat_snoc, app_nil_r in I3. cbn [nlen] in I1.
  rewrite Nat2N.inj_succ. splits; try lia; assumption.
Qed.

Definition after_start1 : dstate := mkD [[9]] 1 1 [] 0.
Lemma dec_start1 : dec dinit start1 = (after_start1, DMore).
Proof. vm_compute. reflexivity. Qed.

(* (a) empty middle fragments: every packet has a 4-byte payload (header only) *)
Theorem slices_bounded_refuted_fragments : forall B, exists hist,
  Forall (fun p => nlen (ppayload p) <= 5) hist /\
  B < snd (retained (fst (dec_run dinit hist))) /\ fst (retained (fst (dec_run dinit hist))) = 1.
Proof.
  intros B. exists (start1 :: mids 1 (N.to_nat B)). split.
  - constructor; [cbn; lia|]. apply mids_small.
  - cbn [dec_run]. rewrite dec_start1.
    pose proof (mids_grow (N.to_nat B) after_start1 ltac:(cbn; lia) ltac:(cbn; unfold cap, mpeg1video_max_frame_size; lia)) as H.
    cbn [dfnext after_start1] in H.
    destruct (dec_run after_start1 (mids 1 (N.to_nat B))) as [d rs]. cbn [fst] in *.
    destruct H as (H1 & _ & H3 & H4). unfold retained; cbn [fst snd]. rewrite H1, H3, H4, N2Nat.id.
    cbn [after_start1 dfrags dslices concat nlen app]. lia.
Qed.

(* (b) complete but empty slices (B=E=1, header only, no marker) fill the slice buffer *)
Definition empty_slice (seq : N) : packet := mkPkt seq 0 false [0; 0; 24; 0].
Lemma dec_empty_slice d seq : dec d (empty_slice seq) =
  (mkD (dfrags d) (dfsize d) (dfnext d) (dslices d ++ [[]]) (dssize d + 0), DMore) \/ cap < dssize d.
Proof.
  unfold dec. replace (decode_slice d (empty_slice seq)) with (d, SlSlice []) by (unfold decode_slice; cbn; reflexivity).
  cbn [nlen pmarker empty_slice negb]. destruct (N.ltb_spec cap (dssize d + 0)); [right; lia|left; reflexivity].
Qed.

Theorem slices_bounded_refuted_empty_slices : forall B, exists hist,
  Forall (fun p => nlen (ppayload p) = 4) hist /\
  B < snd (retained (fst (dec_run dinit hist))) /\ fst (retained (fst (dec_run dinit hist))) = 0.
Proof.
  intros B. exists (repeat (empty_slice 0) (S (N.to_nat B))). split; [apply Forall_forall; intros p Hp; apply repeat_spec in Hp; now subst|].
  assert (G : forall k d, dssize d = 0 -> let d' := fst (dec_run d (repeat (empty_slice 0) k)) in
    nlen (dslices d') = nlen (dslices d) + N.of_nat k /\ nlen (concat (dslices d')) = nlen (concat (dslices d)) /\
    dfrags d' = dfrags d).
  { induction k as [|k IH]; intros d Hz; cbn [repeat dec_run]; [cbn; splits; try lia; reflexivity|].
    destruct (dec_empty_slice d 0) as [->|Hbad]; [|unfold cap, mpeg1video_max_frame_size in Hbad; lia].
    set (d2 := mkD _ _ _ _ _). specialize (IH d2). destruct (dec_run d2 (repeat (empty_slice 0) k)) as [d3 rs].
    cbn [fst] in *. destruct IH as (I1 & I2 & I3); [unfold d2; cbn; lia|]. unfold d2 in *; cbn [dslices dfrags] in *.
    rewrite nlen_app in I1. rewrite concat_snoc, app_nil_r in I2. cbn [nlen] in I1. splits; [lia|assumption|assumption]. }
  specialize (G (S (N.to_nat B)) dinit eq_refl). destruct (dec_run dinit _) as [d rs]. cbn [fst] in *.
  destruct G as (G1 & G2 & G3). unfold retained; cbn [fst snd]. rewrite G1, G2, G3. rewrite Nat2N.inj_succ, N2Nat.id. cbn [dinit dslices dfrags concat nlen]. lia.
Qed.

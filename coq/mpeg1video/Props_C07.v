(* C07, rtpmpeg1video — statements only *)
From GVL Require Import NList Rtp.
From GV_mpeg1video Require Import Model Proofs.
Open Scope N_scope.

(* After ANY packet history (loss, duplication, reordering, foreign packets: [hist] is arbitrary), one
   intact valid frame f1 is enough: the next intact frame f2 is returned exactly at its last packet,
   "more" before, and the decoder is clean afterwards.  Sequence numbers s1, s2 are arbitrary, so whole
   frames may be missing between the two.  (Since fix b3e0ab0 a fragmented slice above maxFrameSize is
   dropped, so f1 must respect the size limit like any valid frame.) *)
Theorem C07_mpeg1video_resync : forall max hist f1 f2 s1 s2,
  5 <= max -> valid_frame f1 -> valid_frame f2 ->
  exists ps1 q1 ps2 q2, enc max s1 f1 = EOk ps1 q1 /\ enc max s2 f2 = EOk ps2 q2 /\
  let d0 := fst (dec_run dinit hist) in
  let d1 := fst (dec_run d0 ps1) in
  exists d2, dec_run d1 ps2 = (d2, repeat DMore (length ps2 - 1) ++ [DFrame f2]) /\ clean d2.
Proof. exact resync. Qed.
Print Assumptions C07_mpeg1video_resync.

Theorem C07_mpeg1video_no_panic : forall hist, ~ In DPanic (snd (dec_run dinit hist)).
Proof. exact total. Qed.
Print Assumptions C07_mpeg1video_no_panic.

Definition fa : bytes := [0;0;1;1;5;6;7;8;9;10;11].
Definition fb : bytes := [0;0;1;2;3;4].
Example C07_mpeg1video_example : (* first packet of frame a lost; an intact b; then a again *)
  match enc 9 10 fa, enc 9 20 fb, enc 9 30 fa with
  | EOk pa _, EOk pb _, EOk pa' _ =>
      snd (dec_run dinit (tl pa ++ pb ++ pa')) = [DErr; DErr; DMore; DFrame fb; DMore; DMore; DFrame fa]
  | _, _, _ => False
  end.
Proof. vm_compute. reflexivity. Qed.

(* ---- the translated kernels (tools/go2coq, regenerated from the Go source on every run) ----
   The header bit fields of rtpmpeg1video/decoder.go decodeSlice - mbz = p0 >> 3, t = (p0 >> 2) & 1, an = p2 >> 7,
   n = (p2 >> 6) & 1, b = (p2 >> 4) & 1, e = (p2 >> 3) & 1 - with the tests != 0 on them, the conditions of the tagless
   switch (b == 1 && e == 1, b == 1, e == 1), the sequence-number expectation pkt.SequenceNumber + 1, its continuity
   test pkt.SequenceNumber != d.fragmentNextSeqNum and the no-start test d.fragmentsSize == 0 (two copies each: end and
   middle fragment), d.fragmentNextSeqNum++ - ARE the tests of Model.decode_slice: p0 / 8, (p0 / 4) mod 2, p2 / 128,
   (p2 / 64) mod 2, (p2 / 16) mod 2 =? 1, (p2 / 8) mod 2 =? 1, seq_next, negb (pseq =? dfnext), dfsize =? 0. *)
From Coq Require Import ZArith.
From GVG Require Import Kern.
From GV_mpeg1video Require Import BridgeLib Bridge.
Open Scope Z_scope.

Theorem C07_mpeg1video_kernels_are_the_code : forall (p0 p2 seq next fs : N),
  byte p0 -> byte p2 -> u16 seq -> u16 next ->
  k_mpeg1video_dec_mbz_bad (k_mpeg1video_dec_mbz (Z.of_N p0)) = negb (p0 / 8 =? 0)%N /\
  k_mpeg1video_dec_t_bad (k_mpeg1video_dec_t (Z.of_N p0)) = negb ((p0 / 4) mod 2 =? 0)%N /\
  k_mpeg1video_dec_an_bad (k_mpeg1video_dec_an (Z.of_N p2)) = negb (p2 / 128 =? 0)%N /\
  k_mpeg1video_dec_n_bad (k_mpeg1video_dec_n (Z.of_N p2)) = negb ((p2 / 64) mod 2 =? 0)%N /\
  k_mpeg1video_dec_whole (k_mpeg1video_dec_b (Z.of_N p2)) (k_mpeg1video_dec_e (Z.of_N p2))
    = (((p2 / 16) mod 2 =? 1)%N && ((p2 / 8) mod 2 =? 1)%N) /\
  k_mpeg1video_dec_first (k_mpeg1video_dec_b (Z.of_N p2)) = ((p2 / 16) mod 2 =? 1)%N /\
  k_mpeg1video_dec_lastf (k_mpeg1video_dec_e (Z.of_N p2)) = ((p2 / 8) mod 2 =? 1)%N /\
  k_mpeg1video_dec_nextseq (Z.of_N seq) = Z.of_N (seq_next seq) /\
  k_mpeg1video_dec_incseq (Z.of_N next) = Z.of_N (seq_next next) /\
  k_mpeg1video_dec_gap1 (Z.of_N seq) (Z.of_N next) = negb (seq =? next)%N /\
  k_mpeg1video_dec_gap2 (Z.of_N seq) (Z.of_N next) = negb (seq =? next)%N /\
  k_mpeg1video_dec_nostart1 (Z.of_N fs) = (fs =? 0)%N /\
  k_mpeg1video_dec_nostart2 (Z.of_N fs) = (fs =? 0)%N.
Proof. exact resync_kernels_are_the_code. Qed.
Print Assumptions C07_mpeg1video_kernels_are_the_code.

(* byte 2 = 0x18: B and E set -> whole slice; 0x10: first fragment; 0x08: last fragment; 0x00: middle; 0x80 / 0x40: AN / N
   rejected; byte 0 = 0x08: MBZ violated, 0x04: T rejected, 0x03: accepted; 65535 + 1 = 0; 7 after 6 is no gap, 8 is *)
Example C07_mpeg1video_example_kernels :
  k_mpeg1video_dec_whole (k_mpeg1video_dec_b 24) (k_mpeg1video_dec_e 24) = true /\
  k_mpeg1video_dec_whole (k_mpeg1video_dec_b 16) (k_mpeg1video_dec_e 16) = false /\
  k_mpeg1video_dec_first (k_mpeg1video_dec_b 16) = true /\ k_mpeg1video_dec_lastf (k_mpeg1video_dec_e 16) = false /\
  k_mpeg1video_dec_lastf (k_mpeg1video_dec_e 8) = true /\ k_mpeg1video_dec_first (k_mpeg1video_dec_b 8) = false /\
  k_mpeg1video_dec_an_bad (k_mpeg1video_dec_an 128) = true /\ k_mpeg1video_dec_an_bad (k_mpeg1video_dec_an 127) = false /\
  k_mpeg1video_dec_n_bad (k_mpeg1video_dec_n 64) = true /\ k_mpeg1video_dec_n_bad (k_mpeg1video_dec_n 63) = false /\
  k_mpeg1video_dec_mbz_bad (k_mpeg1video_dec_mbz 8) = true /\ k_mpeg1video_dec_mbz_bad (k_mpeg1video_dec_mbz 7) = false /\
  k_mpeg1video_dec_t_bad (k_mpeg1video_dec_t 4) = true /\ k_mpeg1video_dec_t_bad (k_mpeg1video_dec_t 3) = false /\
  k_mpeg1video_dec_nextseq 65535 = 0 /\ k_mpeg1video_dec_incseq 65535 = 0 /\
  k_mpeg1video_dec_gap1 7 7 = false /\ k_mpeg1video_dec_gap1 8 7 = true /\ k_mpeg1video_dec_gap2 8 7 = true /\
  k_mpeg1video_dec_nostart1 0 = true /\ k_mpeg1video_dec_nostart2 1 = false.
Proof. vm_compute. repeat split. Qed.

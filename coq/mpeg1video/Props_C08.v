(* C08, rtpmpeg1video — statements only *)
From GVL Require Import NList Rtp.
From GV_mpeg1video Require Import Model Proofs.
Open Scope N_scope.

(* any packet history: a frame, "more" or an error - never a panic *)
Theorem C08_mpeg1video_total : forall hist, ~ In DPanic (snd (dec_run dinit hist)).
Proof. exact total. Qed.
Print Assumptions C08_mpeg1video_total.

(* no returned frame exceeds maxFrameSize (1 MiB).  Returned frames are fresh arrays (make in
   joinFragments); the decoder holds no reference to them, so later calls cannot alter them. *)
Theorem C08_mpeg1video_output_bounded : forall hist f,
  In (DFrame f) (snd (dec_run dinit hist)) -> nlen f <= cap.
Proof. exact output_bounded. Qed.
Print Assumptions C08_mpeg1video_output_bounded.

(* BYTES are bounded, FULL (finding F5 repaired by /repo b3e0ab0: fragmentsSize is checked against
   maxFrameSize): for every history of packets with at most P payload bytes the decoder retains at most
   maxFrameSize (slice buffer) + max(maxFrameSize, P) (fragment table) bytes.  The refutation of the
   old code is kept in coq/mpeg1video/history/ (not built). *)
Theorem C08_mpeg1video_bounded : forall P hist, Forall (fun p => nlen (ppayload p) <= P) hist ->
  fst (retained (fst (dec_run dinit hist))) <= cap + N.max cap P.
Proof. exact bounded. Qed.
Print Assumptions C08_mpeg1video_bounded.

(* FINDING F6: slice headers have no bound even when (almost) no bytes are retained:
   (a) empty middle fragments after a 1-byte start fragment, (b) empty B=E=1 slices without marker *)
Theorem C08_mpeg1video_slices_bounded_refuted_fragments : forall B, exists hist,
  Forall (fun p => nlen (ppayload p) <= 5) hist /\
  B < snd (retained (fst (dec_run dinit hist))) /\ fst (retained (fst (dec_run dinit hist))) = 1.
Proof. exact slices_bounded_refuted_fragments. Qed.
Print Assumptions C08_mpeg1video_slices_bounded_refuted_fragments.

Theorem C08_mpeg1video_slices_bounded_refuted_empty_slices : forall B, exists hist,
  Forall (fun p => nlen (ppayload p) = 4) hist /\
  B < snd (retained (fst (dec_run dinit hist))) /\ fst (retained (fst (dec_run dinit hist))) = 0.
Proof. exact slices_bounded_refuted_empty_slices. Qed.
Print Assumptions C08_mpeg1video_slices_bounded_refuted_empty_slices.

(* what holds of the entry counts: nothing beyond the byte bounds (the slice buffer alone never holds more
   than maxFrameSize bytes).  MISSING: a bound on the entry count of both tables (F6). *)
Theorem C08_mpeg1video_slices_partial : forall hist,
  nlen (concat (dslices (fst (dec_run dinit hist)))) <= cap.
Proof. exact slicebuffer_bounded. Qed.
Print Assumptions C08_mpeg1video_slices_partial.

Example C08_mpeg1video_example :
  snd (dec_run dinit [mkPkt 1 0 true [0;0;16;0;1;2]; mkPkt 2 0 true [0;0;8;0;3;4]; mkPkt 9 0 true [0;0;24;0;0;0;1]])
  = [DMore; DFrame [1;2;3;4]; DErr].
Proof. vm_compute. reflexivity. Qed.

(* ---- the translated kernels (tools/go2coq, regenerated from the Go source on every run) ----
   The length test and caps of rtpmpeg1video/decoder.go - len(pkt.Payload) < 4, the accumulation d.fragmentsSize +=
   len(pkt.Payload[4:]) and its cap > maxFrameSize (two copies: end and middle fragments), the slice-buffer cap
   (d.sliceBufferSize + addSize) > maxFrameSize of Decode and d.sliceBufferSize += addSize - ARE the tests of
   Model.decode_slice / dec: nlen pl <? 4, cap <? dfsize + nlen body, cap <? dssize + nlen s (the constant is
   GVG.Consts' mpeg1video_max_frame_size). *)
From Coq Require Import ZArith.
From GVG Require Import Kern.
From GV_mpeg1video Require Import BridgeLib Bridge.
Open Scope Z_scope.

Theorem C08_mpeg1video_kernels_are_the_code : forall (pl body s : bytes) (fs ss : N),
  Z.of_N (fs + nlen body) < i64max -> Z.of_N (ss + nlen s) < i64max ->
  k_mpeg1video_dec_short (Z.of_N (nlen pl)) = (nlen pl <? 4)%N /\
  k_mpeg1video_dec_acc1 (Z.of_N fs) (Z.of_N (nlen body)) = Z.of_N (fs + nlen body) /\
  k_mpeg1video_dec_cap1 (k_mpeg1video_dec_acc1 (Z.of_N fs) (Z.of_N (nlen body))) (Z.of_N cap) = (cap <? fs + nlen body)%N /\
  k_mpeg1video_dec_acc2 (Z.of_N fs) (Z.of_N (nlen body)) = Z.of_N (fs + nlen body) /\
  k_mpeg1video_dec_cap2 (k_mpeg1video_dec_acc2 (Z.of_N fs) (Z.of_N (nlen body))) (Z.of_N cap) = (cap <? fs + nlen body)%N /\
  k_mpeg1video_dec_slicecap (Z.of_N ss) (Z.of_N (nlen s)) (Z.of_N cap) = (cap <? ss + nlen s)%N /\
  k_mpeg1video_dec_sliceacc (Z.of_N ss) (Z.of_N (nlen s)) = Z.of_N (ss + nlen s).
Proof. exact caps_kernels_are_the_code. Qed.
Print Assumptions C08_mpeg1video_kernels_are_the_code.

(* exactly maxFrameSize bytes are accepted, one more is not (all three caps); a 3-byte payload is too short, 4 is not *)
Example C08_mpeg1video_example_kernels :
  k_mpeg1video_dec_cap1 (k_mpeg1video_dec_acc1 (Z.of_N cap - 10) 10) (Z.of_N cap) = false /\
  k_mpeg1video_dec_cap1 (k_mpeg1video_dec_acc1 (Z.of_N cap - 10) 11) (Z.of_N cap) = true /\
  k_mpeg1video_dec_cap2 (k_mpeg1video_dec_acc2 (Z.of_N cap - 10) 10) (Z.of_N cap) = false /\
  k_mpeg1video_dec_cap2 (k_mpeg1video_dec_acc2 (Z.of_N cap - 10) 11) (Z.of_N cap) = true /\
  k_mpeg1video_dec_slicecap (Z.of_N cap - 10) 10 (Z.of_N cap) = false /\
  k_mpeg1video_dec_slicecap (Z.of_N cap - 10) 11 (Z.of_N cap) = true /\
  k_mpeg1video_dec_short 3 = true /\ k_mpeg1video_dec_short 4 = false /\ Z.of_N cap = 1048576.
Proof. vm_compute. repeat split. Qed.

(* C06, rtpmpeg1video — statements only *)
From GVL Require Import NList Rtp.
From GV_mpeg1video Require Import Model Proofs.
Open Scope N_scope.

(* For every frame Encode accepts (scan = SOk: no panic, no "invalid slice"), every limit >= 5 and
   every initial sequence number: at least one packet; every payload is the 4-byte RFC 2250 header
   plus at least one byte and never exceeds the limit; the payload bodies concatenate to the frame;
   packet i carries seq+i mod 2^16; the marker is on the last packet and on no other; the encoder
   continues at seq+count; timestamps are left at 0. *)
Theorem C06_mpeg1video_packets_wellformed : forall max seq frame slices,
  5 <= max -> seq < 65536 -> scan frame frame = SOk slices ->
  exists ps, enc max seq frame = EOk ps (seq_add seq (nlen ps)) /\ ps <> [] /\
    Forall (fun p => 4 < nlen (ppayload p) /\ nlen (ppayload p) <= max) ps /\
    concat (map (fun p => ndrop 4 (ppayload p)) ps) = frame /\
    (forall i p, nnth i ps = Some p -> pseq p = seq_add seq i /\ pmarker p = (i + 1 =? nlen ps)) /\
    Forall (fun p => pts p = 0) ps.
Proof. exact enc_wellformed. Qed.
Print Assumptions C06_mpeg1video_packets_wellformed.

Theorem C06_mpeg1video_gapless_across_calls : forall max frames, 5 <= max -> Forall encodable frames ->
  forall seq, seq < 65536 ->
  exists pss, enc_many max seq frames = Some pss /\
    forall i p, nnth i (concat pss) = Some p -> pseq p = seq_add seq i.
Proof. exact enc_many_gapless. Qed.
Print Assumptions C06_mpeg1video_gapless_across_calls.

Example C06_mpeg1video_example :
  option_map (fun pss => (map pseq (concat pss), map pmarker (concat pss)))
    (enc_many 8 65534 [[0;0;1;1;9;9;9]; [0;0;1;2]]) = Some ([65534; 65535; 0], [false; true; true]).
Proof. vm_compute. reflexivity. Qed.

(* ---- the translated kernels (tools/go2coq, regenerated from the Go source on every run) ----
   The integer formulas of rtpmpeg1video/encoder.go - lenAggregated (n := 4 + len(slice); n += len(fr)), the batching
   test lenAggregated(batch, slice) <= PayloadMaxSize, the writeBatch decision len(slices) != 1 ||
   lenAggregated(slices, nil) < PayloadMaxSize, the fragment budget PayloadMaxSize - 4, the fragment count
   packetCount(avail, len(slice)), the size 4+le of a fragment packet, the last-fragment test, the header bytes
   byte(tr >> 8), byte(tr), bos<<5 | start<<4 | end<<3 | frameType (both copies), temporalReference and frameType,
   the picture-header length test len(slice) < 6, the start codes 0 and 0xB8, the two e.sequenceNumber++ - ARE the
   formulas of Model.batching / batch_payloads / header / upd / picture_check / mk_pkts:
   4 + nlen s + total batch <=? max, 4 + nlen s <? max, chunks (max - 4), htr / 256, htr mod 256,
   bos*32 + start*16 + stop*8 + hft, s4*4 + s5/64, (s5/8) mod 8, seq_next. *)
From Coq Require Import ZArith.
From GVL Require Import Chunks.
From GVG Require Import Kern.
From GV_mpeg1video Require Import BridgeLib Bridge.
Open Scope Z_scope.

Theorem C06_mpeg1video_kernels_are_the_code :
  forall (max : N) (batch : list bytes) (s c : bytes) (h : hdr) (bos st sp ft tr s4 s5 i pc sq : N),
  (5 <= max)%N -> Z.of_N max < i64max -> Z.of_N (4 + nlen s + Model.total batch) < i64max -> Z.of_N (nlen c) + 4 < i64max ->
  (1 <= pc)%N -> Z.of_N pc < i64max -> bit bos -> bit st -> bit sp -> (ft < 8)%N -> u16 tr -> byte s4 -> byte s5 ->
  la_code batch (Some s) = Z.of_N (4 + nlen s + Model.total batch) /\
  k_mpeg1video_agg_fits (la_code batch (Some s)) (Z.of_N max) = (4 + nlen s + Model.total batch <=? max)%N /\
  k_mpeg1video_aggregate (Z.of_N (nlen batch)) (la_code batch None) (Z.of_N max)
    = (negb (nlen batch =? 1)%N || (4 + Model.total batch <? max)%N) /\
  k_mpeg1video_aggregate (Z.of_N (nlen [s])) (la_code [s] None) (Z.of_N max) = (4 + nlen s <? max)%N /\
  k_mpeg1video_frag_avail (Z.of_N max) = Z.of_N (max - 4) /\
  k_mpeg1video_packetCount (k_mpeg1video_frag_avail (Z.of_N max)) (k_mpeg1video_frag_le (Z.of_N (nlen s)))
    = Some (Z.of_N (nlen (chunks (max - 4) s))) /\
  k_mpeg1video_frag_size (Z.of_N (nlen c)) = Z.of_N (nlen (header h bos st sp ++ c)) /\
  k_mpeg1video_frag_last (Z.of_N i) (Z.of_N pc) = (i + 1 =? pc)%N /\
  k_mpeg1video_frag_h0 (Z.of_N tr) = Z.of_N (tr / 256) /\ k_mpeg1video_frag_h1 (Z.of_N tr) = Z.of_N (tr mod 256) /\
  k_mpeg1video_agg_h0 (Z.of_N tr) = Z.of_N (tr / 256) /\ k_mpeg1video_agg_h1 (Z.of_N tr) = Z.of_N (tr mod 256) /\
  k_mpeg1video_frag_h2 (Z.of_N bos) (Z.of_N st) (Z.of_N sp) (Z.of_N ft) = Z.of_N (bos * 32 + st * 16 + sp * 8 + ft) /\
  k_mpeg1video_agg_h2 (Z.of_N bos) (Z.of_N ft) = Z.of_N (bos * 32 + 1 * 16 + 1 * 8 + ft) /\
  k_mpeg1video_tr (Z.of_N s4) (Z.of_N s5) = Z.of_N (s4 * 4 + s5 / 64) /\
  k_mpeg1video_ft (Z.of_N s5) = Z.of_N ((s5 / 8) mod 8) /\
  k_mpeg1video_pic_short (Z.of_N (nlen s)) = (nlen s <? 6)%N /\
  k_mpeg1video_pic_code = Z.of_N 0 /\ k_mpeg1video_gop_code = Z.of_N 184 /\
  k_mpeg1video_seq_frag (Z.of_N sq) = Z.of_N (seq_next sq) /\ k_mpeg1video_seq_agg (Z.of_N sq) = Z.of_N (seq_next sq).
Proof. exact enc_kernels_are_the_code. Qed.
Print Assumptions C06_mpeg1video_kernels_are_the_code.

(* the translated kernels compute, on the boundaries: a 1450-byte limit leaves 1446 bytes per fragment; an aggregate of
   exactly 1450 bytes fits, 1451 does not; a single slice of 1446 bytes (4+1446 = 1450) is fragmented, 1445 is sent
   alone, two slices are always aggregated; 2892 bytes need 2 fragments, 2893 need 3; a fragment packet is 4+le bytes;
   lenAggregated([3 bytes], 2 bytes) = 4 + 2 + 3; temporalReference 0x3ff -> bytes 3, 255; B+E+type 1 = 0x19; 65535++ = 0 *)
Example C06_mpeg1video_example_kernels :
  k_mpeg1video_frag_avail 1450 = 1446 /\ k_mpeg1video_agg_fits 1450 1450 = true /\ k_mpeg1video_agg_fits 1451 1450 = false /\
  k_mpeg1video_aggregate 1 1450 1450 = false /\ k_mpeg1video_aggregate 1 1449 1450 = true /\
  k_mpeg1video_aggregate 2 1460 1450 = true /\
  k_mpeg1video_packetCount (k_mpeg1video_frag_avail 1450) (k_mpeg1video_frag_le 2892) = Some 2 /\
  k_mpeg1video_packetCount (k_mpeg1video_frag_avail 1450) (k_mpeg1video_frag_le 2893) = Some 3 /\
  k_mpeg1video_frag_size 1446 = 1450 /\ la_code [[1; 2; 3]%N] (Some [4; 5]%N) = 9 /\
  k_mpeg1video_frag_h0 1023 = 3 /\ k_mpeg1video_frag_h1 1023 = 255 /\ k_mpeg1video_agg_h2 0 1 = 25 /\
  k_mpeg1video_frag_h2 1 1 0 2 = 50 /\ k_mpeg1video_tr 255 192 = 1023 /\ k_mpeg1video_ft 8 = 1 /\
  k_mpeg1video_pic_short 5 = true /\ k_mpeg1video_pic_short 6 = false /\ k_mpeg1video_seq_frag 65535 = 0 /\
  k_mpeg1video_frag_last 2 3 = true /\ k_mpeg1video_frag_last 1 3 = false.
Proof. vm_compute. repeat split. Qed.

(* C06, rtpmpeg1video — statements only *)
From GVL Require Import NList Rtp.
From GV_mpeg1video Require Import Model Proofs.
Open Scope N_scope.

(* For every frame Encode accepts (scan = SOk: no panic, no "invalid slice"), every limit >= 5 and
   every initial sequence number: at least one packet; every payload is the 4-byte RFC 2250 header
   plus at least one byte and never exceeds the limit; the payload bodies concatenate to the frame;
   packet i carries seq+i mod 2^16; the marker is on the last packet and on no other; the encoder
   continues at seq+count; timestamps are left at 0. *)
Theorem C06_mpeg1video_packets_wellformed : forall max seq frame slices,
  5 <= max -> seq < 65536 -> scan frame frame = SOk slices ->
  exists ps, enc max seq frame = EOk ps (seq_add seq (nlen ps)) /\ ps <> [] /\
    Forall (fun p => 4 < nlen (ppayload p) /\ nlen (ppayload p) <= max) ps /\
    concat (map (fun p => ndrop 4 (ppayload p)) ps) = frame /\
    (forall i p, nnth i ps = Some p -> pseq p = seq_add seq i /\ pmarker p = (i + 1 =? nlen ps)) /\
    Forall (fun p => pts p = 0) ps.
Proof. exact enc_wellformed. Qed.
Print Assumptions C06_mpeg1video_packets_wellformed.

Theorem C06_mpeg1video_gapless_across_calls : forall max frames, 5 <= max -> Forall encodable frames ->
  forall seq, seq < 65536 ->
  exists pss, enc_many max seq frames = Some pss /\
    forall i p, nnth i (concat pss) = Some p -> pseq p = seq_add seq i.
Proof. exact enc_many_gapless. Qed.
Print Assumptions C06_mpeg1video_gapless_across_calls.

Example C06_mpeg1video_example :
  option_map (fun pss => (map pseq (concat pss), map pmarker (concat pss)))
    (enc_many 8 65534 [[0;0;1;1;9;9;9]; [0;0;1;2]]) = Some ([65534; 65535; 0], [false; true; true]).
Proof. vm_compute. reflexivity. Qed.

(* rtpmpeg1video: round trip (C03) and resynchronisation (C07). *)
From GVL Require Import NList Wire Chunks Rtp.
From GVG Require Import Consts.
From GV_mpeg1video Require Import Model PEnc PDec.
From Coq Require Import ZifyBool ZifyNat ZifyN.
Open Scope N_scope.

(* ---------- reading the 4-byte header the encoder wrote ---------- *)
Lemma p2_bits bos st sp ft : bos < 2 -> st < 2 -> sp < 2 -> ft < 8 ->
  let p2 := bos * 32 + st * 16 + sp * 8 + ft in
  p2 / 128 = 0 /\ (p2 / 64) mod 2 = 0 /\ (p2 / 16) mod 2 = st /\ (p2 / 8) mod 2 = sp.
Proof.
  intros Hb Hs Hp Hf.
  assert (Eb : bos = 0 \/ bos = 1) by lia. assert (Es : st = 0 \/ st = 1) by lia. assert (Ep : sp = 0 \/ sp = 1) by lia.
  assert (Ef : ft = 0 \/ ft = 1 \/ ft = 2 \/ ft = 3 \/ ft = 4 \/ ft = 5 \/ ft = 6 \/ ft = 7) by lia.
  destruct Eb as [-> | ->]; destruct Es as [-> | ->]; destruct Ep as [-> | ->];
  destruct Ef as [-> | [-> | [-> | [-> | [-> | [-> | [-> | ->]]]]]]]; vm_compute; repeat split; reflexivity.
Qed.

(* the part of decodeSlice after the header checks *)
Definition ds_core (d : dstate) (seq : N) (body : bytes) (b e : bool) : dstate * sl :=
  if b && e then (d, SlSlice body)
  else if b then (mkD [body] (nlen body) (seq_next seq) (dslices d) (dssize d), SlMore)
  else if e then
    if dfsize d =? 0 then (d, SlErr) else
    if negb (seq =? dfnext d) then (reset_frags d, SlErr) else
    if cap <? dfsize d + nlen body then (reset_frags d, SlErr) else
    match join (dfrags d ++ [body]) (dfsize d + nlen body) with
    | Some s => (mkD [] 0 (dfnext d) (dslices d) (dssize d), SlSlice s)
    | None => (d, SlPanic)
    end
  else
    if dfsize d =? 0 then (d, SlErr) else
    if negb (seq =? dfnext d) then (reset_frags d, SlErr) else
    if cap <? dfsize d + nlen body then (reset_frags d, SlErr) else
    (mkD (dfrags d ++ [body]) (dfsize d + nlen body) (seq_next (dfnext d)) (dslices d) (dssize d), SlMore).

Lemma decode_slice_hdr d seq ts m h bos st sp body :
  hdr_ok h -> bos < 2 -> st < 2 -> sp < 2 ->
  decode_slice d (mkPkt seq ts m (header h bos st sp ++ body)) = ds_core d seq body (st =? 1) (sp =? 1).
Proof.
  intros (Ht & Hb & Hf) Hbos Hst Hsp. unfold decode_slice. cbn [ppayload pseq].
  rewrite nlen_app, header_len. destruct (N.ltb_spec (4 + nlen body) 4); [lia|].
  assert (E0 : nnth 0 (header h bos st sp ++ body) = Some (htr h / 256)) by reflexivity.
  assert (E2 : nnth 2 (header h bos st sp ++ body) = Some (bos * 32 + st * 16 + sp * 8 + hft h)) by reflexivity.
  rewrite E0, E2.
  replace (nsub (header h bos st sp ++ body) 4 (4 + nlen body)) with (Some body).
  2:{ unfold nsub. rewrite nlen_app, header_len. destruct (N.leb_spec 4 (4 + nlen body)); [|lia]. rewrite N.leb_refl. cbn [andb].
      rewrite ndrop4_header. f_equal. symmetry. apply ntake_all. lia. }
  assert (Hp0 : htr h / 256 < 4) by (apply N.div_lt_upper_bound; lia).
  rewrite (N.div_small (htr h / 256) 8) by lia. rewrite (N.div_small (htr h / 256) 4) by lia.
  destruct (p2_bits bos st sp (hft h) Hbos Hst Hsp Hf) as (B1 & B2 & B3 & B4).
  rewrite B1, B2, B3, B4. cbn [N.eqb N.modulo N.div_eucl negb]. reflexivity.
Qed.

(* ---------- what Decode does with a completed slice ---------- *)
Definition cleared (d : dstate) : dstate := mkD (dfrags d) (dfsize d) (dfnext d) [] 0.
Definition push (d2 : dstate) (m : bool) (s : bytes) : dstate * dres bytes :=
  if cap <? dssize d2 + nlen s then (cleared d2, DErr) else
  let d3 := mkD (dfrags d2) (dfsize d2) (dfnext d2) (dslices d2 ++ [s]) (dssize d2 + nlen s) in
  if negb m then (d3, DMore) else
  match join (dslices d3) (dssize d3) with
  | None => (d3, DPanic)
  | Some ret => if validate ret ret then (cleared d3, DFrame ret) else (cleared d3, DErr)
  end.

Lemma dec_of_slice d p d2 s : decode_slice d p = (d2, SlSlice s) -> dec d p = push d2 (pmarker p) s.
Proof. intros H. unfold dec, push. rewrite H. reflexivity. Qed.
Lemma dec_of_more d p d2 : decode_slice d p = (d2, SlMore) -> dec d p = (d2, DMore).
Proof. intros H. unfold dec. rewrite H. reflexivity. Qed.

(* packets of a payload list: marker false, except that the last one gets [m] *)
Fixpoint bpkts (seq : N) (m : bool) (pls : list bytes) : list packet :=
  match pls with
  | [] => []
  | c :: t => mkPkt seq 0 (match t with [] => m | _ => false end) c :: bpkts (seq_next seq) m t
  end.
Lemma mk_pkts_bpkts pls : forall seq, mk_pkts seq pls = bpkts seq true pls.
Proof. induction pls as [|c t IH]; intros seq; cbn [mk_pkts bpkts]; [reflexivity|]. now rewrite IH. Qed.
Lemma bpkts_app a : forall seq m b, b <> [] -> exists s', bpkts seq m (a ++ b) = bpkts seq false a ++ bpkts s' m b.
Proof.
  induction a as [|x t IH]; intros seq m b Hb; [exists seq; reflexivity|].
  destruct (IH (seq_next seq) m b Hb) as [s' E]. exists s'. cbn [app bpkts]. rewrite E.
  destruct t; [|reflexivity]. destruct b; [contradiction|reflexivity].
Qed.
Lemma bpkts_length seq m pls : length (bpkts seq m pls) = length pls.
Proof. revert seq; induction pls as [|c t IH]; intros seq; cbn [bpkts length]; [reflexivity|]. now rewrite IH. Qed.

Lemma dec_run_app ps1 ps2 d :
  dec_run d (ps1 ++ ps2) =
  let '(d1, r1) := dec_run d ps1 in let '(d2, r2) := dec_run d1 ps2 in (d2, r1 ++ r2).
Proof.
  revert d; induction ps1 as [|p t IH]; intros d; cbn [app dec_run].
  - destruct (dec_run d ps2); reflexivity.
  - destruct (dec d p) as [d' r]. rewrite IH. destruct (dec_run d' t) as [d1 r1].
    destruct (dec_run d1 ps2) as [d2 r2]. reflexivity.
Qed.

(* same slice buffer *)
Definition same_sb (d d' : dstate) : Prop := dslices d' = dslices d /\ dssize d' = dssize d /\ (Inv d -> Inv d').
Lemma same_sb_refl d : same_sb d d.
Proof. unfold same_sb. tauto. Qed.

Lemma frag_payloads_cons h f c t : frag_payloads h f (c :: t) =
  (header h (if f then hbos h else 0) (if f then 1 else 0) (match t with [] => 1 | _ => 0 end) ++ c) :: frag_payloads h false t.
Proof. reflexivity. Qed.
Lemma bpkts_cons seq m c t : bpkts seq m (c :: t) =
  mkPkt seq 0 (match t with [] => m | _ => false end) c :: bpkts (seq_next seq) m t.
Proof. reflexivity. Qed.
Lemma frag_payloads_is_cons h f c t : exists x xs, frag_payloads h f (c :: t) = x :: xs.
Proof. do 2 eexists. reflexivity. Qed.

(* the continuation fragments of one slice: all "more", then the joined slice *)
Lemma chain_run h m : hdr_ok h -> forall cs d seq, cs <> [] -> 0 < dfsize d -> dfnext d = seq ->
  dfsize d = nlen (concat (dfrags d)) -> dfsize d + nlen (concat cs) <= cap ->
  exists d2, same_sb d d2 /\
    dec_run d (bpkts seq m (frag_payloads h false cs)) =
    (let '(d3, r) := push d2 m (concat (dfrags d) ++ concat cs) in (d3, repeat DMore (length cs - 1) ++ [r])).
Proof.
  intros Hh. induction cs as [|c t IH]; intros d seq Hne Hsz Hnx Hfs Hcap; [contradiction|].
  cbn [concat] in Hcap. rewrite nlen_app in Hcap.
  destruct t as [|c2 t2].
  - (* end fragment *)
    cbn [frag_payloads bpkts dec_run].
    assert (E : decode_slice d (mkPkt seq 0 m (header h 0 0 1 ++ c)) =
                (mkD [] 0 (dfnext d) (dslices d) (dssize d), SlSlice (concat (dfrags d) ++ c))).
    { rewrite decode_slice_hdr by (try assumption; lia). unfold ds_core. cbn [N.eqb andb].
      destruct (N.eqb_spec (dfsize d) 0); [lia|]. rewrite Hnx, N.eqb_refl. cbn [negb].
      destruct (N.ltb_spec cap (dfsize d + nlen c)); [lia|].
      replace (dfsize d + nlen c) with (nlen (concat (dfrags d ++ [c]))) by (rewrite concat_snoc, nlen_app; lia).
      rewrite join_exact, concat_snoc. reflexivity. }
    rewrite (dec_of_slice _ _ _ _ E). cbn [pmarker concat length Nat.sub repeat app]. rewrite app_nil_r.
    exists (mkD [] 0 (dfnext d) (dslices d) (dssize d)). split; [|destruct (push _ m _); reflexivity].
    unfold same_sb; cbn. splits; [reflexivity|reflexivity|]. intros (H1 & H2 & H3). unfold Inv; cbn. tauto.
  - (* middle fragment *)
    rewrite frag_payloads_cons. destruct (frag_payloads_is_cons h false c2 t2) as (x & xs & Et).
    rewrite bpkts_cons, Et. cbn [dec_run]. rewrite <- Et.
    assert (E : decode_slice d (mkPkt seq 0 false (header h 0 0 0 ++ c)) =
                (mkD (dfrags d ++ [c]) (dfsize d + nlen c) (seq_next (dfnext d)) (dslices d) (dssize d), SlMore)).
    { rewrite decode_slice_hdr by (try assumption; lia). unfold ds_core. cbn [N.eqb andb].
      destruct (N.eqb_spec (dfsize d) 0); [lia|]. rewrite Hnx, N.eqb_refl. cbn [negb].
      destruct (N.ltb_spec cap (dfsize d + nlen c)); [lia|]. reflexivity. }
    rewrite (dec_of_more _ _ _ E). set (d1 := mkD _ _ _ _ _).
    destruct (IH d1 (seq_next seq)) as (d2 & Hsb & Hrun); [discriminate|unfold d1; cbn; lia|unfold d1; cbn; now rewrite Hnx| | |].
    { unfold d1; cbn. rewrite concat_snoc, nlen_app. lia. }
    { unfold d1; cbn [dfsize]. lia. }
    rewrite Hrun. exists d2. split.
    + destruct Hsb as (S1 & S2 & S3). unfold same_sb. unfold d1 in *; cbn [dslices dssize] in *. splits; [assumption|assumption|].
      intros HI. apply S3. destruct HI as (H1 & H2 & H3). unfold Inv; cbn. rewrite concat_snoc, nlen_app. splits; [lia|assumption|assumption].
    + clear Hrun. unfold d1; cbn [dfrags]. rewrite concat_snoc, <- app_assoc. cbn [concat].
      destruct (push d2 m (concat (dfrags d) ++ c ++ c2 ++ concat t2)) as [d3 r].
      cbn [length Nat.sub]. rewrite Nat.sub_0_r. reflexivity.
Qed.

(* the packets of one batch, from ANY decoder state: "more" on all but the last, and the last one
   hands the batch's bytes (as one slice) to the frame level *)
Lemma batch_run max b h m : 5 <= max -> batch_ok max b -> hdr_ok h -> nlen (concat b) <= cap -> forall d seq,
  exists d2, same_sb d d2 /\
    dec_run d (bpkts seq m (batch_payloads max (b, h))) =
    (let '(d3, r) := push d2 m (concat b) in (d3, repeat DMore (length (batch_payloads max (b, h)) - 1) ++ [r])).
Proof.
  intros Hm (Hne & Hf & Hsz) Hh Htot d seq. pose proof Hh as (Ht & Hb & Hft).
  assert (AGG : forall body, exists d2, same_sb d d2 /\
    dec_run d (bpkts seq m [header h (hbos h) 1 1 ++ body]) =
    (let '(d3, r) := push d2 m body in (d3, repeat DMore (length [header h (hbos h) 1 1 ++ body] - 1) ++ [r]))).
  { intros body. exists d. split; [apply same_sb_refl|]. cbn [bpkts dec_run length Nat.sub repeat app].
    assert (E : decode_slice d (mkPkt seq 0 m (header h (hbos h) 1 1 ++ body)) = (d, SlSlice body)).
    { rewrite decode_slice_hdr by (try assumption; lia). reflexivity. }
    rewrite (dec_of_slice _ _ _ _ E). cbn [pmarker]. destruct (push d m body); reflexivity. }
  unfold batch_payloads. destruct b as [|s [|s2 t]]; [contradiction| |].
  - cbn [concat]. rewrite app_nil_r. inversion Hf as [|? ? Hs _]; subst.
    destruct (4 + nlen s <? max); [apply AGG|].
    assert (Hsne : s <> []) by (intros ->; cbn in Hs; lia).
    pose proof (chunks_bounds (max - 4) s ltac:(lia)) as Hcb.
    pose proof (chunks_concat (max - 4) s ltac:(lia)) as Hcc.
    pose proof (chunks_ne (max - 4) s ltac:(lia) Hsne) as Hcne.
    destruct (chunks (max - 4) s) as [|c1 [|c2 ct]]; [contradiction| |].
    + (* a single fragment carries B and E *)
      cbn [frag_payloads]. cbn [concat] in Hcc. rewrite app_nil_r in Hcc. subst c1. apply AGG.
    + rewrite frag_payloads_cons. destruct (frag_payloads_is_cons h false c2 ct) as (x & xs & Et).
      rewrite bpkts_cons, Et. cbn [dec_run]. rewrite <- Et.
      assert (Hc1 : 0 < nlen c1) by (inversion Hcb as [|? ? [Hx _] _]; exact Hx).
      assert (E : decode_slice d (mkPkt seq 0 false (header h (hbos h) 1 0 ++ c1)) =
                  (mkD [c1] (nlen c1) (seq_next seq) (dslices d) (dssize d), SlMore)).
      { rewrite decode_slice_hdr by (try assumption; lia). reflexivity. }
      rewrite (dec_of_more _ _ _ E). set (d1 := mkD _ _ _ _ _).
      destruct (chain_run h m Hh (c2 :: ct) d1 (seq_next seq)) as (d2 & Hsb & Hrun);
        [discriminate|unfold d1; cbn; lia|reflexivity|unfold d1; cbn; now rewrite app_nil_r| |].
      { unfold d1; cbn [dfsize]. cbn [concat] in Htot, Hcc. rewrite app_nil_r in Htot.
        rewrite <- Hcc, nlen_app in Htot. exact Htot. }
      rewrite Hrun. exists d2. split.
      * destruct Hsb as (S1 & S2 & S3). unfold same_sb. unfold d1 in *; cbn [dslices dssize] in *. splits; [assumption|assumption|].
        intros HI. apply S3. destruct HI as (H1 & H2 & H3). unfold Inv; cbn. rewrite app_nil_r. tauto.
      * clear Hrun. unfold d1; cbn [dfrags concat]. rewrite app_nil_r. cbn [concat] in Hcc. rewrite Hcc.
        destruct (push d2 m s) as [d3 r]. cbn [length Nat.sub]. rewrite !Nat.sub_0_r.
        assert (L : forall f cs, length (frag_payloads h f cs) = length cs).
        { intros f cs; revert f; induction cs as [|y ys IHy]; intros f; cbn [frag_payloads length]; [reflexivity|]. now rewrite IHy. }
        rewrite L. reflexivity.
  - apply AGG.
Qed.

(* ---------- frames ---------- *)
Definition clean (d : dstate) : Prop := dslices d = [] /\ dssize d = 0 /\ Inv d.

Lemma push_marker_clean d2 s : Inv d2 -> clean (fst (push d2 true s)).
Proof.
  intros (H1 & H2 & H3).
  assert (C : forall x, dfrags x = dfrags d2 -> dfsize x = dfsize d2 -> clean (cleared x)).
  { intros x E1 E2. unfold clean, cleared, Inv; cbn. rewrite E1, E2. splits; try reflexivity; try assumption.
    unfold cap, mpeg1video_max_frame_size; lia. }
  unfold push. destruct (N.ltb_spec cap (dssize d2 + nlen s)); cbn [fst]; [now apply C|]. cbn [negb dslices dssize].
  replace (dssize d2 + nlen s) with (nlen (concat (dslices d2 ++ [s]))) by (rewrite concat_snoc, nlen_app; lia).
  rewrite join_exact. destruct (validate _ _); cbn [fst]; now apply C.
Qed.

Lemma repeat_snoc {A} (x : A) n : (1 <= n)%nat -> repeat x (n - 1) ++ [x] = repeat x n.
Proof. intros H. destruct n; [lia|]. cbn [Nat.sub]. rewrite Nat.sub_0_r. symmetry. apply repeat_cons. Qed.

Lemma batches_ne max slices : slices <> [] -> batches max slices <> [].
Proof.
  intros Hne. unfold batches. destruct slices as [|s t]; [contradiction|]. rewrite batching_top.
  clear Hne. generalize (upd (mkH 0 0 0) s) as h. generalize [s] as b. induction t as [|x t IH]; intros b h; cbn [batching]; [discriminate|].
  destruct (_ <=? _); [apply IH|]. destruct b; [apply IH|discriminate].
Qed.

(* all packets of a frame: the batches one after the other, marker on the very last packet *)
Lemma batches_run max : 5 <= max -> forall bhs, bhs <> [] ->
  Forall (fun bh => batch_ok max (fst bh)) bhs -> Forall (fun bh => hdr_ok (snd bh)) bhs ->
  forall d seq, Inv d ->
  let F := concat (dslices d) ++ concat (map (fun bh => concat (fst bh)) bhs) in
  nlen F <= cap -> validate F F = true ->
  let P := concat (map (batch_payloads max) bhs) in
  exists d', dec_run d (bpkts seq true P) = (d', repeat DMore (length P - 1) ++ [DFrame F]) /\ clean d'.
Proof.
  intros Hm. induction bhs as [|[b h] rest IH]; intros Hne Hbo Hho d seq HI F HF HV P; [contradiction|].
  inversion Hbo as [|? ? Hb Hbo']; subst. inversion Hho as [|? ? Hh Hho']; subst. cbn [fst snd] in Hb, Hh.
  destruct (batch_payloads_facts max b h Hm Hb) as (P1 & _ & _).
  destruct rest as [|bh2 rest2].
  - (* last batch *)
    clear IH. subst P F. cbn [map concat fst] in *. rewrite !app_nil_r in *.
    destruct (batch_run max b h true Hm Hb Hh ltac:(rewrite nlen_app in HF; lia) d seq) as (d2 & (S1 & S2 & S3) & Hrun). rewrite Hrun.
    specialize (S3 HI). pose proof S3 as (I1 & I2 & I3). pose proof HI as (J1 & J2 & J3).
    unfold push. rewrite nlen_app in HF. destruct (N.ltb_spec cap (dssize d2 + nlen (concat b))); [lia|].
    cbn [negb dslices dssize].
    replace (dssize d2 + nlen (concat b)) with (nlen (concat (dslices d2 ++ [concat b]))) by (rewrite concat_snoc, nlen_app; lia).
    rewrite join_exact, concat_snoc, S1, HV. eexists. split; [reflexivity|].
    unfold clean, cleared, Inv; cbn. splits; try reflexivity; try assumption. unfold cap, mpeg1video_max_frame_size; lia.
  - (* a batch followed by more *)
    set (Prest := concat (map (batch_payloads max) (bh2 :: rest2))) in *.
    assert (HPr : Prest <> []).
    { inversion Hbo' as [|? ? Hb2 _]; subst. destruct bh2 as [b2 h2]. cbn [fst] in Hb2.
      destruct (batch_payloads_facts max b2 h2 Hm Hb2) as (Q1 & _ & _). unfold Prest. cbn [map concat].
      intros E. apply app_eq_nil in E. destruct E as [E _]. contradiction. }
    subst P. change (concat (map (batch_payloads max) ((b, h) :: bh2 :: rest2))) with (batch_payloads max (b, h) ++ Prest).
    destruct (bpkts_app (batch_payloads max (b, h)) seq true Prest HPr) as [s' ->].
    rewrite dec_run_app.
    assert (Htot : nlen (concat b) <= cap) by (subst F; cbn [map concat fst] in HF; rewrite !nlen_app in HF; lia).
    destruct (batch_run max b h false Hm Hb Hh Htot d seq) as (d2 & (S1 & S2 & S3) & Hrun). rewrite Hrun.
    specialize (S3 HI). pose proof S3 as (I1 & I2 & I3). pose proof HI as (J1 & J2 & J3).
    subst F. cbn [map concat fst] in *. rewrite !nlen_app in HF.
    unfold push. destruct (N.ltb_spec cap (dssize d2 + nlen (concat b))); [lia|]. cbn [negb].
    set (d3 := mkD _ _ _ (dslices d2 ++ [concat b]) _).
    assert (HI3 : Inv d3). { unfold Inv, d3; cbn. rewrite concat_snoc, nlen_app. splits; [assumption|lia|lia]. }
    destruct (IH ltac:(discriminate) Hbo' Hho' d3 s' HI3) as (d' & Hrun' & Hcl).
    + unfold d3; cbn [dslices]. rewrite concat_snoc, S1, <- app_assoc, !nlen_app. cbn [map concat fst] in *. lia.
    + unfold d3; cbn [dslices]. rewrite concat_snoc, S1, <- app_assoc. exact HV.
    + fold Prest in Hrun'. rewrite Hrun'. exists d'. split; [|exact Hcl]. f_equal.
      assert (EF : concat (dslices d3) ++ concat (fst bh2) ++ concat (map (fun bh => concat (fst bh)) rest2) =
                   concat (dslices d) ++ concat b ++ concat (fst bh2) ++ concat (map (fun bh => concat (fst bh)) rest2)).
      { unfold d3; cbn [dslices]. rewrite concat_snoc, S1, <- app_assoc. reflexivity. }
      rewrite EF. rewrite (repeat_snoc DMore); [|destruct (batch_payloads max (b, h)); [contradiction|cbn; lia]].
      rewrite app_assoc, <- repeat_app. do 2 f_equal. rewrite app_length.
      assert (1 <= length Prest)%nat by (destruct Prest; [contradiction|cbn; lia]). lia.
Qed.

Definition valid_frame (f : bytes) : Prop := bytes_ok f /\ encodable f /\ nlen f <= cap.

(* C03: one frame from any clean state *)
Theorem roundtrip max seq f d : 5 <= max -> valid_frame f -> clean d ->
  exists ps seq', enc max seq f = EOk ps seq' /\
  exists d', dec_run d ps = (d', repeat DMore (length ps - 1) ++ [DFrame f]) /\ clean d'.
Proof.
  intros Hm (Hb & [slices Hs] & Hc) (C1 & C2 & HI).
  destruct (scan_ok _ _ _ Hs) as (Hcc & Hf & Hne).
  rewrite (enc_ok max seq f slices Hm Hs). do 2 eexists. split; [reflexivity|].
  rewrite mk_pkts_bpkts, bpkts_length. unfold payloads.
  pose proof (batching_concat max slices [] (mkH 0 0 0)) as Hbc. fold (batches max slices) in Hbc. cbn [concat app] in Hbc.
  destruct (batches_run max Hm (batches max slices) (batches_ne max slices Hne) (batches_ok max slices Hne Hf)
              (batching_hdr max slices [] (mkH 0 0 0) ltac:(unfold hdr_ok; cbn; lia) (scan_bytes_ok _ _ _ Hs Hb)) d seq HI) as (d' & Hrun & Hcl).
  - rewrite C1, Hbc, Hcc. cbn [concat app]. exact Hc.
  - rewrite C1, Hbc, Hcc. cbn [concat app]. now apply (scan_validate f f slices).
  - rewrite C1, Hbc, Hcc in Hrun. cbn [concat app] in Hrun. exists d'. split; assumption.
Qed.

(* consecutive frames *)
Fixpoint expect (pss : list (list packet)) (frames : list bytes) : list (dres bytes) :=
  match pss, frames with
  | ps :: pt, f :: ft => repeat DMore (length ps - 1) ++ [DFrame f] ++ expect pt ft
  | _, _ => []
  end.

Theorem roundtrip_seq max frames : 5 <= max -> Forall valid_frame frames -> forall seq d, clean d ->
  exists pss, enc_many max seq frames = Some pss /\
  exists d', dec_run d (concat pss) = (d', expect pss frames) /\ clean d'.
Proof.
  intros Hm. induction 1 as [|f t Hf Ht IH]; intros seq d Hcl; cbn [enc_many].
  - exists []. split; [reflexivity|]. exists d. split; [reflexivity|assumption].
  - destruct (roundtrip max seq f d Hm Hf Hcl) as (ps & seq' & -> & d1 & Hr1 & Hc1).
    destruct (IH seq' d1 Hc1) as (pss & -> & d2 & Hr2 & Hc2). exists (ps :: pss). split; [reflexivity|].
    exists d2. split; [|assumption]. cbn [concat expect]. rewrite dec_run_app, Hr1, Hr2. now rewrite <- app_assoc.
Qed.

(* ---------- resynchronisation (C07) ---------- *)
(* an intact frame (all its packets, in order) leaves any reachable state clean *)
Lemma absorb max seq f slices d : 5 <= max -> bytes_ok f -> scan f f = SOk slices -> nlen f <= cap -> Inv d ->
  clean (fst (dec_run d (mk_pkts seq (payloads max slices)))).
Proof.
  intros Hm Hb Hs Hcap HI. destruct (scan_ok _ _ _ Hs) as (Hcc & Hf & Hne).
  pose proof (batching_concat max slices [] (mkH 0 0 0)) as Hbc. fold (batches max slices) in Hbc. cbn [concat app] in Hbc.
  pose proof (batches_ne max slices Hne) as Hbne. pose proof (batches_ok max slices Hne Hf) as Hbo.
  pose proof (batching_hdr max slices [] (mkH 0 0 0) ltac:(unfold hdr_ok; cbn; lia) (scan_bytes_ok _ _ _ Hs Hb)) as Hho.
  fold (batches max slices) in Hho. rewrite mk_pkts_bpkts. unfold payloads.
  destruct (exists_last Hbne) as (init & [b h] & E). rewrite E in *.
  apply Forall_app in Hbo. destruct Hbo as [_ Hbl]. inversion Hbl as [|? ? Hb1 _]; subst. cbn [fst] in Hb1.
  apply Forall_app in Hho. destruct Hho as [_ Hhl]. inversion Hhl as [|? ? Hh1 _]; subst. cbn [snd] in Hh1.
  rewrite map_app, concat_app. cbn [map concat]. rewrite app_nil_r.
  destruct (batch_payloads_facts max b h Hm Hb1) as (P1 & _ & _).
  destruct (bpkts_app (concat (map (batch_payloads max) init)) seq true _ P1) as [s' ->].
  rewrite dec_run_app.
  pose proof (dec_run_inv (bpkts seq false (concat (map (batch_payloads max) init))) d HI) as (HI1 & _).
  destruct (dec_run d (bpkts seq false _)) as [d1 r1]. cbn [fst] in HI1.
  assert (Htot : nlen (concat b) <= cap).
  { rewrite map_app, concat_app in Hbc. cbn [map concat fst] in Hbc. rewrite app_nil_r in Hbc.
    apply (f_equal nlen) in Hbc. rewrite nlen_app in Hbc. lia. }
  destruct (batch_run max b h true Hm Hb1 Hh1 Htot d1 s') as (d2 & (S1 & S2 & S3) & Hrun). rewrite Hrun.
  pose proof (push_marker_clean d2 (concat b) (S3 HI1)) as Hc. destruct (push d2 true (concat b)) as [d3 r]. exact Hc.
Qed.

(* After ANY packet history, one intact valid frame f1 is enough: the next intact frame f2 (whatever its
   sequence numbers: whole frames may have been lost in between) is returned exactly at its last
   packet, "more" before, and the decoder is clean afterwards. *)
Theorem resync max hist f1 f2 s1 s2 : 5 <= max -> valid_frame f1 -> valid_frame f2 ->
  exists ps1 q1 ps2 q2, enc max s1 f1 = EOk ps1 q1 /\ enc max s2 f2 = EOk ps2 q2 /\
  let d0 := fst (dec_run dinit hist) in
  let d1 := fst (dec_run d0 ps1) in
  exists d2, dec_run d1 ps2 = (d2, repeat DMore (length ps2 - 1) ++ [DFrame f2]) /\ clean d2.
Proof.
  intros Hm (Hb1 & [sl1 Hs1] & Hc1) Hv2.
  assert (Hcl : clean (fst (dec_run (fst (dec_run dinit hist)) (mk_pkts s1 (payloads max sl1))))).
  { apply (absorb max s1 f1 sl1); try assumption. apply (dec_run_inv hist dinit inv_init). }
  destruct (roundtrip max s2 f2 _ Hm Hv2 Hcl) as (ps2 & q2 & He2 & d2 & Hr & Hc2).
  exists (mk_pkts s1 (payloads max sl1)), (seq_add s1 (nlen (payloads max sl1))), ps2, q2.
  split; [now apply enc_ok|]. split; [exact He2|]. exists d2. split; assumption.
Qed.

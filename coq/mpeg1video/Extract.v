From Coq Require Extraction ExtrOcamlBasic.
From GV_mpeg1video Require Import Model.
Extraction Language OCaml.
Extraction "model.ml" run.
